(* C16 — the hand model's decision functions equal the definitions regenerated from utils.go / async_producer.go /
   produce_set.go by decgen (coq/Gen/DecC16.v; every check regenerates them from the source and compares with that golden). *)
From Coq Require Import List ZArith Bool String.
From SV Require Import Gen.GoInt Gen.DecTypes Gen.DecTypes2 Gen.DecC16 Gen.DecC01 C16.Model.
Import ListNotations.
Open Scope Z_scope.

Definition vlist (v : version) : list Z := let '(a, b, c, d) := v in [a; b; c; d].

Lemma tie_is_at_least : forall v o, Model.is_at_least v o = DecC16.is_at_least (vlist v) (vlist o).
Proof.
  intros [[[a1 a2] a3] a4] [[[b1 b2] b3] b4].
  unfold Model.is_at_least, DecC16.is_at_least, vlist.
  cbn [is_at_least_loop1 zidx Z.to_nat nth Z.add Pos.to_nat Pos.iter_op Nat.add].
  change (zidx [a1; a2; a3; a4] 0) with a1. change (zidx [b1; b2; b3; b4] 0) with b1.
  change (zidx [a1; a2; a3; a4] (0 + 1)) with a2. change (zidx [b1; b2; b3; b4] (0 + 1)) with b2.
  change (zidx [a1; a2; a3; a4] (0 + 1 + 1)) with a3. change (zidx [b1; b2; b3; b4] (0 + 1 + 1)) with b3.
  change (zidx [a1; a2; a3; a4] (0 + 1 + 1 + 1)) with a4. change (zidx [b1; b2; b3; b4] (0 + 1 + 1 + 1)) with b4.
  reflexivity.
Qed.

Lemma olen_optz : forall o, olen o = optz o.
Proof. destruct o; reflexivity. Qed.

Lemma byte_size_loop : forall l ver hs k v acc,
  DecC16.byte_size_loop1 l ver hs k v acc = acc + headers_size l + olen k + olen v.
Proof.
  induction l as [|[a b] l IH]; intros ver hs k v acc; cbn [byte_size_loop1 headers_size].
  - destruct k, v; cbn [is_some optz olen]; ring.
  - rewrite IH. cbn [fst snd]. unfold header_overhead. ring.
Qed.

Lemma tie_byte_size : forall ver m,
  Model.byte_size ver m = DecC16.byte_size ver (m_headers m) (m_key m) (m_val m).
Proof.
  intros ver m. unfold Model.byte_size, DecC16.byte_size. destruct (ver >=? 2).
  - cbv zeta. rewrite byte_size_loop. unfold maximum_record_overhead. ring.
  - cbv zeta. unfold producer_message_overhead. destruct (m_key m), (m_val m); cbn [is_some optz olen]; ring.
Qed.

Lemma tie_empty : forall s, Model.is_empty s = DecC16.empty (s_count s).
Proof. reflexivity. Qed.

Lemma tie_ready_to_flush : forall c s,
  Model.ready_to_flush c s =
  DecC16.ready_to_flush (s_bytes s) (s_count s) (c_flush_frequency c) (c_flush_bytes c) (c_flush_messages c).
Proof. reflexivity. Qed.

Lemma tie_msg_version : forall c,
  msg_version c = if DecC16.is_at_least (vlist (c_version c)) [0; 11; 0; 0] then 2 else 1.
Proof. intro c. unfold msg_version. rewrite tie_is_at_least. reflexivity. Qed.

(* ps.msgs[topic] != nil, ps.msgs[topic][partition] (its bufferBytes) *)
Definition part_bytes (s : produce_set) (m : msg) : option Z :=
  match lookup (mkey m) (s_parts s) with Some p => Some (ps_bytes p) | None => None end.

Lemma tie_would_overflow : forall c s m,
  Model.would_overflow c s m =
  DecC16.would_overflow (s_bytes s) (s_count s) (is_some (part_bytes s m)) (part_bytes s m) (vlist (c_version c))
    (c_max_request_size c) (c_max_message_bytes c) (c_max_messages c) (m_headers m) (m_key m) (m_val m).
Proof.
  intros c s m. unfold Model.would_overflow, DecC16.would_overflow, part_bytes. cbv zeta.
  rewrite tie_msg_version, !tie_byte_size.
  destruct (DecC16.is_at_least (vlist (c_version c)) [0; 11; 0; 0]);
    destruct (lookup (mkey m) (s_parts s)); cbn [is_some optz andb]; reflexivity.
Qed.

Definition gen_verdict (x : list prod_action * exit unit) : dverdict :=
  match fst x with
  | [] => DForward
  | [PA_return_error (EK 10)] => DRejectTooLarge      (* ErrMessageSizeTooLarge *)
  | _ => DRejectHeaders
  end.

Lemma tie_dispatcher_check : forall c m,
  Model.dispatcher_check c m =
  gen_verdict (DecC16.dispatch_check (vlist (c_version c)) (m_has_headers m) (c_max_message_bytes c)
                 (m_headers m) (m_key m) (m_val m)).
Proof.
  intros c m. unfold Model.dispatcher_check, DecC16.dispatch_check, gen_verdict. cbv zeta.
  rewrite tie_msg_version, tie_is_at_least. change (vlist v0_11_0_0) with [0; 11; 0; 0].
  destruct (DecC16.is_at_least (vlist (c_version c)) [0; 11; 0; 0]); cbn [negb andb].
  - rewrite tie_byte_size. destruct (_ >? _); reflexivity.
  - destruct (m_has_headers m); [reflexivity|]. rewrite tie_byte_size. destruct (_ >? _); reflexivity.
Qed.

(* the forwarding / continue structure of the slice agrees too *)
Lemma tie_dispatcher_exit : forall c m,
  (Model.dispatcher_check c m = DForward <->
   snd (DecC16.dispatch_check (vlist (c_version c)) (m_has_headers m) (c_max_message_bytes c) (m_headers m) (m_key m) (m_val m)) = ExFall).
Proof.
  intros c m. rewrite tie_dispatcher_check. unfold DecC16.dispatch_check, gen_verdict. cbv zeta.
  destruct (DecC16.is_at_least (vlist (c_version c)) [0; 11; 0; 0]).
  - destruct (_ >? _); cbn [fst snd]; split; intro H; try reflexivity; discriminate.
  - destruct (m_has_headers m); [cbn [fst snd]; split; intro H; discriminate|].
    destruct (_ >? _); cbn [fst snd]; split; intro H; try reflexivity; discriminate.
Qed.

(* ================================================================ the loop's own lines *)
(* `if Flush.Frequency > 0 && bp.timer == nil { bp.timer = time.After(...) }` after an add: the model's new armed flag *)
Lemma tie_arm_timer : forall f armed,
  (armed || (f >? 0)) =
  armed || match fst (DecC16.arm_flush_timer f armed) with [] => false | _ => true end.
Proof.
  intros f armed. unfold DecC16.arm_flush_timer. cbv zeta. cbn [fst].
  destruct armed; [reflexivity|]. cbn [negb orb]. rewrite andb_true_r. destruct (f >? 0); reflexivity.
Qed.

(* the bottom of every pass of the loop: the model's recompute *)
Lemma tie_enable_output : forall c s o,
  b_out (recompute c s) =
  is_some (fst (DecC16.enable_output o (b_fired s) (s_bytes (b_buf s)) (s_count (b_buf s))
                  (c_flush_frequency c) (c_flush_bytes c) (c_flush_messages c))).
Proof.
  intros c s o. unfold recompute, DecC16.enable_output. cbv zeta. cbn [b_out fst].
  rewrite tie_ready_to_flush. destruct (b_fired s || _); reflexivity.
Qed.

(* rollOver *)
Lemma tie_roll_over : forall s t f,
  let '(t', f', acts) := DecC16.roll_over t f in
  b_armed (Model.roll_over s) = is_some t' /\ b_fired (Model.roll_over s) = f' /\
  b_buf (Model.roll_over s) = empty_set /\ acts = [BP_new_buffer] /\
  b_out (Model.roll_over s) = b_out s /\ b_pending (Model.roll_over s) = b_pending s.
Proof. intros s t f. cbn. repeat split; reflexivity. Qed.

(* waitForSpace after a response was handled: needsRetry first, then the overflow test (decgen group C01) *)
Definition retry_flag (closing cur : gerr) : bool := negb (gerr_eqb (DecC01.needs_retry closing cur) ENil).

Lemma tie_wait_recheck : forall c s m drops closing cur, b_pending s = Some m ->
  let s' := handle_response s drops in
  step c s (EvResponse drops (retry_flag closing cur)) =
  match DecC01.wait_for_space_recheck false closing cur (would_overflow c (b_buf s') m) with
  | ExReturn ENil => do_add c s' m                      (* waitForSpace returns nil: the message is added *)
  | ExReturn _ => (set_pending s' None, [Retried m])    (* returns the reason: retryMessage; continue *)
  | _ => (s', [])                                       (* keeps waiting *)
  end.
Proof.
  intros c s m drops closing cur Hp. cbv zeta. cbn [step]. rewrite Hp.
  unfold retry_flag, DecC01.wait_for_space_recheck. cbv zeta.
  destruct (gerr_eqb (needs_retry closing cur) ENil) eqn:E; cbn [negb].
  - rewrite andb_true_r. destruct (would_overflow c (b_buf (handle_response s drops)) m); reflexivity.
  - destruct (needs_retry closing cur) eqn:En; try reflexivity.
    cbn in E. discriminate.
Qed.

(* a message arriving at the worker: the model's needs_retry flag is "bounced or stray chaser" of the input
   classification (decgen group C01); syn markers are bookkeeping and are not events of the model *)
Definition input_retry_flag (flags : Z) (closing cur : gerr) : bool :=
  retry_flag closing cur || (Z.land flags 2 =? 2).

Lemma tie_input_class : forall flags closing cur nilmap, Z.land flags 1 =? 1 = false ->
  (input_retry_flag flags closing cur = false <->
   snd (DecC01.bp_input_class flags closing cur nilmap) = ExFall) /\
  (input_retry_flag flags closing cur = true ->
   snd (DecC01.bp_input_class flags closing cur nilmap) = ExContinue /\
   exists e rest, fst (DecC01.bp_input_class flags closing cur nilmap) = BP_retry e :: rest).
Proof.
  intros flags closing cur nilmap Hsyn. unfold input_retry_flag, retry_flag, DecC01.bp_input_class. rewrite Hsyn. cbv zeta.
  destruct (gerr_eqb (needs_retry closing cur) ENil) eqn:E; cbn [negb orb].
  - destruct (Z.land flags 2 =? 2); cbn [fst snd]; split.
    + split; intro H; discriminate.
    + intros _. split; [reflexivity|]. eexists; eexists; reflexivity.
    + split; reflexivity.
    + intro H; discriminate.
  - split.
    + split; intro H; [discriminate|].
      destruct (gerr_eqb closing ENil && (Z.land flags 2 =? 2)); cbn [snd] in H; discriminate.
    + intros _. destruct (gerr_eqb closing ENil && (Z.land flags 2 =? 2)); cbn [fst snd];
        (split; [reflexivity|]; eexists; eexists; reflexivity).
Qed.
