(* C16 — correspondence: go/harness/cmd/c16corr drives a real produceSet through an in-package shim (scase),
   runs real AsyncProducers against a mock broker and measures every produce request (bcase), and observes whether
   buffered messages get flushed without further input (fcase); these functions re-run the model and compare. *)
From Coq Require Import List ZArith Bool.
From SV Require Import Base.Corr C16.Model.
Import ListNotations.
Open Scope Z_scope.

(* ---------- (a) produceSet operations ---------- *)
Inductive op :=
| OWould (m : msg) (obs : bool)
| OAdd (m : msg) (obs_ok : bool) (obs_bytes obs_count obs_pbytes obs_pcount : Z)   (* counters after add *)
| ORoll
| ODrop (k : Z * Z) (obs_n obs_bytes obs_count : Z)
| OReady (obs_ready obs_empty : bool)
| OSize (m : msg) (ver : Z) (obs : Z)
| ODispatch (m : msg) (obs : Z)                      (* the dispatcher's test: 0 forward 1 headers 2 too large *)
| OBuild (obs_batches : list (Z * Z * Z * Z)) (obs_len : Z) (obs_enc_ok : bool).
   (* (topic, partition, messages, key+value bytes) sorted; wire length; encode() succeeded *)

Record scase := { sc_cfg : cfg; sc_ops : list op }.

Definition verdict_code (v : dverdict) : Z := match v with DForward => 0 | DRejectHeaders => 1 | DRejectTooLarge => 2 end.

Definition key_leb (a b : Z * Z) : bool := (fst a <? fst b) || (Z.eqb (fst a) (fst b) && (snd a <=? snd b)).
Fixpoint insert_b (x : Z * Z * Z * Z) (l : list (Z * Z * Z * Z)) : list (Z * Z * Z * Z) :=
  match l with
  | [] => [x]
  | y :: r => let '(t1, p1, _, _) := x in let '(t2, p2, _, _) := y in
              if key_leb (t1, p1) (t2, p2) then x :: l else y :: insert_b x r
  end.
Fixpoint sort_b (l : list (Z * Z * Z * Z)) : list (Z * Z * Z * Z) :=
  match l with [] => [] | x :: r => insert_b x (sort_b r) end.
Definition batches_of (s : produce_set) : list (Z * Z * Z * Z) :=
  sort_b (map (fun kp => (fst (fst kp), snd (fst kp), Z.of_nat (length (ps_msgs (snd kp))), pset_kv (snd kp))) (s_parts s)).
Definition z4_eqb (a b : Z * Z * Z * Z) : bool :=
  let '(a1, a2, a3, a4) := a in let '(b1, b2, b3, b4) := b in Z.eqb a1 b1 && Z.eqb a2 b2 && Z.eqb a3 b3 && Z.eqb a4 b4.

Fixpoint run_ops (c : cfg) (s : produce_set) (ops : list op) : bool :=
  match ops with
  | [] => true
  | o :: rest =>
    match o with
    | OWould m obs => Bool.eqb (would_overflow c s m) obs && run_ops c s rest
    | OAdd m ok b n pb pn =>
      match add c s m with
      | None => negb ok && Z.eqb (s_bytes s) b && Z.eqb (s_count s) n && run_ops c s rest
      | Some s' =>
        ok && Z.eqb (s_bytes s') b && Z.eqb (s_count s') n &&
        match lookup (mkey m) (s_parts s') with
        | Some p => Z.eqb (ps_bytes p) pb && Z.eqb (Z.of_nat (length (ps_msgs p))) pn
        | None => false end && run_ops c s' rest
      end
    | ORoll => run_ops c empty_set rest
    | ODrop k n b cnt =>
      let '(s', dropped) := drop_partition s k in
      Z.eqb (Z.of_nat (length dropped)) n && Z.eqb (s_bytes s') b && Z.eqb (s_count s') cnt && run_ops c s' rest
    | OReady r e => Bool.eqb (ready_to_flush c s) r && Bool.eqb (is_empty s) e && run_ops c s rest
    | OSize m ver obs => Z.eqb (byte_size ver m) obs && run_ops c s rest
    | ODispatch m obs => Z.eqb (verdict_code (dispatcher_check c m)) obs && run_ops c s rest
    | OBuild bs len enc => list_eqb z4_eqb (batches_of s) bs && Bool.eqb (encode_guard c len) enc && run_ops c s rest
    end
  end.
Definition ok_s (x : scase) : bool := run_ops (sc_cfg x) empty_set (sc_ops x).
Definition mismatches_s := mismatches ok_s.

(* ---------- (b) produce requests measured at the mock broker ---------- *)
(* the interceptors the harness installs: grow the value by d bytes, replace the value by one of v bytes, add a header,
   panic at once (recovered by the producer: no effect) *)
Inductive icpt := IGrowVal (d : Z) | ISetVal (v : Z) | IAddHeader (k v : Z) | IPanic.
Definition apply_icpt (i : icpt) : interceptor := fun m =>
  match i with
  | IGrowVal d => {| m_id := m_id m; m_topic := m_topic m; m_part := m_part m; m_key := m_key m; m_val := Some (olen (m_val m) + d);
                     m_headers := m_headers m; m_has_headers := m_has_headers m; m_encfail := m_encfail m |}
  | ISetVal v => {| m_id := m_id m; m_topic := m_topic m; m_part := m_part m; m_key := m_key m; m_val := Some v;
                    m_headers := m_headers m; m_has_headers := m_has_headers m; m_encfail := m_encfail m |}
  | IAddHeader k v => {| m_id := m_id m; m_topic := m_topic m; m_part := m_part m; m_key := m_key m; m_val := m_val m;
                         m_headers := m_headers m ++ [(k, v)]; m_has_headers := true; m_encfail := m_encfail m |}
  | IPanic => m
  end.

Record breq := { br_batches : list (Z * Z * list Z); br_wire : Z }.   (* (topic, partition, message ids in order) *)
Record bcase := { bc_cfg : cfg; bc_icpts : list icpt; bc_msgs : list msg; bc_fate : list (Z * Z); bc_reqs : list breq }.
   (* bc_fate: (message id, 0 delivered | 1 rejected: headers | 2 rejected: too large | 9 failed after the dispatcher) *)

Fixpoint find_msg (id : Z) (ms : list msg) : option msg :=
  match ms with [] => None | m :: r => if Z.eqb (m_id m) id then Some m else find_msg id r end.
Fixpoint msgs_of (ids : list Z) (ms : list msg) : option (list msg) :=
  match ids with
  | [] => Some []
  | i :: r => match find_msg i ms, msgs_of r ms with Some m, Some l => Some (m :: l) | _, _ => None end
  end.
Fixpoint set_of (bs : list (Z * Z * list Z)) (ms : list msg) : option (list ((Z * Z) * pset)) :=
  match bs with
  | [] => Some []
  | (t, p, ids) :: r =>
    match msgs_of ids ms, set_of r ms with
    | Some l, Some rest => Some (((t, p), {| ps_msgs := l; ps_bytes := 0 |}) :: rest)
    | _, _ => None
    end
  end.
Definition req_ok (c : cfg) (ms : list msg) (r : breq) : bool :=
  match set_of (br_batches r) ms with
  | None => false
  | Some parts => sent_ok c {| s_parts := parts; s_bytes := 0; s_count := 0 |} && encode_guard c (br_wire r)
  end.
Definition fate_ok (c : cfg) (ms : list msg) (f : Z * Z) : bool :=
  match find_msg (fst f) ms with
  | Some m => Z.eqb (verdict_code (dispatcher_check c m)) (snd f) ||
              (Z.eqb (snd f) 9 && Z.eqb (verdict_code (dispatcher_check c m)) 0)
  | None => false
  end.
(* fates and request contents are judged on the messages as the interceptor chain left them *)
Definition ok_b (x : bcase) : bool :=
  let ms := map (fun m => snd (dispatcher_admit (bc_cfg x) (map apply_icpt (bc_icpts x)) m)) (bc_msgs x) in
  Nat.eqb (length (bc_fate x)) (length (bc_msgs x)) &&
  forallb (fate_ok (bc_cfg x) ms) (bc_fate x) && forallb (req_ok (bc_cfg x) ms) (bc_reqs x).
Definition mismatches_b := mismatches ok_b.

(* ---------- (c) is the buffer flushed without further input? ---------- *)
(* rounds of messages; after each round the harness waits (no further input) until everything sent so far is
   acknowledged, or gives up; fc_flushed: per attempted round, whether it was flushed (the run stops at the first false) *)
Record fcase := { fc_cfg : cfg; fc_rounds : list (list msg); fc_flushed : list bool }.

Definition st (x : bstate * list output) : bstate := fst x.
Definition take_if_enabled (c : cfg) (s : bstate) : bstate :=
  if enabled s EvHandOff then st (step c s EvHandOff) else s.
(* the bridge takes the buffer as soon as it is offered *)
Fixpoint feed_eager (c : cfg) (s : bstate) (ms : list msg) : bstate :=
  match ms with
  | [] => s
  | m :: r => feed_eager c (take_if_enabled c (take_if_enabled c (st (step c s (EvMsg m false))))) r
  end.
(* the bridge is busy: it takes the buffer only when the worker waits for space *)
Definition take_if_pending (c : cfg) (s : bstate) : bstate :=
  match b_pending s with Some _ => st (step c s EvHandOff) | None => s end.
Fixpoint feed_lazy (c : cfg) (s : bstate) (ms : list msg) : bstate :=
  match ms with
  | [] => s
  | m :: r => feed_lazy c (take_if_pending c (st (step c s (EvMsg m false)))) r
  end.
(* no further input: the bridge is free, the timer may fire; the state afterwards *)
Definition drain (c : cfg) (s : bstate) : bstate :=
  let s1 := take_if_enabled c (take_if_enabled c s) in
  if enabled s1 EvTimer then take_if_enabled c (take_if_enabled c (st (step c s1 EvTimer))) else s1.
Definition drained (s : bstate) : bool :=
  is_empty (b_buf s) && match b_pending s with None => true | Some _ => false end.

(* Some l: the per-round verdicts, when they do not depend on how busy the bridge is; None: schedule dependent *)
Fixpoint rounds_verdict (c : cfg) (se sl : bstate) (rs : list (list msg)) : option (list bool) :=
  match rs with
  | [] => Some []
  | ms :: rest =>
    let se' := drain c (feed_eager c se ms) in
    let sl' := drain c (feed_lazy c sl ms) in
    if Bool.eqb (drained se') (drained sl') then
      if drained se' then
        match rounds_verdict c se' sl' rest with Some l => Some (true :: l) | None => None end
      else Some [false]
    else None
  end.
Definition ok_f (x : fcase) : bool :=
  match rounds_verdict (fc_cfg x) binit binit (fc_rounds x) with
  | Some l => list_eqb Bool.eqb l (fc_flushed x)
  | None => true
  end.
Definition mismatches_f := mismatches ok_f.

(* ---------- (d) steered event scripts: partitions dropped from a waiting buffer ---------- *)
(* one event script per broker worker involved (the harness steers the order with a gated mock broker: the first
   request stays unanswered while the next buffer fills, then its response drops a partition from that buffer);
   ec_flushed: every message got its outcome with no further input *)
Record ecase := { ec_cfg : cfg; ec_workers : list (list event); ec_flushed : bool }.
Definition worker_drains (c : cfg) (evs : list event) : bool := drained (drain c (fst (run c binit evs))).
(* whether or not the timer fires before the response arrives must not matter *)
Fixpoint with_timer_before_responses (evs : list event) : list event :=
  match evs with
  | [] => []
  | EvResponse d r :: rest => EvTimer :: EvResponse d r :: with_timer_before_responses rest
  | e :: rest => e :: with_timer_before_responses rest
  end.
Definition ok_e (x : ecase) : bool :=
  let a := forallb (worker_drains (ec_cfg x)) (ec_workers x) in
  let b := forallb (fun evs => worker_drains (ec_cfg x) (with_timer_before_responses evs)) (ec_workers x) in
  if Bool.eqb a b then Bool.eqb (ec_flushed x) a else true.
Definition mismatches_e := mismatches ok_e.

(* ---------- (e) local trace validation of the broker worker ---------- *)
(* The hook points of brokerProducer.run log, per worker goroutine, every loop event and the worker's own state
   (bufferCount, bufferBytes, bp.timer != nil, bp.timerFired; with the bp.iter point also whether `output` is set).
   The trace is replayed through [step]: every event must be enabled in the model state, and every logged state must
   equal the model state at that point. *)
Inductive titem :=
| TEv (e : event)
| TObs (count bytes : Z) (armed fired : bool)   (* state at a hook point = state after the previous step *)
| TOut (out : bool)                             (* the loop's `output` after the iteration (bp.iter point) *)
| TPending (p : bool).                          (* the worker sits in waitForSpace *)
Record tcase := { tc_cfg : cfg; tc_items : list titem }.

Fixpoint replay (c : cfg) (s : bstate) (items : list titem) : bool :=
  match items with
  | [] => true
  | TEv e :: r => enabled s e && replay c (fst (step c s e)) r
  | TObs n b a f :: r =>
    Z.eqb (s_count (b_buf s)) n && Z.eqb (s_bytes (b_buf s)) b && Bool.eqb (b_armed s) a && Bool.eqb (b_fired s) f &&
    replay c s r
  | TOut o :: r => Bool.eqb (b_out s) o && replay c s r
  | TPending p :: r => Bool.eqb (match b_pending s with Some _ => true | None => false end) p && replay c s r
  end.
Definition ok_t (x : tcase) : bool := replay (tc_cfg x) binit (tc_items x).
Definition mismatches_t := mismatches ok_t.

(* index of the first item at which the replay fails (for the evidence; not part of the verdict) *)
Fixpoint replay_fail_at (c : cfg) (s : bstate) (items : list titem) (i : nat) : option nat :=
  match items with
  | [] => None
  | TEv e :: r => if enabled s e then replay_fail_at c (fst (step c s e)) r (S i) else Some i
  | it :: r => if replay c s [it] then replay_fail_at c s r (S i) else Some i
  end.
