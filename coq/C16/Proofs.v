(* C16 — proofs about the produce-limit model: invariants of produceSet under the broker worker's protocol,
   and of the worker's loop for every event sequence. *)
From Coq Require Import List ZArith Bool Lia.
From SV Require Import Gen.GoInt C16.Model.
Import ListNotations.
Open Scope Z_scope.

(* ================================================================ well-formed messages *)
Definition msg_wf (m : msg) : Prop :=
  0 <= olen (m_key m) /\ 0 <= olen (m_val m) /\ Forall (fun h => 0 <= fst h /\ 0 <= snd h) (m_headers m).

Lemma headers_size_nonneg : forall hs, Forall (fun h => 0 <= fst h /\ 0 <= snd h) hs -> 0 <= headers_size hs.
Proof.
  induction hs as [|[k v] hs IH]; intro H; simpl; [lia|].
  inversion H as [|? ? [Hk Hv] H']; subst. simpl in *. specialize (IH H'). unfold header_overhead. lia.
Qed.

Lemma kv_nonneg : forall m, msg_wf m -> 0 <= kv_bytes m.
Proof. intros m [H1 [H2 _]]. unfold kv_bytes. lia. Qed.

(* what add() accounts for a message is what wouldOverflow tested (plus the batch overhead for the first message) *)
Lemma add_size_old : forall c m, add_size c false m = byte_size (msg_version c) m.
Proof.
  intros c m. unfold add_size, byte_size, msg_version, kv_bytes.
  destruct (is_at_least (c_version c) v0_11_0_0);
    [change (2 >=? 2) with true | change (1 >=? 2) with false]; cbv iota; lia.
Qed.

Lemma add_size_ge_kv : forall c fresh m, msg_wf m -> kv_bytes m <= add_size c fresh m.
Proof.
  intros c fresh m [H1 [H2 H3]]. pose proof (headers_size_nonneg _ H3) as Hh.
  unfold add_size, record_batch_overhead, maximum_record_overhead, producer_message_overhead.
  destruct (is_at_least (c_version c) v0_11_0_0); destruct fresh; lia.
Qed.

(* ================================================================ invariant of a produceSet *)
Section WithP.
Variable c : cfg.
Variable P : msg -> Prop.
Hypothesis P_wf : forall m, P m -> msg_wf m.

Definition pset_inv (p : pset) : Prop :=
  ps_msgs p <> [] /\ Forall P (ps_msgs p) /\ pset_kv p <= ps_bytes p /\
  ((2 <= length (ps_msgs p))%nat -> ps_bytes p < c_max_message_bytes c).

Definition set_inv (s : produce_set) : Prop :=
  Forall (fun kp => pset_inv (snd kp)) (s_parts s) /\
  s_count s = total_msgs s /\
  (c_max_messages c > 0 -> s_count s <= c_max_messages c).

Lemma pset_kv_nonneg : forall p, Forall P (ps_msgs p) -> 0 <= pset_kv p.
Proof.
  intros [ms b] H. unfold pset_kv. simpl in *. induction H as [|m ms Hm _ IH]; simpl; [lia|].
  pose proof (kv_nonneg m (P_wf m Hm)). lia.
Qed.

Lemma pset_kv_app : forall ms b m b', pset_kv {| ps_msgs := ms ++ [m]; ps_bytes := b' |} = pset_kv {| ps_msgs := ms; ps_bytes := b |} + kv_bytes m.
Proof. intros ms b m b'. unfold pset_kv. simpl. induction ms as [|x ms IH]; simpl; lia. Qed.

Lemma total_msgs_nonneg : forall s, 0 <= total_msgs s.
Proof. intros [parts b n]. unfold total_msgs. simpl. induction parts as [|[k p] l IH]; simpl; lia. Qed.

Lemma lookup_in : forall k l p, lookup k l = Some p -> exists k', In (k', p) l.
Proof.
  induction l as [|[k' v] l IH]; intros p H; simpl in H; [discriminate|].
  destruct (key_eqb k k'); [injection H as <-; exists k'; left; reflexivity|].
  destruct (IH p H) as [k'' Hin]. exists k''. right. exact Hin.
Qed.

Lemma update_forall : forall (Q : (Z * Z) * pset -> Prop) k v l, Forall Q l -> Q (k, v) -> Forall Q (update k v l).
Proof.
  intros Q k v l H Hq. induction H as [|[k' v'] l Hx Hl IH]; simpl.
  - constructor; [exact Hq | constructor].
  - destruct (key_eqb k k'); constructor; auto.
Qed.

Lemma remove_forall : forall (Q : (Z * Z) * pset -> Prop) k l, Forall Q l -> Forall Q (remove k l).
Proof.
  intros Q k l H. induction H as [|[k' v'] l Hx Hl IH]; simpl; [constructor|].
  destruct (key_eqb k k'); [exact Hl | constructor; assumption].
Qed.

Definition tm (l : list ((Z * Z) * pset)) : Z :=
  fold_right (fun kp a => Z.of_nat (length (ps_msgs (snd kp))) + a) 0 l.

Lemma total_tm : forall s, total_msgs s = tm (s_parts s).
Proof. reflexivity. Qed.

Lemma tm_update : forall k v l,
  tm (update k v l) = tm l + Z.of_nat (length (ps_msgs v))
                      - match lookup k l with Some p => Z.of_nat (length (ps_msgs p)) | None => 0 end.
Proof.
  intros k v l. induction l as [|[k' v'] l IH]; simpl; [lia|].
  destruct (key_eqb k k'); simpl; lia.
Qed.

Lemma tm_remove : forall k l,
  tm (remove k l) = tm l - match lookup k l with Some p => Z.of_nat (length (ps_msgs p)) | None => 0 end.
Proof.
  intros k l. induction l as [|[k' v'] l IH]; simpl; [lia|].
  destruct (key_eqb k k'); simpl; lia.
Qed.

Lemma empty_set_inv : set_inv empty_set.
Proof.
  unfold set_inv, empty_set, total_msgs. simpl. split; [constructor|]. split; [reflexivity|]. lia.
Qed.

(* add keeps the invariant when wouldOverflow said no, or on a fresh (rolled-over) set *)
Lemma add_inv : forall s m s', set_inv s -> P m ->
  would_overflow c s m = false \/ s = empty_set ->
  add c s m = Some s' -> set_inv s'.
Proof.
  intros s m s' [Hparts [Hcnt Hmax]] Pm Hwo Hadd.
  unfold add in Hadd. destruct (m_encfail m); [discriminate|]. injection Hadd as <-.
  pose proof (P_wf m Pm) as Hwf.
  assert (Hnew : pset_inv
    {| ps_msgs := ps_msgs match lookup (mkey m) (s_parts s) with Some p => p | None => {| ps_msgs := []; ps_bytes := 0 |} end ++ [m];
       ps_bytes := ps_bytes match lookup (mkey m) (s_parts s) with Some p => p | None => {| ps_msgs := []; ps_bytes := 0 |} end
                   + add_size c match lookup (mkey m) (s_parts s) with None => true | Some _ => false end m |}).
  { destruct (lookup (mkey m) (s_parts s)) as [p|] eqn:El.
    - destruct (lookup_in _ _ _ El) as [k' Hin].
      pose proof (proj1 (Forall_forall _ _) Hparts _ Hin) as [Hne [HP [Hkv Hlim]]]. simpl in *.
      unfold pset_inv. simpl. split; [destruct (ps_msgs p); discriminate|].
      split; [apply Forall_app; split; [exact HP | constructor; [exact Pm | constructor]]|].
      split.
      + destruct p as [ms b]. simpl in *. rewrite (pset_kv_app ms b m _).
        pose proof (add_size_ge_kv c false m Hwf). lia.
      + intros _. rewrite add_size_old.
        destruct Hwo as [Hwo | ->]; [|simpl in El; discriminate].
        unfold would_overflow in Hwo. rewrite El in Hwo.
        destruct (s_bytes s + byte_size (msg_version c) m >=? wrap32 (c_max_request_size c - 10240)); [discriminate|].
        destruct (Z.geb_spec (ps_bytes p + byte_size (msg_version c) m) (c_max_message_bytes c)); [discriminate | lia].
    - unfold pset_inv. simpl. split; [discriminate|]. split; [constructor; [exact Pm | constructor]|].
      split; [unfold pset_kv; simpl; pose proof (add_size_ge_kv c true m Hwf); lia|].
      intro H. simpl in H. lia. }
  unfold set_inv. simpl. split; [apply update_forall; [exact Hparts | exact Hnew]|].
  split.
  - rewrite total_tm in *. cbn [s_parts]. rewrite tm_update. cbn [ps_msgs].
    rewrite app_length. cbn [length].
    destruct (lookup (mkey m) (s_parts s)); cbn [ps_msgs length]; lia.
  - intro Hpos. destruct Hwo as [Hwo | ->]; [|simpl; lia].
    unfold would_overflow in Hwo.
    destruct (s_bytes s + byte_size (msg_version c) m >=? wrap32 (c_max_request_size c - 10240)); [discriminate|].
    destruct (match lookup (mkey m) (s_parts s) with Some p => ps_bytes p + byte_size (msg_version c) m >=? c_max_message_bytes c | None => false end); [discriminate|].
    destruct (Z.gtb_spec (c_max_messages c) 0); [|lia]. simpl in Hwo.
    destruct (Z.geb_spec (s_count s) (c_max_messages c)); [discriminate | lia].
Qed.

Lemma add_none_same : forall s m, add c s m = None -> m_encfail m = true.
Proof. intros s m H. unfold add in H. destruct (m_encfail m); [reflexivity | discriminate]. Qed.

Lemma add_count : forall s m s', add c s m = Some s' -> s_count s' = s_count s + 1.
Proof. intros s m s' H. unfold add in H. destruct (m_encfail m); [discriminate|]. injection H as <-. reflexivity. Qed.

(* dropPartition keeps the invariant and only shrinks the counters *)
Lemma drop_inv : forall s k, set_inv s ->
  set_inv (fst (drop_partition s k)) /\
  s_count (fst (drop_partition s k)) <= s_count s /\ s_bytes (fst (drop_partition s k)) <= s_bytes s.
Proof.
  intros s k [Hparts [Hcnt Hmax]]. unfold drop_partition.
  destruct (lookup k (s_parts s)) as [p|] eqn:El; simpl.
  - destruct (lookup_in _ _ _ El) as [k' Hin].
    pose proof (proj1 (Forall_forall _ _) Hparts _ Hin) as [Hne [HP [Hkv Hlim]]]. simpl in *.
    pose proof (pset_kv_nonneg p HP) as Hk0.
    split; [|split; lia].
    unfold set_inv. simpl. split; [apply remove_forall; exact Hparts|]. split.
    + rewrite total_tm in *. cbn [s_parts]. rewrite tm_remove, El. lia.
    + intro Hpos. specialize (Hmax Hpos). lia.
  - split; [split; [exact Hparts | split; assumption] | split; lia].
Qed.

Lemma drop_all_inv : forall ks s, set_inv s ->
  set_inv (drop_all s ks) /\ s_count (drop_all s ks) <= s_count s /\ s_bytes (drop_all s ks) <= s_bytes s.
Proof.
  induction ks as [|k ks IH]; intros s H; simpl; [split; [exact H | split; lia]|].
  destruct (drop_inv s k H) as [H1 [H2 H3]]. destruct (IH _ H1) as [H4 [H5 H6]].
  split; [exact H4 | split; lia].
Qed.

(* a set satisfying the invariant satisfies the property's predicate *)
Lemma set_inv_sent_ok : forall s, set_inv s -> sent_ok c s = true.
Proof.
  intros s [Hparts [Hcnt Hmax]]. unfold sent_ok. apply andb_true_iff. split.
  - apply orb_true_iff. destruct (Z.leb_spec (c_max_messages c) 0); [left; reflexivity|].
    right. apply Z.leb_le. rewrite <- Hcnt. apply Hmax. lia.
  - apply forallb_forall. intros [k p] Hin.
    pose proof (proj1 (Forall_forall _ _) Hparts _ Hin) as [Hne [HP [Hkv Hlim]]]. simpl in *.
    unfold pset_ok. apply orb_true_iff.
    destruct (Nat.leb_spec (length (ps_msgs p)) 1); [left; reflexivity|].
    right. apply Z.ltb_lt. specialize (Hlim ltac:(lia)). lia.
Qed.

Lemma set_inv_all_P : forall s k p m, set_inv s -> In (k, p) (s_parts s) -> In m (ps_msgs p) -> P m.
Proof.
  intros s k p m [Hparts _] Hin Hm.
  pose proof (proj1 (Forall_forall _ _) Hparts _ Hin) as [_ [HP _]]. simpl in HP.
  exact (proj1 (Forall_forall _ _) HP _ Hm).
Qed.

(* readiness can only disappear when the counters shrink *)
Lemma ready_mono : forall s s', 0 <= s_count s' -> s_count s' <= s_count s -> s_bytes s' <= s_bytes s ->
  ready_to_flush c s' = true -> ready_to_flush c s = true.
Proof.
  intros s s' H0 Hc Hb H. unfold ready_to_flush, is_empty in *.
  destruct (Z.eqb_spec (s_count s') 0); [discriminate|].
  destruct (Z.eqb_spec (s_count s) 0); [lia|].
  destruct ((c_flush_frequency c =? 0) && (c_flush_bytes c =? 0) && (c_flush_messages c =? 0)); [reflexivity|].
  destruct (Z.gtb_spec (c_flush_messages c) 0); simpl in *.
  - destruct (Z.geb_spec (s_count s') (c_flush_messages c)); simpl in *.
    + destruct (Z.geb_spec (s_count s) (c_flush_messages c)); [reflexivity | lia].
    + destruct (Z.geb_spec (s_count s) (c_flush_messages c)); [reflexivity|]. simpl.
      destruct (Z.gtb_spec (c_flush_bytes c) 0); simpl in *; [|discriminate].
      destruct (Z.geb_spec (s_bytes s') (c_flush_bytes c)); [|discriminate].
      destruct (Z.geb_spec (s_bytes s) (c_flush_bytes c)); [reflexivity | lia].
  - destruct (Z.gtb_spec (c_flush_bytes c) 0); simpl in *; [|discriminate].
    destruct (Z.geb_spec (s_bytes s') (c_flush_bytes c)); [|discriminate].
    destruct (Z.geb_spec (s_bytes s) (c_flush_bytes c)); [reflexivity | lia].
Qed.

(* ================================================================ invariant of the broker worker *)
Definition binv (s : bstate) : Prop :=
  set_inv (b_buf s) /\
  match b_pending s with Some m => P m | None => True end /\
  (b_fired s || ready_to_flush c (b_buf s) = true -> b_out s = true) /\
  (is_empty (b_buf s) = false -> c_flush_frequency c > 0 -> b_armed s = true).

Definition ev_ok (e : event) : Prop := match e with EvMsg m _ => P m | _ => True end.
Definition out_ok (o : output) : Prop := match o with Sent s => set_inv s | _ => True end.

Lemma binit_inv : binv binit.
Proof.
  unfold binv, binit. simpl. split; [exact empty_set_inv|]. split; [exact I|].
  split; [intro H; discriminate | intro H; discriminate].
Qed.

Lemma empty_not_ready : ready_to_flush c empty_set = false.
Proof. reflexivity. Qed.

(* do_add from a state whose buffer accepts the message *)
Lemma do_add_inv : forall s m, set_inv (b_buf s) -> P m ->
  would_overflow c (b_buf s) m = false \/ b_buf s = empty_set ->
  (b_fired s || ready_to_flush c (b_buf s) = true -> b_out s = true) ->
  (is_empty (b_buf s) = false -> c_flush_frequency c > 0 -> b_armed s = true) ->
  binv (fst (do_add c s m)) /\ Forall out_ok (snd (do_add c s m)).
Proof.
  intros s m Hset Pm Hwo Hout Harm. unfold do_add.
  destruct (add c (b_buf s) m) as [buf'|] eqn:Ea; simpl.
  - split; [|constructor].
    unfold binv, recompute. simpl. split; [eapply add_inv; eassumption|]. split; [exact I|].
    split; [intro H; exact H|].
    intros _ Hf. destruct (b_armed s); [reflexivity|]. simpl.
    destruct (Z.gtb_spec (c_flush_frequency c) 0); [reflexivity | lia].
  - split; [|constructor; [exact I | constructor]].
    unfold binv, set_pending. simpl. split; [exact Hset|]. split; [exact I|]. split; assumption.
Qed.

Lemma step_inv : forall s e, binv s -> ev_ok e -> enabled s e = true ->
  binv (fst (step c s e)) /\ Forall out_ok (snd (step c s e)).
Proof.
  intros s e [Hset [Hpend [Hout Harm]]] Hev Hen. destruct e as [m retry| | |drops rp]; simpl in *.
  - (* message *)
    destruct (b_pending s) eqn:Ep; [discriminate|].
    destruct retry.
    + simpl. split; [|constructor; [exact I | constructor]].
      unfold binv. rewrite Ep. split; [exact Hset|]. split; [exact I|]. split; [exact Hout | exact Harm].
    + destruct (would_overflow c (b_buf s) m) eqn:Ew.
      * simpl. split; [|constructor].
        unfold binv, set_pending. simpl. split; [exact Hset|]. split; [exact Hev|]. split; [exact Hout | exact Harm].
      * apply do_add_inv; auto.
  - (* timer *)
    split; [|constructor].
    unfold binv, recompute. simpl. split; [exact Hset|]. split; [exact Hpend|].
    split; [intros _; reflexivity|]. exact Harm.
  - (* hand-off *)
    destruct (b_pending s) as [m|] eqn:Ep.
    + pose proof (do_add_inv (roll_over s) m) as H. simpl in H.
      specialize (H empty_set_inv Hpend (or_intror eq_refl)).
      destruct (do_add c (roll_over s) m) as [s' o] eqn:Ed. simpl in *.
      assert (H' : binv s' /\ Forall out_ok o).
      { apply H; intro X; discriminate. }
      destruct H' as [H1 H2]. split; [exact H1 | constructor; [exact Hset | exact H2]].
    + simpl. split; [|constructor; [exact Hset | constructor]].
      unfold binv, recompute, roll_over. simpl. split; [exact empty_set_inv|]. rewrite Ep. split; [exact I|].
      split; [intro X; exact X | intro X; discriminate].
  - (* response *)
    destruct (drop_all_inv drops (b_buf s) Hset) as [Hset' [Hc' Hb']].
    assert (Hcnt0 : 0 <= s_count (drop_all (b_buf s) drops)).
    { destruct Hset' as [_ [E _]]. rewrite E. apply total_msgs_nonneg. }
    (* the worker's state after handle_response *)
    assert (Hh : set_inv (b_buf (handle_response s drops)) /\
                 b_pending (handle_response s drops) = b_pending s /\
                 (b_fired (handle_response s drops) || ready_to_flush c (b_buf (handle_response s drops)) = true ->
                  b_out (handle_response s drops) = true) /\
                 (is_empty (b_buf (handle_response s drops)) = false -> c_flush_frequency c > 0 ->
                  b_armed (handle_response s drops) = true)).
    { unfold handle_response. destruct (is_empty (drop_all (b_buf s) drops)) eqn:Ee; simpl.
      - split; [exact empty_set_inv|]. split; [reflexivity|]. split; [intro X; discriminate | intro X; discriminate].
      - split; [exact Hset'|]. split; [reflexivity|]. split.
        + intro X. apply Hout. apply orb_true_iff in X as [X|X]; [rewrite X; reflexivity|].
          apply orb_true_iff. right. eapply ready_mono; eassumption.
        + intros _ Hf. apply Harm; [|exact Hf].
          unfold is_empty in *. destruct (Z.eqb_spec (s_count (b_buf s)) 0); [|reflexivity].
          destruct (Z.eqb_spec (s_count (drop_all (b_buf s) drops)) 0); [discriminate | lia]. }
    destruct Hh as [Hs2 [Hp2 [Ho2 Ha2]]].
    destruct (b_pending s) as [m|] eqn:Ep.
    + destruct rp.
      * simpl. split; [|constructor; [exact I | constructor]].
        unfold binv, set_pending. simpl. split; [exact Hs2|]. split; [exact I|]. split; [exact Ho2 | exact Ha2].
      * destruct (would_overflow c (b_buf (handle_response s drops)) m) eqn:Ew; simpl.
        -- split; [|constructor]. unfold binv. rewrite Hp2. split; [exact Hs2|]. split; [exact Hpend|]. split; [exact Ho2 | exact Ha2].
        -- apply do_add_inv; auto.
    + simpl. split; [|constructor].
      unfold binv, recompute. simpl. rewrite Hp2. split; [exact Hs2|]. split; [exact I|].
      split; [intro X; exact X | exact Ha2].
Qed.

Lemma run_inv : forall evs s, binv s -> Forall ev_ok evs ->
  binv (fst (run c s evs)) /\ Forall out_ok (snd (run c s evs)).
Proof.
  induction evs as [|e evs IH]; intros s Hs Hev; simpl; [split; [exact Hs | constructor]|].
  inversion Hev as [|? ? He Hev']; subst.
  destruct (enabled s e) eqn:En; [|apply IH; assumption].
  destruct (step_inv s e Hs He En) as [H1 H2].
  destruct (step c s e) as [s1 o1]. simpl in *.
  destruct (IH s1 H1 Hev') as [H3 H4].
  destruct (run c s1 evs) as [s2 o2]. simpl in *.
  split; [exact H3 | apply Forall_app; split; assumption].
Qed.

End WithP.

(* ================================================================ the theorems *)
Definition evs_wf (evs : list event) : Prop := Forall (ev_ok msg_wf) evs.

Lemma run_sent_inv : forall c (P : msg -> Prop), (forall m, P m -> msg_wf m) -> forall evs set, Forall (ev_ok P) evs ->
  In (Sent set) (snd (run c binit evs)) -> set_inv c P set.
Proof.
  intros c P HP evs set Hev Hin.
  destruct (run_inv c P HP evs binit (binit_inv c P) Hev) as [_ H].
  exact (proj1 (Forall_forall _ _) H _ Hin).
Qed.

(* every set handed to the bridge respects the count limit ... *)
Theorem count_limit : forall c evs set, evs_wf evs -> In (Sent set) (snd (run c binit evs)) ->
  c_max_messages c > 0 -> total_msgs set <= c_max_messages c.
Proof.
  intros c evs set Hev Hin Hpos.
  destruct (run_sent_inv c msg_wf (fun m H => H) evs set Hev Hin) as [_ [Hc Hm]].
  rewrite <- Hc. apply Hm. exact Hpos.
Qed.

(* ... and every per-partition batch of two or more messages carries fewer key+value bytes than MaxMessageBytes *)
Theorem batch_bytes : forall c evs set k p, evs_wf evs -> In (Sent set) (snd (run c binit evs)) ->
  In (k, p) (s_parts set) -> (2 <= length (ps_msgs p))%nat -> pset_kv p < c_max_message_bytes c.
Proof.
  intros c evs set k p Hev Hin Hk Hlen.
  destruct (run_sent_inv c msg_wf (fun m H => H) evs set Hev Hin) as [Hparts _].
  pose proof (proj1 (Forall_forall _ _) Hparts _ Hk) as [_ [_ [Hkv Hlim]]]. simpl in *.
  specialize (Hlim Hlen). lia.
Qed.

Theorem sent_sets_ok : forall c evs set, evs_wf evs -> In (Sent set) (snd (run c binit evs)) -> sent_ok c set = true.
Proof.
  intros c evs set Hev Hin. apply (set_inv_sent_ok c msg_wf).
  apply (run_sent_inv c msg_wf (fun m H => H) evs set Hev Hin).
Qed.

(* ---------------- oversize messages ---------------- *)
Theorem oversize_rejected : forall c m,
  (byte_size (msg_version c) m > c_max_message_bytes c -> dispatcher_check c m <> DForward) /\
  (dispatcher_check c m = DForward -> byte_size (msg_version c) m <= c_max_message_bytes c) /\
  (dispatcher_check c m = DRejectTooLarge -> byte_size (msg_version c) m > c_max_message_bytes c).
Proof.
  intros c m. unfold dispatcher_check.
  destruct (negb (is_at_least (c_version c) v0_11_0_0) && m_has_headers m).
  - repeat split; intros; discriminate.
  - destruct (Z.gtb_spec (byte_size (msg_version c) m) (c_max_message_bytes c)); repeat split; intros; try discriminate; lia.
Qed.

(* with interceptors: the size that is tested is the size AFTER the interceptor chain, and the message that is
   forwarded is that intercepted message — so growing a message over the limit gets it rejected, and shrinking an
   oversized one to a legal size gets it accepted *)
Theorem oversize_rejected_intercepted : forall c chain m,
  let m' := intercept chain m in
  snd (dispatcher_admit c chain m) = m' /\
  (byte_size (msg_version c) m' > c_max_message_bytes c -> fst (dispatcher_admit c chain m) <> DForward) /\
  (fst (dispatcher_admit c chain m) = DForward -> byte_size (msg_version c) m' <= c_max_message_bytes c) /\
  (fst (dispatcher_admit c chain m) = DRejectTooLarge -> byte_size (msg_version c) m' > c_max_message_bytes c) /\
  (byte_size (msg_version c) m' <= c_max_message_bytes c -> fst (dispatcher_admit c chain m) <> DRejectTooLarge).
Proof.
  intros c chain m m'. unfold dispatcher_admit. fold m'. cbn [fst snd].
  destruct (oversize_rejected c m') as [H1 [H2 H3]].
  split; [reflexivity|]. split; [exact H1|]. split; [exact H2|]. split; [exact H3|].
  intros Hle Hr. apply H3 in Hr. apply (Z.lt_irrefl (c_max_message_bytes c)).
  apply Z.lt_le_trans with (byte_size (msg_version c) m'); [apply Z.gt_lt; exact Hr | exact Hle].
Qed.

(* the pipeline: application messages -> interceptors + dispatcher -> the worker; whatever is handed to the bridge is
   an intercepted message that passed the test on its intercepted size *)
Definition admitted (c : cfg) (chain : list interceptor) (m' : msg) : Prop :=
  exists m, m' = intercept chain m /\ fst (dispatcher_admit c chain m) = DForward.

Theorem only_admitted_sent : forall c chain evs set k p m',
  Forall (ev_ok (fun x => msg_wf x /\ admitted c chain x)) evs ->
  In (Sent set) (snd (run c binit evs)) -> In (k, p) (s_parts set) -> In m' (ps_msgs p) ->
  admitted c chain m' /\ byte_size (msg_version c) m' <= c_max_message_bytes c.
Proof.
  intros c chain evs set k p m' Hev Hin Hk Hm.
  pose proof (run_sent_inv c (fun x => msg_wf x /\ admitted c chain x) (fun x H => proj1 H) evs set Hev Hin) as Hinv.
  destruct (set_inv_all_P c _ set k p m' Hinv Hk Hm) as [_ Ha].
  split; [exact Ha|]. destruct Ha as [m [-> Hf]].
  exact (proj1 (proj2 (proj2 (oversize_rejected_intercepted c chain m))) Hf).
Qed.

(* a worker fed only with messages the dispatcher forwarded never hands over anything else *)
Theorem only_forwarded_sent : forall c evs set k p m,
  Forall (ev_ok (fun m => msg_wf m /\ dispatcher_check c m = DForward)) evs ->
  In (Sent set) (snd (run c binit evs)) -> In (k, p) (s_parts set) -> In m (ps_msgs p) ->
  dispatcher_check c m = DForward /\ byte_size (msg_version c) m <= c_max_message_bytes c.
Proof.
  intros c evs set k p m Hev Hin Hk Hm.
  pose proof (run_sent_inv c (fun m => msg_wf m /\ dispatcher_check c m = DForward) (fun m H => proj1 H) evs set Hev Hin) as Hinv.
  destruct (set_inv_all_P c _ set k p m Hinv Hk Hm) as [_ Hf].
  split; [exact Hf|]. apply (proj1 (proj2 (oversize_rejected c m))). exact Hf.
Qed.

(* ---------------- wire limit ---------------- *)
Theorem wire_limit : forall c len,
  (forall l, send_request c len = Written l -> l = len /\ 0 <= l <= c_max_request_size c) /\
  (len > c_max_request_size c -> send_request c len = EncodeFailed).
Proof.
  intros c len. unfold send_request, encode_guard. split.
  - intros l H. destruct (Z.ltb_spec len 0); simpl in H; [discriminate|].
    destruct (Z.gtb_spec len (c_max_request_size c)); simpl in H; [discriminate|].
    injection H as <-. lia.
  - intro H. destruct (Z.ltb_spec len 0); simpl; [reflexivity|].
    destruct (Z.gtb_spec len (c_max_request_size c)); [reflexivity | lia].
Qed.

(* ---------------- flush on time ---------------- *)
(* a configured trigger holds for the buffer, or none is configured, or the flush timer has fired *)
Definition trigger_holds (c : cfg) (s : bstate) : Prop :=
  (c_flush_frequency c = 0 /\ c_flush_bytes c = 0 /\ c_flush_messages c = 0) \/
  (c_flush_messages c > 0 /\ s_count (b_buf s) >= c_flush_messages c) \/
  (c_flush_bytes c > 0 /\ s_bytes (b_buf s) >= c_flush_bytes c) \/
  b_fired s = true.

Lemma trigger_ready : forall c s, is_empty (b_buf s) = false -> trigger_holds c s ->
  b_fired s || ready_to_flush c (b_buf s) = true.
Proof.
  intros c s He Ht. apply orb_true_iff. destruct Ht as [[H1 [H2 H3]] | [[H1 H2] | [[H1 H2] | H]]].
  - right. unfold ready_to_flush. rewrite He, H1, H2, H3. reflexivity.
  - right. unfold ready_to_flush. rewrite He.
    destruct ((c_flush_frequency c =? 0) && (c_flush_bytes c =? 0) && (c_flush_messages c =? 0)); [reflexivity|].
    destruct (Z.gtb_spec (c_flush_messages c) 0); [|lia].
    destruct (Z.geb_spec (s_count (b_buf s)) (c_flush_messages c)); [reflexivity | lia].
  - right. unfold ready_to_flush. rewrite He.
    destruct ((c_flush_frequency c =? 0) && (c_flush_bytes c =? 0) && (c_flush_messages c =? 0)); [reflexivity|].
    destruct ((c_flush_messages c >? 0) && (s_count (b_buf s) >=? c_flush_messages c)); [reflexivity|].
    destruct (Z.gtb_spec (c_flush_bytes c) 0); [|lia].
    destruct (Z.geb_spec (s_bytes (b_buf s)) (c_flush_bytes c)); [reflexivity | lia].
  - left. exact H.
Qed.

Theorem flush_enabled : forall c evs, evs_wf evs ->
  let s := fst (run c binit evs) in
  is_empty (b_buf s) = false ->
  (* a trigger holds: the hand-off to the bridge is enabled now, without any further input *)
  (trigger_holds c s -> enabled s EvHandOff = true) /\
  (* a flush frequency is configured: the hand-off is enabled now, or the timer is armed and its firing enables it *)
  (c_flush_frequency c > 0 ->
     enabled s EvHandOff = true \/
     (enabled s EvTimer = true /\ enabled (fst (step c s EvTimer)) EvHandOff = true)).
Proof.
  intros c evs Hev s He.
  destruct (run_inv c msg_wf (fun m H => H) evs binit (binit_inv c msg_wf) Hev) as [[Hset [Hpend [Hout Harm]]] _].
  fold s in Hset, Hpend, Hout, Harm. split.
  - intro Ht. simpl. destruct (b_pending s); [reflexivity|]. apply Hout. apply trigger_ready; assumption.
  - intro Hf. simpl. destruct (b_pending s) eqn:Ep; [left; reflexivity|].
    destruct (b_fired s) eqn:Efired.
    + left. apply Hout. reflexivity.
    + right. rewrite (Harm He Hf). split; reflexivity.
Qed.

(* ================================================================ examples: the hypotheses are satisfiable *)
Definition ex_cfg : cfg :=
  {| c_version := (0, 11, 0, 0); c_max_message_bytes := 200; c_flush_messages := 0; c_flush_bytes := 0;
     c_flush_frequency := 5000000; c_max_messages := 2; c_max_request_size := 104857600 |}.
Definition ex_msg (id v : Z) : msg :=
  {| m_id := id; m_topic := 0; m_part := 0; m_key := None; m_val := Some v; m_headers := []; m_has_headers := false; m_encfail := false |}.

Example ex_wf : evs_wf [EvMsg (ex_msg 1 20) false; EvMsg (ex_msg 2 30) false; EvMsg (ex_msg 3 10) false; EvHandOff; EvTimer; EvHandOff].
Proof. repeat constructor; simpl; lia. Qed.

(* two messages fill the count limit; the third waits for space; the hand-off sends the first two; the third is
   flushed by the timer *)
Example ex_run :
  map (fun o => match o with Sent s => total_msgs s | _ => -1 end)
      (snd (run ex_cfg binit [EvMsg (ex_msg 1 20) false; EvMsg (ex_msg 2 30) false; EvMsg (ex_msg 3 10) false; EvHandOff; EvTimer; EvHandOff]))
  = [2; 1].
Proof. vm_compute. reflexivity. Qed.

Example ex_not_enabled_before_timer :
  let s := fst (run ex_cfg binit [EvMsg (ex_msg 1 20) false]) in
  enabled s EvHandOff = false /\ enabled s EvTimer = true.
Proof. vm_compute. split; reflexivity. Qed.

Example ex_oversize : dispatcher_check ex_cfg (ex_msg 1 165) = DRejectTooLarge /\ dispatcher_check ex_cfg (ex_msg 1 164) = DForward.
Proof. vm_compute. split; reflexivity. Qed.

Example ex_intercept_grow_and_shrink :
  let grow : interceptor := fun m => {| m_id := m_id m; m_topic := m_topic m; m_part := m_part m; m_key := m_key m;
     m_val := Some (olen (m_val m) + 1); m_headers := m_headers m; m_has_headers := m_has_headers m; m_encfail := m_encfail m |} in
  let shrink : interceptor := fun m => {| m_id := m_id m; m_topic := m_topic m; m_part := m_part m; m_key := m_key m;
     m_val := Some 10; m_headers := m_headers m; m_has_headers := m_has_headers m; m_encfail := m_encfail m |} in
  dispatcher_check ex_cfg (ex_msg 1 164) = DForward /\ fst (dispatcher_admit ex_cfg [grow] (ex_msg 1 164)) = DRejectTooLarge /\
  dispatcher_check ex_cfg (ex_msg 1 999) = DRejectTooLarge /\ fst (dispatcher_admit ex_cfg [shrink] (ex_msg 1 999)) = DForward.
Proof. vm_compute. repeat split; reflexivity. Qed.


(* Observation (not a violation of C16): the loop's `output` is not recomputed after a `continue`, so a buffer that a
   response has just emptied can still be handed to the bridge — an empty produce request.  MaxMessages = 1, no triggers:
   m1 buffered (ready); m2 waits for space; a response drops m1's partition for a retry and m2 must be retried too;
   the stale `output` then offers the fresh, empty buffer. *)
Definition ex_cfg2 : cfg :=
  {| c_version := (0, 11, 0, 0); c_max_message_bytes := 200; c_flush_messages := 0; c_flush_bytes := 0;
     c_flush_frequency := 0; c_max_messages := 1; c_max_request_size := 104857600 |}.
Example ex_empty_handoff :
  snd (run ex_cfg2 binit [EvMsg (ex_msg 1 20) false; EvMsg (ex_msg 2 30) false; EvResponse [(0, 0)] true; EvHandOff])
  = [Retried (ex_msg 2 30); Sent empty_set].
Proof. vm_compute. reflexivity. Qed.

(* ================================================================ the timer invariant, explicitly *)
(* Over every event sequence — arrivals, timer, hand-offs, responses that drop any partitions from the buffer — a
   non-empty buffer always has its flush timer armed when a frequency is configured (armed = bp.timer != nil: still
   pending, or already fired with timerFired set). *)
Theorem timer_armed : forall c evs, evs_wf evs ->
  let s := fst (run c binit evs) in
  is_empty (b_buf s) = false -> c_flush_frequency c > 0 ->
  b_armed s = true /\ (b_fired s = true -> enabled s EvHandOff = true).
Proof.
  intros c evs Hev s He Hf.
  destruct (run_inv c msg_wf (fun m H => H) evs binit (binit_inv c msg_wf) Hev) as [[Hset [Hpend [Hout Harm]]] _].
  fold s in Hset, Hpend, Hout, Harm. split; [exact (Harm He Hf)|].
  intro Hfired. simpl. destruct (b_pending s); [reflexivity|]. apply Hout. rewrite Hfired. reflexivity.
Qed.

Lemma evs_wf_app : forall a b, evs_wf a -> evs_wf b -> evs_wf (a ++ b).
Proof. intros a b Ha Hb. apply Forall_app. split; assumption. Qed.

(* The case of a response that takes partitions out of a waiting buffer (leader moved): whatever is left — possibly
   below every count / byte trigger that held before — is still flushed: the hand-off is enabled, or the timer is
   pending and its firing enables the hand-off. *)
Theorem flush_after_drop : forall c evs drops rp, evs_wf evs -> c_flush_frequency c > 0 ->
  let s := fst (run c binit (evs ++ [EvResponse drops rp])) in
  is_empty (b_buf s) = false ->
  enabled s EvHandOff = true \/
  (enabled s EvTimer = true /\ enabled (fst (step c s EvTimer)) EvHandOff = true).
Proof.
  intros c evs drops rp Hev Hf s He.
  assert (Hw : evs_wf (evs ++ [EvResponse drops rp])).
  { apply evs_wf_app; [exact Hev | constructor; [exact I | constructor]]. }
  exact (proj2 (flush_enabled c (evs ++ [EvResponse drops rp]) Hw He) Hf).
Qed.

(* the scenario: Flush.Bytes = 1000 and a 60 ms timer; a0 (2000 B, partition 0) goes out at once; behind it m1 (2000 B,
   partition 0) makes the buffer ready by bytes and m2 (5 B, partition 1) joins; the response drops partition 0:
   the 5 bytes left are below the trigger, the hand-off is not enabled, but the timer is pending and its firing enables it *)
Definition ex_cfg3 : cfg :=
  {| c_version := (0, 8, 2, 0); c_max_message_bytes := 100000; c_flush_messages := 0; c_flush_bytes := 1000;
     c_flush_frequency := 60000000; c_max_messages := 0; c_max_request_size := 104857600 |}.
Definition ex_msgp (id p v : Z) : msg :=
  {| m_id := id; m_topic := 0; m_part := p; m_key := None; m_val := Some v; m_headers := []; m_has_headers := false; m_encfail := false |}.
Example ex_drop_leaves_timer :
  let evs := [EvMsg (ex_msgp 1 0 2000) false; EvHandOff; EvMsg (ex_msgp 2 0 2000) false; EvMsg (ex_msgp 3 1 5) false] in
  let before := fst (run ex_cfg3 binit evs) in
  let after := fst (run ex_cfg3 binit (evs ++ [EvResponse [(0, 0)] false])) in
  ready_to_flush ex_cfg3 (b_buf before) = true /\
  ready_to_flush ex_cfg3 (b_buf after) = false /\ is_empty (b_buf after) = false /\
  enabled after EvHandOff = false /\ enabled after EvTimer = true /\
  enabled (fst (step ex_cfg3 after EvTimer)) EvHandOff = true.
Proof. vm_compute. repeat split; reflexivity. Qed.
