(* C16 — executable model of the producer's size / count limits and flush triggers:
   ProducerMessage.byteSize and the dispatcher's size check (async_producer.go), produceSet (produce_set.go:
   add, wouldOverflow, readyToFlush, dropPartition, empty), the broker worker's loop (brokerProducer.run,
   waitForSpace, rollOver, handleResponse's effect on the buffer) and encode's size guard (encoder_decoder.go).
   No proofs here. Sizes are Go ints (64 bit): plain Z. Time is abstract (the timer is an event). *)
From Coq Require Import List ZArith Bool.
From SV Require Import Gen.GoInt.
Import ListNotations.
Open Scope Z_scope.

(* ---------- configuration ---------- *)
Definition version := (Z * Z * Z * Z)%type.
(* KafkaVersion.IsAtLeast: lexicographic *)
Definition is_at_least (v o : version) : bool :=
  let '(a1, a2, a3, a4) := v in let '(b1, b2, b3, b4) := o in
  if a1 >? b1 then true else if a1 <? b1 then false else
  if a2 >? b2 then true else if a2 <? b2 then false else
  if a3 >? b3 then true else if a3 <? b3 then false else
  if a4 >? b4 then true else if a4 <? b4 then false else true.
Definition v0_11_0_0 : version := (0, 11, 0, 0).

Record cfg := {
  c_version : version;
  c_max_message_bytes : Z;     (* Producer.MaxMessageBytes *)
  c_flush_messages : Z;        (* Producer.Flush.Messages *)
  c_flush_bytes : Z;           (* Producer.Flush.Bytes *)
  c_flush_frequency : Z;       (* Producer.Flush.Frequency (0 = unset) *)
  c_max_messages : Z;          (* Producer.Flush.MaxMessages (0 = unlimited) *)
  c_max_request_size : Z       (* sarama.MaxRequestSize *)
}.

(* ---------- messages ---------- *)
(* lengths of key / value (None = nil encoder), header key/value lengths; m_encfail: Key/Value.Encode() fails *)
Record msg := {
  m_id : Z; m_topic : Z; m_part : Z;
  m_key : option Z; m_val : option Z;
  m_headers : list (Z * Z);
  m_has_headers : bool;        (* msg.Headers != nil *)
  m_encfail : bool
}.

Definition producer_message_overhead : Z := 26.
Definition maximum_record_overhead : Z := 36.   (* 5*MaxVarintLen32 + MaxVarintLen64 + 1 *)
Definition record_batch_overhead : Z := 49.
Definition header_overhead : Z := 10.           (* 2*MaxVarintLen32 *)

Definition olen (o : option Z) : Z := match o with Some n => n | None => 0 end.
Fixpoint headers_size (hs : list (Z * Z)) : Z :=
  match hs with [] => 0 | (k, v) :: r => k + v + header_overhead + headers_size r end.

(* the `version` argument computed by dispatcher and wouldOverflow *)
Definition msg_version (c : cfg) : Z := if is_at_least (c_version c) v0_11_0_0 then 2 else 1.

(* ProducerMessage.byteSize(version) *)
Definition byte_size (ver : Z) (m : msg) : Z :=
  (if ver >=? 2 then maximum_record_overhead + headers_size (m_headers m) else producer_message_overhead)
  + olen (m_key m) + olen (m_val m).

(* key + value payload bytes *)
Definition kv_bytes (m : msg) : Z := olen (m_key m) + olen (m_val m).

(* ---------- dispatcher ---------- *)
Inductive dverdict := DForward | DRejectHeaders | DRejectTooLarge.
Definition dispatcher_check (c : cfg) (m : msg) : dverdict :=
  if negb (is_at_least (c_version c) v0_11_0_0) && m_has_headers m then DRejectHeaders
  else if byte_size (msg_version c) m >? c_max_message_bytes c then DRejectTooLarge
  else DForward.

(* Producer.Interceptors run in the dispatcher on the first pass of a message, BEFORE the checks above: what is tested
   (and what travels on) is the message as the interceptor chain left it.  Interceptors are user code: functions. *)
Definition interceptor := msg -> msg.
Definition intercept (chain : list interceptor) (m : msg) : msg := fold_left (fun m f => f m) chain m.
(* the dispatcher's verdict on an application message, and the message it forwards *)
Definition dispatcher_admit (c : cfg) (chain : list interceptor) (m : msg) : dverdict * msg :=
  let m' := intercept chain m in (dispatcher_check c m', m').

(* ---------- produceSet ---------- *)
Record pset := { ps_msgs : list msg; ps_bytes : Z }.
Record produce_set := {
  s_parts : list ((Z * Z) * pset);     (* (topic, partition) -> partitionSet, in insertion order *)
  s_bytes : Z;                         (* bufferBytes *)
  s_count : Z                          (* bufferCount *)
}.
Definition empty_set : produce_set := {| s_parts := []; s_bytes := 0; s_count := 0 |}.

Definition key_eqb (a b : Z * Z) : bool := Z.eqb (fst a) (fst b) && Z.eqb (snd a) (snd b).
Fixpoint lookup (k : Z * Z) (l : list ((Z * Z) * pset)) : option pset :=
  match l with [] => None | (k', v) :: r => if key_eqb k k' then Some v else lookup k r end.
Fixpoint update (k : Z * Z) (v : pset) (l : list ((Z * Z) * pset)) : list ((Z * Z) * pset) :=
  match l with
  | [] => [(k, v)]
  | (k', v') :: r => if key_eqb k k' then (k, v) :: r else (k', v') :: update k v r
  end.
Fixpoint remove (k : Z * Z) (l : list ((Z * Z) * pset)) : list ((Z * Z) * pset) :=
  match l with [] => [] | (k', v') :: r => if key_eqb k k' then r else (k', v') :: remove k r end.

Definition mkey (m : msg) : Z * Z := (m_topic m, m_part m).

(* the size add() accounts for the message *)
Definition add_size (c : cfg) (fresh : bool) (m : msg) : Z :=
  if is_at_least (c_version c) v0_11_0_0
  then (if fresh then record_batch_overhead else 0) + maximum_record_overhead + kv_bytes m + headers_size (m_headers m)
  else producer_message_overhead + kv_bytes m.

(* produceSet.add: None = error (nothing changed) *)
Definition add (c : cfg) (s : produce_set) (m : msg) : option produce_set :=
  if m_encfail m then None else
  let old := lookup (mkey m) (s_parts s) in
  let fresh := match old with None => true | Some _ => false end in
  let size := add_size c fresh m in
  let p := match old with None => {| ps_msgs := []; ps_bytes := 0 |} | Some p => p end in
  let p' := {| ps_msgs := ps_msgs p ++ [m]; ps_bytes := ps_bytes p + size |} in
  Some {| s_parts := update (mkey m) p' (s_parts s); s_bytes := s_bytes s + size; s_count := s_count s + 1 |}.

(* produceSet.wouldOverflow *)
Definition would_overflow (c : cfg) (s : produce_set) (m : msg) : bool :=
  let sz := byte_size (msg_version c) m in
  if s_bytes s + sz >=? wrap32 (c_max_request_size c - 10240) then true   (* int(MaxRequestSize-(10*1024)): int32 arithmetic *)
  else if match lookup (mkey m) (s_parts s) with
          | Some p => ps_bytes p + sz >=? c_max_message_bytes c
          | None => false end then true
  else if (c_max_messages c >? 0) && (s_count s >=? c_max_messages c) then true
  else false.

Definition is_empty (s : produce_set) : bool := s_count s =? 0.

(* produceSet.readyToFlush *)
Definition ready_to_flush (c : cfg) (s : produce_set) : bool :=
  if is_empty s then false
  else if (c_flush_frequency c =? 0) && (c_flush_bytes c =? 0) && (c_flush_messages c =? 0) then true
  else if (c_flush_messages c >? 0) && (s_count s >=? c_flush_messages c) then true
  else if (c_flush_bytes c >? 0) && (s_bytes s >=? c_flush_bytes c) then true
  else false.

(* produceSet.dropPartition: returns the dropped messages *)
Definition drop_partition (s : produce_set) (k : Z * Z) : produce_set * list msg :=
  match lookup k (s_parts s) with
  | None => (s, [])
  | Some p => ({| s_parts := remove k (s_parts s); s_bytes := s_bytes s - ps_bytes p;
                  s_count := s_count s - Z.of_nat (length (ps_msgs p)) |}, ps_msgs p)
  end.

(* ---------- encode's size guard ---------- *)
Definition encode_guard (c : cfg) (len : Z) : bool := negb ((len <? 0) || (len >? c_max_request_size c)).
Inductive wire := Written (len : Z) | EncodeFailed.
Definition send_request (c : cfg) (len : Z) : wire := if encode_guard c len then Written len else EncodeFailed.

(* ---------- the broker worker (brokerProducer.run) as a step function ---------- *)
(* b_out: the loop's local `output` is non-nil (recomputed at the bottom of an iteration, NOT after `continue`);
   b_pending: the message the worker holds while it sits in waitForSpace *)
Record bstate := {
  b_buf : produce_set;
  b_armed : bool;        (* bp.timer != nil *)
  b_fired : bool;        (* bp.timerFired *)
  b_out : bool;
  b_pending : option msg
}.
Definition binit : bstate :=
  {| b_buf := empty_set; b_armed := false; b_fired := false; b_out := false; b_pending := None |}.

Inductive event :=
| EvMsg (m : msg) (needs_retry : bool)               (* a message arrives; needs_retry: bp.needsRetry(msg) != nil (oracle) *)
| EvTimer                                            (* <-bp.timer *)
| EvHandOff                                          (* the bridge takes bp.buffer *)
| EvResponse (drops : list (Z * Z)) (retry_pending : bool).
   (* a response is handled: it may drop partitions from the buffer; retry_pending: needsRetry(pending msg) afterwards *)

Inductive output := Sent (s : produce_set) | Retried (m : msg) | Errored (m : msg).

Definition enabled (s : bstate) (e : event) : bool :=
  match e with
  | EvMsg _ _ => match b_pending s with None => true | Some _ => false end
  | EvTimer => match b_pending s with None => b_armed s && negb (b_fired s) | Some _ => false end
  | EvHandOff => match b_pending s with None => b_out s | Some _ => true end
  | EvResponse _ _ => true
  end.

Definition recompute (c : cfg) (s : bstate) : bstate :=
  {| b_buf := b_buf s; b_armed := b_armed s; b_fired := b_fired s;
     b_out := b_fired s || ready_to_flush c (b_buf s); b_pending := b_pending s |}.

(* rollOver *)
Definition roll_over (s : bstate) : bstate :=
  {| b_buf := empty_set; b_armed := false; b_fired := false; b_out := b_out s; b_pending := b_pending s |}.

Definition set_pending (s : bstate) (p : option msg) : bstate :=
  {| b_buf := b_buf s; b_armed := b_armed s; b_fired := b_fired s; b_out := b_out s; b_pending := p |}.

(* bp.buffer.add(msg) and what follows it in run() *)
Definition do_add (c : cfg) (s : bstate) (m : msg) : bstate * list output :=
  match add c (b_buf s) m with
  | None => (set_pending s None, [Errored m])                       (* returnError; continue *)
  | Some buf' =>
    (recompute c {| b_buf := buf'; b_armed := b_armed s || (c_flush_frequency c >? 0); b_fired := b_fired s;
                    b_out := b_out s; b_pending := None |}, [])
  end.

Fixpoint drop_all (s : produce_set) (ks : list (Z * Z)) : produce_set :=
  match ks with [] => s | k :: r => drop_all (fst (drop_partition s k)) r end.

(* handleResponse's effect on the worker's own state *)
Definition handle_response (s : bstate) (drops : list (Z * Z)) : bstate :=
  let buf' := drop_all (b_buf s) drops in
  let s' := {| b_buf := buf'; b_armed := b_armed s; b_fired := b_fired s; b_out := b_out s; b_pending := b_pending s |} in
  if is_empty buf' then roll_over s' else s'.

Definition step (c : cfg) (s : bstate) (e : event) : bstate * list output :=
  match e with
  | EvMsg m retry =>
    if retry then (s, [Retried m])                                     (* retryMessage; continue *)
    else if would_overflow c (b_buf s) m then (set_pending s (Some m), [])   (* enters waitForSpace *)
    else do_add c s m
  | EvTimer => (recompute c {| b_buf := b_buf s; b_armed := b_armed s; b_fired := true; b_out := b_out s; b_pending := b_pending s |}, [])
  | EvHandOff =>
    match b_pending s with
    | Some m => let '(s', o) := do_add c (roll_over s) m in (s', Sent (b_buf s) :: o)   (* waitForSpace: output <- buffer *)
    | None => (recompute c (roll_over s), [Sent (b_buf s)])
    end
  | EvResponse drops rp =>
    let s' := handle_response s drops in
    match b_pending s with
    | Some m =>
      if rp then (set_pending s' None, [Retried m])                    (* waitForSpace returns the reason; continue *)
      else if negb (would_overflow c (b_buf s') m) then do_add c s' m
      else (s', [])
    | None => (recompute c s', [])
    end
  end.

(* a run: events that are not enabled in the current state are ignored (they cannot happen) *)
Fixpoint run (c : cfg) (s : bstate) (evs : list event) : bstate * list output :=
  match evs with
  | [] => (s, [])
  | e :: r =>
    if enabled s e then
      let '(s1, o1) := step c s e in let '(s2, o2) := run c s1 r in (s2, o1 ++ o2)
    else run c s r
  end.

(* ---------- the property as a predicate on a set handed to the bridge ---------- *)
Definition pset_kv (p : pset) : Z := fold_right (fun m a => kv_bytes m + a) 0 (ps_msgs p).
Definition pset_ok (c : cfg) (p : pset) : bool :=
  (length (ps_msgs p) <=? 1)%nat || (pset_kv p <? c_max_message_bytes c).
Definition total_msgs (s : produce_set) : Z :=
  fold_right (fun kp a => Z.of_nat (length (ps_msgs (snd kp))) + a) 0 (s_parts s).
Definition sent_ok (c : cfg) (s : produce_set) : bool :=
  ((c_max_messages c <=? 0) || (total_msgs s <=? c_max_messages c)) && forallb (fun kp => pset_ok c (snd kp)) (s_parts s).
