(* C04 — the hypotheses of the theorems are satisfiable on non-trivial states; the witness of the refuted statement. *)
From Coq Require Import List ZArith Bool.
From SV Require Import Wire.Bytes Wire.Prim Wire.Records C04.Model C04.Proofs.
Import ListNotations.
Open Scope Z_scope.

(* [split] on conjunctions only ([repeat split] would also try eq_refl on the equations, by lazy conversion) *)
Ltac conj := repeat match goal with |- _ /\ _ => split end.
Ltac run := vm_compute; reflexivity.

Definition T0 := 1600000000005000000.     (* a whole millisecond *)
Definition mk (id : Z) (key value : option (list Z)) (hs : list header) (ts : Z) : pmsg :=
  mkPM id key value hs ts 1700000000123456789 0 0 false.
(* four messages: three for partition (0,2) — nil key, empty value, the third EARLIER than the first and with a
   sub-millisecond part, the second without a timestamp — and one for partition (0,0) *)
Definition ex_msgs : list (tpk * pmsg) :=
  [((0, 2), mk 1 None (Some [49; 58; 97]) [] T0);
   ((0, 2), mk 2 (Some []) None [] ZERO_TIME);
   ((0, 0), mk 4 (Some [107]) (Some [52]) [] (T0 + 999000));
   ((0, 2), mk 3 (Some [107]) (Some []) [] (T0 - 1500000))].
Definition ex_hdr_msgs : list (tpk * pmsg) :=
  [((0, 2), mk 1 None (Some [49]) [mkHeader (Some [104]) None; mkHeader (Some []) (Some [1; 2])] T0);
   ((0, 2), mk 2 (Some []) None [] (T0 - 1500000))].

Definition gz10 := mkCfg 1 1 false.      (* 0.10, gzip: one magic-1 wrapper, relative offsets *)
Definition gz08 := mkCfg 0 1 false.      (* 0.8.2, gzip: one magic-0 wrapper *)
Definition plain10 := mkCfg 1 0 false.
Definition zstd21 := mkCfg 3 4 true.     (* 2.1, zstd, idempotent: record batch, request v7 *)

Definition ex_set (c : pcfg) := fst (add_all c (new_set 4711 1) ex_msgs).

Example ex_versions : map req_version [gz08; gz10; plain10; mkCfg 2 4 false; zstd21] = [0; 2; 2; 3; 7].
Proof. reflexivity. Qed.

(* the hypotheses of offset_identifies / request_decodes_to_submitted / nothing_added hold for every generation, with the
   third message of partition (0,2) (index 2) reported at base + 2 = 4294967339 and found there with its key, its EMPTY
   value and its timestamp truncated to 1600000000003 ms *)
Definition ex_offset_stmt (c : pcfg) : Prop :=
  exists x r m, part_lookup (0, 2) (s_parts (ex_set c)) = Some x /\ build_part c x = Some r /\
    nth_error (ps_msgs x) 2 = Some m /\ pm_id m = 3 /\
    nth_error (handle_success c 4294967337 1700000000123000000 (ps_msgs x)) 2 =
      Some (m, 4294967339, if v0_10 c then 1700000000123000000 else T0 - 1500000) /\
    log_lookup 4294967339 (append_records 4294967337 (decoded_view r)) =
      Some (mkEntry (Some [107]) (Some []) [] (if v0_10 c then Some 1600000000003000000 else None)).
Ltac ex_offset := unfold ex_offset_stmt; eexists; eexists; eexists; conj.
Example ex_offset_identifies_gz08 : ex_offset_stmt gz08. Proof. ex_offset. - run. - run. - run. - run. - run. - run. Qed.
Example ex_offset_identifies_gz10 : ex_offset_stmt gz10. Proof. ex_offset. - run. - run. - run. - run. - run. - run. Qed.
Example ex_offset_identifies_plain10 : ex_offset_stmt plain10. Proof. ex_offset. - run. - run. - run. - run. - run. - run. Qed.
Example ex_offset_identifies_zstd21 : ex_offset_stmt zstd21. Proof. ex_offset. - run. - run. - run. - run. - run. - run. Qed.

Example ex_headers :
  let s := fst (add_all zstd21 (new_set 4711 1) ex_hdr_msgs) in
  exists x r, part_lookup (0, 2) (s_parts s) = Some x /\ build_part zstd21 x = Some r /\
    map snd (append_records 7 (decoded_view r)) =
      [mkEntry None (Some [49]) [mkHeader (Some [104]) None; mkHeader (Some []) (Some [1; 2])] (Some T0);
       mkEntry (Some []) None [] (Some (T0 - 2000000))].
Proof. cbv zeta. eexists; eexists. conj. - run. - run. - run. Qed.

(* routing: writable partitions [1; 2] (partition 0 has no leader), the partitioner answers index 1: partition 2 on the
   first pass, kept on two retries whatever the metadata and the partitioner would say then *)
Example ex_route :
  route_all 0 (-1) [mkPass false (inl [0; 1; 2]) (inl [1; 2]) (PChoice 1);
                    mkPass false (inl [0; 1; 2]) (inl [0; 1; 2]) (PChoice 1);
                    mkPass true (inl [0; 1; 2]) (inr 5) (PFail 9)] = RPart 2.
Proof. reflexivity. Qed.

(* guarded runs exist: data messages, a syn, a chaser bounced by a worker refusing the partition *)
Definition fin_marker : pmsg := mkPM (-1) None None [] ZERO_TIME 1600000000000000000 0 2 false.
Definition syn_marker : pmsg := mkPM (-1) None None [] ZERO_TIME 0 0 1 false.
Definition healthy : bpst := mkBp (new_set 4711 0) false [].
Example ex_guarded :
  guarded false zstd21 healthy [BRecv (0, 2) syn_marker; BRecv (0, 2) (mk 1 None (Some [49]) [] T0); BDrop (0, 2);
                          BRecv (0, 2) (mk 2 None (Some [50]) [] T0); BRecv (0, 2) fin_marker; BRecv (0, 2) syn_marker;
                          BRecv (0, 2) (mk 2 None (Some [50]) [] T0)] /\
  held (0, 2) (bs_set (bp_run false zstd21 healthy [BRecv (0, 2) syn_marker; BRecv (0, 2) (mk 1 None (Some [49]) [] T0); BDrop (0, 2);
                          BRecv (0, 2) (mk 2 None (Some [50]) [] T0); BRecv (0, 2) fin_marker; BRecv (0, 2) syn_marker;
                          BRecv (0, 2) (mk 2 None (Some [50]) [] T0)])) = [mk 2 None (Some [50]) [] T0].
Proof. split; [vm_compute; conj; auto | run]. Qed.

(* The refuted statement.  A chaser (fin) that reaches a broker worker which is neither closing nor retrying the
   partition goes on to buffer.add, is sent as a record with nil key and nil value, and the leader appends it: the log
   then holds an entry that is the image of no application message.  (Reachable on the implementation with an
   idempotent producer: retriable answer -> retryBatch re-sends the batch itself -> the connection drops -> the
   messages come back with retries + 2 after the partition worker has moved to a new broker worker.) *)
Theorem marker_accepted_witness :
  let st := bp_step false zstd21 healthy (BRecv (0, 2) fin_marker) in
  is_data fin_marker = false /\ is_syn fin_marker = false /\ refusing healthy (0, 2) = false /\
  held (0, 2) (bs_set st) = [fin_marker] /\
  exists x r, part_lookup (0, 2) (s_parts (bs_set st)) = Some x /\ build_part zstd21 x = Some r /\
    append_records 1004 (decoded_view r) = [(1004, mkEntry None None [] (Some 1600000000000000000))].
Proof. cbv zeta. conj. - run. - run. - run. - run. - eexists; eexists. conj. + run. + run. + run. Qed.

Theorem buffer_data_only_refuted :
  ~ (forall c st evs, data_only st -> data_only (bp_run false c st evs)).
Proof.
  intros H. specialize (H zstd21 healthy [BRecv (0, 2) fin_marker]).
  assert (D : data_only healthy) by (intros k x m []).
  specialize (H D). destruct marker_accepted_witness as (_ & _ & _ & Hh & x & r & Hl & _).
  unfold held in Hh. rewrite Hl in Hh. apply lookup_in in Hl.
  specialize (H (0, 2) x fin_marker Hl). rewrite Hh in H. specialize (H (or_introl eq_refl)). discriminate.
Qed.
