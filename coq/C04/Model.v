(* C04 — a reported success identifies exactly where and what was written.  Executable model, no proofs.

   produce_set.go   [ps_add] = produceSet.add, [build_part]/[build_request] = produceSet.buildRequest,
                    [req_version] = the request version chosen there (0 / 2 / 3 / 7);
   what the wire does to a request ([decoded_view]: the normal form RecordBatch.decode / MessageSet.decode return
                    for what RecordBatch.encode / MessageSet.encode wrote — coq/Wire, C09a);
   the broker       [append_records]: a leader appending the decoded records of one partition at base offset [base];
   async_producer.go [assign_offsets] = the ErrNoError branch of brokerProducer.handleSuccess,
                    [route] = topicProducer.dispatch + partitionMessage (partition chosen on the first pass only).

   Values are those of coq/Wire/Records.v ([record], [batch], [message], [mset], [records]): the in-memory objects the
   encoder is handed and the decoder returns.  Time is nanoseconds since the Unix epoch, [ZERO_TIME] the zero time.Time.
   Go maps (produceSet.msgs, ProduceRequest.records) are association lists in insertion order; nothing depends on
   the order. *)
From Coq Require Import List ZArith Bool.
From SV Require Import Wire.Bytes Wire.Prim Wire.PushPop Wire.Records.
Import ListNotations.
Open Scope Z_scope.

(* ---------------------------------------------------------------- submitted messages, configuration *)

Record pmsg := mkPM {
  pm_id : Z;                       (* identity (harness: Metadata) *)
  pm_key : option (list Z);        (* msg.Key.Encode() (None: Key == nil or the encoder returned a nil slice) *)
  pm_value : option (list Z);      (* msg.Value.Encode() *)
  pm_headers : list header;        (* msg.Headers (only len() is looked at: nil = empty) *)
  pm_ts : Z;                       (* msg.Timestamp; ZERO_TIME = not supplied *)
  pm_now : Z;                      (* oracle: what time.Now() returns when add handles the message *)
  pm_seq : Z;                      (* msg.sequenceNumber *)
  pm_flags : Z;                    (* msg.flags: 0 application data, 1 syn, 2 fin, 4 shutdown *)
  pm_encfail : bool                (* oracle: Key/Value Encode() returns an error *)
}.

Definition is_data (m : pmsg) : bool := pm_flags m =? 0.

Record pcfg := mkCfg {
  c_gen : Z;        (* conf.Version: 0 below 0.10 | 1 in [0.10, 0.11) | 2 in [0.11, 2.1) | 3 from 2.1 *)
  c_codec : Z;      (* conf.Producer.Compression: 0 none 1 gzip 2 snappy 3 lz4 4 zstd *)
  c_idem : bool     (* conf.Producer.Idempotent *)
}.

Definition v0_10 (c : pcfg) : bool := 1 <=? c_gen c.
Definition v0_11 (c : pcfg) : bool := 2 <=? c_gen c.
Definition v2_1 (c : pcfg) : bool := 3 <=? c_gen c.

(* buildRequest: req.Version *)
Definition req_version (c : pcfg) : Z :=
  if (c_codec c =? 4) && v2_1 c then 7 else if v0_11 c then 3 else if v0_10 c then 2 else 0.

(* add: timestamp := msg.Timestamp; if IsZero() then time.Now(); Truncate(time.Millisecond) (rounds down) *)
Definition eff_ts (m : pmsg) : Z := if pm_ts m =? ZERO_TIME then pm_now m else pm_ts m.
Definition trunc_ms (t : Z) : Z := t / MS * MS.
Definition add_ts (m : pmsg) : Z := trunc_ms (eff_ts m).

(* ---------------------------------------------------------------- produce sets *)

Definition tpk := (Z * Z)%type.     (* topic, partition *)
Definition tpk_eqb (a b : tpk) : bool := Z.eqb (fst a) (fst b) && Z.eqb (snd a) (snd b).

(* partitionSet: msgs and recordsToSend (index-aligned: that is theorem [aligned_reachable]) *)
Record partset := mkPS { ps_msgs : list pmsg; ps_recs : records }.
(* produceSet: msgs + producerID / producerEpoch read from the transaction manager by newProduceSet *)
Record pset := mkPSet { s_parts : list (tpk * partset); s_pid : Z; s_pepoch : Z }.
Definition new_set (pid pepoch : Z) : pset := mkPSet [] pid pepoch.

Fixpoint part_lookup (k : tpk) (ps : list (tpk * partset)) : option partset :=
  match ps with [] => None | (k', x) :: r => if tpk_eqb k k' then Some x else part_lookup k r end.
Fixpoint part_set (k : tpk) (x : partset) (ps : list (tpk * partset)) : list (tpk * partset) :=
  match ps with
  | [] => [(k, x)]
  | (k', y) :: r => if tpk_eqb k k' then (k', x) :: r else (k', y) :: part_set k x r
  end.

Definition with_records (b : batch) (lod : Z) (rs : option (list record)) : batch :=
  mkBatch (b_first_offset b) (b_leader_epoch b) (b_version b) (b_codec b) (b_control b) (b_logappend b) lod
          (b_first_ts b) (b_max_ts b) (b_producer_id b) (b_producer_epoch b) (b_first_seq b) rs
          (b_partial b) (b_transactional b).

(* &RecordBatch{FirstTimestamp, Version: 2, Codec, ProducerID, ProducerEpoch [, FirstSequence]}: MaxTimestamp stays the
   zero time (nothing in the producer sets it), Records nil *)
Definition fresh_batch (c : pcfg) (s : pset) (m : pmsg) : batch :=
  mkBatch 0 0 2 (c_codec c) false false 0 (add_ts m) ZERO_TIME (s_pid s) (s_pepoch s)
          (if c_idem c then pm_seq m else 0) None false false.
Definition fresh_partset (c : pcfg) (s : pset) (m : pmsg) : partset :=
  if v0_11 c then mkPS [] (RDefault (fresh_batch c s m)) else mkPS [] (RLegacy (mkSet false false MNil)).

(* rec := &Record{Key, Value, TimestampDelta: timestamp.Sub(FirstTimestamp)}; Headers only when len(msg.Headers) > 0 *)
Definition record_of (first_ts : Z) (m : pmsg) : record :=
  mkRecord 0 (add_ts m - first_ts) 0 (pm_key m) (pm_value m)
           (match pm_headers m with [] => None | hs => Some hs end).
(* msgToSend := &Message{Codec: CompressionNone, Key, Value}; from 0.10: Timestamp, Version = 1 *)
Definition message_of (c : pcfg) (m : pmsg) : message :=
  mkMsg 0 false (pm_key m) (pm_value m) None (if v0_10 c then 1 else 0) (if v0_10 c then add_ts m else ZERO_TIME).

(* the part of add past "we can't return an error": set.msgs = append(set.msgs, msg); addRecord / addMessage *)
Definition append_msg (c : pcfg) (x : partset) (m : pmsg) : partset :=
  match ps_recs x with
  | RDefault b =>
      mkPS (ps_msgs x ++ [m])
           (RDefault (with_records b (b_last_offset_delta b) (Some (olist (b_records b) ++ [record_of (b_first_ts b) m]))))
  | RLegacy (mkSet p o bs) =>
      mkPS (ps_msgs x ++ [m]) (RLegacy (mkSet p o (mapp bs (MCons 0 (message_of c m) MNil))))
  end.

Inductive add_result := AddOk | AddEncodeError | AddSequenceError.

(* produceSet.add *)
Definition ps_add (c : pcfg) (s : pset) (k : tpk) (m : pmsg) : pset * add_result :=
  if pm_encfail m then (s, AddEncodeError)
  else
    let x := match part_lookup k (s_parts s) with Some x => x | None => fresh_partset c s m end in
    let seqbad := v0_11 c && c_idem c &&
                  match ps_recs x with RDefault b => pm_seq m <? b_first_seq b | RLegacy _ => false end in
    if seqbad then (s, AddSequenceError)     (* only on an existing set: a fresh one has FirstSequence = this sequence *)
    else (mkPSet (part_set k (append_msg c x m) (s_parts s)) (s_pid s) (s_pepoch s), AddOk).

Fixpoint add_all (c : pcfg) (s : pset) (l : list (tpk * pmsg)) : pset * list add_result :=
  match l with
  | [] => (s, [])
  | (k, m) :: r => let '(s1, a) := ps_add c s k m in let '(s2, rs) := add_all c s1 r in (s2, a :: rs)
  end.

(* ---------------------------------------------------------------- buildRequest *)

Definition set_offdelta (r : record) (i : Z) : record :=
  mkRecord (r_attrs r) (r_tsdelta r) i (r_key r) (r_value r) (r_headers r).
(* for i, record := range rb.Records { record.OffsetDelta = int64(i) } *)
Fixpoint number_records (i : Z) (rs : list record) : list record :=
  match rs with [] => [] | r :: t => set_offdelta r i :: number_records (i + 1) t end.
(* for i, msg := range MsgSet.Messages { msg.Offset = int64(i) } *)
Fixpoint number_blocks (i : Z) (bs : mblocks) : mblocks :=
  match bs with MNil => MNil | MCons _ m r => MCons i m (number_blocks (i + 1) r) end.

Definition msg_ts (m : message) : Z := let '(mkMsg _ _ _ _ _ _ ts) := m in ts.
Definition msg_version (m : message) : Z := let '(mkMsg _ _ _ _ _ v _) := m in v.

Definition no_compress (codec : Z) (data : list Z) : option (list Z) := None.
(* encode(set.recordsToSend.MsgSet): the inner messages have codec 0, nothing is compressed at this point *)
Definition encode_inner (s : mset) : option (list Z) :=
  match mset_ops no_compress s with
  | inr ops => match encode ops with EncOk bs => Some bs | _ => None end
  | inl _ => None
  end.

(* one partition of buildRequest.  None = the Go code panics (panic(err) after a failed inner encode, or an index
   into an empty set) *)
Definition build_part (c : pcfg) (x : partset) : option records :=
  match ps_recs x with
  | RDefault b =>
      if 3 <=? req_version c then
        let rs := olist (b_records b) in
        Some (RDefault (if 0 <? len rs then with_records b (len rs - 1) (Some (number_records 0 rs)) else b))
      else None
  | RLegacy (mkSet p o bs) =>
      if 3 <=? req_version c then None
      else if c_codec c =? 0 then Some (RLegacy (mkSet p o bs))
      else
        let inner := if v0_10 c then number_blocks 0 bs else bs in
        match inner with
        | MNil => if v0_10 c then None else
            match encode_inner (mkSet p o inner) with
            | Some payload => Some (RLegacy (mkSet false false
                                (MCons 0 (mkMsg (c_codec c) false None (Some payload) (Some (mkSet p o inner)) 0 ZERO_TIME) MNil)))
            | None => None
            end
        | MCons _ m0 _ =>
            match encode_inner (mkSet p o inner) with
            | Some payload =>
                Some (RLegacy (mkSet false false
                   (MCons 0 (mkMsg (c_codec c) false None (Some payload) (Some (mkSet p o inner))
                                   (if v0_10 c then 1 else 0) (if v0_10 c then msg_ts m0 else ZERO_TIME)) MNil)))
            | None => None
            end
        end
  end.

Fixpoint build_parts (c : pcfg) (ps : list (tpk * partset)) : list (tpk * option records) :=
  match ps with [] => [] | (k, x) :: r => (k, build_part c x) :: build_parts c r end.
(* (request version, per-partition records) *)
Definition build_request (c : pcfg) (s : pset) : Z * list (tpk * option records) :=
  (req_version c, build_parts c (s_parts s)).

(* ---------------------------------------------------------------- what the broker decodes *)

(* Record.decode returns an empty, non-nil header slice for a count of 0; everything else a producer request
   contains is returned as written (timestamps are whole milliseconds already, MaxTimestamp -1 = the zero time) *)
Definition norm_rec (r : record) : record :=
  mkRecord (r_attrs r) (r_tsdelta r) (r_offdelta r) (r_key r) (r_value r) (Some (olist (r_headers r))).
Definition decoded_view (r : records) : records :=
  match r with
  | RDefault b => RDefault (with_records b (b_last_offset_delta b) (Some (map norm_rec (olist (b_records b)))))
  | RLegacy s => RLegacy s
  end.

(* ---------------------------------------------------------------- the partition log *)

Record entry := mkEntry {
  e_key : option (list Z); e_value : option (list Z);
  e_headers : list header;
  e_ts : option Z                  (* None: the message format (v0) carries no timestamp *)
}.

Definition entry_of_message (m : message) : entry :=
  let '(mkMsg _ _ key value _ version ts) := m in mkEntry key value [] (if 1 <=? version then Some ts else None).

(* an uncompressed message set: the broker assigns consecutive offsets in order, whatever the Offset fields say *)
Fixpoint place_seq (next : Z) (bs : mblocks) : list (Z * entry) :=
  match bs with MNil => [] | MCons _ m r => (next, entry_of_message m) :: place_seq (next + 1) r end.
(* the inner set of a magic-1 wrapper: relative offsets (KIP-31), position = first offset of the wrapper + Offset *)
Fixpoint place_rel (first : Z) (bs : mblocks) : list (Z * entry) :=
  match bs with MNil => [] | MCons o m r => (first + o, entry_of_message m) :: place_rel first r end.
Fixpoint blocks_len (bs : mblocks) : Z := match bs with MNil => 0 | MCons _ _ r => 1 + blocks_len r end.

(* top-level blocks of a legacy set: plain messages and compressed wrappers *)
Fixpoint place_top (next : Z) (bs : mblocks) : list (Z * entry) :=
  match bs with
  | MNil => []
  | MCons _ (mkMsg codec la key value (Some (mkSet _ _ inner)) version ts) r =>
      (if 1 <=? version then place_rel next inner else place_seq next inner)
      ++ place_top (next + blocks_len inner) r
  | MCons _ m r => (next, entry_of_message m) :: place_top (next + 1) r
  end.

Definition entry_of_record (first_ts : Z) (r : record) : entry :=
  mkEntry (r_key r) (r_value r) (olist (r_headers r)) (Some (first_ts + r_tsdelta r)).
Fixpoint place_records (base first_ts : Z) (rs : list record) : list (Z * entry) :=
  match rs with [] => [] | r :: t => (base + r_offdelta r, entry_of_record first_ts r) :: place_records base first_ts t end.

(* the leader appends the decoded records of one partition; [base] = the log end offset = the response's base offset *)
Definition append_records (base : Z) (r : records) : list (Z * entry) :=
  match r with
  | RDefault b => place_records base (b_first_ts b) (olist (b_records b))
  | RLegacy (mkSet _ _ bs) => place_top base bs
  end.

Fixpoint log_lookup (off : Z) (lg : list (Z * entry)) : option entry :=
  match lg with [] => None | (o, e) :: r => if o =? off then Some e else log_lookup off r end.

(* what the log must hold for a submitted message *)
Definition image (c : pcfg) (m : pmsg) : entry :=
  mkEntry (pm_key m) (pm_value m) (if v0_11 c then pm_headers m else [])
          (if v0_10 c then Some (add_ts m) else None).

(* ---------------------------------------------------------------- handleSuccess *)

(* case ErrNoError: for i, msg := range pSet.msgs { msg.Offset = block.Offset + int64(i) } *)
Fixpoint assign_offsets (base : Z) (l : list pmsg) : list (pmsg * Z) :=
  match l with [] => [] | m :: r => (m, base) :: assign_offsets (base + 1) r end.

(* the whole ErrNoError branch.  [block_ts] = block.Timestamp (ZERO_TIME: the response carried log_append_time = -1, or the
   response version has no such field): from 0.10 a set LogAppendTime overwrites msg.Timestamp of every message of the
   batch; the offsets are assigned in BOTH cases.  Result: (message, reported Offset, reported Timestamp). *)
Definition reported_ts (c : pcfg) (block_ts : Z) (m : pmsg) : Z :=
  if v0_10 c && negb (block_ts =? ZERO_TIME) then block_ts else pm_ts m.
Fixpoint handle_success (c : pcfg) (base block_ts : Z) (l : list pmsg) : list (pmsg * Z * Z) :=
  match l with [] => [] | m :: r => (m, base, reported_ts c block_ts m) :: handle_success c (base + 1) block_ts r end.

(* a topic configured with message.timestamp.type = LogAppendTime: the leader stamps what it appends with its own clock
   (only formats that carry a timestamp) and answers that time in the response block *)
Definition stamp_entry (lat : Z) (e : entry) : entry :=
  mkEntry (e_key e) (e_value e) (e_headers e) (match e_ts e with Some _ => Some lat | None => None end).
Definition stamp_log (lat : Z) (lg : list (Z * entry)) : list (Z * entry) :=
  if lat =? ZERO_TIME then lg else map (fun oe => (fst oe, stamp_entry lat (snd oe))) lg.

(* ---------------------------------------------------------------- routing *)

Definition E_LEADER_NOT_AVAILABLE := 5.
Definition E_INVALID_PARTITION := 1006.

Inductive routed := RPart (p : Z) | RErr (e : Z).

(* the partitioner's answer: a choice (an index) or an error class *)
Inductive pchoice := PChoice (i : Z) | PFail (e : Z).

(* one pass of a message through topicProducer.dispatch.  [consistent]: RequiresConsistency / MessageRequiresConsistency;
   [all]/[writable] : client.Partitions / client.WritablePartitions (or the error class of the lookup) *)
Definition partition_message (consistent : bool) (all writable : list Z + Z) (ch : pchoice) : routed :=
  match (if consistent then all else writable) with
  | inr e => RErr e
  | inl partitions =>
      let n := len partitions in
      if n =? 0 then RErr E_LEADER_NOT_AVAILABLE
      else match ch with
           | PFail e => RErr e
           | PChoice i =>
               if (i <? 0) || (n <=? i) then RErr E_INVALID_PARTITION
               else RPart (nth (Z.to_nat i) partitions (-1))
           end
  end.

Record pass := mkPass { pa_consistent : bool; pa_all : list Z + Z; pa_writable : list Z + Z; pa_choice : pchoice }.

(* msg.Partition after one pass with msg.retries = [retries]; [cur] = msg.Partition before *)
Definition route (retries : nat) (cur : Z) (p : pass) : routed :=
  match retries with
  | O => partition_message (pa_consistent p) (pa_all p) (pa_writable p) (pa_choice p)
  | S _ => RPart cur
  end.
(* the passes of one message: the first with retries = 0, the i-th retry with retries = i; an error ends the message *)
Fixpoint route_all (retries : nat) (cur : Z) (ps : list pass) : routed :=
  match ps with
  | [] => RPart cur
  | p :: r => match route retries cur p with RPart q => route_all (S retries) q r | RErr e => RErr e end
  end.

(* ---------------------------------------------------------------- the broker worker's buffer *)
(* brokerProducer.run, the input case, as far as the content of bp.buffer is concerned: which received messages reach
   buffer.add.  waitForSpace only delays the add (or swaps the buffer for a fresh one first) and is not modelled. *)

Definition is_syn (m : pmsg) : bool := Z.land (pm_flags m) 1 =? 1.
Definition is_fin (m : pmsg) : bool := Z.land (pm_flags m) 2 =? 2.

(* 0: syn, consumed | 1: bounced to the retry path (needsRetry: closing or currentRetries[topic][partition] set) | 2: goes on to buffer.add.
   [fx]: the tree has /verif/fixes/c04_fin_not_buffered.patch = /repo commit 1a6c550 (a fin that passes needsRetry is
   bounced as well); fx = false is the code before that commit, kept for the refuted statement and its witness.
   FIN_FIX says which tree the correspondence compares with. *)
Definition recv_decision (fx : bool) (flags : Z) (closing retrying : bool) : Z :=
  if Z.land flags 1 =? 1 then 0 else if closing || retrying then 1
  else if fx && (Z.land flags 2 =? 2) then 1 else 2.
Definition FIN_FIX := true.

Record bpst := mkBp {
  bs_set : pset;                 (* bp.buffer *)
  bs_closing : bool;             (* bp.closing != nil *)
  bs_retrying : list tpk         (* partitions whose currentRetries entry is non-nil *)
}.
Definition retrying (st : bpst) (k : tpk) : bool := existsb (tpk_eqb k) (bs_retrying st).
Definition refusing (st : bpst) (k : tpk) : bool := bs_closing st || retrying st k.
Definition clear_retrying (k : tpk) (l : list tpk) : list tpk := filter (fun k' => negb (tpk_eqb k k')) l.
Fixpoint part_drop (k : tpk) (ps : list (tpk * partset)) : list (tpk * partset) :=
  match ps with [] => [] | (k', x) :: r => if tpk_eqb k k' then r else (k', x) :: part_drop k r end.

Inductive bp_event :=
| BRecv (k : tpk) (m : pmsg)            (* msg := <-bp.input *)
| BRollover (pid pepoch : Z)            (* rollOver: buffer = newProduceSet *)
| BDrop (k : tpk)                       (* handleSuccess, retriable block: currentRetries set, buffer.dropPartition *)
| BClosing.                             (* handleError: closing set (the buffer is then rolled over) *)

Definition bp_step (fx : bool) (c : pcfg) (st : bpst) (e : bp_event) : bpst :=
  match e with
  | BRecv k m =>
      match recv_decision fx (pm_flags m) (bs_closing st) (retrying st k) with
      | 0 => mkBp (bs_set st) (bs_closing st) (clear_retrying k (bs_retrying st))
      | 1 => if negb (bs_closing st) && is_fin m && retrying st k
             then mkBp (bs_set st) (bs_closing st) (clear_retrying k (bs_retrying st)) else st
      | _ => mkBp (fst (ps_add c (bs_set st) k m)) (bs_closing st) (bs_retrying st)
      end
  | BRollover pid pepoch => mkBp (new_set pid pepoch) (bs_closing st) (bs_retrying st)
  | BDrop k => mkBp (mkPSet (part_drop k (s_parts (bs_set st))) (s_pid (bs_set st)) (s_pepoch (bs_set st)))
                    (bs_closing st) (k :: bs_retrying st)
  | BClosing => mkBp (bs_set st) true (bs_retrying st)
  end.
Definition bp_run (fx : bool) (c : pcfg) (st : bpst) (evs : list bp_event) : bpst := fold_left (bp_step fx c) evs st.
