(* C04 — correspondence: go/harness/cmd/c04corr writes what the implementation did as [bcase] (a real produceSet
   driven in-package: add / buildRequest / encode / decodeRequest / handleSuccess) and [ecase] (a real Async/Sync
   producer against scripted mock brokers); these functions re-run the model and compare projected observables. *)
From Coq Require Import List ZArith Bool.
From SV Require Import Base.Corr Wire.Bytes Wire.Prim Wire.Records C04.Model.
Import ListNotations.
Open Scope Z_scope.

(* long payloads are printed by the harness as [bgen n seed] (a linear congruential byte stream both sides compute:
   x' = (13 x + 7) mod 2^20, byte = bits 7..14 of x'; powers of two only, so that it is cheap on binary integers) *)
Fixpoint bgen_nat (n : nat) (x : Z) : list Z :=
  match n with
  | O => []
  | S k => let x' := Z.land (x * 13 + 7) 1048575 in Z.land (Z.shiftr x' 7) 255 :: bgen_nat k x'
  end.
Definition bgen (n seed : Z) : list Z := bgen_nat (Z.to_nat n) seed.

(* ---------------------------------------------------------------- boolean equalities *)
Definition bytes_eqb := list_eqb Z.eqb.
Definition obytes_eqb := option_eqb bytes_eqb.
Definition header_eqb (a b : header) : bool := obytes_eqb (h_key a) (h_key b) && obytes_eqb (h_value a) (h_value b).
Definition record_eqb (a b : record) : bool :=
  (r_attrs a =? r_attrs b) && (r_tsdelta a =? r_tsdelta b) && (r_offdelta a =? r_offdelta b) &&
  obytes_eqb (r_key a) (r_key b) && obytes_eqb (r_value a) (r_value b) &&
  option_eqb (list_eqb header_eqb) (r_headers a) (r_headers b).
Definition batch_eqb (a b : batch) : bool :=
  (b_first_offset a =? b_first_offset b) && (b_leader_epoch a =? b_leader_epoch b) && (b_version a =? b_version b) &&
  (b_codec a =? b_codec b) && Bool.eqb (b_control a) (b_control b) && Bool.eqb (b_logappend a) (b_logappend b) &&
  (b_last_offset_delta a =? b_last_offset_delta b) && (b_first_ts a =? b_first_ts b) && (b_max_ts a =? b_max_ts b) &&
  (b_producer_id a =? b_producer_id b) && (b_producer_epoch a =? b_producer_epoch b) && (b_first_seq a =? b_first_seq b) &&
  option_eqb (list_eqb record_eqb) (b_records a) (b_records b) &&
  Bool.eqb (b_partial a) (b_partial b) && Bool.eqb (b_transactional a) (b_transactional b).

Fixpoint message_eqb (a b : message) {struct a} : bool :=
  let '(mkMsg c1 l1 k1 v1 s1 ver1 t1) := a in
  let '(mkMsg c2 l2 k2 v2 s2 ver2 t2) := b in
  (c1 =? c2) && Bool.eqb l1 l2 && obytes_eqb k1 k2 && obytes_eqb v1 v2 && (ver1 =? ver2) && (t1 =? t2) &&
  match s1, s2 with
  | None, None => true
  | Some x, Some y => mset_eqb x y
  | _, _ => false
  end
with mset_eqb (a b : mset) {struct a} : bool :=
  let '(mkSet p1 o1 m1) := a in let '(mkSet p2 o2 m2) := b in
  Bool.eqb p1 p2 && Bool.eqb o1 o2 && mblocks_eqb m1 m2
with mblocks_eqb (a b : mblocks) {struct a} : bool :=
  match a, b with
  | MNil, MNil => true
  | MCons o1 x r1, MCons o2 y r2 => (o1 =? o2) && message_eqb x y && mblocks_eqb r1 r2
  | _, _ => false
  end.

Definition records_eqb (a b : records) : bool :=
  match a, b with
  | RDefault x, RDefault y => batch_eqb x y
  | RLegacy x, RLegacy y => mset_eqb x y
  | _, _ => false
  end.

Definition entry_eqb (a b : entry) : bool :=
  obytes_eqb (e_key a) (e_key b) && obytes_eqb (e_value a) (e_value b) &&
  list_eqb header_eqb (e_headers a) (e_headers b) && option_eqb Z.eqb (e_ts a) (e_ts b).

(* ---------------------------------------------------------------- (a) produceSet driven in-package *)
Definition add_code (a : add_result) : Z := match a with AddOk => 0 | AddEncodeError => 1 | AddSequenceError => 2 end.

Record bcase := mkBCase {
  bc_cfg : pcfg; bc_pid : Z; bc_pepoch : Z;
  bc_msgs : list (tpk * pmsg);               (* in the order of the add calls *)
  bc_adds : list Z;                          (* observed result of each add: 0 ok, 1 encode error, 2 sequence error *)
  bc_version : Z;                            (* observed req.Version (-1: the set was empty, nothing built) *)
  bc_parts : list (tpk * records);           (* decoded request, per partition *)
  bc_sets : list (tpk * list Z);             (* partitionSet.msgs (ids in order), per partition *)
  bc_bases : list (tpk * (Z * Z));           (* handleSuccess drive: base offset and block Timestamp (ZERO_TIME: unset) answered for each partition *)
  bc_succ : list (Z * (Z * Z))               (* ... and (id, (Offset, Timestamp)) of every message on the successes channel *)
}.

Fixpoint assoc {A} (k : tpk) (l : list (tpk * A)) : option A :=
  match l with [] => None | (k', v) :: r => if tpk_eqb k k' then Some v else assoc k r end.
Fixpoint zassoc {A} (k : Z) (l : list (Z * A)) : option A :=
  match l with [] => None | (k', v) :: r => if k =? k' then Some v else zassoc k r end.

Definition part_ok (c : pcfg) (obs : list (tpk * records)) (sets : list (tpk * list Z)) (kx : tpk * partset) : bool :=
  let '(k, x) := kx in
  match build_part c x, assoc k obs, assoc k sets with
  | Some r, Some o, Some ids => records_eqb (decoded_view r) o && list_eqb Z.eqb (map pm_id (ps_msgs x)) ids
  | _, _, _ => false
  end.

Definition zz_eqb (a b : Z * Z) : bool := (fst a =? fst b) && (snd a =? snd b).
Definition succ_ok (c : pcfg) (bases : list (tpk * (Z * Z))) (succ : list (Z * (Z * Z))) (kx : tpk * partset) : bool :=
  let '(k, x) := kx in
  match assoc k bases with
  | Some (base, bts) => forallb (fun mot => let '(m, o, t) := mot in option_eqb zz_eqb (zassoc (pm_id m) succ) (Some (o, t)))
                                (handle_success c base bts (ps_msgs x))
  | None => false
  end.

Fixpoint count_msgs (ps : list (tpk * partset)) : Z :=
  match ps with [] => 0 | (_, x) :: r => len (ps_msgs x) + count_msgs r end.

Definition ok_build (b : bcase) : bool :=
  let c := bc_cfg b in
  let '(s, adds) := add_all c (new_set (bc_pid b) (bc_pepoch b)) (bc_msgs b) in
  list_eqb Z.eqb (map add_code adds) (bc_adds b) &&
  match s_parts s with
  | [] => (bc_version b =? -1) && (len (bc_parts b) =? 0)
  | ps =>
      (bc_version b =? req_version c) &&
      (len (bc_parts b) =? len ps) && (len (bc_sets b) =? len ps) &&
      forallb (part_ok c (bc_parts b) (bc_sets b)) ps &&
      forallb (succ_ok c (bc_bases b) (bc_succ b)) ps && (len (bc_succ b) =? count_msgs ps)
  end.
Definition mismatches_build := mismatches ok_build.

(* ---------------------------------------------------------------- (b) end to end *)
(* one submitted message: topic, content, the partitioner's oracle and what it was offered *)
Record emsg := mkEMsg {
  em_topic : Z; em_msg : pmsg;
  em_consistent : bool; em_choice : Z;
  em_offered : Z                               (* numPartitions the partitioner was called with (-1: never called) *)
}.
(* one partition of one produce request as a broker decoded it *)
Record ereq := mkEReq { er_key : tpk; er_base : Z; er_appended : bool; er_recs : records }.
Record ecase := mkECase {
  ec_cfg : pcfg;
  ec_msgs : list emsg;
  ec_all : list (Z * list Z);                  (* per topic: client.Partitions *)
  ec_writable : list (Z * list (list Z));      (* per topic: the WritablePartitions lists of the metadata states (distinct lengths) *)
  ec_reqs : list ereq;                         (* in the order the cluster handled them *)
  ec_lat : Z;                                  (* ZERO_TIME, or the topics are LogAppendTime: the brokers' clock, stamped on every entry and answered in every block *)
  ec_succ : list (Z * Z * Z * Z)               (* success events: (id, Partition, Offset, Timestamp) *)
}.

Fixpoint zlassoc {A} (k : Z) (l : list (Z * A)) : option A :=
  match l with [] => None | (k', v) :: r => if k =? k' then Some v else zlassoc k r end.
Fixpoint find_msg (id : Z) (l : list emsg) : option emsg :=
  match l with [] => None | m :: r => if pm_id (em_msg m) =? id then Some m else find_msg id r end.
Fixpoint with_len (n : Z) (ls : list (list Z)) : option (list Z) :=
  match ls with [] => None | l :: r => if len l =? n then Some l else with_len n r end.

(* the log of one partition according to the model's broker *)
Fixpoint log_of (k : tpk) (rs : list ereq) : list (Z * entry) :=
  match rs with
  | [] => []
  | r :: t => (if tpk_eqb k (er_key r) && er_appended r then append_records (er_base r) (er_recs r) else []) ++ log_of k t
  end.

Definition expected_partition (e : ecase) (m : emsg) : routed :=
  let all := match zlassoc (em_topic m) (ec_all e) with Some l => l | None => [] end in
  let wr := match zlassoc (em_topic m) (ec_writable e) with
            | Some ls => match with_len (em_offered m) ls with Some l => l | None => [] end
            | None => [] end in
  partition_message (em_consistent m) (inl all) (inl wr) (PChoice (em_choice m)).

Definition succ_e2e_ok (e : ecase) (s : Z * Z * Z * Z) : bool :=
  let '(id, part, off, ts) := s in
  match find_msg id (ec_msgs e) with
  | None => false
  | Some m =>
      match expected_partition e m with
      | RPart p => (p =? part)
      | RErr _ => false
      end &&
      (ts =? reported_ts (ec_cfg e) (ec_lat e) (em_msg m)) &&
      match log_lookup off (stamp_log (ec_lat e) (log_of (em_topic m, part) (ec_reqs e))) with
      | Some en => entry_eqb en (if ec_lat e =? ZERO_TIME then image (ec_cfg e) (em_msg m)
                                 else stamp_entry (ec_lat e) (image (ec_cfg e) (em_msg m)))
      | None => false
      end
  end.

Definition ok_e2e (e : ecase) : bool := forallb (succ_e2e_ok e) (ec_succ e).
Definition mismatches_e2e := mismatches ok_e2e.

(* ---------------------------------------------------------------- (c) what a broker worker does with a received message *)
(* read off the hook points of brokerProducer.run: flags of the message, bp.closing != nil, currentRetries entry non-nil,
   and what followed: 0 nothing (syn consumed), 1 bounced (retry / error without reaching add), 2 went on to add
   (waitForSpace or a successful buffer.add), 3 add refused it (sequence assertion / encoder error) *)
Record rcase := mkRCase { rc_flags : Z; rc_closing : bool; rc_retrying : bool; rc_obs : Z }.
Definition ok_recv (r : rcase) : bool :=
  match recv_decision FIN_FIX (rc_flags r) (rc_closing r) (rc_retrying r) with
  | 0 => rc_obs r =? 0
  | 1 => rc_obs r =? 1
  | _ => (rc_obs r =? 2) || (rc_obs r =? 3)
  end.
Definition mismatches_recv := mismatches ok_recv.
