(* C04 — "nothing added", the global half, through the actor composition of coq/Producer (b-producer, property C01):
   in every reachable state of the composed producer (any configuration, idempotent included, any schedule and fault
   script) the sets handed to the network consist of application messages only (Producer.Markers.broker_side_data_only).
   coq/Producer abstracts message content away (identity, flags, size); coq/C04 carries the content.  The two meet in
   the flags: a content-carrying set [refines] an abstract one when, partition by partition, its messages carry the
   flags of the abstract messages.  Kept apart from Proofs.v: this file depends on b-producer's proofs. *)
From Coq Require Import List ZArith Bool Lia.
From SV Require Producer.Msg Producer.Actors Producer.Compose Producer.Markers.
From SV Require Import Wire.Records C04.Model C04.Proofs.
Import ListNotations.
Open Scope Z_scope.

Module P := SV.Producer.Msg.
Module PC := SV.Producer.Compose.

Definition refines (s : pset) (st : P.pset) : Prop :=
  forall k x, In (k, x) (s_parts s) ->
    exists l, In (k, l) (P.s_parts st) /\ map pm_flags (ps_msgs x) = map P.m_flags l.

(* a set the composed producer hands to the network: waiting at the bridge of a broker worker, or in flight *)
Definition sent_in (c : P.cfg) (sched : list PC.choice) (st : P.pset) : Prop :=
  exists b bx, nth_error (PC.g_bps (PC.run c sched)) b = Some bx /\ (In st (PC.i_bridge bx) \/ PC.i_infl bx = Some st).

Theorem sent_sets_data_only c sched st s :
  P.c_fix_rb c = true -> sent_in c sched st -> refines s st -> set_data_only s.
Proof.
  intros Hfix (b & bx & Hb & Hst) Href k x m Hin Hm.
  destruct (Href k x Hin) as (l & Hl & Hflags).
  assert (Hf : In (pm_flags m) (map P.m_flags l)) by (rewrite <- Hflags; now apply in_map).
  apply in_map_iff in Hf as (m' & Ef & Hm').
  destruct (SV.Producer.Markers.broker_side_data_only c Hfix sched b bx Hb) as (_ & _ & Hbr & Hinf & _).
  assert (D : P.is_data m' = true) by (destruct Hst as [Hst|Hst]; [exact (Hbr st k l m' Hst Hl Hm') | exact (Hinf st k l m' Hst Hl Hm')]).
  unfold P.is_data, P.F_DATA in D. unfold is_data. rewrite <- Ef. exact D.
Qed.

(* every record a leader appends for a set the producer sent is the image of an APPLICATION message of that set *)
Theorem nothing_added_full pc sched st c pid pepoch l k x r base :
  P.c_fix_rb pc = true -> sent_in pc sched st ->
  refines (fst (add_all c (new_set pid pepoch) l)) st ->
  part_lookup k (s_parts (fst (add_all c (new_set pid pepoch) l))) = Some x -> build_part c x = Some r ->
  forall o e, In (o, e) (append_records base (decoded_view r)) ->
  exists m, In m (ps_msgs x) /\ is_data m = true /\ e = image c m /\ In (k, m) l.
Proof.
  intros Hfix Hsent Href Hx Hb o e Hin.
  pose proof (sent_sets_data_only pc sched st _ Hfix Hsent Href) as D.
  destruct (nothing_added c pid pepoch l k x r base Hx Hb) as (Hsnd & _ & _).
  assert (He : In e (map (image c) (ps_msgs x))) by (rewrite <- Hsnd; apply (in_map snd) in Hin; exact Hin).
  apply in_map_iff in He as (m & <- & Hm). exists m. split; [exact Hm|]. split; [exact (D k x m (lookup_in _ _ _ Hx) Hm)|]. split; [reflexivity|].
  rewrite (reach_msgs c pid pepoch l k x Hx) in Hm. unfold msgs_of in Hm.
  apply in_map_iff in Hm as ([k0 m0] & E & Hf). cbn [snd] in E. subst m0. apply filter_In in Hf as [Hacc Hk]. cbn [fst] in Hk.
  apply tpk_eqb_eq in Hk. subst k0. clear - Hacc. revert Hacc. generalize (new_set pid pepoch).
  induction l as [|[k1 m1] r0 IH]; intros s0; cbn [accepted]; [intros []|].
  destruct (ps_add c s0 k1 m1) as [s1 a]. destruct a; intros H; try (right; now apply (IH s1)).
  destruct H as [E|H]; [left; exact E | right; now apply (IH s1)].
Qed.

(* the hypotheses are satisfiable: a plain producer (Retry.Max = 2, 0.11+) has submitted one message; the broker worker
   has flushed and the bridge has put the set on the wire (in flight); the content-carrying set built by the same add
   call refines it *)
Example ex_full_hypotheses :
  let pc := P.mkCfg 2%nat false true 1000000 104847360 0 0 false 0 [] true true in
  let am := P.mkMsg 1 0 0 0%nat 0 50 false 0 false 0 0 false [] in
  let sched := [PC.CSubmit am; PC.CDisp; PC.CTp 0; PC.CPp 0 0 [P.LOk 1]; PC.CBpRecv 0; PC.CBpRecv 0; PC.CBpFlush 0; PC.CBridge 0] in
  let c := mkCfg 2 0 false in
  let l := [((0, 0), mkPM 1 None (Some [49]) [] 1600000000005000000 0 0 0 false)] in
  P.c_fix_rb pc = true /\
  exists st, sent_in pc sched st /\ refines (fst (add_all c (new_set (-1) (-1)) l)) st /\
    exists x r, part_lookup (0, 0) (s_parts (fst (add_all c (new_set (-1) (-1)) l))) = Some x /\ build_part c x = Some r.
Proof.
  cbv zeta. split; [reflexivity|]. eexists. split; [|split].
  - exists 0%nat. eexists. split; [vm_compute; reflexivity | right; vm_compute; reflexivity].
  - intros k x Hin. vm_compute in Hin. destruct Hin as [E|[]]. injection E as <- <-. eexists. split; [left; reflexivity | reflexivity].
  - eexists; eexists. split; vm_compute; reflexivity.
Qed.
