(* C04 — the routing model against the decision slices of topicProducer.partitionMessage that go/decgen regenerates from the
   source on every run (coq/Gen/DecC17.v: partition_source = which partition list is asked for, partition_pick = the range
   check and msg.Partition = partitions[choice]).  Kept apart: depends on the decgen goldens. *)
From Coq Require Import List ZArith Bool Lia.
From SV Require Import Gen.GoInt Gen.DecTypes Gen.DecC17 Wire.Bytes C04.Model.
Import ListNotations.
Open Scope Z_scope.

(* the partitioner's answer as the Go code sees it: (choice, err) *)
Definition choice_val (ch : pchoice) : Z := match ch with PChoice i => i | PFail _ => 0 end.
Definition choice_err (ch : pchoice) : gerr := match ch with PChoice _ => ENil | PFail e => EK e end.
Definition err_code (e : gerr) : Z :=
  match e with EK c => c | EVar _ => E_INVALID_PARTITION | _ => -1 end.
(* what a slice result means for the message: fall through = partitioned, return = the error handed to returnError *)
Definition routed_of (x : gerr * Z * exit gerr) : routed :=
  match x with
  | (_, p, ExFall) => RPart p
  | (_, _, ExReturn e) => RErr (err_code e)
  | _ => RErr (-1)
  end.

Theorem tie_partition_source partitions err dyn msg_requires requires all_parts all_err wr_parts wr_err :
  partition_source partitions err dyn msg_requires requires all_parts all_err wr_parts wr_err =
  (if (if dyn then msg_requires else requires) then (all_parts, all_err) else (wr_parts, wr_err), ExFall).
Proof. unfold partition_source. destruct dyn, msg_requires, requires; reflexivity. Qed.

Theorem tie_partition_pick consistent parts ch cur err : len parts < 2147483648 ->
  routed_of (partition_pick err cur parts (choice_val ch) (choice_err ch)) =
  partition_message consistent (inl parts) (inl parts) ch.
Proof.
  intros Hl. unfold partition_pick, partition_message. replace (if consistent then inl parts else inl parts) with (@inl (list Z) Z parts) by (destruct consistent; reflexivity).
  assert (W : wrap32 (zlen parts) = len parts).
  { unfold wrap32, zlen, len in *. pose proof (Zle_0_nat (List.length parts)). rewrite Z.mod_small by lia. lia. }
  rewrite W. destruct (len parts =? 0); [reflexivity|].
  destruct ch as [i|e]; cbn [choice_val choice_err gerr_eqb negb]; [|reflexivity].
  replace (i >=? len parts) with (len parts <=? i) by (rewrite Z.geb_leb; reflexivity).
  destruct ((i <? 0) || (len parts <=? i)) eqn:E; [reflexivity|].
  cbn [routed_of]. f_equal. unfold zidx. apply nth_indep.
  apply orb_false_iff in E as [E1 E2]. apply Z.ltb_ge in E1. apply Z.leb_gt in E2. unfold len in E2. lia.
Qed.
