(* C04 — proofs over coq/C04/Model.v: what a produce set sends is, after the wire, exactly the accepted messages,
   index-aligned; the broker's log holds message i of a partition's batch at base + i; handleSuccess reports base + i. *)
From Coq Require Import List ZArith Bool Lia.
From SV Require Import Wire.Bytes Wire.Prim Wire.PushPop Wire.Records C04.Model.
Import ListNotations.
Open Scope Z_scope.

(* ---------------------------------------------------------------- keys *)
Lemma tpk_eqb_eq a b : tpk_eqb a b = true <-> a = b.
Proof.
  destruct a as [a1 a2], b as [b1 b2]. unfold tpk_eqb. cbn [fst snd]. rewrite andb_true_iff, !Z.eqb_eq.
  split; [intros [-> ->]; reflexivity | intros E; injection E; auto].
Qed.
Lemma tpk_eqb_refl a : tpk_eqb a a = true. Proof. now apply tpk_eqb_eq. Qed.
Lemma tpk_eqb_neq a b : tpk_eqb a b = false <-> a <> b.
Proof.
  split; intros H.
  - intros E. apply tpk_eqb_eq in E. congruence.
  - destruct (tpk_eqb a b) eqn:E; [apply tpk_eqb_eq in E; contradiction | reflexivity].
Qed.

Lemma lookup_set k' k x ps : part_lookup k' (part_set k x ps) = if tpk_eqb k' k then Some x else part_lookup k' ps.
Proof.
  induction ps as [|[k0 y] r IH]; cbn [part_set part_lookup].
  - destruct (tpk_eqb k' k); reflexivity.
  - destruct (tpk_eqb k k0) eqn:E.
    + apply tpk_eqb_eq in E. subst k0. cbn [part_lookup]. destruct (tpk_eqb k' k); reflexivity.
    + cbn [part_lookup]. destruct (tpk_eqb k' k0) eqn:E2; [|exact IH].
      apply tpk_eqb_eq in E2. subst k0. destruct (tpk_eqb k' k) eqn:E3; [|reflexivity].
      apply tpk_eqb_eq in E3. subst. rewrite tpk_eqb_refl in E. discriminate.
Qed.
Lemma lookup_in k x ps : part_lookup k ps = Some x -> In (k, x) ps.
Proof.
  induction ps as [|[k0 y] r IH]; cbn [part_lookup]; [discriminate|].
  destruct (tpk_eqb k k0) eqn:E; intros H.
  - apply tpk_eqb_eq in E. injection H as ->. subst. now left.
  - right. now apply IH.
Qed.
Lemma set_forall (P : partset -> Prop) k x ps :
  Forall (fun kx => P (snd kx)) ps -> P x -> Forall (fun kx => P (snd kx)) (part_set k x ps).
Proof.
  intros H Hx. induction H as [|[k0 y] r Hy Hr IH]; cbn [part_set].
  - constructor; [exact Hx | constructor].
  - destruct (tpk_eqb k k0); constructor; auto.
Qed.

(* ---------------------------------------------------------------- version generations *)
Lemma v011_v010 c : v0_11 c = true -> v0_10 c = true.
Proof. unfold v0_11, v0_10. rewrite !Z.leb_le. lia. Qed.
Lemma req_version_batch c : v0_11 c = true -> (3 <=? req_version c) = true.
Proof. intros H. unfold req_version. rewrite H. destruct ((c_codec c =? 4) && v2_1 c); reflexivity. Qed.
Lemma req_version_legacy c : v0_11 c = false -> (3 <=? req_version c) = false.
Proof.
  intros H. unfold req_version. rewrite H.
  assert (E : v2_1 c = false) by (unfold v0_11, v2_1 in *; rewrite Z.leb_gt in *; lia).
  rewrite E, andb_false_r. destruct (v0_10 c); reflexivity.
Qed.
(* the request version is the one the protocol prescribes for the version generation and codec *)
Lemma req_version_spec c :
  req_version c = (if (c_codec c =? 4) && (3 <=? c_gen c) then 7 else if 2 <=? c_gen c then 3 else if 1 <=? c_gen c then 2 else 0).
Proof. reflexivity. Qed.

(* ---------------------------------------------------------------- the set invariant: msgs and recordsToSend are index-aligned *)
Fixpoint blocks_of (ms : list message) : mblocks :=
  match ms with [] => MNil | m :: r => MCons 0 m (blocks_of r) end.
Lemma mapp_blocks_of a m : mapp (blocks_of a) (MCons 0 m MNil) = blocks_of (a ++ [m]).
Proof. induction a as [|x a IH]; cbn [blocks_of mapp app]; [reflexivity | now rewrite IH]. Qed.

Definition aligned (c : pcfg) (x : partset) : Prop :=
  match ps_recs x with
  | RDefault b => v0_11 c = true /\ olist (b_records b) = map (record_of (b_first_ts b)) (ps_msgs x)
  | RLegacy (mkSet p o bs) => v0_11 c = false /\ bs = blocks_of (map (message_of c) (ps_msgs x))
  end.
Definition all_aligned (c : pcfg) (s : pset) : Prop := Forall (fun kx => aligned c (snd kx)) (s_parts s).

Lemma fresh_aligned c s m : aligned c (fresh_partset c s m).
Proof. unfold fresh_partset, aligned. destruct (v0_11 c) eqn:E; cbn; auto. Qed.
Lemma append_aligned c x m : aligned c x -> aligned c (append_msg c x m).
Proof.
  unfold aligned, append_msg. destruct (ps_recs x) as [[p o bs]|b].
  - intros [H1 H2]. cbn [ps_recs ps_msgs]. split; [exact H1|]. rewrite map_app. cbn [map]. rewrite H2. apply mapp_blocks_of.
  - intros [H1 H2]. cbn [ps_recs ps_msgs with_records b_first_ts b_records olist]. split; [exact H1|].
    rewrite map_app, H2. reflexivity.
Qed.

Lemma ps_add_aligned c s k m : all_aligned c s -> all_aligned c (fst (ps_add c s k m)).
Proof.
  intros H. unfold ps_add. destruct (pm_encfail m); [exact H|].
  set (x := match part_lookup k (s_parts s) with Some x => x | None => fresh_partset c s m end).
  assert (Hx : aligned c x).
  { unfold x. destruct (part_lookup k (s_parts s)) eqn:E; [|apply fresh_aligned].
    apply lookup_in in E. unfold all_aligned in H. rewrite Forall_forall in H. exact (H _ E). }
  match goal with |- context [if ?b then _ else _] => destruct b end; [exact H|].
  cbn [fst]. unfold all_aligned. cbn [s_parts]. apply set_forall; [exact H | now apply append_aligned].
Qed.
Lemma add_all_aligned c l : forall s, all_aligned c s -> all_aligned c (fst (add_all c s l)).
Proof.
  induction l as [|[k m] r IH]; intros s H; cbn [add_all]; [exact H|].
  pose proof (ps_add_aligned c s k m H) as H1. destruct (ps_add c s k m) as [s1 a]. cbn [fst] in H1.
  specialize (IH s1 H1). destruct (add_all c s1 r) as [s2 rs]. exact IH.
Qed.
Lemma new_set_aligned c pid ep : all_aligned c (new_set pid ep). Proof. constructor. Qed.

(* ---------------------------------------------------------------- which messages a partition's set holds *)
(* the messages add accepted, in the order of the calls *)
Fixpoint accepted (c : pcfg) (s : pset) (l : list (tpk * pmsg)) : list (tpk * pmsg) :=
  match l with
  | [] => []
  | (k, m) :: r =>
      let '(s1, a) := ps_add c s k m in
      match a with AddOk => (k, m) :: accepted c s1 r | _ => accepted c s1 r end
  end.
Definition msgs_of (k : tpk) (l : list (tpk * pmsg)) : list pmsg :=
  map snd (filter (fun km => tpk_eqb k (fst km)) l).
Definition held (k : tpk) (s : pset) : list pmsg :=
  match part_lookup k (s_parts s) with Some x => ps_msgs x | None => [] end.

Lemma append_msgs c x m : ps_msgs (append_msg c x m) = ps_msgs x ++ [m].
Proof. unfold append_msg. destruct (ps_recs x) as [[p o bs]|b]; reflexivity. Qed.
Lemma fresh_msgs c s m : ps_msgs (fresh_partset c s m) = [].
Proof. unfold fresh_partset. destruct (v0_11 c); reflexivity. Qed.

Lemma held_add c s k m k' :
  held k' (fst (ps_add c s k m)) =
  held k' s ++ (match snd (ps_add c s k m) with AddOk => if tpk_eqb k' k then [m] else [] | _ => [] end).
Proof.
  unfold ps_add. destruct (pm_encfail m); cbn [fst snd]; [now rewrite app_nil_r|].
  match goal with |- context [if ?b then _ else _] => destruct b end; cbn [fst snd]; [now rewrite app_nil_r|].
  unfold held. cbn [s_parts]. rewrite lookup_set. destruct (tpk_eqb k' k) eqn:E; [|now rewrite app_nil_r].
  apply tpk_eqb_eq in E. subst k'. rewrite append_msgs.
  destruct (part_lookup k (s_parts s)); [reflexivity | now rewrite fresh_msgs].
Qed.

Lemma held_add_all c l : forall s k, held k (fst (add_all c s l)) = held k s ++ msgs_of k (accepted c s l).
Proof.
  induction l as [|[k0 m] r IH]; intros s k; cbn [add_all accepted].
  - unfold msgs_of. cbn. now rewrite app_nil_r.
  - pose proof (held_add c s k0 m k) as H. destruct (ps_add c s k0 m) as [s1 a]. cbn [fst snd] in H.
    specialize (IH s1 k). destruct (add_all c s1 r) as [s2 rs]. cbn [fst] in *. rewrite IH, H, <- app_assoc. f_equal.
    destruct a; try reflexivity. unfold msgs_of. cbn [filter fst]. destruct (tpk_eqb k k0); reflexivity.
Qed.

(* ---------------------------------------------------------------- the log *)
Fixpoint placed_from (o : Z) (es : list entry) : list (Z * entry) :=
  match es with [] => [] | e :: r => (o, e) :: placed_from (o + 1) r end.

Lemma placed_lookup es : forall base i e, nth_error es i = Some e ->
  log_lookup (base + Z.of_nat i) (placed_from base es) = Some e.
Proof.
  induction es as [|x es IH]; intros base i e H; [destruct i; discriminate|].
  destruct i as [|i]; cbn [nth_error] in H; cbn [placed_from log_lookup].
  - injection H as ->. replace (base + Z.of_nat 0) with base by (cbn; lia). now rewrite Z.eqb_refl.
  - replace (base =? base + Z.of_nat (S i)) with false by (symmetry; apply Z.eqb_neq; lia).
    replace (base + Z.of_nat (S i)) with (base + 1 + Z.of_nat i) by lia. now apply IH.
Qed.
Lemma placed_offsets es : forall base, map fst (placed_from base es) = map (fun i => base + Z.of_nat i) (seq 0 (length es)).
Proof.
  induction es as [|x es IH]; intros base; [reflexivity|]. cbn [placed_from map length seq fst].
  f_equal; [cbn; lia|]. rewrite IH, <- seq_shift, map_map. apply map_ext. intros i. lia.
Qed.
Lemma placed_entries es : forall base, map snd (placed_from base es) = es.
Proof. induction es as [|x es IH]; intros base; [reflexivity|]. cbn [placed_from map snd]. now rewrite IH. Qed.

Lemma assign_nth l : forall base i m, nth_error l i = Some m ->
  nth_error (assign_offsets base l) i = Some (m, base + Z.of_nat i).
Proof.
  induction l as [|x l IH]; intros base i m H; [destruct i; discriminate|].
  destruct i as [|i]; cbn [nth_error assign_offsets] in *.
  - injection H as ->. f_equal. f_equal. cbn; lia.
  - rewrite (IH (base + 1) i m H). f_equal. f_equal. lia.
Qed.
Lemma handle_success_nth c bts l : forall base i m, nth_error l i = Some m ->
  nth_error (handle_success c base bts l) i = Some (m, base + Z.of_nat i, reported_ts c bts m).
Proof.
  induction l as [|x l IH]; intros base i m H; [destruct i; discriminate|].
  destruct i as [|i]; cbn [nth_error handle_success] in *.
  - injection H as ->. f_equal. f_equal. f_equal. cbn; lia.
  - rewrite (IH (base + 1) i m H). f_equal. f_equal. f_equal. lia.
Qed.
Lemma handle_success_offsets c bts l : forall base,
  map (fun x => (fst (fst x), snd (fst x))) (handle_success c base bts l) = assign_offsets base l.
Proof. induction l as [|x l IH]; intros base; [reflexivity|]. cbn [handle_success assign_offsets map fst snd]. now rewrite IH. Qed.
Lemma handle_success_length c bts l : forall base, length (handle_success c base bts l) = length l.
Proof. induction l; intros; cbn [handle_success length]; auto. Qed.
Lemma stamp_lookup lat lg : forall off e, log_lookup off lg = Some e ->
  log_lookup off (stamp_log lat lg) = Some (if lat =? ZERO_TIME then e else stamp_entry lat e).
Proof.
  unfold stamp_log. destruct (lat =? ZERO_TIME); [auto|].
  induction lg as [|[o x] r IH]; intros off e; cbn [log_lookup map fst snd]; [discriminate|].
  destruct (o =? off); [intros H; injection H as ->; reflexivity | apply IH].
Qed.
Lemma assign_length l : forall base, length (assign_offsets base l) = length l.
Proof. induction l; intros; cbn [assign_offsets length]; auto. Qed.

(* ---------------------------------------------------------------- record batches *)
Lemma entry_of_batch_record c fts m i : v0_11 c = true ->
  entry_of_record fts (norm_rec (set_offdelta (record_of fts m) i)) = image c m.
Proof.
  intros H. unfold entry_of_record, norm_rec, set_offdelta, record_of, image. cbn [r_key r_value r_headers r_tsdelta olist].
  rewrite H, (v011_v010 c H). f_equal.
  - destruct (pm_headers m); reflexivity.
  - f_equal. lia.
Qed.
Lemma place_batch c base fts ms : v0_11 c = true -> forall i,
  place_records base fts (map norm_rec (number_records i (map (record_of fts) ms))) = placed_from (base + i) (map (image c) ms).
Proof.
  intros H. induction ms as [|m ms IH]; intros i; [reflexivity|].
  cbn [map number_records place_records placed_from]. rewrite (entry_of_batch_record c) by exact H.
  f_equal. rewrite IH. f_equal. lia.
Qed.

(* ---------------------------------------------------------------- legacy message sets *)
Lemma entry_of_legacy c m : v0_11 c = false -> entry_of_message (message_of c m) = image c m.
Proof.
  intros H. unfold entry_of_message, message_of, image. rewrite H. destruct (v0_10 c); reflexivity.
Qed.
Lemma place_plain c ms : v0_11 c = false -> forall next,
  place_top next (blocks_of (map (message_of c) ms)) = placed_from next (map (image c) ms).
Proof.
  intros H. induction ms as [|m ms IH]; intros next; [reflexivity|].
  cbn [map blocks_of]. unfold message_of at 1. cbn [place_top]. fold (message_of c m). rewrite entry_of_legacy by exact H.
  cbn [placed_from]. now rewrite IH.
Qed.
Lemma place_seq_blocks c ms : v0_11 c = false -> forall next,
  place_seq next (blocks_of (map (message_of c) ms)) = placed_from next (map (image c) ms).
Proof.
  intros H. induction ms as [|m ms IH]; intros next; [reflexivity|].
  cbn [map blocks_of place_seq placed_from]. rewrite entry_of_legacy by exact H. now rewrite IH.
Qed.
Lemma place_rel_blocks c ms first : v0_11 c = false -> forall i,
  place_rel first (number_blocks i (blocks_of (map (message_of c) ms))) = placed_from (first + i) (map (image c) ms).
Proof.
  intros H. induction ms as [|m ms IH]; intros i; [reflexivity|].
  cbn [map blocks_of number_blocks place_rel placed_from]. rewrite entry_of_legacy by exact H. rewrite IH. f_equal. f_equal. lia.
Qed.

(* ---------------------------------------------------------------- one partition of a request *)
Theorem part_log c x r base : aligned c x -> build_part c x = Some r ->
  append_records base (decoded_view r) = placed_from base (map (image c) (ps_msgs x)).
Proof.
  unfold aligned, build_part. destruct (ps_recs x) as [[p o bs]|b].
  - intros [Hv Hbs]. rewrite (req_version_legacy c Hv).
    destruct (c_codec c =? 0).
    + intros E. injection E as <-. cbn [decoded_view append_records]. rewrite Hbs. now apply place_plain.
    + destruct (v0_10 c) eqn:H10.
      * (* magic 1 wrapper, relative offsets *)
        destruct (number_blocks 0 bs) as [|o0 m0 rest] eqn:Enb; [discriminate|].
        destruct (encode_inner (mkSet p o (MCons o0 m0 rest))); [|discriminate].
        intros E. injection E as <-. cbn [decoded_view append_records place_top].
        replace (1 <=? 1) with true by reflexivity. rewrite <- Enb, Hbs, app_nil_r.
        rewrite (place_rel_blocks c _ base Hv 0). f_equal. lia.
      * (* magic 0 wrapper: the broker assigns consecutive offsets *)
        destruct bs as [|o0 m0 rest] eqn:Ebs.
        -- destruct (encode_inner (mkSet p o MNil)); [|discriminate].
           intros E. injection E as <-. cbn [decoded_view append_records place_top place_seq app].
           destruct (ps_msgs x); [reflexivity | discriminate].
        -- destruct (encode_inner (mkSet p o (MCons o0 m0 rest))); [|discriminate].
           intros E. injection E as <-. cbn [decoded_view append_records place_top].
           replace (1 <=? 0) with false by reflexivity. rewrite Hbs, app_nil_r. now apply place_seq_blocks.
  - intros [Hv Hrs]. rewrite (req_version_batch c Hv). intros E. injection E as <-.
    destruct (0 <? len (olist (b_records b))) eqn:Hn.
    + cbn [decoded_view append_records with_records b_records b_first_ts olist]. rewrite Hrs.
      rewrite (place_batch c base _ _ Hv 0). f_equal. lia.
    + cbn [decoded_view append_records with_records b_records b_first_ts olist].
      assert (E0 : olist (b_records b) = []).
      { apply Z.ltb_ge in Hn. unfold len in Hn. destruct (olist (b_records b)); [reflexivity | cbn in Hn; lia]. }
      rewrite E0 in *. destruct (ps_msgs x); [reflexivity | discriminate].
Qed.

(* uncompressed sets and record batches are always built; a compressed legacy set is built iff the inner set encodes
   (it does unless it is larger than MaxRequestSize or holds a timestamp before the epoch: Wire layer) *)
Lemma build_part_total c x : aligned c x -> ps_msgs x <> [] ->
  v0_11 c = true \/ c_codec c = 0 -> exists r, build_part c x = Some r.
Proof.
  unfold aligned, build_part. destruct (ps_recs x) as [[p o bs]|b].
  - intros [Hv _] _ [H|H]; [congruence|]. rewrite (req_version_legacy c Hv), H. cbn. eauto.
  - intros [Hv _] _ _. rewrite (req_version_batch c Hv). eauto.
Qed.

(* ---------------------------------------------------------------- reachable sets *)
Section Reachable.
Variables (c : pcfg) (pid pepoch : Z) (l : list (tpk * pmsg)).
Let s := fst (add_all c (new_set pid pepoch) l).

Lemma reach_aligned k x : part_lookup k (s_parts s) = Some x -> aligned c x.
Proof.
  intros H. apply lookup_in in H. pose proof (add_all_aligned c l _ (new_set_aligned c pid pepoch)) as A.
  unfold all_aligned in A. rewrite Forall_forall in A. exact (A _ H).
Qed.
Lemma reach_msgs k x : part_lookup k (s_parts s) = Some x -> ps_msgs x = msgs_of k (accepted c (new_set pid pepoch) l).
Proof.
  intros H. pose proof (held_add_all c l (new_set pid pepoch) k) as E. fold s in E. unfold held in E. rewrite H in E. exact E.
Qed.

Theorem request_decodes_to_submitted k x r base :
  part_lookup k (s_parts s) = Some x -> build_part c x = Some r ->
  ps_msgs x = msgs_of k (accepted c (new_set pid pepoch) l) /\
  append_records base (decoded_view r) = placed_from base (map (image c) (ps_msgs x)).
Proof. intros H B. split; [now apply reach_msgs | apply part_log; [now apply (reach_aligned k) | exact B]]. Qed.

Theorem offset_identifies k x r base bts i m :
  part_lookup k (s_parts s) = Some x -> build_part c x = Some r -> nth_error (ps_msgs x) i = Some m ->
  nth_error (handle_success c base bts (ps_msgs x)) i = Some (m, base + Z.of_nat i, reported_ts c bts m) /\
  log_lookup (base + Z.of_nat i) (append_records base (decoded_view r)) = Some (image c m).
Proof.
  intros H B N. split; [now apply handle_success_nth|].
  rewrite (part_log c x r base (reach_aligned k x H) B). apply placed_lookup. now apply map_nth_error.
Qed.

(* a LogAppendTime topic: the leader stamps the entries with its clock [lat] and answers it; the offset still identifies the
   message (key, value, headers), the log and the reported Timestamp both hold the broker's time *)
Theorem offset_identifies_log_append k x r base lat i m :
  part_lookup k (s_parts s) = Some x -> build_part c x = Some r -> nth_error (ps_msgs x) i = Some m ->
  v0_10 c = true -> lat <> ZERO_TIME ->
  nth_error (handle_success c base lat (ps_msgs x)) i = Some (m, base + Z.of_nat i, lat) /\
  log_lookup (base + Z.of_nat i) (stamp_log lat (append_records base (decoded_view r))) =
    Some (mkEntry (pm_key m) (pm_value m) (if v0_11 c then pm_headers m else []) (Some lat)).
Proof.
  intros H B N Hv Hl. destruct (offset_identifies k x r base lat i m H B N) as [A1 A2]. split.
  - rewrite A1. unfold reported_ts. rewrite Hv. apply Z.eqb_neq in Hl. now rewrite Hl.
  - rewrite (stamp_lookup lat _ _ _ A2). apply Z.eqb_neq in Hl. rewrite Hl. unfold stamp_entry, image. cbn [e_key e_value e_headers e_ts].
    now rewrite Hv.
Qed.

Theorem nothing_added k x r base :
  part_lookup k (s_parts s) = Some x -> build_part c x = Some r ->
  map snd (append_records base (decoded_view r)) = map (image c) (ps_msgs x) /\
  map fst (append_records base (decoded_view r)) = map (fun i => base + Z.of_nat i) (seq 0 (length (ps_msgs x))) /\
  forall o e, In (o, e) (append_records base (decoded_view r)) -> exists km, In km l /\ fst km = k /\ e = image c (snd km).
Proof.
  intros H B. rewrite (part_log c x r base (reach_aligned k x H) B). split; [apply placed_entries|].
  split; [rewrite placed_offsets, map_length; reflexivity|].
  intros o e Hin.
  assert (He : In e (map (image c) (ps_msgs x))) by (rewrite <- (placed_entries _ base); apply (in_map snd) in Hin; exact Hin).
  apply in_map_iff in He as (m & <- & Hm). rewrite (reach_msgs k x H) in Hm. unfold msgs_of in Hm.
  apply in_map_iff in Hm as ([k0 m0] & E & Hf). cbn [snd] in E. subst m0. apply filter_In in Hf as [Hacc Hk]. cbn [fst] in Hk.
  apply tpk_eqb_eq in Hk. subst k0. exists (k, m). repeat split.
  clear - Hacc. revert Hacc. generalize (new_set pid pepoch). induction l as [|[k1 m1] r IH]; intros s0; cbn [accepted]; [intros []|].
  destruct (ps_add c s0 k1 m1) as [s1 a]. destruct a; intros Hin; try (right; now apply (IH s1)).
  destruct Hin as [E|Hin]; [left; exact E | right; now apply (IH s1)].
Qed.
End Reachable.

(* what [image] preserves, spelled out *)
Lemma image_spec c m :
  e_key (image c m) = pm_key m /\ e_value (image c m) = pm_value m /\
  (v0_11 c = true -> e_headers (image c m) = pm_headers m) /\
  (v0_11 c = false -> e_headers (image c m) = []) /\
  (v0_10 c = true -> pm_ts m <> ZERO_TIME -> e_ts (image c m) = Some (pm_ts m / MS * MS)) /\
  (v0_10 c = true -> pm_ts m = ZERO_TIME -> e_ts (image c m) = Some (pm_now m / MS * MS)) /\
  (v0_10 c = false -> e_ts (image c m) = None).
Proof.
  unfold image, add_ts, trunc_ms, eff_ts. cbn [e_key e_value e_headers e_ts]. repeat split; try (intros ->; reflexivity).
  - intros -> H. apply Z.eqb_neq in H. now rewrite H.
  - intros -> H. apply Z.eqb_eq in H. now rewrite H.
Qed.

(* ---------------------------------------------------------------- routing *)
Theorem partition_is_choice p ps cur :
  route_all 0 cur (p :: ps) = partition_message (pa_consistent p) (pa_all p) (pa_writable p) (pa_choice p).
Proof.
  cbn [route_all route]. destruct (partition_message _ _ _ _) as [q|e]; [|reflexivity].
  generalize 0%nat. induction ps as [|p' ps IH]; intros n; cbn [route_all]; [reflexivity|].
  cbn [route]. apply IH.
Qed.
Lemma partition_message_spec consistent all writable ch q :
  partition_message consistent all writable ch = RPart q ->
  exists partitions i, (if consistent then all else writable) = inl partitions /\ ch = PChoice i /\
                       0 <= i < len partitions /\ nth_error partitions (Z.to_nat i) = Some q.
Proof.
  unfold partition_message. destruct (if consistent then all else writable) as [partitions|e]; [|discriminate].
  destruct (len partitions =? 0); [discriminate|]. destruct ch as [i|e]; [|discriminate].
  destruct ((i <? 0) || (len partitions <=? i)) eqn:E; [discriminate|]. intros H. injection H as <-.
  apply orb_false_iff in E as [E1 E2]. apply Z.ltb_ge in E1. apply Z.leb_gt in E2.
  exists partitions, i. repeat split; try lia. apply nth_error_nth'. unfold len in E2. lia.
Qed.

(* ---------------------------------------------------------------- the broker worker's buffer holds data messages only ... *)
Definition set_data_only (s : pset) : Prop :=
  forall k x m, In (k, x) (s_parts s) -> In m (ps_msgs x) -> is_data m = true.
Definition data_only (st : bpst) : Prop := set_data_only (bs_set st).

(* ... as long as every marker it receives is a syn or finds the worker refusing the partition *)
Fixpoint guarded (fx : bool) (c : pcfg) (st : bpst) (evs : list bp_event) : Prop :=
  match evs with
  | [] => True
  | e :: r =>
      (match e with BRecv k m => is_data m = true \/ is_syn m = true \/ refusing st k = true | _ => True end) /\
      guarded fx c (bp_step fx c st e) r
  end.
(* the markers the partition workers create are syn and fin only (flags 1 or 2) *)
Definition markers_syn_fin (evs : list bp_event) : Prop :=
  forall k m, In (BRecv k m) evs -> is_data m = true \/ is_syn m = true \/ is_fin m = true.

Lemma in_part_set k0 x0 ps : forall k x, In (k, x) (part_set k0 x0 ps) -> (k, x) = (k0, x0) \/ In (k, x) ps.
Proof.
  induction ps as [|[k1 y] r IH]; intros k x; cbn [part_set].
  - intros [E|[]]. left. now symmetry.
  - destruct (tpk_eqb k0 k1) eqn:E.
    + apply tpk_eqb_eq in E. subst k1. intros [H|H]; [left; now symmetry | right; now right].
    + intros [H|H]; [right; now left|]. destruct (IH _ _ H); [now left | right; now right].
Qed.
Lemma in_part_drop k0 ps : forall kx, In kx (part_drop k0 ps) -> In kx ps.
Proof.
  induction ps as [|[k1 y] r IH]; intros kx; cbn [part_drop]; [intros []|].
  destruct (tpk_eqb k0 k1); [intros H; now right|]. intros [H|H]; [now left | right; now apply IH].
Qed.

Lemma ps_add_data_only c s k m : set_data_only s -> is_data m = true -> set_data_only (fst (ps_add c s k m)).
Proof.
  intros H Hm. unfold ps_add. destruct (pm_encfail m); [exact H|].
  match goal with |- context [if ?b then _ else _] => destruct b end; [exact H|].
  cbn [fst]. intros k' x' m' Hin Hm'. cbn [s_parts] in Hin. apply in_part_set in Hin as [E|Hin]; [|exact (H _ _ _ Hin Hm')].
  injection E as -> ->. rewrite append_msgs in Hm'. apply in_app_or in Hm' as [Hm'|[<-|[]]]; [|exact Hm].
  destruct (part_lookup k (s_parts s)) eqn:E.
  - apply lookup_in in E. exact (H _ _ _ E Hm').
  - rewrite fresh_msgs in Hm'. destruct Hm'.
Qed.

Theorem buffer_data_only fx c evs : forall st, data_only st -> guarded fx c st evs -> data_only (bp_run fx c st evs).
Proof.
  induction evs as [|e evs IH]; intros st D G; [exact D|]. cbn [bp_run fold_left]. destruct G as [G1 G2].
  apply IH; [|exact G2]. clear IH G2. destruct e as [k m| pid ep | k | ]; cbn [bp_step].
  - unfold recv_decision. destruct (Z.land (pm_flags m) 1 =? 1) eqn:Es; [exact D|].
    destruct (bs_closing st || retrying st k) eqn:Er.
    + destruct (negb (bs_closing st) && is_fin m && retrying st k); exact D.
    + destruct G1 as [G1|[G1|G1]].
      * assert (E2 : Z.land (pm_flags m) 2 =? 2 = false) by (unfold is_data in G1; apply Z.eqb_eq in G1; rewrite G1; reflexivity).
        rewrite E2, andb_false_r. unfold data_only. cbn [bs_set]. now apply ps_add_data_only.
      * unfold is_syn in G1. congruence.
      * unfold refusing in G1. congruence.
  - intros k x m [].
  - intros k' x m Hin Hm. cbn [bs_set s_parts] in Hin. apply in_part_drop in Hin. exact (D _ _ _ Hin Hm).
  - exact D.
Qed.

(* with fixes/c04_fin_not_buffered.patch the invariant needs no guard: whatever the worker's state, syn is consumed and
   fin is bounced *)
Theorem buffer_data_only_fixed c evs : forall st, data_only st -> markers_syn_fin evs -> data_only (bp_run true c st evs).
Proof.
  induction evs as [|e evs IH]; intros st D M; [exact D|]. cbn [bp_run fold_left].
  apply IH; [|intros k m H; apply (M k m); now right].
  pose proof (fun k m => M k m) as M1. clear IH. destruct e as [k m| pid ep | k | ]; cbn [bp_step].
  - specialize (M1 k m (or_introl eq_refl)). unfold recv_decision. destruct (Z.land (pm_flags m) 1 =? 1) eqn:Es; [exact D|].
    destruct (bs_closing st || retrying st k) eqn:Er.
    + destruct (negb (bs_closing st) && is_fin m && retrying st k); exact D.
    + cbn [andb]. destruct (Z.land (pm_flags m) 2 =? 2) eqn:Ef.
      * destruct (negb (bs_closing st) && is_fin m && retrying st k); exact D.
      * destruct M1 as [G|[G|G]].
        -- unfold data_only. cbn [bs_set]. now apply ps_add_data_only.
        -- unfold is_syn in G. congruence.
        -- unfold is_fin in G. congruence.
  - intros k x m [].
  - intros k' x m Hin Hm. cbn [bs_set s_parts] in Hin. apply in_part_drop in Hin. exact (D _ _ _ Hin Hm).
  - exact D.
Qed.
