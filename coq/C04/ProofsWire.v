(* C04 — down to the bytes, for record batches (Kafka >= 0.11): what buildRequest puts into the request for a partition,
   encoded by RecordBatch.encode, is decoded by Records.decode / RecordBatch.decode to [decoded_view] of it — by the
   round-trip theorem of coq/Wire/BatchProofs.v (C09a), under the hypothesis that the codec library decompresses what
   it compressed.  Kept apart from Proofs.v: this file depends on b-wire1's proofs. *)
From Coq Require Import List ZArith Bool Lia.
From SV Require Import Wire.Bytes Wire.Prim Wire.PushPop Wire.PrimProofs Wire.Records Wire.RecordsProofs Wire.BatchProofs
  C04.Model C04.Proofs.
Import ListNotations.
Open Scope Z_scope.

Ltac Zify.zify_post_hook ::= Z.to_euclidean_division_equations.

(* a message the wire format can carry: payloads and header lists shorter than 2^31, the (effective) timestamp between
   the epoch and the year 2262 (time.Time.UnixNano does not wrap) *)
Definition bytes_fit (o : option (list Z)) : Prop := len (olist o) < MAXLEN.
Definition msg_fits (m : pmsg) : Prop :=
  bytes_fit (pm_key m) /\ bytes_fit (pm_value m) /\ len (pm_headers m) < MAXLEN /\
  Forall (fun h => bytes_fit (h_key h) /\ bytes_fit (h_value h)) (pm_headers m) /\
  0 <= eff_ts m < two63.
Definition cfg_fits (c : pcfg) (pid pepoch : Z) : Prop :=
  0 <= c_codec c <= 7 /\ in_i64 pid /\ in_i16 pepoch.

Lemma trunc_ms_range t : 0 <= t < two63 -> 0 <= trunc_ms t < two63 /\ Z.quot (trunc_ms t) MS * MS = trunc_ms t.
Proof. unfold trunc_ms, MS, two63. intros H. split; lia. Qed.
Lemma delta_exact a b : Z.quot (trunc_ms a - trunc_ms b) MS * MS = trunc_ms a - trunc_ms b.
Proof. unfold trunc_ms, MS. replace (a / 1000000 * 1000000 - b / 1000000 * 1000000) with ((a / 1000000 - b / 1000000) * 1000000) by lia.
  rewrite Z.quot_mul by lia. reflexivity. Qed.

Lemma ts_norm_aligned t : 0 <= t < two63 -> ts_norm (trunc_ms t) = trunc_ms t.
Proof.
  intros H. destruct (trunc_ms_range t H) as [R E]. unfold ts_norm.
  replace (0 <=? trunc_ms t) with true by (symmetry; apply Z.leb_le; lia). exact E.
Qed.
Lemma ts_norm_zero : ts_norm ZERO_TIME = ZERO_TIME. Proof. reflexivity. Qed.

(* the records of a built batch, normalised by the wire (Wire.norm_record) = by [norm_rec] *)
Lemma norm_record_built fts m i :
  norm_record (set_offdelta (record_of (trunc_ms fts) m) i) = norm_rec (set_offdelta (record_of (trunc_ms fts) m) i).
Proof.
  unfold norm_record, norm_rec, set_offdelta, record_of. cbn [r_attrs r_tsdelta r_offdelta r_key r_value r_headers].
  unfold add_ts. now rewrite delta_exact.
Qed.
Lemma norm_records_built fts ms : forall i,
  map norm_record (number_records i (map (record_of (trunc_ms fts)) ms)) =
  map norm_rec (number_records i (map (record_of (trunc_ms fts)) ms)).
Proof. induction ms as [|m ms IH]; intros i; [reflexivity|]. cbn [map number_records]. now rewrite norm_record_built, IH. Qed.

Lemma record_ok_built fts m i : 0 <= fts < two63 -> msg_fits m -> 0 <= i < MAXLEN ->
  record_ok (set_offdelta (record_of (trunc_ms fts) m) i).
Proof.
  intros Hf (Hk & Hv & Hn & Hh & Ht) Hi. unfold record_ok, set_offdelta, record_of.
  cbn [r_attrs r_tsdelta r_offdelta r_key r_value r_headers].
  destruct (trunc_ms_range _ Hf) as [R1 _]. destruct (trunc_ms_range _ Ht) as [R2 _]. unfold add_ts.
  repeat split; try (unfold in_i8, in_i64, two63, MAXLEN in *; lia); try exact Hk; try exact Hv.
  - destruct (pm_headers m); [cbn; unfold MAXLEN; lia | exact Hn].
  - destruct (pm_headers m) as [|h hs]; [constructor|]. cbn [olist]. eapply Forall_impl; [|exact Hh].
    intros a [A B]. split; assumption.
Qed.
Lemma records_ok_built fts ms : 0 <= fts < two63 -> Forall msg_fits ms -> forall i, 0 <= i -> i + len ms < MAXLEN ->
  Forall record_ok (number_records i (map (record_of (trunc_ms fts)) ms)).
Proof.
  intros Hf H. induction H as [|m ms Hm Hms IH]; intros i Hi Hl; [constructor|].
  cbn [map number_records]. unfold len in *. cbn [length] in Hl. constructor.
  - apply record_ok_built; [exact Hf | exact Hm | lia].
  - apply IH; lia.
Qed.

(* ---------------------------------------------------------------- the batch header add creates *)
Definition header_inv (c : pcfg) (pid pepoch : Z) (x : partset) : Prop :=
  match ps_recs x with
  | RDefault b =>
      b_first_offset b = 0 /\ b_leader_epoch b = 0 /\ b_version b = 2 /\ b_codec b = c_codec c /\
      b_last_offset_delta b = 0 /\ b_max_ts b = ZERO_TIME /\ b_producer_id b = pid /\ b_producer_epoch b = pepoch /\
      b_partial b = false /\
      exists m0, hd_error (ps_msgs x) = Some m0 /\ b_first_ts b = add_ts m0 /\ b_first_seq b = (if c_idem c then pm_seq m0 else 0)
  | RLegacy _ => True
  end.
Definition set_inv (c : pcfg) (pid pepoch : Z) (s : pset) : Prop :=
  s_pid s = pid /\ s_pepoch s = pepoch /\ Forall (fun kx => header_inv c pid pepoch (snd kx)) (s_parts s).

Lemma ps_add_inv c pid pepoch s k m : set_inv c pid pepoch s -> set_inv c pid pepoch (fst (ps_add c s k m)).
Proof.
  intros (Hp & He & H). unfold ps_add. destruct (pm_encfail m); [repeat split; assumption|].
  destruct (part_lookup k (s_parts s)) as [x|] eqn:El.
  - match goal with |- context [if ?b then _ else _] => destruct b end; [repeat split; assumption|].
    cbn [fst]. repeat split; try assumption. cbn [s_parts]. apply (set_forall (header_inv c pid pepoch)); [exact H|].
    apply lookup_in in El. rewrite Forall_forall in H. specialize (H _ El). cbn [snd] in H.
    unfold header_inv, append_msg in *. destruct (ps_recs x) as [[p o bs]|b]; [exact I|].
    cbn [ps_recs ps_msgs with_records b_first_offset b_leader_epoch b_version b_codec b_last_offset_delta b_max_ts b_producer_id
         b_producer_epoch b_first_ts b_first_seq].
    destruct H as (H1 & H2 & H3 & H4 & H5 & H6 & H7 & H8 & H9 & m0 & Hh & Ht & Hs). cbn [b_partial]. repeat split; try assumption.
    exists m0. repeat split; try assumption. destruct (ps_msgs x); [discriminate | exact Hh].
  - match goal with |- context [if ?b then _ else _] => destruct b end; [repeat split; assumption|].
    cbn [fst]. repeat split; try assumption. cbn [s_parts]. apply (set_forall (header_inv c pid pepoch)); [exact H|].
    unfold header_inv, append_msg, fresh_partset. destruct (v0_11 c); cbn [ps_recs ps_msgs]; [|exact I].
    unfold fresh_batch. cbn [with_records b_first_offset b_leader_epoch b_version b_codec b_last_offset_delta b_max_ts b_producer_id
         b_producer_epoch b_first_ts b_first_seq b_records b_partial olist app hd_error]. rewrite Hp, He. repeat split.
    exists m. repeat split.
Qed.
Lemma add_all_inv c pid pepoch l : forall s, set_inv c pid pepoch s -> set_inv c pid pepoch (fst (add_all c s l)).
Proof.
  induction l as [|[k m] r IH]; intros s H; cbn [add_all]; [exact H|].
  pose proof (ps_add_inv c pid pepoch s k m H) as H1. destruct (ps_add c s k m) as [s1 a]. cbn [fst] in H1.
  specialize (IH s1 H1). destruct (add_all c s1 r) as [s2 rs]. exact IH.
Qed.

Lemma filter_len {A} (f : A -> bool) l : (length (filter f l) <= length l)%nat.
Proof. induction l as [|a l IH]; cbn [filter length]; [lia|]. destruct (f a); cbn [length]; lia. Qed.
Lemma accepted_in c l : forall s km, In km (accepted c s l) -> In km l.
Proof.
  induction l as [|[k1 m1] r IH]; intros s km; cbn [accepted]; [intros []|].
  destruct (ps_add c s k1 m1) as [s1 a]. destruct a; intros H; try (right; now apply (IH s1)).
  destruct H as [E|H]; [left; exact E | right; now apply (IH s1)].
Qed.
Lemma accepted_length c l : forall s, (length (accepted c s l) <= length l)%nat.
Proof.
  induction l as [|[k1 m1] r IH]; intros s; cbn [accepted length]; [lia|].
  destruct (ps_add c s k1 m1) as [s1 a]. specialize (IH s1). destruct a; cbn [length]; lia.
Qed.

Section Codec.
Variable compress : Z -> list Z -> option (list Z).
Variable decompress : Z -> list Z -> option (list Z).
Hypothesis codec_inverse : forall c x y, compress c x = Some y -> decompress c y = Some x.

(* one partition of a produce request for Kafka >= 0.11, from the add calls to the decoded batch *)
Theorem batch_on_the_wire c pid pepoch l k x r :
  v0_11 c = true -> cfg_fits c pid pepoch ->
  Forall (fun km => msg_fits (snd km) /\ in_i32 (pm_seq (snd km))) l -> len l < MAXLEN ->
  part_lookup k (s_parts (fst (add_all c (new_set pid pepoch) l))) = Some x -> build_part c x = Some r ->
  exists b, r = RDefault b /\
    forall ops bs, batch_ops compress b = inr ops -> spec_bytes ops = inr bs ->
    forall depth d rest, at_ d (bs ++ rest) -> len (raw d) < MAXLEN ->
    exists d', records_decode_top decompress depth d = Ok (decoded_view r) d' /\ raw d' = raw d /\ off d' = off d + len bs.
Proof.
  intros Hv (Hc & Hpid & Hpe) Hl Hlen Hx Hb.
  pose proof (reach_aligned c pid pepoch l k x Hx) as Ha.
  pose proof (reach_msgs c pid pepoch l k x Hx) as Hm.
  assert (Hinv : header_inv c pid pepoch x).
  { assert (I0 : set_inv c pid pepoch (new_set pid pepoch)) by (repeat split; constructor).
    destruct (add_all_inv c pid pepoch l _ I0) as (_ & _ & F). apply lookup_in in Hx. rewrite Forall_forall in F. exact (F _ Hx). }
  assert (Hin : forall m, In m (ps_msgs x) -> exists k', In (k', m) l).
  { intros m Hmm. rewrite Hm in Hmm. unfold msgs_of in Hmm. apply in_map_iff in Hmm as ([k0 m0] & E & Hf). cbn in E. subst m0.
    apply filter_In in Hf as [Hacc _]. exists k0. exact (accepted_in c l _ _ Hacc). }
  assert (Hfit : Forall msg_fits (ps_msgs x)).
  { apply Forall_forall. intros m Hmm. destruct (Hin m Hmm) as (k' & Hk'). rewrite Forall_forall in Hl. exact (proj1 (Hl _ Hk')). }
  assert (Hcount : len (ps_msgs x) <= len l).
  { rewrite Hm. unfold msgs_of, len. rewrite map_length. apply inj_le. etransitivity; [apply filter_len | apply accepted_length]. }
  unfold aligned in Ha. unfold header_inv in Hinv. unfold build_part in Hb.
  destruct (ps_recs x) as [[p o bs0]|b] eqn:Er; [destruct Ha as [Ha _]; congruence|].
  destruct Ha as [_ Hrs]. rewrite (req_version_batch c Hv) in Hb.
  destruct Hinv as (H1 & H2 & H3 & H4 & H5 & H6 & H7 & H8 & H9 & m0 & Hh & Ht & Hs).
  assert (Hm0 : In m0 (ps_msgs x)) by (destruct (ps_msgs x); [discriminate | injection Hh as ->; now left]).
  assert (Hf0 : msg_fits m0) by (rewrite Forall_forall in Hfit; exact (Hfit _ Hm0)).
  assert (Hseq0 : in_i32 (pm_seq m0)).
  { destruct (Hin m0 Hm0) as (k' & Hk'). rewrite Forall_forall in Hl. exact (proj2 (Hl _ Hk')). }
  destruct Hf0 as (_ & _ & _ & _ & Hts0). unfold add_ts in Ht.
  injection Hb as <-. eexists. split; [reflexivity|].
  set (rs := olist (b_records b)) in *.
  assert (Hn : 0 < len rs) by (rewrite Hrs; unfold len; rewrite map_length; destruct (ps_msgs x); [discriminate | cbn [length]; lia]).
  replace (0 <? len rs) with true by (symmetry; apply Z.ltb_lt; exact Hn).
  set (b' := with_records b (len rs - 1) (Some (number_records 0 rs))).
  assert (Hlenrs : len rs = len (ps_msgs x)) by (rewrite Hrs; unfold len; now rewrite map_length).
  assert (Hok : batch_ok b').
  { unfold batch_ok, b'. cbn [with_records b_first_offset b_leader_epoch b_version b_codec b_last_offset_delta b_first_ts b_max_ts
                               b_producer_id b_producer_epoch b_first_seq b_records olist].
    rewrite H1, H2, H3, H4, H6, H7, H8, Ht, Hs. destruct (trunc_ms_range _ Hts0) as [R _].
    assert (A1 : in_i64 0) by (unfold in_i64, two63; lia).
    assert (A2 : in_i32 0) by (unfold in_i32; lia).
    assert (A5 : in_i32 (len rs - 1)) by (unfold in_i32, MAXLEN in *; lia).
    assert (A6 : ts_ok (trunc_ms (eff_ts m0))) by (right; exact R).
    assert (A7 : ts_ok ZERO_TIME) by (left; reflexivity).
    assert (A10 : in_i32 (if c_idem c then pm_seq m0 else 0)) by (destruct (c_idem c); [exact Hseq0 | exact A2]).
    assert (A11 : Forall record_ok (number_records 0 rs)).
    { rewrite Hrs, Ht. apply records_ok_built; [exact Hts0 | exact Hfit | lia | lia]. }
    exact (conj A1 (conj A2 (conj eq_refl (conj Hc (conj A5 (conj A6 (conj A7 (conj Hpid (conj Hpe (conj A10 A11)))))))))). }
  intros ops bs Hops Hspec depth d rest Hat Hraw.
  destruct (top_roundtrip_batch compress decompress codec_inverse depth b' ops bs Hok Hops Hspec d rest Hat Hraw) as (d' & E & R & O).
  exists d'. split; [|split; assumption]. rewrite E. f_equal. f_equal.
  unfold norm_batch, decoded_view, b'. cbn [with_records b_first_offset b_leader_epoch b_version b_codec b_control b_logappend
    b_last_offset_delta b_first_ts b_max_ts b_producer_id b_producer_epoch b_first_seq b_records b_partial b_transactional olist].
  rewrite Ht in Hrs. rewrite H6, Ht, (ts_norm_aligned _ Hts0), ts_norm_zero, Hrs, norm_records_built.
  unfold with_records. cbn [b_first_offset b_leader_epoch b_version b_codec b_control b_logappend
    b_last_offset_delta b_first_ts b_max_ts b_producer_id b_producer_epoch b_first_seq b_records b_partial b_transactional].
  rewrite ?H6, ?Ht, ?H9. reflexivity.
Qed.
End Codec.

(* the hypotheses are satisfiable: two messages (headers with a nil part, the second EARLIER than the first), 2.1 + zstd, idempotent *)
Example ex_wire_hypotheses :
  let c := mkCfg 3 4 true in
  let m1 := mkPM 1 None (Some [49]) [mkHeader (Some [104]) None] 1600000000005000000 0 7 0 false in
  let m2 := mkPM 2 (Some []) None [] 1600000000003500000 0 8 0 false in
  let l := [((0, 2), m1); ((0, 2), m2)] in
  v0_11 c = true /\ cfg_fits c 4711 1 /\ Forall (fun km => msg_fits (snd km) /\ in_i32 (pm_seq (snd km))) l /\ len l < MAXLEN /\
  exists x r, part_lookup (0, 2) (s_parts (fst (add_all c (new_set 4711 1) l))) = Some x /\ build_part c x = Some r.
Proof.
  cbv zeta. split; [reflexivity|]. split; [unfold cfg_fits, in_i64, in_i16, two63; cbn; lia|].
  split.
  - repeat constructor; cbn; unfold bytes_fit, MAXLEN, in_i32, two63; cbn; try lia.
  - split; [unfold MAXLEN; cbn; lia|]. eexists; eexists. split; vm_compute; reflexivity.
Qed.
