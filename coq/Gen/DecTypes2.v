(* Shared data types of the second wave of decgen targets (effect vocabularies, maps).  Kept apart from
   DecTypes.v so that nothing depending on that file is rebuilt.  Hand-written; part of the trusted base of
   the decgen tie (see checks/notes/decgen.md). *)
From Coq Require Import ZArith List String Bool.
From SV Require Import Gen.GoInt Gen.DecTypes.
Import ListNotations.
Open Scope Z_scope.

(* ---------- Go maps whose contents matter: association lists, first binding wins, insertion order kept ---------- *)
Definition zmap (V : Type) := list (Z * V).
Fixpoint zmap_get {V : Type} (m : zmap V) (k : Z) : option V :=
  match m with [] => None | (k', v) :: r => if Z.eqb k k' then Some v else zmap_get r k end.
Definition zmap_has {V : Type} (m : zmap V) (k : Z) : bool := is_some (zmap_get m k).
Fixpoint zmap_set {V : Type} (m : zmap V) (k : Z) (v : V) : zmap V :=
  match m with
  | [] => [(k, v)]
  | (k', v') :: r => if Z.eqb k k' then (k, v) :: r else (k', v') :: zmap_set r k v
  end.
Fixpoint zmap_del {V : Type} (m : zmap V) (k : Z) : zmap V :=
  match m with [] => [] | (k', v) :: r => if Z.eqb k k' then zmap_del r k else (k', v) :: zmap_del r k end.
Definition zmap_items {V : Type} (m : zmap V) : list (Z * V) := m.

(* maps keyed by a sequence-number key: fmt.Sprintf(format, topic, partition), kept unevaluated *)
Definition seqkey := (string * string * Z)%type.
Definition seq_key (format topic : string) (partition : Z) : seqkey := (format, topic, partition).
Definition seqkey_eqb (a b : seqkey) : bool :=
  let '(f1, t1, p1) := a in let '(f2, t2, p2) := b in String.eqb f1 f2 && String.eqb t1 t2 && Z.eqb p1 p2.
Definition seqmap := list (seqkey * Z).
(* m[k] of a map[string]int32: 0 when absent *)
Fixpoint seqmap_get (m : seqmap) (k : seqkey) : Z :=
  match m with [] => 0 | (k', v) :: r => if seqkey_eqb k k' then v else seqmap_get r k end.
Fixpoint seqmap_has (m : seqmap) (k : seqkey) : bool :=
  match m with [] => false | (k', _) :: r => seqkey_eqb k k' || seqmap_has r k end.
Fixpoint seqmap_set (m : seqmap) (k : seqkey) (v : Z) : seqmap :=
  match m with
  | [] => [(k, v)]
  | (k', v') :: r => if seqkey_eqb k k' then (k, v) :: r else (k', v') :: seqmap_set r k v
  end.
Fixpoint seqmap_del (m : seqmap) (k : seqkey) : seqmap :=
  match m with [] => [] | (k', v) :: r => if seqkey_eqb k k' then seqmap_del r k else (k', v) :: seqmap_del r k end.
Definition seqmap_items (m : seqmap) : list (seqkey * Z) := m.

Definition optstr (o : option string) : string := match o with Some s => s | None => EmptyString end.

(* ---------- effect vocabularies ---------- *)
(* partitioner.go hashPartitioner.Partition: calls on the hasher, in order *)
Inductive hash_action := HA_reset | HA_write.

(* async_producer.go partitionProducer.dispatch: what happens to one incoming message *)
Inductive pp_action :=
| PP_new_high_watermark (level : Z)     (* pp.newHighWatermark(msg.retries) *)
| PP_backoff (level : Z)                (* pp.backoff(msg.retries) *)
| PP_expect_chaser (level : Z) (v : bool) (* pp.retryState[level].expectChaser = v *)
| PP_buffer (level : Z)                 (* pp.retryState[level].buf = append(…, msg) *)
| PP_flush_retry_buffers                (* pp.flushRetryBuffers() *)
| PP_inflight_done.                     (* pp.parent.inFlight.Done() *)

(* async_producer.go brokerProducer.run / rollOver *)
Inductive bp_action :=
| BP_make_topic_map                     (* bp.currentRetries[topic] = make(map[int32]error) *)
| BP_set_retry (e : gerr)               (* bp.currentRetries[topic][partition] = e *)
| BP_clear_retry                        (* delete(bp.currentRetries[topic], partition) *)
| BP_retry (e : gerr)                   (* bp.parent.retryMessage(msg, e) *)
| BP_inflight_done                      (* bp.parent.inFlight.Done() *)
| BP_arm_timer                          (* bp.timer = time.After(Flush.Frequency) *)
| BP_new_buffer.                        (* bp.buffer = newProduceSet(bp.parent) *)

(* offset_manager.go Close / offset_commit_request.go AddBlock *)
Inductive oc_action := OC_flush.        (* om.flushToBroker() *)
Inductive ab_action :=
| AB_make_blocks                        (* r.blocks = make(…) *)
| AB_make_topic                         (* r.blocks[topic] = make(…) *)
| AB_set_block (b : Z * Z * string).    (* r.blocks[topic][partition] = &block{offset, timestamp, metadata} *)

(* consumer.go parseResponse (transactions) / fetch_response.go *)
Inductive ct_action :=
| CT_begin_aborted (producer : Z)       (* abortedProducerIDs[txn.ProducerID] = struct{}{} *)
| CT_end_aborted.                       (* delete(abortedProducerIDs, batch.ProducerID) *)
Inductive fb_action := FB_set_first.    (* b.Records = records *)

(* client.go updateBroker *)
Inductive ub_action := UB_close (id : Z).   (* safeAsyncClose(broker with this id) *)

(* admin.go *)
Inductive ad_action :=
| AD_refresh_controller                 (* ca.refreshController() *)
| AD_group_to_coordinator (group : string).  (* groupsPerBroker[coordinator] = append(…, group) *)

(* mocks *)
Inductive mk_action :=
| MK_errorf (format : string)           (* t.Errorf(format, …) *)
| MK_set_partition (p : Z)              (* msg.Partition = p *)
| MK_set_offset (o : Z).                (* msg.Offset = o *)
