(* The one tactic that closes the equivalence obligations of coq/Tie/DecEq_*.v:
   regenerated definition = golden definition, pointwise.

   [deceq f g]: unfold both sides, inline the lets, rewrite with the equivalences already proved for
   callees (hint db [deceq]), then split on every scrutinised comparison / boolean / match scrutinee
   (both sides at once: a [destruct] replaces every occurrence), and close each leaf by reflexivity,
   congruence on contradictory boolean facts, or linear arithmetic (with the div/mod hook of the caller).
   Semantics-preserving rewrites of the Go source (reordered exclusive cases, `>=` as `!<`, a hoisted or
   inlined local, a duplicated test) therefore still check; a changed constant, comparison, branch or a
   dropped assignment leaves a leaf that is false and the lemma fails. *)
From Coq Require Import ZArith List String Bool Lia.
From SV Require Import Gen.GoInt Gen.DecTypes.
Import ListNotations.
Open Scope Z_scope.

Lemma gerr_eqb_spec a b : reflect (a = b) (gerr_eqb a b).
Proof.
  destruct (gerr_eqb a b) eqn:E; constructor.
  - now apply gerr_eqb_eq.
  - intro H. apply gerr_eqb_eq in H. congruence.
Qed.

Ltac deceq_unfold_arith :=
  unfold wrap8, wrap16, wrap32, wrap64, uwrap8, uwrap16, uwrap32, uwrap64 in *.

(* split on the leftmost atom of a boolean expression: integer comparisons become linear facts, equality tests
   on strings / booleans / errors become (dis)equalities (so a mirrored test `b == a` agrees by congruence),
   anything else (a boolean parameter, an opaque call) is destructed, which replaces every occurrence *)
Ltac deceq_atom c :=
  lazymatch c with
  | negb ?x => deceq_atom x
  | andb ?x _ => deceq_atom x
  | orb ?x _ => deceq_atom x
  | (if ?x then _ else _) => deceq_atom x
  | Z.eqb ?a ?b => destruct (Z.eqb_spec a b)
  | Z.ltb ?a ?b => destruct (Z.ltb_spec a b)
  | Z.leb ?a ?b => destruct (Z.leb_spec a b)
  | Z.gtb ?a ?b => rewrite (Z.gtb_ltb a b)
  | Z.geb ?a ?b => rewrite (Z.geb_leb a b)
  | String.eqb ?a ?b => destruct (String.eqb_spec a b)
  | Bool.eqb ?a ?b => destruct (Bool.eqb_spec a b)
  | gerr_eqb ?a ?b => destruct (gerr_eqb_spec a b)
  | true => fail
  | false => fail
  | _ => destruct c eqn:?
  end.

Ltac deceq_split_step :=
  match goal with
  | |- context [Z.eqb ?a ?b] => destruct (Z.eqb_spec a b)
  | |- context [Z.ltb ?a ?b] => destruct (Z.ltb_spec a b)
  | |- context [Z.leb ?a ?b] => destruct (Z.leb_spec a b)
  | |- context [Z.gtb ?a ?b] => rewrite (Z.gtb_ltb a b)
  | |- context [Z.geb ?a ?b] => rewrite (Z.geb_leb a b)
  | |- context [String.eqb ?a ?b] => destruct (String.eqb_spec a b)
  | |- context [gerr_eqb ?a ?b] => destruct (gerr_eqb_spec a b)
  | |- context [Bool.eqb ?a ?b] => destruct (Bool.eqb_spec a b)
  | |- context [if ?c then _ else _] => deceq_atom c
  | |- context [match ?x with _ => _ end] => destruct x eqn:?
  | |- context [andb ?x _] => deceq_atom x
  | |- context [orb ?x _] => deceq_atom x
  | |- context [negb ?x] => deceq_atom x
  end.

Ltac deceq_leaf :=
  try reflexivity;
  try congruence;
  try (exfalso; deceq_unfold_arith; lia);
  repeat (f_equal; try reflexivity; try congruence);
  try (deceq_unfold_arith; lia).

Ltac deceq_core :=
  cbv zeta;
  try (autorewrite with deceq);
  try reflexivity;
  repeat (deceq_split_step; cbn [andb orb negb fst snd]; try reflexivity);
  cbv beta iota zeta;
  deceq_leaf.

Tactic Notation "deceq" reference(f) reference(g) :=
  intros; unfold f, g; deceq_core.

(* loops: both sides are Fixpoints on the same structural argument *)
Tactic Notation "deceq_fix" ident(s) reference(f) reference(g) :=
  intro s; induction s; intros; cbn [f g]; deceq_core;
  repeat match goal with IH : _ |- _ => rewrite IH end; deceq_core.
