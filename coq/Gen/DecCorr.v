(* Comparison helpers for go/harness/cmd/decgencorr: each case is a boolean term that evaluates a generated
   definition (a golden of SV.Gen or a regenerated copy under SVB) on concrete inputs and compares the result with
   what the real Go function returned.  No reference to the generated files here: the case files import them. *)
From Coq Require Import ZArith List String Bool.
From SV Require Import Base.Corr Gen.GoInt Gen.DecTypes.
Import ListNotations.
Open Scope Z_scope.

Definition mismatches_dec : list bool -> list nat := mismatches (fun b : bool => b).

Definition zsb_eqb (a b : Z * string * bool) : bool :=
  let '(x1, s1, b1) := a in let '(x2, s2, b2) := b in Z.eqb x1 x2 && String.eqb s1 s2 && Bool.eqb b1 b2.
Definition zs_eqb (a b : Z * string) : bool := Z.eqb (fst a) (fst b) && String.eqb (snd a) (snd b).
Definition zerr_eqb (a b : Z * gerr) : bool := Z.eqb (fst a) (fst b) && gerr_eqb (snd a) (snd b).

(* offset_manager handleResponse: which effects happened (their relative order is not observable from outside) *)
Definition om_is_update (boff : Z) (bmeta : string) (a : om_action) : bool :=
  match a with OM_update_committed o m => Z.eqb o boff && String.eqb m bmeta | _ => false end.
Definition om_is_release (a : om_action) : bool := match a with OM_release_coordinator => true | _ => false end.
Fixpoint om_errors (l : list om_action) : list gerr :=
  match l with [] => [] | OM_handle_error e :: r => e :: om_errors r | _ :: r => om_errors r end.
Definition commit_verdict_ok {R : Type} (r : list om_action * exit R) (boff : Z) (bmeta : string)
    (updated released : bool) (errs : list gerr) : bool :=
  let acts := fst r in
  Bool.eqb (existsb (om_is_update boff bmeta) acts) updated && Bool.eqb (existsb om_is_release acts) released &&
  list_eqb gerr_eqb (om_errors acts) errs.

(* retryMessage: either one retry (with the new count) or one returned error *)
Definition retry_message_ok (r : Z * list prod_action) (retries_after : Z) (retried : bool) (returned : gerr) : bool :=
  match snd r with
  | [PA_retry] => retried && Z.eqb (fst r) retries_after && gerr_eqb returned ENil
  | [PA_return_error e] => negb retried && gerr_eqb e returned
  | _ => false
  end.

(* round robin: a run of calls from the initial state *)
Fixpoint rr_run (step : Z -> Z -> Z * Z * gerr) (st : Z) (ns : list Z) : list Z :=
  match ns with
  | [] => []
  | n :: r => let '(st', ret, _) := step st n in ret :: rr_run step st' r
  end.
Definition rr_ok (step : Z -> Z -> Z * Z * gerr) (ns rets : list Z) : bool := list_eqb Z.eqb (rr_run step 0 ns) rets.

(* retryOnError: the returned error and how many scripted results were consumed *)
Definition retryable_even (e : gerr) : bool := match e with EOther n => Z.even n | _ => false end.
Definition retry_on_error_ok (r : list gerr * gerr) (script : list gerr) (err : gerr) (calls : Z) : bool :=
  gerr_eqb (snd r) err && Z.eqb (zlen script - zlen (fst r)) (Z.min calls (zlen script)).
