(* Comparison helpers for go/harness/cmd/decgencorr: each case is a boolean term that evaluates a generated
   definition (a golden of SV.Gen or a regenerated copy under SVB) on concrete inputs and compares the result with
   what the real Go function returned.  No reference to the generated files here: the case files import them. *)
From Coq Require Import ZArith List String Bool.
From SV Require Import Base.Corr Gen.GoInt Gen.DecTypes Gen.DecTypes2.
Import ListNotations.
Open Scope Z_scope.

Definition mismatches_dec : list bool -> list nat := mismatches (fun b : bool => b).

Definition zsb_eqb (a b : Z * string * bool) : bool :=
  let '(x1, s1, b1) := a in let '(x2, s2, b2) := b in Z.eqb x1 x2 && String.eqb s1 s2 && Bool.eqb b1 b2.
Definition zs_eqb (a b : Z * string) : bool := Z.eqb (fst a) (fst b) && String.eqb (snd a) (snd b).
Definition zerr_eqb (a b : Z * gerr) : bool := Z.eqb (fst a) (fst b) && gerr_eqb (snd a) (snd b).

(* offset_manager handleResponse: which effects happened (their relative order is not observable from outside) *)
Definition om_is_update (boff : Z) (bmeta : string) (a : om_action) : bool :=
  match a with OM_update_committed o m => Z.eqb o boff && String.eqb m bmeta | _ => false end.
Definition om_is_release (a : om_action) : bool := match a with OM_release_coordinator => true | _ => false end.
Fixpoint om_errors (l : list om_action) : list gerr :=
  match l with [] => [] | OM_handle_error e :: r => e :: om_errors r | _ :: r => om_errors r end.
Definition commit_verdict_ok {R : Type} (r : list om_action * exit R) (boff : Z) (bmeta : string)
    (updated released : bool) (errs : list gerr) : bool :=
  let acts := fst r in
  Bool.eqb (existsb (om_is_update boff bmeta) acts) updated && Bool.eqb (existsb om_is_release acts) released &&
  list_eqb gerr_eqb (om_errors acts) errs.

(* retryMessage: either one retry (with the new count) or one returned error *)
Definition retry_message_ok (r : Z * list prod_action) (retries_after : Z) (retried : bool) (returned : gerr) : bool :=
  match snd r with
  | [PA_retry] => retried && Z.eqb (fst r) retries_after && gerr_eqb returned ENil
  | [PA_return_error e] => negb retried && gerr_eqb e returned
  | _ => false
  end.

(* round robin: a run of calls from the initial state *)
Fixpoint rr_run (step : Z -> Z -> Z * Z * gerr) (st : Z) (ns : list Z) : list Z :=
  match ns with
  | [] => []
  | n :: r => let '(st', ret, _) := step st n in ret :: rr_run step st' r
  end.
Definition rr_ok (step : Z -> Z -> Z * Z * gerr) (ns rets : list Z) : bool := list_eqb Z.eqb (rr_run step 0 ns) rets.

(* retryOnError: the returned error and how many scripted results were consumed *)
Definition retryable_even (e : gerr) : bool := match e with EOther n => Z.even n | _ => false end.
Definition retry_on_error_ok (r : list gerr * gerr) (script : list gerr) (err : gerr) (calls : Z) : bool :=
  gerr_eqb (snd r) err && Z.eqb (zlen script - zlen (fst r)) (Z.min calls (zlen script)).

(* ---------- second wave ---------- *)
(* topicProducer.partitionMessage = partition_source inside the breaker, then partition_pick *)
Definition partition_message_run
    (src : list Z -> gerr -> bool -> bool -> bool -> list Z -> gerr -> list Z -> gerr -> list Z * gerr * exit gerr)
    (pick : gerr -> Z -> list Z -> Z -> gerr -> gerr * Z * exit gerr)
    (is_dyn msg_req req : bool) (all : list Z) (all_err : gerr) (wr : list Z) (wr_err : gerr)
    (choice : Z) (choice_err : gerr) (p0 : Z) : gerr * Z :=
  let '(parts, err, _) := src [] ENil is_dyn msg_req req all all_err wr wr_err in
  if negb (gerr_eqb err ENil) then (err, p0)
  else let '(_, p, ex) := pick err p0 parts choice choice_err in
       match ex with ExReturn e => (e, p) | _ => (ENil, p) end.
Definition gerr_z_eqb (a b : gerr * Z) : bool := gerr_eqb (fst a) (fst b) && Z.eqb (snd a) (snd b).

Definition hash_action_eqb (a b : hash_action) : bool :=
  match a, b with HA_reset, HA_reset => true | HA_write, HA_write => true | _, _ => false end.
Definition hash_calls_ok (r : list hash_action * Z * gerr) (calls : list hash_action) (p : Z) (e : gerr) : bool :=
  let '(a, p', e') := r in list_eqb hash_action_eqb a calls && Z.eqb p p' && gerr_eqb e e'.

(* sequence numbers: the returned pair and the value of every listed (topic, partition) afterwards *)
Fixpoint seq_entries_ok (m : seqmap) (format : string) (l : list (string * Z * Z)) : bool :=
  match l with
  | [] => true
  | (t, p, v) :: r => Z.eqb (seqmap_get m (seq_key format t p)) v && seq_entries_ok m format r
  end.
Definition seq_get_ok (r : seqmap * Z * Z) (format : string) (s e : Z) (after : list (string * Z * Z)) : bool :=
  let '(m, s', e') := r in Z.eqb s s' && Z.eqb e e' && seq_entries_ok m format after.
Definition seq_bump_ok (r : Z * seqmap) (format : string) (e : Z) (after : list (string * Z * Z)) : bool :=
  Z.eqb (fst r) e && seq_entries_ok (snd r) format after.

Definition bp_is_new_buffer (a : bp_action) : bool := match a with BP_new_buffer => true | _ => false end.
Definition roll_over_ok (r : option unit * bool * list bp_action) (timer_nil fired new_buffer : bool) : bool :=
  let '(t, f, a) := r in Bool.eqb (negb (is_some t)) timer_nil && Bool.eqb f fired && Bool.eqb (existsb bp_is_new_buffer a) new_buffer.

Definition add_block_ok (a : list ab_action) (outer inner : bool) (o ts : Z) (m : string) : bool :=
  Bool.eqb (existsb (fun x => match x with AB_make_blocks => true | _ => false end) a) outer &&
  Bool.eqb (existsb (fun x => match x with AB_make_topic => true | _ => false end) a) inner &&
  existsb (fun x => match x with AB_set_block (o', ts', m') => Z.eqb o o' && Z.eqb ts ts' && String.eqb m m' | _ => false end) a.
