(* Gallina meaning of the Go integer / boolean / list fragment emitted by go/decgen.
   Part of the trusted base of the decgen tie (see checks/notes/decgen.md).

   Go fixed-width integers are Z values inside the type's range; every operation that can leave the
   range is followed by the two's-complement reinterpretation [wrapN] (signed) or [uwrapN] (unsigned).
   Go's platform [int]/[uint] are taken as 64 bit (GOARCH amd64/arm64). *)
From Coq Require Import ZArith List String Bool Lia.
Import ListNotations.
Open Scope Z_scope.

(* intN(x): the value of the low N bits of x read as a signed integer *)
Definition wrap8 (z : Z) : Z := (z + 128) mod 256 - 128.
Definition wrap16 (z : Z) : Z := (z + 32768) mod 65536 - 32768.
Definition wrap32 (z : Z) : Z := (z + 2147483648) mod 4294967296 - 2147483648.
Definition wrap64 (z : Z) : Z := (z + 9223372036854775808) mod 18446744073709551616 - 9223372036854775808.
(* uintN(x) *)
Definition uwrap8 (z : Z) : Z := z mod 256.
Definition uwrap16 (z : Z) : Z := z mod 65536.
Definition uwrap32 (z : Z) : Z := z mod 4294967296.
Definition uwrap64 (z : Z) : Z := z mod 18446744073709551616.

(* Go operators that have no single-symbol Coq notation.  x / y = Z.quot x y and x % y = Z.rem x y
   (truncation toward zero); division by zero panics in Go and is not modelled (Z.quot x 0 = 0). *)
Definition go_andnot (a b : Z) : Z := Z.land a (Z.lnot b).   (* a &^ b *)

(* nil-able values (pointers, maps, interfaces other than error) are [option]s *)
Definition is_some {A : Type} (o : option A) : bool := match o with Some _ => true | None => false end.
(* reading through a pointer that the Go code has already tested against nil; the None value is never
   reached on a path Go can take without panicking *)
Definition optz (o : option Z) : Z := match o with Some z => z | None => 0 end.

(* len(x) *)
Definition zlen {A : Type} (l : list A) : Z := Z.of_nat (List.length l).
Definition zstrlen (s : string) : Z := Z.of_nat (String.length s).
(* x[i] on a list of integers (index out of range panics in Go; not modelled: 0) *)
Definition zidx (l : list Z) (i : Z) : Z := nth (Z.to_nat i) l 0.
Definition is_nil_list {A : Type} (l : list A) : bool := match l with [] => true | _ => false end.

(* an oracle stream: the successive results of an external call; [d] when the script is exhausted *)
Definition pop {A : Type} (d : A) (l : list A) : A * list A :=
  match l with [] => (d, []) | x :: r => (x, r) end.

(* ---------- facts used by the hand models that are tied to generated definitions ---------- *)
Lemma wrap8_small z : -128 <= z < 128 -> wrap8 z = z.
Proof. intros H. unfold wrap8. rewrite Z.mod_small; lia. Qed.
Lemma wrap16_small z : -32768 <= z < 32768 -> wrap16 z = z.
Proof. intros H. unfold wrap16. rewrite Z.mod_small; lia. Qed.
Lemma wrap32_small z : -2147483648 <= z < 2147483648 -> wrap32 z = z.
Proof. intros H. unfold wrap32. rewrite Z.mod_small; lia. Qed.
Lemma wrap64_small z : -9223372036854775808 <= z < 9223372036854775808 -> wrap64 z = z.
Proof. intros H. unfold wrap64. rewrite Z.mod_small; lia. Qed.
Lemma wrap8_range z : -128 <= wrap8 z < 128.
Proof. unfold wrap8. pose proof (Z.mod_pos_bound (z + 128) 256). lia. Qed.
Lemma wrap16_range z : -32768 <= wrap16 z < 32768.
Proof. unfold wrap16. pose proof (Z.mod_pos_bound (z + 32768) 65536). lia. Qed.
Lemma wrap32_range z : -2147483648 <= wrap32 z < 2147483648.
Proof. unfold wrap32. pose proof (Z.mod_pos_bound (z + 2147483648) 4294967296). lia. Qed.
Lemma wrap64_range z : -9223372036854775808 <= wrap64 z < 9223372036854775808.
Proof. unfold wrap64. pose proof (Z.mod_pos_bound (z + 9223372036854775808) 18446744073709551616). lia. Qed.
Lemma uwrap32_small z : 0 <= z < 4294967296 -> uwrap32 z = z.
Proof. intros H. unfold uwrap32. apply Z.mod_small; lia. Qed.
Lemma uwrap64_small z : 0 <= z < 18446744073709551616 -> uwrap64 z = z.
Proof. intros H. unfold uwrap64. apply Z.mod_small; lia. Qed.
