(* C05 proofs, part 9: every sequenced message keeps the stamp it was given, and no two messages share one:
   a table of (id, stamp) that is functional, injective and lies below the transaction manager's counters,
   containing the stamp of every sequenced message anywhere; ids of unsequenced messages are not in it. *)
From Coq Require Import List ZArith Bool Arith Lia.
From SV Require Import Producer.Msg Producer.Actors Producer.Compose Producer.Weights Producer.Global Producer.Shape
                       Producer.Conservation Producer.Markers
                       C05.Model C05.ProofsBroker C05.ProofsSys C05.ProofsClosure C05.ProofsEnv C05.ProofsTab.
Import ListNotations.
Open Scope Z_scope.

Definition pairof (m : msg) : Z * stamp := (m_id m, (msg_key m, m_epoch m, m_seq m)).

Definition core (tab : list (Z * stamp)) (m : msg) : Prop :=
  is_data m = true ->
  (m_hasseq m = true -> In (pairof m) tab) /\ (m_hasseq m = false -> ~ In (m_id m) (map fst tab)).

Record tab_ok (E : Z) (SQ : tpk -> Z) (tab : list (Z * stamp)) : Prop := mkTabOk {
  tk_fun : forall i s1 s2, In (i, s1) tab -> In (i, s2) tab -> s1 = s2;
  tk_inj : forall i1 i2 s, In (i1, s) tab -> In (i2, s) tab -> i1 = i2;
  tk_below : forall i k e q, In (i, (k, e, q)) tab -> e < E \/ (e = E /\ q < SQ k)
}.

Lemma tab_consistent E SQ tab cl : tab_ok E SQ tab -> incl cl tab -> consistent cl.
Proof.
  intros [F I _] Hi i s i' s' H1 H2. apply Hi in H1, H2. split; [intros <-; eapply F; eassumption | intros <-; eapply I; eassumption].
Qed.

Lemma flat_places (R : msg -> Prop) s : Forall R (flat s) -> places_ok (mkPreds (fun _ => R) (fun _ => R) R) s.
Proof.
  intros H. rewrite Forall_forall in H. constructor; cbn [PQ PL PB].
  - intros d l Hin. rewrite Forall_forall. intros m Hm. apply H, in_flat. left. apply in_flat_map. exists (d, l). split; assumption.
  - intros k x Hin. rewrite Forall_forall. intros m Hm. apply H, in_flat. right; left. apply in_flat_map. exists (k, x). split; assumption.
  - rewrite Forall_forall. intros x Hx. rewrite Forall_forall. intros m Hm. apply H, in_flat. right; right; left. apply in_flat_map. exists x. split; assumption.
  - rewrite Forall_forall. intros x Hx. rewrite Forall_forall. intros m Hm. apply H, in_flat. right; right; right. apply in_flat_map. exists x. split; assumption.
Qed.

Section PT.
Variable E : Z.
Variable tab : list (Z * stamp).

Definition PT : preds :=
  mkPreds (fun d m => PQ (PE E) d m /\ core tab m) (fun k m => PL (PE E) k m /\ core tab m) (fun m => PB (PE E) m /\ core tab m).

Lemma pairof_retries m r : pairof (set_retries m r) = pairof m. Proof. reflexivity. Qed.
Lemma pairof_body m sz h : pairof (set_body m sz h) = pairof m. Proof. reflexivity. Qed.

Lemma core_retries m r : core tab m -> core tab (set_retries m r). Proof. intros H; exact H. Qed.
Lemma core_body m sz h : core tab m -> core tab (set_body m sz h). Proof. intros H; exact H. Qed.

(* the conditions that do not involve stamping: enough for every step but a partition worker's *)
Lemma transfers_PT c sqf : c_idem c = true -> transfers PT False c E sqf.
Proof.
  intros Hi. pose proof (transfers_PE E c sqf Hi) as T. constructor; cbn [PT PQ PL PB].
  - intros m sz h [H1 H2]. split; [apply (t_disp _ _ _ _ _ T), H1 | apply core_body, H2].
  - intros t m [H1 H2] Hf Hp. split; [eapply (t_tp_fresh _ _ _ _ _ T); eassumption|].
    intros Hd. change (is_data m = true) in Hd. cbn [PE PQ] in H1. destruct H1 as [_ [Hs _]]. specialize (H2 Hd). destruct H2 as [A B]. split.
    + intros Hh. change (m_hasseq m = true) in Hh. exfalso. assert (stamped m = true) as Hst by (unfold stamped; rewrite Hd, Hh; reflexivity).
      rewrite (Hs Hst) in Hf. discriminate.
    + intros Hh. apply B, Hh.
  - intros t m [H1 H2] Hf. split; [eapply (t_tp_old _ _ _ _ _ T); eassumption | exact H2].
  - intros m [H1 H2]. split; [apply (t_retry _ _ _ _ _ T), H1 | exact H2].
  - intros [].
  - intros b m [H1 H2]. split; [apply (t_bp_in _ _ _ _ _ T b), H1 | exact H2].
  - intros b m [H1 H2]. split; [apply (t_bounce_q _ _ _ _ _ T b), H1 | apply core_retries, H2].
  - intros m [H1 H2]. split; [apply (t_bounce_b _ _ _ _ _ T), H1 | apply core_retries, H2].
  - intros m [H1 H2]. split; [apply (t_rb _ _ _ _ _ T), H1 | apply core_retries, H2].
Qed.

End PT.

Definition is_cpp (ch : choice) : bool := match ch with CPp _ _ _ => true | _ => false end.

(* a step of any actor but a partition worker keeps the table *)
Lemma core_step_other c s ch tab : c_idem c = true -> is_cpp ch = false ->
  places_ok (PE (g_epoch s)) s -> Forall (core tab) (flat s) ->
  (forall x, ch = CSubmit x -> g_close_req s = false -> g_panic s = None -> ~ In (m_id x) (map fst tab)) ->
  g_epoch (step c s ch) = g_epoch s ->
  Forall (core tab) (flat (step c s ch)).
Proof.
  intros Hi Hc Hp Hf Hsub Hee.
  assert (H0 : places_ok (PT (g_epoch s) tab) s).
  { eapply places_and; [exact Hp | apply flat_places, Hf | | |]; cbn [PT PQ PL PB]; intros; split; assumption. }
  assert (H1 : places_ok (PT (g_epoch s) tab) (step c s ch)).
  { apply (step_places _ False); [exact H0 | apply transfers_PT, Hi | intros t p ls ->; discriminate | | | left; exact Hee].
    - intros x -> Hcr Hnp. split; [apply PE_submit|]. intros _. split; [intros Hh; discriminate | intros _; apply (Hsub x eq_refl Hcr Hnp)].
    - split; [apply PE_shutdown | intros Hd; discriminate]. }
  eapply places_flat; [exact H1 | | |]; cbn [PT PQ PL PB]; intros; tauto.
Qed.

(* ---------------------------------------------------------------- one partition-worker iteration *)

Lemma eff_okP_msgs P effs : Forall (eff_okP P) effs -> forall m, In m (sent_cur effs) -> PQ P (DBp 0) m.
Proof.
  induction 1 as [|e l He Hl IH]; intros m Hm; [contradiction|]. cbn [sent_cur flat_map] in Hm. fold (sent_cur l) in Hm.
  apply in_app_or in Hm as [Hm|Hm]; [|apply IH, Hm]. destruct e; try contradiction. destruct d; try contradiction.
  destruct Hm as [<-|[]]. apply He.
Qed.

Section RunPp.
Variable c : cfg.
Hypothesis Hidem : c_idem c = true.

Lemma run_pp_core sA t p x m0 ls :
  places_ok (PE (g_epoch sA)) sA -> upk (g_epoch sA) (t, p) m0 -> Forall (upk (g_epoch sA) (t, p)) (pp_msgs (pr_st x)) ->
  let s' := run_pp c sA (t, p) x m0 ls in
  let I := m0 :: pp_msgs (pr_st x) in
  let E := g_epoch sA in let SQ := seq_get (t, p) (g_seqs sA) in
  g_epoch s' = g_epoch sA ->
  exists effs n,
    stamps_ok t p SQ E effs n /\
    txn_of s' = txn_effs (txn_of sA) effs /\
    (forall m', In m' (flat s') -> In m' (flat sA) \/ In m' I \/ In m' (newL effs) \/ is_data m' = false) /\
    (g_panic s' = None -> forall m', In m' (newL effs) -> In m' (flat s')) /\
    (forall m', In m' (newL effs) -> exists m sq, In m I /\ m' = set_stamp m sq E /\ fresh_pass m = true /\ is_data m = true).
Proof.
  intros Hp Hm0 Hx s' I E SQ Hee. subst s'. unfold run_pp in *. cbn [fst snd] in *.
  match goal with |- context [pp_step c t p (pr_st x) m0 ?ab ?stamp ls] => set (AB := ab) in *; set (ST := stamp) in * end.
  assert (HB : bumps (snd (pp_step c t p (pr_st x) m0 AB ST ls)) = 0).
  { destruct (pp_step c t p (pr_st x) m0 AB ST ls) as [st0 effs0]. cbn [snd]. rewrite epoch_apply_effs in Hee. cbn [set_pps g_epoch] in Hee. lia. }
  clear Hee.
  assert (Hup0 : upf m0) by (destruct Hm0 as [[_ [H _]] _]; exact H).
  assert (HupI : Forall upf (pp_msgs (pr_st x))) by (eapply Forall_impl; [|exact Hx]; intros a [[_ [H _]] _]; exact H).
  destruct (pp_step_stamps c t p E (pr_st x) m0 AB ST ls Hup0 HupI eq_refl HB) as [n Sn].
  pose proof (transfers_PV c E SQ I m0 (or_introl eq_refl)) as TV.
  assert (HI : Forall (PL (PV E SQ I m0) (t, p)) (pp_msgs (pr_st x))).
  { rewrite Forall_forall. intros a Ha. cbn [PV PL]. right. exact Ha. }
  destruct (pp_step_okP (PV E SQ I m0) c E (fun _ => SQ) TV t p (pr_st x) m0 AB ST ls HI eq_refl eq_refl eq_refl (or_introl HB)) as [V1 V2].
  pose proof (ppsh_pp c t p (pr_st x) m0 AB ST ls) as Sh.
  destruct (pp_step c t p (pr_st x) m0 AB ST ls) as [st' effs]. cbn [fst snd] in *.
  exists effs, n. split; [exact Sn|]. split; [rewrite txn_apply_effs; reflexivity|].
  set (s1 := set_pps sA (pp_set (t, p) (mkPpr st' (pr_h x)) (g_pps sA))).
  assert (F1 : forall m', In m' (flat s1) -> In m' (flat sA) \/ In m' I).
  { intros m' H. apply in_flat in H. unfold fq, fp, fb, fr in H. cbn [s1 set_pps g_q g_pps g_bps g_rbs] in H.
    destruct H as [H|[H|H]]; [left; apply in_flat; left; exact H | | left; apply in_flat; right; right; exact H].
    apply in_fp_set in H as [H|H]; [|left; apply in_flat; right; left; exact H]. cbn [pr_st] in H.
    rewrite Forall_forall in V1. right. apply (V1 m' H). }
  assert (Cl : forall m', In m' (sent_cur effs) -> cls E SQ I m').
  { intros m' Hm'. apply (eff_okP_msgs _ _ V2 m' Hm'). }
  split; [|split].
  - intros m' H. destruct (in_flat_effs m' c (WPp (t, p)) effs s1 H) as [G|G]; [destruct (F1 m' G) as [K|K]; [left; exact K | right; left; exact K]|].
    rewrite (ppsh_msgs _ Sh) in G. destruct (Cl m' G) as [Hd|[Hin|[m [sq [Hin [-> [Hsq [Hf Hd]]]]]]]].
    + right; right; right. exact Hd.
    + right; left; exact Hin.
    + right; right; left. unfold newL. apply filter_In. split; [exact G|]. unfold snew, stamped, is_data, fresh_pass in *. cbn [set_stamp m_flags m_hasseq m_retries]. rewrite Hd, Hf. reflexivity.
  - intros Hnp m' Hm'. unfold newL in Hm'. apply filter_In in Hm' as [Hm' _]. apply flat_place_effs; [exact Hnp | rewrite (ppsh_msgs _ Sh); exact Hm'].
  - intros m' Hm'. unfold newL in Hm'. apply filter_In in Hm' as [Hm' Hs]. destruct (Cl m' Hm') as [Hd|[Hin|[m [sq [Hin [-> [Hsq [Hf Hd]]]]]]]].
    + unfold snew, stamped in Hs. rewrite Hd in Hs. discriminate.
    + exfalso. assert (Hu : upf m') by (destruct Hin as [<-|Hin]; [exact Hup0 | rewrite Forall_forall in HupI; apply HupI, Hin]).
      unfold snew in Hs. apply andb_true_iff in Hs as [S1 S2]. rewrite (Hu S1) in S2. discriminate.
    + exists m, sq. repeat split; assumption.
Qed.
End RunPp.

(* ---------------------------------------------------------------- extending the table by the stamps of one iteration *)

Lemma nodup_map_inj {A B} (f : A -> B) (l : list A) a b : NoDup (map f l) -> In a l -> In b l -> f a = f b -> a = b.
Proof.
  induction l as [|x r IH]; intros Hn Ha Hb E; [contradiction|]. cbn [map] in Hn. inversion Hn as [|? ? Hx Hr]; subst.
  destruct Ha as [->|Ha], Hb as [->|Hb]; [reflexivity | | | apply IH; assumption].
  - exfalso. apply Hx. rewrite E. apply in_map, Hb.
  - exfalso. apply Hx. rewrite <- E. apply in_map, Ha.
Qed.

Lemma tpk_eq_dec (a b : tpk) : {a = b} + {a <> b}.
Proof. decide equality; apply Z.eq_dec. Qed.

Lemma tab_extend E (SQa SQb : tpk -> Z) n t p tab (F F' I L : list msg) :
  tab_ok E SQa tab -> Forall (core tab) F -> Forall (core tab) I -> Forall (upk E (t, p)) I ->
  (forall m', In m' F' -> In m' F \/ In m' I \/ In m' L \/ is_data m' = false) ->
  (forall m', In m' L -> In m' F') ->
  (forall m', In m' L -> exists m sq, In m I /\ m' = set_stamp m sq E /\ fresh_pass m = true /\ is_data m = true) ->
  map m_seq L = zseq (SQa (t, p)) n -> Forall (fun m => m_epoch m = E) L ->
  (forall a b, In a F' -> In b F' -> is_data a = true -> is_data b = true -> m_id a = m_id b -> a = b) ->
  SQb (t, p) = SQa (t, p) + Z.of_nat n -> (forall k, k <> (t, p) -> SQb k = SQa k) ->
  tab_ok E SQb (tab ++ map pairof L) /\ Forall (core (tab ++ map pairof L)) F'.
Proof.
  intros [TF TI TB] HF HI HU Hcl Hfw Hsh Hseq Hep Huq Hb1 Hb2.
  rewrite Forall_forall in HF, HI, HU, Hep.
  (* facts about a newly stamped message *)
  assert (New : forall m', In m' L -> is_data m' = true /\ m_hasseq m' = true /\ msg_key m' = (t, p) /\ m_epoch m' = E /\
                                     SQa (t, p) <= m_seq m' < SQa (t, p) + Z.of_nat n /\ ~ In (m_id m') (map fst tab)).
  { intros m' Hm'. destruct (Hsh m' Hm') as [m [sq [Hin [-> [Hf Hd]]]]].
    destruct (HU m Hin) as [[_ [Hup _]] Hk]. specialize (Hk Hd).
    assert (Hns : m_hasseq m = false).
    { destruct (m_hasseq m) eqn:Eh; [|reflexivity]. assert (stamped m = true) as Hst by (unfold stamped; rewrite Hd, Eh; reflexivity).
      rewrite (Hup Hst) in Hf. discriminate. }
    destruct (HI m Hin Hd) as [_ Hni]. specialize (Hni Hns).
    assert (Hs : In (m_seq (set_stamp m sq E)) (zseq (SQa (t, p)) n)) by (rewrite <- Hseq; apply in_map, Hm').
    apply zseq_in in Hs. repeat split; try assumption; try reflexivity; lia. }
  assert (Nd : NoDup (map m_seq L)) by (rewrite Hseq; apply zseq_nodup).
  split.
  - constructor.
    + intros i s1 s2 H1 H2. apply in_app_or in H1 as [H1|H1], H2 as [H2|H2].
      * eapply TF; eassumption.
      * exfalso. apply in_map_iff in H2 as [m' [Ep Hm']]. destruct (New m' Hm') as (_ & _ & _ & _ & _ & Hni). injection Ep as <- _.
        apply Hni. apply in_map_iff. exists (m_id m', s1). split; [reflexivity | exact H1].
      * exfalso. apply in_map_iff in H1 as [m' [Ep Hm']]. destruct (New m' Hm') as (_ & _ & _ & _ & _ & Hni). injection Ep as <- _.
        apply Hni. apply in_map_iff. exists (m_id m', s2). split; [reflexivity | exact H2].
      * apply in_map_iff in H1 as [a [Ea Ha]]. apply in_map_iff in H2 as [b [Eb Hb]].
        destruct (New a Ha) as (Da & _). destruct (New b Hb) as (Db & _).
        assert (a = b) by (apply Huq; try apply Hfw; try assumption; injection Ea as Ea _; injection Eb as Eb _; congruence).
        subst b. rewrite Ea in Eb. injection Eb as ->. reflexivity.
    + intros i1 i2 s H1 H2. apply in_app_or in H1 as [H1|H1], H2 as [H2|H2].
      * eapply TI; eassumption.
      * exfalso. apply in_map_iff in H2 as [m' [Ep Hm']]. destruct (New m' Hm') as (_ & _ & Hk & He & Hr & _).
        unfold pairof in Ep. injection Ep as _ <-. rewrite Hk, He in H1. destruct (TB _ _ _ _ H1) as [G|[_ G]]; lia.
      * exfalso. apply in_map_iff in H1 as [m' [Ep Hm']]. destruct (New m' Hm') as (_ & _ & Hk & He & Hr & _).
        unfold pairof in Ep. injection Ep as _ <-. rewrite Hk, He in H2. destruct (TB _ _ _ _ H2) as [G|[_ G]]; lia.
      * apply in_map_iff in H1 as [a [Ea Ha]]. apply in_map_iff in H2 as [b [Eb Hb]].
        unfold pairof in Ea, Eb. injection Ea as <- Ea. injection Eb as <- Eb. rewrite <- Eb in Ea. injection Ea as _ _ Es.
        f_equal. eapply nodup_map_inj; eassumption.
    + intros i k e q H. apply in_app_or in H as [H|H].
      * destruct (TB _ _ _ _ H) as [G|[G1 G2]]; [left; exact G | right; split; [exact G1|]].
        destruct (tpk_eq_dec k (t, p)) as [->|N]; [rewrite Hb1; lia | rewrite (Hb2 k N); exact G2].
      * apply in_map_iff in H as [m' [Ep Hm']]. destruct (New m' Hm') as (_ & _ & Hk & He & Hr & _).
        unfold pairof in Ep. injection Ep as _ <- <- <-. right. split; [exact He | rewrite Hk, Hb1; lia].
  - rewrite Forall_forall. intros m' Hm' Hd. split.
    + intros Hh. destruct (Hcl m' Hm') as [G|[G|[G|G]]].
      * apply in_or_app. left. apply (HF m' G Hd), Hh.
      * apply in_or_app. left. apply (HI m' G Hd), Hh.
      * apply in_or_app. right. apply in_map, G.
      * congruence.
    + intros Hh Hin. rewrite map_app in Hin. apply in_app_or in Hin as [Hin|Hin].
      * destruct (Hcl m' Hm') as [G|[G|[G|G]]].
        -- apply (HF m' G Hd); assumption.
        -- apply (HI m' G Hd); assumption.
        -- destruct (New m' G) as (_ & Hh' & _). congruence.
        -- congruence.
      * rewrite map_map in Hin. apply in_map_iff in Hin as [b [Eb Hb]]. cbn [pairof fst] in Eb.
        destruct (New b Hb) as (Db & Hhb & _). assert (m' = b) by (apply Huq; try assumption; [apply Hfw, Hb | congruence]).
        subst b. congruence.
Qed.

Definition SQof (s : state) : tpk -> Z := fun k => seq_get k (g_seqs s).

Lemma run_pp_tab c sA t p x m0 ls tab : c_idem c = true ->
  places_ok (PE (g_epoch sA)) sA -> Forall (core tab) (flat sA) ->
  upk (g_epoch sA) (t, p) m0 -> core tab m0 ->
  Forall (upk (g_epoch sA) (t, p)) (pp_msgs (pr_st x)) -> Forall (core tab) (pp_msgs (pr_st x)) ->
  tab_ok (g_epoch sA) (SQof sA) tab ->
  let s' := run_pp c sA (t, p) x m0 ls in
  g_panic s' = None -> g_epoch s' = g_epoch sA ->
  (forall a b, In a (flat s') -> In b (flat s') -> is_data a = true -> is_data b = true -> m_id a = m_id b -> a = b) ->
  exists tab', incl tab tab' /\ tab_ok (g_epoch s') (SQof s') tab' /\ Forall (core tab') (flat s') /\
    (forall i st, In (i, st) tab' -> In (i, st) tab \/ (~ In i (map fst tab) /\ exists m', In m' (flat s') /\ is_data m' = true /\ m_id m' = i)).
Proof.
  intros Hi Hp Hf Hu0 Hc0 HuI HcI Ht s' Hnp He Huq.
  destruct (run_pp_core c sA t p x m0 ls Hp Hu0 HuI He) as [effs [n [Sn [Tx [Hcl [Hfw Hsh]]]]]]. fold s' in Tx, Hcl, Hfw, Hsh.
  assert (Hsq : forall k, SQof s' k = SQof sA k + ks k t p n).
  { intros k. unfold SQof. pose proof (f_equal fst Tx) as T1. pose proof (f_equal snd Tx) as T2. cbn [txn_of fst snd] in T1, T2.
    assert (E1 : fst (txn_effs (txn_of sA) effs) = fst (txn_of sA)) by (rewrite <- T1; exact He).
    rewrite T2, (txn_effs_same_epoch effs (txn_of sA) E1 k). cbn [txn_of snd]. rewrite (so_cs _ _ _ _ _ _ Sn k). reflexivity. }
  destruct (tab_extend (g_epoch sA) (SQof sA) (SQof s') n t p tab (flat sA) (flat s') (m0 :: pp_msgs (pr_st x)) (newL effs)) as [T' C']; try assumption.
  - constructor; assumption.
  - constructor; assumption.
  - apply Hfw, Hnp.
  - apply (so_seq _ _ _ _ _ _ Sn).
  - apply (so_ep _ _ _ _ _ _ Sn).
  - rewrite Hsq. unfold ks. rewrite tpk_eqb_refl. reflexivity.
  - intros k N. rewrite Hsq. unfold ks. apply tpk_eqb_neq in N. rewrite N. lia.
  - exists (tab ++ map pairof (newL effs)). split; [apply incl_appl, incl_refl|]. rewrite He. split; [exact T'|]. split; [exact C'|].
    intros i st Hin. apply in_app_or in Hin as [Hin|Hin]; [left; exact Hin|]. right.
    apply in_map_iff in Hin as [m' [Ep Hm']]. destruct (Hsh m' Hm') as [m [sq [HinI [-> [Hfr Hd]]]]]. injection Ep as <- _.
    assert (Hum : upk (g_epoch sA) (t, p) m /\ core tab m).
    { destruct HinI as [<-|HinI]; [split; assumption|]. rewrite Forall_forall in HuI, HcI. split; [apply HuI | apply HcI]; exact HinI. }
    destruct Hum as [[[_ [Hup _]] _] Hcm].
    assert (Hns : m_hasseq m = false).
    { destruct (m_hasseq m) eqn:Eh; [|reflexivity]. assert (stamped m = true) as Hst by (unfold stamped; rewrite Hd, Eh; reflexivity).
      rewrite (Hup Hst) in Hfr. discriminate. }
    split; [apply (Hcm Hd), Hns|]. exists (set_stamp m sq (g_epoch sA)). split; [apply Hfw; assumption | split; [exact Hd | reflexivity]].
Qed.

Lemma pop_flat d s m s1 : pop d s = Some (m, s1) -> In m (flat s) /\ (forall a, In a (flat s1) -> In a (flat s)).
Proof.
  unfold pop. destruct (q_get d (g_q s)) as [|m0 r] eqn:E; [discriminate|]. intros H; injection H as <- <-.
  assert (Hq : forall a, In a (m0 :: r) -> In a (flat s)).
  { intros a Ha. apply in_flat. left. unfold fq. eapply in_q_get. rewrite E. exact Ha. }
  split; [apply Hq; left; reflexivity|]. intros a Ha. apply in_flat in Ha. unfold fq, fp, fb, fr in Ha. cbn [set_q g_q g_pps g_bps g_rbs] in Ha.
  destruct Ha as [Ha|Ha]; [|apply in_flat; right; exact Ha]. apply in_fq_set in Ha as [Ha|Ha]; [apply Hq; right; exact Ha | apply in_flat; left; exact Ha].
Qed.

Lemma forall_sub (R : msg -> Prop) (a b : list msg) : (forall x, In x a -> In x b) -> Forall R b -> Forall R a.
Proof. intros Hs Hb. rewrite Forall_forall in *. intros x Hx. apply Hb, Hs, Hx. Qed.

(* a partition-worker step that does not move the epoch extends the table *)
Lemma core_step_cpp c s t p ls tab : c_idem c = true ->
  places_ok (PE (g_epoch s)) s -> Forall (core tab) (flat s) -> tab_ok (g_epoch s) (SQof s) tab ->
  let s' := step c s (CPp t p ls) in
  g_epoch s' = g_epoch s ->
  (forall a b, In a (flat s') -> In b (flat s') -> is_data a = true -> is_data b = true -> m_id a = m_id b -> a = b) ->
  exists tab', incl tab tab' /\ tab_ok (g_epoch s') (SQof s') tab' /\ Forall (core tab') (flat s') /\
    (forall i st, In (i, st) tab' -> In (i, st) tab \/ (~ In i (map fst tab) /\ exists m', In m' (flat s') /\ is_data m' = true /\ m_id m' = i)).
Proof.
  intros Hi Hp Hf Ht s' He Huq.
  assert (Keep : forall s0, flat s0 = flat s -> g_epoch s0 = g_epoch s -> g_seqs s0 = g_seqs s ->
                 exists tab', incl tab tab' /\ tab_ok (g_epoch s0) (SQof s0) tab' /\ Forall (core tab') (flat s0) /\
                   (forall i st, In (i, st) tab' -> In (i, st) tab \/ (~ In i (map fst tab) /\ exists m', In m' (flat s0) /\ is_data m' = true /\ m_id m' = i))).
  { intros s0 E1 E2 E3. exists tab. unfold SQof. rewrite E1, E2, E3. split; [apply incl_refl | split; [assumption | split; [assumption | intros i st H; left; exact H]]]. }
  subst s'. unfold step in *. destruct (g_panic s) eqn:Eps; [apply Keep; reflexivity|].
  destruct (g_panic (raw_step c s (CPp t p ls))) eqn:Epr; [apply Keep; reflexivity|].
  cbn [raw_step] in *. destruct (pop (DPart t p) s) as [[m0 s1]|] eqn:Epop; [|apply Keep; reflexivity].
  destruct (pop_places _ _ _ _ _ Hp Epop) as [Hm0 [Hp1 [E1 E2]]]. destruct (pop_flat _ _ _ _ Epop) as [Hin0 Hsub].
  cbn [PE PQ] in Hm0. rewrite Forall_forall in Hf.
  assert (Hc0 : core tab m0) by (apply Hf, Hin0).
  assert (Hf1 : Forall (core tab) (flat s1)) by (rewrite Forall_forall; intros a Ha; apply Hf, Hsub, Ha).
  assert (Ht1 : tab_ok (g_epoch s1) (SQof s1) tab) by (unfold SQof; rewrite E1, E2; exact Ht).
  rewrite <- E1 in Hm0, Hp1.
  destruct (pp_get (t, p) (g_pps s1)) as [x|] eqn:Ex.
  - pose proof (pp_get_in _ _ _ Ex) as Hinx.
    assert (Hsubx : forall a, In a (pp_msgs (pr_st x)) -> In a (flat s1)).
    { intros a Ha. apply in_flat. right; left. apply in_flat_map. exists ((t, p), x). split; assumption. }
    destruct (run_pp_tab c s1 t p x m0 ls tab Hi Hp1 Hf1 Hm0 Hc0 (po_pp _ _ Hp1 _ _ Hinx) (forall_sub _ _ _ Hsubx Hf1) Ht1 Epr) as [tab' [I1 [I2 [I3 I4]]]]; [rewrite E1; exact He | exact Huq|].
    exists tab'. split; [exact I1 | split; [exact I2 | split; assumption]].
  - destruct (next_lres ls) as [l0 ls'].
    assert (T1 : transfers_pp (PE (g_epoch s1)) c (g_epoch s1) (fun k => seq_get k (g_seqs s1))) by (apply (t_pp _ _ _ _ _ (transfers_PE (g_epoch s1) c _ Hi)); exact I).
    destruct (pp_init_okP (PE (g_epoch s1)) c _ _ T1 t p l0) as [Q0 Q1].
    pose proof (pp_init_txn c (WPp (t, p)) (set_pps s1 (pp_set (t, p) (mkPpr (fst (pp_init c t p l0)) None) (g_pps s1))) t p l0) as [X1 X2].
    pose proof (ppsh_pp_init c t p l0) as Sh0.
    assert (Mk : forall a, In a (sent_cur (snd (pp_init c t p l0))) -> is_data a = false).
    { destruct l0; cbn [pp_init snd]; [|intros a []]. unfold leader_effects, syn_of. cbn [sent_cur flat_map app]. intros a [<-|[]]. reflexivity. }
    destruct (pp_init c t p l0) as [st0 effs0]. cbn [fst snd] in *.
    set (s2 := set_pps s1 (pp_set (t, p) (mkPpr st0 None) (g_pps s1))) in *.
    assert (H2 : places_ok (PE (g_epoch s1)) s2).
    { destruct Hp1 as [A1 A2 A3 A4]. constructor; cbn [s2 set_pps g_q g_pps g_bps g_rbs]; try assumption.
      intros k' x' Hin. apply in_pp_set in Hin as [[-> ->]|Hin]; [cbn [pr_st]; rewrite Q1; constructor | eapply A2, Hin]. }
    assert (F2 : forall a, In a (flat s2) -> In a (flat s1)).
    { intros a Ha. apply in_flat in Ha. apply in_flat. unfold fq, fp, fb, fr in *. cbn [s2 set_pps g_q g_pps g_bps g_rbs] in Ha.
      destruct Ha as [Ha|[Ha|Ha]]; [left; exact Ha | | right; right; exact Ha].
      apply in_fp_set in Ha as [Ha|Ha]; [cbn [pr_st] in Ha; rewrite Q1 in Ha; contradiction | right; left; exact Ha]. }
    pose proof (apply_effs_places (PE (g_epoch s1)) c (WPp (t, p)) effs0 s2 H2 Q0) as H3.
    set (s3 := apply_effs c (WPp (t, p)) s2 effs0) in *.
    assert (E3 : g_epoch s3 = g_epoch s1) by exact X1. assert (E3' : g_seqs s3 = g_seqs s1) by exact X2.
    assert (Hf3 : Forall (core tab) (flat s3)).
    { rewrite Forall_forall. intros a Ha. destruct (in_flat_effs a c (WPp (t, p)) effs0 s2 Ha) as [G|G].
      - rewrite Forall_forall in Hf1. apply Hf1, F2, G.
      - rewrite (ppsh_msgs _ Sh0) in G. intros Hd. rewrite (Mk a G) in Hd. discriminate. }
    rewrite <- E3 in Hm0, H3.
    assert (Ht3 : tab_ok (g_epoch s3) (SQof s3) tab) by (unfold SQof; rewrite E3, E3'; exact Ht1).
    match goal with |- context [run_pp c s3 (t, p) ?xx m0 ls'] => set (x' := xx) in * end.
    assert (Hx' : Forall (upk (g_epoch s3) (t, p)) (pp_msgs (pr_st x')) /\ Forall (core tab) (pp_msgs (pr_st x'))).
    { subst x'. destruct (pp_get (t, p) (g_pps s3)) as [x|] eqn:Ex3.
      - pose proof (pp_get_in _ _ _ Ex3) as Hinx. split; [apply (po_pp _ _ H3 _ _ Hinx)|].
        eapply forall_sub; [|exact Hf3]. intros a Ha. apply in_flat. right; left. apply in_flat_map. exists ((t, p), x). split; assumption.
      - cbn [pr_st]. rewrite Q1. split; constructor. }
    destruct Hx' as [Hx1 Hx2].
    destruct (run_pp_tab c s3 t p x' m0 ls' tab Hi H3 Hf3 Hm0 Hc0 Hx1 Hx2 Ht3 Epr) as [tab' [I1 [I2 [I3 I4]]]]; [rewrite E3, E1; exact He | exact Huq|].
    exists tab'. split; [exact I1 | split; [exact I2 | split; assumption]].
Qed.

(* ---------------------------------------------------------------- predicates that every rewriting keeps *)

Lemma simple_closure c (R : msg -> Prop) s ch :
  (forall m r, R m -> R (set_retries m r)) -> (forall m sz h, R m -> R (set_body m sz h)) ->
  (forall m p, R m -> R (set_part m p)) -> (forall m sq ep, R m -> R (set_stamp m sq ep)) ->
  (forall t p r, R (marker c t p F_SYN r) /\ R (marker c t p F_FIN r)) -> R (shutdown_marker c) ->
  (forall x, ch = CSubmit x -> g_close_req s = false -> g_panic s = None -> R (fresh_of x)) ->
  Forall R (flat s) -> Forall R (flat (step c s ch)).
Proof.
  intros R1 R2 R3 R4 R5 R6 R7 H.
  assert (T : transfers (mkPreds (fun _ => R) (fun _ => R) R) True c (g_epoch s) (fun k => seq_get k (g_seqs s))).
  { constructor; cbn [PQ PL PB]; auto.
    intros _. constructor; cbn [PQ PL PB]; auto.
    - intros t p b m Hm. destruct (c_idem c && fresh_pass m && is_data m); auto.
    - intros t p b m sq Hm _. destruct (c_idem c && fresh_pass m && is_data m && negb (m_hasseq m)); auto. }
  assert (TA : transfers_any (mkPreds (fun _ => R) (fun _ => R) R) c).
  { constructor; cbn [PQ PL PB].
    - intros t p b m sq e Hm. destruct (c_idem c && fresh_pass m && is_data m); auto.
    - intros t p b m sq e Hm. destruct (c_idem c && fresh_pass m && is_data m && negb (m_hasseq m)); auto. }
  eapply places_flat; [apply (step_places _ True c s ch (flat_places R s H) T); [intros; exact I | exact R7 | exact R6 | right; exact TA] | | |]; cbn [PQ PL PB]; auto.
Qed.

Lemma count_id_app i a b : count_id i (a ++ b) = (count_id i a + count_id i b)%nat.
Proof. unfold count_id. rewrite filter_app, app_length. reflexivity. Qed.
Lemma count_id_in i l : In i l -> (1 <= count_id i l)%nat.
Proof.
  unfold count_id. induction l as [|x r IH]; intros H; [contradiction|]. cbn [filter]. destruct H as [->|H].
  - rewrite Z.eqb_refl. cbn [length]. lia.
  - specialize (IH H). destruct (i =? x); cbn [length]; lia.
Qed.

(* ---------------------------------------------------------------- the lineage invariant and its step *)

Definition subok (s : state) (m : msg) : Prop := is_data m = true -> In (m_id m) (map m_id (g_submitted s)).

Record lin (s : state) (tab : list (Z * stamp)) : Prop := mkLin {
  li_ok : tab_ok (g_epoch s) (SQof s) tab;
  li_core : Forall (core tab) (flat s);
  li_sub : Forall (subok s) (flat s);
  li_t6 : forall i st, In (i, st) tab -> In i (map m_id (g_submitted s))
}.

Lemma submitted_incl c s ch i : In i (map m_id (g_submitted s)) -> In i (map m_id (g_submitted (step c s ch))).
Proof.
  intros H. destruct (submitted_step c s ch) as [E|[m E]]; rewrite E; [exact H | rewrite map_app; apply in_or_app; left; exact H].
Qed.

Lemma submit_step c s x : g_close_req s = false -> g_panic s = None ->
  g_submitted (step c s (CSubmit x)) = g_submitted s ++ [fresh_of x].
Proof. intros Hc Hp. unfold step. rewrite Hp. cbn [raw_step]. rewrite Hc. cbn. rewrite Hp. reflexivity. Qed.

Lemma sub_step c s ch : Forall (subok s) (flat s) -> Forall (subok (step c s ch)) (flat (step c s ch)).
Proof.
  intros H. apply simple_closure; unfold subok.
  - intros m r Hm; exact Hm.
  - intros m sz h Hm; exact Hm.
  - intros m p Hm; exact Hm.
  - intros m sq ep Hm; exact Hm.
  - intros t p r. split; intros Hd; cbn in Hd; discriminate.
  - intros Hd; cbn in Hd; discriminate.
  - intros x -> Hc Hp _. rewrite (submit_step c s x Hc Hp), map_app. apply in_or_app. right. left. reflexivity.
  - eapply Forall_impl; [|exact H]. intros m Hm Hd. apply submitted_incl, Hm, Hd.
Qed.

Lemma unst_step c s ch (tab : list (Z * stamp)) :
  (forall x, ch = CSubmit x -> g_close_req s = false -> g_panic s = None -> ~ In (m_id x) (map fst tab)) ->
  Forall (fun m => is_data m = true -> m_hasseq m = false -> ~ In (m_id m) (map fst tab)) (flat s) ->
  Forall (fun m => is_data m = true -> m_hasseq m = false -> ~ In (m_id m) (map fst tab)) (flat (step c s ch)).
Proof.
  intros Hsub H. apply simple_closure.
  - intros m r Hm; exact Hm.
  - intros m sz h Hm; exact Hm.
  - intros m p Hm; exact Hm.
  - intros m sq ep _ _ Hh. cbn in Hh. discriminate.
  - intros t p r. split; intros Hd; cbn in Hd; discriminate.
  - intros Hd; cbn in Hd; discriminate.
  - intros x Hx Hc Hp _ _. apply (Hsub x Hx Hc Hp).
  - exact H.
Qed.

Lemma step_epoch_mono c s ch : g_epoch s <= g_epoch (step c s ch).
Proof.
  destruct (step_txn c s ch) as [l El]. pose proof (txn_effs_mono l (txn_of s)) as M. rewrite <- El in M. exact M.
Qed.

Lemma lin_step c s ch tab : c_idem c = true -> places_ok (PE (g_epoch s)) s -> lin s tab ->
  let s' := step c s ch in
  (g_epoch s' <> g_epoch s -> no_stamped s') ->
  (forall a b, In a (flat s') -> In b (flat s') -> is_data a = true -> is_data b = true -> m_id a = m_id b -> a = b) ->
  (forall i, (subm_count i s' <= 1)%nat) ->
  exists tab', incl tab tab' /\ lin s' tab' /\ (forall i st, In (i, st) tab' -> In (i, st) tab \/ ~ In i (map fst tab)).
Proof.
  intros Hi Hp [Lok Lcore Lsub Lt6] s' Hk Huq Hsc.
  assert (Hsubm : forall x, ch = CSubmit x -> g_close_req s = false -> g_panic s = None -> ~ In (m_id x) (map fst tab)).
  { intros x -> Hc Hnp Hin. apply in_map_iff in Hin as [[i st] [Ei Hin]]. cbn [fst] in Ei. subst i.
    pose proof (Lt6 _ _ Hin) as H6. pose proof (Hsc (m_id x)) as H1. unfold subm_count in H1. subst s'.
    rewrite (submit_step c s x Hc Hnp), map_app, count_id_app in H1. pose proof (count_id_in _ _ H6).
    assert (Ec : count_id (m_id x) (map m_id [fresh_of x]) = 1%nat) by (unfold count_id; cbn [map fresh_of m_id filter]; rewrite Z.eqb_refl; reflexivity).
    rewrite Ec in H1. lia. }
  pose proof (sub_step c s ch Lsub) as Lsub'. fold s' in Lsub'.
  assert (T6old : forall i st, In (i, st) tab -> In i (map m_id (g_submitted s'))) by (intros i st H; apply submitted_incl, (Lt6 _ _ H)).
  destruct (Z.eq_dec (g_epoch s') (g_epoch s)) as [Ee|Ne].
  - destruct (is_cpp ch) eqn:Ec.
    + destruct ch; try discriminate.
      destruct (core_step_cpp c s t p ls tab Hi Hp Lcore Lok Ee Huq) as [tab' [I1 [I2 [I3 I4]]]]. fold s' in I2, I3, I4.
      exists tab'. split; [exact I1|]. split; [|intros i st Hin; destruct (I4 i st Hin) as [G|[G _]]; [left; exact G | right; exact G]].
      constructor; try assumption.
      intros i st Hin. destruct (I4 i st Hin) as [G|[_ [m' [G1 [G2 G3]]]]]; [eapply T6old, G|].
      rewrite Forall_forall in Lsub'. rewrite <- G3. apply (Lsub' m' G1 G2).
    + exists tab. split; [apply incl_refl|]. split; [|intros i st Hin; left; exact Hin]. constructor; try assumption.
      * destruct Lok as [F I B]. rewrite Ee. constructor; try assumption.
        intros i k e q H. destruct (B _ _ _ _ H) as [G|[G1 G2]]; [left; exact G | right; split; [exact G1|]].
        pose proof (step_counters c s ch k Ee) as Hm. unfold SQof in *. unfold s'. lia.
      * apply core_step_other; assumption.
  - specialize (Hk Ne). exists tab. split; [apply incl_refl|]. split; [|intros i st Hin; left; exact Hin]. constructor; try assumption.
    + destruct Lok as [F I B]. constructor; try assumption.
      intros i k e q H. pose proof (step_epoch_mono c s ch). fold s' in H0. left. destruct (B _ _ _ _ H) as [G|[G1 G2]]; lia.
    + assert (Hns : Forall (fun m => stamped m = false) (flat s')) by (eapply places_flat; [exact Hk | | |]; cbn [PQ PL PB]; auto).
      assert (Hun : Forall (fun m => is_data m = true -> m_hasseq m = false -> ~ In (m_id m) (map fst tab)) (flat s')).
      { apply unst_step; [exact Hsubm|]. eapply Forall_impl; [|exact Lcore]. intros m Hm Hd Hh. apply (Hm Hd), Hh. }
      rewrite Forall_forall in *. intros m Hm Hd. pose proof (Hns m Hm) as S. unfold stamped in S. rewrite Hd in S. cbn [andb] in S.
      split; [intros Hh; congruence | intros Hh; apply (Hun m Hm Hd Hh)].
Qed.
