(* C05 proofs, part 8: lineage of sequence stamps in the composed system (towards the environment-class theorem).
   Flat view of all places, copies of an identity (via the conservation theorem of coq/Producer), the runs of the
   composed system as runs of the composition. *)
From Coq Require Import List ZArith Bool Arith Lia.
From SV Require Import Producer.Msg Producer.Actors Producer.Compose Producer.Weights Producer.Global Producer.Shape
                       Producer.Conservation Producer.Markers
                       C05.Model C05.ProofsBroker C05.ProofsSys C05.ProofsClosure C05.ProofsEnv.
Import ListNotations.
Open Scope Z_scope.

(* ---------------------------------------------------------------- all places as one list *)

Definition flat (s : state) : list msg :=
  flat_map snd (g_q s) ++ flat_map (fun kx => pp_msgs (pr_st (snd kx))) (g_pps s) ++
  flat_map bside_msgs (g_bps s) ++ flat_map rb_ms (g_rbs s).

Lemma parts_w_msgs f ps : parts_w f ps = wsum f (parts_msgs ps).
Proof. induction ps as [|[k l] r IH]; cbn [parts_w parts_msgs]; [reflexivity | rewrite wsum_app, IH; reflexivity]. Qed.
Lemma q_w_flat f q : q_w f q = wsum f (flat_map snd q).
Proof. induction q as [|[d l] r IH]; cbn [q_w flat_map snd]; [reflexivity | rewrite wsum_app, IH; reflexivity]. Qed.
Lemma levels_w_flat f lv : levels_w f lv = wsum f (flat_map l_buf lv).
Proof. induction lv as [|l r IH]; cbn [levels_w flat_map]; [reflexivity | rewrite wsum_app, IH; reflexivity]. Qed.
Lemma pps_w_flat f l : pps_w f l = wsum f (flat_map (fun kx : tpk * ppr => pp_msgs (pr_st (snd kx))) l).
Proof.
  induction l as [|[k x] r IH]; cbn [pps_w flat_map snd]; [reflexivity|]. rewrite wsum_app, IH. unfold pp_w, pp_msgs. rewrite levels_w_flat. reflexivity.
Qed.
Lemma sets_w_flat f l : sets_w f l = wsum f (flat_map set_msgs l).
Proof. induction l as [|x r IH]; cbn [sets_w flat_map]; [reflexivity|]. rewrite wsum_app, IH. unfold set_w, set_msgs. rewrite parts_w_msgs. reflexivity. Qed.
Lemma resps_w_flat f l : resps_w f l = wsum f (flat_map (fun sr : pset * resp => set_msgs (fst sr)) l).
Proof. induction l as [|[x y] r IH]; cbn [resps_w flat_map fst]; [reflexivity|]. rewrite wsum_app, IH. unfold set_w, set_msgs. rewrite parts_w_msgs. reflexivity. Qed.
Lemma bpi_w_flat f x : bpi_w f x = wsum f (bside_msgs x).
Proof.
  unfold bpi_w, bside_msgs, bp_msgs, bp_w. rewrite !wsum_app, sets_w_flat, resps_w_flat. unfold set_w, set_msgs. rewrite parts_w_msgs.
  assert (wait_w f (b_wait (i_st x)) = wsum f (wait_msgs (b_wait (i_st x)))) as -> by (destruct (b_wait (i_st x)); cbn; lia).
  destruct (i_infl x); [unfold set_w; rewrite parts_w_msgs|]; cbn [wsum fold_right]; lia.
Qed.
Lemma bps_w_flat f l : bps_w f l = wsum f (flat_map bside_msgs l).
Proof. induction l as [|x r IH]; cbn [bps_w flat_map]; [reflexivity | rewrite wsum_app, IH, bpi_w_flat; reflexivity]. Qed.
Lemma rbs_w_flat f l : rbs_w f l = wsum f (flat_map rb_ms l).
Proof. induction l as [|x r IH]; cbn [rbs_w flat_map]; [reflexivity | rewrite wsum_app, IH; reflexivity]. Qed.

Lemma total_flat f s : total f s = wsum f (flat s).
Proof. unfold total, flat. rewrite !wsum_app, q_w_flat, pps_w_flat, bps_w_flat, rbs_w_flat. lia. Qed.

Lemma places_flat P (R : msg -> Prop) s : places_ok P s ->
  (forall d m, PQ P d m -> R m) -> (forall k m, PL P k m -> R m) -> (forall m, PB P m -> R m) -> Forall R (flat s).
Proof.
  intros [H1 H2 H3 H4] Rq Rl Rb. unfold flat. rewrite !Forall_app. repeat split; rewrite Forall_forall; intros m Hm; apply in_flat_map in Hm as [y [Hy Hm]].
  - destruct y as [d l]. cbn [snd] in Hm. pose proof (H1 d l Hy) as F. rewrite Forall_forall in F. eapply Rq, F, Hm.
  - destruct y as [k x]. cbn [snd] in Hm. pose proof (H2 k x Hy) as F. rewrite Forall_forall in F. eapply Rl, F, Hm.
  - rewrite Forall_forall in H3. pose proof (H3 y Hy) as F. rewrite Forall_forall in F. eapply Rb, F, Hm.
  - rewrite Forall_forall in H4. pose proof (H4 y Hy) as F. rewrite Forall_forall in F. eapply Rb, F, Hm.
Qed.

Lemma wsum_in f l a : (forall m, 0 <= f m) -> In a l -> f a <= wsum f l.
Proof.
  intros Hf. induction l as [|x r IH]; intros H; [contradiction|]. cbn [wsum fold_right]. fold (wsum f r).
  pose proof (wsum_nonneg f r Hf). destruct H as [->|H]; [lia | specialize (IH H); specialize (Hf x); lia].
Qed.
Lemma two_copies f l a b : (forall m, 0 <= f m) -> In a l -> In b l -> a <> b -> f a + f b <= wsum f l.
Proof.
  intros Hf. induction l as [|x r IH]; intros Ha Hb N; [contradiction|]. cbn [wsum fold_right]. fold (wsum f r).
  destruct Ha as [->|Ha], Hb as [->|Hb].
  - contradiction.
  - pose proof (wsum_in f r b Hf Hb). lia.
  - pose proof (wsum_in f r a Hf Ha). lia.
  - specialize (IH Ha Hb N). specialize (Hf x). lia.
Qed.

(* ---------------------------------------------------------------- runs of the composed system are runs of the composition *)

Lemma yrun_snoc c ys ch : yrun c (ys ++ [ch]) = ystep c (yrun c ys) ch.
Proof. unfold yrun. rewrite fold_left_app. reflexivity. Qed.

Lemma yrun_is_run c : forall ys, exists sched, y_st (yrun c ys) = run c sched.
Proof.
  induction ys as [|ch ys IH] using rev_ind; [exists []; reflexivity|].
  destruct IH as [sched E]. rewrite yrun_snoc. destruct ch as [ch|b f]; cbn [ystep].
  - destruct (is_answer ch); [exists sched; exact E|]. exists (sched ++ [ch]). cbn [y_st]. rewrite run_snoc, E. reflexivity.
  - destruct (g_panic (y_st (yrun c ys))); [exists sched; exact E|].
    destruct (nth_error (g_bps (y_st (yrun c ys))) b) as [x|]; [|exists sched; exact E].
    destruct (i_infl x) as [s|]; [|exists sched; exact E].
    destruct (process (y_wire (yrun c ys)) (y_br (yrun c ys)) s f) as [[br' ls] r].
    exists (sched ++ [CAnswer b r]). cbn [y_st]. rewrite run_snoc, E. reflexivity.
Qed.

Lemma idw_le_count i l : wsum (idw i) l <= Z.of_nat (count_id i (map m_id l)).
Proof.
  unfold count_id. induction l as [|m r IH]; cbn [wsum fold_right map filter]; [lia|]. fold (wsum (idw i) r).
  unfold idw at 1. destruct (i =? m_id m) eqn:E.
  - cbn [length]. rewrite Nat2Z.inj_succ. destruct (is_data m && (m_id m =? i)); lia.
  - rewrite Z.eqb_sym in E. rewrite E, andb_false_r. lia.
Qed.

(* each identity submitted at most once: at most one copy anywhere *)
Lemma tokens_le_one c ys i : c_fix_rb c = true -> (subm_count i (y_st (yrun c ys)) <= 1)%nat ->
  total (idw i) (y_st (yrun c ys)) <= 1.
Proof.
  intros Hf Hs. destruct (yrun_is_run c ys) as [sched E]. rewrite E in *.
  pose proof (conservation c Hf sched i) as C. pose proof (outcomes_le_submissions c Hf sched i) as O.
  unfold tokens, submissions in *. pose proof (idw_le_count i (g_submitted (run c sched))). unfold subm_count in Hs. lia.
Qed.

Lemma msg_eq_dec (a b : msg) : {a = b} + {a <> b}.
Proof.
  decide equality; try apply Z.eq_dec; try apply Bool.bool_dec; try apply Nat.eq_dec. apply list_eq_dec, Bool.bool_dec.
Qed.

Lemma copies_unique c ys i a b : c_fix_rb c = true -> (subm_count i (y_st (yrun c ys)) <= 1)%nat ->
  In a (flat (y_st (yrun c ys))) -> In b (flat (y_st (yrun c ys))) ->
  is_data a = true -> is_data b = true -> m_id a = i -> m_id b = i -> a = b.
Proof.
  intros Hf Hs Ha Hb Da Db Ia Ib. destruct (msg_eq_dec a b) as [E|N]; [exact E|]. exfalso.
  pose proof (tokens_le_one c ys i Hf Hs) as T. rewrite total_flat in T.
  pose proof (two_copies (idw i) _ a b (idw_nonneg i) Ha Hb N) as W.
  unfold idw in W at 1 2. rewrite Da, Db, Ia, Ib, Z.eqb_refl in W. cbn in W. lia.
Qed.

(* ---------------------------------------------------------------- where the messages of the next state come from (effects) *)

Definition eff_msgs (e : effect) : list msg :=
  match e with
  | ESend _ m => [m]
  | EBridge st => set_msgs st
  | ESpawnRB _ ms _ => ms
  | ERbSend _ st => set_msgs st
  | _ => []
  end.

Definition fq (s : state) := flat_map snd (g_q s).
Definition fp (s : state) := flat_map (fun kx : tpk * ppr => pp_msgs (pr_st (snd kx))) (g_pps s).
Definition fb (s : state) := flat_map bside_msgs (g_bps s).
Definition fr (s : state) := flat_map rb_ms (g_rbs s).
Lemma in_flat m s : In m (flat s) <-> In m (fq s) \/ In m (fp s) \/ In m (fb s) \/ In m (fr s).
Proof. unfold flat, fq, fp, fb, fr. rewrite !in_app_iff. tauto. Qed.

Lemma in_fq_set m d l q : In m (flat_map snd (q_set d l q)) -> In m l \/ In m (flat_map snd q).
Proof.
  intros H. apply in_flat_map in H as [[d' l'] [Hin Hm]]. cbn [snd] in Hm.
  apply in_q_set in Hin as [[-> ->]|Hin]; [left; exact Hm | right; apply in_flat_map; exists (d', l'); split; assumption].
Qed.
Lemma in_q_get m d q : In m (q_get d q) -> In m (flat_map snd q).
Proof.
  intros H. destruct (q_get_in d q) as [E|E]; [rewrite E in H; contradiction|].
  apply in_flat_map. exists (d, q_get d q). split; assumption.
Qed.
Lemma in_fp_set m k x l : In m (flat_map (fun kx : tpk * ppr => pp_msgs (pr_st (snd kx))) (pp_set k x l)) ->
  In m (pp_msgs (pr_st x)) \/ In m (flat_map (fun kx : tpk * ppr => pp_msgs (pr_st (snd kx))) l).
Proof.
  intros H. apply in_flat_map in H as [[k' x'] [Hin Hm]]. cbn [snd] in Hm.
  apply in_pp_set in Hin as [[-> ->]|Hin]; [left; exact Hm | right; apply in_flat_map; exists (k', x'); split; assumption].
Qed.

Lemma in_fb_upd m i g l (extra : list msg) :
  (forall x y, In y (bside_msgs (g x)) -> In y (bside_msgs x) \/ In y extra) ->
  In m (flat_map bside_msgs (bp_upd i g l)) -> In m (flat_map bside_msgs l) \/ In m extra.
Proof.
  intros Hg. revert i. induction l as [|x r IH]; intros [|i] H; cbn [bp_upd flat_map] in *; try (left; exact H).
  - apply in_app_or in H as [H|H]; [destruct (Hg x m H) as [G|G]; [left; apply in_or_app; left; exact G | right; exact G] | left; apply in_or_app; right; exact H].
  - apply in_app_or in H as [H|H]; [left; apply in_or_app; left; exact H|]. destruct (IH i H) as [G|G]; [left; apply in_or_app; right; exact G | right; exact G].
Qed.

Lemma flat_eq s s' : g_q s' = g_q s -> g_pps s' = g_pps s -> g_bps s' = g_bps s -> g_rbs s' = g_rbs s -> flat s' = flat s.
Proof. unfold flat. intros -> -> -> ->. reflexivity. Qed.

Lemma in_flat_set_handle m s w h : In m (flat (set_handle s w h)) -> In m (flat s).
Proof.
  unfold set_handle. destruct w; try (intros H; exact H). destruct (pp_get k (g_pps s)) as [x|] eqn:E; [|intros H; exact H].
  intros H. apply in_flat in H. apply in_flat. unfold fq, fp, fb, fr in *. cbn [set_pps g_q g_pps g_bps g_rbs] in H.
  destruct H as [H|[H|H]]; [left; exact H | | right; right; exact H].
  right; left. apply in_fp_set in H as [H|H]; [|exact H]. cbn [pr_st] in H.
  apply in_flat_map. exists (k, x). split; [apply pp_get_in, E | exact H].
Qed.

Lemma in_flat_get_bp m s br : In m (flat (fst (get_bp s br))) -> In m (flat s).
Proof.
  unfold get_bp. destruct (find_reg br (g_bps s) 0%nat); cbn [fst]; intros H; apply in_flat in H; apply in_flat;
    unfold fq, fp, fb, fr in *; cbn [set_bps g_q g_pps g_bps g_rbs] in H.
  - destruct H as [H|[H|[H|H]]]; auto. right; right; left.
    destruct (in_fb_upd m n bi_ref (g_bps s) [] (fun x y Hy => or_introl Hy) H) as [G|[]]. exact G.
  - destruct H as [H|[H|[H|H]]]; auto. right; right; left. rewrite flat_map_app in H. apply in_app_or in H as [H|H]; [exact H|].
    cbn in H. contradiction.
Qed.

Lemma bside_push_in x st y : In y (bside_msgs (bi_with_bridge x (i_bridge x ++ [st]) (i_infl x) (i_resp x))) ->
  In y (bside_msgs x) \/ In y (set_msgs st).
Proof.
  rewrite bside_push. unfold bside_msgs. rewrite !in_app_iff. tauto.
Qed.

Lemma in_flat_eff m c w s e : In m (flat (apply_eff c w s e)) -> In m (flat s) \/ In m (eff_msgs e).
Proof.
  assert (Same : forall s', g_q s' = g_q s -> g_pps s' = g_pps s -> g_bps s' = g_bps s -> g_rbs s' = g_rbs s ->
                 In m (flat s') -> In m (flat s) \/ In m (eff_msgs e)).
  { intros s' E1 E2 E3 E4 H. rewrite (flat_eq s s' E1 E2 E3 E4) in H. left; exact H. }
  assert (Push : forall d m0, eff_msgs e = [m0] -> In m (flat (set_q s (q_push d m0 (g_q s)))) -> In m (flat s) \/ In m (eff_msgs e)).
  { intros d m0 Ee H. apply in_flat in H. unfold fq, fp, fb, fr in H. cbn [set_q g_q g_pps g_bps g_rbs] in H.
    destruct H as [H|H]; [|left; apply in_flat; right; exact H].
    unfold q_push in H. apply in_fq_set in H as [H|H]; [|left; apply in_flat; left; exact H].
    apply in_app_or in H as [H|[<-|[]]]; [left; apply in_flat; left; eapply in_q_get, H | right; rewrite Ee; left; reflexivity]. }
  destruct e; cbn [apply_eff].
  - destruct d; try (apply Push; reflexivity).
    destruct (handle_of s w); [|apply Same; reflexivity]. destruct (nth_error (g_bps s) n); [|apply Same; reflexivity].
    destruct (i_in_closed b); [apply Same; reflexivity | apply Push; reflexivity].
  - unfold emit. destruct (m_hasseq m0); destruct (g_closed s); apply Same; reflexivity.
  - unfold emit. destruct (g_closed s); apply Same; reflexivity.
  - unfold emit. destruct (g_closed s); apply Same; reflexivity.
  - apply Same; reflexivity.
  - apply Same; reflexivity.
  - apply Same; reflexivity.
  - apply Same; reflexivity.
  - apply Same; reflexivity.
  - destruct (handle_of s w) as [b|]; [|intros H; left; exact H]. intros H. apply in_flat_set_handle in H. left.
    apply in_flat in H. apply in_flat. unfold fq, fp, fb, fr in *. cbn [set_bps g_q g_pps g_bps g_rbs] in H.
    destruct H as [H|[H|[H|H]]]; auto. right; right; left.
    destruct (in_fb_upd m b bi_unref (g_bps s) [] (fun x y Hy => or_introl (eq_ind _ (fun l => In y l) Hy _ (bside_unref x))) H) as [G|[]]. exact G.
  - intros H. left. destruct (get_bp s broker) as [s1 b] eqn:E. apply in_flat_set_handle in H.
    pose proof (in_flat_get_bp m s broker) as G. rewrite E in G. cbn [fst] in G. apply G, H.
  - destruct (find_reg broker (g_bps s) 0%nat) as [b|]; [|intros H; left; exact H]. intros H. left.
    apply in_flat in H. apply in_flat. unfold fq, fp, fb, fr in *. cbn [set_bps g_q g_pps g_bps g_rbs] in H.
    destruct H as [H|[H|[H|H]]]; auto. right; right; left.
    destruct (in_fb_upd m b (bi_abandon c) (g_bps s) [] (fun x y Hy => or_introl Hy) H) as [G|[]]. exact G.
  - destruct w; try (apply Same; reflexivity). destruct (nth_error (g_bps s) b); [|apply Same; reflexivity].
    intros H. apply in_flat in H. unfold fq, fp, fb, fr in H. cbn [set_bps g_q g_pps g_bps g_rbs] in H.
    destruct H as [H|[H|[H|H]]]; try (left; apply in_flat; unfold fq, fp, fb, fr; tauto).
    destruct (in_fb_upd m b _ (g_bps s) (set_msgs s0) (fun x y Hy => bside_push_in x s0 y Hy) H) as [G|G];
      [left; apply in_flat; unfold fb; tauto | right; exact G].
  - intros H. apply in_flat in H. unfold fq, fp, fb, fr in H. cbn [set_rbs g_q g_pps g_bps g_rbs] in H.
    destruct H as [H|[H|[H|H]]]; try (left; apply in_flat; unfold fq, fp, fb, fr; tauto).
    rewrite flat_map_app in H. apply in_app_or in H as [H|H]; [left; apply in_flat; unfold fr; tauto|].
    cbn [flat_map rb_ms] in H. rewrite app_nil_r in H. right. exact H.
  - intros H. destruct (get_bp s broker) as [s1 b] eqn:E.
    apply in_flat in H. unfold fq, fp, fb, fr in H. cbn [set_bps g_q g_pps g_bps g_rbs] in H.
    pose proof (in_flat_get_bp m s broker) as G. rewrite E in G. cbn [fst] in G.
    destruct H as [H|[H|[H|H]]]; try (left; apply G, in_flat; unfold fq, fp, fb, fr; tauto).
    destruct (in_fb_upd m b _ (g_bps s1) (set_msgs s0) (fun x y Hy => bside_push_in x s0 y Hy) H) as [K|K];
      [left; apply G, in_flat; unfold fb; tauto | right; exact K].
  - intros H; left; exact H.
  - apply Same; reflexivity.
Qed.

Lemma in_flat_effs m c w : forall l s, In m (flat (apply_effs c w s l)) -> In m (flat s) \/ In m (flat_map eff_msgs l).
Proof.
  induction l as [|e l IH]; intros s H; cbn [apply_effs fold_left flat_map] in *; [left; exact H|].
  destruct (IH _ H) as [G|G]; [|right; apply in_or_app; right; exact G].
  destruct (in_flat_eff m c w s e G) as [K|K]; [left; exact K | right; apply in_or_app; left; exact K].
Qed.

(* ---------------------------------------------------------------- what one partition-worker iteration stamps *)

Fixpoint zseq (a : Z) (n : nat) : list Z := match n with O => [] | S n' => a :: zseq (a + 1) n' end.
Lemma zseq_app a n m : zseq a (n + m) = zseq a n ++ zseq (a + Z.of_nat n) m.
Proof.
  revert a. induction n as [|n IH]; intros a; cbn [zseq Nat.add app]; [f_equal; lia|].
  rewrite IH. replace (a + 1 + Z.of_nat n) with (a + Z.of_nat (S n)) by lia. reflexivity.
Qed.
Lemma zseq_in a n x : In x (zseq a n) <-> a <= x < a + Z.of_nat n.
Proof.
  revert a. induction n as [|n IH]; intros a; cbn [zseq In]; [lia|]. rewrite IH. lia.
Qed.
Lemma zseq_nodup a n : NoDup (zseq a n).
Proof.
  revert a. induction n as [|n IH]; intros a; cbn [zseq]; constructor; [|apply IH]. rewrite zseq_in. lia.
Qed.

Definition sent_cur (effs : list effect) : list msg :=
  flat_map (fun e => match e with ESend DCur m => [m] | _ => [] end) effs.
Definition snew (m : msg) : bool := stamped m && fresh_pass m.
Definition newL (effs : list effect) : list msg := filter snew (sent_cur effs).
(* EStamp effects for key k *)
Definition cs (k : tpk) (effs : list effect) : Z :=
  fold_right (fun e a => match e with EStamp t p => if tpk_eqb k (t, p) then 1 + a else a | _ => a end) 0 effs.

Lemma sent_cur_app a b : sent_cur (a ++ b) = sent_cur a ++ sent_cur b. Proof. apply flat_map_app. Qed.
Lemma newL_app a b : newL (a ++ b) = newL a ++ newL b.
Proof. unfold newL. rewrite sent_cur_app, filter_app. reflexivity. Qed.
Lemma cs_app k a b : cs k (a ++ b) = cs k a + cs k b.
Proof.
  induction a as [|e a IH]; cbn [app cs fold_right]; [reflexivity|]. fold (cs k (a ++ b)) (cs k a). rewrite IH.
  destruct e; try lia. destruct (tpk_eqb k (t, p)); lia.
Qed.

Definition ks (k : tpk) (t p : Z) (n : nat) : Z := if tpk_eqb k (t, p) then Z.of_nat n else 0.

(* the effect lists of a partition worker: n fresh stamps, numbered consecutively from sq *)
Record stamps_ok (t p sq ep : Z) (effs : list effect) (n : nat) : Prop := mkStampsOk {
  so_len : length (newL effs) = n;
  so_seq : map m_seq (newL effs) = zseq sq n;
  so_ep : Forall (fun m => m_epoch m = ep) (newL effs);
  so_cs : forall k, cs k effs = ks k t p n
}.

Lemma stamps_ok_app t p sq ep a b n m : stamps_ok t p sq ep a n -> stamps_ok t p (sq + Z.of_nat n) ep b m ->
  stamps_ok t p sq ep (a ++ b) (n + m).
Proof.
  intros [A1 A2 A3 A4] [B1 B2 B3 B4]. constructor.
  - rewrite newL_app, app_length, A1, B1. reflexivity.
  - rewrite newL_app, map_app, A2, B2, zseq_app. reflexivity.
  - rewrite newL_app. apply Forall_app. split; assumption.
  - intros k. rewrite cs_app, A4, B4. unfold ks. destruct (tpk_eqb k (t, p)); lia.
Qed.
Lemma stamps_ok_none t p sq ep effs : newL effs = [] -> (forall k, cs k effs = 0) -> stamps_ok t p sq ep effs 0.
Proof.
  intros H1 H2. constructor; rewrite ?H1; try reflexivity; [constructor|]. intros k. rewrite H2. unfold ks. destruct (tpk_eqb k (t, p)); reflexivity.
Qed.

Lemma nosend_none t p sq ep effs : nosend effs = true -> (forall k, cs k effs = 0) -> stamps_ok t p sq ep effs 0.
Proof.
  intros H Hc. apply stamps_ok_none; [|exact Hc]. unfold newL. assert (sent_cur effs = []) as ->; [|reflexivity]. clear Hc.
  induction effs as [|e r IH]; [reflexivity|]. cbn [nosend forallb] in H. apply andb_true_iff in H as [H1 H2].
  cbn [sent_cur flat_map]. fold (sent_cur r). rewrite (IH H2), app_nil_r. destruct e; try reflexivity; discriminate.
Qed.
Lemma cs_return_errors k l e : cs k (return_errors l e) = 0.
Proof. unfold return_errors. induction l; cbn; auto. Qed.

Section PpStamps.
Variable c : cfg.
Hypothesis Hidem : c_idem c = true.
Variables t p ep : Z.

Definition upf (m : msg) : Prop := stamped m = true -> fresh_pass m = false.

Lemma snew_marker fl r : fl <> F_DATA -> snew (marker c t p fl r) = false.
Proof. intros N. unfold snew, stamped, is_data, marker. cbn [m_flags m_hasseq]. rewrite andb_false_r. reflexivity. Qed.

Lemma flush_sends_stamps : forall buf sq, Forall upf buf ->
  exists n, stamps_ok t p sq ep (fst (flush_sends c t p sq ep buf)) n /\ snd (flush_sends c t p sq ep buf) = sq + Z.of_nat n.
Proof.
  induction buf as [|m r IH]; intros sq Hb; cbn [flush_sends].
  - exists 0%nat. split; [apply stamps_ok_none; [reflexivity | intros; reflexivity] | cbn; lia].
  - inversion Hb as [|? ? Hm Hr]; subst. destruct (c_idem c && fresh_pass m && is_data m && negb (m_hasseq m)) eqn:Ec.
    + destruct (IH (sq + 1) Hr) as [n [S1 S2]]. destruct (flush_sends c t p (sq + 1) ep r) as [e sq']. cbn [fst snd] in *.
      exists (S n). split; [|lia]. apply andb_true_iff in Ec as [Ec E4]. apply andb_true_iff in Ec as [Ec E3]. apply andb_true_iff in Ec as [_ E2].
      change (EStamp t p :: ESend DCur (set_stamp m sq ep) :: e) with ([EStamp t p; ESend DCur (set_stamp m sq ep)] ++ e).
      replace (S n) with (1 + n)%nat by reflexivity. apply stamps_ok_app; [|replace (sq + Z.of_nat 1) with (sq + 1) by lia; exact S1].
      assert (Hs : snew (set_stamp m sq ep) = true) by (unfold snew, stamped, is_data, fresh_pass in *; cbn [set_stamp m_flags m_hasseq m_retries]; rewrite E3, E2; reflexivity).
      constructor; unfold newL; cbn [sent_cur flat_map app filter]; rewrite ?Hs; cbn [length map m_seq set_stamp zseq].
      * reflexivity.
      * reflexivity.
      * constructor; [reflexivity | constructor].
      * intros k. cbn [cs fold_right]. unfold ks. destruct (tpk_eqb k (t, p)); reflexivity.
    + destruct (IH sq Hr) as [n [S1 S2]]. destruct (flush_sends c t p sq ep r) as [e sq']. cbn [fst snd] in *.
      exists n. split; [|exact S2]. change (ESend DCur m :: e) with ([ESend DCur m] ++ e). replace n with (0 + n)%nat by reflexivity.
      apply stamps_ok_app; [|replace (sq + Z.of_nat 0) with sq by lia; exact S1].
      apply stamps_ok_none; [|intros; reflexivity]. unfold newL. cbn [sent_cur flat_map app filter].
      assert (snew m = false) as ->; [|reflexivity]. unfold snew. destruct (stamped m) eqn:Es; [|reflexivity]. rewrite (Hm Es). reflexivity.
Qed.

Lemma leader_stamps sq b : stamps_ok t p sq ep (leader_effects c t p b) 0.
Proof.
  apply stamps_ok_none; [|intros; reflexivity]. unfold newL, leader_effects, syn_of. cbn [sent_cur flat_map app filter].
  rewrite snew_marker; [reflexivity | discriminate].
Qed.

Lemma flush_stamps : forall h hasbp leader lv stamp ls, Forall upf (flat_map l_buf lv) -> snd stamp = ep ->
  bumps (snd (flush c t p h hasbp leader lv stamp ls)) = 0 ->
  exists n, stamps_ok t p (fst stamp) ep (snd (flush c t p h hasbp leader lv stamp ls)) n.
Proof.
  induction h as [|h' IH]; intros hasbp leader lv stamp ls Hl He Hnb.
  - exists 0%nat. apply nosend_none; [reflexivity | intros; reflexivity].
  - cbn [flush] in *. rewrite He in *.
    destruct (flush_sends_stamps (l_buf (get_level h' lv)) (fst stamp) (in_levels_nth _ _ _ Hl)) as [n [S1 S2]].
    destruct (flush_sends c t p (fst stamp) ep (l_buf (get_level h' lv))) as [es sq'] eqn:Es. cbn [fst snd] in S1, S2.
    pose proof (levels_set_buf_nil _ lv h' Hl) as Hl1.
    assert (Bz : forall a b, bumps (a ++ b) = 0 -> bumps a = 0 /\ bumps b = 0).
    { intros a b H. rewrite bumps_app in H. pose proof (bumps_nonneg a). pose proof (bumps_nonneg b). lia. }
    destruct hasbp.
    + destruct (l_chaser (get_level h' lv) || (h' =? 0)%nat); cbn [snd] in *; [exists n; exact S1|].
      destruct (flush c t p h' true leader (set_buf h' [] lv) (sq', ep) ls) as [res e2] eqn:Ef. cbn [snd] in *.
      destruct (Bz _ _ Hnb) as [_ B2].
      destruct (IH true leader (set_buf h' [] lv) (sq', ep) ls Hl1 eq_refl ltac:(rewrite Ef; exact B2)) as [m Sm]. rewrite Ef in Sm. cbn [fst snd] in Sm.
      exists (n + m)%nat. apply stamps_ok_app; [exact S1 | rewrite <- S2; exact Sm].
    + destruct (next_lres ls) as [[b|e] r].
      * destruct (l_chaser (get_level h' lv) || (h' =? 0)%nat); cbn [snd] in *.
        -- exists (0 + n)%nat. apply stamps_ok_app; [apply leader_stamps | replace (fst stamp + Z.of_nat 0) with (fst stamp) by lia; exact S1].
        -- destruct (flush c t p h' true b (set_buf h' [] lv) (sq', ep) r) as [res e2] eqn:Ef. cbn [snd] in *.
           destruct (Bz _ _ Hnb) as [_ B2].
           destruct (IH true b (set_buf h' [] lv) (sq', ep) r Hl1 eq_refl ltac:(rewrite Ef; exact B2)) as [m Sm]. rewrite Ef in Sm. cbn [fst snd] in Sm.
           exists ((0 + n) + m)%nat. apply stamps_ok_app.
           ++ apply stamps_ok_app; [apply leader_stamps | replace (fst stamp + Z.of_nat 0) with (fst stamp) by lia; exact S1].
           ++ replace (fst stamp + Z.of_nat (0 + n)) with sq' by (rewrite S2; cbn; lia). exact Sm.
      * destruct (l_chaser (get_level h' lv) || (h' =? 0)%nat); cbn [snd] in *.
        -- exists 0%nat. apply nosend_none; [apply ns_return_errors | intros; apply cs_return_errors].
        -- set (nb := bumps (return_errors (l_buf (get_level h' lv)) e)) in *.
           destruct (flush c t p h' false leader (set_buf h' [] lv) (if 0 <? nb then (0, ep + nb) else stamp) r) as [res e2] eqn:Ef. cbn [snd] in *.
           destruct (Bz _ _ Hnb) as [B1 B2]. fold nb in B1. rewrite B1 in Ef. cbn in Ef.
           destruct (IH false leader (set_buf h' [] lv) stamp r Hl1 He ltac:(rewrite Ef; exact B2)) as [m Sm]. rewrite Ef in Sm. cbn [snd] in Sm.
           exists (0 + m)%nat. apply stamps_ok_app; [apply nosend_none; [apply ns_return_errors | intros; apply cs_return_errors]|].
           replace (fst stamp + Z.of_nat 0) with (fst stamp) by lia. exact Sm.
Qed.

End PpStamps.

(* ---------------------------------------------------------------- one partition-worker iteration, classified *)

Section PpClass.
Variable c : cfg.
Hypothesis Hidem : c_idem c = true.
Variables t p ep sq0 : Z.

Lemma pp_forward_stamps st m stamp ls pre : upf m -> snd stamp = ep -> stamps_ok t p (fst stamp) ep pre 0 ->
  exists n, stamps_ok t p (fst stamp) ep (snd (pp_forward c t p st m stamp ls pre)) n.
Proof.
  intros Hm He Hp. unfold pp_forward. rewrite He.
  assert (Hsend : forall (st' : pp) e, stamps_ok t p (fst stamp) ep e 0 ->
    exists n, stamps_ok t p (fst stamp) ep (snd (if c_idem c && fresh_pass m && is_data m
       then (st', pre ++ e ++ [EStamp t p; ESend DCur (set_stamp m (fst stamp) ep)])
       else (st', pre ++ e ++ [ESend DCur m]))) n).
  { intros st' e Hee. destruct (c_idem c && fresh_pass m && is_data m) eqn:Ec; cbn [snd].
    - exists (0 + (0 + 1))%nat. apply stamps_ok_app; [exact Hp|]. apply stamps_ok_app; [rewrite Z.add_0_r; exact Hee|].
      rewrite !Z.add_0_r. apply andb_true_iff in Ec as [Ec E3]. apply andb_true_iff in Ec as [_ E2].
      assert (Hs : snew (set_stamp m (fst stamp) ep) = true) by (unfold snew, stamped, is_data, fresh_pass in *; cbn [set_stamp m_flags m_hasseq m_retries]; rewrite E3, E2; reflexivity).
      constructor; unfold newL; cbn [sent_cur flat_map app filter]; rewrite ?Hs; cbn [length map m_seq m_epoch set_stamp zseq]; try reflexivity.
      constructor; [reflexivity | constructor].
    - exists (0 + (0 + 0))%nat. apply stamps_ok_app; [exact Hp|]. apply stamps_ok_app; [rewrite Z.add_0_r; exact Hee|].
      apply stamps_ok_none; [|intros; reflexivity]. unfold newL. cbn [sent_cur flat_map app filter].
      assert (snew m = false) as ->; [|reflexivity]. unfold snew. destruct (stamped m) eqn:Es; [rewrite (Hm Es); reflexivity | reflexivity]. }
  destruct (p_has_bp st).
  - apply Hsend. apply stamps_ok_none; [reflexivity | intros; reflexivity].
  - destruct (next_lres ls) as [[b|e] r].
    + apply Hsend. apply leader_stamps.
    + cbn [snd]. exists (0 + 0)%nat. apply stamps_ok_app; [exact Hp|]. apply stamps_ok_none; [reflexivity | intros; reflexivity].
Qed.

Lemma pp_step_stamps st m ab stamp ls : upf m -> Forall upf (pp_msgs st) -> snd stamp = ep ->
  bumps (snd (pp_step c t p st m ab stamp ls)) = 0 ->
  exists n, stamps_ok t p (fst stamp) ep (snd (pp_step c t p st m ab stamp ls)) n.
Proof.
  intros Hm Hl He Hnb. unfold pp_step in *.
  set (e1 := if p_has_bp st && ab then [EUnref] else []) in *.
  assert (He1 : stamps_ok t p (fst stamp) ep e1 0) by (subst e1; destruct (p_has_bp st && ab); apply stamps_ok_none; try reflexivity; intros; reflexivity).
  set (st1 := if p_has_bp st && ab then _ else st) in *.
  assert (Hl1 : Forall upf (flat_map l_buf (p_levels st1))) by (subst st1; destruct (p_has_bp st && ab); exact Hl).
  clearbody st1 e1.
  assert (Hx : forall x, nosend x = true -> (forall k, cs k x = 0) -> exists n, stamps_ok t p (fst stamp) ep (e1 ++ x) n).
  { intros x H1 H2. exists (0 + 0)%nat. apply stamps_ok_app; [exact He1 | apply nosend_none; assumption]. }
  destruct (p_hwm st1 <? m_retries m)%nat eqn:C1.
  - assert (HG : match pp_guard c t p st1 ls with inl (stg, eg, ls1) => stamps_ok t p (fst stamp) ep eg 0 | inr _ => True end).
    { unfold pp_guard. destruct (p_has_bp st1); [apply stamps_ok_none; [reflexivity | intros; reflexivity]|].
      destruct (next_lres ls) as [[b|e] r]; [apply leader_stamps | exact I]. }
    destruct (pp_guard c t p st1 ls) as [[[stg eg] ls1]|e]; [|cbn [snd]; apply Hx; [reflexivity | intros; reflexivity]].
    destruct (c_retry_max c <? m_retries m)%nat.
    + cbn [snd]. exists (0 + (0 + 0))%nat. apply stamps_ok_app; [exact He1|]. apply stamps_ok_app; [rewrite Z.add_0_r; exact HG|].
      apply nosend_none; [reflexivity | intros; reflexivity].
    + apply pp_forward_stamps; [exact Hm | exact He|].
      replace 0%nat with (0 + (0 + 0))%nat by reflexivity. apply stamps_ok_app; [exact He1|]. apply stamps_ok_app; [rewrite Z.add_0_r; exact HG|].
      apply stamps_ok_none; [|intros; reflexivity]. unfold newL. cbn [sent_cur flat_map app filter].
      rewrite snew_marker; [reflexivity | discriminate].
  - destruct (0 <? p_hwm st1)%nat eqn:C2; [|apply pp_forward_stamps; assumption].
    destruct (m_retries m <? p_hwm st1)%nat eqn:C3.
    + destruct (length (p_levels st1) <=? m_retries m)%nat; [cbn [snd]; apply Hx; [reflexivity | intros; reflexivity]|].
      destruct (is_fin m); cbn [snd]; [apply Hx; [reflexivity | intros; reflexivity] | exists 0%nat; exact He1].
    + destruct (is_fin m) eqn:C4; [|apply pp_forward_stamps; assumption].
      assert (Hnb' : bumps (snd (flush c t p (p_hwm st1) (p_has_bp st1) (p_leader st1) (set_chaser (p_hwm st1) false (p_levels st1)) stamp ls)) = 0).
      { destruct (flush c t p (p_hwm st1) (p_has_bp st1) (p_leader st1) (set_chaser (p_hwm st1) false (p_levels st1)) stamp ls) as [[[[h' hasbp] leader] lv'] effs].
        cbn [snd] in *. rewrite !bumps_app in Hnb. pose proof (bumps_nonneg e1). pose proof (bumps_nonneg effs). pose proof (bumps_nonneg [EDone m]). lia. }
      destruct (flush_stamps c t p ep (p_hwm st1) (p_has_bp st1) (p_leader st1) (set_chaser (p_hwm st1) false (p_levels st1)) stamp ls
                  (levels_set_chaser _ _ _ _ Hl1) He Hnb') as [n Sn].
      destruct (flush c t p (p_hwm st1) (p_has_bp st1) (p_leader st1) _ stamp ls) as [[[[h' hasbp] leader] lv'] effs]. cbn [snd] in *.
      exists (0 + (n + 0))%nat. apply stamps_ok_app; [exact He1|]. apply stamps_ok_app; [rewrite Z.add_0_r; exact Sn|].
      apply nosend_none; [reflexivity | intros; reflexivity].
Qed.

(* where the outputs come from: the classification predicate family for pp_step_okP *)
Variable I : list msg.
Variable m0 : msg.
Hypothesis HI : In m0 I.

Definition cls (x : msg) : Prop :=
  is_data x = false \/ In x I \/
  exists m sq, In m I /\ x = set_stamp m sq ep /\ sq0 <= sq /\ fresh_pass m = true /\ is_data m = true.

Definition PV : preds :=
  mkPreds (fun d x => match d with DPart _ _ => x = m0 | DBp _ => cls x | DCur => cls x | _ => False end)
          (fun _ x => In x I) (fun _ => False).

Lemma transfers_PV : transfers_pp PV c ep (fun _ => sq0).
Proof.
  constructor; cbn [PV PQ PL PB].
  - intros t0 p0 m ->. exact HI.
  - intros t0 p0 b m ->. destruct (c_idem c && fresh_pass m0 && is_data m0) eqn:Ec; [|right; left; exact HI].
    apply andb_true_iff in Ec as [Ec E3]. apply andb_true_iff in Ec as [_ E2].
    right; right. exists m0, sq0. repeat split; try assumption. lia.
  - intros t0 p0 b m sq Hm Hs. destruct (c_idem c && fresh_pass m && is_data m && negb (m_hasseq m)) eqn:Ec; [|right; left; exact Hm].
    apply andb_true_iff in Ec as [Ec _]. apply andb_true_iff in Ec as [Ec E3]. apply andb_true_iff in Ec as [_ E2].
    right; right. exists m, sq. repeat split; assumption.
  - intros t0 p0 b r. split; left; reflexivity.
Qed.

End PpClass.

(* a partition worker only sends to its current broker worker *)
Definition ppsh (l : list effect) : bool :=
  forallb (fun e => match e with ESend DCur _ => true | ESend _ _ | EBridge _ | ESpawnRB _ _ _ | ERbSend _ _ => false | _ => true end) l.
Lemma ppsh_app a b : ppsh (a ++ b) = ppsh a && ppsh b. Proof. apply forallb_app. Qed.
Lemma ppsh_msgs l : ppsh l = true -> flat_map eff_msgs l = sent_cur l.
Proof.
  induction l as [|e l IH]; intros H; [reflexivity|]. cbn [ppsh forallb] in H. apply andb_true_iff in H as [H1 H2].
  cbn [flat_map sent_cur]. fold (sent_cur l). rewrite (IH H2). destruct e; try reflexivity; try discriminate. destruct d; try discriminate; reflexivity.
Qed.
Lemma ppsh_nosend l : nosend l = true -> ppsh l = true.
Proof.
  induction l as [|e l IH]; [reflexivity|]. cbn [nosend ppsh forallb]. intros H. apply andb_true_iff in H as [H1 H2].
  fold (ppsh l). rewrite (IH H2), andb_true_r. destruct e; try reflexivity; discriminate.
Qed.
Lemma ppsh_flush_sends c t p ep : forall buf sq, ppsh (fst (flush_sends c t p sq ep buf)) = true.
Proof.
  induction buf as [|m r IH]; intros sq; [reflexivity|]. cbn [flush_sends].
  destruct (c_idem c && fresh_pass m && is_data m && negb (m_hasseq m)).
  - specialize (IH (sq + 1)). destruct (flush_sends c t p (sq + 1) ep r). cbn [fst] in *. exact IH.
  - specialize (IH sq). destruct (flush_sends c t p sq ep r). cbn [fst] in *. exact IH.
Qed.
Lemma ppsh_flush c t p : forall h hasbp leader lv stamp ls, ppsh (snd (flush c t p h hasbp leader lv stamp ls)) = true.
Proof.
  induction h as [|h' IH]; intros; [reflexivity|]. cbn [flush].
  pose proof (ppsh_flush_sends c t p (snd stamp) (l_buf (get_level h' lv)) (fst stamp)) as Qs.
  destruct (flush_sends c t p (fst stamp) (snd stamp) (l_buf (get_level h' lv))) as [es sq']. cbn [fst] in Qs.
  destruct hasbp.
  - destruct (l_chaser (get_level h' lv) || (h' =? 0)%nat); cbn [snd]; [exact Qs|].
    match goal with |- context [flush c t p h' true leader (set_buf h' [] lv) ?sx ls] =>
      specialize (IH true leader (set_buf h' [] lv) sx ls); destruct (flush c t p h' true leader (set_buf h' [] lv) sx ls) as [res e2] end.
    cbn [snd] in *. rewrite ppsh_app, Qs, IH. reflexivity.
  - destruct (next_lres ls) as [[b|e] r].
    + destruct (l_chaser (get_level h' lv) || (h' =? 0)%nat); cbn [snd]; [rewrite ppsh_app, Qs; reflexivity|].
      match goal with |- context [flush c t p h' true b (set_buf h' [] lv) ?sx r] =>
        specialize (IH true b (set_buf h' [] lv) sx r); destruct (flush c t p h' true b (set_buf h' [] lv) sx r) as [res e2] end.
      cbn [snd] in *. rewrite !ppsh_app, Qs, IH. reflexivity.
    + destruct (l_chaser (get_level h' lv) || (h' =? 0)%nat); cbn [snd]; [apply ppsh_nosend, ns_return_errors|].
      match goal with |- context [flush c t p h' false leader (set_buf h' [] lv) ?sx r] =>
        specialize (IH false leader (set_buf h' [] lv) sx r); destruct (flush c t p h' false leader (set_buf h' [] lv) sx r) as [res e2] end.
      cbn [snd] in *. rewrite ppsh_app, (ppsh_nosend _ (ns_return_errors _ _)), IH. reflexivity.
Qed.
Lemma ppsh_pp_forward c t p st m stamp ls pre : ppsh pre = true -> ppsh (snd (pp_forward c t p st m stamp ls pre)) = true.
Proof.
  intros Hp. unfold pp_forward. destruct (p_has_bp st).
  - destruct (c_idem c && fresh_pass m && is_data m); cbn [snd]; rewrite !ppsh_app, Hp; reflexivity.
  - destruct (next_lres ls) as [[b|e] r].
    + destruct (c_idem c && fresh_pass m && is_data m); cbn [snd]; rewrite !ppsh_app, Hp; reflexivity.
    + cbn [snd]. rewrite ppsh_app, Hp. reflexivity.
Qed.
Lemma ppsh_pp c t p st m ab stamp ls : ppsh (snd (pp_step c t p st m ab stamp ls)) = true.
Proof.
  unfold pp_step.
  set (e1 := if p_has_bp st && ab then [EUnref] else []).
  assert (He1 : ppsh e1 = true) by (subst e1; destruct (p_has_bp st && ab); reflexivity).
  set (st1 := if p_has_bp st && ab then _ else st).
  destruct (p_hwm st1 <? m_retries m)%nat.
  - assert (HG : match pp_guard c t p st1 ls with inl (stg, eg, ls1) => ppsh eg = true | inr _ => True end)
      by (unfold pp_guard; destruct (p_has_bp st1); [reflexivity|]; destruct (next_lres ls) as [[b|e] r]; [reflexivity | exact I]).
    destruct (pp_guard c t p st1 ls) as [[[stg eg] ls1]|e].
    + destruct (c_retry_max c <? m_retries m)%nat; [cbn [snd]; rewrite !ppsh_app, He1, HG; reflexivity|].
      apply ppsh_pp_forward. rewrite !ppsh_app, He1, HG. reflexivity.
    + cbn [snd]. rewrite ppsh_app, He1. reflexivity.
  - destruct (0 <? p_hwm st1)%nat; [|apply ppsh_pp_forward, He1].
    destruct (m_retries m <? p_hwm st1)%nat.
    + destruct (length (p_levels st1) <=? m_retries m)%nat; [cbn [snd]; rewrite ppsh_app, He1; reflexivity|].
      destruct (is_fin m); cbn [snd]; [|exact He1]. rewrite ppsh_app, He1. reflexivity.
    + destruct (is_fin m); [|apply ppsh_pp_forward, He1].
      pose proof (ppsh_flush c t p (p_hwm st1) (p_has_bp st1) (p_leader st1) (set_chaser (p_hwm st1) false (p_levels st1)) stamp ls) as Hfl.
      destruct (flush c t p (p_hwm st1) (p_has_bp st1) (p_leader st1) _ stamp ls) as [[[[h' hasbp] leader] lv'] effs].
      cbn [snd] in *. rewrite !ppsh_app, He1, Hfl. reflexivity.
Qed.
Lemma ppsh_pp_init c t p l : ppsh (snd (pp_init c t p l)) = true.
Proof. destruct l; reflexivity. Qed.

(* ---------------------------------------------------------------- effects place their messages; nothing is removed *)

Lemma fq_set_mono m d m0 : forall q, In m (flat_map snd q) -> In m (flat_map snd (q_set d (q_get d q ++ [m0]) q)).
Proof.
  induction q as [|[d2 l2] r IH]; intros H; [contradiction|]. cbn [q_get q_set]. cbn [flat_map snd] in H.
  destruct (dest_eqb d d2) eqn:E; cbn [flat_map snd].
  - apply in_app_or in H as [H|H]; apply in_or_app; [left; apply in_or_app; left; exact H | right; exact H].
  - apply in_app_or in H as [H|H]; apply in_or_app; [left; exact H | right; apply IH, H].
Qed.
Lemma fq_set_new d l : forall q, exists d', In (d', l) (q_set d l q).
Proof.
  induction q as [|[d2 l2] r IH]; cbn [q_set]; [exists d; left; reflexivity|].
  destruct (dest_eqb d d2); [exists d2; left; reflexivity|]. destruct IH as [d' H]. exists d'. right; exact H.
Qed.

Lemma fb_upd_mono m i g l : (forall x y, In y (bside_msgs x) -> In y (bside_msgs (g x))) ->
  In m (flat_map bside_msgs l) -> In m (flat_map bside_msgs (bp_upd i g l)).
Proof.
  intros Hg. revert i. induction l as [|x r IH]; intros [|i] H; cbn [bp_upd flat_map] in *; try exact H.
  - apply in_app_or in H as [H|H]; apply in_or_app; [left; apply Hg, H | right; exact H].
  - apply in_app_or in H as [H|H]; apply in_or_app; [left; exact H | right; apply IH, H].
Qed.
Lemma fb_upd_new m i g l x : nth_error l i = Some x -> In m (bside_msgs (g x)) -> In m (flat_map bside_msgs (bp_upd i g l)).
Proof.
  revert i. induction l as [|y r IH]; intros [|i] Hn H; cbn [bp_upd flat_map nth_error] in *; try discriminate.
  - injection Hn as ->. apply in_or_app. left; exact H.
  - apply in_or_app. right. eapply IH; eassumption.
Qed.

Lemma fp_set_handle k h : forall l x, pp_get k l = Some x ->
  flat_map (fun kx : tpk * ppr => pp_msgs (pr_st (snd kx))) (pp_set k (mkPpr (pr_st x) h) l) =
  flat_map (fun kx : tpk * ppr => pp_msgs (pr_st (snd kx))) l.
Proof.
  induction l as [|[k2 y] r IH]; intros x E; cbn [pp_get] in E; [discriminate|]. cbn [pp_set].
  destruct (tpk_eqb k k2); cbn [flat_map snd pr_st]; [injection E as ->; reflexivity | rewrite (IH x E); reflexivity].
Qed.
Lemma flat_set_handle s w h : flat (set_handle s w h) = flat s.
Proof.
  unfold set_handle. destruct w; try reflexivity. destruct (pp_get k (g_pps s)) as [x|] eqn:E; [|reflexivity].
  unfold flat. cbn [set_pps g_q g_pps g_bps g_rbs]. rewrite (fp_set_handle k h _ x E). reflexivity.
Qed.

Lemma flat_mono_get_bp m s br : In m (flat s) -> In m (flat (fst (get_bp s br))).
Proof.
  intros H. unfold get_bp. destruct (find_reg br (g_bps s) 0%nat); cbn [fst]; apply in_flat in H; apply in_flat;
    unfold fq, fp, fb, fr in *; cbn [set_bps g_q g_pps g_bps g_rbs].
  - destruct H as [H|[H|[H|H]]]; auto. right; right; left. apply fb_upd_mono; [intros x y Hy; exact Hy | exact H].
  - destruct H as [H|[H|[H|H]]]; auto. right; right; left. rewrite flat_map_app. apply in_or_app. left; exact H.
Qed.

Lemma bside_push_mono x st y : In y (bside_msgs x) -> In y (bside_msgs (bi_with_bridge x (i_bridge x ++ [st]) (i_infl x) (i_resp x))).
Proof. rewrite bside_push. unfold bside_msgs. rewrite !in_app_iff. tauto. Qed.
Lemma bside_push_new x st y : In y (set_msgs st) -> In y (bside_msgs (bi_with_bridge x (i_bridge x ++ [st]) (i_infl x) (i_resp x))).
Proof. rewrite bside_push. rewrite !in_app_iff. tauto. Qed.

Lemma flat_mono_eff m c w s e : In m (flat s) -> In m (flat (apply_eff c w s e)).
Proof.
  intros H.
  assert (Same : forall s', g_q s' = g_q s -> g_pps s' = g_pps s -> g_bps s' = g_bps s -> g_rbs s' = g_rbs s -> In m (flat s')).
  { intros s' E1 E2 E3 E4. rewrite (flat_eq s s' E1 E2 E3 E4). exact H. }
  assert (Push : forall d m0, In m (flat (set_q s (q_push d m0 (g_q s))))).
  { intros d m0. apply in_flat in H. apply in_flat. unfold fq, fp, fb, fr in *. cbn [set_q g_q g_pps g_bps g_rbs].
    destruct H as [H|H]; [left; apply fq_set_mono, H | right; exact H]. }
  assert (Upd : forall i g, (forall x y, In y (bside_msgs x) -> In y (bside_msgs (g x))) -> In m (flat (set_bps s (bp_upd i g (g_bps s))))).
  { intros i g Hg. apply in_flat in H. apply in_flat. unfold fq, fp, fb, fr in *. cbn [set_bps g_q g_pps g_bps g_rbs].
    destruct H as [H|[H|[H|H]]]; auto. right; right; left. apply fb_upd_mono; assumption. }
  destruct e; cbn [apply_eff].
  - destruct d; try apply Push. destruct (handle_of s w); [|apply Same; reflexivity]. destruct (nth_error (g_bps s) n); [|apply Same; reflexivity].
    destruct (i_in_closed b); [apply Same; reflexivity | apply Push].
  - unfold emit. destruct (m_hasseq m0); destruct (g_closed s); apply Same; reflexivity.
  - unfold emit. destruct (g_closed s); apply Same; reflexivity.
  - unfold emit. destruct (g_closed s); apply Same; reflexivity.
  - apply Same; reflexivity.
  - apply Same; reflexivity.
  - apply Same; reflexivity.
  - apply Same; reflexivity.
  - apply Same; reflexivity.
  - destruct (handle_of s w) as [b|]; [|exact H]. rewrite flat_set_handle. apply Upd. intros x y Hy. rewrite bside_unref. exact Hy.
  - destruct (get_bp s broker) as [s1 b] eqn:E. rewrite flat_set_handle. pose proof (flat_mono_get_bp m s broker H) as G. rewrite E in G. exact G.
  - destruct (find_reg broker (g_bps s) 0%nat) as [b|]; [|exact H]. apply Upd. intros x y Hy. exact Hy.
  - destruct w; try (apply Same; reflexivity). destruct (nth_error (g_bps s) b); [|apply Same; reflexivity].
    apply Upd. intros x y Hy. apply bside_push_mono, Hy.
  - apply in_flat in H. apply in_flat. unfold fq, fp, fb, fr in *. cbn [set_rbs g_q g_pps g_bps g_rbs].
    destruct H as [H|[H|[H|H]]]; auto. right; right; right. rewrite flat_map_app. apply in_or_app. left; exact H.
  - destruct (get_bp s broker) as [s1 b] eqn:E. pose proof (flat_mono_get_bp m s broker H) as G. rewrite E in G. cbn [fst] in G.
    apply in_flat in G. apply in_flat. unfold fq, fp, fb, fr in *. cbn [set_bps g_q g_pps g_bps g_rbs].
    destruct G as [G|[G|[G|G]]]; auto. right; right; left. apply fb_upd_mono; [intros x y Hy; apply bside_push_mono, Hy | exact G].
  - exact H.
  - apply Same; reflexivity.
Qed.

Lemma flat_place_eff c w s e : g_panic s = None -> g_panic (apply_eff c w s e) = None ->
  forall m, In m (eff_msgs e) -> In m (flat (apply_eff c w s e)).
Proof.
  intros Hs Hp m Hm.
  assert (Push : forall d, In m (flat (set_q s (q_push d m (g_q s))))).
  { intros d. apply in_flat. left. unfold fq. cbn [set_q g_q]. unfold q_push.
    destruct (fq_set_new d (q_get d (g_q s) ++ [m]) (g_q s)) as [d' Hin]. apply in_flat_map. exists (d', q_get d (g_q s) ++ [m]).
    split; [exact Hin | cbn [snd]; apply in_or_app; right; left; reflexivity]. }
  destruct e; cbn [eff_msgs] in Hm; try contradiction; cbn [apply_eff] in *.
  - destruct Hm as [<-|[]]. destruct d; try apply Push.
    destruct (handle_of s w); [|cbn in Hp; discriminate]. destruct (nth_error (g_bps s) n); [|cbn in Hp; discriminate].
    destruct (i_in_closed b); [cbn in Hp; discriminate | apply Push].
  - destruct w; try (cbn in Hp; discriminate). destruct (nth_error (g_bps s) b) as [x|] eqn:En; [|cbn in Hp; discriminate].
    apply in_flat. right; right; left. unfold fb. cbn [set_bps g_bps]. eapply fb_upd_new; [exact En | apply bside_push_new, Hm].
  - apply in_flat. right; right; right. unfold fr. cbn [set_rbs g_rbs]. rewrite flat_map_app. apply in_or_app. right. cbn [flat_map rb_ms]. rewrite app_nil_r. exact Hm.
  - destruct (get_bp s broker) as [s1 b] eqn:E. destruct (get_bp_spec (fun _ => 0) s broker s1 b E) as [[x Hx] _].
    apply in_flat. right; right; left. unfold fb. cbn [set_bps g_bps]. eapply fb_upd_new; [exact Hx | apply bside_push_new, Hm].
Qed.

Lemma apply_eff_panic_mono c w s e : g_panic (apply_eff c w s e) = None -> g_panic s = None.
Proof. intros H. destruct (g_panic s) eqn:E; [|reflexivity]. exfalso. apply (apply_eff_sticky c w s e); [rewrite E; discriminate | exact H]. Qed.

Lemma flat_place_effs c w : forall l s, g_panic (apply_effs c w s l) = None ->
  forall m, In m (flat_map eff_msgs l) -> In m (flat (apply_effs c w s l)).
Proof.
  induction l as [|e l IH]; intros s Hp m Hm; [contradiction|]. cbn [apply_effs fold_left flat_map] in *.
  fold (apply_effs c w (apply_eff c w s e) l) in *.
  assert (H1 : g_panic (apply_eff c w s e) = None).
  { destruct (g_panic (apply_eff c w s e)) eqn:E; [|reflexivity]. exfalso. apply (apply_effs_sticky c w l (apply_eff c w s e)); [rewrite E; discriminate | exact Hp]. }
  apply in_app_or in Hm as [Hm|Hm]; [|apply IH; assumption].
  assert (G : In m (flat (apply_eff c w s e))) by (apply flat_place_eff; [eapply apply_eff_panic_mono, H1 | exact H1 | exact Hm]).
  clear -G. revert G. generalize (apply_eff c w s e). induction l as [|e' l IH]; intros s0 G; [exact G|].
  cbn [apply_effs fold_left]. apply IH. apply flat_mono_eff, G.
Qed.

(* ---------------------------------------------------------------- the transaction manager along effects *)

Definition txn_eff (t : txn) (e : effect) : txn :=
  match e with
  | EStamp a b => snd (txn_stamp t (a, b))
  | EErr m _ => if m_hasseq m then txn_bump t else t
  | _ => t
  end.
Definition txn_effs (t : txn) (l : list effect) : txn := fold_left txn_eff l t.

Lemma txn_apply_eff c w s e : txn_of (apply_eff c w s e) = txn_eff (txn_of s) e.
Proof.
  destruct e; cbn [apply_eff txn_eff]; try reflexivity.
  - destruct d; try reflexivity. destruct (handle_of s w); [|reflexivity]. destruct (nth_error (g_bps s) n); [|reflexivity].
    destruct (i_in_closed b); reflexivity.
  - unfold emit. destruct (m_hasseq m); destruct (g_closed s); reflexivity.
  - unfold emit. destruct (g_closed s); reflexivity.
  - unfold emit. destruct (g_closed s); reflexivity.
  - destruct (handle_of s w) as [b|]; [|reflexivity]. unfold txn_of. destruct (set_handle_txn (set_bps s (bp_upd b bi_unref (g_bps s))) w None) as [-> ->]. reflexivity.
  - destruct (get_bp s broker) as [s1 b] eqn:E. pose proof (get_bp_txn s broker) as [G1 G2]. rewrite E in G1, G2. cbn [fst] in *.
    unfold txn_of. destruct (set_handle_txn s1 w (Some b)) as [-> ->]. rewrite G1, G2. reflexivity.
  - destruct (find_reg broker (g_bps s) 0%nat); reflexivity.
  - destruct w; try reflexivity. destruct (nth_error (g_bps s) b); reflexivity.
  - destruct (get_bp s broker) as [s1 b] eqn:E. pose proof (get_bp_txn s broker) as [G1 G2]. rewrite E in G1, G2. cbn [fst] in *.
    unfold txn_of. cbn. rewrite G1, G2. reflexivity.
Qed.
Lemma txn_apply_effs c w : forall l s, txn_of (apply_effs c w s l) = txn_effs (txn_of s) l.
Proof.
  induction l as [|e l IH]; intros s; [reflexivity|]. cbn [apply_effs txn_effs fold_left].
  fold (apply_effs c w (apply_eff c w s e) l). fold (txn_effs (txn_eff (txn_of s) e) l). rewrite IH, txn_apply_eff. reflexivity.
Qed.

Lemma txn_eff_mono t e : fst t <= fst (txn_eff t e).
Proof. destruct e; cbn [txn_eff]; try lia. - destruct (m_hasseq m); cbn; lia. - cbn. lia. Qed.
Lemma txn_effs_mono : forall l t, fst t <= fst (txn_effs t l).
Proof.
  induction l as [|e l IH]; intros t; [cbn; lia|]. cbn [txn_effs fold_left]. fold (txn_effs (txn_eff t e) l).
  pose proof (txn_eff_mono t e). pose proof (IH (txn_eff t e)). lia.
Qed.

Lemma cs_nonneg k l : 0 <= cs k l.
Proof. induction l as [|e l IH]; cbn [cs fold_right]; [lia|]. fold (cs k l). destruct e; try lia. destruct (tpk_eqb k (t, p)); lia. Qed.

Lemma txn_effs_same_epoch : forall l t, fst (txn_effs t l) = fst t ->
  forall k, seq_get k (snd (txn_effs t l)) = seq_get k (snd t) + cs k l.
Proof.
  induction l as [|e l IH]; intros t He k; [cbn; lia|]. cbn [txn_effs fold_left] in *. fold (txn_effs (txn_eff t e) l) in *.
  pose proof (txn_eff_mono t e) as M1. pose proof (txn_effs_mono l (txn_eff t e)) as M2.
  assert (E1 : fst (txn_eff t e) = fst t) by lia.
  rewrite (IH (txn_eff t e) ltac:(lia) k). cbn [cs fold_right]. fold (cs k l).
  destruct e; cbn [txn_eff] in *; try lia.
  - destruct (m_hasseq m); [cbn in E1; lia | lia].
  - unfold txn_stamp. cbn [fst snd]. destruct (tpk_eqb k (t0, p)) eqn:Ek.
    + apply tpk_eqb_eq in Ek. subst k. rewrite seq_get_set_same. lia.
    + apply tpk_eqb_neq in Ek. rewrite seq_get_set_other; [lia | exact Ek].
Qed.

(* every step: some list of effects drives the transaction manager *)
Lemma pop_txn d s m s1 : pop d s = Some (m, s1) -> txn_of s1 = txn_of s.
Proof. unfold pop. destruct (q_get d (g_q s)); [discriminate|]. intros H; injection H as _ <-. reflexivity. Qed.

Lemma raw_step_txn c s ch : exists l, txn_of (raw_step c s ch) = txn_effs (txn_of s) l.
Proof.
  assert (Z0 : forall s', txn_of s' = txn_of s -> exists l, txn_of s' = txn_effs (txn_of s) l) by (intros s' E; exists []; exact E).
  destruct ch; cbn [raw_step].
  - destruct (g_close_req s); apply Z0; reflexivity.
  - destruct (g_close_req s); apply Z0; reflexivity.
  - destruct (pop DDisp s) as [[m s1]|] eqn:E; [|apply Z0; reflexivity]. destruct (disp_step c (g_disp s1) m) as [d' effs].
    exists effs. rewrite txn_apply_effs. f_equal. apply (pop_txn _ _ _ _ E).
  - destruct (pop (DTopic t) s) as [[m s1]|] eqn:E; [|apply Z0; reflexivity]. exists (tp_step m). rewrite txn_apply_effs. f_equal. apply (pop_txn _ _ _ _ E).
  - destruct (pop (DPart t p) s) as [[m s1]|] eqn:E; [|apply Z0; reflexivity]. pose proof (pop_txn _ _ _ _ E) as E1.
    destruct (pp_get (t, p) (g_pps s1)) as [x|].
    + unfold run_pp. match goal with |- context [pp_step c ?a ?b ?st0 m ?ab ?stamp ls] => destruct (pp_step c a b st0 m ab stamp ls) as [st' effs] end. exists effs. rewrite txn_apply_effs. f_equal. exact E1.
    + destruct (next_lres ls) as [l0 ls']. destruct (pp_init c t p l0) as [st0 effs0].
      match goal with |- context [run_pp c ?s3 (t, p) ?x m ls'] => set (s3' := s3); set (x' := x) end.
      unfold run_pp. match goal with |- context [pp_step c ?a ?b ?st1 m ?ab ?stamp ls'] => destruct (pp_step c a b st1 m ab stamp ls') as [st' effs] end.
      exists (effs0 ++ effs). rewrite txn_apply_effs. unfold txn_effs. rewrite fold_left_app. f_equal.
      change (txn_of s3' = txn_effs (txn_of s) effs0). subst s3'. rewrite txn_apply_effs. f_equal. exact E1.
  - destruct (nth_error (g_bps s) b) as [x|]; [|apply Z0; reflexivity]. destruct (flush_poll (i_st x)); [|apply Z0; reflexivity].
    destruct (pop (DBp b) s) as [[m s1]|] eqn:E.
    + unfold run_bp. destruct (bp_step c (g_epoch s1) (i_st x) (BRecv m)) as [st' effs]. exists effs. rewrite txn_apply_effs. f_equal. apply (pop_txn _ _ _ _ E).
    + destruct (i_in_closed x); [|apply Z0; reflexivity]. unfold run_bp. destruct (bp_step c (g_epoch s) (i_st x) BClosed) as [st' effs]. exists effs. rewrite txn_apply_effs. reflexivity.
  - destruct (nth_error (g_bps s) b) as [x|]; [|apply Z0; reflexivity]. unfold run_bp. destruct (bp_step c (g_epoch s) (i_st x) BTimer) as [st' effs]. exists effs. rewrite txn_apply_effs. reflexivity.
  - destruct (nth_error (g_bps s) b) as [x|]; [|apply Z0; reflexivity]. unfold run_bp. destruct (bp_step c (g_epoch s) (i_st x) BFlush) as [st' effs]. exists effs. rewrite txn_apply_effs. reflexivity.
  - destruct (nth_error (g_bps s) b) as [x|]; [|apply Z0; reflexivity]. destruct (i_infl x), (i_bridge x); apply Z0; reflexivity.
  - destruct (nth_error (g_bps s) b) as [x|]; [|apply Z0; reflexivity]. destruct (i_infl x); apply Z0; reflexivity.
  - destruct (nth_error (g_bps s) b) as [x|]; [|apply Z0; reflexivity]. destruct (i_resp x) as [|[st r] rest]; [apply Z0; reflexivity|].
    match goal with |- context [nth_error (g_bps ?s1) b] => destruct (nth_error (g_bps s1) b) as [x1|]; [|apply Z0; reflexivity] end.
    unfold run_bp. match goal with |- context [bp_step c ?e ?st0 ?i] => destruct (bp_step c e st0 i) as [st' effs] end.
    exists effs. rewrite txn_apply_effs. reflexivity.
  - destruct (nth_error (g_rbs s) i) as [tk|]; [|apply Z0; reflexivity]. eexists. rewrite txn_apply_effs. reflexivity.
  - destruct (pop DRetry s) as [[m s1]|] eqn:E; [|apply Z0; reflexivity]. apply Z0. cbn. apply (pop_txn _ _ _ _ E).
  - destruct (g_close_req s && negb (g_woken s) && (g_inflight s =? 0)); apply Z0; reflexivity.
  - destruct (g_woken s && negb (g_closed s)); apply Z0; reflexivity.
Qed.

Lemma step_txn c s ch : exists l, txn_of (step c s ch) = txn_effs (txn_of s) l.
Proof.
  unfold step. destruct (g_panic s); [exists []; reflexivity|]. destruct (g_panic (raw_step c s ch)); [exists []; reflexivity|].
  apply raw_step_txn.
Qed.

(* counters never decrease while the epoch stays *)
Lemma step_counters c s ch k : g_epoch (step c s ch) = g_epoch s -> seq_get k (g_seqs s) <= seq_get k (g_seqs (step c s ch)).
Proof.
  intros He. destruct (step_txn c s ch) as [l El].
  assert (E1 : fst (txn_effs (txn_of s) l) = fst (txn_of s)) by (rewrite <- El; cbn [txn_of fst]; exact He).
  pose proof (txn_effs_same_epoch l (txn_of s) E1 k) as H. rewrite <- El in H. cbn [txn_of snd] in H.
  rewrite H. pose proof (cs_nonneg k l). lia.
Qed.
