(* C05 proofs, part 1: the rule-enforcing broker.  For ANY history of batches (any order, any repetition,
   any epochs), if the claims of the applied batches are stamp-consistent then no message id is written twice
   and every batch the rules accepted (appended, or recognised as the duplicate of a cached batch) has each of its
   ids in the log exactly once. *)
From Coq Require Import List ZArith Bool Arith Lia.
From SV Require Import Producer.Msg C05.Model.
Import ListNotations.
Open Scope Z_scope.

(* ---------------------------------------------------------------- small facts *)

Lemma tpk_eqb_eq a b : tpk_eqb a b = true <-> a = b.
Proof.
  destruct a as [a1 a2], b as [b1 b2]. unfold tpk_eqb. cbn [fst snd].
  rewrite andb_true_iff, !Z.eqb_eq. split; [intros [-> ->]; reflexivity | intros E; injection E; auto].
Qed.
Lemma tpk_eqb_refl a : tpk_eqb a a = true. Proof. apply tpk_eqb_eq; reflexivity. Qed.
Lemma tpk_eqb_neq a b : tpk_eqb a b = false <-> a <> b.
Proof.
  split; intros H.
  - intros E. apply tpk_eqb_eq in E. congruence.
  - destruct (tpk_eqb a b) eqn:E; [apply tpk_eqb_eq in E; contradiction | reflexivity].
Qed.

Lemma br_get_set_same k p br : br_get k (br_set k p br) = p.
Proof.
  induction br as [|[k' p'] r IH]; cbn [br_set br_get].
  - rewrite tpk_eqb_refl. reflexivity.
  - destruct (tpk_eqb k k') eqn:E; cbn [br_get]; rewrite E; [reflexivity | exact IH].
Qed.
Lemma br_get_set_other k k' p br : k' <> k -> br_get k' (br_set k p br) = br_get k' br.
Proof.
  intros N. induction br as [|[k2 p2] r IH]; cbn [br_set br_get].
  - apply tpk_eqb_neq in N. rewrite N. reflexivity.
  - destruct (tpk_eqb k k2) eqn:E; cbn [br_get].
    + apply tpk_eqb_eq in E. subst k2. apply tpk_eqb_neq in N. rewrite N. reflexivity.
    + destruct (tpk_eqb k' k2); [reflexivity | exact IH].
Qed.

(* NoDup transfers along a coarser key *)
Lemma NoDup_map_coarser {A B C} (f : A -> B) (g : A -> C) (l : list A) :
  NoDup (map g l) -> (forall x y, In x l -> In y l -> f x = f y -> g x = g y) -> NoDup (map f l).
Proof.
  induction l as [|a l IH]; intros Hn Hc; cbn [map] in *; [constructor|].
  inversion Hn as [|? ? Hni Hn']; subst. constructor.
  - intros Hin. apply in_map_iff in Hin as [y [Ey Hy]].
    apply Hni. apply in_map_iff. exists y. split; [|exact Hy].
    symmetry. apply Hc; [left; reflexivity | right; exact Hy | symmetry; exact Ey].
  - apply IH; [exact Hn'|]. intros x y Hx Hy. apply Hc; right; assumption.
Qed.

Lemma NoDup_app_intro {A} (a b : list A) :
  NoDup a -> NoDup b -> (forall x, In x a -> In x b -> False) -> NoDup (a ++ b).
Proof.
  induction a as [|x a IH]; intros Ha Hb Hd; cbn [app]; [exact Hb|].
  inversion Ha as [|? ? Hx Ha']; subst. constructor.
  - intros Hin. apply in_app_or in Hin as [Hin|Hin]; [exact (Hx Hin) | exact (Hd x (or_introl eq_refl) Hin)].
  - apply IH; [exact Ha' | exact Hb |]. intros y Hy. apply Hd. right; exact Hy.
Qed.

Lemma firstn_In' {A} (n : nat) : forall (l : list A) x, In x (firstn n l) -> In x l.
Proof.
  induction n as [|n IH]; intros [|a l] x H; cbn [firstn] in H; try contradiction.
  destruct H as [->|H]; [left; reflexivity | right; apply IH, H].
Qed.

(* ---------------------------------------------------------------- entries of one appended batch *)

Definition es (e : entry) : Z * Z := (en_epoch e, en_seq e).

Lemma entries_in ep : forall ids sq e, In e (entries ep sq ids) ->
  en_epoch e = ep /\ sq <= en_seq e < sq + Z.of_nat (length ids).
Proof.
  induction ids as [|i r IH]; intros sq e H; cbn [entries] in H; [contradiction|].
  cbn [length]. rewrite Nat2Z.inj_succ. destruct H as [<-|H].
  - cbn [en_epoch en_seq]. lia.
  - apply IH in H. lia.
Qed.

Lemma entries_claims k ep : forall ids sq e, In e (entries ep sq ids) ->
  In (en_id e, (k, ep, en_seq e)) (claims k ep sq ids).
Proof.
  induction ids as [|i r IH]; intros sq e H; cbn [entries claims] in *; [contradiction|].
  destruct H as [<-|H]; [left; reflexivity | right; apply IH; exact H].
Qed.

Lemma entries_nodup ep : forall ids sq, NoDup (map es (entries ep sq ids)).
Proof.
  induction ids as [|i r IH]; intros sq; cbn [entries map]; constructor.
  - intros H. apply in_map_iff in H as [e [E He]]. apply entries_in in He.
    unfold es in E. cbn [en_epoch en_seq] in E. injection E as _ E2. lia.
  - apply IH.
Qed.

Lemma entries_cover ep : forall ids sq x, sq <= x < sq + Z.of_nat (length ids) ->
  exists e, In e (entries ep sq ids) /\ en_epoch e = ep /\ en_seq e = x.
Proof.
  induction ids as [|i r IH]; intros sq x H; cbn [length] in H.
  - cbn in H. lia.
  - rewrite Nat2Z.inj_succ in H. destruct (Z.eq_dec x sq) as [->|N].
    + exists (mkEntry i ep sq). cbn [entries]. split; [left; reflexivity | split; reflexivity].
    + destruct (IH (sq + 1) x) as [e [He Hx]]; [lia|]. exists e. split; [right; exact He | exact Hx].
Qed.

Lemma claims_in k ep : forall ids sq i s, In (i, s) (claims k ep sq ids) ->
  exists x, s = (k, ep, x) /\ sq <= x < sq + Z.of_nat (length ids).
Proof.
  induction ids as [|j r IH]; intros sq i s H; cbn [claims] in H; [contradiction|].
  cbn [length]. rewrite Nat2Z.inj_succ. destruct H as [H|H].
  - injection H as _ <-. exists sq. split; [reflexivity | lia].
  - apply IH in H as [x [E Hx]]. exists x. split; [exact E | lia].
Qed.

(* the i-th id of a batch is claimed at first + i *)
Lemma claims_cover k ep : forall ids sq x, sq <= x < sq + Z.of_nat (length ids) ->
  exists i, In i ids /\ In (i, (k, ep, x)) (claims k ep sq ids).
Proof.
  induction ids as [|j r IH]; intros sq x H; cbn [length] in H.
  - cbn in H. lia.
  - rewrite Nat2Z.inj_succ in H. destruct (Z.eq_dec x sq) as [->|N].
    + exists j. split; [left; reflexivity | left; reflexivity].
    + destruct (IH (sq + 1) x) as [i [Hi Hc]]; [lia|]. exists i. split; right; assumption.
Qed.
Lemma claims_ids k ep : forall ids sq i, In i ids -> exists x, In (i, (k, ep, x)) (claims k ep sq ids).
Proof.
  induction ids as [|j r IH]; intros sq i H; [contradiction|]. destruct H as [->|H].
  - exists sq. left; reflexivity.
  - destruct (IH (sq + 1) i H) as [x Hx]. exists x. right; exact Hx.
Qed.

(* ---------------------------------------------------------------- invariant of one partition *)

Record InvP (k : tpk) (p : pst) (cl : list (Z * stamp)) : Prop := mkInvP {
  ip_claims : forall e, In e (ps_log p) -> In (en_id e, (k, en_epoch e, en_seq e)) cl;
  ip_nodup : NoDup (map es (ps_log p));
  ip_epoch : forall e, In e (ps_log p) -> en_epoch e <= ps_epoch p;
  ip_last : forall e, In e (ps_log p) -> en_epoch e = ps_epoch p -> en_seq e <= ps_last p;
  ip_cache : forall f l base, In (f, l, base) (ps_cache p) -> forall x, f <= x <= l ->
             exists e, In e (ps_log p) /\ en_epoch e = ps_epoch p /\ en_seq e = x
}.

Lemma InvP_init k cl : InvP k pst0 cl.
Proof. constructor; cbn [pst0 ps_log ps_cache map]; try (intros; contradiction). constructor. Qed.

Lemma InvP_mono k p cl cl' : incl cl cl' -> InvP k p cl -> InvP k p cl'.
Proof. intros Hi [H1 H2 H3 H4 H5]. constructor; auto. Qed.

Lemma cache_find_some f l c base : cache_find f l c = Some base -> In (f, l, base) c.
Proof.
  induction c as [|[[f' l'] b'] r IH]; cbn [cache_find]; [discriminate|].
  destruct ((f =? f') && (l =? l')) eqn:E.
  - apply andb_true_iff in E as [E1 E2]. apply Z.eqb_eq in E1, E2. subst. intros H; injection H as ->. left; reflexivity.
  - intros H. right. apply IH, H.
Qed.

(* the two ways the rules append *)
Lemma decide_append p b base : decide p b = VAppend base ->
  base = Z.of_nat (length (ps_log p)) /\
  ((ps_epoch p < ba_epoch b /\ ba_first b = 0) \/ (ps_epoch p = ba_epoch b /\ ba_first b = ps_last p + 1)).
Proof.
  unfold decide. destruct (ba_epoch b <? ps_epoch p) eqn:E1; [discriminate|].
  destruct (ps_epoch p <? ba_epoch b) eqn:E2.
  - destruct (ba_first b =? 0) eqn:E3; [|discriminate]. intros H; injection H as <-.
    apply Z.ltb_lt in E2. apply Z.eqb_eq in E3. auto.
  - destruct (cache_find _ _ _); [discriminate|].
    destruct (ba_first b =? ps_last p + 1) eqn:E3; [|discriminate]. intros H; injection H as <-.
    apply Z.ltb_ge in E1, E2. apply Z.eqb_eq in E3. split; [reflexivity|]. right. split; lia.
Qed.

Lemma decide_dup p b base : decide p b = VDup base ->
  ps_epoch p = ba_epoch b /\ In (ba_first b, ba_last b, base) (ps_cache p).
Proof.
  unfold decide. destruct (ba_epoch b <? ps_epoch p) eqn:E1; [discriminate|].
  destruct (ps_epoch p <? ba_epoch b) eqn:E2.
  - destruct (ba_first b =? 0); discriminate.
  - destruct (cache_find _ _ _) eqn:E3.
    + intros H; injection H as <-. apply Z.ltb_ge in E1, E2. split; [lia | apply cache_find_some, E3].
    + destruct (ba_first b =? ps_last p + 1); discriminate.
Qed.

Lemma InvP_apply k p cl b : InvP k p cl -> ba_key b = k -> incl (batch_claims b) cl -> InvP k (apply_batch p b) cl.
Proof.
  intros [H1 H2 H3 H4 H5] Hk Hcl. unfold apply_batch. destruct (decide p b) as [base| | |] eqn:D;
    try (constructor; assumption).
  apply decide_append in D as [-> Hcase].
  assert (Hnew : forall e, In e (entries (ba_epoch b) (ba_first b) (ba_ids b)) ->
                 en_epoch e = ba_epoch b /\ ba_first b <= en_seq e <= ba_last b).
  { intros e He. apply entries_in in He. unfold ba_last, ba_count. lia. }
  constructor; cbn [ps_log ps_epoch ps_last ps_cache].
  - intros e He. apply in_app_or in He as [He|He]; [apply H1, He|].
    apply Hcl. unfold batch_claims. rewrite Hk.
    destruct (Hnew e He) as [Ee _]. rewrite Ee. apply entries_claims, He.
  - rewrite map_app. apply NoDup_app_intro; [exact H2 | apply entries_nodup |].
    intros x Hx Hy. apply in_map_iff in Hx as [e1 [<- He1]]. apply in_map_iff in Hy as [e2 [E He2]].
    unfold es in E. injection E as E1 E2. destruct (Hnew e2 He2) as [Ee2 Hs2].
    destruct Hcase as [[Hlt _]|[Heq Hf]].
    + pose proof (H3 e1 He1). lia.
    + assert (en_seq e1 <= ps_last p) by (apply H4; [exact He1 | lia]). lia.
  - intros e He. apply in_app_or in He as [He|He].
    + pose proof (H3 e He). destruct Hcase as [[? _]|[? _]]; lia.
    + destruct (Hnew e He). lia.
  - intros e He Ee. apply in_app_or in He as [He|He].
    + destruct Hcase as [[Hlt _]|[Heq Hf]].
      * pose proof (H3 e He). lia.
      * assert (en_seq e <= ps_last p) by (apply H4; [exact He | lia]).
        unfold ba_last, ba_count. lia.
    + destruct (Hnew e He). lia.
  - intros f l base Hin x Hx. apply firstn_In' in Hin. destruct Hin as [Hin|Hin].
    + injection Hin as <- <- _.
      destruct (entries_cover (ba_epoch b) (ba_ids b) (ba_first b) x) as [e [He [E1 E2]]].
      { unfold ba_last, ba_count in Hx. lia. }
      exists e. split; [apply in_or_app; right; exact He | split; assumption].
    + destruct (ps_epoch p =? ba_epoch b) eqn:E; [|contradiction]. apply Z.eqb_eq in E.
      destruct (H5 f l base Hin x Hx) as [e [He [E1 E2]]].
      exists e. split; [apply in_or_app; left; exact He | split; [lia | exact E2]].
Qed.

(* applying a batch never removes anything from the log *)
Lemma apply_batch_log_incl p b e : In e (ps_log p) -> In e (ps_log (apply_batch p b)).
Proof.
  unfold apply_batch. destruct (decide p b); try (intros H; exact H).
  cbn [ps_log]. intros H. apply in_or_app. left; exact H.
Qed.

(* an accepted batch has every id in the log afterwards *)
Lemma accepted_in_log k p cl b : InvP k p cl -> ba_key b = k -> incl (batch_claims b) cl -> consistent cl ->
  accepted (decide p b) = true -> forall i, In i (ba_ids b) -> In i (log_ids (apply_batch p b)).
Proof.
  intros [H1 H2 H3 H4 H5] Hk Hcl Hc Hacc i Hi. unfold apply_batch, log_ids.
  destruct (decide p b) as [base|base| |] eqn:D; try discriminate.
  - cbn [ps_log]. rewrite map_app. apply in_or_app. right.
    clear -Hi. generalize (ba_first b). induction (ba_ids b) as [|j r IH]; intros sq; [contradiction|].
    cbn [entries map en_id]. destruct Hi as [->|Hi]; [left; reflexivity | right; apply IH, Hi].
  - apply decide_dup in D as [Ee Hin].
    destruct (claims_ids k (ba_epoch b) (ba_ids b) (ba_first b) i Hi) as [x Hx].
    pose proof (claims_in _ _ _ _ _ _ Hx) as [x' [E Hr]]. injection E as <-.
    destruct (H5 _ _ _ Hin x) as [e [He [E1 E2]]]; [unfold ba_last, ba_count; lia|].
    apply in_map_iff. exists e. split; [|exact He].
    pose proof (H1 e He) as Hc1. assert (Hc2 : In (i, (k, ba_epoch b, x)) cl).
    { apply Hcl. unfold batch_claims. rewrite Hk. exact Hx. }
    rewrite E1, E2, Ee in Hc1. apply (Hc _ _ _ _ Hc1 Hc2). reflexivity.
Qed.

(* ---------------------------------------------------------------- the whole broker *)

Definition LInv (br : broker) (cl : list (Z * stamp)) : Prop :=
  NoDup (map fst br) /\ Forall (fun kp => InvP (fst kp) (snd kp) cl) br.

Lemma LInv_nil cl : LInv [] cl. Proof. split; constructor. Qed.

Lemma LInv_get k br cl : LInv br cl -> InvP k (br_get k br) cl.
Proof.
  intros [_ HF]. induction br as [|[k' p] r IH]; cbn [br_get]; [apply InvP_init|].
  inversion HF as [|? ? Hh Ht]; subst. destruct (tpk_eqb k k') eqn:E.
  - apply tpk_eqb_eq in E. subst k'. exact Hh.
  - apply IH, Ht.
Qed.

Lemma br_set_keys k p br : map fst (br_set k p br) = if existsb (tpk_eqb k) (map fst br) then map fst br else map fst br ++ [k].
Proof.
  induction br as [|[k' p'] r IH]; cbn [br_set map fst existsb app]; [reflexivity|].
  destruct (tpk_eqb k k') eqn:E; cbn [map fst orb]; [reflexivity|].
  rewrite IH. destruct (existsb (tpk_eqb k) (map fst r)); reflexivity.
Qed.

Lemma LInv_set k p br cl : LInv br cl -> InvP k p cl -> LInv (br_set k p br) cl.
Proof.
  intros [Hn HF] Hp. split.
  - rewrite br_set_keys. destruct (existsb (tpk_eqb k) (map fst br)) eqn:E; [exact Hn|].
    apply NoDup_app_intro; [exact Hn | constructor; [intros []|constructor] |].
    intros x Hx [<-|[]].
    assert (existsb (tpk_eqb k) (map fst br) = true); [|congruence].
    apply existsb_exists. exists k. split; [exact Hx | apply tpk_eqb_refl].
  - clear Hn. induction br as [|[k' p'] r IH]; cbn [br_set].
    + constructor; [exact Hp | constructor].
    + inversion HF as [|? ? Hh Ht]; subst. destruct (tpk_eqb k k') eqn:E.
      * apply tpk_eqb_eq in E. subst k'. constructor; assumption.
      * constructor; [exact Hh | apply IH, Ht].
Qed.

Lemma LInv_step br cl l : LInv br cl -> (applied l = true -> incl (batch_claims (rl_batch l)) cl) ->
  LInv (replay_step br l) cl.
Proof.
  intros H Hc. unfold replay_step. destruct (applied l); [|exact H].
  apply LInv_set; [exact H|]. apply InvP_apply; [apply LInv_get, H | reflexivity | apply Hc; reflexivity].
Qed.

Lemma in_all_log_ids i br : In i (all_log_ids br) <-> exists k p, In (k, p) br /\ In i (log_ids p).
Proof.
  induction br as [|[k p] r IH]; cbn [all_log_ids].
  - split; [intros [] | intros [? [? [[] _]]]].
  - rewrite in_app_iff, IH. split.
    + intros [H|[k' [p' [H1 H2]]]]; [exists k, p; split; [left; reflexivity | exact H] | exists k', p'; split; [right; exact H1 | exact H2]].
    + intros [k' [p' [[E|H1] H2]]]; [injection E as <- <-; left; exact H2 | right; exists k', p'; auto].
Qed.

Lemma in_all_set i k p br : In i (log_ids p) -> In i (all_log_ids (br_set k p br)).
Proof.
  intros H. induction br as [|[k' p'] r IH]; cbn [br_set all_log_ids].
  - rewrite app_nil_r. exact H.
  - destruct (tpk_eqb k k'); cbn [all_log_ids]; apply in_or_app; [left; exact H | right; exact IH].
Qed.

Lemma mono_set i k p br : (forall e, In e (ps_log (br_get k br)) -> In e (ps_log p)) ->
  In i (all_log_ids br) -> In i (all_log_ids (br_set k p br)).
Proof.
  induction br as [|[k' p'] r IH]; cbn [br_set br_get all_log_ids]; intros Hsub H; [contradiction|].
  destruct (tpk_eqb k k') eqn:E; cbn [all_log_ids]; apply in_app_or in H as [H|H]; apply in_or_app.
  - left. unfold log_ids in *. apply in_map_iff in H as [e [<- He]]. apply in_map_iff. exists e. split; [reflexivity | apply Hsub, He].
  - right; exact H.
  - left; exact H.
  - right. apply IH; [exact Hsub | exact H].
Qed.

Lemma mono_step i br l : In i (all_log_ids br) -> In i (all_log_ids (replay_step br l)).
Proof.
  intros H. unfold replay_step. destruct (applied l); [|exact H].
  apply mono_set; [|exact H]. intros e He. apply apply_batch_log_incl, He.
Qed.

Lemma mono_fold i : forall h br, In i (all_log_ids br) -> In i (all_log_ids (fold_left replay_step h br)).
Proof. induction h as [|l r IH]; intros br H; cbn [fold_left]; [exact H | apply IH, mono_step, H]. Qed.

Lemma LInv_fold cl : forall h br, LInv br cl ->
  (forall l, In l h -> applied l = true -> incl (batch_claims (rl_batch l)) cl) -> LInv (fold_left replay_step h br) cl.
Proof.
  induction h as [|l r IH]; intros br H Hc; cbn [fold_left]; [exact H|].
  apply IH; [apply LInv_step; [exact H | apply Hc; left; reflexivity] | intros l' Hl'; apply Hc; right; exact Hl'].
Qed.

Lemma hist_claims_incl : forall h l, In l h -> applied l = true -> incl (batch_claims (rl_batch l)) (hist_claims h).
Proof.
  induction h as [|x r IH]; intros l Hl Ha; [contradiction|]. destruct Hl as [->|H]; cbn [hist_claims].
  - rewrite Ha. apply incl_appl, incl_refl.
  - apply incl_appr, IH; assumption.
Qed.

(* no id twice, from the invariant and consistency *)
Lemma LInv_nodup cl : consistent cl -> forall br, LInv br cl -> NoDup (all_log_ids br).
Proof.
  intros Hc. induction br as [|[k p] r IH]; intros [Hn HF]; cbn [all_log_ids]; [constructor|].
  inversion HF as [|? ? Hh Ht]; subst. cbn [map fst] in Hn. inversion Hn as [|? ? Hk Hn']; subst.
  cbn [fst snd] in Hh. apply NoDup_app_intro.
  - unfold log_ids. apply NoDup_map_coarser with (g := es); [apply (ip_nodup _ _ _ Hh)|].
    intros x y Hx Hy E. pose proof (ip_claims _ _ _ Hh x Hx) as C1. pose proof (ip_claims _ _ _ Hh y Hy) as C2.
    rewrite E in C1. destruct (Hc _ _ _ _ C1 C2) as [Hs _]. specialize (Hs eq_refl). injection Hs as E1 E2.
    unfold es. congruence.
  - apply IH. split; assumption.
  - intros i Hi Hj. apply in_all_log_ids in Hj as [k' [p' [Hin Hj]]].
    unfold log_ids in Hi, Hj. apply in_map_iff in Hi as [e [<- He]]. apply in_map_iff in Hj as [e' [E He']].
    pose proof (ip_claims _ _ _ Hh e He) as C1.
    rewrite Forall_forall in Ht. pose proof (ip_claims _ _ _ (Ht _ Hin) e' He') as C2. cbn [fst snd] in C2.
    rewrite E in C2. destruct (Hc _ _ _ _ C1 C2) as [Hs _]. specialize (Hs eq_refl). injection Hs as Ek _ _.
    apply Hk. rewrite Ek. apply in_map_iff. exists (k', p'). split; [reflexivity | exact Hin].
Qed.

Lemma count_id_nodup i l : NoDup l -> In i l -> count_id i l = 1%nat.
Proof.
  unfold count_id. induction l as [|x r IH]; intros Hn Hi; [contradiction|].
  inversion Hn as [|? ? Hx Hn']; subst. cbn [filter]. destruct Hi as [->|Hi].
  - rewrite Z.eqb_refl. cbn [length]. f_equal.
    assert (filter (Z.eqb i) r = []) as ->; [|reflexivity].
    clear -Hx. induction r as [|y r IH]; [reflexivity|]. cbn [filter].
    destruct (i =? y) eqn:E; [apply Z.eqb_eq in E; subst; exfalso; apply Hx; left; reflexivity|].
    apply IH. intros H; apply Hx; right; exact H.
  - destruct (i =? x) eqn:E; [apply Z.eqb_eq in E; subst; contradiction | apply IH; assumption].
Qed.
Lemma count_id_le_nodup i l : NoDup l -> (count_id i l <= 1)%nat.
Proof.
  intros Hn. destruct (in_dec Z.eq_dec i l) as [Hi|Hi]; [rewrite count_id_nodup; auto|].
  unfold count_id. assert (filter (Z.eqb i) l = []) as ->; [|cbn; lia].
  induction l as [|y r IH]; [reflexivity|]. cbn [filter].
  destruct (i =? y) eqn:E; [apply Z.eqb_eq in E; subst; exfalso; apply Hi; left; reflexivity|].
  inversion Hn; subst. apply IH; [assumption | intros H; apply Hi; right; exact H].
Qed.

Lemma accepted_fold cl : consistent cl -> forall h br, LInv br cl ->
  (forall l, In l h -> applied l = true -> incl (batch_claims (rl_batch l)) cl) -> verdicts_ok br h ->
  forall l i, In l h -> accepted_entry l = true -> In i (ba_ids (rl_batch l)) ->
  In i (all_log_ids (fold_left replay_step h br)).
Proof.
  intros Hc. induction h as [|x r IH]; intros br HI Hcl Hv l i Hl Ha Hi; [contradiction|].
  cbn [fold_left]. cbn [verdicts_ok] in Hv. destruct Hv as [Hv1 Hv2]. destruct Hl as [->|Hl].
  - apply mono_fold. unfold accepted_entry in Ha. unfold replay_step, applied.
    destruct (rl_verdict l) as [v|] eqn:Ev; [|discriminate]. subst v.
    apply in_all_set. eapply accepted_in_log; try eassumption; [apply LInv_get, HI | reflexivity |].
    apply Hcl; [left; reflexivity | unfold applied; rewrite Ev; reflexivity].
  - eapply IH; try eassumption.
    + apply LInv_step; [exact HI | apply Hcl; left; reflexivity].
    + intros l' Hl'. apply Hcl. right; exact Hl'.
Qed.

(* ---------------------------------------------------------------- the broker theorems *)

Theorem broker_no_duplicate h : consistent (hist_claims h) -> NoDup (all_log_ids (replay h)).
Proof.
  intros Hc. apply (LInv_nodup _ Hc). apply LInv_fold; [apply LInv_nil | apply hist_claims_incl].
Qed.

Theorem broker_accepted_once h : consistent (hist_claims h) -> verdicts_ok [] h ->
  forall l i, In l h -> accepted_entry l = true -> In i (ba_ids (rl_batch l)) ->
  count_id i (all_log_ids (replay h)) = 1%nat.
Proof.
  intros Hc Hv l i Hl Ha Hi. apply count_id_nodup; [apply broker_no_duplicate, Hc|].
  eapply accepted_fold; try eassumption; [apply LInv_nil | apply hist_claims_incl].
Qed.
