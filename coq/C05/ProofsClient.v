(* C05 proofs, part 4: the link between the client's success events and the cluster's verdicts, for one
   delivery + response-handling cycle with arbitrary inputs: a broker worker reports a message successful only
   if the block of its partition says NoError (or DuplicateSequenceNumber), and a rule-enforcing broker puts
   NoError into a block only for a batch its rules accepted. *)
From Coq Require Import List ZArith Bool Arith Lia.
From SV Require Import Producer.Msg Producer.Actors Producer.Compose C05.Model C05.ProofsBroker C05.ProofsSys.
Import ListNotations.
Open Scope Z_scope.

Lemma succ_in_successes m off : forall l base, In (ESucc m off) (successes l base) -> In m l.
Proof.
  induction l as [|x r IH]; intros base H; cbn [successes] in H; [contradiction|].
  destruct H as [H|H]; [injection H as -> _; left; reflexivity | right; eapply IH, H].
Qed.
Lemma no_succ_return_errors m off l e : ~ In (ESucc m off) (return_errors l e).
Proof. unfold return_errors. intros H. apply in_map_iff in H as [? [H _]]. discriminate. Qed.
Lemma no_succ_retry_msgs m off c l e : ~ In (ESucc m off) (retry_msgs c l e).
Proof.
  unfold retry_msgs. intros H. apply in_map_iff in H as [x [H _]]. unfold retry_msg in H.
  destruct (c_retry_max c <=? m_retries x)%nat; discriminate.
Qed.

Lemma hs_phase1_success c broker bl m off : forall ps, In (ESucc m off) (hs_phase1 c broker (RBlocks bl) ps) ->
  exists k l e o, In (k, l) ps /\ In m l /\ block_lookup k bl = Some (e, o) /\ (e = 0 \/ e = E_DUPLICATE).
Proof.
  induction ps as [|[k l] r IH]; intros H; cbn [hs_phase1] in H; [contradiction|].
  apply in_app_or in H as [H|H].
  - destruct (block_lookup k bl) as [[e o]|] eqn:B; [|exfalso; eapply no_succ_return_errors, H].
    destruct (e =? 0) eqn:E0.
    + exists k, l, e, o. apply Z.eqb_eq in E0. repeat split; auto. left; reflexivity. eapply succ_in_successes, H.
    + destruct (e =? E_DUPLICATE) eqn:E1.
      * exists k, l, e, o. apply Z.eqb_eq in E1. repeat split; auto. left; reflexivity. eapply succ_in_successes, H.
      * exfalso. destruct (retriable e); destruct (c_retry_max c =? 0)%nat; cbn [app] in H;
          repeat (destruct H as [H|H]; [discriminate|]); try contradiction;
          try (eapply no_succ_return_errors, H).
  - destruct (IH H) as [k' [l' [e [o [H1 H2]]]]]. exists k', l', e, o. split; [right; exact H1 | exact H2].
Qed.

Lemma hs_phase2_no_success c bl m off : forall ps cur buf, ~ In (ESucc m off) (snd (hs_phase2 c bl ps cur buf)).
Proof.
  induction ps as [|[k l] r IH]; intros cur buf; cbn [hs_phase2]; [intros []|].
  destruct (block_lookup k bl) as [[e o]|]; [|apply IH]. destruct (retriable e); [|apply IH].
  destruct (hs_phase2 c bl r (cur_set k e cur) (part_drop k buf)) as [res effs'] eqn:E. cbn [snd].
  intros H. apply in_app_or in H as [H|H].
  - apply in_app_or in H as [H|H].
    + destruct (c_idem c); [destruct H as [H|[]]; discriminate | eapply no_succ_retry_msgs, H].
    + eapply no_succ_retry_msgs, H.
  - apply (IH (cur_set k e cur) (part_drop k buf)). rewrite E. exact H.
Qed.

Lemma all_retry_no_success c m off e : forall ps, ~ In (ESucc m off) (all_retry c ps e).
Proof.
  induction ps as [|[k l] r IH]; cbn [all_retry]; [intros []|]. intros H. apply in_app_or in H as [H|H];
    [eapply no_succ_retry_msgs, H | exact (IH H)].
Qed.
Lemma all_errors_no_success m off e : forall ps, ~ In (ESucc m off) (all_errors ps e).
Proof.
  induction ps as [|[k l] r IH]; cbn [all_errors]; [intros []|]. intros H. apply in_app_or in H as [H|H];
    [eapply no_succ_return_errors, H | exact (IH H)].
Qed.

(* handleResponse: a success event needs an Ok (or DuplicateSequenceNumber) block for the message's partition *)
Theorem success_needs_ok_block c ep st sent r m off :
  In (ESucc m off) (snd (handle_response c ep st sent r)) -> r <> RNil ->
  exists bl k l e o, r = RBlocks bl /\ In (k, l) (s_parts sent) /\ In m l /\
                     block_lookup k bl = Some (e, o) /\ (e = 0 \/ e = E_DUPLICATE).
Proof.
  unfold handle_response. intros H Hn.
  destruct r as [e enc| |bl]; [| contradiction |].
  - exfalso. destruct enc.
    + destruct (set_empty (b_buf st)); cbn [snd] in H; eapply all_errors_no_success, H.
    + match type of H with In _ (snd (if ?b then _ else _)) => destruct b end; cbn [snd] in H;
        (destruct H as [H|H]; [discriminate|]; apply in_app_or in H as [H|H]; eapply all_retry_no_success, H).
  - destruct (c_retry_max c =? 0)%nat.
    + assert (In (ESucc m off) (hs_phase1 c (b_broker st) (RBlocks bl) (s_parts sent))) as H'.
      { destruct (set_empty (b_buf st)); exact H. }
      destruct (hs_phase1_success _ _ _ _ _ _ H') as [k [l [e [o Hx]]]]. exists bl, k, l, e, o. split; [reflexivity | exact Hx].
    + destruct (hs_phase2 c bl (s_parts sent) (b_cur st) (s_parts (b_buf st))) as [[cur buf] e2] eqn:E2.
      assert (In (ESucc m off) (hs_phase1 c (b_broker st) (RBlocks bl) (s_parts sent) ++ e2)) as H'.
      { match type of H with In _ (snd (if ?b then _ else _)) => destruct b end; exact H. }
      apply in_app_or in H' as [H'|H'].
      * destruct (hs_phase1_success _ _ _ _ _ _ H') as [k [l [e [o Hx]]]]. exists bl, k, l, e, o. split; [reflexivity | exact Hx].
      * exfalso. apply (hs_phase2_no_success c bl m off (s_parts sent) (b_cur st) (s_parts (b_buf st))). rewrite E2. exact H'.
Qed.

(* ---------------------------------------------------------------- the broker's answer *)

Lemma block_lookup_in k v : forall bl, block_lookup k bl = Some v -> exists k', k' = k /\ In (k', v) bl.
Proof.
  induction bl as [|[k' v'] r IH]; cbn [block_lookup]; [discriminate|].
  destruct (tpk_eqb k k') eqn:E.
  - intros H; injection H as ->. apply tpk_eqb_eq in E. exists k'. split; [auto | left; reflexivity].
  - intros H. destruct (IH H) as [k2 [E2 H2]]. exists k2. split; [exact E2 | right; exact H2].
Qed.

Lemma serve_ok_block br b f br' l k e o : serve br b f = (br', l, Some (k, (e, o))) -> sane_pf f = true ->
  (e = 0 \/ e = E_DUPLICATE) -> accepted_entry l = true /\ rl_batch l = b /\ k = ba_key b.
Proof.
  intros H Hs He. destruct f as [|e'|e'|]; cbn [serve] in H; cbn [sane_pf] in Hs.
  - injection H as _ <- <- Hv. unfold accepted_entry. cbn [rl_verdict rl_batch].
    destruct (decide (br_get (ba_key b) br) b); cbn [verdict_block] in Hv; injection Hv as <- _;
      unfold E_OUT_OF_ORDER, E_FENCED, E_DUPLICATE in *; try (destruct He; discriminate); auto.
  - injection H as _ _ _ <- _. apply andb_true_iff in Hs as [H1 H2].
    apply negb_true_iff, Z.eqb_neq in H1, H2. destruct He; contradiction.
  - injection H as _ <- <- Hv. unfold accepted_entry. cbn [rl_verdict rl_batch].
    apply andb_true_iff in Hs as [H1 H2]. apply negb_true_iff, Z.eqb_neq in H1, H2.
    destruct (decide (br_get (ba_key b) br) b); cbn [accepted verdict_block] in Hv; injection Hv as <- _;
      unfold E_OUT_OF_ORDER, E_FENCED, E_DUPLICATE in *; try (destruct He; (discriminate || contradiction)).
  - discriminate.
Qed.

Lemma serve_all_ok_block : forall bs br pf br' ls blks k e o, serve_all br bs pf = (br', ls, blks) ->
  forallb sane_pf pf = true -> In (k, (e, o)) blks -> (e = 0 \/ e = E_DUPLICATE) ->
  exists l, In l ls /\ accepted_entry l = true /\ In (rl_batch l) bs /\ ba_key (rl_batch l) = k.
Proof.
  induction bs as [|b r IH]; intros br pf br' ls blks k e o H Hs Hin He; cbn [serve_all] in H.
  - injection H as _ _ <-. contradiction.
  - destruct (serve br b (hd PNone pf)) as [[br1 l] blk] eqn:E1.
    destruct (serve_all br1 r (tl pf)) as [[br2 ls2] blks2] eqn:E2. injection H as _ <- <-.
    assert (Hs1 : sane_pf (hd PNone pf) = true) by (destruct pf as [|f pf]; [reflexivity | cbn [forallb] in Hs; apply andb_true_iff in Hs as [? _]; assumption]).
    assert (Hs2 : forallb sane_pf (tl pf) = true) by (destruct pf as [|f pf]; [reflexivity | cbn [forallb] in Hs; apply andb_true_iff in Hs as [_ ?]; assumption]).
    destruct blk as [[k1 [e1 o1]]|].
    + destruct Hin as [Hin|Hin].
      * injection Hin as -> -> ->. destruct (serve_ok_block _ _ _ _ _ _ _ _ E1 Hs1 He) as [Ha [Hb Hk]].
        exists l. repeat split; [left; reflexivity | exact Ha | left; symmetry; exact Hb | rewrite Hb; symmetry; exact Hk].
      * destruct (IH _ _ _ _ _ _ _ _ E2 Hs2 Hin He) as [l' [H1 [H2 [H3 H4]]]]. exists l'. repeat split; auto; right; assumption.
    + destruct (IH _ _ _ _ _ _ _ _ E2 Hs2 Hin He) as [l' [H1 [H2 [H3 H4]]]]. exists l'. repeat split; auto; right; assumption.
Qed.

Lemma batch_of_in w s b : In b (batches_of w s) -> exists l, In (ba_key b, l) (s_parts s) /\ ba_ids b = map m_id l.
Proof.
  unfold batches_of. intros H. apply in_map_iff in H as [[k l] [<- Hin]]. exists l. unfold batch_of. cbn [fst snd].
  destruct l as [|m r]; cbn [ba_key ba_ids map]; split; auto.
Qed.

Lemma parts_nodup_unique (ps : list (tpk * list msg)) k l l' :
  NoDup (map fst ps) -> In (k, l) ps -> In (k, l') ps -> l = l'.
Proof.
  induction ps as [|[k0 l0] r IH]; intros Hn H1 H2; [contradiction|]. cbn [map fst] in Hn. inversion Hn as [|? ? Hx Hn']; subst.
  destruct H1 as [H1|H1], H2 as [H2|H2].
  - congruence.
  - injection H1 as -> ->. exfalso. apply Hx. apply in_map_iff. exists (k, l'). split; [reflexivity | exact H2].
  - injection H2 as -> ->. exfalso. apply Hx. apply in_map_iff. exists (k, l). split; [reflexivity | exact H1].
  - apply IH; assumption.
Qed.

(* one delivery and the handling of its answer, arbitrary states on both sides: a message the broker worker
   reports successful belongs to a batch of this request that the rules accepted *)
Theorem success_needs_accept c ep st w br s f br' ls r m off :
  NoDup (map fst (s_parts s)) -> sane_choice (YDeliver 0 f) = true ->
  process w br s f = (br', ls, r) ->
  In (ESucc m off) (snd (handle_response c ep st s r)) ->
  exists l, In l ls /\ accepted_entry l = true /\ In (m_id m) (ba_ids (rl_batch l)).
Proof.
  intros Hn Hs Hp H. unfold process in Hp.
  assert (Hr : r <> RNil).
  { destruct f as [pf| |]; cbn [process_b] in Hp.
    - destruct (serve_all br (batches_of w s) pf) as [[? ?] ?]. injection Hp as _ _ <-. discriminate.
    - injection Hp as _ _ <-. discriminate.
    - destruct (serve_all br (batches_of w s) []) as [[? ?] ?]. injection Hp as _ _ <-. discriminate. }
  destruct (success_needs_ok_block _ _ _ _ _ _ _ H Hr) as [bl [k [l [e [o [-> [Hin [Hm [Hb He]]]]]]]]].
  destruct f as [pf| |]; cbn [process_b] in Hp.
  - destruct (serve_all br (batches_of w s) pf) as [[br1 ls1] blks] eqn:E. injection Hp as _ <- <-.
    destruct (block_lookup_in _ _ _ Hb) as [k' [-> Hib]]. cbn [sane_choice] in Hs.
    destruct (serve_all_ok_block _ _ _ _ _ _ _ _ _ E Hs Hib He) as [x [H1 [H2 [H3 H4]]]].
    exists x. split; [exact H1 | split; [exact H2|]].
    destruct (batch_of_in _ _ _ H3) as [l' [Hl' Hids]]. rewrite H4 in Hl'.
    rewrite Hids. rewrite <- (parts_nodup_unique _ _ _ _ Hn Hin Hl'). apply in_map, Hm.
  - injection Hp as _ _ E. discriminate.
  - destruct (serve_all br (batches_of w s) []) as [[? ?] ?]. injection Hp as _ _ E. discriminate.
Qed.
