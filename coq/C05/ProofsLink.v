(* C05 proofs, part 5: the success link as a global invariant of the composed system: in every reachable
   state (any schedule, any sane fault script) every success event names a message of a batch the rules accepted.
   Invariant: every set a broker worker holds (buffer, bridge, in flight) has distinct partitions; every answered
   set waiting for its broker worker carries blocks that say Ok only for accepted batches. *)
From Coq Require Import List ZArith Bool Arith Lia.
From SV Require Import Producer.Msg Producer.Actors Producer.Compose
                       C05.Model C05.ProofsBroker C05.ProofsSys C05.ProofsClient.
Import ListNotations.
Open Scope Z_scope.

Definition keys_ok (s : pset) : Prop := NoDup (map fst (s_parts s)).

Definition justified (h : list rlog) (m : msg) : Prop :=
  exists x, In x h /\ accepted_entry x = true /\ In (m_id m) (ba_ids (rl_batch x)).

(* an answered set: whatever success handleResponse derives from it is justified by the history *)
Definition granted (h : list rlog) (s : pset) (r : resp) : Prop :=
  forall c ep st m o, In (ESucc m o) (snd (handle_response c ep st s r)) -> justified h m.

Record bp_ok (h : list rlog) (x : bpi) : Prop := mkBpOk {
  bo_buf : keys_ok (b_buf (i_st x));
  bo_bridge : Forall keys_ok (i_bridge x);
  bo_infl : forall s, i_infl x = Some s -> keys_ok s;
  bo_resp : Forall (fun sr => granted h (fst sr) (snd sr)) (i_resp x)
}.

Definition succ_ok (h : list rlog) (s : state) : Prop :=
  forall m o, In (Ev true m o) (g_events s) -> justified h m.

Definition link (h : list rlog) (s : state) : Prop := Forall (bp_ok h) (g_bps s) /\ succ_ok h s.

Lemma justified_mono h h' m : justified h m -> justified (h ++ h') m.
Proof. intros [x [H1 H2]]. exists x. split; [apply in_or_app; left; exact H1 | exact H2]. Qed.
Lemma granted_mono h h' s r : granted h s r -> granted (h ++ h') s r.
Proof. intros H c ep st m o Hin. apply justified_mono. eapply H, Hin. Qed.
Lemma bp_ok_mono h h' x : bp_ok h x -> bp_ok (h ++ h') x.
Proof.
  intros [H1 H2 H3 H4]. constructor; auto. eapply Forall_impl; [|exact H4]. intros [s r]. apply granted_mono.
Qed.
Lemma link_mono h h' s : link h s -> link (h ++ h') s.
Proof.
  intros [H1 H2]. split; [eapply Forall_impl; [|exact H1]; intros x; apply bp_ok_mono|].
  intros m o Hin. apply justified_mono. eapply H2, Hin.
Qed.

(* ---------------------------------------------------------------- effects *)

Definition eff_ok (h : list rlog) (e : effect) : Prop :=
  match e with
  | EBridge s => keys_ok s
  | ERbSend _ s => keys_ok s
  | ESucc m _ => justified h m
  | _ => True
  end.

Lemma Forall_bp_upd (P : bpi -> Prop) i g l : Forall P l -> (forall x, P x -> P (g x)) -> Forall P (bp_upd i g l).
Proof.
  intros H Hg. revert i. induction H as [|x l Hx Hl IH]; intros [|i]; cbn [bp_upd]; constructor; auto.
Qed.

Lemma bp_ok_ref h x : bp_ok h x -> bp_ok h (bi_ref x).
Proof. intros [H1 H2 H3 H4]. constructor; assumption. Qed.
Lemma bp_ok_unref h x : bp_ok h x -> bp_ok h (bi_unref x).
Proof. intros [H1 H2 H3 H4]. unfold bi_unref. destruct (i_refs x - 1 =? 0); constructor; assumption. Qed.
Lemma bp_ok_abandon h c x : bp_ok h x -> bp_ok h (bi_abandon c x).
Proof. intros [H1 H2 H3 H4]. constructor; assumption. Qed.
Lemma bp_ok_new h br ep : bp_ok h (bi_ref (bi_new br ep)).
Proof. constructor; cbn; try constructor. intros s H; discriminate. Qed.
Lemma bp_ok_push h x s : bp_ok h x -> keys_ok s -> bp_ok h (bi_with_bridge x (i_bridge x ++ [s]) (i_infl x) (i_resp x)).
Proof.
  intros [H1 H2 H3 H4] Hs. constructor; cbn [bi_with_bridge i_st i_bridge i_infl i_resp]; auto.
  apply Forall_app. split; [exact H2 | constructor; [exact Hs | constructor]].
Qed.

Lemma get_bp_link h s br : Forall (bp_ok h) (g_bps s) ->
  Forall (bp_ok h) (g_bps (fst (get_bp s br))) /\ g_events (fst (get_bp s br)) = g_events s.
Proof.
  intros H. unfold get_bp. destruct (find_reg br (g_bps s) 0%nat) as [i|]; cbn [fst set_bps g_bps g_events].
  - split; [apply Forall_bp_upd; [exact H | apply bp_ok_ref] | reflexivity].
  - split; [apply Forall_app; split; [exact H | constructor; [apply bp_ok_new | constructor]] | reflexivity].
Qed.

Lemma set_handle_bps s w hd : g_bps (set_handle s w hd) = g_bps s /\ g_events (set_handle s w hd) = g_events s.
Proof. unfold set_handle. destruct w; try (split; reflexivity). destruct (pp_get k (g_pps s)); split; reflexivity. Qed.

Lemma emit_succ h s e : succ_ok h s -> (forall m o, e = Ev true m o -> justified h m) ->
  succ_ok h (emit s e) /\ g_bps (emit s e) = g_bps s.
Proof.
  intros H He. unfold emit. destruct (g_closed s); [split; [exact H | reflexivity]|].
  split; [|reflexivity]. intros m o Hin. cbn [add_event g_events] in Hin. apply in_app_or in Hin as [Hin|[Hin|[]]].
  - eapply H, Hin.
  - eapply He. exact Hin.
Qed.

Lemma apply_eff_link h c w s e : link h s -> eff_ok h e -> link h (apply_eff c w s e).
Proof.
  intros [Hb Hs] He. destruct e; cbn [apply_eff eff_ok] in *.
  - (* ESend *)
    destruct d; try (split; assumption).
    destruct (handle_of s w); [|split; assumption]. destruct (nth_error (g_bps s) n); [|split; assumption].
    destruct (i_in_closed b); split; assumption.
  - (* EErr *)
    destruct (emit_succ h s (Ev false m e) Hs) as [H1 H2]; [intros; discriminate|].
    destruct (m_hasseq m); (split; [cbn; rewrite H2; exact Hb | exact H1]).
  - (* ESucc *)
    destruct (emit_succ h s (Ev true m off) Hs) as [H1 H2]; [intros m' o' E; injection E as <- _; exact He|].
    split; [cbn; rewrite H2; exact Hb | exact H1].
  - (* ERawErr *)
    destruct (emit_succ h s (Ev false m e) Hs) as [H1 H2]; [intros; discriminate|].
    split; [rewrite H2; exact Hb | exact H1].
  - split; assumption.
  - split; assumption.
  - split; assumption.
  - split; assumption.
  - split; assumption.
  - (* EUnref *)
    destruct (handle_of s w) as [b|]; [|split; assumption].
    destruct (set_handle_bps (set_bps s (bp_upd b bi_unref (g_bps s))) w None) as [E1 E2].
    split; [rewrite E1; cbn; apply Forall_bp_upd; [exact Hb | apply bp_ok_unref] | unfold succ_ok; rewrite E2; exact Hs].
  - (* EGet *)
    destruct (get_bp s broker) as [s1 b] eqn:E. destruct (get_bp_link h s broker Hb) as [G1 G2]. rewrite E in G1, G2. cbn [fst] in *.
    destruct (set_handle_bps s1 w (Some b)) as [E1 E2].
    split; [rewrite E1; exact G1 | unfold succ_ok; rewrite E2, G2; exact Hs].
  - (* EAbandon *)
    destruct (find_reg broker (g_bps s) 0%nat) as [b|]; [|split; assumption].
    split; [cbn; apply Forall_bp_upd; [exact Hb | apply bp_ok_abandon] | exact Hs].
  - (* EBridge *)
    destruct w; try (split; assumption). destruct (nth_error (g_bps s) b); [|split; assumption].
    split; [cbn; apply Forall_bp_upd; [exact Hb | intros x Hx; apply bp_ok_push; assumption] | exact Hs].
  - (* ESpawnRB *) split; assumption.
  - (* ERbSend *)
    destruct (get_bp s broker) as [s1 b] eqn:E. destruct (get_bp_link h s broker Hb) as [G1 G2]. rewrite E in G1, G2. cbn [fst] in *.
    split; [cbn; apply Forall_bp_upd; [exact G1 | intros x Hx; apply bp_ok_push; assumption] | unfold succ_ok; cbn; rewrite G2; exact Hs].
  - split; assumption.
  - split; assumption.
Qed.

Lemma apply_effs_link h c w : forall l s, link h s -> Forall (eff_ok h) l -> link h (apply_effs c w s l).
Proof.
  induction l as [|e l IH]; intros s H Hl; cbn [apply_effs fold_left]; [exact H|].
  inversion Hl; subst. apply IH; [apply apply_eff_link; assumption | assumption].
Qed.

(* ---------------------------------------------------------------- actors that never bridge, resend or succeed *)

Definition quiet (l : list effect) : bool :=
  forallb (fun e => match e with EBridge _ | ERbSend _ _ | ESucc _ _ => false | _ => true end) l.
Lemma quiet_app a b : quiet (a ++ b) = quiet a && quiet b. Proof. apply forallb_app. Qed.
Lemma quiet_ok h l : quiet l = true -> Forall (eff_ok h) l.
Proof.
  induction l as [|e l IH]; intros H; [constructor|]. cbn [quiet forallb] in H. apply andb_true_iff in H as [H1 H2].
  constructor; [destruct e; try exact I; discriminate | apply IH, H2].
Qed.

Lemma q_retry_msg c m e : quiet [retry_msg c m e] = true.
Proof. unfold retry_msg. destruct (c_retry_max c <=? m_retries m)%nat; reflexivity. Qed.
Lemma q_retry_msgs c l e : quiet (retry_msgs c l e) = true.
Proof.
  unfold retry_msgs. induction l as [|m l IH]; [reflexivity|]. cbn [map]. change (quiet ([retry_msg c m e] ++ map (fun m0 => retry_msg c m0 e) l) = true).
  rewrite quiet_app, q_retry_msg, IH. reflexivity.
Qed.
Lemma q_return_errors l e : quiet (return_errors l e) = true.
Proof. unfold return_errors. induction l; simpl; auto. Qed.
Lemma q_sends l : quiet (map (ESend DCur) l) = true.
Proof. induction l; simpl; auto. Qed.
Lemma q_all_retry c ps e : quiet (all_retry c ps e) = true.
Proof. induction ps as [|[k l] r IH]; [reflexivity|]. cbn [all_retry]. rewrite quiet_app, q_retry_msgs, IH. reflexivity. Qed.
Lemma q_all_errors ps e : quiet (all_errors ps e) = true.
Proof. induction ps as [|[k l] r IH]; [reflexivity|]. cbn [all_errors]. rewrite quiet_app, q_return_errors, IH. reflexivity. Qed.

Lemma q_apply_ics id k ics pan sz h : quiet (snd (apply_ics id k ics pan sz h)) = true.
Proof.
  revert k pan sz h. induction ics as [|ic r IH]; intros; [reflexivity|]. cbn [apply_ics].
  match goal with |- context [apply_ics id (S k) r ?a ?b ?d] => specialize (IH (S k) a b d); destruct (apply_ics id (S k) r a b d) as [res effs] end.
  cbn [snd] in *. cbn [quiet forallb]. exact IH.
Qed.
Lemma q_disp c d m : quiet (snd (disp_step c d m)) = true.
Proof.
  unfold disp_step. destruct (is_shut m); [reflexivity|]. destruct (fresh_pass m && d_shut d); [reflexivity|].
  assert (P : quiet (if fresh_pass m then [EAccept m] else []) = true) by (destruct (fresh_pass m); reflexivity).
  set (doic := if c_fix_ic c then fresh_pass m && is_data m else true). destruct doic.
  - pose proof (q_apply_ics (m_id m) 0%nat (c_ics c) (m_ipanic m) (m_size m) (m_hdr m)) as H1.
    destruct (apply_ics _ _ _ _ _ _) as [[sz h] ics]. cbn [snd] in *.
    destruct (negb (c_v2 c) && h); [|destruct (c_max_msg_bytes c <? sz)]; cbn [snd]; rewrite !quiet_app, P, H1; reflexivity.
  - destruct (negb (c_v2 c) && m_hdr m); [|destruct (c_max_msg_bytes c <? m_size m)]; cbn [snd]; rewrite !quiet_app, P; reflexivity.
Qed.
Lemma q_tp m : quiet (tp_step m) = true.
Proof. unfold tp_step. destruct (fresh_pass m); [destruct (0 <=? m_pres m)|]; reflexivity. Qed.

Lemma q_flush_sends c t p ep : forall buf sq, quiet (fst (flush_sends c t p sq ep buf)) = true.
Proof.
  induction buf as [|m r IH]; intros sq; [reflexivity|]. cbn [flush_sends].
  destruct (c_idem c && fresh_pass m && is_data m && negb (m_hasseq m)).
  - specialize (IH (sq + 1)). destruct (flush_sends c t p (sq + 1) ep r) as [e sq']. cbn [fst] in *. exact IH.
  - specialize (IH sq). destruct (flush_sends c t p sq ep r) as [e sq']. cbn [fst] in *. exact IH.
Qed.

Lemma q_flush c t p : forall h hasbp leader lv stamp ls, quiet (snd (flush c t p h hasbp leader lv stamp ls)) = true.
Proof.
  induction h as [|h' IH]; intros; [reflexivity|]. cbn [flush].
  pose proof (q_flush_sends c t p (snd stamp) (l_buf (get_level h' lv)) (fst stamp)) as Qs.
  destruct (flush_sends c t p (fst stamp) (snd stamp) (l_buf (get_level h' lv))) as [es sq'] eqn:Es. cbn [fst] in Qs.
  destruct hasbp.
  - destruct (l_chaser (get_level h' lv) || (h' =? 0)%nat); cbn [snd]; [exact Qs|].
    match goal with |- context [flush c t p h' true leader (set_buf h' [] lv) ?sx ls] =>
      specialize (IH true leader (set_buf h' [] lv) sx ls); destruct (flush c t p h' true leader (set_buf h' [] lv) sx ls) as [res e2] end.
    cbn [snd] in *. rewrite quiet_app, Qs, IH. reflexivity.
  - destruct (next_lres ls) as [[b|e] r].
    + destruct (l_chaser (get_level h' lv) || (h' =? 0)%nat); cbn [snd]; [rewrite quiet_app, Qs; reflexivity|].
      match goal with |- context [flush c t p h' true b (set_buf h' [] lv) ?sx r] =>
        specialize (IH true b (set_buf h' [] lv) sx r); destruct (flush c t p h' true b (set_buf h' [] lv) sx r) as [res e2] end.
      cbn [snd] in *. rewrite !quiet_app, Qs, IH. reflexivity.
    + destruct (l_chaser (get_level h' lv) || (h' =? 0)%nat); cbn [snd]; [apply q_return_errors|].
      match goal with |- context [flush c t p h' false leader (set_buf h' [] lv) ?sx r] =>
        specialize (IH false leader (set_buf h' [] lv) sx r); destruct (flush c t p h' false leader (set_buf h' [] lv) sx r) as [res e2] end.
      cbn [snd] in *. rewrite quiet_app, q_return_errors, IH. reflexivity.
Qed.

Lemma q_pp_forward c t p st m stamp ls pre : quiet pre = true ->
  quiet (snd (pp_forward c t p st m stamp ls pre)) = true.
Proof.
  intros Hp. unfold pp_forward. destruct (p_has_bp st).
  - destruct (c_idem c && fresh_pass m && is_data m); cbn [snd]; rewrite !quiet_app, Hp; reflexivity.
  - destruct (next_lres ls) as [[b|e] r].
    + destruct (c_idem c && fresh_pass m && is_data m); cbn [snd]; rewrite !quiet_app, Hp; reflexivity.
    + cbn [snd]. rewrite quiet_app, Hp. reflexivity.
Qed.

Lemma q_pp c t p st m ab stamp ls : quiet (snd (pp_step c t p st m ab stamp ls)) = true.
Proof.
  unfold pp_step.
  set (e1 := if p_has_bp st && ab then [EUnref] else []).
  assert (He1 : quiet e1 = true) by (subst e1; destruct (p_has_bp st && ab); reflexivity).
  set (st1 := if p_has_bp st && ab then _ else st).
  destruct (p_hwm st1 <? m_retries m)%nat.
  - assert (HG : match pp_guard c t p st1 ls with inl (stg, eg, ls1) => quiet eg = true | inr _ => True end)
      by (unfold pp_guard; destruct (p_has_bp st1); [reflexivity|]; destruct (next_lres ls) as [[b|e] r]; [reflexivity | exact I]).
    destruct (pp_guard c t p st1 ls) as [[[stg eg] ls1]|e].
    + destruct (c_retry_max c <? m_retries m)%nat; [cbn [snd]; rewrite !quiet_app, He1, HG; reflexivity|].
      apply q_pp_forward. rewrite !quiet_app, He1, HG. reflexivity.
    + cbn [snd]. rewrite quiet_app, He1. reflexivity.
  - destruct (0 <? p_hwm st1)%nat; [|apply q_pp_forward, He1].
    destruct (m_retries m <? p_hwm st1)%nat.
    + destruct (length (p_levels st1) <=? m_retries m)%nat; [cbn [snd]; rewrite quiet_app, He1; reflexivity|].
      destruct (is_fin m); cbn [snd]; [|exact He1]. rewrite quiet_app, He1. reflexivity.
    + destruct (is_fin m); [|apply q_pp_forward, He1].
      pose proof (q_flush c t p (p_hwm st1) (p_has_bp st1) (p_leader st1) (set_chaser (p_hwm st1) false (p_levels st1)) stamp ls) as Hfl.
      destruct (flush c t p (p_hwm st1) (p_has_bp st1) (p_leader st1) _ stamp ls) as [[[[h' hasbp] leader] lv'] effs].
      cbn [snd] in *. rewrite !quiet_app, He1, Hfl. reflexivity.
Qed.
Lemma q_pp_init c t p l : quiet (snd (pp_init c t p l)) = true.
Proof. destruct l; reflexivity. Qed.

Lemma rb_eff_ok h c ep k ms e l : Forall (eff_ok h) (rb_step c ep k ms e l).
Proof.
  unfold rb_step. destruct (first_exhausted c ms).
  - destruct (c_fix_rb c); [apply quiet_ok, q_return_errors | constructor; [exact I | constructor]].
  - destruct l; [|apply quiet_ok, q_return_errors].
    constructor; [|constructor]. cbn [eff_ok]. unfold keys_ok. cbn. constructor; [intros [] | constructor].
Qed.

(* ---------------------------------------------------------------- the broker worker *)

Lemma part_add_keys k m ps : map fst (part_add k m ps) = if existsb (tpk_eqb k) (map fst ps) then map fst ps else map fst ps ++ [k].
Proof.
  induction ps as [|[k' l] r IH]; cbn [part_add map fst existsb app]; [reflexivity|].
  destruct (tpk_eqb k k') eqn:E; cbn [map fst orb]; [reflexivity|].
  rewrite IH. destruct (existsb (tpk_eqb k) (map fst r)); reflexivity.
Qed.
Lemma keys_ok_add k m (ps : list (tpk * list msg)) : NoDup (map fst ps) -> NoDup (map fst (part_add k m ps)).
Proof.
  intros Hn. rewrite part_add_keys. destruct (existsb (tpk_eqb k) (map fst ps)) eqn:E; [exact Hn|].
  apply NoDup_app_intro; [exact Hn | constructor; [intros [] | constructor] |].
  intros x Hx [<-|[]]. assert (existsb (tpk_eqb k) (map fst ps) = true); [|congruence].
  apply existsb_exists. exists k. split; [exact Hx | apply tpk_eqb_refl].
Qed.
Lemma part_drop_incl k (ps : list (tpk * list msg)) x : In x (map fst (part_drop k ps)) -> In x (map fst ps).
Proof.
  induction ps as [|[k' l] r IH]; cbn [part_drop map fst]; [auto|].
  destruct (tpk_eqb k k'); cbn [map fst]; [intros H; right; exact H | intros [H|H]; [left; exact H | right; apply IH, H]].
Qed.
Lemma keys_ok_drop k (ps : list (tpk * list msg)) : NoDup (map fst ps) -> NoDup (map fst (part_drop k ps)).
Proof.
  induction ps as [|[k' l] r IH]; cbn [part_drop map fst]; intros Hn; [exact Hn|]. inversion Hn as [|? ? Hx Hn']; subst.
  destruct (tpk_eqb k k'); cbn [map fst]; [exact Hn'|]. constructor; [intros H; apply Hx, (part_drop_incl _ _ _ H) | apply IH, Hn'].
Qed.

Definition quiet2 (l : list effect) : bool :=
  forallb (fun e => match e with EBridge _ | ERbSend _ _ => false | _ => true end) l.
Lemma quiet2_app a b : quiet2 (a ++ b) = quiet2 a && quiet2 b. Proof. apply forallb_app. Qed.
Lemma quiet_quiet2 l : quiet l = true -> quiet2 l = true.
Proof.
  induction l as [|e l IH]; [reflexivity|]. cbn [quiet quiet2 forallb]. intros H. apply andb_true_iff in H as [H1 H2].
  fold (quiet2 l). rewrite (IH H2), andb_true_r. destruct e; try reflexivity; discriminate.
Qed.
Lemma quiet2_ok h l : quiet2 l = true -> (forall m o, In (ESucc m o) l -> justified h m) -> Forall (eff_ok h) l.
Proof.
  induction l as [|e l IH]; intros H Hs; [constructor|]. cbn [quiet2 forallb] in H. apply andb_true_iff in H as [H1 H2].
  constructor; [|apply IH; [exact H2 | intros m o Hin; eapply Hs; right; exact Hin]].
  destruct e; try exact I; try discriminate. cbn [eff_ok]. eapply Hs. left. reflexivity.
Qed.
Lemma q2_successes l b : quiet2 (successes l b) = true.
Proof. revert b; induction l; intros; simpl; auto. Qed.

Lemma q2_hs_phase1 c b r ps : quiet2 (hs_phase1 c b r ps) = true.
Proof.
  induction ps as [|[k l] rest IH]; [reflexivity|]. cbn [hs_phase1]. rewrite quiet2_app, IH, andb_true_r.
  destruct r as [e enc| |bl]; [reflexivity|apply q2_successes|].
  destruct (block_lookup k bl) as [[e off]|]; [|apply quiet_quiet2, q_return_errors].
  destruct (e =? 0); [apply q2_successes|]. destruct (e =? E_DUPLICATE); [apply q2_successes|].
  destruct (retriable e); destruct (c_retry_max c =? 0)%nat; cbn [app]; try reflexivity;
    try (apply quiet_quiet2, q_return_errors);
    change (quiet2 ([EAbandon b] ++ return_errors l e) = true); rewrite quiet2_app; cbn [quiet2 forallb andb];
    apply quiet_quiet2, q_return_errors.
Qed.
Lemma q2_hs_phase2 c bl : forall ps cur buf, quiet2 (snd (hs_phase2 c bl ps cur buf)) = true.
Proof.
  induction ps as [|[k l] r IH]; intros; [reflexivity|]. cbn [hs_phase2].
  destruct (block_lookup k bl) as [[e off]|]; [|apply IH]. destruct (retriable e); [|apply IH].
  specialize (IH (cur_set k e cur) (part_drop k buf)).
  destruct (hs_phase2 c bl r (cur_set k e cur) (part_drop k buf)) as [[cur' buf'] effs']. cbn [snd] in *.
  rewrite !quiet2_app, IH, (quiet_quiet2 _ (q_retry_msgs c _ e)). destruct (c_idem c); [reflexivity|].
  rewrite (quiet_quiet2 _ (q_retry_msgs c l e)). reflexivity.
Qed.
Lemma hs_phase2_keys c bl : forall ps cur buf, NoDup (map fst buf) ->
  NoDup (map fst (snd (fst (hs_phase2 c bl ps cur buf)))).
Proof.
  induction ps as [|[k l] r IH]; intros cur buf Hn; [exact Hn|]. cbn [hs_phase2].
  destruct (block_lookup k bl) as [[e off]|]; [|apply IH, Hn]. destruct (retriable e); [|apply IH, Hn].
  specialize (IH (cur_set k e cur) (part_drop k buf) (keys_ok_drop k buf Hn)).
  destruct (hs_phase2 c bl r (cur_set k e cur) (part_drop k buf)) as [[cur' buf'] effs']. cbn [fst snd] in *. exact IH.
Qed.

Lemma q2_handle_response c ep st sent r : quiet2 (snd (handle_response c ep st sent r)) = true.
Proof.
  unfold handle_response.
  assert (HX : forall X : bp * list effect, quiet2 (snd X) = true ->
     quiet2 (snd (let '(st1, effs) := X in if set_empty (b_buf st1) then (rollover st1 (ep + bumps effs), effs) else (st1, effs))) = true).
  { intros [st1 effs] H. destruct (set_empty (b_buf st1)); exact H. }
  apply HX. destruct r as [e [|]| |bl]; cbn [snd].
  - apply quiet_quiet2, q_all_errors.
  - change (quiet2 ([EAbandon (b_broker st)] ++ all_retry c (s_parts sent) e ++ all_retry c (s_parts (b_buf st)) e) = true).
    rewrite !quiet2_app, !(quiet_quiet2 _ (q_all_retry c _ e)). reflexivity.
  - apply q2_hs_phase1.
  - destruct (c_retry_max c =? 0)%nat; [apply q2_hs_phase1|].
    pose proof (q2_hs_phase2 c bl (s_parts sent) (b_cur st) (s_parts (b_buf st))) as H2.
    destruct (hs_phase2 c bl (s_parts sent) (b_cur st) (s_parts (b_buf st))) as [[cur buf] e2]. cbn [snd] in *.
    rewrite quiet2_app, q2_hs_phase1, H2. reflexivity.
Qed.

Lemma handle_response_keys c ep st sent r : keys_ok (b_buf st) -> keys_ok (b_buf (fst (handle_response c ep st sent r))).
Proof.
  intros Hk. unfold handle_response.
  assert (HX : forall X : bp * list effect, keys_ok (b_buf (fst X)) ->
     keys_ok (b_buf (fst (let '(st1, effs) := X in if set_empty (b_buf st1) then (rollover st1 (ep + bumps effs), effs) else (st1, effs))))).
  { intros [st1 effs] H. destruct (set_empty (b_buf st1)); [constructor | exact H]. }
  apply HX. destruct r as [e [|]| |bl]; cbn [fst]; try exact Hk.
  - constructor.
  - destruct (c_retry_max c =? 0)%nat; [exact Hk|].
    pose proof (hs_phase2_keys c bl (s_parts sent) (b_cur st) (s_parts (b_buf st)) Hk) as H2.
    destruct (hs_phase2 c bl (s_parts sent) (b_cur st) (s_parts (b_buf st))) as [[cur buf] e2]. cbn [fst snd] in *. exact H2.
Qed.

Lemma do_add_link c st m : keys_ok (b_buf st) ->
  keys_ok (b_buf (fst (fst (do_add c st m)))) /\ quiet (snd (fst (do_add c st m))) = true.
Proof.
  intros Hk. unfold do_add. destruct (m_encfail m); [split; [exact Hk | reflexivity]|].
  match goal with |- context [if ?b then _ else _] => destruct b end; cbn [fst snd]; (split; [|reflexivity]); [exact Hk|].
  unfold keys_ok. cbn [b_buf s_parts]. apply keys_ok_add, Hk.
Qed.
Lemma after_over_link c st m : keys_ok (b_buf st) ->
  keys_ok (b_buf (fst (fst (after_over c st m)))) /\ quiet (snd (fst (after_over c st m))) = true.
Proof.
  intros Hk. unfold after_over. destruct (c_idem c && negb (s_epoch (b_buf st) =? m_epoch m)); [split; [exact Hk | reflexivity] | apply do_add_link, Hk].
Qed.
Lemma recv_data_link c st m : keys_ok (b_buf st) ->
  keys_ok (b_buf (fst (fst (recv_data c st m)))) /\ quiet (snd (fst (recv_data c st m))) = true.
Proof.
  intros Hk. unfold recv_data. destruct (would_overflow c (b_buf st) m); [split; [exact Hk | reflexivity] | apply after_over_link, Hk].
Qed.

Lemma quiet_eff_ok_app h a b : Forall (eff_ok h) a -> quiet b = true -> Forall (eff_ok h) (a ++ b).
Proof. intros Ha Hb. apply Forall_app. split; [exact Ha | apply quiet_ok, Hb]. Qed.

Lemma bp_core_link h c ep st i : keys_ok (b_buf st) ->
  (forall sent r, i = BResp sent r -> granted h sent r) ->
  keys_ok (b_buf (fst (fst (bp_core c ep st i)))) /\ Forall (eff_ok h) (snd (fst (bp_core c ep st i))).
Proof.
  intros Hk Hg. unfold bp_core. destruct i as [m| | | |sent r].
  - destruct (b_mode st); try (split; [exact Hk | constructor; [exact I | constructor]]).
    destruct (b_wait st); try (split; [exact Hk | constructor; [exact I | constructor]]).
    destruct (is_syn m); [split; [exact Hk | constructor; [exact I | constructor]]|].
    destruct (needs_retry st m).
    + cbn [fst snd]. split; [destruct (b_closing st); [|destruct (is_fin m)]; exact Hk | apply quiet_ok, q_retry_msg].
    + destruct (is_fin m); [cbn [fst snd]; split; [exact Hk | apply quiet_ok, q_retry_msg]|].
      destruct (recv_data_link c st m Hk) as [H1 H2]. split; [exact H1 | apply quiet_ok, H2].
  - destruct (b_mode st), (b_wait st); (split; [exact Hk | constructor]).
  - destruct (b_timer st && flush_poll st); (split; [exact Hk | constructor]).
  - destruct (flush_enabled st); [|split; [exact Hk | constructor]].
    assert (Hk1 : keys_ok (b_buf (with_wait (rollover st ep) WNone))) by constructor.
    destruct (b_wait st) as [|m|m]; cbn [fst snd].
    + split; [constructor | constructor; [exact Hk | constructor]].
    + destruct (after_over_link c (with_wait (rollover st ep) WNone) m Hk1) as [H1 H2].
      destruct (after_over c (with_wait (rollover st ep) WNone) m) as [[st2 e2] u]. cbn [fst snd] in *.
      split; [exact H1 | constructor; [exact Hk | apply quiet_ok, H2]].
    + destruct (do_add_link c (with_wait (rollover st ep) WNone) m Hk1) as [H1 H2].
      destruct (do_add c (with_wait (rollover st ep) WNone) m) as [[st2 e2] u]. cbn [fst snd] in *.
      split; [exact H1 | constructor; [exact Hk | apply quiet_ok, H2]].
  - pose proof (handle_response_keys c ep st sent r Hk) as K1.
    assert (E1 : Forall (eff_ok h) (snd (handle_response c ep st sent r))).
    { apply quiet2_ok; [apply q2_handle_response|]. intros m o Hin. eapply (Hg sent r eq_refl), Hin. }
    destruct (handle_response c ep st sent r) as [st1 effs]. cbn [fst snd] in *.
    destruct (b_wait st1) as [|m|m] eqn:Ew; cbn [fst snd]; [split; assumption| |].
    + destruct (needs_retry st1 m); [cbn [fst snd]; split; [exact K1 | apply quiet_eff_ok_app; [exact E1 | apply q_retry_msg]]|].
      destruct (would_overflow c (b_buf st1) m); [split; assumption|].
      assert (Kw : keys_ok (b_buf (with_wait st1 WNone))) by exact K1.
      destruct (after_over_link c (with_wait st1 WNone) m Kw) as [H1 H2].
      destruct (after_over c (with_wait st1 WNone) m) as [[st2 e2] u]. cbn [fst snd] in *.
      split; [exact H1 | apply quiet_eff_ok_app; assumption].
    + destruct (needs_retry st1 m); cbn [fst snd]; [split; [exact K1 | apply quiet_eff_ok_app; [exact E1 | apply q_retry_msg]] | split; assumption].
Qed.

Lemma bp_step_link h c ep st i : keys_ok (b_buf st) ->
  (forall sent r, i = BResp sent r -> granted h sent r) ->
  keys_ok (b_buf (fst (bp_step c ep st i))) /\ Forall (eff_ok h) (snd (bp_step c ep st i)).
Proof.
  intros Hk Hg. destruct (bp_core_link h c ep st i Hk Hg) as [H1 H2]. unfold bp_step.
  destruct (bp_core c ep st i) as [[st' effs] upd]. cbn [fst snd] in *. split; [|exact H2].
  assert (Hd : forall x, keys_ok (b_buf x) -> keys_ok (b_buf (drain_check x))).
  { intros x Hx. unfold drain_check. destruct (b_mode x); try exact Hx. destruct (set_empty (b_buf x)); exact Hx. }
  apply Hd. destruct upd; [|exact H1]. unfold end_iter. destruct (b_mode st'); try exact H1. destruct (b_wait st'); exact H1.
Qed.

(* ---------------------------------------------------------------- one step of the composition *)

Lemma link_same h s s' : g_bps s' = g_bps s -> g_events s' = g_events s -> link h s -> link h s'.
Proof. intros E1 E2 [H1 H2]. split; [rewrite E1; exact H1 | unfold succ_ok; rewrite E2; exact H2]. Qed.

Lemma pop_frame d s m s1 : pop d s = Some (m, s1) -> g_bps s1 = g_bps s /\ g_events s1 = g_events s.
Proof. unfold pop. destruct (q_get d (g_q s)); [discriminate|]. intros H; injection H as _ <-. split; reflexivity. Qed.

Lemma Forall_bp_upd_nth (P : bpi -> Prop) g : forall l i x, Forall P l -> nth_error l i = Some x -> P (g x) -> Forall P (bp_upd i g l).
Proof.
  induction l as [|y l IH]; intros [|i] x HF Hn Hp; cbn [bp_upd nth_error] in *; try discriminate.
  - injection Hn as ->. inversion HF; subst. constructor; assumption.
  - inversion HF; subst. constructor; [assumption | eapply IH; eassumption].
Qed.
Lemma Forall_nth (P : bpi -> Prop) : forall l i x, Forall P l -> nth_error l i = Some x -> P x.
Proof. intros l i x HF Hn. rewrite Forall_forall in HF. apply HF. eapply nth_error_In, Hn. Qed.

Lemma run_bp_link h c s b x i : link h s -> nth_error (g_bps s) b = Some x ->
  (forall sent r, i = BResp sent r -> granted h sent r) -> link h (run_bp c s b x i).
Proof.
  intros [Hb Hs] Hn Hg. unfold run_bp.
  pose proof (Forall_nth _ _ _ _ Hb Hn) as [X1 X2 X3 X4].
  destruct (bp_step_link h c (g_epoch s) (i_st x) i X1 Hg) as [K E].
  destruct (bp_step c (g_epoch s) (i_st x) i) as [st' effs]. cbn [fst snd] in *.
  apply apply_effs_link; [|exact E]. split; [|exact Hs]. cbn [set_bps g_bps].
  eapply Forall_bp_upd_nth; [exact Hb | exact Hn |]. constructor; assumption.
Qed.

Lemma run_pp_link h c s k x m ls : link h s -> link h (run_pp c s k x m ls).
Proof.
  intros H. unfold run_pp.
  pose proof (q_pp c (fst k) (snd k) (pr_st x) m
    (match pr_h x with Some b => match nth_error (g_bps s) b with Some y => i_aband y | None => false end | None => false end)
    (seq_get k (g_seqs s), g_epoch s) ls) as Q.
  destruct (pp_step c (fst k) (snd k) (pr_st x) m _ (seq_get k (g_seqs s), g_epoch s) ls) as [st' effs]. cbn [snd] in Q.
  apply apply_effs_link; [|apply quiet_ok, Q]. eapply link_same; [| |exact H]; reflexivity.
Qed.

Lemma raw_step_link h c s ch : link h s -> is_answer ch = false -> link h (raw_step c s ch).
Proof.
  intros H Ha. destruct ch; cbn [raw_step is_answer] in *; try discriminate.
  - (* CSubmit *) destruct (g_close_req s); [exact H | eapply link_same; [| |exact H]; reflexivity].
  - (* CAsyncClose *) destruct (g_close_req s); [exact H | eapply link_same; [| |exact H]; reflexivity].
  - (* CDisp *)
    destruct (pop DDisp s) as [[m s1]|] eqn:E; [|exact H]. destruct (pop_frame _ _ _ _ E) as [F1 F2].
    pose proof (q_disp c (g_disp s1) m) as Q. destruct (disp_step c (g_disp s1) m) as [d' effs]. cbn [snd] in Q.
    apply apply_effs_link; [|apply quiet_ok, Q]. eapply link_same; [| |exact H]; cbn; assumption.
  - (* CTp *)
    destruct (pop (DTopic t) s) as [[m s1]|] eqn:E; [|exact H]. destruct (pop_frame _ _ _ _ E) as [F1 F2].
    apply apply_effs_link; [|apply quiet_ok, q_tp]. eapply link_same; [| |exact H]; assumption.
  - (* CPp *)
    destruct (pop (DPart t p) s) as [[m s1]|] eqn:E; [|exact H]. destruct (pop_frame _ _ _ _ E) as [F1 F2].
    assert (H1 : link h s1) by (eapply link_same; [| |exact H]; assumption).
    destruct (pp_get (t, p) (g_pps s1)); [apply run_pp_link, H1|].
    destruct (next_lres ls) as [l0 ls'].
    pose proof (q_pp_init c t p l0) as Q. destruct (pp_init c t p l0) as [st0 effs0]. cbn [snd] in Q.
    apply run_pp_link. apply apply_effs_link; [|apply quiet_ok, Q]. eapply link_same; [| |exact H1]; reflexivity.
  - (* CBpRecv *)
    destruct (nth_error (g_bps s) b) as [x|] eqn:En; [|exact H]. destruct (flush_poll (i_st x)); [|exact H].
    destruct (pop (DBp b) s) as [[m s1]|] eqn:E.
    + destruct (pop_frame _ _ _ _ E) as [F1 F2]. apply run_bp_link; [eapply link_same; [| |exact H]; assumption | rewrite F1; exact En | intros; discriminate].
    + destruct (i_in_closed x); [|exact H]. apply run_bp_link; [exact H | exact En | intros; discriminate].
  - (* CBpTimer *)
    destruct (nth_error (g_bps s) b) as [x|] eqn:En; [|exact H]. apply run_bp_link; [exact H | exact En | intros; discriminate].
  - (* CBpFlush *)
    destruct (nth_error (g_bps s) b) as [x|] eqn:En; [|exact H]. apply run_bp_link; [exact H | exact En | intros; discriminate].
  - (* CBridge *)
    destruct (nth_error (g_bps s) b) as [x|] eqn:En; [|exact H].
    destruct (i_infl x) eqn:Ei; [exact H|]. destruct (i_bridge x) as [|st r] eqn:Eb; [exact H|].
    destruct H as [Hb Hs]. split; [|exact Hs]. cbn [set_bps g_bps].
    pose proof (Forall_nth _ _ _ _ Hb En) as [X1 X2 X3 X4]. rewrite Eb in X2. inversion X2; subst.
    eapply Forall_bp_upd_nth; [exact Hb | exact En |]. constructor; cbn [bi_with_bridge i_st i_bridge i_infl i_resp]; auto.
    intros s0 E0. injection E0 as <-. assumption.
  - (* CBpResp *)
    destruct (nth_error (g_bps s) b) as [x|] eqn:En; [|exact H].
    destruct (i_resp x) as [|[st r] rest] eqn:Er; [exact H|].
    destruct H as [Hb Hs]. pose proof (Forall_nth _ _ _ _ Hb En) as [X1 X2 X3 X4]. rewrite Er in X4. inversion X4 as [|? ? G1 G2]; subst.
    set (s1 := set_bps s (bp_upd b (fun y => bi_with_bridge y (i_bridge y) (i_infl y) rest) (g_bps s))).
    assert (H1 : link h s1).
    { split; [|exact Hs]. cbn [s1 set_bps g_bps]. eapply Forall_bp_upd_nth; [exact Hb | exact En |]. constructor; assumption. }
    destruct (nth_error (g_bps s1) b) as [x1|] eqn:En1; [|split; assumption].
    apply run_bp_link; [exact H1 | exact En1 |]. intros sent r0 E. injection E as <- <-. exact G1.
  - (* CRb *)
    destruct (nth_error (g_rbs s) i) as [t|]; [|exact H].
    apply apply_effs_link; [eapply link_same; [| |exact H]; reflexivity | apply rb_eff_ok].
  - (* CRetry *)
    destruct (pop DRetry s) as [[m s1]|] eqn:E; [|exact H]. destruct (pop_frame _ _ _ _ E) as [F1 F2].
    eapply link_same; [| |exact H]; cbn; assumption.
  - (* CShutWake *) destruct (g_close_req s && negb (g_woken s) && (g_inflight s =? 0)); [eapply link_same; [| |exact H]; reflexivity | exact H].
  - (* CShutClose *) destruct (g_woken s && negb (g_closed s)); [eapply link_same; [| |exact H]; reflexivity | exact H].
Qed.

Lemma step_wrap h c s ch : link h s -> link h (raw_step c s ch) -> link h (step c s ch).
Proof.
  intros H Hr. unfold step. destruct (g_panic s); [exact H|].
  destruct (g_panic (raw_step c s ch)); [eapply link_same; [| |exact H]; reflexivity | exact Hr].
Qed.

Lemma answer_link h ls c s b x st f w br br' r : link h s -> nth_error (g_bps s) b = Some x -> i_infl x = Some st ->
  sane_choice (YDeliver b f) = true -> process w br st f = (br', ls, r) ->
  link (h ++ ls) (step c s (CAnswer b r)).
Proof.
  intros H En Ei Hs Hp. apply step_wrap; [apply link_mono, H|]. cbn [raw_step]. rewrite En, Ei.
  destruct H as [Hb Hsu]. pose proof (Forall_nth _ _ _ _ Hb En) as [X1 X2 X3 X4].
  split; [|intros m o Hin; apply justified_mono; eapply Hsu, Hin]. cbn [set_bps g_bps].
  eapply Forall_bp_upd_nth; [eapply Forall_impl; [|exact Hb]; intros y; apply bp_ok_mono | exact En |].
  constructor; cbn [bi_with_bridge i_st i_bridge i_infl i_resp]; auto; [intros s0 E0; discriminate|].
  apply Forall_app. split; [eapply Forall_impl; [|exact X4]; intros [s0 r0]; apply granted_mono|].
  constructor; [|constructor]. cbn [fst snd]. intros c0 ep0 st0 m o Hin.
  destruct (success_needs_accept c0 ep0 st0 w br st f br' ls r m o (X3 _ Ei) Hs Hp Hin) as [l [L1 [L2 L3]]].
  exists l. split; [apply in_or_app; right; exact L1 | split; assumption].
Qed.

Definition ylink (y : sys) : Prop := link (y_hist y) (y_st y).

Lemma ystep_link c y ch : ylink y -> sane_choice ch = true -> ylink (ystep c y ch).
Proof.
  intros H Hs. destruct ch as [ch|b f]; cbn [ystep].
  - destruct (is_answer ch) eqn:Ea; [exact H|]. unfold ylink. cbn [y_hist y_st].
    apply step_wrap; [exact H | apply raw_step_link; assumption].
  - destruct (g_panic (y_st y)) eqn:Ep; [exact H|].
    destruct (nth_error (g_bps (y_st y)) b) as [x|] eqn:En; [|exact H].
    destruct (i_infl x) as [s|] eqn:Ei; [|exact H].
    destruct (process (y_wire y) (y_br y) s f) as [[br' ls] r] eqn:E.
    unfold ylink. cbn [y_hist y_st]. eapply answer_link; eassumption.
Qed.

(* every success event of every reachable state names a message of a batch the rules accepted *)
Theorem success_link c sched : forallb sane_choice sched = true ->
  forall m o, In (Ev true m o) (g_events (y_st (yrun c sched))) -> justified (y_hist (yrun c sched)) m.
Proof.
  intros Hs. assert (H : ylink (yrun c sched)).
  { unfold yrun. assert (H0 : ylink yinit) by (split; [constructor | intros m o []]).
    revert H0 Hs. generalize yinit. induction sched as [|ch r IH]; intros y H0 Hs; cbn [fold_left]; [exact H0|].
    cbn [forallb] in Hs. apply andb_true_iff in Hs as [Hs1 Hs2]. apply IH; [apply ystep_link; assumption | exact Hs2]. }
  exact (proj2 H).
Qed.

(* the partial theorem with the client's view: no id twice, and every message REPORTED SUCCESSFUL is in the logs exactly once *)
Theorem no_duplicate_partial c sched :
  let y := yrun c sched in
  forallb sane_choice sched = true -> consistent (hist_claims (y_hist y)) -> no_duplicate_at y.
Proof.
  intros y Hs Hc. destruct (no_duplicate_consistent c sched Hc) as [H1 H2]. fold y in H1, H2. split; [exact H1|].
  intros i Hi. unfold success_ids in Hi. apply in_map_iff in Hi as [e [<- He]]. apply filter_In in He as [He Hf].
  destruct e as [ok m o]. destruct ok; [|discriminate]. cbn [ev_msg].
  destruct (success_link c sched Hs m o He) as [l [L1 [L2 L3]]]. eapply H2; eassumption.
Qed.
