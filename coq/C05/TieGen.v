(* C05 — the transaction-manager model and the configuration hypothesis equal the definitions regenerated from
   async_producer.go / config.go by decgen (goldens coq/Gen/DecC01.v, DecC05.v; every check regenerates them from the
   tree under test and proves them equal to the goldens, coq/Tie/DecEq_C01.v / DecEq_C05.v).
   Chain: source =[regenerate] SVB.Dec =[deceq lemmas] SV.Gen.Dec =[below] C05.Model (txn_stamp, txn_bump, idem_cfg).

   Adapter.  The code keys sequenceNumbers by fmt.Sprintf("%s-%d", topic, partition); the generated definition keeps
   that key unevaluated as (format, topic, partition) and compares all three.  The model keys by (topic id, partition).
   [name] is any injective naming of the model's topic ids by strings; [rep name t ep sm] says that the Go map [sm]
   with epoch [ep] represents the model state [t].  Sequence numbers are int32 and the epoch int16 in the code: the
   lemmas assume no wrap-around (sequence < 2^31 - 1, epoch < 2^15 - 1). *)
From Coq Require Import List ZArith Bool String Lia.
From SV Require Import Gen.GoInt Gen.DecTypes Gen.DecTypes2 Gen.DecC01 Gen.DecC05
                       Producer.Msg Producer.Actors Producer.Compose C05.Model C05.ProofsBroker C05.ProofsSys.
Import ListNotations.
Open Scope Z_scope.

Definition FMT : string := "%s-%d"%string.
Definition gkey (name : Z -> string) (k : tpk) : seqkey := seq_key FMT (name (fst k)) (snd k).

Definition rep (name : Z -> string) (t : txn) (ep : Z) (sm : seqmap) : Prop :=
  ep = fst t /\ forall k, seqmap_get sm (gkey name k) = seq_get k (snd t).

Lemma seqkey_eqb_eq a b : seqkey_eqb a b = true <-> a = b.
Proof.
  destruct a as [[f1 t1] p1], b as [[f2 t2] p2]. unfold seqkey_eqb.
  rewrite !andb_true_iff, !String.eqb_eq, Z.eqb_eq. split; [intros [[-> ->] ->]; reflexivity | intros E; injection E; auto].
Qed.
Lemma seqkey_eqb_refl a : seqkey_eqb a a = true. Proof. apply seqkey_eqb_eq; reflexivity. Qed.

Lemma seqmap_get_set_same m k v : seqmap_get (seqmap_set m k v) k = v.
Proof.
  induction m as [|[k' v'] r IH]; cbn [seqmap_set seqmap_get]; [rewrite seqkey_eqb_refl; reflexivity|].
  destruct (seqkey_eqb k k') eqn:E; cbn [seqmap_get]; [rewrite seqkey_eqb_refl; reflexivity | rewrite E; exact IH].
Qed.
Lemma seqmap_get_set_other m k k' v : k' <> k -> seqmap_get (seqmap_set m k v) k' = seqmap_get m k'.
Proof.
  intros N. assert (Nb : forall x, x = k -> seqkey_eqb k' x = false).
  { intros x ->. destruct (seqkey_eqb k' k) eqn:E; [apply seqkey_eqb_eq in E; contradiction | reflexivity]. }
  induction m as [|[k2 v2] r IH]; cbn [seqmap_set seqmap_get]; [rewrite (Nb k eq_refl); reflexivity|].
  destruct (seqkey_eqb k k2) eqn:E; cbn [seqmap_get].
  - apply seqkey_eqb_eq in E. subst k2. rewrite (Nb k eq_refl). reflexivity.
  - destruct (seqkey_eqb k' k2); [reflexivity | exact IH].
Qed.

Lemma gkey_inj name : (forall a b, name a = name b -> a = b) -> forall k k', gkey name k = gkey name k' -> k = k'.
Proof.
  intros Hn [t p] [t' p'] E. unfold gkey, seq_key in E. cbn [fst snd] in E. injection E as E1 E2. apply Hn in E1. congruence.
Qed.

(* getAndIncrementSequenceNumber = txn_stamp *)
Lemma tie_stamp name t ep sm k : (forall a b, name a = name b -> a = b) -> rep name t ep sm ->
  seq_get k (snd t) + 1 < 2147483648 -> 0 <= seq_get k (snd t) ->
  let '(sm', sq, ep') := get_and_increment_sequence_number sm (name (fst k)) (snd k) ep in
  (sq, ep') = fst (txn_stamp t k) /\ rep name (snd (txn_stamp t k)) ep' sm'.
Proof.
  intros Hn [He Hm] Hb H0. unfold get_and_increment_sequence_number, txn_stamp. cbn [fst snd].
  change (seq_key "%s-%d" (name (fst k)) (snd k)) with (gkey name k). rewrite Hm, He. split; [reflexivity|].
  split; [reflexivity|]. cbn [fst snd]. intros k'. rewrite wrap32_small by lia.
  destruct (tpk_eqb k' k) eqn:E.
  - apply tpk_eqb_eq in E. subst k'. rewrite seqmap_get_set_same, seq_get_set_same. reflexivity.
  - apply tpk_eqb_neq in E. rewrite seqmap_get_set_other, seq_get_set_other; [apply Hm | exact E |].
    intros G. apply E. eapply gkey_inj; eassumption.
Qed.

(* the stamping condition of partitionProducer.dispatch = the one of Actors.pp_forward, and the stamp written is the pair read *)
Lemma tie_stamp_condition c m sq ep :
  pp_stamp_sequence (m_seq m) (m_epoch m) (m_hasseq m) (c_idem c) (Z.of_nat (m_retries m)) (m_flags m) sq ep =
  if c_idem c && fresh_pass m && is_data m
  then (m_seq (set_stamp m sq ep), m_epoch (set_stamp m sq ep), m_hasseq (set_stamp m sq ep), ExFall)
  else (m_seq m, m_epoch m, m_hasseq m, ExFall).
Proof.
  unfold pp_stamp_sequence, fresh_pass, is_data, F_DATA.
  assert (E : (Z.of_nat (m_retries m) =? 0) = (m_retries m =? 0)%nat).
  { destruct (m_retries m); [reflexivity|]. cbn [Nat.eqb]. apply Z.eqb_neq. lia. }
  rewrite E. destruct (c_idem c && (m_retries m =? 0)%nat && (m_flags m =? 0)); reflexivity.
Qed.

(* bumpEpoch = txn_bump *)
Lemma seqmap_get_absent m k : seqmap_has m k = false -> seqmap_get m k = 0.
Proof.
  induction m as [|[k' v] r IH]; cbn [seqmap_has seqmap_get]; [reflexivity|].
  destruct (seqkey_eqb k k'); [discriminate | exact IH].
Qed.
Lemma bump_loop_get k : forall l ep sm,
  fst (bump_epoch_loop1 l ep sm) = ep /\
  seqmap_get (snd (bump_epoch_loop1 l ep sm)) k = if existsb (fun it => seqkey_eqb k (fst it)) l then 0 else seqmap_get sm k.
Proof.
  induction l as [|it l IH]; intros ep sm; cbn [bump_epoch_loop1 existsb fst snd]; [split; reflexivity|].
  destruct (IH ep (seqmap_set sm (fst it) 0)) as [I1 I2]. split; [exact I1|]. rewrite I2.
  destruct (seqkey_eqb k (fst it)) eqn:E; cbn [orb].
  - apply seqkey_eqb_eq in E. subst k. destruct (existsb _ l); [reflexivity | apply seqmap_get_set_same].
  - destruct (existsb _ l); [reflexivity|]. apply seqmap_get_set_other. intros G. subst k. rewrite seqkey_eqb_refl in E. discriminate.
Qed.
Lemma has_exists m k : seqmap_has m k = existsb (fun it : seqkey * Z => seqkey_eqb k (fst it)) m.
Proof. induction m as [|[k' v] r IH]; cbn [seqmap_has existsb fst]; [reflexivity | rewrite IH; reflexivity]. Qed.

Lemma tie_bump name t ep sm : rep name t ep sm -> ep + 1 < 32768 -> -32768 <= ep ->
  let '(ep', sm') := DecC01.bump_epoch ep sm in rep name (txn_bump t) ep' sm'.
Proof.
  intros [He Hm] Hb H0. unfold DecC01.bump_epoch, seqmap_items.
  destruct (bump_epoch_loop1 sm (wrap16 (ep + 1)) sm) as [ep' sm'] eqn:E.
  split.
  - pose proof (bump_loop_get (gkey name (0, 0)) sm (wrap16 (ep + 1)) sm) as [I1 _]. rewrite E in I1. cbn [fst] in I1.
    rewrite I1, wrap16_small by lia. unfold txn_bump. cbn [fst]. lia.
  - intros k. pose proof (bump_loop_get (gkey name k) sm (wrap16 (ep + 1)) sm) as [_ I2]. rewrite E in I2. cbn [snd] in I2.
    rewrite I2. unfold txn_bump. cbn [snd]. rewrite seq_get_reset. rewrite <- has_exists.
    destruct (seqmap_has sm (gkey name k)) eqn:Eh; [reflexivity|]. apply seqmap_get_absent, Eh.
Qed.

(* Config.Validate's idempotent requirements = the configuration hypothesis of the theorems (idem_cfg) together with
   what the composition builds in: RequiredAcks = WaitForAll (an answered request always carries blocks) and at most one
   request in flight per connection (one i_infl slot per bridge) *)
Lemma tie_validate c v acks mo : c_idem c = true -> is_at_least v [0; 11; 0; 0] = c_v2 c ->
  (validate_idempotent true v (Z.of_nat (c_retry_max c)) acks mo = ExFall <->
   idem_cfg c = true /\ acks = -1 /\ mo <= 1).
Proof.
  intros Hi Hv. unfold validate_idempotent, idem_cfg. rewrite Hv, Hi. cbn [andb].
  destruct (c_v2 c); cbn [negb andb]; [|split; [discriminate | intros [H _]; discriminate]].
  assert (E : (Z.of_nat (c_retry_max c) =? 0) = negb (1 <=? c_retry_max c)%nat).
  { destruct (c_retry_max c); [reflexivity|]. cbn [Nat.leb negb]. apply Z.eqb_neq. lia. }
  rewrite E. destruct (1 <=? c_retry_max c)%nat; cbn [negb]; [|split; [discriminate | intros [H _]; discriminate]].
  destruct (acks =? -1) eqn:Ea; cbn [negb].
  - apply Z.eqb_eq in Ea. destruct (mo >? 1) eqn:Em.
    + split; [discriminate|]. intros [_ [_ H]]. apply Z.gtb_lt in Em. lia.
    + split; [|reflexivity]. intros _. repeat split; [exact Ea|]. destruct (Z.gtb_spec mo 1); [discriminate | lia].
  - split; [discriminate|]. intros [_ [H _]]. apply Z.eqb_neq in Ea. contradiction.
Qed.

(* ProducerMessage.clear (regenerated from async_producer.go, golden Gen.DecC05.clear_message) applied to the fields the
   producer owns = Msg.fresh_of: a message object that was handed back to the application on Successes() / Errors() and
   is sent again enters the composition exactly as CSubmit lets every message enter (no sequence number, hasSequence
   false, retries 0, flags 0), whatever stamps it carried *)
Definition cleared (m : msg) : msg :=
  let '(fl, r, sq, ep, hs) := clear_message (m_flags m) (Z.of_nat (m_retries m)) (m_seq m) (m_epoch m) (m_hasseq m) in
  mkMsg (m_id m) (m_topic m) (m_part m) (Z.to_nat r) fl (m_size m) (m_hdr m) (m_pres m) (m_encfail m) sq ep hs (m_ipanic m).

Lemma tie_clear m :
  cleared m = fresh_of m /\
  m_hasseq (cleared m) = false /\ m_seq (cleared m) = 0 /\ m_epoch (cleared m) = 0 /\ m_retries (cleared m) = 0%nat /\ m_flags (cleared m) = F_DATA /\
  fresh_pass (cleared m) = true /\ is_data (cleared m) = true.
Proof. repeat split. Qed.

(* a naming exists: the hypotheses of tie_stamp / tie_bump are satisfiable on a non-trivial state *)
Example tie_stamp_instance :
  get_and_increment_sequence_number [(seq_key FMT "t" 10, 3); (seq_key FMT "t1" 0, 5)] "t1" 0 2 =
  ([(seq_key FMT "t" 10, 3); (seq_key FMT "t1" 0, 6)], 5, 2) /\
  txn_stamp (2, [((0, 10), 3); ((1, 0), 5)]) (1, 0) = ((5, 2), (2, [((0, 10), 3); ((1, 0), 6)])).
Proof. split; reflexivity. Qed.
