(* C05 proofs, part 10: every set a broker worker holds files each message under its own (topic, partition), and a
   retryBatch task carries messages of its partition only -- for every schedule. *)
From Coq Require Import List ZArith Bool Arith Lia.
From SV Require Import Producer.Msg Producer.Actors Producer.Compose Producer.Global
                       C05.Model C05.ProofsBroker C05.ProofsSys C05.ProofsClient C05.ProofsLink C05.ProofsClosure C05.ProofsEnv C05.ProofsTab.
Import ListNotations.
Open Scope Z_scope.

Definition key_ok (ps : pset) : Prop := forall k l m, In (k, l) (s_parts ps) -> In m l -> msg_key m = k.
Definition rb_key_ok (t : rbtask) : Prop := forall m, In m (rb_ms t) -> msg_key m = rb_k t.

Record bp_key (x : bpi) : Prop := mkBpKey {
  bk_buf : key_ok (b_buf (i_st x));
  bk_bridge : Forall key_ok (i_bridge x);
  bk_infl : forall ps, i_infl x = Some ps -> key_ok ps;
  bk_resp : Forall (fun sr => key_ok (fst sr)) (i_resp x)
}.
Definition key_inv (s : state) : Prop := Forall bp_key (g_bps s) /\ Forall rb_key_ok (g_rbs s).
Definition eff_key (e : effect) : Prop :=
  match e with
  | EBridge ps => key_ok ps
  | ERbSend _ ps => key_ok ps
  | ESpawnRB k ms _ => forall m, In m ms -> msg_key m = k
  | _ => True
  end.

Lemma key_ok_empty e : key_ok (empty_set e). Proof. intros k l m []. Qed.
Lemma bp_key_ref x : bp_key x -> bp_key (bi_ref x). Proof. intros [H1 H2 H3 H4]. constructor; assumption. Qed.
Lemma bp_key_unref x : bp_key x -> bp_key (bi_unref x).
Proof. intros [H1 H2 H3 H4]. unfold bi_unref. destruct (i_refs x - 1 =? 0); constructor; assumption. Qed.
Lemma bp_key_abandon c x : bp_key x -> bp_key (bi_abandon c x). Proof. intros [H1 H2 H3 H4]. constructor; assumption. Qed.
Lemma bp_key_new br e : bp_key (bi_ref (bi_new br e)).
Proof. constructor; cbn; [apply key_ok_empty | constructor | intros ps H; discriminate | constructor]. Qed.
Lemma bp_key_push x ps : bp_key x -> key_ok ps -> bp_key (bi_with_bridge x (i_bridge x ++ [ps]) (i_infl x) (i_resp x)).
Proof.
  intros [H1 H2 H3 H4] Hs. constructor; cbn [bi_with_bridge i_st i_bridge i_infl i_resp]; auto.
  apply Forall_app. split; [exact H2 | constructor; [exact Hs | constructor]].
Qed.

Lemma get_bp_key s br : Forall bp_key (g_bps s) -> Forall bp_key (g_bps (fst (get_bp s br))) /\ g_rbs (fst (get_bp s br)) = g_rbs s.
Proof.
  intros H. unfold get_bp. destruct (find_reg br (g_bps s) 0%nat); cbn [fst set_bps g_bps g_rbs].
  - split; [apply Forall_bp_upd'; [exact H | apply bp_key_ref] | reflexivity].
  - split; [apply Forall_app; split; [exact H | constructor; [apply bp_key_new | constructor]] | reflexivity].
Qed.

Lemma key_same s s' : g_bps s' = g_bps s -> g_rbs s' = g_rbs s -> key_inv s -> key_inv s'.
Proof. unfold key_inv. intros -> ->. auto. Qed.
Lemma set_handle_rbs s w h : g_rbs (set_handle s w h) = g_rbs s.
Proof. unfold set_handle. destruct w; try reflexivity. destruct (pp_get k (g_pps s)); reflexivity. Qed.

Lemma apply_eff_key c w s e : key_inv s -> eff_key e -> key_inv (apply_eff c w s e).
Proof.
  intros [Hb Hr] He. assert (Same : forall s', g_bps s' = g_bps s -> g_rbs s' = g_rbs s -> key_inv s') by (intros s' E1 E2; eapply key_same; [exact E1 | exact E2 | split; assumption]).
  destruct e; cbn [apply_eff eff_key] in *.
  - destruct d; try (apply Same; reflexivity).
    destruct (handle_of s w); [|split; assumption]. destruct (nth_error (g_bps s) n); [|split; assumption].
    destruct (i_in_closed b); apply Same; reflexivity.
  - unfold emit. destruct (m_hasseq m); destruct (g_closed s); apply Same; reflexivity.
  - unfold emit. destruct (g_closed s); apply Same; reflexivity.
  - unfold emit. destruct (g_closed s); apply Same; reflexivity.
  - apply Same; reflexivity.
  - apply Same; reflexivity.
  - apply Same; reflexivity.
  - apply Same; reflexivity.
  - apply Same; reflexivity.
  - destruct (handle_of s w) as [b|]; [|split; assumption]. eapply key_same; [apply set_handle_bps' | apply set_handle_rbs|].
    split; [cbn [set_bps g_bps]; apply Forall_bp_upd'; [exact Hb | apply bp_key_unref] | exact Hr].
  - destruct (get_bp_key s broker Hb) as [G1 G2]. destruct (get_bp s broker) as [s1 b]. cbn [fst] in G1, G2.
    eapply key_same; [apply set_handle_bps' | apply set_handle_rbs|]. split; [exact G1 | rewrite G2; exact Hr].
  - destruct (find_reg broker (g_bps s) 0%nat) as [b|]; [|split; assumption].
    split; [cbn [set_bps g_bps]; apply Forall_bp_upd'; [exact Hb | apply bp_key_abandon] | exact Hr].
  - destruct w; try (split; assumption). destruct (nth_error (g_bps s) b); [|split; assumption].
    split; [cbn [set_bps g_bps]; apply Forall_bp_upd'; [exact Hb | intros x Hx; apply bp_key_push; assumption] | exact Hr].
  - split; [exact Hb|]. cbn [set_rbs g_rbs]. apply Forall_app. split; [exact Hr | constructor; [exact He | constructor]].
  - destruct (get_bp_key s broker Hb) as [G1 G2]. destruct (get_bp s broker) as [s1 b]. cbn [fst] in G1, G2.
    split; [cbn [set_bps g_bps]; apply Forall_bp_upd'; [exact G1 | intros x Hx; apply bp_key_push; assumption] | cbn; rewrite G2; exact Hr].
  - split; assumption.
  - apply Same; reflexivity.
Qed.
Lemma apply_effs_key c w : forall l s, key_inv s -> Forall eff_key l -> key_inv (apply_effs c w s l).
Proof.
  induction l as [|e l IH]; intros s H Hl; cbn [apply_effs fold_left]; [exact H|].
  inversion Hl; subst. apply IH; [apply apply_eff_key; assumption | assumption].
Qed.

Definition nokey (l : list effect) : bool :=
  forallb (fun e => match e with EBridge _ | ERbSend _ _ | ESpawnRB _ _ _ => false | _ => true end) l.
Lemma nokey_ok l : nokey l = true -> Forall eff_key l.
Proof.
  induction l as [|e l IH]; intros H; [constructor|]. cbn [nokey forallb] in H. apply andb_true_iff in H as [H1 H2].
  constructor; [destruct e; try exact I; discriminate | apply IH, H2].
Qed.
Lemma nokey_app a b : nokey (a ++ b) = nokey a && nokey b. Proof. apply forallb_app. Qed.
Lemma ppsh_nokey l : ppsh l = true -> nokey l = true.
Proof.
  induction l as [|e l IH]; [reflexivity|]. cbn [ppsh nokey forallb]. intros H. apply andb_true_iff in H as [H1 H2].
  fold (nokey l). rewrite (IH H2), andb_true_r. destruct e; try reflexivity; discriminate.
Qed.
Lemma nosend_nokey l : nosend l = true -> nokey l = true.
Proof. intros H. apply ppsh_nokey, ppsh_nosend, H. Qed.
Lemma nokey_retry_msg c m e : nokey [retry_msg c m e] = true.
Proof. unfold retry_msg. destruct (c_retry_max c <=? m_retries m)%nat; reflexivity. Qed.
Lemma nokey_retry_msgs c l e : nokey (retry_msgs c l e) = true.
Proof.
  unfold retry_msgs. induction l as [|m l IH]; [reflexivity|]. cbn [map]. change (nokey ([retry_msg c m e] ++ map (fun m0 => retry_msg c m0 e) l) = true).
  rewrite nokey_app, nokey_retry_msg, IH. reflexivity.
Qed.
Lemma nokey_all_retry c e : forall ps, nokey (all_retry c ps e) = true.
Proof. induction ps as [|[k l] r IH]; [reflexivity|]. cbn [all_retry]. rewrite nokey_app, nokey_retry_msgs, IH. reflexivity. Qed.
Lemma nokey_apply_ics id k ics pan sz h : nokey (snd (apply_ics id k ics pan sz h)) = true.
Proof. apply nosend_nokey, ns_apply_ics. Qed.
Lemma nokey_disp c d m : nokey (snd (disp_step c d m)) = true.
Proof.
  unfold disp_step. destruct (is_shut m); [reflexivity|]. destruct (fresh_pass m && d_shut d); [reflexivity|].
  assert (P : nokey (if fresh_pass m then [EAccept m] else []) = true) by (destruct (fresh_pass m); reflexivity).
  set (doic := if c_fix_ic c then fresh_pass m && is_data m else true). destruct doic.
  - pose proof (nokey_apply_ics (m_id m) 0%nat (c_ics c) (m_ipanic m) (m_size m) (m_hdr m)) as H1.
    destruct (apply_ics _ _ _ _ _ _) as [[sz h] ics]. cbn [snd] in *.
    destruct (negb (c_v2 c) && h); [|destruct (c_max_msg_bytes c <? sz)]; cbn [snd]; rewrite !nokey_app, P, H1; reflexivity.
  - destruct (negb (c_v2 c) && m_hdr m); [|destruct (c_max_msg_bytes c <? m_size m)]; cbn [snd]; rewrite !nokey_app, P; reflexivity.
Qed.
Lemma nokey_tp m : nokey (tp_step m) = true.
Proof. unfold tp_step. destruct (fresh_pass m); [destruct (0 <=? m_pres m)|]; reflexivity. Qed.

(* ---------------------------------------------------------------- broker worker *)

Lemma key_ok_add m ps : (forall k l x, In (k, l) ps -> In x l -> msg_key x = k) ->
  forall k l x, In (k, l) (part_add (msg_key m) m ps) -> In x l -> msg_key x = k.
Proof.
  induction ps as [|[k' l'] r IH]; intros H k l x Hin Hx; cbn [part_add] in Hin.
  - destruct Hin as [E|[]]. injection E as <- <-. destruct Hx as [<-|[]]. reflexivity.
  - destruct (tpk_eqb (msg_key m) k') eqn:E.
    + destruct Hin as [E2|Hin]; [|eapply H; [right; exact Hin | exact Hx]].
      injection E2 as <- <-. apply in_app_or in Hx as [Hx|[<-|[]]]; [eapply H; [left; reflexivity | exact Hx] | apply tpk_eqb_eq, E].
    + destruct Hin as [E2|Hin]; [injection E2 as <- <-; eapply H; [left; reflexivity | exact Hx]|].
      eapply IH; [|exact Hin | exact Hx]. intros k0 l0 x0 H0 Hx0. eapply H; [right; exact H0 | exact Hx0].
Qed.
Lemma in_part_drop_parts k : forall ps kl, In kl (part_drop k ps) -> In kl ps.
Proof.
  induction ps as [|[k' l] r IH]; intros kl H; cbn [part_drop] in H; [contradiction|].
  destruct (tpk_eqb k k'); [right; exact H|]. destruct H as [H|H]; [left; exact H | right; apply IH, H].
Qed.
Lemma in_hs_phase2_parts c bl : forall ps cur buf kl, In kl (snd (fst (hs_phase2 c bl ps cur buf))) -> In kl buf.
Proof.
  induction ps as [|[k l] r IH]; intros cur buf kl H; cbn [hs_phase2] in H; [exact H|].
  destruct (block_lookup k bl) as [[e off]|]; [|apply (IH _ _ _ H)]. destruct (retriable e); [|apply (IH _ _ _ H)].
  specialize (IH (cur_set k e cur) (part_drop k buf) kl).
  destruct (hs_phase2 c bl r (cur_set k e cur) (part_drop k buf)) as [[cur' buf'] effs']. cbn [fst snd] in *.
  eapply in_part_drop_parts, IH, H.
Qed.

Section KeyBp.
Variable c : cfg.

Lemma do_add_key st m : key_ok (b_buf st) -> key_ok (b_buf (fst (fst (do_add c st m)))).
Proof.
  intros Hk. unfold do_add. destruct (m_encfail m); [exact Hk|].
  match goal with |- context [if ?b then _ else _] => destruct b end; cbn [fst b_buf]; [exact Hk|].
  unfold key_ok. cbn [s_parts]. apply key_ok_add. exact Hk.
Qed.
Lemma after_over_key st m : key_ok (b_buf st) -> key_ok (b_buf (fst (fst (after_over c st m)))).
Proof. intros Hk. unfold after_over. destruct (c_idem c && negb (s_epoch (b_buf st) =? m_epoch m)); [exact Hk | apply do_add_key, Hk]. Qed.
Lemma recv_data_key st m : key_ok (b_buf st) -> key_ok (b_buf (fst (fst (recv_data c st m)))).
Proof. intros Hk. unfold recv_data. destruct (would_overflow c (b_buf st) m); [exact Hk | apply after_over_key, Hk]. Qed.
Lemma nokey_do_add st m : nokey (snd (fst (do_add c st m))) = true.
Proof. apply nosend_nokey. unfold do_add. destruct (m_encfail m); [reflexivity|]. match goal with |- context [if ?b then _ else _] => destruct b end; reflexivity. Qed.
Lemma nokey_after_over st m : nokey (snd (fst (after_over c st m))) = true.
Proof. unfold after_over. destruct (c_idem c && negb (s_epoch (b_buf st) =? m_epoch m)); [reflexivity | apply nokey_do_add]. Qed.
Lemma nokey_recv_data st m : nokey (snd (fst (recv_data c st m))) = true.
Proof. unfold recv_data. destruct (would_overflow c (b_buf st) m); [reflexivity | apply nokey_after_over]. Qed.

Lemma hs_phase2_key bl : forall ps cur buf, (forall k l x, In (k, l) ps -> In x l -> msg_key x = k) ->
  Forall eff_key (snd (hs_phase2 c bl ps cur buf)).
Proof.
  induction ps as [|[k l] r IH]; intros cur buf Hp; cbn [hs_phase2]; [constructor|].
  assert (Hr : forall k0 l0 x, In (k0, l0) r -> In x l0 -> msg_key x = k0) by (intros k0 l0 x H0 Hx; eapply Hp; [right; exact H0 | exact Hx]).
  destruct (block_lookup k bl) as [[e off]|]; [|apply IH, Hr]. destruct (retriable e); [|apply IH, Hr].
  specialize (IH (cur_set k e cur) (part_drop k buf) Hr).
  destruct (hs_phase2 c bl r (cur_set k e cur) (part_drop k buf)) as [[cur' buf'] effs']. cbn [snd] in *.
  apply Forall_app. split; [|exact IH]. apply Forall_app. split; [|apply nokey_ok, nokey_retry_msgs].
  destruct (c_idem c); [|apply nokey_ok, nokey_retry_msgs]. constructor; [|constructor]. cbn [eff_key]. intros x Hx. eapply Hp; [left; reflexivity | exact Hx].
Qed.

Lemma handle_response_key e0 st sent r : key_ok (b_buf st) -> key_ok sent ->
  key_ok (b_buf (fst (handle_response c e0 st sent r))) /\ Forall eff_key (snd (handle_response c e0 st sent r)).
Proof.
  intros Hk Hs. unfold handle_response.
  assert (HX : forall X : bp * list effect, key_ok (b_buf (fst X)) -> Forall eff_key (snd X) ->
     let Y := (let '(st1, effs) := X in if set_empty (b_buf st1) then (rollover st1 (e0 + bumps effs), effs) else (st1, effs)) in
     key_ok (b_buf (fst Y)) /\ Forall eff_key (snd Y)).
  { intros [st1 effs] H1 H2. cbn [fst snd] in *. destruct (set_empty (b_buf st1)); cbn [fst snd]; [split; [apply key_ok_empty | exact H2] | split; assumption]. }
  apply HX.
  - destruct r as [e [|]| |bl]; cbn [fst]; try exact Hk; [apply key_ok_empty|].
    destruct (c_retry_max c =? 0)%nat; [exact Hk|].
    pose proof (in_hs_phase2_parts c bl (s_parts sent) (b_cur st) (s_parts (b_buf st))) as Hin.
    destruct (hs_phase2 c bl (s_parts sent) (b_cur st) (s_parts (b_buf st))) as [[cur buf] e2]. cbn [fst snd] in *.
    intros k l x Hkl Hx. cbn [with_cur with_buf b_buf s_parts] in Hkl. eapply Hk; [apply Hin, Hkl | exact Hx].
  - destruct r as [e [|]| |bl]; cbn [snd].
    + apply nokey_ok, nosend_nokey, ns_all_errors.
    + apply nokey_ok. change (nokey ([EAbandon (b_broker st)] ++ all_retry c (s_parts sent) e ++ all_retry c (s_parts (b_buf st)) e) = true).
      rewrite !nokey_app, !nokey_all_retry. reflexivity.
    + apply nokey_ok, nosend_nokey, ns_hs_phase1.
    + destruct (c_retry_max c =? 0)%nat; [apply nokey_ok, nosend_nokey, ns_hs_phase1|].
      pose proof (hs_phase2_key bl (s_parts sent) (b_cur st) (s_parts (b_buf st)) Hs) as H2.
      destruct (hs_phase2 c bl (s_parts sent) (b_cur st) (s_parts (b_buf st))) as [[cur buf] e2]. cbn [snd] in *.
      apply Forall_app. split; [apply nokey_ok, nosend_nokey, ns_hs_phase1 | exact H2].
Qed.

Lemma bp_core_key e0 st i : key_ok (b_buf st) -> (forall sent r, i = BResp sent r -> key_ok sent) ->
  key_ok (b_buf (fst (fst (bp_core c e0 st i)))) /\ Forall eff_key (snd (fst (bp_core c e0 st i))).
Proof.
  intros Hk Hre. unfold bp_core. destruct i as [m| | | |sent r].
  - destruct (b_mode st); try (split; [exact Hk | apply nokey_ok; reflexivity]).
    destruct (b_wait st); try (split; [exact Hk | apply nokey_ok; reflexivity]).
    destruct (is_syn m); [split; [exact Hk | apply nokey_ok; reflexivity]|].
    destruct (needs_retry st m).
    + cbn [fst snd]. split; [destruct (b_closing st); [|destruct (is_fin m)]; exact Hk | apply nokey_ok, nokey_retry_msg].
    + destruct (is_fin m); [cbn [fst snd]; split; [exact Hk | apply nokey_ok, nokey_retry_msg]|].
      split; [apply recv_data_key, Hk | apply nokey_ok, nokey_recv_data].
  - destruct (b_mode st), (b_wait st); (split; [exact Hk | constructor]).
  - destruct (b_timer st && flush_poll st); (split; [exact Hk | constructor]).
  - destruct (flush_enabled st); [|split; [exact Hk | constructor]].
    assert (Hk1 : key_ok (b_buf (with_wait (rollover st e0) WNone))) by apply key_ok_empty.
    destruct (b_wait st) as [|m|m]; cbn [fst snd].
    + split; [apply key_ok_empty | constructor; [exact Hk | constructor]].
    + pose proof (after_over_key (with_wait (rollover st e0) WNone) m Hk1) as H1.
      pose proof (nokey_after_over (with_wait (rollover st e0) WNone) m) as H2.
      destruct (after_over c (with_wait (rollover st e0) WNone) m) as [[st2 e2] u]. cbn [fst snd] in *.
      split; [exact H1 | constructor; [exact Hk | apply nokey_ok, H2]].
    + pose proof (do_add_key (with_wait (rollover st e0) WNone) m Hk1) as H1.
      pose proof (nokey_do_add (with_wait (rollover st e0) WNone) m) as H2.
      destruct (do_add c (with_wait (rollover st e0) WNone) m) as [[st2 e2] u]. cbn [fst snd] in *.
      split; [exact H1 | constructor; [exact Hk | apply nokey_ok, H2]].
  - destruct (handle_response_key e0 st sent r Hk (Hre sent r eq_refl)) as [K1 E1].
    destruct (handle_response c e0 st sent r) as [st1 effs]. cbn [fst snd] in *.
    destruct (b_wait st1) as [|m|m]; cbn [fst snd]; [split; assumption| |].
    + destruct (needs_retry st1 m); [cbn [fst snd]; split; [exact K1 | apply Forall_app; split; [exact E1 | apply nokey_ok, nokey_retry_msg]]|].
      destruct (would_overflow c (b_buf st1) m); [split; assumption|].
      pose proof (after_over_key (with_wait st1 WNone) m K1) as H1.
      pose proof (nokey_after_over (with_wait st1 WNone) m) as H2.
      destruct (after_over c (with_wait st1 WNone) m) as [[st2 e2] u]. cbn [fst snd] in *.
      split; [exact H1 | apply Forall_app; split; [exact E1 | apply nokey_ok, H2]].
    + destruct (needs_retry st1 m); cbn [fst snd]; [split; [exact K1 | apply Forall_app; split; [exact E1 | apply nokey_ok, nokey_retry_msg]] | split; assumption].
Qed.

Lemma bp_step_key e0 st i : key_ok (b_buf st) -> (forall sent r, i = BResp sent r -> key_ok sent) ->
  key_ok (b_buf (fst (bp_step c e0 st i))) /\ Forall eff_key (snd (bp_step c e0 st i)).
Proof.
  intros Hk Hre. destruct (bp_core_key e0 st i Hk Hre) as [H1 H2]. unfold bp_step.
  destruct (bp_core c e0 st i) as [[st' effs] upd]. cbn [fst snd] in *. split; [|exact H2].
  assert (Hd : forall x, key_ok (b_buf x) -> key_ok (b_buf (drain_check x))).
  { intros x Hx. unfold drain_check. destruct (b_mode x); try exact Hx. destruct (set_empty (b_buf x)); exact Hx. }
  apply Hd. destruct upd; [|exact H1]. unfold end_iter. destruct (b_mode st'); try exact H1. destruct (b_wait st'); exact H1.
Qed.

Lemma rb_key e0 t l : rb_key_ok t -> Forall eff_key (rb_step c e0 (rb_k t) (rb_ms t) (rb_e t) l).
Proof.
  intros Ht. unfold rb_step. destruct (first_exhausted c (rb_ms t)).
  - destruct (c_fix_rb c); [apply nokey_ok, nosend_nokey, ns_return_errors | apply nokey_ok; reflexivity].
  - destruct l; [|apply nokey_ok, nosend_nokey, ns_return_errors].
    constructor; [|constructor]. cbn [eff_key]. intros k l0 x Hin Hx. cbn [s_parts] in Hin. destruct Hin as [E|[]]. injection E as <- <-.
    apply in_map_iff in Hx as [y [<- Hy]]. apply (Ht y Hy).
Qed.

End KeyBp.

(* ---------------------------------------------------------------- steps *)

Lemma run_bp_key c s b x i : key_inv s -> nth_error (g_bps s) b = Some x ->
  (forall sent r, i = BResp sent r -> key_ok sent) -> key_inv (run_bp c s b x i).
Proof.
  intros [Hb Hr] Hn Hre. unfold run_bp. pose proof (Forall_nth' _ _ _ _ Hb Hn) as [X1 X2 X3 X4].
  destruct (bp_step_key c (g_epoch s) (i_st x) i X1 Hre) as [K E].
  destruct (bp_step c (g_epoch s) (i_st x) i) as [st' effs]. cbn [fst snd] in *.
  apply apply_effs_key; [|exact E]. split; [|exact Hr]. cbn [set_bps g_bps].
  eapply Forall_bp_upd_nth'; [exact Hb | exact Hn |]. constructor; assumption.
Qed.

Lemma run_pp_key c s k x m ls : key_inv s -> key_inv (run_pp c s k x m ls).
Proof.
  intros H. unfold run_pp.
  match goal with |- context [pp_step c (fst k) (snd k) (pr_st x) m ?ab ?stamp ls] =>
    pose proof (ppsh_pp c (fst k) (snd k) (pr_st x) m ab stamp ls) as Q;
    destruct (pp_step c (fst k) (snd k) (pr_st x) m ab stamp ls) as [st' effs] end.
  cbn [snd] in Q. apply apply_effs_key; [|apply nokey_ok, ppsh_nokey, Q]. eapply key_same; [| |exact H]; reflexivity.
Qed.

Lemma raw_step_key c s ch : key_inv s -> key_inv (raw_step c s ch).
Proof.
  intros H. assert (Same : forall s', g_bps s' = g_bps s -> g_rbs s' = g_rbs s -> key_inv s') by (intros s' E1 E2; eapply key_same; eassumption).
  destruct ch; cbn [raw_step].
  - destruct (g_close_req s); [exact H | apply Same; reflexivity].
  - destruct (g_close_req s); [exact H | apply Same; reflexivity].
  - destruct (pop DDisp s) as [[m s1]|] eqn:Ep; [|exact H]. destruct (pop_places_frame _ _ _ _ Ep) as [F1 F2].
    pose proof (nokey_disp c (g_disp s1) m) as Q. destruct (disp_step c (g_disp s1) m) as [d' effs]. cbn [snd] in Q.
    apply apply_effs_key; [apply Same; cbn; assumption | apply nokey_ok, Q].
  - destruct (pop (DTopic t) s) as [[m s1]|] eqn:Ep; [|exact H]. destruct (pop_places_frame _ _ _ _ Ep) as [F1 F2].
    apply apply_effs_key; [apply Same; assumption | apply nokey_ok, nokey_tp].
  - destruct (pop (DPart t p) s) as [[m s1]|] eqn:Ep; [|exact H]. destruct (pop_places_frame _ _ _ _ Ep) as [F1 F2].
    assert (H1 : key_inv s1) by (apply Same; assumption).
    destruct (pp_get (t, p) (g_pps s1)); [apply run_pp_key, H1|].
    destruct (next_lres ls) as [l0 ls']. pose proof (ppsh_pp_init c t p l0) as Q. destruct (pp_init c t p l0) as [st0 effs0]. cbn [snd] in Q.
    apply run_pp_key. apply apply_effs_key; [|apply nokey_ok, ppsh_nokey, Q]. eapply key_same; [| |exact H1]; reflexivity.
  - destruct (nth_error (g_bps s) b) as [x|] eqn:En; [|exact H]. destruct (flush_poll (i_st x)); [|exact H].
    destruct (pop (DBp b) s) as [[m s1]|] eqn:Ep.
    + destruct (pop_places_frame _ _ _ _ Ep) as [F1 F2]. apply run_bp_key; [apply Same; assumption | rewrite F1; exact En | intros; discriminate].
    + destruct (i_in_closed x); [|exact H]. apply run_bp_key; [exact H | exact En | intros; discriminate].
  - destruct (nth_error (g_bps s) b) as [x|] eqn:En; [|exact H]. apply run_bp_key; [exact H | exact En | intros; discriminate].
  - destruct (nth_error (g_bps s) b) as [x|] eqn:En; [|exact H]. apply run_bp_key; [exact H | exact En | intros; discriminate].
  - destruct (nth_error (g_bps s) b) as [x|] eqn:En; [|exact H].
    destruct (i_infl x) eqn:Ei; [exact H|]. destruct (i_bridge x) as [|st r] eqn:Eb; [exact H|].
    destruct H as [Hb Hr]. split; [|exact Hr]. cbn [set_bps g_bps]. pose proof (Forall_nth' _ _ _ _ Hb En) as [X1 X2 X3 X4]. rewrite Eb in X2. inversion X2; subst.
    eapply Forall_bp_upd_nth'; [exact Hb | exact En |]. constructor; cbn [bi_with_bridge i_st i_bridge i_infl i_resp]; auto.
    intros s0 E0. injection E0 as <-. assumption.
  - destruct (nth_error (g_bps s) b) as [x|] eqn:En; [|exact H]. destruct (i_infl x) as [st|] eqn:Ei; [|exact H].
    destruct H as [Hb Hr]. split; [|exact Hr]. cbn [set_bps g_bps]. pose proof (Forall_nth' _ _ _ _ Hb En) as [X1 X2 X3 X4].
    eapply Forall_bp_upd_nth'; [exact Hb | exact En |]. constructor; cbn [bi_with_bridge i_st i_bridge i_infl i_resp]; auto; [intros s0 E0; discriminate|].
    apply Forall_app. split; [exact X4 | constructor; [apply (X3 _ Ei) | constructor]].
  - destruct (nth_error (g_bps s) b) as [x|] eqn:En; [|exact H].
    destruct (i_resp x) as [|[st r] rest] eqn:Er; [exact H|].
    destruct H as [Hb Hr]. pose proof (Forall_nth' _ _ _ _ Hb En) as [X1 X2 X3 X4]. rewrite Er in X4. inversion X4 as [|? ? G1 G2]; subst.
    set (s1 := set_bps s (bp_upd b (fun y => bi_with_bridge y (i_bridge y) (i_infl y) rest) (g_bps s))).
    assert (H1 : key_inv s1).
    { split; [|exact Hr]. cbn [s1 set_bps g_bps]. eapply Forall_bp_upd_nth'; [exact Hb | exact En |]. constructor; assumption. }
    destruct (nth_error (g_bps s1) b) as [x1|] eqn:En1; [|split; assumption].
    apply run_bp_key; [exact H1 | exact En1 |]. intros sent r0 E. injection E as <- <-. exact G1.
  - destruct (nth_error (g_rbs s) i) as [t|] eqn:En; [|exact H]. destruct H as [Hb Hr].
    assert (Ht : rb_key_ok t) by (rewrite Forall_forall in Hr; apply Hr; eapply nth_error_In, En).
    apply apply_effs_key; [|apply rb_key, Ht]. split; [exact Hb|]. cbn [set_rbs g_rbs].
    clear -Hr. revert i. induction Hr as [|y l Hy Hl IH]; intros [|i]; cbn [remove_nth]; try constructor; auto.
  - destruct (pop DRetry s) as [[m s1]|] eqn:Ep; [|exact H]. destruct (pop_places_frame _ _ _ _ Ep) as [F1 F2]. apply Same; cbn; assumption.
  - destruct (g_close_req s && negb (g_woken s) && (g_inflight s =? 0)); [apply Same; reflexivity | exact H].
  - destruct (g_woken s && negb (g_closed s)); [apply Same; reflexivity | exact H].
Qed.

Lemma step_key c s ch : key_inv s -> key_inv (step c s ch).
Proof.
  intros H. unfold step. destruct (g_panic s); [exact H|].
  destruct (g_panic (raw_step c s ch)); [eapply key_same; [| |exact H]; reflexivity | apply raw_step_key, H].
Qed.

Theorem key_run c : forall ys, key_inv (y_st (yrun c ys)).
Proof.
  induction ys as [|ch ys IH] using rev_ind; [split; constructor|].
  rewrite yrun_snoc. destruct ch as [ch|b f]; cbn [ystep].
  - destruct (is_answer ch); [exact IH | apply step_key, IH].
  - destruct (g_panic (y_st (yrun c ys))); [exact IH|]. destruct (nth_error (g_bps (y_st (yrun c ys))) b) as [x|]; [|exact IH].
    destruct (i_infl x) as [s|]; [|exact IH]. destruct (process (y_wire (yrun c ys)) (y_br (yrun c ys)) s f) as [[br' ls] r].
    cbn [y_st]. apply step_key, IH.
Qed.
