(* C05 proofs, part 3: the witnesses (evaluation of the composed model on concrete schedules) and the
   refutations of the full statements on the pinned tree's behaviour. *)
From Coq Require Import List ZArith Bool Arith Lia.
From SV Require Import Producer.Msg Producer.Actors Producer.Compose C05.Model C05.Witness C05.ProofsBroker C05.ProofsSys.
Import ListNotations.
Open Scope Z_scope.

Lemma stamp_eqb_eq a b : stamp_eqb a b = true <-> a = b.
Proof.
  destruct a as [[ka ea] sa], b as [[kb eb] sb]. unfold stamp_eqb. cbn [fst snd].
  rewrite !andb_true_iff, tpk_eqb_eq, !Z.eqb_eq. split; [intros [[-> ->] ->]; reflexivity | intros E; injection E; auto].
Qed.

Lemma consistentb_sound cl : consistentb cl = true -> consistent cl.
Proof.
  unfold consistentb, consistent. intros H i s i' s' H1 H2.
  rewrite forallb_forall in H. specialize (H _ H1). rewrite forallb_forall in H. specialize (H _ H2).
  cbn [fst snd] in H. apply Bool.eqb_prop in H.
  split; intros E.
  - apply stamp_eqb_eq. rewrite <- H. apply Z.eqb_eq, E.
  - apply Z.eqb_eq. rewrite H. apply stamp_eqb_eq, E.
Qed.

(* (i) connection-level failures only: message 2, submitted once, is in the log twice *)
Theorem refuted_conn_drop :
  let y := yrun wcfg sched_conn_drop in
  idem_cfg wcfg = true /\ forallb sane_choice sched_conn_drop = true /\
  (forall i, (subm_count i (y_st y) <= 1)%nat) /\ g_panic (y_st y) = None /\
  appended 2 y = 2%nat /\ In 2 (success_ids (y_st y)).
Proof.
  cbv zeta. split; [reflexivity|]. split; [reflexivity|]. split.
  - intros i. unfold subm_count. replace (map m_id (g_submitted (y_st (yrun wcfg sched_conn_drop)))) with [1; 2] by (vm_compute; reflexivity).
    unfold count_id. cbn [filter]. destruct (Z.eqb_spec i 1) as [->|]; [cbn; lia|]. destruct (Z.eqb_spec i 2) as [->|]; cbn; lia.
  - vm_compute. repeat split; auto.
Qed.

Theorem not_no_duplicate_full : ~ no_duplicate_full.
Proof.
  intros H. destruct refuted_conn_drop as [H1 [H2 [H3 [_ [H5 _]]]]].
  destruct (H wcfg sched_conn_drop H1 H2 H3) as [Hle _]. specialize (Hle 2). rewrite H5 in Hle. lia.
Qed.

(* (ii) per-partition answers only: message 3 is reported successful and is not in the log *)
Theorem refuted_epoch_bump :
  let y := yrun wcfg sched_epoch_bump in
  idem_cfg wcfg = true /\ forallb sane_choice sched_epoch_bump = true /\ forallb conn_free_choice sched_epoch_bump = true /\
  (forall i, (subm_count i (y_st y) <= 1)%nat) /\ g_panic (y_st y) = None /\
  appended 3 y = 0%nat /\ In 3 (success_ids (y_st y)) /\
  sent_ok [] 0 (sent_batches (0, 1) 1 (y_hist y)) = false.
Proof.
  cbv zeta. split; [reflexivity|]. split; [reflexivity|]. split; [reflexivity|]. split.
  - intros i. unfold subm_count. replace (map m_id (g_submitted (y_st (yrun wcfg sched_epoch_bump)))) with [1; 2; 3] by (vm_compute; reflexivity).
    unfold count_id. cbn [filter]. destruct (Z.eqb_spec i 1) as [->|]; [cbn; lia|]. destruct (Z.eqb_spec i 2) as [->|]; [cbn; lia|]. destruct (Z.eqb_spec i 3) as [->|]; cbn; lia.
  - vm_compute. repeat split; auto.
Qed.

Theorem not_no_duplicate_conn_free : ~ no_duplicate_conn_free.
Proof.
  intros H. destruct refuted_epoch_bump as [H1 [H2 [H3 [H4 [_ [H6 [H7 _]]]]]]].
  destruct (H wcfg sched_epoch_bump H1 H2 H3 H4) as [_ Hs]. specialize (Hs 3 H7). rewrite H6 in Hs. discriminate.
Qed.

(* (v), repaired in /repo 271dd24 (fixes/c05_flush_stamp.patch): flushRetryBuffers now stamps a parked first-pass
   message.  On the schedule that made the pinned tree report message 3 successful without writing it (one
   NotLeaderForPartition answer, message 3 parked during the retry) message 3 now travels as (epoch 0, sequence 2),
   is appended at offset 2, and the received history is stamp-consistent. *)
Theorem backlog_repaired :
  let y := yrun wcfg2 sched_backlog in
  idem_cfg wcfg2 = true /\ forallb sane_choice sched_backlog = true /\ forallb conn_free_choice sched_backlog = true /\
  no_error_events (y_st y) = true /\ g_panic (y_st y) = None /\ g_inflight (y_st y) = 0 /\
  consistent (hist_claims (y_hist y)) /\
  appended 1 y = 1%nat /\ appended 2 y = 1%nat /\ appended 3 y = 1%nat /\ success_ids (y_st y) = [1; 2; 3] /\
  map rl_batch (y_hist y) = [mkBatch (0, 0) 0 0 [1]; mkBatch (0, 0) 0 0 [1]; mkBatch (0, 0) 0 1 [2]; mkBatch (0, 0) 0 2 [3]].
Proof.
  cbv zeta. split; [reflexivity|]. split; [reflexivity|]. split; [reflexivity|]. split; [vm_compute; reflexivity|].
  split; [vm_compute; reflexivity|]. split; [vm_compute; reflexivity|].
  split; [apply consistentb_sound; vm_compute; reflexivity|]. vm_compute. repeat split; reflexivity.
Qed.

Theorem not_sequence_contiguous_full : ~ sequence_contiguous_full.
Proof.
  intros H. destruct refuted_epoch_bump as [H1 [_ [_ [_ [_ [_ [_ H8]]]]]]].
  rewrite (H wcfg sched_epoch_bump (0, 1) 1 H1) in H8. discriminate.
Qed.

(* (i') the batch [1;2] comes back as [1]: a resend that is not the original; message 1 is in the log and gets an error *)
Theorem refuted_resend :
  let y := yrun wcfg2 sched_reformed in
  idem_cfg wcfg2 = true /\ g_panic (y_st y) = None /\ resend_okb (y_hist y) = false /\
  appended 1 y = 1%nat /\ g_events (y_st y) <> [] /\
  map (fun e => match e with Ev ok m x => (ok, m_id m, x) end) (g_events (y_st y)) = [(false, 1, E_OUT_OF_ORDER)].
Proof. vm_compute. repeat split; auto. discriminate. Qed.

Theorem not_resend_identical_full : ~ resend_identical_full.
Proof.
  intros H. destruct refuted_resend as [H1 [_ [H3 _]]]. rewrite (H wcfg2 sched_reformed H1) in H3. discriminate.
Qed.

(* an in-class history with a lost acknowledgement and a whole-batch resend: the hypothesis of the partial
   theorem holds and is not vacuous (the broker did recognise a duplicate) *)
Example resend_ok_consistent :
  let y := yrun wcfg2 sched_resend_ok in
  consistent (hist_claims (y_hist y)) /\ existsb (fun l => match rl_verdict l with Some (VDup _) => true | _ => false end) (y_hist y) = true /\
  appended 1 y = 1%nat /\ appended 2 y = 1%nat /\ success_ids (y_st y) = [1; 2] /\
  resend_okb (y_hist y) = true /\ sent_ok [] 0 (sent_batches (0, 0) 0 (y_hist y)) = true.
Proof.
  cbv zeta. split; [apply consistentb_sound; vm_compute; reflexivity|]. vm_compute. repeat split; reflexivity.
Qed.

Example stamps_unique_instance :
  txn_issue txn0 [XStamp (0, 0); XStamp (0, 1); XStamp (0, 0); XBump; XStamp (0, 0); XStamp (0, 1)] =
  [((0, 0), 0, 0); ((0, 1), 0, 0); ((0, 0), 0, 1); ((0, 0), 1, 0); ((0, 1), 1, 0)].
Proof. reflexivity. Qed.

Example appended_contiguous_instance :
  appended_batches (0, 1) 1 (y_hist (yrun wcfg sched_epoch_bump)) = [mkBatch (0, 1) 1 0 [2]].
Proof. vm_compute. reflexivity. Qed.

Example resend_identical_instance :
  exists b s, In (ERbSend b s) (rb_step wcfg2 0 (0, 0) [set_stamp (wmsg 1 0) 0 0; set_stamp (wmsg 2 0) 1 0] 20 (LOk 1)).
Proof. eexists. eexists. left. reflexivity. Qed.
