(* C05 proofs, part 2: the composed system (Producer/Compose + broker), for arbitrary schedules:
   the broker state is the replay of the history and the recorded verdicts are the rules' verdicts;
   the transaction manager never hands out a stamp twice; retryBatch re-sends the identical batch;
   the batches the rules append for a partition within an epoch are consecutive. *)
From Coq Require Import List ZArith Bool Arith Lia.
From SV Require Import Producer.Msg Producer.Actors Producer.Compose C05.Model C05.ProofsBroker.
Import ListNotations.
Open Scope Z_scope.

(* ---------------------------------------------------------------- history = broker state *)

Lemma verdicts_ok_app : forall a br b, verdicts_ok br (a ++ b) <-> verdicts_ok br a /\ verdicts_ok (fold_left replay_step a br) b.
Proof.
  induction a as [|x a IH]; intros br b; cbn [app verdicts_ok fold_left]; [tauto|].
  rewrite IH. tauto.
Qed.

Lemma serve_spec br b f : forall br' l blk, serve br b f = (br', l, blk) ->
  br' = replay_step br l /\ verdicts_ok br [l] /\ rl_batch l = b.
Proof.
  intros br' l blk H. destruct f; cbn [serve] in H; injection H as <- <- _;
    unfold replay_step, applied; cbn [rl_verdict rl_batch verdicts_ok]; repeat split; reflexivity.
Qed.

Lemma serve_all_spec : forall bs br pf br' ls blks, serve_all br bs pf = (br', ls, blks) ->
  br' = fold_left replay_step ls br /\ verdicts_ok br ls /\ map rl_batch ls = bs.
Proof.
  induction bs as [|b r IH]; intros br pf br' ls blks H; cbn [serve_all] in H.
  - injection H as <- <- _. repeat split.
  - destruct (serve br b (hd PNone pf)) as [[br1 l] blk] eqn:E1.
    destruct (serve_all br1 r (tl pf)) as [[br2 ls2] blks2] eqn:E2.
    injection H as <- <- _. apply serve_spec in E1 as [-> [Hv Hb]]. apply IH in E2 as [-> [Hv2 Hb2]].
    cbn [fold_left verdicts_ok map] in *. repeat split; try tauto. congruence.
Qed.

Lemma process_b_spec br bs f br' ls r : process_b br bs f = (br', ls, r) ->
  br' = fold_left replay_step ls br /\ verdicts_ok br ls /\ map rl_batch ls = bs.
Proof.
  destruct f as [pf| |]; cbn [process_b]; intros H.
  - destruct (serve_all br bs pf) as [[b1 l1] k1] eqn:E. injection H as <- <- _. eapply serve_all_spec, E.
  - injection H as <- <- _. clear. induction bs as [|b r IH]; cbn [map fold_left verdicts_ok]; [repeat split|].
    unfold replay_step at 2. unfold replay_step at 1. cbn [applied rl_verdict rl_batch]. destruct IH as [IH1 [IH2 IH3]].
    repeat split; try assumption. congruence.
  - destruct (serve_all br bs []) as [[b1 l1] k1] eqn:E. injection H as <- <- _. eapply serve_all_spec, E.
Qed.

Definition hist_inv (y : sys) : Prop := y_br y = replay (y_hist y) /\ verdicts_ok [] (y_hist y).

Lemma hist_inv_step c y ch : hist_inv y -> hist_inv (ystep c y ch).
Proof.
  intros [H1 H2]. destruct ch as [ch|b f]; cbn [ystep].
  - destruct (is_answer ch); split; assumption.
  - destruct (g_panic (y_st y)); [split; assumption|].
    destruct (nth_error (g_bps (y_st y)) b) as [x|]; [|split; assumption].
    destruct (i_infl x) as [s|]; [|split; assumption].
    unfold process. destruct (process_b (y_br y) (batches_of (y_wire y) s) f) as [[br' ls] r] eqn:E.
    apply process_b_spec in E as [-> [Hv _]]. split; cbn [y_br y_hist].
    + unfold replay. rewrite fold_left_app. rewrite H1. reflexivity.
    + apply verdicts_ok_app. split; [exact H2|]. fold (replay (y_hist y)). rewrite <- H1. exact Hv.
Qed.

Theorem hist_inv_run c sched : hist_inv (yrun c sched).
Proof.
  unfold yrun. assert (H : hist_inv yinit) by (split; [reflexivity | exact I]).
  revert H. generalize yinit. induction sched as [|ch r IH]; intros y H; cbn [fold_left]; [exact H|].
  apply IH, hist_inv_step, H.
Qed.

(* ---------------------------------------------------------------- the partial theorem, broker half *)

Theorem no_duplicate_consistent c sched :
  let y := yrun c sched in
  consistent (hist_claims (y_hist y)) ->
  (forall i, (appended i y <= 1)%nat) /\
  (forall l i, In l (y_hist y) -> accepted_entry l = true -> In i (ba_ids (rl_batch l)) -> appended i y = 1%nat).
Proof.
  intros y Hc. destruct (hist_inv_run c sched) as [Hb Hv]. fold y in Hb, Hv. unfold appended. rewrite Hb. split.
  - intros i. apply count_id_le_nodup, broker_no_duplicate, Hc.
  - intros l i. apply broker_accepted_once; assumption.
Qed.

(* ---------------------------------------------------------------- transaction manager *)

Lemma seq_get_set_same k v l : seq_get k (seq_set k v l) = v.
Proof.
  induction l as [|[k' v'] r IH]; cbn [seq_set seq_get]; [rewrite tpk_eqb_refl; reflexivity|].
  destruct (tpk_eqb k k') eqn:E; cbn [seq_get]; rewrite E; [reflexivity | exact IH].
Qed.
Lemma seq_get_set_other k k' v l : k' <> k -> seq_get k' (seq_set k v l) = seq_get k' l.
Proof.
  intros N. induction l as [|[k2 v2] r IH]; cbn [seq_set seq_get].
  - apply tpk_eqb_neq in N. rewrite N. reflexivity.
  - destruct (tpk_eqb k k2) eqn:E; cbn [seq_get].
    + apply tpk_eqb_eq in E. subst k2. apply tpk_eqb_neq in N. rewrite N. reflexivity.
    + destruct (tpk_eqb k' k2); [reflexivity | exact IH].
Qed.
Lemma seq_get_reset k l : seq_get k (map (fun kv : tpk * Z => (fst kv, 0)) l) = 0.
Proof. induction l as [|[k' v'] r IH]; cbn [map seq_get fst]; [reflexivity|]. destruct (tpk_eqb k k'); [reflexivity | exact IH]. Qed.

(* every stamp issued so far lies strictly below the manager's current position *)
Definition below (t : txn) (s : stamp) : Prop :=
  let '(k, ep, sq) := s in ep < fst t \/ (ep = fst t /\ sq < seq_get k (snd t)).

Lemma txn_issue_fresh : forall ops t s, In s (txn_issue t ops) -> ~ below t s.
Proof.
  induction ops as [|[k|] r IH]; intros t s H; cbn [txn_issue] in H; [contradiction| |].
  - unfold txn_stamp in H. cbn [fst snd] in H. destruct H as [<-|H].
    + unfold below. cbn [fst snd]. lia.
    + apply IH in H. intros B. apply H. destruct s as [[k' ep] sq]. unfold below in *. cbn [fst snd] in *.
      destruct B as [B|[B1 B2]]; [left; exact B | right; split; [exact B1|]].
      destruct (tpk_eqb k' k) eqn:E.
      * apply tpk_eqb_eq in E. subst k'. rewrite seq_get_set_same. lia.
      * apply tpk_eqb_neq in E. rewrite seq_get_set_other; [exact B2 | exact E].
  - apply IH in H. intros B. apply H. destruct s as [[k' ep] sq]. unfold below, txn_bump in *. cbn [fst snd] in *.
    left. lia.
Qed.

Theorem stamps_unique : forall ops t, NoDup (txn_issue t ops).
Proof.
  induction ops as [|[k|] r IH]; intros t; cbn [txn_issue]; [constructor| |apply IH].
  unfold txn_stamp. cbn [fst snd]. constructor; [|apply IH].
  intros H. apply txn_issue_fresh in H. apply H. unfold below. cbn [fst snd].
  right. split; [reflexivity|]. rewrite seq_get_set_same. lia.
Qed.

(* the composition uses exactly these functions *)
Lemma stamp_is_txn c w s t p :
  txn_of (apply_eff c w s (EStamp t p)) = snd (txn_stamp (txn_of s) (t, p)).
Proof. reflexivity. Qed.
Lemma bump_is_txn s : txn_of (bump_epoch s) = txn_bump (txn_of s).
Proof. reflexivity. Qed.
Lemma run_pp_reads_txn s k : (seq_get k (g_seqs s), g_epoch s) = fst (txn_stamp (txn_of s) k).
Proof. reflexivity. Qed.

(* ---------------------------------------------------------------- retryBatch re-sends the identical batch *)

Lemma stamp4_retries ms : map stamp4 (map (fun m => set_retries m (S (m_retries m))) ms) = map stamp4 ms.
Proof. induction ms as [|m r IH]; cbn [map]; [reflexivity|]. rewrite IH. reflexivity. Qed.

Theorem resend_identical c ep k ms e l b s :
  In (ERbSend b s) (rb_step c ep k ms e l) ->
  exists ms', s_parts s = [(k, ms')] /\ map stamp4 ms' = map stamp4 ms /\
              (forall w ep0, ms <> [] -> In (m_id (hd (mkMsg 0 0 0 0%nat 0 0 false 0 false 0 0 false []) ms)) (map fst w) ->
                             batch_of w (s_epoch s) (k, ms') = batch_of w ep0 (k, ms)).
Proof.
  unfold rb_step. destruct (first_exhausted c ms).
  - destruct (c_fix_rb c); [|intros [H|[]]; discriminate].
    unfold return_errors. intros H. apply in_map_iff in H as [? [H _]]. discriminate.
  - destruct l as [b'|e'].
    + intros [H|[]]. injection H as <- <-. eexists. split; [reflexivity|]. split; [apply stamp4_retries|].
      intros w ep0 Hne Hin. destruct ms as [|m r]; [contradiction|]. cbn [map hd] in *.
      unfold batch_of. cbn [fst snd s_epoch map]. f_equal.
      * cbn [set_retries m_id].
        assert (G : forall w d d', In (m_id m) (map fst w) -> wire_get (m_id m) w d = wire_get (m_id m) w d').
        { clear. induction w as [|[j x] w IH]; intros d d' H; [contradiction|]. cbn [wire_get].
          destruct (m_id m =? j) eqn:E; [reflexivity|]. apply IH. destruct H as [H|H]; [|exact H].
          cbn [fst] in H. subst j. rewrite Z.eqb_refl in E. discriminate. }
        apply G, Hin.
      * f_equal. rewrite map_map. apply map_ext. reflexivity.
    + unfold return_errors. intros H. apply in_map_iff in H as [? [H _]]. discriminate.
Qed.

(* ---------------------------------------------------------------- appended batches are consecutive *)

Definition chain_from (p : pst) (ep : Z) (bs : list batch) : Prop :=
  if ps_epoch p <? ep then chain (-1) bs
  else if ps_epoch p =? ep then chain (ps_last p) bs
  else bs = [].

Lemma appended_batches_cons k ep l r :
  appended_batches k ep (l :: r) =
  (if tpk_eqb (ba_key (rl_batch l)) k && (ba_epoch (rl_batch l) =? ep) &&
      match rl_verdict l with Some (VAppend _) => true | _ => false end
   then [rl_batch l] else []) ++ appended_batches k ep r.
Proof. unfold appended_batches. cbn [filter]. destruct (_ && _ && _); reflexivity. Qed.

Lemma chain_from_contiguous k ep : forall h br, verdicts_ok br h -> (0 <= ep) ->
  chain_from (br_get k br) ep (appended_batches k ep h).
Proof.
  induction h as [|l r IH]; intros br Hv Hep.
  - unfold appended_batches, chain_from. cbn [filter map chain]. destruct (_ <? _); [exact I|]. destruct (_ =? _); [exact I | reflexivity].
  - cbn [verdicts_ok] in Hv. destruct Hv as [Hv1 Hv2]. specialize (IH _ Hv2 Hep).
    rewrite appended_batches_cons. unfold replay_step, applied in IH.
    destruct (rl_verdict l) as [v|] eqn:Ev.
    2:{ rewrite !andb_false_r. exact IH. }
    subst v. set (b := rl_batch l) in *. set (p := br_get (ba_key b) br) in *.
    destruct (tpk_eqb (ba_key b) k) eqn:Ek.
    2:{ cbn [andb app]. apply tpk_eqb_neq in Ek. rewrite br_get_set_other in IH; [exact IH | congruence]. }
    apply tpk_eqb_eq in Ek. rewrite <- Ek in *. fold p. rewrite br_get_set_same in IH. cbn [andb].
    unfold apply_batch in IH. destruct (decide p b) as [base|base| |] eqn:D;
      try (rewrite andb_false_r; cbn [app]; exact IH).
    apply decide_append in D as [_ Hcase]. unfold chain_from in *. cbn [ps_epoch ps_last] in IH.
    destruct (ba_epoch b =? ep) eqn:Ee; cbn [andb app].
    + apply Z.eqb_eq in Ee. rewrite Ee, Z.ltb_irrefl in IH.
      destruct Hcase as [[Hlt Hf]|[Heq Hf]].
      * assert (ps_epoch p <? ep = true) as -> by (apply Z.ltb_lt; lia). cbn [chain]. split; [lia | exact IH].
      * assert (ps_epoch p <? ep = false) as -> by (apply Z.ltb_ge; lia).
        assert (ps_epoch p =? ep = true) as -> by (apply Z.eqb_eq; lia). cbn [chain]. split; [lia | exact IH].
    + apply Z.eqb_neq in Ee.
      destruct (ps_epoch p <? ep) eqn:E1.
      * apply Z.ltb_lt in E1. destruct (ba_epoch b <? ep) eqn:E2; [exact IH|]. rewrite IH. exact I.
      * apply Z.ltb_ge in E1. assert (ba_epoch b <? ep = false) as E2 by (apply Z.ltb_ge; destruct Hcase as [[? _]|[? _]]; lia).
        rewrite E2 in IH. rewrite IH. destruct (ps_epoch p =? ep); [exact I | reflexivity].
Qed.

Theorem appended_contiguous c sched k ep : 0 <= ep ->
  chain (-1) (appended_batches k ep (y_hist (yrun c sched))).
Proof.
  intros Hep. destruct (hist_inv_run c sched) as [_ Hv].
  pose proof (chain_from_contiguous k ep _ [] Hv Hep) as H. unfold chain_from in H. cbn [br_get pst0 ps_epoch] in H.
  assert (-1 <? ep = true) as E by (apply Z.ltb_lt; lia). rewrite E in H. exact H.
Qed.
