(* C05 proofs, part 7: environment-class invariants of the composed system.
   Class: no epoch bump while a sequenced message is unresolved (after every step that changes the epoch no
   sequenced message is left anywhere).  In that class, for every schedule and fault script (connection-level
   failures included): every sequenced message anywhere carries the current epoch; in idempotent mode every
   application message on the broker side is sequenced; every set held by a broker worker that contains an
   application message is labelled with the current epoch.  Hence no batch ever leaves with a label other than
   the epoch its messages were stamped under (the mechanism of defect (ii)). *)
From Coq Require Import List ZArith Bool Arith Lia.
From SV Require Import Producer.Msg Producer.Actors Producer.Compose Producer.Global
                       C05.Model C05.Witness C05.ProofsBroker C05.ProofsSys C05.ProofsClient C05.ProofsLink C05.ProofsClosure.
Import ListNotations.
Open Scope Z_scope.

Definition stamped (m : msg) : bool := is_data m && m_hasseq m.

Section Preds.
Variable E : Z.

Definition base (m : msg) : Prop := stamped m = true -> m_epoch m = E.
(* before the partition worker's stamping point: a sequenced message is on a retry pass; an application message on a retry pass is sequenced *)
Definition up (m : msg) : Prop :=
  base m /\ (stamped m = true -> fresh_pass m = false) /\ (is_data m = true -> fresh_pass m = false -> m_hasseq m = true).
Definition upk (k : tpk) (m : msg) : Prop := up m /\ (is_data m = true -> msg_key m = k).
(* behind it *)
Definition down (m : msg) : Prop := base m /\ (is_data m = true -> m_hasseq m = true).

Definition PE : preds :=
  mkPreds (fun d m => match d with
                      | DDisp | DRetry | DTopic _ => up m
                      | DPart t p => upk (t, p) m
                      | DBp _ => down m
                      | DCur => True
                      end) upk down.

Lemma stamped_retries m r : stamped (set_retries m r) = stamped m. Proof. reflexivity. Qed.
Lemma stamped_body m sz h : stamped (set_body m sz h) = stamped m. Proof. reflexivity. Qed.
Lemma stamped_part m p : stamped (set_part m p) = stamped m. Proof. reflexivity. Qed.

Lemma transfers_PE c sqf : c_idem c = true -> transfers PE True c E sqf.
Proof.
  intros Hi. constructor; cbn [PE PQ PL PB].
  - intros m sz h [H1 [H2 H3]]. repeat split; assumption.
  - intros t m [H1 [H2 H3]] Hf Hp. split; [repeat split|].
    + intros Hs. rewrite stamped_part in Hs. rewrite (H2 Hs) in Hf. discriminate.
    + intros Hs. rewrite stamped_part in Hs. rewrite (H2 Hs) in Hf. discriminate.
    + intros _ Hf'. unfold fresh_pass in *. cbn [set_part m_retries] in Hf'. congruence.
    + intros _. reflexivity.
  - intros t m Hu Hf. split; [exact Hu | intros _; reflexivity].
  - intros m H; exact H.
  - intros _. constructor; cbn [PE PQ PL PB].
    + intros t p m H; exact H.
    + intros t p b m [[H1 [H2 H3]] H4]. destruct (c_idem c && fresh_pass m && is_data m) eqn:Ec.
      * split; [intros _; reflexivity | intros _; reflexivity].
      * split; [exact H1|]. intros Hd. rewrite Hi, Hd, andb_true_r in Ec. cbn [andb] in Ec. apply H3; assumption.
    + intros t p b m sq [[H1 [H2 H3]] H4] _. destruct (c_idem c && fresh_pass m && is_data m && negb (m_hasseq m)) eqn:Ec.
      * split; [intros _; reflexivity | intros _; reflexivity].
      * split; [exact H1|]. intros Hd. rewrite Hi, Hd in Ec. cbn [andb] in Ec. rewrite andb_true_r in Ec.
        destruct (m_hasseq m); [reflexivity|]. rewrite andb_true_r in Ec. apply H3; assumption.
    + intros t p b r. split; (split; [intros H; discriminate | intros H; discriminate]).
  - intros b m H; exact H.
  - intros b m [H1 H2]. split; [exact H1 | split; [intros _; reflexivity | intros Hd _; apply H2, Hd]].
  - intros m [H1 H2]. split; [exact H1 | split; [intros _; reflexivity | intros Hd _; apply H2, Hd]].
  - intros m H; exact H.
Qed.

Lemma PE_submit x : PQ PE DDisp (fresh_of x).
Proof.
  cbn [PE PQ]. split; [intros H; vm_compute in H; discriminate|].
  split; [intros H; vm_compute in H; discriminate | intros _ H; vm_compute in H; discriminate].
Qed.
Lemma PE_shutdown c : PQ PE DDisp (shutdown_marker c).
Proof.
  cbn [PE PQ]. split; [intros H; vm_compute in H; discriminate|].
  split; [intros H; vm_compute in H; discriminate | intros H; vm_compute in H; discriminate].
Qed.

End Preds.

Lemma places_and P1 P2 P3 s : places_ok P1 s -> places_ok P2 s ->
  (forall d m, PQ P1 d m -> PQ P2 d m -> PQ P3 d m) -> (forall k m, PL P1 k m -> PL P2 k m -> PL P3 k m) ->
  (forall m, PB P1 m -> PB P2 m -> PB P3 m) -> places_ok P3 s.
Proof.
  intros [A1 A2 A3 A4] [B1 B2 B3 B4] Hq Hl Hb.
  assert (F2 : forall (X Y Z : msg -> Prop) l, Forall X l -> Forall Y l -> (forall m, X m -> Y m -> Z m) -> Forall Z l).
  { intros X Y Z l HX HY HZ. rewrite Forall_forall in *. intros m Hm. apply HZ; auto. }
  constructor.
  - intros d l Hin. eapply F2; [eapply A1, Hin | eapply B1, Hin | apply Hq].
  - intros k x Hk. eapply F2; [eapply A2, Hk | eapply B2, Hk | apply Hl].
  - rewrite Forall_forall in *. intros x Hx. eapply F2; [apply A3, Hx | apply B3, Hx | apply Hb].
  - rewrite Forall_forall in *. intros x Hx. eapply F2; [apply A4, Hx | apply B4, Hx | apply Hb].
Qed.

(* the epoch-independent part of the predicates: holds across steps that move the epoch, whatever stamps they use *)
Definition upw (m : msg) : Prop :=
  (stamped m = true -> fresh_pass m = false) /\ (is_data m = true -> fresh_pass m = false -> m_hasseq m = true).
Definition upkw (k : tpk) (m : msg) : Prop := upw m /\ (is_data m = true -> msg_key m = k).
Definition downw (m : msg) : Prop := is_data m = true -> m_hasseq m = true.
Definition PEw : preds :=
  mkPreds (fun d m => match d with
                      | DDisp | DRetry | DTopic _ => upw m
                      | DPart t p => upkw (t, p) m
                      | DBp _ => downw m
                      | DCur => True
                      end) upkw downw.

Lemma PE_PEw E s : places_ok (PE E) s -> places_ok PEw s.
Proof.
  intros H. eapply places_and; [exact H | exact H | | |]; cbn [PE PEw PQ PL PB].
  - intros d m H1 _. destruct d; try exact I; try (destruct H1 as [_ H1]; exact H1).
    destruct H1 as [[_ H1] H2]. split; assumption.
  - intros k m [[_ H1] H2] _. split; assumption.
  - intros m [_ H1] _. exact H1.
Qed.

Lemma transfers_PEw c ep sqf : c_idem c = true -> transfers PEw True c ep sqf /\ transfers_any PEw c.
Proof.
  intros Hi.
  assert (Fwd : forall t p m sq e, upkw (t, p) m -> downw (if c_idem c && fresh_pass m && is_data m then set_stamp m sq e else m)).
  { intros t p m sq e [[H2 H3] H4]. destruct (c_idem c && fresh_pass m && is_data m) eqn:Ec; [intros _; reflexivity|].
    intros Hd. rewrite Hi, Hd, andb_true_r in Ec. cbn [andb] in Ec. apply H3; assumption. }
  assert (Fl : forall t p m sq e, upkw (t, p) m -> downw (if c_idem c && fresh_pass m && is_data m && negb (m_hasseq m) then set_stamp m sq e else m)).
  { intros t p m sq e [[H2 H3] H4]. destruct (c_idem c && fresh_pass m && is_data m && negb (m_hasseq m)) eqn:Ec; [intros _; reflexivity|].
    intros Hd. rewrite Hi, Hd in Ec. cbn [andb] in Ec. rewrite andb_true_r in Ec.
    destruct (m_hasseq m); [reflexivity|]. rewrite andb_true_r in Ec. apply H3; assumption. }
  split; [constructor|constructor]; cbn [PEw PQ PL PB].
  - intros m sz h [H2 H3]. split; assumption.
  - intros t m [H2 H3] Hf Hp. split; [split|].
    + intros Hs. rewrite stamped_part in Hs. rewrite (H2 Hs) in Hf. discriminate.
    + intros _ Hf'. unfold fresh_pass in *. cbn [set_part m_retries] in Hf'. congruence.
    + intros _. reflexivity.
  - intros t m Hu Hf. split; [exact Hu | intros _; reflexivity].
  - intros m H; exact H.
  - intros _. constructor; cbn [PEw PQ PL PB].
    + intros t p m H; exact H.
    + intros t p b m H. eapply Fwd, H.
    + intros t p b m sq H _. eapply Fl, H.
    + intros t p b r. split; intros H; discriminate.
  - intros b m H; exact H.
  - intros b m H. split; [intros _; reflexivity | intros Hd _; apply H, Hd].
  - intros m H. split; [intros _; reflexivity | intros Hd _; apply H, Hd].
  - intros m H; exact H.
  - intros t p b m sq e H. eapply Fwd, H.
  - intros t p b m sq e H. eapply Fl, H.
Qed.

Lemma PEw_submit x : PQ PEw DDisp (fresh_of x).
Proof. cbn [PEw PQ]. split; [intros H; vm_compute in H; discriminate | intros _ H; vm_compute in H; discriminate]. Qed.
Lemma PEw_shutdown c : PQ PEw DDisp (shutdown_marker c).
Proof. cbn [PEw PQ]. split; [intros H; vm_compute in H; discriminate | intros H; vm_compute in H; discriminate]. Qed.


(* ---------------------------------------------------------------- labels of the sets a broker worker holds *)

Definition lab_ok (E : Z) (ps : pset) : Prop := forall m, In m (set_msgs ps) -> is_data m = true -> s_epoch ps = E.

Record bp_lab (E : Z) (x : bpi) : Prop := mkBpLab {
  bl_buf : lab_ok E (b_buf (i_st x));
  bl_bridge : Forall (lab_ok E) (i_bridge x);
  bl_infl : forall ps, i_infl x = Some ps -> lab_ok E ps
}.
Definition lab_inv (E : Z) (s : state) : Prop := Forall (bp_lab E) (g_bps s).
Definition eff_lab (E : Z) (e : effect) : Prop :=
  match e with EBridge ps => lab_ok E ps | ERbSend _ ps => lab_ok E ps | _ => True end.

Lemma lab_ok_empty E e : lab_ok E (empty_set e). Proof. intros m []. Qed.

Lemma bp_lab_ref E x : bp_lab E x -> bp_lab E (bi_ref x). Proof. intros [H1 H2 H3]. constructor; assumption. Qed.
Lemma bp_lab_unref E x : bp_lab E x -> bp_lab E (bi_unref x).
Proof. intros [H1 H2 H3]. unfold bi_unref. destruct (i_refs x - 1 =? 0); constructor; assumption. Qed.
Lemma bp_lab_abandon E c x : bp_lab E x -> bp_lab E (bi_abandon c x). Proof. intros [H1 H2 H3]. constructor; assumption. Qed.
Lemma bp_lab_new E br e : bp_lab E (bi_ref (bi_new br e)).
Proof. constructor; cbn; [apply lab_ok_empty | constructor | intros ps H; discriminate]. Qed.
Lemma bp_lab_push E x ps : bp_lab E x -> lab_ok E ps -> bp_lab E (bi_with_bridge x (i_bridge x ++ [ps]) (i_infl x) (i_resp x)).
Proof.
  intros [H1 H2 H3] Hs. constructor; cbn [bi_with_bridge i_st i_bridge i_infl i_resp]; auto.
  apply Forall_app. split; [exact H2 | constructor; [exact Hs | constructor]].
Qed.

Lemma get_bp_lab E s br : lab_inv E s -> lab_inv E (fst (get_bp s br)).
Proof.
  intros H. unfold get_bp, lab_inv. destruct (find_reg br (g_bps s) 0%nat); cbn [fst set_bps g_bps].
  - apply Forall_bp_upd'; [exact H | apply bp_lab_ref].
  - apply Forall_app. split; [exact H | constructor; [apply bp_lab_new | constructor]].
Qed.

Lemma lab_same E s s' : g_bps s' = g_bps s -> lab_inv E s -> lab_inv E s'.
Proof. unfold lab_inv. intros ->. auto. Qed.

Lemma set_handle_bps' s w h : g_bps (set_handle s w h) = g_bps s.
Proof. unfold set_handle. destruct w; try reflexivity. destruct (pp_get k (g_pps s)); reflexivity. Qed.

Lemma apply_eff_lab E c w s e : lab_inv E s -> eff_lab E e -> lab_inv E (apply_eff c w s e).
Proof.
  intros H He. assert (Same : forall s', g_bps s' = g_bps s -> lab_inv E s') by (intros s' Es; eapply lab_same; eassumption).
  destruct e; cbn [apply_eff eff_lab] in *.
  - destruct d; try (apply Same; reflexivity).
    destruct (handle_of s w); [|exact H]. destruct (nth_error (g_bps s) n); [|exact H].
    destruct (i_in_closed b); apply Same; reflexivity.
  - unfold emit. destruct (m_hasseq m); destruct (g_closed s); apply Same; reflexivity.
  - unfold emit. destruct (g_closed s); apply Same; reflexivity.
  - unfold emit. destruct (g_closed s); apply Same; reflexivity.
  - apply Same; reflexivity.
  - apply Same; reflexivity.
  - apply Same; reflexivity.
  - apply Same; reflexivity.
  - apply Same; reflexivity.
  - destruct (handle_of s w) as [b|]; [|exact H]. eapply lab_same; [apply set_handle_bps'|].
    unfold lab_inv. cbn [set_bps g_bps]. apply Forall_bp_upd'; [exact H | apply bp_lab_unref].
  - pose proof (get_bp_lab E s broker H) as G. destruct (get_bp s broker) as [s1 b]. cbn [fst] in G.
    eapply lab_same; [apply set_handle_bps' | exact G].
  - destruct (find_reg broker (g_bps s) 0%nat) as [b|]; [|exact H].
    unfold lab_inv. cbn [set_bps g_bps]. apply Forall_bp_upd'; [exact H | apply bp_lab_abandon].
  - destruct w; try exact H. destruct (nth_error (g_bps s) b); [|exact H].
    unfold lab_inv. cbn [set_bps g_bps]. apply Forall_bp_upd'; [exact H | intros x Hx; apply bp_lab_push; assumption].
  - apply Same; reflexivity.
  - pose proof (get_bp_lab E s broker H) as G. destruct (get_bp s broker) as [s1 b]. cbn [fst] in G.
    unfold lab_inv. cbn [set_bps g_bps]. apply Forall_bp_upd'; [exact G | intros x Hx; apply bp_lab_push; assumption].
  - exact H.
  - apply Same; reflexivity.
Qed.

Lemma apply_effs_lab E c w : forall l s, lab_inv E s -> Forall (eff_lab E) l -> lab_inv E (apply_effs c w s l).
Proof.
  induction l as [|e l IH]; intros s H Hl; cbn [apply_effs fold_left]; [exact H|].
  inversion Hl; subst. apply IH; [apply apply_eff_lab; assumption | assumption].
Qed.

Definition nolab (l : list effect) : bool := forallb (fun e => match e with EBridge _ | ERbSend _ _ => false | _ => true end) l.
Lemma nolab_ok E l : nolab l = true -> Forall (eff_lab E) l.
Proof.
  induction l as [|e l IH]; intros H; [constructor|]. cbn [nolab forallb] in H. apply andb_true_iff in H as [H1 H2].
  constructor; [destruct e; try exact I; discriminate | apply IH, H2].
Qed.
Lemma nosend_nolab l : nosend l = true -> nolab l = true.
Proof.
  induction l as [|e l IH]; [reflexivity|]. cbn [nosend nolab forallb]. intros H. apply andb_true_iff in H as [H1 H2].
  fold (nolab l). rewrite (IH H2), andb_true_r. destruct e; try reflexivity; discriminate.
Qed.
Lemma nolab_app a b : nolab (a ++ b) = nolab a && nolab b. Proof. apply forallb_app. Qed.

(* ---------------------------------------------------------------- the broker worker keeps its labels *)

Section Labels.
Variable E : Z.
Variable c : cfg.
Hypothesis Hidem : c_idem c = true.

Lemma in_part_add x k m : forall ps, In x (parts_msgs (part_add k m ps)) -> In x (parts_msgs ps) \/ x = m.
Proof.
  induction ps as [|[k' l] r IH]; cbn [part_add parts_msgs]; intros H.
  - rewrite app_nil_r in H. destruct H as [<-|[]]. right; reflexivity.
  - destruct (tpk_eqb k k'); cbn [parts_msgs] in H; apply in_app_or in H as [H|H].
    + apply in_app_or in H as [H|[<- |[]]]; [left; apply in_or_app; left; exact H | right; reflexivity].
    + left; apply in_or_app; right; exact H.
    + left; apply in_or_app; left; exact H.
    + destruct (IH H) as [G|G]; [left; apply in_or_app; right; exact G | right; exact G].
Qed.
Lemma in_part_drop x k : forall ps, In x (parts_msgs (part_drop k ps)) -> In x (parts_msgs ps).
Proof.
  induction ps as [|[k' l] r IH]; cbn [part_drop parts_msgs]; intros H; [exact H|].
  destruct (tpk_eqb k k'); cbn [parts_msgs] in *; [apply in_or_app; right; exact H|].
  apply in_app_or in H as [H|H]; apply in_or_app; [left; exact H | right; apply IH, H].
Qed.
Lemma in_hs_phase2 x bl : forall ps cur buf, In x (parts_msgs (snd (fst (hs_phase2 c bl ps cur buf)))) -> In x (parts_msgs buf).
Proof.
  induction ps as [|[k l] r IH]; intros cur buf H; cbn [hs_phase2] in H; [exact H|].
  destruct (block_lookup k bl) as [[e off]|]; [|apply (IH _ _ H)]. destruct (retriable e); [|apply (IH _ _ H)].
  specialize (IH (cur_set k e cur) (part_drop k buf)).
  destruct (hs_phase2 c bl r (cur_set k e cur) (part_drop k buf)) as [[cur' buf'] effs']. cbn [fst snd] in *.
  eapply in_part_drop, IH, H.
Qed.

Lemma down_epoch m : down E m -> is_data m = true -> m_epoch m = E.
Proof. intros [H1 H2] Hd. apply H1. unfold stamped. rewrite Hd, (H2 Hd). reflexivity. Qed.

Lemma do_add_lab st m : lab_ok E (b_buf st) -> (is_data m = true -> s_epoch (b_buf st) = E) ->
  lab_ok E (b_buf (fst (fst (do_add c st m)))).
Proof.
  intros Hl Hm. unfold do_add. destruct (m_encfail m); [exact Hl|].
  match goal with |- context [if ?b then _ else _] => destruct b end; cbn [fst b_buf]; [exact Hl|].
  intros x Hx Hd. unfold set_msgs in Hx. cbn [s_parts s_epoch] in *. apply in_part_add in Hx as [Hx| ->]; [eapply Hl; eassumption | apply Hm, Hd].
Qed.
Lemma after_over_lab st m : lab_ok E (b_buf st) -> down E m -> lab_ok E (b_buf (fst (fst (after_over c st m)))).
Proof.
  intros Hl Hm. unfold after_over. rewrite Hidem. cbn [andb].
  destruct (s_epoch (b_buf st) =? m_epoch m) eqn:Ee; cbn [negb]; [|exact Hl].
  apply do_add_lab; [exact Hl|]. intros Hd. apply Z.eqb_eq in Ee. rewrite Ee. apply down_epoch; assumption.
Qed.
Lemma recv_data_lab st m : lab_ok E (b_buf st) -> down E m -> lab_ok E (b_buf (fst (fst (recv_data c st m)))).
Proof. intros Hl Hm. unfold recv_data. destruct (would_overflow c (b_buf st) m); [exact Hl | apply after_over_lab; assumption]. Qed.

Lemma handle_response_lab st sent r : lab_ok E (b_buf st) -> lab_ok E (b_buf (fst (handle_response c E st sent r))).
Proof.
  intros Hl. unfold handle_response.
  assert (HX : forall X : bp * list effect, lab_ok E (b_buf (fst X)) ->
     lab_ok E (b_buf (fst (let '(st1, effs) := X in if set_empty (b_buf st1) then (rollover st1 (E + bumps effs), effs) else (st1, effs))))).
  { intros [st1 effs] H. cbn [fst] in *. destruct (set_empty (b_buf st1)); cbn [fst]; [apply lab_ok_empty | exact H]. }
  apply HX. destruct r as [e [|]| |bl]; cbn [fst]; try exact Hl; [apply lab_ok_empty|].
  destruct (c_retry_max c =? 0)%nat; [exact Hl|].
  pose proof (fun x => in_hs_phase2 x bl (s_parts sent) (b_cur st) (s_parts (b_buf st))) as Hin.
  destruct (hs_phase2 c bl (s_parts sent) (b_cur st) (s_parts (b_buf st))) as [[cur buf] e2]. cbn [fst snd] in *.
  intros x Hx Hd. cbn [with_cur with_buf b_buf s_epoch] in *. unfold set_msgs in Hx. cbn [s_parts] in Hx. eapply Hl; [apply Hin, Hx | exact Hd].
Qed.

Lemma nolab_do_add st m : nolab (snd (fst (do_add c st m))) = true.
Proof. apply nosend_nolab. unfold do_add. destruct (m_encfail m); [reflexivity|]. match goal with |- context [if ?b then _ else _] => destruct b end; reflexivity. Qed.
Lemma nolab_after_over st m : nolab (snd (fst (after_over c st m))) = true.
Proof. unfold after_over. destruct (c_idem c && negb (s_epoch (b_buf st) =? m_epoch m)); [reflexivity | apply nolab_do_add]. Qed.
Lemma nolab_recv_data st m : nolab (snd (fst (recv_data c st m))) = true.
Proof. unfold recv_data. destruct (would_overflow c (b_buf st) m); [reflexivity | apply nolab_after_over]. Qed.
Lemma nolab_retry_msg m e : nolab [retry_msg c m e] = true.
Proof. unfold retry_msg. destruct (c_retry_max c <=? m_retries m)%nat; reflexivity. Qed.
Lemma nolab_retry_msgs l e : nolab (retry_msgs c l e) = true.
Proof.
  unfold retry_msgs. induction l as [|m l IH]; [reflexivity|]. cbn [map]. change (nolab ([retry_msg c m e] ++ map (fun m0 => retry_msg c m0 e) l) = true).
  rewrite nolab_app, nolab_retry_msg, IH. reflexivity.
Qed.
Lemma nolab_all_retry e : forall ps, nolab (all_retry c ps e) = true.
Proof. induction ps as [|[k l] r IH]; [reflexivity|]. cbn [all_retry]. rewrite nolab_app, nolab_retry_msgs, IH. reflexivity. Qed.
Lemma nolab_hs_phase2 bl : forall ps cur buf, nolab (snd (hs_phase2 c bl ps cur buf)) = true.
Proof.
  induction ps as [|[k l] r IH]; intros; [reflexivity|]. cbn [hs_phase2].
  destruct (block_lookup k bl) as [[e off]|]; [|apply IH]. destruct (retriable e); [|apply IH].
  specialize (IH (cur_set k e cur) (part_drop k buf)).
  destruct (hs_phase2 c bl r (cur_set k e cur) (part_drop k buf)) as [[cur' buf'] effs']. cbn [snd] in *.
  rewrite !nolab_app, IH, nolab_retry_msgs. destruct (c_idem c); [reflexivity | rewrite nolab_retry_msgs; reflexivity].
Qed.
Lemma nolab_handle_response e0 st sent r : nolab (snd (handle_response c e0 st sent r)) = true.
Proof.
  unfold handle_response.
  assert (HX : forall X : bp * list effect, nolab (snd X) = true ->
     nolab (snd (let '(st1, effs) := X in if set_empty (b_buf st1) then (rollover st1 (e0 + bumps effs), effs) else (st1, effs))) = true).
  { intros [st1 effs] H. destruct (set_empty (b_buf st1)); exact H. }
  apply HX. destruct r as [e [|]| |bl]; cbn [snd].
  - apply nosend_nolab, ns_all_errors.
  - change (nolab ([EAbandon (b_broker st)] ++ all_retry c (s_parts sent) e ++ all_retry c (s_parts (b_buf st)) e) = true).
    rewrite !nolab_app, !nolab_all_retry. reflexivity.
  - apply nosend_nolab, ns_hs_phase1.
  - destruct (c_retry_max c =? 0)%nat; [apply nosend_nolab, ns_hs_phase1|].
    pose proof (nolab_hs_phase2 bl (s_parts sent) (b_cur st) (s_parts (b_buf st))) as H2.
    destruct (hs_phase2 c bl (s_parts sent) (b_cur st) (s_parts (b_buf st))) as [[cur buf] e2]. cbn [snd] in *.
    rewrite nolab_app, H2, (nosend_nolab _ (ns_hs_phase1 c (b_broker st) (RBlocks bl) (s_parts sent))). reflexivity.
Qed.

Lemma bp_core_lab st i : lab_ok E (b_buf st) -> Forall (down E) (bp_msgs st) -> (forall m, i = BRecv m -> down E m) ->
  lab_ok E (b_buf (fst (fst (bp_core c E st i)))) /\ Forall (eff_lab E) (snd (fst (bp_core c E st i))).
Proof.
  intros Hl Hst Hin. pose proof (proj1 (bp_msgs_split (mkPreds (fun _ _ => True) (fun _ _ => True) (down E)) st) Hst) as [Hb Hw].
  cbn [PB] in Hb, Hw. unfold bp_core. destruct i as [m| | | |sent r].
  - specialize (Hin m eq_refl).
    destruct (b_mode st); try (split; [exact Hl | apply nolab_ok; reflexivity]).
    destruct (b_wait st); try (split; [exact Hl | apply nolab_ok; reflexivity]).
    destruct (is_syn m); [split; [exact Hl | apply nolab_ok; reflexivity]|].
    destruct (needs_retry st m).
    + cbn [fst snd]. split; [destruct (b_closing st); [|destruct (is_fin m)]; exact Hl | apply nolab_ok, nolab_retry_msg].
    + destruct (is_fin m); [cbn [fst snd]; split; [exact Hl | apply nolab_ok, nolab_retry_msg]|].
      split; [apply recv_data_lab; assumption | apply nolab_ok, nolab_recv_data].
  - destruct (b_mode st), (b_wait st); (split; [exact Hl | constructor]).
  - destruct (b_timer st && flush_poll st); (split; [exact Hl | constructor]).
  - destruct (flush_enabled st); [|split; [exact Hl | constructor]].
    assert (Hk1 : lab_ok E (b_buf (with_wait (rollover st E) WNone))) by apply lab_ok_empty.
    destruct (b_wait st) as [|m|m] eqn:Ew; cbn [fst snd].
    + split; [apply lab_ok_empty | constructor; [exact Hl | constructor]].
    + cbn [wait_msgs] in Hw. inversion Hw as [|? ? Hm0 Hm1]; subst.
      pose proof (after_over_lab (with_wait (rollover st E) WNone) m Hk1 Hm0) as H1.
      pose proof (nolab_after_over (with_wait (rollover st E) WNone) m) as H2.
      destruct (after_over c (with_wait (rollover st E) WNone) m) as [[st2 e2] u]. cbn [fst snd] in *.
      split; [exact H1 | constructor; [exact Hl | apply nolab_ok, H2]].
    + cbn [wait_msgs] in Hw. inversion Hw as [|? ? Hm0 Hm1]; subst.
      pose proof (do_add_lab (with_wait (rollover st E) WNone) m Hk1 (fun _ => eq_refl)) as H1.
      pose proof (nolab_do_add (with_wait (rollover st E) WNone) m) as H2.
      destruct (do_add c (with_wait (rollover st E) WNone) m) as [[st2 e2] u]. cbn [fst snd] in *.
      split; [exact H1 | constructor; [exact Hl | apply nolab_ok, H2]].
  - pose proof (handle_response_lab st sent r Hl) as K1.
    pose proof (nolab_handle_response E st sent r) as N1.
    assert (Kw : b_wait (fst (handle_response c E st sent r)) = b_wait st).
    { unfold handle_response. destruct r as [e [|]| |bl].
      - destruct (set_empty (b_buf st)); reflexivity.
      - match goal with |- context [if ?b then _ else _] => destruct b end; reflexivity.
      - destruct (set_empty (b_buf st)); reflexivity.
      - destruct (c_retry_max c =? 0)%nat; [destruct (set_empty (b_buf st)); reflexivity|].
        destruct (hs_phase2 c bl (s_parts sent) (b_cur st) (s_parts (b_buf st))) as [[cur buf] e2].
        match goal with |- context [if ?b then _ else _] => destruct b end; reflexivity. }
    destruct (handle_response c E st sent r) as [st1 effs]. cbn [fst snd] in *.
    destruct (b_wait st1) as [|m|m] eqn:Ew; cbn [fst snd]; [split; [exact K1 | apply nolab_ok, N1]| |].
    + assert (Hm : down E m) by (rewrite <- Kw in Hw; cbn [wait_msgs] in Hw; inversion Hw; assumption).
      destruct (needs_retry st1 m); [cbn [fst snd]; split; [exact K1 | apply nolab_ok; rewrite nolab_app, N1, nolab_retry_msg; reflexivity]|].
      destruct (would_overflow c (b_buf st1) m); [split; [exact K1 | apply nolab_ok, N1]|].
      pose proof (after_over_lab (with_wait st1 WNone) m K1 Hm) as H1.
      pose proof (nolab_after_over (with_wait st1 WNone) m) as H2.
      destruct (after_over c (with_wait st1 WNone) m) as [[st2 e2] u]. cbn [fst snd] in *.
      split; [exact H1 | apply nolab_ok; rewrite nolab_app, N1, H2; reflexivity].
    + destruct (needs_retry st1 m); cbn [fst snd]; (split; [exact K1 | apply nolab_ok]); [rewrite nolab_app, N1, nolab_retry_msg; reflexivity | exact N1].
Qed.

Lemma bp_step_lab st i : lab_ok E (b_buf st) -> Forall (down E) (bp_msgs st) -> (forall m, i = BRecv m -> down E m) ->
  lab_ok E (b_buf (fst (bp_step c E st i))) /\ Forall (eff_lab E) (snd (bp_step c E st i)).
Proof.
  intros Hl Hst Hin. destruct (bp_core_lab st i Hl Hst Hin) as [H1 H2]. unfold bp_step.
  destruct (bp_core c E st i) as [[st' effs] upd]. cbn [fst snd] in *. split; [|exact H2].
  assert (Hd : forall x, lab_ok E (b_buf x) -> lab_ok E (b_buf (drain_check x))).
  { intros x Hx. unfold drain_check. destruct (b_mode x); try exact Hx. destruct (set_empty (b_buf x)); exact Hx. }
  apply Hd. destruct upd; [|exact H1]. unfold end_iter. destruct (b_mode st'); try exact H1. destruct (b_wait st'); exact H1.
Qed.

End Labels.

(* ---------------------------------------------------------------- steps *)

Section EnvSteps.
Variable c : cfg.
Hypothesis Hidem : c_idem c = true.

Definition einv (s : state) : Prop := places_ok (PE (g_epoch s)) s /\ lab_inv (g_epoch s) s.

Lemma run_bp_lab s b x i : places_ok (PE (g_epoch s)) s -> lab_inv (g_epoch s) s -> nth_error (g_bps s) b = Some x ->
  (forall m, i = BRecv m -> down (g_epoch s) m) -> lab_inv (g_epoch s) (run_bp c s b x i).
Proof.
  intros Hp Hl Hn Hin. unfold run_bp.
  pose proof (Forall_nth' _ _ _ _ Hl Hn) as [X1 X2 X3].
  pose proof (Forall_nth' _ _ _ _ (po_bp _ _ Hp) Hn) as Hx. cbn [PE PB] in Hx. unfold bside_msgs in Hx. apply Forall_app in Hx as [Hx1 _].
  destruct (bp_step_lab (g_epoch s) c Hidem (i_st x) i X1 Hx1 Hin) as [K Ef].
  destruct (bp_step c (g_epoch s) (i_st x) i) as [st' effs]. cbn [fst snd] in *.
  apply apply_effs_lab; [|exact Ef]. unfold lab_inv. cbn [set_bps g_bps].
  eapply Forall_bp_upd_nth'; [exact Hl | exact Hn |]. constructor; assumption.
Qed.

Lemma quiet_lab E l : quiet l = true -> Forall (eff_lab E) l.
Proof. intros H. apply nolab_ok. exact (quiet_quiet2 l H). Qed.

Lemma run_pp_lab s k x m ls : lab_inv (g_epoch s) s -> lab_inv (g_epoch s) (run_pp c s k x m ls).
Proof.
  intros H. unfold run_pp.
  match goal with |- context [pp_step c (fst k) (snd k) (pr_st x) m ?ab ?stamp ls] =>
    pose proof (q_pp c (fst k) (snd k) (pr_st x) m ab stamp ls) as Q;
    destruct (pp_step c (fst k) (snd k) (pr_st x) m ab stamp ls) as [st' effs] end.
  cbn [snd] in Q. apply apply_effs_lab; [|apply quiet_lab, Q]. eapply lab_same; [|exact H]. reflexivity.
Qed.

Lemma pop_places_frame d s m s1 : pop d s = Some (m, s1) -> g_bps s1 = g_bps s /\ g_rbs s1 = g_rbs s.
Proof. unfold pop. destruct (q_get d (g_q s)); [discriminate|]. intros H; injection H as _ <-. split; reflexivity. Qed.

Lemma pop_bps d s m s1 : pop d s = Some (m, s1) -> g_bps s1 = g_bps s /\ g_epoch s1 = g_epoch s.
Proof. unfold pop. destruct (q_get d (g_q s)); [discriminate|]. intros H; injection H as _ <-. split; reflexivity. Qed.

Lemma rb_lab e k ms err l : Forall (eff_lab e) (rb_step c e k ms err l).
Proof.
  unfold rb_step. destruct (first_exhausted c ms).
  - destruct (c_fix_rb c); [apply nolab_ok, nosend_nolab, ns_return_errors | apply nolab_ok; reflexivity].
  - destruct l; [|apply nolab_ok, nosend_nolab, ns_return_errors].
    constructor; [|constructor]. cbn [eff_lab]. intros m _ _. reflexivity.
Qed.

(* a step that does not move the epoch keeps the labels *)
Lemma raw_step_lab s ch : einv s -> lab_inv (g_epoch s) (raw_step c s ch).
Proof.
  intros [Hp Hl]. set (E := g_epoch s) in *.
  assert (Same : forall s', g_bps s' = g_bps s -> lab_inv E s') by (intros s' Es; eapply lab_same; eassumption).
  destruct ch; cbn [raw_step].
  - destruct (g_close_req s); [exact Hl | apply Same; reflexivity].
  - destruct (g_close_req s); [exact Hl | apply Same; reflexivity].
  - destruct (pop DDisp s) as [[m s1]|] eqn:Ep; [|exact Hl]. destruct (pop_bps _ _ _ _ Ep) as [F1 F2].
    pose proof (q_disp c (g_disp s1) m) as Q. destruct (disp_step c (g_disp s1) m) as [d' effs]. cbn [snd] in Q.
    apply apply_effs_lab; [apply Same; cbn; exact F1 | apply quiet_lab, Q].
  - destruct (pop (DTopic t) s) as [[m s1]|] eqn:Ep; [|exact Hl]. destruct (pop_bps _ _ _ _ Ep) as [F1 F2].
    apply apply_effs_lab; [apply Same; exact F1 | apply quiet_lab, q_tp].
  - destruct (pop (DPart t p) s) as [[m s1]|] eqn:Ep; [|exact Hl]. destruct (pop_bps _ _ _ _ Ep) as [F1 F2].
    assert (H1 : lab_inv (g_epoch s1) s1) by (rewrite F2; apply Same; exact F1).
    destruct (pp_get (t, p) (g_pps s1)); [replace E with (g_epoch s1) by exact F2; apply run_pp_lab, H1|].
    destruct (next_lres ls) as [l0 ls'].
    pose proof (q_pp_init c t p l0) as Q.
    pose proof (pp_init_txn c (WPp (t, p)) (set_pps s1 (pp_set (t, p) (mkPpr (fst (pp_init c t p l0)) None) (g_pps s1))) t p l0) as [X1 _].
    destruct (pp_init c t p l0) as [st0 effs0]. cbn [fst snd] in *.
    set (s2 := set_pps s1 (pp_set (t, p) (mkPpr st0 None) (g_pps s1))) in *.
    set (s3 := apply_effs c (WPp (t, p)) s2 effs0) in *.
    assert (H3 : lab_inv (g_epoch s3) s3).
    { rewrite X1. subst s3. apply apply_effs_lab; [|apply quiet_lab, Q]. eapply lab_same; [|exact H1]. reflexivity. }
    replace E with (g_epoch s3) by (rewrite X1; exact F2). apply run_pp_lab, H3.
  - destruct (nth_error (g_bps s) b) as [x|] eqn:En; [|exact Hl]. destruct (flush_poll (i_st x)); [|exact Hl].
    destruct (pop (DBp b) s) as [[m s1]|] eqn:Ep.
    + destruct (pop_places _ _ _ _ _ Hp Ep) as [Hm [H1 [E1 E2]]]. destruct (pop_bps _ _ _ _ Ep) as [F1 F2].
      replace E with (g_epoch s1) by exact F2. apply run_bp_lab.
      * rewrite F2. exact H1.
      * rewrite F2. apply Same. exact F1.
      * rewrite F1. exact En.
      * intros m0 E0. injection E0 as <-. rewrite F2. exact Hm.
    + destruct (i_in_closed x); [|exact Hl]. apply run_bp_lab; [exact Hp | exact Hl | exact En | intros; discriminate].
  - destruct (nth_error (g_bps s) b) as [x|] eqn:En; [|exact Hl]. apply run_bp_lab; [exact Hp | exact Hl | exact En | intros; discriminate].
  - destruct (nth_error (g_bps s) b) as [x|] eqn:En; [|exact Hl]. apply run_bp_lab; [exact Hp | exact Hl | exact En | intros; discriminate].
  - destruct (nth_error (g_bps s) b) as [x|] eqn:En; [|exact Hl].
    destruct (i_infl x) eqn:Ei; [exact Hl|]. destruct (i_bridge x) as [|st r] eqn:Eb; [exact Hl|].
    unfold lab_inv. cbn [set_bps g_bps]. pose proof (Forall_nth' _ _ _ _ Hl En) as [X1 X2 X3]. rewrite Eb in X2. inversion X2; subst.
    eapply Forall_bp_upd_nth'; [exact Hl | exact En |]. constructor; cbn [bi_with_bridge i_st i_bridge i_infl i_resp]; auto.
    intros s0 E0. injection E0 as <-. assumption.
  - destruct (nth_error (g_bps s) b) as [x|] eqn:En; [|exact Hl]. destruct (i_infl x) as [st|] eqn:Ei; [|exact Hl].
    unfold lab_inv. cbn [set_bps g_bps]. pose proof (Forall_nth' _ _ _ _ Hl En) as [X1 X2 X3].
    eapply Forall_bp_upd_nth'; [exact Hl | exact En |]. constructor; cbn [bi_with_bridge i_st i_bridge i_infl i_resp]; auto.
    intros s0 E0. discriminate.
  - destruct (nth_error (g_bps s) b) as [x|] eqn:En; [|exact Hl].
    destruct (i_resp x) as [|[st r] rest] eqn:Er; [exact Hl|].
    set (s1 := set_bps s (bp_upd b (fun y => bi_with_bridge y (i_bridge y) (i_infl y) rest) (g_bps s))).
    pose proof (Forall_nth' _ _ _ _ Hl En) as [X1 X2 X3].
    assert (H1 : lab_inv E s1).
    { unfold lab_inv. cbn [s1 set_bps g_bps]. eapply Forall_bp_upd_nth'; [exact Hl | exact En |]. constructor; assumption. }
    assert (Hp1 : places_ok (PE E) s1).
    { apply places_bps; [exact Hp|]. pose proof (Forall_nth' _ _ _ _ (po_bp _ _ Hp) En) as Hx.
      eapply Forall_bp_upd_nth'; [apply (po_bp _ _ Hp) | exact En |].
      unfold bside_msgs in *. cbn [bi_with_bridge i_st i_bridge i_infl i_resp]. rewrite Er in Hx. cbn [flat_map fst] in Hx.
      rewrite !Forall_app in *. tauto. }
    destruct (nth_error (g_bps s1) b) as [x1|] eqn:En1; [|exact Hl].
    change E with (g_epoch s1). apply run_bp_lab; [exact Hp1 | exact H1 | exact En1 | intros; discriminate].
  - destruct (nth_error (g_rbs s) i) as [t|]; [|exact Hl].
    apply apply_effs_lab; [apply Same; reflexivity | apply rb_lab].
  - destruct (pop DRetry s) as [[m s1]|] eqn:Ep; [|exact Hl]. destruct (pop_bps _ _ _ _ Ep) as [F1 F2]. apply Same. cbn. exact F1.
  - destruct (g_close_req s && negb (g_woken s) && (g_inflight s =? 0)); [apply Same; reflexivity | exact Hl].
  - destruct (g_woken s && negb (g_closed s)); [apply Same; reflexivity | exact Hl].
Qed.

Definition no_stamped (s : state) : Prop :=
  places_ok (mkPreds (fun _ m => stamped m = false) (fun _ m => stamped m = false) (fun m => stamped m = false)) s.


(* one step: either the epoch stays, or (class hypothesis) nothing sequenced is left *)
Lemma einv_step s ch : einv s -> (g_epoch (step c s ch) <> g_epoch s -> no_stamped (step c s ch)) -> einv (step c s ch).
Proof.
  intros [Hp Hl] Hk.
  destruct (Z.eq_dec (g_epoch (step c s ch)) (g_epoch s)) as [Ee|Ne].
  - assert (Hp' : places_ok (PE (g_epoch s)) (step c s ch)).
    { apply (step_places _ True); [exact Hp | apply transfers_PE, Hidem | intros; exact I | intros x _ _ _; apply PE_submit | apply PE_shutdown | left; exact Ee]. }
    unfold einv. rewrite Ee. split; [exact Hp'|]. unfold step. destruct (g_panic s); [exact Hl|].
    destruct (g_panic (raw_step c s ch)); [eapply lab_same; [|exact Hl]; reflexivity | apply raw_step_lab; split; assumption].
  - specialize (Hk Ne). destruct (transfers_PEw c (g_epoch s) (fun k => seq_get k (g_seqs s)) Hidem) as [Tw Ta].
    assert (Hp' : places_ok PEw (step c s ch)).
    { apply (step_places _ True); [eapply PE_PEw, Hp | exact Tw | intros; exact I | intros x _ _ _; apply PEw_submit | apply PEw_shutdown | right; exact Ta]. }
    split.
    + eapply places_and; [exact Hp' | exact Hk | | |]; cbn [PE PEw PQ PL PB].
      * intros d m H1 H2. destruct d; try exact I; try (destruct H1 as [H1 H1']; split; [intros Hs; congruence | split; assumption]).
        -- destruct H1 as [[H1 H1'] H1'']. split; [split; [intros Hs; congruence | split; assumption] | exact H1''].
        -- split; [intros Hs; congruence | exact H1].
      * intros k m [[H1 H1'] H1''] H2. split; [split; [intros Hs; congruence | split; assumption] | exact H1''].
      * intros m H1 H2. split; [intros Hs; congruence | exact H1].
    + unfold lab_inv. pose proof (po_bp _ _ Hp') as B1. pose proof (po_bp _ _ Hk) as B2. cbn [PEw PB] in B1, B2.
      rewrite Forall_forall in *. intros x Hx. specialize (B1 x Hx). specialize (B2 x Hx).
      assert (Hno : forall m, In m (bside_msgs x) -> is_data m = true -> False).
      { intros m Hm Hd. rewrite Forall_forall in B1, B2. pose proof (B1 m Hm Hd) as H1. specialize (B2 m Hm). unfold stamped in B2.
        rewrite Hd, H1 in B2. discriminate. }
      constructor.
      * intros m Hm Hd. exfalso. apply (Hno m); [|exact Hd]. unfold bside_msgs, bp_msgs. apply in_or_app. left. apply in_or_app. left. exact Hm.
      * rewrite Forall_forall. intros st Hst m Hm Hd. exfalso. apply (Hno m); [|exact Hd]. unfold bside_msgs.
        apply in_or_app. right. apply in_or_app. left. apply in_flat_map. exists st. split; assumption.
      * intros st Hst m Hm Hd. exfalso. apply (Hno m); [|exact Hd]. unfold bside_msgs. rewrite Hst.
        apply in_or_app. right. apply in_or_app. right. apply in_or_app. left. exact Hm.
Qed.

End EnvSteps.

(* ---------------------------------------------------------------- the composed system *)

(* the class: along the run, a step that moves the producer epoch leaves no sequenced message anywhere
   ("no epoch bump while another sequenced message is unresolved") *)
Fixpoint bump_quiet (c : cfg) (y : sys) (sched : list ychoice) : Prop :=
  match sched with
  | [] => True
  | ch :: r => let y' := ystep c y ch in
               (g_epoch (y_st y') <> g_epoch (y_st y) -> no_stamped (y_st y')) /\ bump_quiet c y' r
  end.

Lemma einv_init : einv init.
Proof.
  split; [constructor; cbn; [intros d l [] | intros k x [] | constructor | constructor] | constructor].
Qed.

Lemma einv_ystep c y ch : c_idem c = true -> einv (y_st y) ->
  (g_epoch (y_st (ystep c y ch)) <> g_epoch (y_st y) -> no_stamped (y_st (ystep c y ch))) -> einv (y_st (ystep c y ch)).
Proof.
  intros Hi H Hk. destruct ch as [ch|b f]; cbn [ystep] in *.
  - destruct (is_answer ch); [exact H|]. cbn [y_st] in *. apply einv_step; assumption.
  - destruct (g_panic (y_st y)); [exact H|]. destruct (nth_error (g_bps (y_st y)) b) as [x|]; [|exact H].
    destruct (i_infl x) as [s|]; [|exact H].
    destruct (process (y_wire y) (y_br y) s f) as [[br' ls] r]. cbn [y_st] in *. apply einv_step; assumption.
Qed.

Theorem einv_run c : c_idem c = true -> forall sched y, einv (y_st y) -> bump_quiet c y sched ->
  einv (y_st (fold_left (ystep c) sched y)).
Proof.
  intros Hi. induction sched as [|ch r IH]; intros y H Hq; cbn [fold_left]; [exact H|].
  cbn [bump_quiet] in Hq. destruct Hq as [Hq1 Hq2]. apply IH; [apply einv_ystep; assumption | exact Hq2].
Qed.

(* in the class, whatever a broker worker has in flight: every application message of it is sequenced, carries
   the set's label, and that label is the current epoch *)
Theorem epoch_coherent c sched : c_idem c = true -> bump_quiet c yinit sched ->
  forall b x st m, nth_error (g_bps (y_st (yrun c sched))) b = Some x -> i_infl x = Some st ->
  In m (set_msgs st) -> is_data m = true ->
  m_hasseq m = true /\ m_epoch m = s_epoch st /\ s_epoch st = g_epoch (y_st (yrun c sched)).
Proof.
  intros Hi Hq b x st m Hn Hf Hm Hd. destruct (einv_run c Hi sched yinit einv_init Hq) as [Hp Hl]. fold (yrun c sched) in Hp, Hl.
  pose proof (Forall_nth' _ _ _ _ (po_bp _ _ Hp) Hn) as Hx. cbn [PE PB] in Hx. rewrite Forall_forall in Hx.
  assert (Hin : In m (bside_msgs x)).
  { unfold bside_msgs. rewrite Hf. apply in_or_app. right. apply in_or_app. right. apply in_or_app. left. exact Hm. }
  destruct (Hx m Hin) as [H1 H2]. pose proof (Forall_nth' _ _ _ _ Hl Hn) as [_ _ X3].
  pose proof (X3 st Hf m Hm Hd) as Hs. split; [apply H2, Hd|]. split; [|exact Hs].
  rewrite Hs. apply H1. unfold stamped. rewrite Hd, (H2 Hd). reflexivity.
Qed.

(* the class is inhabited by a history with a lost acknowledgement and a whole-batch resend (the epoch never moves) *)
Example bump_quiet_instance : bump_quiet C05.Witness.wcfg2 yinit C05.Witness.sched_resend_ok.
Proof.
  unfold C05.Witness.sched_resend_ok. cbn [bump_quiet].
  repeat (split; [intros H; exfalso; apply H; vm_compute; reflexivity|]). exact I.
Qed.
