(* C05 proofs, part 11: the environment-class theorem.  In every run of the composed system in which (a) no step
   moves the producer epoch while a sequenced message is left anywhere and (b) every set that reaches the cluster
   lists, per partition, messages with consecutive sequence numbers, the received history is stamp-consistent;
   hence no message is in the logs twice and every message reported successful is there exactly once. *)
From Coq Require Import List ZArith Bool Arith Lia.
From SV Require Import Producer.Msg Producer.Actors Producer.Compose Producer.Weights Producer.Global Producer.Shape
                       Producer.Conservation Producer.Markers
                       C05.Model C05.ProofsBroker C05.ProofsSys C05.ProofsClient C05.ProofsLink C05.ProofsClosure
                       C05.Witness C05.ProofsEnv C05.ProofsTab C05.ProofsLineage C05.ProofsKey.
Import ListNotations.
Open Scope Z_scope.

(* ---------------------------------------------------------------- the class *)

Fixpoint consec (sq : Z) (l : list msg) : Prop :=
  match l with [] => True | m :: r => m_seq m = sq /\ consec (sq + 1) r end.
Definition consec_set (ps : pset) : Prop :=
  forall k l, In (k, l) (s_parts ps) -> match l with [] => True | m :: _ => consec (m_seq m) l end.

Definition step_ok (c : cfg) (y : sys) (ch : ychoice) : Prop :=
  (g_epoch (y_st (ystep c y ch)) <> g_epoch (y_st y) -> no_stamped (y_st (ystep c y ch))) /\
  match ch with
  | YDeliver b f => forall x ps, nth_error (g_bps (y_st y)) b = Some x -> i_infl x = Some ps -> consec_set ps
  | _ => True
  end.
Definition env_ok (c : cfg) (sched : list ychoice) : Prop :=
  forall ys ch rest, sched = ys ++ ch :: rest -> step_ok c (yrun c ys) ch.

(* ---------------------------------------------------------------- the wire labels agree with the table *)

Definition wire_ok (w : list (Z * Z)) (tab : list (Z * stamp)) : Prop :=
  (forall i v, In (i, v) w -> forall k e q, In (i, (k, e, q)) tab -> v = e) /\
  (forall i v, In (i, v) w -> In i (map fst tab)).

Lemma wire_get_cases i d : forall w, wire_get i w d = d \/ In (i, wire_get i w d) w.
Proof.
  induction w as [|[j e] r IH]; cbn [wire_get]; [left; reflexivity|]. destruct (i =? j) eqn:E.
  - apply Z.eqb_eq in E. subst j. right. left. reflexivity.
  - destruct IH as [IH|IH]; [left; exact IH | right; right; exact IH].
Qed.
Lemma in_wire_set i v : forall w j u, In (j, u) (wire_set i v w) -> (j = i /\ u = v) \/ In (j, u) w.
Proof.
  induction w as [|[j0 e0] r IH]; intros j u H; cbn [wire_set] in H.
  - destruct H as [H|[]]. injection H as <- <-. left; split; reflexivity.
  - destruct (i =? j0) eqn:E.
    + destruct H as [H|H]; [injection H as <- <-; apply Z.eqb_eq in E; left; split; [symmetry; exact E | reflexivity] | right; right; exact H].
    + destruct H as [H|H]; [right; left; exact H|]. destruct (IH _ _ H) as [G|G]; [left; exact G | right; right; exact G].
Qed.

Lemma wire_ok_mono w tab tab' : wire_ok w tab -> incl tab tab' ->
  (forall i st, In (i, st) tab' -> In (i, st) tab \/ ~ In i (map fst tab)) -> wire_ok w tab'.
Proof.
  intros [W1 W2] Hi Hn. split.
  - intros i v Hw k e q Ht. destruct (Hn _ _ Ht) as [G|G]; [eapply W1; eassumption | exfalso; apply G, (W2 _ _ Hw)].
  - intros i v Hw. pose proof (W2 _ _ Hw) as G. apply in_map_iff in G as [[i' st] [E G]]. cbn [fst] in E. subst i'.
    apply in_map_iff. exists (i, st). split; [reflexivity | apply Hi, G].
Qed.

(* writing the label of its buffer for every message in a buffer *)
Lemma note_buf_ok tab x : forall w,
  (forall m, In m (set_msgs (b_buf (i_st x))) -> In (m_id m) (map fst tab) /\
             forall k e q, In (m_id m, (k, e, q)) tab -> s_epoch (b_buf (i_st x)) = e) ->
  wire_ok w tab -> wire_ok (note_buf w x) tab.
Proof.
  unfold note_buf. induction (set_msgs (b_buf (i_st x))) as [|m r IH]; intros w Hm Hw; cbn [fold_left]; [exact Hw|].
  apply IH; [intros m' Hm'; apply Hm; right; exact Hm'|].
  destruct (Hm m (or_introl eq_refl)) as [A B]. destruct Hw as [W1 W2]. split.
  - intros i v Hin k e q Ht. apply in_wire_set in Hin as [[-> ->]|Hin]; [eapply B, Ht | eapply W1; eassumption].
  - intros i v Hin. apply in_wire_set in Hin as [[-> ->]|Hin]; [exact A | eapply W2, Hin].
Qed.
Lemma note_wire_ok tab : forall l w,
  Forall (fun x => forall m, In m (set_msgs (b_buf (i_st x))) -> In (m_id m) (map fst tab) /\
                    forall k e q, In (m_id m, (k, e, q)) tab -> s_epoch (b_buf (i_st x)) = e) l ->
  wire_ok w tab -> wire_ok (fold_left note_buf l w) tab.
Proof.
  induction l as [|x r IH]; intros w Hl Hw; cbn [fold_left]; [exact Hw|]. inversion Hl; subst.
  apply IH; [assumption | apply note_buf_ok; assumption].
Qed.

(* ---------------------------------------------------------------- broker side holds application messages only *)

Lemma bside_data c ys : c_fix_rb c = true -> forall b x, nth_error (g_bps (y_st (yrun c ys))) b = Some x ->
  (forall m, In m (set_msgs (b_buf (i_st x))) -> is_data m = true) /\
  (forall ps m, i_infl x = Some ps -> In m (set_msgs ps) -> is_data m = true).
Proof.
  intros Hf b x Hn. destruct (yrun_is_run c ys) as [sched E]. rewrite E in Hn.
  destruct (broker_side_data_only c Hf sched b x Hn) as (D1 & _ & _ & D4 & _).
  assert (Hp : forall ps m, In m (parts_msgs ps) -> exists k l, In (k, l) ps /\ In m l).
  { induction ps as [|[k l] r IH]; intros m Hm; [contradiction|]. cbn [parts_msgs] in Hm. apply in_app_or in Hm as [Hm|Hm].
    - exists k, l. split; [left; reflexivity | exact Hm].
    - destruct (IH m Hm) as [k' [l' [G1 G2]]]. exists k', l'. split; [right; exact G1 | exact G2]. }
  split.
  - intros m Hm. destruct (Hp _ _ Hm) as [k [l [G1 G2]]]. eapply D1; eassumption.
  - intros ps m Ei Hm. destruct (Hp _ _ Hm) as [k [l [G1 G2]]]. eapply D4; eassumption.
Qed.

(* ---------------------------------------------------------------- what a delivery claims *)

Lemma claims_consec k lab tab : forall l sq, consec sq l -> (forall m, In m l -> In (m_id m, (k, lab, m_seq m)) tab) ->
  incl (claims k lab sq (map m_id l)) tab.
Proof.
  induction l as [|m r IH]; intros sq Hc Hin; cbn [map claims]; [intros x []|]. cbn [consec] in Hc. destruct Hc as [E Hc].
  intros x [<-|Hx]; [rewrite <- E; apply Hin; left; reflexivity | eapply IH; [exact Hc | intros m' Hm'; apply Hin; right; exact Hm' | exact Hx]].
Qed.

Lemma hist_claims_app a b : hist_claims (a ++ b) = hist_claims a ++ hist_claims b.
Proof. induction a as [|x r IH]; cbn [app hist_claims]; [reflexivity | rewrite IH, app_assoc; reflexivity]. Qed.
Lemma hist_claims_sub ls : incl (hist_claims ls) (flat_map batch_claims (map rl_batch ls)).
Proof.
  induction ls as [|x r IH]; cbn [hist_claims map flat_map]; [intros y []|]. intros y Hy. apply in_app_or in Hy as [Hy|Hy]; apply in_or_app.
  - destruct (applied x); [left; exact Hy | contradiction].
  - right. apply IH, Hy.
Qed.

Lemma subm_mono c : forall rest y i, (subm_count i (y_st y) <= subm_count i (y_st (fold_left (ystep c) rest y)))%nat.
Proof.
  assert (St : forall s ch i, (subm_count i s <= subm_count i (step c s ch))%nat).
  { intros s ch i. unfold subm_count. destruct (submitted_step c s ch) as [E|[m E]]; rewrite E; [lia | rewrite map_app, count_id_app; lia]. }
  induction rest as [|ch r IH]; intros y i; cbn [fold_left]; [lia|]. etransitivity; [|apply IH].
  destruct ch as [ch|b f]; cbn [ystep].
  - destruct (is_answer ch); [lia | cbn [y_st]; apply St].
  - destruct (g_panic (y_st y)); [lia|]. destruct (nth_error (g_bps (y_st y)) b) as [x|]; [|lia]. destruct (i_infl x) as [s|]; [|lia].
    destruct (process (y_wire y) (y_br y) s f) as [[br' ls] r0]. cbn [y_st]. apply St.
Qed.

(* ---------------------------------------------------------------- the global invariant *)

Record ginv (y : sys) : Prop := mkGinv {
  gi_e : einv (y_st y);
  gi_tab : exists tab, lin (y_st y) tab /\ incl (hist_claims (y_hist y)) tab /\ wire_ok (y_wire y) tab
}.

Lemma ginv_init : ginv yinit.
Proof.
  constructor; [apply einv_init|]. exists []. split; [|split; [intros x [] | split; intros i v []]].
  constructor; cbn; try constructor; try (intros; contradiction).
Qed.

Section GStep.
Variable c : cfg.
Hypothesis Hidem : c_idem c = true.
Hypothesis Hfix : c_fix_rb c = true.

(* facts about the set in flight, from the invariants *)
Lemma infl_facts ys tab b x ps : ginv (yrun c ys) -> lin (y_st (yrun c ys)) tab -> wire_ok (y_wire (yrun c ys)) tab ->
  nth_error (g_bps (y_st (yrun c ys))) b = Some x -> i_infl x = Some ps -> consec_set ps ->
  incl (flat_map batch_claims (batches_of (y_wire (yrun c ys)) ps)) tab.
Proof.
  intros [[Hp Hl] _] [Lok Lcore _ _] [W1 W2] Hn Ei Hcs. set (y := yrun c ys) in *. set (E := g_epoch (y_st y)) in *.
  destruct (bside_data c ys Hfix b x Hn) as [_ Dd]. destruct (key_run c ys) as [Kb _]. fold y in Kb.
  pose proof (bk_infl _ (Forall_nth' _ _ _ _ Kb Hn) ps Ei) as Kk.
  pose proof (bl_infl _ _ (Forall_nth' _ _ _ _ Hl Hn) ps Ei) as Kl.
  pose proof (Forall_nth' _ _ _ _ (po_bp _ _ Hp) Hn) as Hx. cbn [PE PB] in Hx. rewrite Forall_forall in Hx, Lcore.
  assert (Min : forall m, In m (set_msgs ps) -> In m (bside_msgs x)).
  { intros m Hm. unfold bside_msgs. rewrite Ei. apply in_or_app. right. apply in_or_app. right. apply in_or_app. left. exact Hm. }
  assert (Fm : forall m, In m (set_msgs ps) -> is_data m = true /\ m_hasseq m = true /\ m_epoch m = E /\ s_epoch ps = E /\ In (pairof m) tab).
  { intros m Hm. pose proof (Dd ps m Ei Hm) as Hd. destruct (Hx m (Min m Hm)) as [Hb Hh]. specialize (Hh Hd).
    assert (In m (flat (y_st y))) as Hfl by (apply in_flat; right; right; left; apply in_flat_map; exists x; split; [eapply nth_error_In, Hn | apply Min, Hm]).
    repeat split; try assumption; [apply Hb; unfold stamped; rewrite Hd, Hh; reflexivity | eapply Kl; eassumption | apply (Lcore m Hfl Hd), Hh]. }
  unfold batches_of. intros cl Hcl. apply in_flat_map in Hcl as [bt [Hbt Hcl]]. apply in_map_iff in Hbt as [[k l] [<- Hkl]].
  assert (Hsub : forall m, In m l -> In m (set_msgs ps)).
  { intros m Hm. unfold set_msgs. clear -Hkl Hm. induction (s_parts ps) as [|[k' l'] r IH]; [contradiction|]. cbn [parts_msgs]. apply in_or_app.
    destruct Hkl as [E|Hkl]; [injection E as _ <-; left; exact Hm | right; apply IH, Hkl]. }
  unfold batch_of in Hcl. cbn [fst snd] in Hcl. destruct l as [|m0 r]; [cbn in Hcl; contradiction|].
  unfold batch_claims in Hcl. cbn [ba_key ba_epoch ba_first ba_ids] in Hcl.
  destruct (Fm m0 (Hsub m0 (or_introl eq_refl))) as (D0 & H0 & E0 & Es & P0).
  assert (Elab : wire_get (m_id m0) (y_wire y) (s_epoch ps) = E).
  { destruct (wire_get_cases (m_id m0) (s_epoch ps) (y_wire y)) as [G|G]; [rewrite G; exact Es|].
    unfold pairof in P0. rewrite E0 in P0. eapply W1; [exact G | exact P0]. }
  rewrite Elab in Hcl. revert Hcl. apply claims_consec.
  - apply (Hcs k (m0 :: r) Hkl).
  - intros m Hm. destruct (Fm m (Hsub m Hm)) as (Dm & Hm' & Em & _ & Pm). unfold pairof in Pm.
    rewrite Em, (Kk k (m0 :: r) m Hkl Hm) in Pm. exact Pm.
Qed.

Lemma ginv_step ys ch : ginv (yrun c ys) -> step_ok c (yrun c ys) ch ->
  (forall i, (subm_count i (y_st (yrun c (ys ++ [ch]))) <= 1)%nat) -> ginv (yrun c (ys ++ [ch])).
Proof.
  intros G [Hk Hcs] Hsc. pose proof G as [He [tab [Hlin [Hcl Hw]]]]. rewrite yrun_snoc in *. set (y := yrun c ys) in *.
  assert (Huq : forall a b, In a (flat (y_st (ystep c y ch))) -> In b (flat (y_st (ystep c y ch))) ->
                is_data a = true -> is_data b = true -> m_id a = m_id b -> a = b).
  { intros a b Ha Hb Da Db Eab. subst y. rewrite <- yrun_snoc in *. eapply copies_unique; try eassumption; [apply Hsc | reflexivity]. }
  assert (He' : einv (y_st (ystep c y ch))) by (apply einv_ystep; assumption).
  constructor; [exact He'|].
  assert (Stay : y_st (ystep c y ch) = y_st y -> y_hist (ystep c y ch) = y_hist y -> y_wire (ystep c y ch) = y_wire y ->
                 exists tab0, lin (y_st (ystep c y ch)) tab0 /\ incl (hist_claims (y_hist (ystep c y ch))) tab0 /\ wire_ok (y_wire (ystep c y ch)) tab0).
  { intros E1 E2 E3. rewrite E1, E2, E3. exists tab. auto. }
  destruct He as [Hp Hl].
  destruct ch as [ch|b f]; cbn [ystep] in *.
  - destruct (is_answer ch) eqn:Ea; [apply Stay; reflexivity|]. cbn [y_st y_hist y_wire] in *.
    destruct (lin_step c (y_st y) ch tab Hidem Hp Hlin Hk Huq Hsc) as [tab' [I1 [I2 I3]]].
    exists tab'. split; [exact I2|]. split; [intros z Hz; apply I1, Hcl, Hz|].
    pose proof (wire_ok_mono _ _ _ Hw I1 I3) as Hw'.
    unfold note_wire. apply note_wire_ok; [|exact Hw'].
    (* every message in a buffer of the new state: its id is in the table with the buffer's label as epoch *)
    set (s' := step c (y_st y) ch) in *. destruct He' as [Hp' Hl']. destruct I2 as [Lok' Lcore' _ _].
    rewrite Forall_forall. intros x Hx. apply In_nth_error in Hx as [bi Hn]. intros m Hm.
    assert (Hys : s' = y_st (yrun c (ys ++ [YC ch]))) by (rewrite yrun_snoc; cbn [ystep]; rewrite Ea; reflexivity).
    rewrite Hys in Hn. destruct (bside_data c (ys ++ [YC ch]) Hfix bi x Hn) as [Db _]. rewrite <- Hys in Hn.
    pose proof (Db m Hm) as Hd.
    pose proof (Forall_nth' _ _ _ _ (po_bp _ _ Hp') Hn) as Hbx. cbn [PE PB] in Hbx. rewrite Forall_forall in Hbx.
    assert (Hmb : In m (bside_msgs x)) by (unfold bside_msgs, bp_msgs; apply in_or_app; left; apply in_or_app; left; exact Hm).
    destruct (Hbx m Hmb) as [Hb Hh]. specialize (Hh Hd).
    assert (Hfl : In m (flat s')) by (apply in_flat; right; right; left; apply in_flat_map; exists x; split; [eapply nth_error_In, Hn | exact Hmb]).
    rewrite Forall_forall in Lcore'. pose proof (proj1 (Lcore' m Hfl Hd) Hh) as Pm.
    pose proof (bl_buf _ _ (Forall_nth' _ _ _ _ Hl' Hn) m Hm Hd) as El.
    assert (Em : m_epoch m = g_epoch s') by (apply Hb; unfold stamped; rewrite Hd, Hh; reflexivity).
    split; [apply in_map_iff; exists (pairof m); split; [reflexivity | exact Pm]|].
    intros k e q Ht. pose proof (tk_fun _ _ _ Lok' _ _ _ Pm Ht) as Es. injection Es as _ Es _. rewrite El, <- Em. exact Es.
  - destruct (g_panic (y_st y)) eqn:Epn; [apply Stay; reflexivity|].
    destruct (nth_error (g_bps (y_st y)) b) as [x|] eqn:En; [|apply Stay; reflexivity].
    destruct (i_infl x) as [ps|] eqn:Ei; [|apply Stay; reflexivity].
    pose proof (infl_facts ys tab b x ps G Hlin Hw En Ei (Hcs x ps eq_refl Ei)) as Hclm. fold y in Hclm.
    unfold process in *. destruct (process_b (y_br y) (batches_of (y_wire y) ps) f) as [[br' ls] r] eqn:Epr.
    cbn [y_st y_hist y_wire] in *. destruct (process_b_spec _ _ _ _ _ _ Epr) as [_ [_ Hbs]].
    destruct (lin_step c (y_st y) (CAnswer b r) tab Hidem Hp Hlin Hk Huq Hsc) as [tab' [I1 [I2 I3]]].
    exists tab'. split; [exact I2|]. split; [|apply (wire_ok_mono _ _ _ Hw I1 I3)].
    rewrite hist_claims_app. intros z Hz. apply I1. apply in_app_or in Hz as [Hz|Hz]; [apply Hcl, Hz|].
    apply Hclm. rewrite <- Hbs. apply hist_claims_sub, Hz.
Qed.

End GStep.

(* ---------------------------------------------------------------- the theorem *)

Lemma env_ok_prefix c ys ch : env_ok c (ys ++ [ch]) -> env_ok c ys.
Proof. intros H ys0 ch0 rest E. apply (H ys0 ch0 (rest ++ [ch])). rewrite E, <- app_assoc. reflexivity. Qed.

Lemma ginv_run c sched : c_idem c = true -> c_fix_rb c = true -> env_ok c sched ->
  (forall i, (subm_count i (y_st (yrun c sched)) <= 1)%nat) -> ginv (yrun c sched).
Proof.
  intros Hi Hf. induction sched as [|ch ys IH] using rev_ind; intros He Hs; [apply ginv_init|].
  apply ginv_step; try assumption.
  - apply IH; [eapply env_ok_prefix, He|]. intros i. etransitivity; [|apply (Hs i)]. unfold yrun. rewrite fold_left_app. apply subm_mono.
  - apply (He ys ch []). reflexivity.
Qed.

(* stamp-consistency of the received history follows from the class *)
Theorem env_consistent c sched : c_idem c = true -> c_fix_rb c = true -> env_ok c sched ->
  (forall i, (subm_count i (y_st (yrun c sched)) <= 1)%nat) -> consistent (hist_claims (y_hist (yrun c sched))).
Proof.
  intros Hi Hf He Hs. destruct (ginv_run c sched Hi Hf He Hs) as [_ [tab [[Lok _ _ _] [Hcl _]]]].
  eapply tab_consistent; eassumption.
Qed.

Theorem no_duplicate_env c sched : idem_cfg c = true -> c_fix_rb c = true -> forallb sane_choice sched = true ->
  env_ok c sched -> (forall i, (subm_count i (y_st (yrun c sched)) <= 1)%nat) -> no_duplicate_at (yrun c sched).
Proof.
  intros Hc Hf Hs He Hsub. apply no_duplicate_partial; [exact Hs|]. apply env_consistent; try assumption.
  unfold idem_cfg in Hc. apply andb_true_iff in Hc as [Hc _]. apply andb_true_iff in Hc as [Hc _]. exact Hc.
Qed.

(* the class as a check along the run *)
Fixpoint env_fix (c : cfg) (y : sys) (sched : list ychoice) : Prop :=
  match sched with [] => True | ch :: r => step_ok c y ch /\ env_fix c (ystep c y ch) r end.

Lemma env_fix_ok c : forall rest pre, env_fix c (yrun c pre) rest ->
  forall ys ch r, rest = ys ++ ch :: r -> step_ok c (yrun c (pre ++ ys)) ch.
Proof.
  induction rest as [|x rest IH]; intros pre H ys ch r E; [destruct ys; discriminate|].
  cbn [env_fix] in H. destruct H as [H1 H2]. destruct ys as [|y0 ys]; cbn [app] in E; injection E as -> E.
  - rewrite app_nil_r. exact H1.
  - rewrite <- yrun_snoc in H2. specialize (IH (pre ++ [y0]) H2 ys ch r E). rewrite <- app_assoc in IH. exact IH.
Qed.
Lemma env_fix_env_ok c sched : env_fix c yinit sched -> env_ok c sched.
Proof. intros H ys ch r E. apply (env_fix_ok c sched [] H ys ch r E). Qed.

(* the class is inhabited by a history with a lost acknowledgement and a whole-batch resend *)
Example env_ok_instance : env_ok wcfg2 sched_resend_ok.
Proof.
  apply env_fix_env_ok. unfold sched_resend_ok. cbn [env_fix].
  repeat (split; [split; [intros H; exfalso; apply H; vm_compute; reflexivity|]|]); try exact I.
  all: intros x ps Hx Hp; vm_compute in Hx; injection Hx as <-; vm_compute in Hp; injection Hp as <-;
       intros k l Hkl; cbn [s_parts] in Hkl; destruct Hkl as [E|[]]; injection E as <- <-; cbn; repeat split.
Qed.
