(* C05: concrete configurations and schedules (witnesses of the refutations, instances for the examples).
   Definitions only; the facts about them are in C05/ProofsWitness.v.  Each witness is also a corpus scenario of
   the harness (go/harness/internal/idembroker/gen.go, "witness/...") replayed on the real code in every run. *)
From Coq Require Import List ZArith Bool Arith.
From SV Require Import Producer.Msg Producer.Actors Producer.Compose C05.Model.
Import ListNotations.
Open Scope Z_scope.

(* idempotent, Retry.Max = 1, flush as soon as possible, both repairs applied *)
Definition wcfg : cfg := mkCfg 1%nat true true 1000000 104847360 0 0 false 0 [] true true.
(* the same with Retry.Max = 2 *)
Definition wcfg2 : cfg := mkCfg 2%nat true true 1000000 104847360 0 0 false 0 [] true true.
(* message i for partition p of topic 0 *)
Definition wmsg (i p : Z) : msg := mkMsg i 0 0 0%nat 0 50 false p false 0 0 false [].
Definition C := YC.

(* (i) connection-level failures only.  [2] of partition 1 and [1] of partition 0 travel in one request and are
   appended; the acknowledgement is lost with the connection; handleError re-queues 1 and 2 one by one.  Message 1
   is sent again on its own, the connection drops again: budget exhausted, error event, epoch bump.  Message 2
   (stamped epoch 0, sequence 0) is added to a buffer created under epoch 1: (epoch 1, sequence 0) is in
   sequence for the broker, which appends message 2 a second time. *)
Definition sched_conn_drop : list ychoice :=
  [C (CSubmit (wmsg 1 0)); C (CSubmit (wmsg 2 1)); C CDisp; C CDisp; C (CTp 0); C (CTp 0);
   C (CPp 0 0 [LOk 1]); C (CPp 0 1 [LOk 1]); C (CBpRecv 0); C (CBpRecv 0); C (CBpRecv 0); C (CBpRecv 0);
   C (CBpFlush 0); C (CBridge 0); YDeliver 0 RLoseAck; C (CBpResp 0);
   C CRetry; C CRetry; C CDisp; C CDisp; C (CTp 0); C (CTp 0);
   C (CPp 0 0 [LOk 1]); C (CBpRecv 1); C (CBpRecv 1); C (CBpFlush 1); C (CBridge 1); YDeliver 1 RDropBefore; C (CBpResp 1);
   C (CPp 0 1 [LOk 1]); C (CBpRecv 2); C (CBpRecv 2); C (CBpFlush 2); C (CBridge 2); YDeliver 2 (RAnswer []); C (CBpResp 2);
   C (CBpFlush 2); C (CBridge 2); YDeliver 2 (RAnswer []); C (CBpResp 2)].

(* (ii) per-partition answers only.  Message 2 (partition 1) is stamped (epoch 0, sequence 0) and is still on its
   way to the broker worker when message 1 (partition 0) is refused for good (MessageSizeTooLarge): error event,
   epoch bump, all counters reset, the empty buffer is rolled over to epoch 1.  Message 2 is added to that buffer
   and appended as (epoch 1, sequence 0).  The fresh message 3 of partition 1 is stamped (epoch 1, sequence 0)
   too; its batch looks like the cached one, the broker answers Ok without appending: message 3 is reported
   successful and is not in the log. *)
Definition sched_epoch_bump : list ychoice :=
  [C (CSubmit (wmsg 1 0)); C (CSubmit (wmsg 2 1)); C CDisp; C CDisp; C (CTp 0); C (CTp 0);
   C (CPp 0 0 [LOk 1]); C (CPp 0 1 [LOk 1]); C (CBpRecv 0); C (CBpRecv 0);
   C (CBpFlush 0); C (CBridge 0); YDeliver 0 (RAnswer [PErrBefore 10]); C (CBpResp 0);
   C (CBpRecv 0); C (CBpRecv 0); C (CBpFlush 0); C (CBridge 0); YDeliver 0 (RAnswer []); C (CBpResp 0);
   C (CBpFlush 0); C (CBridge 0); YDeliver 0 (RAnswer []); C (CBpResp 0);
   C (CSubmit (wmsg 3 1)); C CDisp; C (CTp 0); C (CPp 0 1 []); C (CBpRecv 0); C (CBpFlush 0); C (CBridge 0);
   YDeliver 0 (RAnswer []); C (CBpResp 0)].

(* (i'), one partition: the batch [1;2] is appended, the acknowledgement is lost with the connection; the messages
   come back one by one and message 1 is sent on its own as (epoch 0, sequence 0, [1]): not the batch that was
   sent before; the broker answers OutOfOrderSequenceNumber and message 1, which is in the log, gets an error. *)
Definition sched_reformed : list ychoice :=
  [C (CSubmit (wmsg 1 0)); C (CSubmit (wmsg 2 0)); C CDisp; C CDisp; C (CTp 0); C (CTp 0);
   C (CPp 0 0 [LOk 1]); C (CPp 0 0 []); C (CBpRecv 0); C (CBpRecv 0); C (CBpRecv 0);
   C (CBpFlush 0); C (CBridge 0); YDeliver 0 RLoseAck; C (CBpResp 0);
   C CRetry; C CRetry; C CDisp; C CDisp; C (CTp 0); C (CTp 0);
   C (CPp 0 0 [LOk 1]); C (CBpRecv 1); C (CBpRecv 1); C (CBpFlush 1); C (CBridge 1); YDeliver 1 (RAnswer []); C (CBpResp 1)].

(* (v) one retriable answer, no connection failure, no error event at all.  [1] is answered NotLeaderForPartition
   (nothing appended) and re-sent whole by retryBatch; message 2 is bounced by the broker worker (the partition is
   marked as retrying) and opens retry level 1 at the partition worker; while the fin marker is on its way back
   the fresh message 3 is parked in the level-0 backlog.  PINNED TREE (before /repo 271dd24): flushRetryBuffers
   forwarded the backlog WITHOUT sequence numbers, message 3 travelled as (epoch 0, sequence 0), the broker took
   [3] for the cached batch [1] and answered Ok: reported successful, not in the log (replayed on the real code and
   on the then model: the four requests (0,0,[1]) (0,0,[1]) (0,1,[2]) (0,0,[3]), last verdict "duplicate").
   REPAIRED: the flush stamps it; see ProofsWitness.backlog_repaired. *)
Definition sched_backlog : list ychoice :=
  [C (CSubmit (wmsg 1 0)); C CDisp; C (CTp 0); C (CPp 0 0 [LOk 1]); C (CBpRecv 0); C (CBpRecv 0);
   C (CBpFlush 0); C (CBridge 0); YDeliver 0 (RAnswer [PErrBefore 6]); C (CBpResp 0);
   C (CRb 0 (LOk 1)); C (CBridge 0); YDeliver 0 (RAnswer []); C (CBpResp 0);
   C (CSubmit (wmsg 2 0)); C CDisp; C (CTp 0); C (CPp 0 0 []); C (CBpRecv 0);
   C CRetry; C CDisp; C (CTp 0); C (CPp 0 0 [LOk 1]);
   C (CBpRecv 0); C (CBpRecv 0); C (CBpRecv 0); C (CBpFlush 0); C (CBridge 0); YDeliver 0 (RAnswer []); C (CBpResp 0);
   C (CSubmit (wmsg 3 0)); C CDisp; C (CTp 0); C (CPp 0 0 []);
   C CRetry; C CDisp; C (CTp 0); C (CPp 0 0 []);
   C (CBpRecv 0); C (CBpFlush 0); C (CBridge 0); YDeliver 0 (RAnswer []); C (CBpResp 0)].

(* an in-class history: the batch [1;2] is appended, answered NotEnoughReplicasAfterAppend, re-sent whole by
   retryBatch and recognised as a duplicate; then the fresh message 3 *)
Definition sched_resend_ok : list ychoice :=
  [C (CSubmit (wmsg 1 0)); C (CSubmit (wmsg 2 0)); C CDisp; C CDisp; C (CTp 0); C (CTp 0);
   C (CPp 0 0 [LOk 1]); C (CPp 0 0 []); C (CBpRecv 0); C (CBpRecv 0); C (CBpRecv 0);
   C (CBpFlush 0); C (CBridge 0); YDeliver 0 (RAnswer [PErrAfter 20]); C (CBpResp 0);
   C (CRb 0 (LOk 1)); C (CBridge 0); YDeliver 0 (RAnswer []); C (CBpResp 0)].
