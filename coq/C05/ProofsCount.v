(* C05 proofs, part 12: with Producer.Flush.MaxMessages = 1 every set a broker worker holds has at most one message
   (for every schedule), so the ordering clause of the environment class holds by itself. *)
From Coq Require Import List ZArith Bool Arith Lia.
From SV Require Import Producer.Msg Producer.Actors Producer.Compose Producer.Global Producer.Local
                       C05.Model C05.ProofsBroker C05.ProofsSys C05.ProofsClient C05.ProofsLink C05.ProofsClosure C05.ProofsEnv
                       C05.ProofsTab C05.ProofsLineage C05.ProofsKey C05.ProofsEnvFinal.
Import ListNotations.
Open Scope Z_scope.

Definition cnt_ok (ps : pset) : Prop := set_count ps <= 1.
Definition rb_cnt_ok (t : rbtask) : Prop := (length (rb_ms t) <= 1)%nat.

Record bp_cnt (x : bpi) : Prop := mkBpCnt {
  bc_buf : cnt_ok (b_buf (i_st x));
  bc_bridge : Forall cnt_ok (i_bridge x);
  bc_infl : forall ps, i_infl x = Some ps -> cnt_ok ps;
  bc_resp : Forall (fun sr => cnt_ok (fst sr)) (i_resp x)
}.
Definition cnt_inv (s : state) : Prop := Forall bp_cnt (g_bps s) /\ Forall rb_cnt_ok (g_rbs s).
Definition eff_cnt (e : effect) : Prop :=
  match e with
  | EBridge ps => cnt_ok ps
  | ERbSend _ ps => cnt_ok ps
  | ESpawnRB k ms _ => (length ms <= 1)%nat
  | _ => True
  end.

Lemma cnt_ok_empty e : cnt_ok (empty_set e). Proof. unfold cnt_ok, set_count. cbn. lia. Qed.
Lemma bp_cnt_ref x : bp_cnt x -> bp_cnt (bi_ref x). Proof. intros [H1 H2 H3 H4]. constructor; assumption. Qed.
Lemma bp_cnt_unref x : bp_cnt x -> bp_cnt (bi_unref x).
Proof. intros [H1 H2 H3 H4]. unfold bi_unref. destruct (i_refs x - 1 =? 0); constructor; assumption. Qed.
Lemma bp_cnt_abandon c x : bp_cnt x -> bp_cnt (bi_abandon c x). Proof. intros [H1 H2 H3 H4]. constructor; assumption. Qed.
Lemma bp_cnt_new br e : bp_cnt (bi_ref (bi_new br e)).
Proof. constructor; cbn; [apply cnt_ok_empty | constructor | intros ps H; discriminate | constructor]. Qed.
Lemma bp_cnt_push x ps : bp_cnt x -> cnt_ok ps -> bp_cnt (bi_with_bridge x (i_bridge x ++ [ps]) (i_infl x) (i_resp x)).
Proof.
  intros [H1 H2 H3 H4] Hs. constructor; cbn [bi_with_bridge i_st i_bridge i_infl i_resp]; auto.
  apply Forall_app. split; [exact H2 | constructor; [exact Hs | constructor]].
Qed.
Lemma get_bp_cnt s br : Forall bp_cnt (g_bps s) -> Forall bp_cnt (g_bps (fst (get_bp s br))) /\ g_rbs (fst (get_bp s br)) = g_rbs s.
Proof.
  intros H. unfold get_bp. destruct (find_reg br (g_bps s) 0%nat); cbn [fst set_bps g_bps g_rbs].
  - split; [apply Forall_bp_upd'; [exact H | apply bp_cnt_ref] | reflexivity].
  - split; [apply Forall_app; split; [exact H | constructor; [apply bp_cnt_new | constructor]] | reflexivity].
Qed.
Lemma cnt_same s s' : g_bps s' = g_bps s -> g_rbs s' = g_rbs s -> cnt_inv s -> cnt_inv s'.
Proof. unfold cnt_inv. intros -> ->. auto. Qed.

Lemma apply_eff_cnt c w s e : cnt_inv s -> eff_cnt e -> cnt_inv (apply_eff c w s e).
Proof.
  intros [Hb Hr] He. assert (Same : forall s', g_bps s' = g_bps s -> g_rbs s' = g_rbs s -> cnt_inv s') by (intros s' E1 E2; eapply cnt_same; [exact E1 | exact E2 | split; assumption]).
  destruct e; cbn [apply_eff eff_cnt] in *.
  - destruct d; try (apply Same; reflexivity).
    destruct (handle_of s w); [|split; assumption]. destruct (nth_error (g_bps s) n); [|split; assumption].
    destruct (i_in_closed b); apply Same; reflexivity.
  - unfold emit. destruct (m_hasseq m); destruct (g_closed s); apply Same; reflexivity.
  - unfold emit. destruct (g_closed s); apply Same; reflexivity.
  - unfold emit. destruct (g_closed s); apply Same; reflexivity.
  - apply Same; reflexivity.
  - apply Same; reflexivity.
  - apply Same; reflexivity.
  - apply Same; reflexivity.
  - apply Same; reflexivity.
  - destruct (handle_of s w) as [b|]; [|split; assumption]. eapply cnt_same; [apply set_handle_bps' | apply set_handle_rbs|].
    split; [cbn [set_bps g_bps]; apply Forall_bp_upd'; [exact Hb | apply bp_cnt_unref] | exact Hr].
  - destruct (get_bp_cnt s broker Hb) as [G1 G2]. destruct (get_bp s broker) as [s1 b]. cbn [fst] in G1, G2.
    eapply cnt_same; [apply set_handle_bps' | apply set_handle_rbs|]. split; [exact G1 | rewrite G2; exact Hr].
  - destruct (find_reg broker (g_bps s) 0%nat) as [b|]; [|split; assumption].
    split; [cbn [set_bps g_bps]; apply Forall_bp_upd'; [exact Hb | apply bp_cnt_abandon] | exact Hr].
  - destruct w; try (split; assumption). destruct (nth_error (g_bps s) b); [|split; assumption].
    split; [cbn [set_bps g_bps]; apply Forall_bp_upd'; [exact Hb | intros x Hx; apply bp_cnt_push; assumption] | exact Hr].
  - split; [exact Hb|]. cbn [set_rbs g_rbs]. apply Forall_app. split; [exact Hr | constructor; [exact He | constructor]].
  - destruct (get_bp_cnt s broker Hb) as [G1 G2]. destruct (get_bp s broker) as [s1 b]. cbn [fst] in G1, G2.
    split; [cbn [set_bps g_bps]; apply Forall_bp_upd'; [exact G1 | intros x Hx; apply bp_cnt_push; assumption] | cbn; rewrite G2; exact Hr].
  - split; assumption.
  - apply Same; reflexivity.
Qed.
Lemma apply_effs_cnt c w : forall l s, cnt_inv s -> Forall eff_cnt l -> cnt_inv (apply_effs c w s l).
Proof.
  induction l as [|e l IH]; intros s H Hl; cbn [apply_effs fold_left]; [exact H|].
  inversion Hl; subst. apply IH; [apply apply_eff_cnt; assumption | assumption].
Qed.
Lemma nokey_cnt l : nokey l = true -> Forall eff_cnt l.
Proof.
  induction l as [|e l IH]; intros H; [constructor|]. cbn [nokey forallb] in H. apply andb_true_iff in H as [H1 H2].
  constructor; [destruct e; try exact I; discriminate | apply IH, H2].
Qed.

(* ---------------------------------------------------------------- broker worker *)

Lemma parts_count_add k m ps : parts_count (part_add k m ps) = parts_count ps + 1.
Proof.
  induction ps as [|[k' l] r IH]; cbn [part_add parts_count]; [cbn; lia|].
  destruct (tpk_eqb k k'); cbn [parts_count]; [rewrite app_length, Nat2Z.inj_add; cbn; lia | rewrite IH; lia].
Qed.
Lemma parts_count_drop k ps : parts_count (part_drop k ps) <= parts_count ps.
Proof.
  induction ps as [|[k' l] r IH]; cbn [part_drop parts_count]; [lia|].
  destruct (tpk_eqb k k'); cbn [parts_count]; lia.
Qed.
Lemma parts_count_in ps k l : In (k, l) ps -> Z.of_nat (length l) <= parts_count ps.
Proof.
  induction ps as [|[k' l'] r IH]; intros H; [contradiction|]. cbn [parts_count]. pose proof (parts_count_nonneg r).
  destruct H as [E|H]; [injection E as _ <-; lia | specialize (IH H); lia].
Qed.
Lemma hs_phase2_count c bl : forall ps cur buf, parts_count (snd (fst (hs_phase2 c bl ps cur buf))) <= parts_count buf.
Proof.
  induction ps as [|[k l] r IH]; intros cur buf; cbn [hs_phase2]; [cbn; lia|].
  destruct (block_lookup k bl) as [[e off]|]; [|apply IH]. destruct (retriable e); [|apply IH].
  specialize (IH (cur_set k e cur) (part_drop k buf)). pose proof (parts_count_drop k buf).
  destruct (hs_phase2 c bl r (cur_set k e cur) (part_drop k buf)) as [[cur' buf'] effs']. cbn [fst snd] in *. lia.
Qed.

Section CntBp.
Variable c : cfg.
Hypothesis Hmax : c_max_msgs c = 1.

Lemma no_overflow_empty ps m : would_overflow c ps m = false -> set_count ps <= 0.
Proof.
  unfold would_overflow. rewrite Hmax. intros H. apply orb_false_iff in H as [_ H]. cbn in H. apply Z.leb_gt in H. lia.
Qed.

Lemma do_add_cnt st m : set_count (b_buf st) <= 0 -> cnt_ok (b_buf (fst (fst (do_add c st m)))).
Proof.
  intros Hk. unfold do_add, cnt_ok. destruct (m_encfail m); [cbn [fst]; lia|].
  match goal with |- context [if ?b then _ else _] => destruct b end; cbn [fst b_buf]; [lia|].
  unfold set_count in *. cbn [s_parts]. rewrite parts_count_add. lia.
Qed.
Lemma after_over_cnt st m : set_count (b_buf st) <= 0 -> cnt_ok (b_buf (fst (fst (after_over c st m)))).
Proof. intros Hk. unfold after_over. destruct (c_idem c && negb (s_epoch (b_buf st) =? m_epoch m)); [unfold cnt_ok; cbn; lia | apply do_add_cnt, Hk]. Qed.
Lemma recv_data_cnt st m : cnt_ok (b_buf st) -> cnt_ok (b_buf (fst (fst (recv_data c st m)))).
Proof.
  intros Hk. unfold recv_data. destruct (would_overflow c (b_buf st) m) eqn:E; [exact Hk | apply after_over_cnt, (no_overflow_empty _ _ E)].
Qed.

Lemma hs_phase2_cnt bl : forall ps cur buf, parts_count ps <= 1 -> Forall eff_cnt (snd (hs_phase2 c bl ps cur buf)).
Proof.
  induction ps as [|[k l] r IH]; intros cur buf Hp; cbn [hs_phase2]; [constructor|]. cbn [parts_count] in Hp. pose proof (parts_count_nonneg r).
  assert (Hr : parts_count r <= 1) by lia.
  destruct (block_lookup k bl) as [[e off]|]; [|apply IH, Hr]. destruct (retriable e); [|apply IH, Hr].
  specialize (IH (cur_set k e cur) (part_drop k buf) Hr).
  destruct (hs_phase2 c bl r (cur_set k e cur) (part_drop k buf)) as [[cur' buf'] effs']. cbn [snd] in *.
  apply Forall_app. split; [|exact IH]. apply Forall_app. split; [|apply nokey_cnt, nokey_retry_msgs].
  destruct (c_idem c); [|apply nokey_cnt, nokey_retry_msgs]. constructor; [|constructor]. cbn [eff_cnt]. lia.
Qed.

Lemma handle_response_cnt e0 st sent r : cnt_ok (b_buf st) -> cnt_ok sent ->
  cnt_ok (b_buf (fst (handle_response c e0 st sent r))) /\ Forall eff_cnt (snd (handle_response c e0 st sent r)).
Proof.
  intros Hk Hs. unfold handle_response.
  assert (HX : forall X : bp * list effect, cnt_ok (b_buf (fst X)) -> Forall eff_cnt (snd X) ->
     let Y := (let '(st1, effs) := X in if set_empty (b_buf st1) then (rollover st1 (e0 + bumps effs), effs) else (st1, effs)) in
     cnt_ok (b_buf (fst Y)) /\ Forall eff_cnt (snd Y)).
  { intros [st1 effs] H1 H2. cbn [fst snd] in *. destruct (set_empty (b_buf st1)); cbn [fst snd]; [split; [apply cnt_ok_empty | exact H2] | split; assumption]. }
  apply HX.
  - destruct r as [e [|]| |bl]; cbn [fst]; try exact Hk; [apply cnt_ok_empty|].
    destruct (c_retry_max c =? 0)%nat; [exact Hk|].
    pose proof (hs_phase2_count c bl (s_parts sent) (b_cur st) (s_parts (b_buf st))) as Hin.
    destruct (hs_phase2 c bl (s_parts sent) (b_cur st) (s_parts (b_buf st))) as [[cur buf] e2]. cbn [fst snd] in *.
    unfold cnt_ok, set_count in *. cbn [with_cur with_buf b_buf s_parts]. lia.
  - destruct r as [e [|]| |bl]; cbn [snd].
    + apply nokey_cnt, nosend_nokey, ns_all_errors.
    + apply nokey_cnt. change (nokey ([EAbandon (b_broker st)] ++ all_retry c (s_parts sent) e ++ all_retry c (s_parts (b_buf st)) e) = true).
      rewrite !nokey_app, !nokey_all_retry. reflexivity.
    + apply nokey_cnt, nosend_nokey, ns_hs_phase1.
    + destruct (c_retry_max c =? 0)%nat; [apply nokey_cnt, nosend_nokey, ns_hs_phase1|].
      pose proof (hs_phase2_cnt bl (s_parts sent) (b_cur st) (s_parts (b_buf st)) Hs) as H2.
      destruct (hs_phase2 c bl (s_parts sent) (b_cur st) (s_parts (b_buf st))) as [[cur buf] e2]. cbn [snd] in *.
      apply Forall_app. split; [apply nokey_cnt, nosend_nokey, ns_hs_phase1 | exact H2].
Qed.

Lemma bp_core_cnt e0 st i : cnt_ok (b_buf st) -> (forall sent r, i = BResp sent r -> cnt_ok sent) ->
  cnt_ok (b_buf (fst (fst (bp_core c e0 st i)))) /\ Forall eff_cnt (snd (fst (bp_core c e0 st i))).
Proof.
  intros Hk Hre. unfold bp_core. destruct i as [m| | | |sent r].
  - destruct (b_mode st); try (split; [exact Hk | apply nokey_cnt; reflexivity]).
    destruct (b_wait st); try (split; [exact Hk | apply nokey_cnt; reflexivity]).
    destruct (is_syn m); [split; [exact Hk | apply nokey_cnt; reflexivity]|].
    destruct (needs_retry st m).
    + cbn [fst snd]. split; [destruct (b_closing st); [|destruct (is_fin m)]; exact Hk | apply nokey_cnt, nokey_retry_msg].
    + destruct (is_fin m); [cbn [fst snd]; split; [exact Hk | apply nokey_cnt, nokey_retry_msg]|].
      split; [apply recv_data_cnt, Hk | apply nokey_cnt, nokey_recv_data].
  - destruct (b_mode st), (b_wait st); (split; [exact Hk | constructor]).
  - destruct (b_timer st && flush_poll st); (split; [exact Hk | constructor]).
  - destruct (flush_enabled st); [|split; [exact Hk | constructor]].
    assert (Hk1 : set_count (b_buf (with_wait (rollover st e0) WNone)) <= 0) by (cbn; lia).
    destruct (b_wait st) as [|m|m]; cbn [fst snd].
    + split; [apply cnt_ok_empty | constructor; [exact Hk | constructor]].
    + pose proof (after_over_cnt (with_wait (rollover st e0) WNone) m Hk1) as H1.
      pose proof (nokey_after_over c (with_wait (rollover st e0) WNone) m) as H2.
      destruct (after_over c (with_wait (rollover st e0) WNone) m) as [[st2 e2] u]. cbn [fst snd] in *.
      split; [exact H1 | constructor; [exact Hk | apply nokey_cnt, H2]].
    + pose proof (do_add_cnt (with_wait (rollover st e0) WNone) m Hk1) as H1.
      pose proof (nokey_do_add c (with_wait (rollover st e0) WNone) m) as H2.
      destruct (do_add c (with_wait (rollover st e0) WNone) m) as [[st2 e2] u]. cbn [fst snd] in *.
      split; [exact H1 | constructor; [exact Hk | apply nokey_cnt, H2]].
  - destruct (handle_response_cnt e0 st sent r Hk (Hre sent r eq_refl)) as [K1 E1].
    destruct (handle_response c e0 st sent r) as [st1 effs]. cbn [fst snd] in *.
    destruct (b_wait st1) as [|m|m]; cbn [fst snd]; [split; assumption| |].
    + destruct (needs_retry st1 m); [cbn [fst snd]; split; [exact K1 | apply Forall_app; split; [exact E1 | apply nokey_cnt, nokey_retry_msg]]|].
      destruct (would_overflow c (b_buf st1) m) eqn:Eo; [split; assumption|].
      pose proof (after_over_cnt (with_wait st1 WNone) m (no_overflow_empty _ _ Eo)) as H1.
      pose proof (nokey_after_over c (with_wait st1 WNone) m) as H2.
      destruct (after_over c (with_wait st1 WNone) m) as [[st2 e2] u]. cbn [fst snd] in *.
      split; [exact H1 | apply Forall_app; split; [exact E1 | apply nokey_cnt, H2]].
    + destruct (needs_retry st1 m); cbn [fst snd]; [split; [exact K1 | apply Forall_app; split; [exact E1 | apply nokey_cnt, nokey_retry_msg]] | split; assumption].
Qed.

Lemma bp_step_cnt e0 st i : cnt_ok (b_buf st) -> (forall sent r, i = BResp sent r -> cnt_ok sent) ->
  cnt_ok (b_buf (fst (bp_step c e0 st i))) /\ Forall eff_cnt (snd (bp_step c e0 st i)).
Proof.
  intros Hk Hre. destruct (bp_core_cnt e0 st i Hk Hre) as [H1 H2]. unfold bp_step.
  destruct (bp_core c e0 st i) as [[st' effs] upd]. cbn [fst snd] in *. split; [|exact H2].
  assert (Hd : forall x, cnt_ok (b_buf x) -> cnt_ok (b_buf (drain_check x))).
  { intros x Hx. unfold drain_check. destruct (b_mode x); try exact Hx. destruct (set_empty (b_buf x)); exact Hx. }
  apply Hd. destruct upd; [|exact H1]. unfold end_iter. destruct (b_mode st'); try exact H1. destruct (b_wait st'); exact H1.
Qed.

Lemma rb_cnt e0 t l : rb_cnt_ok t -> Forall eff_cnt (rb_step c e0 (rb_k t) (rb_ms t) (rb_e t) l).
Proof.
  intros Ht. unfold rb_step. destruct (first_exhausted c (rb_ms t)).
  - destruct (c_fix_rb c); [apply nokey_cnt, nosend_nokey, ns_return_errors | apply nokey_cnt; reflexivity].
  - destruct l; [|apply nokey_cnt, nosend_nokey, ns_return_errors].
    constructor; [|constructor]. cbn [eff_cnt]. unfold cnt_ok, set_count. cbn [s_parts parts_count]. rewrite map_length. unfold rb_cnt_ok in Ht. lia.
Qed.

(* ---------------------------------------------------------------- steps *)

Lemma run_bp_cnt s b x i : cnt_inv s -> nth_error (g_bps s) b = Some x ->
  (forall sent r, i = BResp sent r -> cnt_ok sent) -> cnt_inv (run_bp c s b x i).
Proof.
  intros [Hb Hr] Hn Hre. unfold run_bp. pose proof (Forall_nth' _ _ _ _ Hb Hn) as [X1 X2 X3 X4].
  destruct (bp_step_cnt (g_epoch s) (i_st x) i X1 Hre) as [K E].
  destruct (bp_step c (g_epoch s) (i_st x) i) as [st' effs]. cbn [fst snd] in *.
  apply apply_effs_cnt; [|exact E]. split; [|exact Hr]. cbn [set_bps g_bps].
  eapply Forall_bp_upd_nth'; [exact Hb | exact Hn |]. constructor; assumption.
Qed.
Lemma run_pp_cnt s k x m ls : cnt_inv s -> cnt_inv (run_pp c s k x m ls).
Proof.
  intros H. unfold run_pp.
  match goal with |- context [pp_step c (fst k) (snd k) (pr_st x) m ?ab ?stamp ls] =>
    pose proof (ppsh_pp c (fst k) (snd k) (pr_st x) m ab stamp ls) as Q;
    destruct (pp_step c (fst k) (snd k) (pr_st x) m ab stamp ls) as [st' effs] end.
  cbn [snd] in Q. apply apply_effs_cnt; [|apply nokey_cnt, ppsh_nokey, Q]. eapply cnt_same; [| |exact H]; reflexivity.
Qed.

Lemma raw_step_cnt s ch : cnt_inv s -> cnt_inv (raw_step c s ch).
Proof.
  intros H. assert (Same : forall s', g_bps s' = g_bps s -> g_rbs s' = g_rbs s -> cnt_inv s') by (intros s' E1 E2; eapply cnt_same; eassumption).
  destruct ch; cbn [raw_step].
  - destruct (g_close_req s); [exact H | apply Same; reflexivity].
  - destruct (g_close_req s); [exact H | apply Same; reflexivity].
  - destruct (pop DDisp s) as [[m s1]|] eqn:Ep; [|exact H]. destruct (pop_places_frame _ _ _ _ Ep) as [F1 F2].
    pose proof (nokey_disp c (g_disp s1) m) as Q. destruct (disp_step c (g_disp s1) m) as [d' effs]. cbn [snd] in Q.
    apply apply_effs_cnt; [apply Same; cbn; assumption | apply nokey_cnt, Q].
  - destruct (pop (DTopic t) s) as [[m s1]|] eqn:Ep; [|exact H]. destruct (pop_places_frame _ _ _ _ Ep) as [F1 F2].
    apply apply_effs_cnt; [apply Same; assumption | apply nokey_cnt, nokey_tp].
  - destruct (pop (DPart t p) s) as [[m s1]|] eqn:Ep; [|exact H]. destruct (pop_places_frame _ _ _ _ Ep) as [F1 F2].
    assert (H1 : cnt_inv s1) by (apply Same; assumption).
    destruct (pp_get (t, p) (g_pps s1)); [apply run_pp_cnt, H1|].
    destruct (next_lres ls) as [l0 ls']. pose proof (ppsh_pp_init c t p l0) as Q. destruct (pp_init c t p l0) as [st0 effs0]. cbn [snd] in Q.
    apply run_pp_cnt. apply apply_effs_cnt; [|apply nokey_cnt, ppsh_nokey, Q]. eapply cnt_same; [| |exact H1]; reflexivity.
  - destruct (nth_error (g_bps s) b) as [x|] eqn:En; [|exact H]. destruct (flush_poll (i_st x)); [|exact H].
    destruct (pop (DBp b) s) as [[m s1]|] eqn:Ep.
    + destruct (pop_places_frame _ _ _ _ Ep) as [F1 F2]. apply run_bp_cnt; [apply Same; assumption | rewrite F1; exact En | intros; discriminate].
    + destruct (i_in_closed x); [|exact H]. apply run_bp_cnt; [exact H | exact En | intros; discriminate].
  - destruct (nth_error (g_bps s) b) as [x|] eqn:En; [|exact H]. apply run_bp_cnt; [exact H | exact En | intros; discriminate].
  - destruct (nth_error (g_bps s) b) as [x|] eqn:En; [|exact H]. apply run_bp_cnt; [exact H | exact En | intros; discriminate].
  - destruct (nth_error (g_bps s) b) as [x|] eqn:En; [|exact H].
    destruct (i_infl x) eqn:Ei; [exact H|]. destruct (i_bridge x) as [|st r] eqn:Eb; [exact H|].
    destruct H as [Hb Hr]. split; [|exact Hr]. cbn [set_bps g_bps]. pose proof (Forall_nth' _ _ _ _ Hb En) as [X1 X2 X3 X4]. rewrite Eb in X2. inversion X2; subst.
    eapply Forall_bp_upd_nth'; [exact Hb | exact En |]. constructor; cbn [bi_with_bridge i_st i_bridge i_infl i_resp]; auto.
    intros s0 E0. injection E0 as <-. assumption.
  - destruct (nth_error (g_bps s) b) as [x|] eqn:En; [|exact H]. destruct (i_infl x) as [st|] eqn:Ei; [|exact H].
    destruct H as [Hb Hr]. split; [|exact Hr]. cbn [set_bps g_bps]. pose proof (Forall_nth' _ _ _ _ Hb En) as [X1 X2 X3 X4].
    eapply Forall_bp_upd_nth'; [exact Hb | exact En |]. constructor; cbn [bi_with_bridge i_st i_bridge i_infl i_resp]; auto; [intros s0 E0; discriminate|].
    apply Forall_app. split; [exact X4 | constructor; [apply (X3 _ Ei) | constructor]].
  - destruct (nth_error (g_bps s) b) as [x|] eqn:En; [|exact H].
    destruct (i_resp x) as [|[st r] rest] eqn:Er; [exact H|].
    destruct H as [Hb Hr]. pose proof (Forall_nth' _ _ _ _ Hb En) as [X1 X2 X3 X4]. rewrite Er in X4. inversion X4 as [|? ? G1 G2]; subst.
    set (s1 := set_bps s (bp_upd b (fun y => bi_with_bridge y (i_bridge y) (i_infl y) rest) (g_bps s))).
    assert (H1 : cnt_inv s1).
    { split; [|exact Hr]. cbn [s1 set_bps g_bps]. eapply Forall_bp_upd_nth'; [exact Hb | exact En |]. constructor; assumption. }
    destruct (nth_error (g_bps s1) b) as [x1|] eqn:En1; [|split; assumption].
    apply run_bp_cnt; [exact H1 | exact En1 |]. intros sent r0 E. injection E as <- <-. exact G1.
  - destruct (nth_error (g_rbs s) i) as [t|] eqn:En; [|exact H]. destruct H as [Hb Hr].
    assert (Ht : rb_cnt_ok t) by (rewrite Forall_forall in Hr; apply Hr; eapply nth_error_In, En).
    apply apply_effs_cnt; [|apply rb_cnt, Ht]. split; [exact Hb|]. cbn [set_rbs g_rbs].
    clear -Hr. revert i. induction Hr as [|y l Hy Hl IH]; intros [|i]; cbn [remove_nth]; try constructor; auto.
  - destruct (pop DRetry s) as [[m s1]|] eqn:Ep; [|exact H]. destruct (pop_places_frame _ _ _ _ Ep) as [F1 F2]. apply Same; cbn; assumption.
  - destruct (g_close_req s && negb (g_woken s) && (g_inflight s =? 0)); [apply Same; reflexivity | exact H].
  - destruct (g_woken s && negb (g_closed s)); [apply Same; reflexivity | exact H].
Qed.

Lemma step_cnt s ch : cnt_inv s -> cnt_inv (step c s ch).
Proof.
  intros H. unfold step. destruct (g_panic s); [exact H|].
  destruct (g_panic (raw_step c s ch)); [eapply cnt_same; [| |exact H]; reflexivity | apply raw_step_cnt, H].
Qed.

Theorem cnt_run : forall ys, cnt_inv (y_st (yrun c ys)).
Proof.
  induction ys as [|ch ys IH] using rev_ind; [split; constructor|].
  rewrite yrun_snoc. destruct ch as [ch|b f]; cbn [ystep].
  - destruct (is_answer ch); [exact IH | apply step_cnt, IH].
  - destruct (g_panic (y_st (yrun c ys))); [exact IH|]. destruct (nth_error (g_bps (y_st (yrun c ys))) b) as [x|]; [|exact IH].
    destruct (i_infl x) as [s|]; [|exact IH]. destruct (process (y_wire (yrun c ys)) (y_br (yrun c ys)) s f) as [[br' ls] r].
    cbn [y_st]. apply step_cnt, IH.
Qed.

End CntBp.

(* ---------------------------------------------------------------- the purely environmental corollary *)

Definition bump_ok (c : cfg) (sched : list ychoice) : Prop :=
  forall ys ch rest, sched = ys ++ ch :: rest ->
  g_epoch (y_st (ystep c (yrun c ys) ch)) <> g_epoch (y_st (yrun c ys)) -> no_stamped (y_st (ystep c (yrun c ys) ch)).

Lemma single_consec ps : cnt_ok ps -> consec_set ps.
Proof.
  intros Hc k l Hin. pose proof (parts_count_in _ _ _ Hin) as Hl. unfold cnt_ok, set_count in Hc.
  destruct l as [|m [|m' r]]; [exact I | cbn; auto | cbn [length] in Hl; lia].
Qed.

Theorem no_duplicate_env_single c sched : idem_cfg c = true -> c_fix_rb c = true -> c_max_msgs c = 1 ->
  forallb sane_choice sched = true -> bump_ok c sched ->
  (forall i, (subm_count i (y_st (yrun c sched)) <= 1)%nat) -> no_duplicate_at (yrun c sched).
Proof.
  intros Hc Hf Hm Hs Hb Hsub. apply no_duplicate_env; try assumption.
  intros ys ch rest E. split; [apply (Hb ys ch rest E)|]. destruct ch as [ch|b f]; [exact I|].
  intros x ps Hn Hi. apply single_consec. destruct (cnt_run c Hm ys) as [Kb _]. apply (bc_infl _ (Forall_nth' _ _ _ _ Kb Hn) ps Hi).
Qed.

(* the hypotheses of the corollary on a history with a lost acknowledgement and a resend, Flush.MaxMessages = 1 *)
Definition wcfg1m : cfg := mkCfg 2%nat true true 1000000 104847360 0 0 false 1 [] true true.
Definition sched_single : list ychoice :=
  [YC (CSubmit (C05.Witness.wmsg 1 0)); YC (CSubmit (C05.Witness.wmsg 2 0)); YC CDisp; YC CDisp; YC (CTp 0); YC (CTp 0);
   YC (CPp 0 0 [LOk 1]); YC (CPp 0 0 []); YC (CBpRecv 0); YC (CBpRecv 0); YC (CBpRecv 0);
   YC (CBpFlush 0); YC (CBridge 0); YDeliver 0 (RAnswer [PErrAfter 20]); YC (CBpResp 0);
   YC (CRb 0 (LOk 1)); YC (CBridge 0); YDeliver 0 (RAnswer []); YC (CBpResp 0)].
Example single_instance :
  bump_ok wcfg1m sched_single /\ idem_cfg wcfg1m = true /\ c_max_msgs wcfg1m = 1 /\
  appended 1 (yrun wcfg1m sched_single) = 1%nat /\ In 1 (success_ids (y_st (yrun wcfg1m sched_single))) /\
  existsb (fun l => match rl_verdict l with Some (VDup _) => true | _ => false end) (y_hist (yrun wcfg1m sched_single)) = true.
Proof.
  split; [|vm_compute; repeat split; auto].
  assert (H : env_ok wcfg1m sched_single).
  { apply env_fix_env_ok. unfold sched_single. cbn [env_fix].
    repeat (split; [split; [intros H; exfalso; apply H; vm_compute; reflexivity|]|]); try exact I.
    all: intros x ps Hx Hp; vm_compute in Hx; injection Hx as <-; vm_compute in Hp; injection Hp as <-;
         intros k l Hkl; cbn [s_parts] in Hkl; destruct Hkl as [E|[]]; injection E as <- <-; cbn; repeat split. }
  intros ys ch rest E. apply (H ys ch rest E).
Qed.
