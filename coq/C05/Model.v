(* C05 model, part 1: the rule-enforcing idempotent broker and its composition with the async-producer actor
   model of coq/Producer (Msg, Actors, Compose).  Executable Gallina only (no proofs here).

   Client side = Producer/Compose.v as it is (transaction manager g_epoch/g_seqs, EStamp in the partition worker,
   the set's s_epoch, FirstSequence = sequence of the first message added, rb_step, the per-message retry path).
   Broker side = Kafka's producer-state rules per (producer id, partition); one producer id (the harness checks
   that every batch carries the id handed out by InitProducerID).
   [ystep] replaces the free environment choice [CAnswer b r] of Compose by [YDeliver b f]: the response is
   computed by the broker rules from the set in flight and a fault [f] (lost acknowledgement, connection drop,
   per-partition retriable / fatal answers before or after the append, missing block). *)
From Coq Require Import List ZArith Bool Arith.
From SV Require Import Producer.Msg Producer.Actors Producer.Compose.
Import ListNotations.
Open Scope Z_scope.

(* ---------------------------------------------------------------- batches and the partition state *)

(* one partition's record batch as the broker decodes it *)
Record batch := mkBatch { ba_key : tpk; ba_epoch : Z; ba_first : Z; ba_ids : list Z }.

Definition ba_count (b : batch) : Z := Z.of_nat (length (ba_ids b)).
Definition ba_last (b : batch) : Z := ba_first b + ba_count b - 1.

Record entry := mkEntry { en_id : Z; en_epoch : Z; en_seq : Z }.

(* cached batch descriptor: first sequence, last sequence, base offset *)
Definition desc := (Z * Z * Z)%type.

Record pst := mkPst {
  ps_epoch : Z;              (* current producer epoch at this partition; -1: no producer state yet *)
  ps_last : Z;               (* last sequence appended in that epoch *)
  ps_cache : list desc;      (* the last (at most five) batches appended in that epoch, newest first *)
  ps_log : list entry        (* the partition log *)
}.
Definition pst0 : pst := mkPst (-1) (-1) [] [].

Definition CACHE := 5%nat.

Inductive verdict :=
| VAppend (base : Z)         (* in sequence: appended at this base offset *)
| VDup (base : Z)            (* duplicates a cached batch: Ok with the cached base offset, nothing appended *)
| VOutOfOrder                (* OutOfOrderSequenceNumber (45) *)
| VFenced.                   (* InvalidProducerEpoch (47) *)

Fixpoint cache_find (f l : Z) (c : list desc) : option Z :=
  match c with
  | [] => None
  | (f', l', base) :: r => if (f =? f') && (l =? l') then Some base else cache_find f l r
  end.

Definition decide (p : pst) (b : batch) : verdict :=
  if ba_epoch b <? ps_epoch p then VFenced
  else if ps_epoch p <? ba_epoch b then
    (if ba_first b =? 0 then VAppend (Z.of_nat (length (ps_log p))) else VOutOfOrder)
  else match cache_find (ba_first b) (ba_last b) (ps_cache p) with
       | Some base => VDup base
       | None => if ba_first b =? ps_last p + 1 then VAppend (Z.of_nat (length (ps_log p))) else VOutOfOrder
       end.

Fixpoint entries (ep sq : Z) (ids : list Z) : list entry :=
  match ids with [] => [] | i :: r => mkEntry i ep sq :: entries ep (sq + 1) r end.

Definition apply_batch (p : pst) (b : batch) : pst :=
  match decide p b with
  | VAppend base =>
      mkPst (ba_epoch b) (ba_last b)
            (firstn CACHE ((ba_first b, ba_last b, base) :: (if ps_epoch p =? ba_epoch b then ps_cache p else [])))
            (ps_log p ++ entries (ba_epoch b) (ba_first b) (ba_ids b))
  | _ => p
  end.

(* ---------------------------------------------------------------- the broker: partition states by key *)

Definition broker := list (tpk * pst).

Fixpoint br_get (k : tpk) (br : broker) : pst :=
  match br with [] => pst0 | (k', p) :: r => if tpk_eqb k k' then p else br_get k r end.
Fixpoint br_set (k : tpk) (p : pst) (br : broker) : broker :=
  match br with
  | [] => [(k, p)]
  | (k', p') :: r => if tpk_eqb k k' then (k', p) :: r else (k', p') :: br_set k p r
  end.

(* ---------------------------------------------------------------- faults *)

(* what happens to one partition of a request that is answered *)
Inductive pfault :=
| PNone                      (* apply the rules, answer the verdict *)
| PErrBefore (e : Z)         (* nothing applied, answer error e (retriable or not) *)
| PErrAfter (e : Z)          (* rules applied; an accepted batch is answered with error e ("failed after append") *)
| PNoBlock.                  (* nothing applied, the response has no block for the partition *)

(* what happens to a request *)
Inductive rfault :=
| RAnswer (pf : list pfault) (* answered; pf[i] applies to the i-th partition of the set (PNone beyond the list) *)
| RDropBefore                (* connection dropped before the broker saw the request *)
| RLoseAck.                  (* rules applied to every partition, then the connection drops: acknowledgement lost *)

Definition E_OUT_OF_ORDER := 45.
Definition E_FENCED := 47.
Definition E_CONN := 1004.

(* per delivered batch: the verdict of the rules if they were applied *)
Record rlog := mkRlog { rl_batch : batch; rl_verdict : option verdict }.

Definition verdict_block (v : verdict) : Z * Z :=
  match v with
  | VAppend base => (0, base)
  | VDup base => (0, base)
  | VOutOfOrder => (E_OUT_OF_ORDER, -1)
  | VFenced => (E_FENCED, -1)
  end.
Definition accepted (v : verdict) : bool := match v with VAppend _ | VDup _ => true | _ => false end.

(* The epoch on the wire is RecordBatch.ProducerEpoch, fixed when the partition's batch object is created by
   produceSet.add: the label of the buffer the messages were added to.  retryBatch re-sends that same object
   (its own produceSet.producerEpoch is not encoded), individually re-queued messages are added to a new buffer.
   [wire] remembers, per message id, the label of the buffer it was last added to (see [ystep]). *)
Fixpoint wire_get (i : Z) (w : list (Z * Z)) (dflt : Z) : Z :=
  match w with [] => dflt | (j, e) :: r => if i =? j then e else wire_get i r dflt end.
Fixpoint wire_set (i e : Z) (w : list (Z * Z)) : list (Z * Z) :=
  match w with
  | [] => [(i, e)]
  | (j, e') :: r => if i =? j then (j, e) :: r else (j, e') :: wire_set i e r
  end.

Definition batch_of (w : list (Z * Z)) (ep : Z) (kl : tpk * list msg) : batch :=
  match snd kl with
  | m :: _ => mkBatch (fst kl) (wire_get (m_id m) w ep) (m_seq m) (map m_id (snd kl))
  | [] => mkBatch (fst kl) ep 0 []
  end.
Definition batches_of (w : list (Z * Z)) (s : pset) : list batch := map (batch_of w (s_epoch s)) (s_parts s).

(* one partition of an answered request *)
Definition serve (br : broker) (b : batch) (f : pfault) : broker * rlog * option (tpk * (Z * Z)) :=
  match f with
  | PNone =>
      let p := br_get (ba_key b) br in
      let v := decide p b in
      (br_set (ba_key b) (apply_batch p b) br, mkRlog b (Some v), Some (ba_key b, verdict_block v))
  | PErrAfter e =>
      let p := br_get (ba_key b) br in
      let v := decide p b in
      (br_set (ba_key b) (apply_batch p b) br, mkRlog b (Some v),
       Some (ba_key b, if accepted v then (e, -1) else verdict_block v))
  | PErrBefore e => (br, mkRlog b None, Some (ba_key b, (e, -1)))
  | PNoBlock => (br, mkRlog b None, None)
  end.

Fixpoint serve_all (br : broker) (bs : list batch) (pf : list pfault)
  : broker * list rlog * list (tpk * (Z * Z)) :=
  match bs with
  | [] => (br, [], [])
  | b :: r =>
      let '(br1, l, blk) := serve br b (hd PNone pf) in
      let '(br2, ls, blks) := serve_all br1 r (tl pf) in
      (br2, l :: ls, match blk with Some x => x :: blks | None => blks end)
  end.

Definition process_b (br : broker) (bs : list batch) (f : rfault) : broker * list rlog * resp :=
  match f with
  | RAnswer pf => let '(br', ls, blks) := serve_all br bs pf in (br', ls, RBlocks blks)
  | RDropBefore => (br, map (fun b => mkRlog b None) bs, RErr E_CONN false)
  | RLoseAck => let '(br', ls, _) := serve_all br bs [] in (br', ls, RErr E_CONN false)
  end.
Definition process (w : list (Z * Z)) (br : broker) (s : pset) (f : rfault) : broker * list rlog * resp :=
  process_b br (batches_of w s) f.

(* ---------------------------------------------------------------- the transaction manager on its own *)

(* (producerEpoch, sequenceNumbers): the same functions Compose.apply_eff uses for EStamp / EErr *)
Definition txn := (Z * list (tpk * Z))%type.
Definition txn0 : txn := (0, []).
Definition txn_stamp (t : txn) (k : tpk) : (Z * Z) * txn :=
  ((seq_get k (snd t), fst t), (fst t, seq_set k (seq_get k (snd t) + 1) (snd t))).
Definition txn_bump (t : txn) : txn := (fst t + 1, map (fun kv => (fst kv, 0)) (snd t)).

(* ---------------------------------------------------------------- the composed system *)

Record sys := mkSys { y_st : state; y_br : broker; y_hist : list rlog; y_wire : list (Z * Z) }.
Definition yinit : sys := mkSys init [] [] [].

Inductive ychoice :=
| YC (ch : choice)                     (* a client-side step; [CAnswer] is not available here (it is a no-op) *)
| YDeliver (b : nat) (f : rfault).     (* the request in flight at bridge b reaches the cluster / the connection *)

Definition is_answer (ch : choice) : bool := match ch with CAnswer _ _ => true | _ => false end.

(* every message sitting in a broker worker's buffer was added to that buffer: its batch carries the buffer's label *)
Definition note_buf (w : list (Z * Z)) (x : bpi) : list (Z * Z) :=
  fold_left (fun w m => wire_set (m_id m) (s_epoch (b_buf (i_st x))) w) (set_msgs (b_buf (i_st x))) w.
Definition note_wire (w : list (Z * Z)) (s : state) : list (Z * Z) := fold_left note_buf (g_bps s) w.

Definition ystep (c : cfg) (y : sys) (ch : ychoice) : sys :=
  match ch with
  | YC ch' =>
      if is_answer ch' then y
      else let s' := step c (y_st y) ch' in mkSys s' (y_br y) (y_hist y) (note_wire (y_wire y) s')
  | YDeliver b f =>
      match g_panic (y_st y), nth_error (g_bps (y_st y)) b with
      | None, Some x =>
          match i_infl x with
          | Some s =>
              let '(br', ls, r) := process (y_wire y) (y_br y) s f in
              mkSys (step c (y_st y) (CAnswer b r)) br' (y_hist y ++ ls) (y_wire y)
          | None => y
          end
      | _, _ => y
      end
  end.

Definition yrun (c : cfg) (sched : list ychoice) : sys := fold_left (ystep c) sched yinit.

(* ---------------------------------------------------------------- observables the property speaks about *)

Definition log_ids (p : pst) : list Z := map en_id (ps_log p).
Fixpoint all_log_ids (br : broker) : list Z :=
  match br with [] => [] | (_, p) :: r => log_ids p ++ all_log_ids r end.
Definition count_id (i : Z) (l : list Z) : nat := length (filter (Z.eqb i) l).
(* how often message i sits in the logs of the cluster *)
Definition appended (i : Z) (y : sys) : nat := count_id i (all_log_ids (y_br y)).

Definition success_ids (s : state) : list Z :=
  map (fun e => m_id (ev_msg e)) (filter (fun e => match e with Ev ok m _ => ok && is_data m end) (g_events s)).

(* the requirements of idempotent mode (config.go Validate) *)
Definition idem_cfg (c : cfg) : bool := c_idem c && c_v2 c && (1 <=? c_retry_max c)%nat.

(* batches the rules accepted by appending, per partition and epoch, in order *)
Definition appended_batches (k : tpk) (ep : Z) (h : list rlog) : list batch :=
  map rl_batch (filter (fun l => tpk_eqb (ba_key (rl_batch l)) k && (ba_epoch (rl_batch l) =? ep) &&
                                 match rl_verdict l with Some (VAppend _) => true | _ => false end) h).

(* ---------------------------------------------------------------- what a history claims *)

(* a batch the rules were applied to claims, for its i-th record, the stamp (partition, epoch, first + i) *)
Definition stamp := (tpk * Z * Z)%type.
Fixpoint claims (k : tpk) (ep sq : Z) (ids : list Z) : list (Z * stamp) :=
  match ids with [] => [] | i :: r => (i, (k, ep, sq)) :: claims k ep (sq + 1) r end.
Definition batch_claims (b : batch) : list (Z * stamp) := claims (ba_key b) (ba_epoch b) (ba_first b) (ba_ids b).
Definition applied (l : rlog) : bool := match rl_verdict l with Some _ => true | None => false end.
Fixpoint hist_claims (h : list rlog) : list (Z * stamp) :=
  match h with
  | [] => []
  | l :: r => (if applied l then batch_claims (rl_batch l) else []) ++ hist_claims r
  end.

(* stamp-consistent: over everything the broker was asked to write, message id <-> (partition, epoch, sequence)
   is one-to-one: a message is always sent under the same stamp (resends identical, batches consecutive and
   labelled with their messages' epoch) and no two messages share a stamp *)
Definition consistent (cl : list (Z * stamp)) : Prop :=
  forall i s i' s', In (i, s) cl -> In (i', s') cl -> (i = i' <-> s = s').

(* the broker state as a function of the history *)
Definition replay_step (br : broker) (l : rlog) : broker :=
  if applied l
  then br_set (ba_key (rl_batch l)) (apply_batch (br_get (ba_key (rl_batch l)) br) (rl_batch l)) br
  else br.
Definition replay (h : list rlog) : broker := fold_left replay_step h [].

(* the verdicts recorded in a history are the rules' verdicts *)
Fixpoint verdicts_ok (br : broker) (h : list rlog) : Prop :=
  match h with
  | [] => True
  | l :: r =>
      match rl_verdict l with
      | Some v => v = decide (br_get (ba_key (rl_batch l)) br) (rl_batch l)
      | None => True
      end /\ verdicts_ok (replay_step br l) r
  end.

Definition accepted_entry (l : rlog) : bool :=
  match rl_verdict l with Some v => accepted v | None => false end.

(* ---------------------------------------------------------------- the transaction manager under any use *)

Inductive txop := XStamp (k : tpk) | XBump.
(* the stamps handed out by a sequence of getAndIncrementSequenceNumber / bumpEpoch calls *)
Fixpoint txn_issue (t : txn) (ops : list txop) : list stamp :=
  match ops with
  | [] => []
  | XStamp k :: r => let '((sq, ep), t') := txn_stamp t k in (k, ep, sq) :: txn_issue t' r
  | XBump :: r => txn_issue (txn_bump t) r
  end.
Definition txn_of (s : state) : txn := (g_epoch s, g_seqs s).

(* consecutive batches: each starts one past the previous one's last sequence *)
Fixpoint chain (prev_last : Z) (bs : list batch) : Prop :=
  match bs with
  | [] => True
  | b :: r => ba_first b = prev_last + 1 /\ chain (ba_last b) r
  end.

(* what identifies a record on the wire *)
Definition stamp4 (m : msg) : Z * Z * Z * bool := (m_id m, m_seq m, m_epoch m, m_hasseq m).

(* ---------------------------------------------------------------- statements (as propositions / checkers) *)

Definition subm_count (i : Z) (s : state) : nat := count_id i (map m_id (g_submitted s)).

(* a rule-enforcing broker does not invent an Ok / DuplicateSequenceNumber answer *)
Definition sane_pf (f : pfault) : bool :=
  match f with PErrBefore e | PErrAfter e => negb (e =? 0) && negb (e =? E_DUPLICATE) | _ => true end.
Definition sane_choice (ch : ychoice) : bool :=
  match ch with YDeliver _ (RAnswer pf) => forallb sane_pf pf | _ => true end.
Definition conn_free_choice (ch : ychoice) : bool :=
  match ch with YDeliver _ RDropBefore | YDeliver _ RLoseAck => false | _ => true end.

Definition no_duplicate_at (y : sys) : Prop :=
  (forall i, (appended i y <= 1)%nat) /\ (forall i, In i (success_ids (y_st y)) -> appended i y = 1%nat).

(* the property as stated, over all configurations of idempotent mode, schedules and fault scripts *)
Definition no_duplicate_full : Prop :=
  forall c sched, idem_cfg c = true -> forallb sane_choice sched = true ->
  (forall i, (subm_count i (y_st (yrun c sched)) <= 1)%nat) -> no_duplicate_at (yrun c sched).
(* ... and restricted to per-partition answers (no connection-level failure at all) *)
Definition no_duplicate_conn_free : Prop :=
  forall c sched, idem_cfg c = true -> forallb sane_choice sched = true -> forallb conn_free_choice sched = true ->
  (forall i, (subm_count i (y_st (yrun c sched)) <= 1)%nat) -> no_duplicate_at (yrun c sched).

(* ... and to histories without any error event either (so: no epoch bump at all) *)
Definition no_error_events (s : state) : bool := forallb (fun e => match e with Ev ok _ _ => ok end) (g_events s).
Definition no_duplicate_quiet : Prop :=
  forall c sched, idem_cfg c = true -> forallb sane_choice sched = true -> forallb conn_free_choice sched = true ->
  no_error_events (y_st (yrun c sched)) = true ->
  (forall i, (subm_count i (y_st (yrun c sched)) <= 1)%nat) -> no_duplicate_at (yrun c sched).

Definition batch_eqb (a b : batch) : bool :=
  tpk_eqb (ba_key a) (ba_key b) && (ba_epoch a =? ba_epoch b) && (ba_first a =? ba_first b) &&
  (fix eq (x y : list Z) := match x, y with [] , [] => true | i :: x', j :: y' => (i =? j) && eq x' y' | _, _ => false end)
    (ba_ids a) (ba_ids b).
Definition share (a b : batch) : bool := existsb (fun i => existsb (Z.eqb i) (ba_ids b)) (ba_ids a).
(* every batch delivered for a partition that shares a message with an earlier one is that batch again *)
Definition resend_okb (h : list rlog) : bool :=
  let bs := map rl_batch h in
  forallb (fun a => forallb (fun b => implb (tpk_eqb (ba_key a) (ba_key b) && share a b) (batch_eqb a b)) bs) bs.
Definition resend_identical_full : Prop :=
  forall c sched, idem_cfg c = true -> resend_okb (y_hist (yrun c sched)) = true.

(* batches SENT for (partition, epoch), in order: a batch seen before is a resend, a new one must start one past
   the highest sequence sent so far *)
Fixpoint sent_ok (seen : list batch) (next : Z) (bs : list batch) : bool :=
  match bs with
  | [] => true
  | b :: r => if existsb (batch_eqb b) seen then sent_ok seen next r
              else (ba_first b =? next) && sent_ok (b :: seen) (ba_last b + 1) r
  end.
Definition sent_batches (k : tpk) (ep : Z) (h : list rlog) : list batch :=
  filter (fun b => tpk_eqb (ba_key b) k && (ba_epoch b =? ep)) (map rl_batch h).
Definition sequence_contiguous_full : Prop :=
  forall c sched k ep, idem_cfg c = true -> sent_ok [] 0 (sent_batches k ep (y_hist (yrun c sched))) = true.

Definition stamp_eqb (a b : stamp) : bool :=
  tpk_eqb (fst (fst a)) (fst (fst b)) && (snd (fst a) =? snd (fst b)) && (snd a =? snd b).
Definition consistentb (cl : list (Z * stamp)) : bool :=
  forallb (fun a => forallb (fun b => Bool.eqb (fst a =? fst b) (stamp_eqb (snd a) (snd b))) cl) cl.
