(* C05 proofs, part 6: a closure principle for message-level invariants of the actor composition.
   Every place that can hold a message (channel queues by destination, retry-level buffers of a partition worker,
   the broker side: buffers, the message parked in waitForSpace, bridged / in-flight / answered sets, retryBatch
   tasks) gets its own predicate; if the predicates are related by the transfer conditions below (one per way a
   message moves or is rewritten: interception, partitioning, stamping, bounce, retries++ ...), they hold in every
   place after any step.  The stamping conditions mention the transaction manager's values before the step. *)
From Coq Require Import List ZArith Bool Arith Lia.
From SV Require Import Producer.Msg Producer.Actors Producer.Compose Producer.Global
                       C05.Model C05.ProofsBroker C05.ProofsSys.
Import ListNotations.
Open Scope Z_scope.

Record preds := mkPreds { PQ : dest -> msg -> Prop; PL : tpk -> msg -> Prop; PB : msg -> Prop }.

Definition wait_msgs (w : bwait) : list msg := match w with WNone => [] | WOver m | WForce m => [m] end.
Definition bp_msgs (st : bp) : list msg := set_msgs (b_buf st) ++ wait_msgs (b_wait st).
Definition bside_msgs (x : bpi) : list msg :=
  bp_msgs (i_st x) ++ flat_map set_msgs (i_bridge x) ++
  match i_infl x with Some s => set_msgs s | None => [] end ++ flat_map (fun sr => set_msgs (fst sr)) (i_resp x).
Definition pp_msgs (st : pp) : list msg := flat_map l_buf (p_levels st).

Record places_ok (P : preds) (s : state) : Prop := mkPlaces {
  po_q : forall d l, In (d, l) (g_q s) -> Forall (PQ P d) l;
  po_pp : forall k x, In (k, x) (g_pps s) -> Forall (PL P k) (pp_msgs (pr_st x));
  po_bp : Forall (fun x => Forall (PB P) (bside_msgs x)) (g_bps s);
  po_rb : Forall (fun t => Forall (PB P) (rb_ms t)) (g_rbs s)
}.

(* ep, sqf: producer epoch and sequence counters read before the step *)
(* the partition worker's conditions; ep, sqf: producer epoch and sequence counters read before the step *)
Record transfers_pp (P : preds) (c : cfg) (ep : Z) (sqf : tpk -> Z) : Prop := mkTransfersPp {
  tp_buf : forall t p m, PQ P (DPart t p) m -> PL P (t, p) m;
  tp_fwd : forall t p b m, PQ P (DPart t p) m ->
           PQ P (DBp b) (if c_idem c && fresh_pass m && is_data m then set_stamp m (sqf (t, p)) ep else m);
  tp_flush : forall t p b m sq, PL P (t, p) m -> sqf (t, p) <= sq ->
           PQ P (DBp b) (if c_idem c && fresh_pass m && is_data m && negb (m_hasseq m) then set_stamp m sq ep else m);
  tp_marker : forall t p b r, PQ P (DBp b) (marker c t p F_SYN r) /\ PQ P (DBp b) (marker c t p F_FIN r)
}.

(* stamping conditions that hold for whatever stamp is used (needed when a flush bumps the epoch half-way) *)
Record transfers_any (P : preds) (c : cfg) : Prop := mkTransfersAny {
  ta_fwd : forall t p b m sq e, PQ P (DPart t p) m ->
           PQ P (DBp b) (if c_idem c && fresh_pass m && is_data m then set_stamp m sq e else m);
  ta_flush : forall t p b m sq e, PL P (t, p) m ->
           PQ P (DBp b) (if c_idem c && fresh_pass m && is_data m && negb (m_hasseq m) then set_stamp m sq e else m)
}.

(* all conditions; G guards the partition worker's: they are needed for CPp steps only *)
Record transfers (P : preds) (G : Prop) (c : cfg) (ep : Z) (sqf : tpk -> Z) : Prop := mkTransfers {
  t_disp : forall m sz h, PQ P DDisp m -> PQ P (DTopic (m_topic m)) (set_body m sz h);
  t_tp_fresh : forall t m, PQ P (DTopic t) m -> fresh_pass m = true -> 0 <= m_pres m ->
               PQ P (DPart (m_topic m) (m_pres m)) (set_part m (m_pres m));
  t_tp_old : forall t m, PQ P (DTopic t) m -> fresh_pass m = false -> PQ P (DPart (m_topic m) (m_part m)) m;
  t_retry : forall m, PQ P DRetry m -> PQ P DDisp m;
  t_pp : G -> transfers_pp P c ep sqf;
  t_bp_in : forall b m, PQ P (DBp b) m -> PB P m;
  t_bounce_q : forall b m, PQ P (DBp b) m -> PQ P DRetry (set_retries m (S (m_retries m)));
  t_bounce_b : forall m, PB P m -> PQ P DRetry (set_retries m (S (m_retries m)));
  t_rb : forall m, PB P m -> PB P (set_retries m (S (m_retries m)))
}.

(* ---------------------------------------------------------------- effects *)

Definition eff_okP (P : preds) (e : effect) : Prop :=
  match e with
  | ESend DCur m => forall b, PQ P (DBp b) m
  | ESend d m => PQ P d m
  | EBridge s => Forall (PB P) (set_msgs s)
  | ESpawnRB _ ms _ => Forall (PB P) ms
  | ERbSend _ s => Forall (PB P) (set_msgs s)
  | _ => True
  end.

Lemma q_get_in d q : q_get d q = [] \/ In (d, q_get d q) q.
Proof.
  induction q as [|[d' l] r IH]; cbn [q_get]; [left; reflexivity|].
  destruct (dest_eqb d d') eqn:E; [apply dest_eqb_true in E; subst d'; right; left; reflexivity|].
  destruct IH as [IH|IH]; [left; exact IH | right; right; exact IH].
Qed.
Lemma in_q_set d l q d' l' : In (d', l') (q_set d l q) -> (d' = d /\ l' = l) \/ In (d', l') q.
Proof.
  induction q as [|[d2 l2] r IH]; cbn [q_set]; intros H.
  - destruct H as [H|[]]. injection H as <- <-. left; split; reflexivity.
  - destruct (dest_eqb d d2) eqn:E.
    + destruct H as [H|H]; [injection H as <- <-; apply dest_eqb_true in E; subst d2; left; split; reflexivity | right; right; exact H].
    + destruct H as [H|H]; [right; left; exact H|]. destruct (IH H) as [G|G]; [left; exact G | right; right; exact G].
Qed.
Lemma q_get_ok P s d : (forall d l, In (d, l) (g_q s) -> Forall (PQ P d) l) -> Forall (PQ P d) (q_get d (g_q s)).
Proof. intros H. destruct (q_get_in d (g_q s)) as [E|E]; [rewrite E; constructor | eapply H, E]. Qed.
Lemma pp_get_in k l x : pp_get k l = Some x -> In (k, x) l.
Proof.
  induction l as [|[k' y] r IH]; cbn [pp_get]; [discriminate|]. destruct (tpk_eqb k k') eqn:E.
  - intros H; injection H as ->. apply tpk_eqb_eq in E. subst k'. left; reflexivity.
  - intros H. right. apply IH, H.
Qed.
Lemma in_pp_set k x l k' x' : In (k', x') (pp_set k x l) -> (k' = k /\ x' = x) \/ In (k', x') l.
Proof.
  induction l as [|[k2 y] r IH]; cbn [pp_set]; intros H.
  - destruct H as [H|[]]. injection H as <- <-. left; split; reflexivity.
  - destruct (tpk_eqb k k2) eqn:E.
    + destruct H as [H|H]; [injection H as <- <-; apply tpk_eqb_eq in E; subst k2; left; split; reflexivity | right; right; exact H].
    + destruct H as [H|H]; [right; left; exact H|]. destruct (IH H) as [G|G]; [left; exact G | right; right; exact G].
Qed.

Lemma places_same P s s' : g_q s' = g_q s -> g_pps s' = g_pps s -> g_bps s' = g_bps s -> g_rbs s' = g_rbs s ->
  places_ok P s -> places_ok P s'.
Proof. intros E1 E2 E3 E4 [H1 H2 H3 H4]. constructor; rewrite ?E1, ?E2, ?E3, ?E4; assumption. Qed.

Lemma places_push P s d m : places_ok P s -> PQ P d m -> places_ok P (set_q s (q_push d m (g_q s))).
Proof.
  intros [H1 H2 H3 H4] Hm. constructor; cbn [set_q g_q g_pps g_bps g_rbs]; try assumption.
  intros d' l' Hin. unfold q_push in Hin. apply in_q_set in Hin as [[-> ->]|Hin]; [|eapply H1, Hin].
  apply Forall_app. split; [apply q_get_ok, H1 | constructor; [exact Hm | constructor]].
Qed.

Lemma pp_get_set k k' x l : pp_get k' (pp_set k x l) = if tpk_eqb k' k then Some x else pp_get k' l.
Proof.
  induction l as [|[k2 y] r IH]; cbn [pp_set pp_get].
  - destruct (tpk_eqb k' k); reflexivity.
  - destruct (tpk_eqb k k2) eqn:E; cbn [pp_get].
    + apply tpk_eqb_eq in E. subst k2. destruct (tpk_eqb k' k); reflexivity.
    + destruct (tpk_eqb k' k2) eqn:E2; [|exact IH].
      destruct (tpk_eqb k' k) eqn:E3; [|reflexivity].
      apply tpk_eqb_eq in E2, E3. subst. rewrite tpk_eqb_refl in E. discriminate.
Qed.

Lemma places_set_handle P s w h : places_ok P s -> places_ok P (set_handle s w h).
Proof.
  intros H. unfold set_handle. destruct w; try exact H. destruct (pp_get k (g_pps s)) as [x|] eqn:E; [|exact H].
  destruct H as [H1 H2 H3 H4]. constructor; cbn [set_pps g_q g_pps g_bps g_rbs]; try assumption.
  intros k' x' Hin. apply in_pp_set in Hin as [[-> ->]|Hin]; [|eapply H2, Hin]. cbn [pr_st]. apply (H2 _ _ (pp_get_in _ _ _ E)).
Qed.

Lemma Forall_bp_upd' (Q : bpi -> Prop) i g l : Forall Q l -> (forall x, Q x -> Q (g x)) -> Forall Q (bp_upd i g l).
Proof. intros H Hg. revert i. induction H as [|x l Hx Hl IH]; intros [|i]; cbn [bp_upd]; constructor; auto. Qed.

Lemma places_bps P s l : places_ok P s -> Forall (fun x => Forall (PB P) (bside_msgs x)) l -> places_ok P (set_bps s l).
Proof. intros [H1 H2 H3 H4] Hl. constructor; cbn [set_bps g_q g_pps g_bps g_rbs]; assumption. Qed.

Lemma bside_unref x : bside_msgs (bi_unref x) = bside_msgs x.
Proof. unfold bi_unref. destruct (i_refs x - 1 =? 0); reflexivity. Qed.

Lemma bside_push x s : bside_msgs (bi_with_bridge x (i_bridge x ++ [s]) (i_infl x) (i_resp x)) =
  bp_msgs (i_st x) ++ (flat_map set_msgs (i_bridge x) ++ set_msgs s) ++
  match i_infl x with Some s => set_msgs s | None => [] end ++ flat_map (fun sr => set_msgs (fst sr)) (i_resp x).
Proof. unfold bside_msgs. cbn [bi_with_bridge i_st i_bridge i_infl i_resp]. rewrite flat_map_app. cbn [flat_map]. rewrite app_nil_r. reflexivity. Qed.

Lemma bside_push_ok (Q : msg -> Prop) x s : Forall Q (bside_msgs x) -> Forall Q (set_msgs s) ->
  Forall Q (bside_msgs (bi_with_bridge x (i_bridge x ++ [s]) (i_infl x) (i_resp x))).
Proof.
  intros H Hs. rewrite bside_push. unfold bside_msgs in H. rewrite !Forall_app in *. tauto.
Qed.

Lemma get_bp_places P s br : places_ok P s -> places_ok P (fst (get_bp s br)).
Proof.
  intros H. unfold get_bp. destruct (find_reg br (g_bps s) 0%nat); cbn [fst]; apply places_bps; try exact H.
  - apply Forall_bp_upd'; [apply (po_bp _ _ H) | intros x Hx; exact Hx].
  - apply Forall_app. split; [apply (po_bp _ _ H) | constructor; [constructor | constructor]].
Qed.

Lemma apply_eff_places P c w s e : places_ok P s -> eff_okP P e -> places_ok P (apply_eff c w s e).
Proof.
  intros H He. destruct e; cbn [apply_eff eff_okP] in *.
  - (* ESend *)
    destruct d; try (apply places_push; assumption).
    destruct (handle_of s w); [|eapply places_same; [| | | |exact H]; reflexivity].
    destruct (nth_error (g_bps s) n); [|eapply places_same; [| | | |exact H]; reflexivity].
    destruct (i_in_closed b); [eapply places_same; [| | | |exact H]; reflexivity | apply places_push; [exact H | apply He]].
  - (* EErr *)
    assert (G : places_ok P (add_inflight (emit s (Ev false m e)) (-1))).
    { unfold emit. destruct (g_closed s); eapply places_same; [| | | |exact H| | | | |exact H]; reflexivity. }
    destruct (m_hasseq m); [eapply places_same; [| | | |exact G]; reflexivity | exact G].
  - unfold emit. destruct (g_closed s); eapply places_same; [| | | |exact H| | | | |exact H]; reflexivity.
  - unfold emit. destruct (g_closed s); eapply places_same; [| | | |exact H| | | | |exact H]; reflexivity.
  - eapply places_same; [| | | |exact H]; reflexivity.
  - eapply places_same; [| | | |exact H]; reflexivity.
  - eapply places_same; [| | | |exact H]; reflexivity.
  - eapply places_same; [| | | |exact H]; reflexivity.
  - eapply places_same; [| | | |exact H]; reflexivity.
  - (* EUnref *)
    destruct (handle_of s w) as [b|]; [|exact H]. apply places_set_handle. apply places_bps; [exact H|].
    apply Forall_bp_upd'; [apply (po_bp _ _ H) | intros x Hx; rewrite bside_unref; exact Hx].
  - (* EGet *)
    pose proof (get_bp_places P s broker H) as G. destruct (get_bp s broker) as [s1 b]. cbn [fst] in G.
    apply places_set_handle, G.
  - (* EAbandon *)
    destruct (find_reg broker (g_bps s) 0%nat) as [b|]; [|exact H]. apply places_bps; [exact H|].
    apply Forall_bp_upd'; [apply (po_bp _ _ H) | intros x Hx; exact Hx].
  - (* EBridge *)
    destruct w; try (eapply places_same; [| | | |exact H]; reflexivity).
    destruct (nth_error (g_bps s) b); [|eapply places_same; [| | | |exact H]; reflexivity].
    apply places_bps; [exact H|]. apply Forall_bp_upd'; [apply (po_bp _ _ H) | intros x Hx; apply bside_push_ok; assumption].
  - (* ESpawnRB *)
    destruct H as [H1 H2 H3 H4]. constructor; cbn [set_rbs g_q g_pps g_bps g_rbs]; try assumption.
    apply Forall_app. split; [exact H4 | constructor; [exact He | constructor]].
  - (* ERbSend *)
    pose proof (get_bp_places P s broker H) as G. destruct (get_bp s broker) as [s1 b]. cbn [fst] in G.
    apply places_bps; [exact G|]. apply Forall_bp_upd'; [apply (po_bp _ _ G) | intros x Hx; apply bside_push_ok; assumption].
  - exact H.
  - eapply places_same; [| | | |exact H]; reflexivity.
Qed.

Lemma apply_effs_places P c w : forall l s, places_ok P s -> Forall (eff_okP P) l -> places_ok P (apply_effs c w s l).
Proof.
  induction l as [|e l IH]; intros s H Hl; cbn [apply_effs fold_left]; [exact H|].
  inversion Hl; subst. apply IH; [apply apply_eff_places; assumption | assumption].
Qed.

(* ---------------------------------------------------------------- actors *)

Section Actors.
Variable P : preds.
Variable G : Prop.
Variable c : cfg.
Variable ep : Z.
Variable sqf : tpk -> Z.
Hypothesis T : transfers P G c ep sqf.
Hypothesis TP : transfers_pp P c ep sqf.

Definition nosend (l : list effect) : bool :=
  forallb (fun e => match e with ESend _ _ | EBridge _ | ESpawnRB _ _ _ | ERbSend _ _ => false | _ => true end) l.
Lemma nosend_ok l : nosend l = true -> Forall (eff_okP P) l.
Proof.
  induction l as [|e l IH]; intros H; [constructor|]. cbn [nosend forallb] in H. apply andb_true_iff in H as [H1 H2].
  constructor; [destruct e; try exact I; discriminate | apply IH, H2].
Qed.
Lemma ns_return_errors l e : nosend (return_errors l e) = true.
Proof. unfold return_errors. induction l; simpl; auto. Qed.
Lemma ns_successes l b : nosend (successes l b) = true.
Proof. revert b; induction l; intros; simpl; auto. Qed.
Lemma ns_apply_ics id k ics pan sz h : nosend (snd (apply_ics id k ics pan sz h)) = true.
Proof.
  revert k pan sz h. induction ics as [|ic r IH]; intros; [reflexivity|]. cbn [apply_ics].
  match goal with |- context [apply_ics id (S k) r ?a ?b ?d] => specialize (IH (S k) a b d); destruct (apply_ics id (S k) r a b d) as [res effs] end.
  cbn [snd] in *. cbn [nosend forallb]. exact IH.
Qed.

Lemma okP_app a b : Forall (eff_okP P) a -> Forall (eff_okP P) b -> Forall (eff_okP P) (a ++ b).
Proof. intros; apply Forall_app; split; assumption. Qed.

Lemma disp_okP d m : PQ P DDisp m -> Forall (eff_okP P) (snd (disp_step c d m)).
Proof.
  intros Hm. unfold disp_step. destruct (is_shut m); [apply nosend_ok; reflexivity|].
  destruct (fresh_pass m && d_shut d); [apply nosend_ok; reflexivity|].
  assert (Hp : Forall (eff_okP P) (if fresh_pass m then [EAccept m] else [])) by (destruct (fresh_pass m); apply nosend_ok; reflexivity).
  set (doic := if c_fix_ic c then fresh_pass m && is_data m else true). destruct doic.
  - pose proof (ns_apply_ics (m_id m) 0%nat (c_ics c) (m_ipanic m) (m_size m) (m_hdr m)) as H1.
    destruct (apply_ics _ _ _ _ _ _) as [[sz h] ics]. cbn [snd] in *.
    destruct (negb (c_v2 c) && h); [|destruct (c_max_msg_bytes c <? sz)]; cbn [snd];
      (apply okP_app; [exact Hp|]; apply okP_app; [apply nosend_ok, H1|]); try (apply nosend_ok; reflexivity).
    constructor; [|constructor]. cbn [eff_okP]. apply (t_disp _ _ _ _ _ T), Hm.
  - destruct (negb (c_v2 c) && m_hdr m); [|destruct (c_max_msg_bytes c <? m_size m)]; cbn [snd];
      (apply okP_app; [exact Hp|]; cbn [app]); try (apply nosend_ok; reflexivity).
    constructor; [|constructor]. cbn [eff_okP]. apply (t_disp _ _ _ _ _ T), Hm.
Qed.

Lemma tp_okP t m : PQ P (DTopic t) m -> Forall (eff_okP P) (tp_step m).
Proof.
  intros Hm. unfold tp_step. destruct (fresh_pass m) eqn:Ef.
  - destruct (0 <=? m_pres m) eqn:Ep; [|apply nosend_ok; reflexivity].
    constructor; [|constructor]. cbn [eff_okP]. apply Z.leb_le in Ep. eapply (t_tp_fresh _ _ _ _ _ T); eassumption.
  - constructor; [|constructor]. cbn [eff_okP]. eapply (t_tp_old _ _ _ _ _ T); eassumption.
Qed.

(* partition worker *)
Lemma flush_sends_mono t p e : forall buf sq, sq <= snd (flush_sends c t p sq e buf).
Proof.
  induction buf as [|m r IH]; intros sq; cbn [flush_sends snd]; [lia|].
  destruct (c_idem c && fresh_pass m && is_data m && negb (m_hasseq m)).
  - specialize (IH (sq + 1)). destruct (flush_sends c t p (sq + 1) e r). cbn [snd] in *. lia.
  - specialize (IH sq). destruct (flush_sends c t p sq e r). cbn [snd] in *. exact IH.
Qed.

Lemma flush_sends_okP t p : forall buf sq, Forall (PL P (t, p)) buf -> sqf (t, p) <= sq ->
  Forall (eff_okP P) (fst (flush_sends c t p sq ep buf)).
Proof.
  induction buf as [|m r IH]; intros sq Hb Hs; cbn [flush_sends]; [constructor|]. inversion Hb as [|? ? Hm Hr]; subst.
  pose proof (fun b => tp_flush _ _ _ _ TP t p b m sq Hm Hs) as Hx.
  destruct (c_idem c && fresh_pass m && is_data m && negb (m_hasseq m)).
  - specialize (IH (sq + 1) Hr ltac:(lia)). destruct (flush_sends c t p (sq + 1) ep r). cbn [fst] in *.
    constructor; [exact I|]. constructor; [exact Hx | exact IH].
  - specialize (IH sq Hr Hs). destruct (flush_sends c t p sq ep r). cbn [fst] in *. constructor; [exact Hx | exact IH].
Qed.

Lemma leader_okP t p b : Forall (eff_okP P) (leader_effects c t p b).
Proof.
  unfold leader_effects. constructor; [exact I|]. constructor; [exact I|]. constructor; [|constructor].
  cbn [eff_okP]. intros b'. apply (tp_marker _ _ _ _ TP).
Qed.

Lemma in_levels_nth (Q : msg -> Prop) lv i : Forall Q (flat_map l_buf lv) -> Forall Q (l_buf (get_level i lv)).
Proof.
  unfold get_level. revert i. induction lv as [|l r IH]; intros i H; [destruct i; constructor|].
  cbn [flat_map] in H. apply Forall_app in H as [H1 H2]. destruct i; cbn [nth]; [exact H1 | apply IH, H2].
Qed.
Lemma levels_upd_ok (Q : msg -> Prop) f : (forall l, Forall Q (l_buf l) -> Forall Q (l_buf (f l))) ->
  forall lv i, Forall Q (flat_map l_buf lv) -> Forall Q (flat_map l_buf (upd_level i f lv)).
Proof.
  intros Hf. induction lv as [|l r IH]; intros i H; [destruct i; exact H|].
  cbn [flat_map] in H. apply Forall_app in H as [H1 H2].
  destruct i; cbn [upd_level flat_map]; apply Forall_app; split; auto.
Qed.
Lemma levels_set_buf_nil (Q : msg -> Prop) lv i : Forall Q (flat_map l_buf lv) -> Forall Q (flat_map l_buf (set_buf i [] lv)).
Proof. apply levels_upd_ok. intros; constructor. Qed.
Lemma levels_set_chaser (Q : msg -> Prop) lv i b : Forall Q (flat_map l_buf lv) -> Forall Q (flat_map l_buf (set_chaser i b lv)).
Proof. apply levels_upd_ok. intros l H; exact H. Qed.
Lemma levels_push (Q : msg -> Prop) lv i m : Q m -> Forall Q (flat_map l_buf lv) -> Forall Q (flat_map l_buf (push_buf i m lv)).
Proof. intros Hm. apply levels_upd_ok. intros l H. cbn [l_buf]. apply Forall_app. split; [exact H | constructor; [exact Hm | constructor]]. Qed.

Lemma bumps_app a b : bumps (a ++ b) = bumps a + bumps b.
Proof. induction a as [|e a IH]; cbn [app bumps]; [reflexivity|]. destruct e; try exact IH. rewrite IH. lia. Qed.
Lemma bumps_nonneg l : 0 <= bumps l.
Proof. induction l as [|e l IH]; cbn [bumps]; [lia|]. destruct e; try exact IH. destruct (m_hasseq m); lia. Qed.

Lemma flush_sends_any t p (TA : transfers_any P c) e : forall buf sq, Forall (PL P (t, p)) buf ->
  Forall (eff_okP P) (fst (flush_sends c t p sq e buf)).
Proof.
  induction buf as [|m r IH]; intros sq Hb; cbn [flush_sends]; [constructor|]. inversion Hb as [|? ? Hm Hr]; subst.
  pose proof (fun b => ta_flush _ _ TA t p b m sq e Hm) as Hx.
  destruct (c_idem c && fresh_pass m && is_data m && negb (m_hasseq m)).
  - specialize (IH (sq + 1) Hr). destruct (flush_sends c t p (sq + 1) e r). cbn [fst] in *.
    constructor; [exact I|]. constructor; [exact Hx | exact IH].
  - specialize (IH sq Hr). destruct (flush_sends c t p sq e r). cbn [fst] in *. constructor; [exact Hx | exact IH].
Qed.

Lemma flush_okP_any t p (TA : transfers_any P c) : forall h hasbp leader lv stamp ls,
  Forall (PL P (t, p)) (flat_map l_buf lv) ->
  Forall (PL P (t, p)) (flat_map l_buf (snd (fst (flush c t p h hasbp leader lv stamp ls)))) /\
  Forall (eff_okP P) (snd (flush c t p h hasbp leader lv stamp ls)).
Proof.
  induction h as [|h' IH]; intros hasbp leader lv stamp ls Hl; [split; [exact Hl | apply nosend_ok; reflexivity]|].
  cbn [flush].
  pose proof (flush_sends_any t p TA (snd stamp) (l_buf (get_level h' lv)) (fst stamp) (in_levels_nth _ _ _ Hl)) as Qs.
  destruct (flush_sends c t p (fst stamp) (snd stamp) (l_buf (get_level h' lv))) as [es sq']. cbn [fst] in Qs.
  pose proof (levels_set_buf_nil _ lv h' Hl) as Hl1.
  destruct hasbp.
  - destruct (l_chaser (get_level h' lv) || (h' =? 0)%nat); cbn [fst snd]; [split; assumption|].
    match goal with |- context [flush c t p h' true leader (set_buf h' [] lv) ?sx ls] =>
      destruct (IH true leader (set_buf h' [] lv) sx ls Hl1) as [I1 I2]; destruct (flush c t p h' true leader (set_buf h' [] lv) sx ls) as [res e2] end.
    cbn [fst snd] in *. split; [exact I1 | apply okP_app; assumption].
  - destruct (next_lres ls) as [[b|e] r].
    + destruct (l_chaser (get_level h' lv) || (h' =? 0)%nat); cbn [fst snd]; [split; [exact Hl1 | apply okP_app; [apply leader_okP | exact Qs]]|].
      match goal with |- context [flush c t p h' true b (set_buf h' [] lv) ?sx r] =>
        destruct (IH true b (set_buf h' [] lv) sx r Hl1) as [I1 I2]; destruct (flush c t p h' true b (set_buf h' [] lv) sx r) as [res e2] end.
      cbn [fst snd] in *. split; [exact I1 | apply okP_app; [apply okP_app; [apply leader_okP | exact Qs] | exact I2]].
    + destruct (l_chaser (get_level h' lv) || (h' =? 0)%nat); cbn [fst snd]; [split; [exact Hl1 | apply nosend_ok, ns_return_errors]|].
      match goal with |- context [flush c t p h' false leader (set_buf h' [] lv) ?sx r] =>
        destruct (IH false leader (set_buf h' [] lv) sx r Hl1) as [I1 I2]; destruct (flush c t p h' false leader (set_buf h' [] lv) sx r) as [res e2] end.
      cbn [fst snd] in *. split; [exact I1 | apply okP_app; [apply nosend_ok, ns_return_errors | exact I2]].
Qed.

Lemma flush_okP t p : forall h hasbp leader lv stamp ls,
  Forall (PL P (t, p)) (flat_map l_buf lv) -> snd stamp = ep -> sqf (t, p) <= fst stamp ->
  bumps (snd (flush c t p h hasbp leader lv stamp ls)) = 0 ->
  Forall (PL P (t, p)) (flat_map l_buf (snd (fst (flush c t p h hasbp leader lv stamp ls)))) /\
  Forall (eff_okP P) (snd (flush c t p h hasbp leader lv stamp ls)).
Proof.
  induction h as [|h' IH]; intros hasbp leader lv stamp ls Hl He Hs Hnb; [split; [exact Hl | apply nosend_ok; reflexivity]|].
  cbn [flush] in *.
  pose proof (flush_sends_okP t p (l_buf (get_level h' lv)) (fst stamp) (in_levels_nth _ _ _ Hl) Hs) as Qs.
  pose proof (flush_sends_mono t p (snd stamp) (l_buf (get_level h' lv)) (fst stamp)) as Qm.
  rewrite He in *.
  destruct (flush_sends c t p (fst stamp) ep (l_buf (get_level h' lv))) as [es sq'] eqn:Es. cbn [fst snd] in Qs, Qm.
  pose proof (levels_set_buf_nil _ lv h' Hl) as Hl1.
  assert (Bz : forall a b, bumps (a ++ b) = 0 -> bumps a = 0 /\ bumps b = 0).
  { intros a b H. rewrite bumps_app in H. pose proof (bumps_nonneg a). pose proof (bumps_nonneg b). lia. }
  destruct hasbp.
  - destruct (l_chaser (get_level h' lv) || (h' =? 0)%nat); cbn [fst snd] in *; [split; assumption|].
    destruct (flush c t p h' true leader (set_buf h' [] lv) (sq', ep) ls) as [res e2] eqn:Ef. cbn [fst snd] in *.
    destruct (Bz _ _ Hnb) as [_ B2].
    destruct (IH true leader (set_buf h' [] lv) (sq', ep) ls Hl1 eq_refl ltac:(cbn [fst]; lia) ltac:(rewrite Ef; exact B2)) as [I1 I2].
    rewrite Ef in I1, I2. cbn [fst snd] in *. split; [exact I1 | apply okP_app; assumption].
  - destruct (next_lres ls) as [[b|e] r].
    + destruct (l_chaser (get_level h' lv) || (h' =? 0)%nat); cbn [fst snd] in *; [split; [exact Hl1 | apply okP_app; [apply leader_okP | exact Qs]]|].
      destruct (flush c t p h' true b (set_buf h' [] lv) (sq', ep) r) as [res e2] eqn:Ef. cbn [fst snd] in *.
      destruct (Bz _ _ Hnb) as [_ B2].
      destruct (IH true b (set_buf h' [] lv) (sq', ep) r Hl1 eq_refl ltac:(cbn [fst]; lia) ltac:(rewrite Ef; exact B2)) as [I1 I2].
      rewrite Ef in I1, I2. cbn [fst snd] in *. split; [exact I1 | apply okP_app; [apply okP_app; [apply leader_okP | exact Qs] | exact I2]].
    + destruct (l_chaser (get_level h' lv) || (h' =? 0)%nat); cbn [fst snd] in *; [split; [exact Hl1 | apply nosend_ok, ns_return_errors]|].
      set (nb := bumps (return_errors (l_buf (get_level h' lv)) e)) in *.
      destruct (flush c t p h' false leader (set_buf h' [] lv) (if 0 <? nb then (0, ep + nb) else stamp) r) as [res e2] eqn:Ef. cbn [fst snd] in *.
      destruct (Bz _ _ Hnb) as [B1 B2]. fold nb in B1. rewrite B1 in Ef. cbn in Ef.
      destruct (IH false leader (set_buf h' [] lv) stamp r Hl1 He Hs ltac:(rewrite Ef; exact B2)) as [I1 I2].
      rewrite Ef in I1, I2. cbn [fst snd] in *. split; [exact I1 | apply okP_app; [apply nosend_ok, ns_return_errors | exact I2]].
Qed.

Lemma pp_forward_okP t p st m stamp ls pre : PQ P (DPart t p) m -> snd stamp = ep -> fst stamp = sqf (t, p) ->
  Forall (eff_okP P) pre -> Forall (eff_okP P) (snd (pp_forward c t p st m stamp ls pre)) /\
  p_levels (fst (pp_forward c t p st m stamp ls pre)) = p_levels st.
Proof.
  intros Hm He Hs Hp. unfold pp_forward.
  pose proof (fun b => tp_fwd _ _ _ _ TP t p b m Hm) as Hx. rewrite <- Hs, <- He in Hx.
  assert (Hsend : forall (st' : pp) e, Forall (eff_okP P) e ->
    Forall (eff_okP P) (snd (if c_idem c && fresh_pass m && is_data m
       then (st', pre ++ e ++ [EStamp t p; ESend DCur (set_stamp m (fst stamp) (snd stamp))])
       else (st', pre ++ e ++ [ESend DCur m])))).
  { intros st' e Hee. destruct (c_idem c && fresh_pass m && is_data m); cbn [snd]; apply okP_app; try exact Hp; apply okP_app; try exact Hee.
    - constructor; [exact I | constructor; [exact Hx | constructor]].
    - constructor; [exact Hx | constructor]. }
  destruct (p_has_bp st).
  - split; [apply Hsend; constructor | destruct (c_idem c && fresh_pass m && is_data m); reflexivity].
  - destruct (next_lres ls) as [[b|e] r].
    + split; [apply Hsend, leader_okP | destruct (c_idem c && fresh_pass m && is_data m); reflexivity].
    + cbn [fst snd]. split; [apply okP_app; [exact Hp | apply nosend_ok; reflexivity] | reflexivity].
Qed.

Lemma pp_step_okP t p st m ab stamp ls :
  Forall (PL P (t, p)) (pp_msgs st) -> PQ P (DPart t p) m -> snd stamp = ep -> fst stamp = sqf (t, p) ->
  bumps (snd (pp_step c t p st m ab stamp ls)) = 0 \/ transfers_any P c ->
  Forall (PL P (t, p)) (pp_msgs (fst (pp_step c t p st m ab stamp ls))) /\
  Forall (eff_okP P) (snd (pp_step c t p st m ab stamp ls)).
Proof.
  intros Hl Hm He Hs HB. unfold pp_step in *.
  set (e1 := if p_has_bp st && ab then [EUnref] else []) in *.
  assert (He1 : Forall (eff_okP P) e1) by (subst e1; destruct (p_has_bp st && ab); apply nosend_ok; reflexivity).
  set (st1 := if p_has_bp st && ab then _ else st) in *.
  assert (Hl1 : Forall (PL P (t, p)) (flat_map l_buf (p_levels st1))) by (subst st1; destruct (p_has_bp st && ab); exact Hl).
  assert (Hb1 : bumps e1 = 0) by (subst e1; destruct (p_has_bp st && ab); reflexivity).
  clearbody st1 e1. unfold pp_msgs.
  destruct (p_hwm st1 <? m_retries m)%nat eqn:C1.
  - assert (HG : match pp_guard c t p st1 ls with inl (stg, eg, ls1) => p_levels stg = p_levels st1 /\ Forall (eff_okP P) eg | inr _ => True end).
    { unfold pp_guard. destruct (p_has_bp st1); [split; [reflexivity | constructor]|].
      destruct (next_lres ls) as [[b|e] r]; [split; [reflexivity | apply leader_okP] | exact I]. }
    destruct (pp_guard c t p st1 ls) as [[[stg eg] ls1]|e].
    + destruct HG as [G1 G2]. destruct (c_retry_max c <? m_retries m)%nat.
      * cbn [fst snd]. split; [rewrite G1; exact Hl1 | apply okP_app; [exact He1 | apply okP_app; [exact G2 | apply nosend_ok; reflexivity]]].
      * match goal with |- context [pp_forward c t p ?st2 m stamp ls1 ?pre] =>
          destruct (pp_forward_okP t p st2 m stamp ls1 pre Hm He Hs) as [F1 F2] end.
        { apply okP_app; [exact He1|]. apply okP_app; [exact G2|]. constructor; [exact I|]. constructor; [cbn [eff_okP]; intros b; apply (tp_marker _ _ _ _ TP)|].
          constructor; [exact I | constructor]. }
        split; [rewrite F2; cbn [p_levels]; rewrite G1; apply levels_set_chaser, Hl1 | exact F1].
    + cbn [fst snd]. split; [exact Hl1 | apply okP_app; [exact He1 | apply nosend_ok; reflexivity]].
  - destruct (0 <? p_hwm st1)%nat eqn:C2.
    + destruct (m_retries m <? p_hwm st1)%nat eqn:C3.
      * destruct (length (p_levels st1) <=? m_retries m)%nat; [cbn [fst snd]; split; [exact Hl1 | apply okP_app; [exact He1 | apply nosend_ok; reflexivity]]|].
        destruct (is_fin m); cbn [fst snd p_levels].
        -- split; [apply levels_set_chaser, Hl1 | apply okP_app; [exact He1 | apply nosend_ok; reflexivity]].
        -- split; [apply levels_push; [apply (tp_buf _ _ _ _ TP), Hm | exact Hl1] | exact He1].
      * destruct (is_fin m) eqn:C4.
        -- assert (FF : Forall (PL P (t, p)) (flat_map l_buf (snd (fst (flush c t p (p_hwm st1) (p_has_bp st1) (p_leader st1) (set_chaser (p_hwm st1) false (p_levels st1)) stamp ls)))) /\
                         Forall (eff_okP P) (snd (flush c t p (p_hwm st1) (p_has_bp st1) (p_leader st1) (set_chaser (p_hwm st1) false (p_levels st1)) stamp ls))).
           { destruct HB as [HB|TA]; [|apply flush_okP_any; [exact TA | apply levels_set_chaser, Hl1]].
             apply flush_okP; [apply levels_set_chaser, Hl1 | exact He | lia|].
             destruct (flush c t p (p_hwm st1) (p_has_bp st1) (p_leader st1) (set_chaser (p_hwm st1) false (p_levels st1)) stamp ls) as [[[[h' hasbp] leader] lv'] effs].
             cbn [snd] in *. rewrite !bumps_app in HB. pose proof (bumps_nonneg effs). pose proof (bumps_nonneg [EDone m]). lia. }
           destruct FF as [F1 F2].
           destruct (flush c t p (p_hwm st1) (p_has_bp st1) (p_leader st1) _ stamp ls) as [[[[h' hasbp] leader] lv'] effs].
           cbn [fst snd p_levels] in *. split; [exact F1 | apply okP_app; [exact He1 | apply okP_app; [exact F2 | apply nosend_ok; reflexivity]]].
        -- destruct (pp_forward_okP t p st1 m stamp ls e1 Hm He Hs He1) as [F1 F2]. split; [rewrite F2; exact Hl1 | exact F1].
    + destruct (pp_forward_okP t p st1 m stamp ls e1 Hm He Hs He1) as [F1 F2]. split; [rewrite F2; exact Hl1 | exact F1].
Qed.

Lemma pp_init_okP t p l : Forall (eff_okP P) (snd (pp_init c t p l)) /\ pp_msgs (fst (pp_init c t p l)) = [].
Proof.
  destruct l; cbn [pp_init fst snd].
  - split; [apply leader_okP|]. unfold pp_msgs. cbn [p_levels]. induction (S (c_retry_max c)); [reflexivity | exact IHn].
  - split; [constructor|]. unfold pp_msgs, pp_init_state. cbn [p_levels]. induction (S (c_retry_max c)); [reflexivity | exact IHn].
Qed.

End Actors.

(* ---------------------------------------------------------------- broker worker, retryBatch *)

Section Broker.
Variable P : preds.
Variable G : Prop.
Variable c : cfg.
Variable ep : Z.
Variable sqf : tpk -> Z.
Hypothesis T : transfers P G c ep sqf.
Let Q := PB P.

Lemma parts_add_ok k m ps : Forall Q (parts_msgs ps) -> Q m -> Forall Q (parts_msgs (part_add k m ps)).
Proof.
  intros H Hm. induction ps as [|[k' l] r IH]; cbn [part_add parts_msgs] in *.
  - constructor; [exact Hm | constructor].
  - apply Forall_app in H as [H1 H2]. destruct (tpk_eqb k k'); cbn [parts_msgs]; apply Forall_app; split; auto.
    apply Forall_app. split; [exact H1 | constructor; [exact Hm | constructor]].
Qed.
Lemma parts_drop_ok k ps : Forall Q (parts_msgs ps) ->
  Forall Q (parts_msgs (part_drop k ps)) /\ Forall Q (match part_lookup k ps with Some d => d | None => [] end).
Proof.
  intros H. induction ps as [|[k' l] r IH]; cbn [part_drop part_lookup parts_msgs] in *; [split; constructor|].
  apply Forall_app in H as [H1 H2]. destruct (tpk_eqb k k'); cbn [parts_msgs]; [split; assumption|].
  destruct (IH H2) as [I1 I2]. split; [apply Forall_app; split; assumption | exact I2].
Qed.
Lemma parts_in_ok ps k l : Forall Q (parts_msgs ps) -> In (k, l) ps -> Forall Q l.
Proof.
  induction ps as [|[k' l'] r IH]; intros H Hin; [contradiction|]. cbn [parts_msgs] in H. apply Forall_app in H as [H1 H2].
  destruct Hin as [E|Hin]; [injection E as _ <-; exact H1 | apply IH; assumption].
Qed.

Lemma retry_msg_okP m e : PQ P DRetry (set_retries m (S (m_retries m))) -> eff_okP P (retry_msg c m e).
Proof. intros H. unfold retry_msg. destruct (c_retry_max c <=? m_retries m)%nat; [exact I | exact H]. Qed.
Lemma retry_msgs_okP l e : Forall Q l -> Forall (eff_okP P) (retry_msgs c l e).
Proof.
  unfold retry_msgs. induction 1 as [|m l Hm Hl IH]; cbn [map]; constructor; [|exact IH].
  apply retry_msg_okP, (t_bounce_b _ _ _ _ _ T), Hm.
Qed.
Lemma all_retry_okP e : forall ps, Forall Q (parts_msgs ps) -> Forall (eff_okP P) (all_retry c ps e).
Proof.
  induction ps as [|[k l] r IH]; intros H; cbn [all_retry parts_msgs] in *; [constructor|].
  apply Forall_app in H as [H1 H2]. apply okP_app; [apply retry_msgs_okP, H1 | apply IH, H2].
Qed.
Lemma ns_all_errors e : forall ps, nosend (all_errors ps e) = true.
Proof.
  induction ps as [|[k l] r IH]; [reflexivity|]. cbn [all_errors]. unfold nosend in *. rewrite forallb_app.
  fold (nosend (return_errors l e)). rewrite ns_return_errors, IH. reflexivity.
Qed.
Lemma ns_hs_phase1 b r : forall ps, nosend (hs_phase1 c b r ps) = true.
Proof.
  induction ps as [|[k l] rest IH]; [reflexivity|]. cbn [hs_phase1]. unfold nosend in *. rewrite forallb_app, IH, andb_true_r.
  fold (nosend). destruct r as [e enc| |bl]; [reflexivity | apply ns_successes |].
  destruct (block_lookup k bl) as [[e off]|]; [|apply ns_return_errors].
  destruct (e =? 0); [apply ns_successes|]. destruct (e =? E_DUPLICATE); [apply ns_successes|].
  destruct (retriable e); destruct (c_retry_max c =? 0)%nat; cbn [app forallb]; try reflexivity; try apply ns_return_errors.
Qed.

Lemma hs_phase2_okP bl : forall ps cur buf, Forall Q (parts_msgs ps) -> Forall Q (parts_msgs buf) ->
  Forall Q (parts_msgs (snd (fst (hs_phase2 c bl ps cur buf)))) /\ Forall (eff_okP P) (snd (hs_phase2 c bl ps cur buf)).
Proof.
  induction ps as [|[k l] r IH]; intros cur buf Hp Hb; cbn [hs_phase2 parts_msgs] in *; [split; [exact Hb | constructor]|].
  apply Forall_app in Hp as [Hp1 Hp2].
  destruct (block_lookup k bl) as [[e off]|]; [|apply IH; assumption]. destruct (retriable e); [|apply IH; assumption].
  destruct (parts_drop_ok k buf Hb) as [D1 D2].
  destruct (IH (cur_set k e cur) (part_drop k buf) Hp2 D1) as [I1 I2].
  destruct (hs_phase2 c bl r (cur_set k e cur) (part_drop k buf)) as [[cur' buf'] effs']. cbn [fst snd] in *.
  split; [exact I1|]. apply okP_app; [|exact I2]. apply okP_app; [|apply retry_msgs_okP, D2].
  destruct (c_idem c); [constructor; [exact Hp1 | constructor] | apply retry_msgs_okP, Hp1].
Qed.

Lemma handle_response_okP e0 st sent r : Forall Q (set_msgs (b_buf st)) -> Forall Q (set_msgs sent) ->
  Forall Q (set_msgs (b_buf (fst (handle_response c e0 st sent r)))) /\
  b_wait (fst (handle_response c e0 st sent r)) = b_wait st /\
  Forall (eff_okP P) (snd (handle_response c e0 st sent r)).
Proof.
  intros Hb Hs. unfold handle_response.
  assert (HX : forall X : bp * list effect, Forall Q (set_msgs (b_buf (fst X))) -> b_wait (fst X) = b_wait st -> Forall (eff_okP P) (snd X) ->
     let Y := (let '(st1, effs) := X in if set_empty (b_buf st1) then (rollover st1 (e0 + bumps effs), effs) else (st1, effs)) in
     Forall Q (set_msgs (b_buf (fst Y))) /\ b_wait (fst Y) = b_wait st /\ Forall (eff_okP P) (snd Y)).
  { intros [st1 effs] H1 H2 H3. cbn [fst snd] in *. destruct (set_empty (b_buf st1)); cbn [fst snd]; [split; [constructor | split; assumption] | auto]. }
  apply HX.
  - destruct r as [e [|]| |bl]; cbn [fst snd]; try exact Hb; [constructor|].
    destruct (c_retry_max c =? 0)%nat; [exact Hb|].
    destruct (hs_phase2_okP bl (s_parts sent) (b_cur st) (s_parts (b_buf st)) Hs Hb) as [I1 _].
    destruct (hs_phase2 c bl (s_parts sent) (b_cur st) (s_parts (b_buf st))) as [[cur buf] e2]. cbn [fst snd] in *. exact I1.
  - destruct r as [e [|]| |bl]; cbn [fst snd]; try reflexivity.
    destruct (c_retry_max c =? 0)%nat; [reflexivity|].
    destruct (hs_phase2 c bl (s_parts sent) (b_cur st) (s_parts (b_buf st))) as [[cur buf] e2]. reflexivity.
  - destruct r as [e [|]| |bl]; cbn [fst snd].
    + apply nosend_ok, ns_all_errors.
    + constructor; [exact I|]. apply okP_app; apply all_retry_okP; assumption.
    + apply nosend_ok, ns_hs_phase1.
    + destruct (c_retry_max c =? 0)%nat; [apply nosend_ok, ns_hs_phase1|].
      destruct (hs_phase2_okP bl (s_parts sent) (b_cur st) (s_parts (b_buf st)) Hs Hb) as [_ I2].
      destruct (hs_phase2 c bl (s_parts sent) (b_cur st) (s_parts (b_buf st))) as [[cur buf] e2]. cbn [fst snd] in *.
      apply okP_app; [apply nosend_ok, ns_hs_phase1 | exact I2].
Qed.

Lemma do_add_okP st m : Forall Q (set_msgs (b_buf st)) -> Q m -> b_wait st = WNone ->
  Forall Q (bp_msgs (fst (fst (do_add c st m)))) /\ nosend (snd (fst (do_add c st m))) = true.
Proof.
  intros Hb Hm Hw. unfold do_add, bp_msgs.
  destruct (m_encfail m); [cbn [fst snd]; rewrite Hw; split; [rewrite app_nil_r; exact Hb | reflexivity]|].
  match goal with |- context [if ?b then _ else _] => destruct b end; cbn [fst snd b_buf b_wait]; rewrite Hw, app_nil_r;
    (split; [|reflexivity]); [exact Hb|]. unfold set_msgs. cbn [s_parts]. apply parts_add_ok; assumption.
Qed.
Lemma after_over_okP st m : Forall Q (set_msgs (b_buf st)) -> Q m -> b_wait st = WNone ->
  Forall Q (bp_msgs (fst (fst (after_over c st m)))) /\ nosend (snd (fst (after_over c st m))) = true.
Proof.
  intros Hb Hm Hw. unfold after_over. destruct (c_idem c && negb (s_epoch (b_buf st) =? m_epoch m)); [|apply do_add_okP; assumption].
  cbn [fst snd]. split; [|reflexivity]. unfold bp_msgs. cbn. apply Forall_app. split; [exact Hb | constructor; [exact Hm | constructor]].
Qed.
Lemma recv_data_okP st m : Forall Q (set_msgs (b_buf st)) -> Q m -> b_wait st = WNone ->
  Forall Q (bp_msgs (fst (fst (recv_data c st m)))) /\ nosend (snd (fst (recv_data c st m))) = true.
Proof.
  intros Hb Hm Hw. unfold recv_data. destruct (would_overflow c (b_buf st) m); [|apply after_over_okP; assumption].
  cbn [fst snd]. split; [|reflexivity]. unfold bp_msgs. cbn. apply Forall_app. split; [exact Hb | constructor; [exact Hm | constructor]].
Qed.

Lemma bp_msgs_split st : Forall Q (bp_msgs st) <-> Forall Q (set_msgs (b_buf st)) /\ Forall Q (wait_msgs (b_wait st)).
Proof. unfold bp_msgs. rewrite Forall_app. tauto. Qed.

Lemma bp_core_okP b e0 st i : Forall Q (bp_msgs st) ->
  (forall m, i = BRecv m -> PQ P (DBp b) m) -> (forall sent r, i = BResp sent r -> Forall Q (set_msgs sent)) ->
  Forall Q (bp_msgs (fst (fst (bp_core c e0 st i)))) /\ Forall (eff_okP P) (snd (fst (bp_core c e0 st i))).
Proof.
  intros Hst Hin Hre. pose proof (proj1 (bp_msgs_split st) Hst) as [Hb Hw]. unfold bp_core. destruct i as [m| | | |sent r].
  - specialize (Hin m eq_refl).
    destruct (b_mode st); try (split; [exact Hst | apply nosend_ok; reflexivity]).
    destruct (b_wait st) eqn:Ew; try (split; [exact Hst | apply nosend_ok; reflexivity]).
    destruct (is_syn m); [split; [exact Hst | apply nosend_ok; reflexivity]|].
    assert (Hrm : forall e, Forall (eff_okP P) [retry_msg c m e]).
    { intros e. constructor; [|constructor]. apply retry_msg_okP, (t_bounce_q _ _ _ _ _ T b), Hin. }
    destruct (needs_retry st m).
    + cbn [fst snd]. split; [|apply Hrm]. destruct (b_closing st); [exact Hst|]. destruct (is_fin m); exact Hst.
    + destruct (is_fin m); [cbn [fst snd]; split; [exact Hst | apply Hrm]|].
      destruct (recv_data_okP st m Hb (t_bp_in _ _ _ _ _ T b m Hin) Ew) as [H1 H2]. split; [exact H1 | apply nosend_ok, H2].
  - destruct (b_mode st), (b_wait st); (split; [exact Hst | constructor]).
  - destruct (b_timer st && flush_poll st); (split; [exact Hst | constructor]).
  - destruct (flush_enabled st); [|split; [exact Hst | constructor]].
    assert (Hk1 : Forall Q (set_msgs (b_buf (with_wait (rollover st e0) WNone)))) by constructor.
    destruct (b_wait st) as [|m|m] eqn:Ew; cbn [fst snd].
    + split; [constructor | constructor; [exact Hb | constructor]].
    + cbn [wait_msgs] in Hw. inversion Hw as [|? ? Hm0 Hm1]; subst.
      destruct (after_over_okP (with_wait (rollover st e0) WNone) m Hk1 Hm0 eq_refl) as [H1 H2].
      destruct (after_over c (with_wait (rollover st e0) WNone) m) as [[st2 e2] u]. cbn [fst snd] in *.
      split; [exact H1 | constructor; [exact Hb | apply nosend_ok, H2]].
    + cbn [wait_msgs] in Hw. inversion Hw as [|? ? Hm0 Hm1]; subst.
      destruct (do_add_okP (with_wait (rollover st e0) WNone) m Hk1 Hm0 eq_refl) as [H1 H2].
      destruct (do_add c (with_wait (rollover st e0) WNone) m) as [[st2 e2] u]. cbn [fst snd] in *.
      split; [exact H1 | constructor; [exact Hb | apply nosend_ok, H2]].
  - destruct (handle_response_okP e0 st sent r Hb (Hre sent r eq_refl)) as [K1 [K2 E1]].
    destruct (handle_response c e0 st sent r) as [st1 effs]. cbn [fst snd] in *.
    assert (Hst1 : Forall Q (bp_msgs st1)) by (apply bp_msgs_split; split; [exact K1 | rewrite K2; exact Hw]).
    destruct (b_wait st1) as [|m|m] eqn:Ew; cbn [fst snd]; [split; assumption| |].
    + assert (Hm : Q m) by (rewrite <- K2 in Hw; cbn [wait_msgs] in Hw; inversion Hw; assumption).
      assert (Hnone : Forall Q (bp_msgs (with_wait st1 WNone))) by (unfold bp_msgs; cbn; rewrite app_nil_r; exact K1).
      destruct (needs_retry st1 m).
      * cbn [fst snd]. split; [exact Hnone|]. apply okP_app; [exact E1|]. constructor; [|constructor].
        apply retry_msg_okP, (t_bounce_b _ _ _ _ _ T), Hm.
      * destruct (would_overflow c (b_buf st1) m); [split; assumption|].
        destruct (after_over_okP (with_wait st1 WNone) m K1 Hm eq_refl) as [H1 H2].
        destruct (after_over c (with_wait st1 WNone) m) as [[st2 e2] u]. cbn [fst snd] in *.
        split; [exact H1 | apply okP_app; [exact E1 | apply nosend_ok, H2]].
    + assert (Hm : Q m) by (rewrite <- K2 in Hw; cbn [wait_msgs] in Hw; inversion Hw; assumption).
      assert (Hnone : Forall Q (bp_msgs (with_wait st1 WNone))) by (unfold bp_msgs; cbn; rewrite app_nil_r; exact K1).
      destruct (needs_retry st1 m); cbn [fst snd]; [|split; assumption].
      split; [exact Hnone|]. apply okP_app; [exact E1|]. constructor; [|constructor].
      apply retry_msg_okP, (t_bounce_b _ _ _ _ _ T), Hm.
Qed.

Lemma bp_step_okP b e0 st i : Forall Q (bp_msgs st) ->
  (forall m, i = BRecv m -> PQ P (DBp b) m) -> (forall sent r, i = BResp sent r -> Forall Q (set_msgs sent)) ->
  Forall Q (bp_msgs (fst (bp_step c e0 st i))) /\ Forall (eff_okP P) (snd (bp_step c e0 st i)).
Proof.
  intros Hst Hin Hre. destruct (bp_core_okP b e0 st i Hst Hin Hre) as [H1 H2]. unfold bp_step.
  destruct (bp_core c e0 st i) as [[st' effs] upd]. cbn [fst snd] in *. split; [|exact H2].
  assert (Hd : forall x, Forall Q (bp_msgs x) -> Forall Q (bp_msgs (drain_check x))).
  { intros x Hx. unfold drain_check. destruct (b_mode x); try exact Hx. destruct (set_empty (b_buf x)); exact Hx. }
  apply Hd. destruct upd; [|exact H1]. unfold end_iter. destruct (b_mode st'); try exact H1. destruct (b_wait st') eqn:Ew; try exact H1.
  unfold bp_msgs in *. cbn. rewrite Ew in H1. exact H1.
Qed.

Lemma rb_okP e0 k ms e l : Forall Q ms -> Forall (eff_okP P) (rb_step c e0 k ms e l).
Proof.
  intros Hms. unfold rb_step. destruct (first_exhausted c ms).
  - destruct (c_fix_rb c); [apply nosend_ok, ns_return_errors | apply nosend_ok; reflexivity].
  - destruct l; [|apply nosend_ok, ns_return_errors].
    constructor; [|constructor]. cbn [eff_okP]. unfold set_msgs. cbn [s_parts parts_msgs]. rewrite app_nil_r.
    clear -Hms T. induction Hms as [|m r Hm Hr IH]; cbn [map]; constructor; [apply (t_rb _ _ _ _ _ T), Hm | exact IH].
Qed.

End Broker.

(* ---------------------------------------------------------------- one step of the composition *)

Section Steps.
Variable P : preds.
Variable G : Prop.
Variable c : cfg.

Definition tr_at (s : state) : Prop := transfers P G c (g_epoch s) (fun k => seq_get k (g_seqs s)).

Lemma pop_places d s m s1 : places_ok P s -> pop d s = Some (m, s1) ->
  PQ P d m /\ places_ok P s1 /\ g_epoch s1 = g_epoch s /\ g_seqs s1 = g_seqs s.
Proof.
  intros H. unfold pop. destruct (q_get d (g_q s)) as [|m0 r] eqn:E; [discriminate|]. intros E'. injection E' as <- <-.
  pose proof (q_get_ok P s d (po_q _ _ H)) as Hd. rewrite E in Hd. inversion Hd as [|? ? Hm Hr]; subst.
  split; [exact Hm|]. split; [|split; reflexivity].
  destruct H as [H1 H2 H3 H4]. constructor; cbn [set_q g_q g_pps g_bps g_rbs]; try assumption.
  intros d' l' Hin. apply in_q_set in Hin as [[-> ->]|Hin]; [exact Hr | eapply H1, Hin].
Qed.

Lemma Forall_bp_upd_nth' (Q : bpi -> Prop) g : forall l i x, Forall Q l -> nth_error l i = Some x -> Q (g x) -> Forall Q (bp_upd i g l).
Proof.
  induction l as [|y l IH]; intros [|i] x HF Hn Hp; cbn [bp_upd nth_error] in *; try discriminate.
  - injection Hn as ->. inversion HF; subst. constructor; assumption.
  - inversion HF; subst. constructor; [assumption | eapply IH; eassumption].
Qed.
Lemma Forall_nth' (Q : bpi -> Prop) : forall l i x, Forall Q l -> nth_error l i = Some x -> Q x.
Proof. intros l i x HF Hn. rewrite Forall_forall in HF. apply HF. eapply nth_error_In, Hn. Qed.

Lemma get_bp_epoch s br : g_epoch (fst (get_bp s br)) = g_epoch s.
Proof. unfold get_bp. destruct (find_reg br (g_bps s) 0%nat); reflexivity. Qed.
Lemma set_handle_epoch s w h : g_epoch (set_handle s w h) = g_epoch s.
Proof. unfold set_handle. destruct w; try reflexivity. destruct (pp_get k (g_pps s)); reflexivity. Qed.

Lemma epoch_apply_eff w s e : g_epoch (apply_eff c w s e) = g_epoch s + bumps [e].
Proof.
  destruct e; cbn [apply_eff bumps]; try lia.
  - destruct d; try (cbn; lia). destruct (handle_of s w); [|cbn; lia]. destruct (nth_error (g_bps s) n); [|cbn; lia].
    destruct (i_in_closed b); cbn; lia.
  - unfold emit. destruct (m_hasseq m); destruct (g_closed s); cbn; lia.
  - unfold emit. destruct (g_closed s); cbn; lia.
  - unfold emit. destruct (g_closed s); cbn; lia.
  - cbn; lia.
  - cbn; lia.
  - cbn; lia.
  - cbn; lia.
  - cbn; lia.
  - destruct (handle_of s w) as [b|]; [|lia]. rewrite set_handle_epoch. cbn. lia.
  - destruct (get_bp s broker) as [s1 b] eqn:E. rewrite set_handle_epoch. pose proof (get_bp_epoch s broker) as G1. rewrite E in G1. cbn [fst] in G1. lia.
  - destruct (find_reg broker (g_bps s) 0%nat); cbn; lia.
  - destruct w; try (cbn; lia). destruct (nth_error (g_bps s) b); cbn; lia.
  - cbn; lia.
  - destruct (get_bp s broker) as [s1 b] eqn:E. pose proof (get_bp_epoch s broker) as G1. rewrite E in G1. cbn [fst] in G1. cbn. lia.
  - cbn; lia.
Qed.
Lemma epoch_apply_effs w : forall l s, g_epoch (apply_effs c w s l) = g_epoch s + bumps l.
Proof.
  induction l as [|e l IH]; intros s; cbn [apply_effs fold_left]; [cbn; lia|].
  fold (apply_effs c w (apply_eff c w s e) l). rewrite IH, epoch_apply_eff. change (e :: l) with ([e] ++ l). rewrite bumps_app. lia.
Qed.

Lemma run_pp_places s k x m ls : places_ok P s -> Forall (PL P k) (pp_msgs (pr_st x)) ->
  PQ P (DPart (fst k) (snd k)) m -> tr_at s -> G ->
  g_epoch (run_pp c s k x m ls) = g_epoch s \/ transfers_any P c -> places_ok P (run_pp c s k x m ls).
Proof.
  intros H Hx Hm T HG HB. unfold run_pp in *. destruct k as [t p]. cbn [fst snd] in *.
  match goal with |- context [pp_step c t p (pr_st x) m ?ab ?stamp ls] =>
    assert (HB' : bumps (snd (pp_step c t p (pr_st x) m ab stamp ls)) = 0 \/ transfers_any P c);
    [destruct HB as [HB|TA]; [left | right; exact TA];
     destruct (pp_step c t p (pr_st x) m ab stamp ls) as [st0 effs0]; cbn [snd]; rewrite epoch_apply_effs in HB; cbn [set_pps g_epoch] in HB; lia|];
    destruct (pp_step_okP P c (g_epoch s) (fun k => seq_get k (g_seqs s)) (t_pp _ _ _ _ _ T HG) t p (pr_st x) m ab stamp ls Hx Hm eq_refl eq_refl HB') as [F1 F2];
    destruct (pp_step c t p (pr_st x) m ab stamp ls) as [st' effs] end.
  cbn [fst snd] in *. apply apply_effs_places; [|exact F2].
  destruct H as [H1 H2 H3 H4]. constructor; cbn [set_pps g_q g_pps g_bps g_rbs]; try assumption.
  intros k' x' Hin. apply in_pp_set in Hin as [[-> ->]|Hin]; [exact F1 | eapply H2, Hin].
Qed.

Lemma run_bp_places s b x i : places_ok P s -> nth_error (g_bps s) b = Some x -> tr_at s ->
  (forall m, i = BRecv m -> PQ P (DBp b) m) -> (forall sent r, i = BResp sent r -> Forall (PB P) (set_msgs sent)) ->
  places_ok P (run_bp c s b x i).
Proof.
  intros H Hn T Hin Hre. unfold run_bp.
  pose proof (Forall_nth' _ _ _ _ (po_bp _ _ H) Hn) as Hx. unfold bside_msgs in Hx. apply Forall_app in Hx as [Hx1 Hx2].
  destruct (bp_step_okP P G c (g_epoch s) (fun k => seq_get k (g_seqs s)) T b (g_epoch s) (i_st x) i Hx1 Hin Hre) as [F1 F2].
  destruct (bp_step c (g_epoch s) (i_st x) i) as [st' effs]. cbn [fst snd] in *.
  apply apply_effs_places; [|exact F2]. apply places_bps; [exact H|].
  eapply Forall_bp_upd_nth'; [apply (po_bp _ _ H) | exact Hn |]. unfold bside_msgs. cbn [bi_with_st i_st i_bridge i_infl i_resp].
  apply Forall_app. split; assumption.
Qed.

Lemma get_bp_txn s br : g_epoch (fst (get_bp s br)) = g_epoch s /\ g_seqs (fst (get_bp s br)) = g_seqs s.
Proof. unfold get_bp. destruct (find_reg br (g_bps s) 0%nat); split; reflexivity. Qed.
Lemma set_handle_txn s w h : g_epoch (set_handle s w h) = g_epoch s /\ g_seqs (set_handle s w h) = g_seqs s.
Proof. unfold set_handle. destruct w; try (split; reflexivity). destruct (pp_get k (g_pps s)); split; reflexivity. Qed.

Lemma pp_init_txn w s t p l : g_epoch (apply_effs c w s (snd (pp_init c t p l))) = g_epoch s /\
                              g_seqs (apply_effs c w s (snd (pp_init c t p l))) = g_seqs s.
Proof.
  destruct l; cbn [pp_init snd]; [|split; reflexivity].
  unfold leader_effects, apply_effs. cbn [fold_left apply_eff].
  destruct (get_bp s broker) as [s1 b] eqn:E. pose proof (get_bp_txn s broker) as [G1 G2]. rewrite E in G1, G2. cbn [fst] in *.
  destruct (set_handle_txn s1 w (Some b)) as [S1 S2].
  set (s2 := add_inflight (set_handle s1 w (Some b)) 1).
  assert (E2 : g_epoch s2 = g_epoch s /\ g_seqs s2 = g_seqs s) by (subst s2; cbn; rewrite S1, S2, G1, G2; split; reflexivity).
  destruct (handle_of s2 w); [|cbn; exact E2]. destruct (nth_error (g_bps s2) n); [|cbn; exact E2].
  destruct (i_in_closed b0); cbn; exact E2.
Qed.

Lemma tr_at_same s s' : g_epoch s' = g_epoch s -> g_seqs s' = g_seqs s -> tr_at s -> tr_at s'.
Proof. unfold tr_at. intros -> ->. auto. Qed.

Lemma raw_step_places s ch : places_ok P s -> tr_at s -> (forall t p ls, ch = CPp t p ls -> G) ->
  (forall x, ch = CSubmit x -> g_close_req s = false -> PQ P DDisp (fresh_of x)) -> PQ P DDisp (shutdown_marker c) ->
  g_epoch (raw_step c s ch) = g_epoch s \/ transfers_any P c ->
  places_ok P (raw_step c s ch).
Proof.
  intros H T HGc Hsub Hshut HB. destruct ch; cbn [raw_step].
  - (* CSubmit *) destruct (g_close_req s) eqn:Ecr; [exact H|].
    eapply places_same; [| | | |apply (places_push P s DDisp (fresh_of m) H (Hsub m eq_refl eq_refl))]; reflexivity.
  - (* CAsyncClose *) destruct (g_close_req s); [exact H|].
    assert (H1 : places_ok P (set_flags s true (g_woken s) (g_closed s))) by (eapply places_same; [| | | |exact H]; reflexivity).
    eapply places_same; [| | | |apply (places_push P _ DDisp (shutdown_marker c) H1 Hshut)]; reflexivity.
  - (* CDisp *)
    destruct (pop DDisp s) as [[m s1]|] eqn:E; [|exact H]. destruct (pop_places _ _ _ _ H E) as [Hm [H1 _]].
    pose proof (disp_okP P G c _ _ T (g_disp s1) m Hm) as Q. destruct (disp_step c (g_disp s1) m) as [d' effs]. cbn [snd] in Q.
    apply apply_effs_places; [|exact Q]. eapply places_same; [| | | |exact H1]; reflexivity.
  - (* CTp *)
    destruct (pop (DTopic t) s) as [[m s1]|] eqn:E; [|exact H]. destruct (pop_places _ _ _ _ H E) as [Hm [H1 _]].
    apply apply_effs_places; [exact H1 | eapply tp_okP; eassumption].
  - (* CPp *)
    destruct (pop (DPart t p) s) as [[m s1]|] eqn:E; [|exact H]. destruct (pop_places _ _ _ _ H E) as [Hm [H1 [E1 E2]]].
    assert (T1 : tr_at s1) by (eapply tr_at_same; eassumption).
    pose proof (HGc t p ls eq_refl) as HG. cbn [raw_step] in HB. rewrite E in HB.
    destruct (pp_get (t, p) (g_pps s1)) as [x|] eqn:Ex; [apply run_pp_places; [exact H1 | apply (po_pp _ _ H1 _ _ (pp_get_in _ _ _ Ex)) | exact Hm | exact T1 | exact HG | destruct HB as [HB|HB]; [left; rewrite HB; symmetry; exact E1 | right; exact HB]]|].
    destruct (next_lres ls) as [l0 ls'].
    destruct (pp_init_okP P c _ _ (t_pp _ _ _ _ _ T1 HG) t p l0) as [Q0 Q1].
    pose proof (pp_init_txn (WPp (t, p)) (set_pps s1 (pp_set (t, p) (mkPpr (fst (pp_init c t p l0)) None) (g_pps s1))) t p l0) as [X1 X2].
    destruct (pp_init c t p l0) as [st0 effs0]. cbn [fst snd] in *.
    set (s2 := set_pps s1 (pp_set (t, p) (mkPpr st0 None) (g_pps s1))) in *.
    assert (H2 : places_ok P s2).
    { destruct H1 as [A1 A2 A3 A4]. constructor; cbn [s2 set_pps g_q g_pps g_bps g_rbs]; try assumption.
      intros k' x' Hin. apply in_pp_set in Hin as [[-> ->]|Hin]; [cbn [pr_st]; rewrite Q1; constructor | eapply A2, Hin]. }
    pose proof (apply_effs_places P c (WPp (t, p)) effs0 s2 H2 Q0) as H3.
    set (s3 := apply_effs c (WPp (t, p)) s2 effs0) in *.
    assert (T3 : tr_at s3) by (eapply tr_at_same; [exact X1 | exact X2 | exact T1]).
    apply run_pp_places; [exact H3 | | exact Hm | exact T3 | exact HG|].
    2:{ destruct HB as [HB|HB]; [left | right; exact HB]. transitivity (g_epoch s); [exact HB | rewrite X1; symmetry; exact E1]. }
    destruct (pp_get (t, p) (g_pps s3)) as [x|] eqn:Ex3; [apply (po_pp _ _ H3 _ _ (pp_get_in _ _ _ Ex3)) | cbn [pr_st]; rewrite Q1; constructor].
  - (* CBpRecv *)
    destruct (nth_error (g_bps s) b) as [x|] eqn:En; [|exact H]. destruct (flush_poll (i_st x)); [|exact H].
    destruct (pop (DBp b) s) as [[m s1]|] eqn:E.
    + destruct (pop_places _ _ _ _ H E) as [Hm [H1 [E1 E2]]].
      assert (En1 : nth_error (g_bps s1) b = Some x).
      { unfold pop in E. destruct (q_get (DBp b) (g_q s)); [discriminate|]. injection E as _ <-. exact En. }
      apply run_bp_places; [exact H1 | exact En1 | eapply tr_at_same; eassumption | intros m0 E0; injection E0 as <-; exact Hm | intros; discriminate].
    + destruct (i_in_closed x); [|exact H]. apply run_bp_places; [exact H | exact En | exact T | intros; discriminate | intros; discriminate].
  - (* CBpTimer *)
    destruct (nth_error (g_bps s) b) as [x|] eqn:En; [|exact H]. apply run_bp_places; [exact H | exact En | exact T | intros; discriminate | intros; discriminate].
  - (* CBpFlush *)
    destruct (nth_error (g_bps s) b) as [x|] eqn:En; [|exact H]. apply run_bp_places; [exact H | exact En | exact T | intros; discriminate | intros; discriminate].
  - (* CBridge *)
    destruct (nth_error (g_bps s) b) as [x|] eqn:En; [|exact H].
    destruct (i_infl x) eqn:Ei; [exact H|]. destruct (i_bridge x) as [|st r] eqn:Eb; [exact H|].
    apply places_bps; [exact H|]. pose proof (Forall_nth' _ _ _ _ (po_bp _ _ H) En) as Hx.
    eapply Forall_bp_upd_nth'; [apply (po_bp _ _ H) | exact En |].
    unfold bside_msgs in *. cbn [bi_with_bridge i_st i_bridge i_infl i_resp]. rewrite Eb, Ei in Hx. cbn [flat_map] in Hx.
    rewrite !Forall_app in *. tauto.
  - (* CAnswer *)
    destruct (nth_error (g_bps s) b) as [x|] eqn:En; [|exact H]. destruct (i_infl x) as [st|] eqn:Ei; [|exact H].
    apply places_bps; [exact H|]. pose proof (Forall_nth' _ _ _ _ (po_bp _ _ H) En) as Hx.
    eapply Forall_bp_upd_nth'; [apply (po_bp _ _ H) | exact En |].
    unfold bside_msgs in *. cbn [bi_with_bridge i_st i_bridge i_infl i_resp]. rewrite Ei in Hx.
    rewrite flat_map_app. cbn [flat_map fst]. rewrite ?app_nil_r. rewrite !Forall_app in *.
    destruct Hx as [A [B [C D]]]. repeat split; try assumption. constructor.
  - (* CBpResp *)
    destruct (nth_error (g_bps s) b) as [x|] eqn:En; [|exact H].
    destruct (i_resp x) as [|[st r] rest] eqn:Er; [exact H|].
    pose proof (Forall_nth' _ _ _ _ (po_bp _ _ H) En) as Hx. unfold bside_msgs in Hx. rewrite Er in Hx. cbn [flat_map fst] in Hx.
    rewrite !Forall_app in Hx. destruct Hx as [Hx1 [Hx2 [Hx3 [Hx4 Hx5]]]].
    set (s1 := set_bps s (bp_upd b (fun y => bi_with_bridge y (i_bridge y) (i_infl y) rest) (g_bps s))).
    assert (H1 : places_ok P s1).
    { apply places_bps; [exact H|]. eapply Forall_bp_upd_nth'; [apply (po_bp _ _ H) | exact En |].
      unfold bside_msgs. cbn [bi_with_bridge i_st i_bridge i_infl i_resp]. rewrite !Forall_app. tauto. }
    destruct (nth_error (g_bps s1) b) as [x1|] eqn:En1; [|exact H].
    apply run_bp_places; [exact H1 | exact En1 | exact T | intros; discriminate | intros sent r0 E0; injection E0 as <- <-; exact Hx4].
  - (* CRb *)
    destruct (nth_error (g_rbs s) i) as [t|] eqn:En; [|exact H].
    assert (Ht : Forall (PB P) (rb_ms t)).
    { pose proof (po_rb _ _ H) as Hr. rewrite Forall_forall in Hr. apply Hr. eapply nth_error_In, En. }
    apply apply_effs_places; [|eapply rb_okP; eassumption].
    destruct H as [A1 A2 A3 A4]. constructor; cbn [set_rbs g_q g_pps g_bps g_rbs]; try assumption.
    clear -A4. revert i. induction A4 as [|y l Hy Hl IH]; intros [|i]; cbn [remove_nth]; try constructor; auto.
  - (* CRetry *)
    destruct (pop DRetry s) as [[m s1]|] eqn:E; [|exact H]. destruct (pop_places _ _ _ _ H E) as [Hm [H1 _]].
    eapply places_same; [| | | |apply (places_push P s1 DDisp m H1 (t_retry _ _ _ _ _ T m Hm))]; reflexivity.
  - destruct (g_close_req s && negb (g_woken s) && (g_inflight s =? 0)); [eapply places_same; [| | | |exact H]; reflexivity | exact H].
  - destruct (g_woken s && negb (g_closed s)); [eapply places_same; [| | | |exact H]; reflexivity | exact H].
Qed.

Theorem step_places s ch : places_ok P s -> tr_at s -> (forall t p ls, ch = CPp t p ls -> G) ->
  (forall x, ch = CSubmit x -> g_close_req s = false -> g_panic s = None -> PQ P DDisp (fresh_of x)) -> PQ P DDisp (shutdown_marker c) ->
  g_epoch (step c s ch) = g_epoch s \/ transfers_any P c ->
  places_ok P (step c s ch).
Proof.
  intros H T HGc H1 H2 HB. unfold step in *. destruct (g_panic s) eqn:Eps; [exact H|].
  destruct (g_panic (raw_step c s ch)); [eapply places_same; [| | | |exact H]; reflexivity | apply raw_step_places; try assumption].
  intros x Ex Ec. apply H1; [exact Ex | exact Ec | reflexivity].
Qed.

End Steps.
