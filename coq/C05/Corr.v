(* C05 correspondence: what the harness (go/harness/cmd/c05corr, simulator go/harness/internal/idembroker)
   observed in one run of the real idempotent producer, re-evaluated on the model's definitions.
   (1) broker: every produce request the simulator received, in its (total) order of arrival, with the fault
       applied: the model's rules (C05.Model.process_b) must give the same verdict per batch, the same answer
       codes and base offsets, and the same final partition logs;
   (2) transaction manager: the sequence stamps the partition workers obtained (pp.send of a first-pass
       message), grouped by epoch value (which linearises them against the epoch bumps), replayed through
       txn_stamp / txn_bump: every observed (sequence, epoch) must be the model's; the number of bumps is the
       number of error events of stamped messages and must lead to the final epoch read from the producer;
   (3) retryBatch: every resend (retryBatch.start ... retryBatch.send) replayed through Actors.rb_step: same
       messages, same stamps, retries + 1, label between the epochs seen at the two hook points; an exhausted
       batch fails every message.
   No proofs here. *)
From Coq Require Import List ZArith Bool Arith.
From SV Require Import Base.Corr Producer.Msg Producer.Actors Producer.Compose C05.Model.
Import ListNotations.
Open Scope Z_scope.

(* ---------------------------------------------------------------- (1) broker *)

Definition vcode (v : option verdict) : Z * Z :=
  match v with
  | None => (-1, -1)
  | Some (VAppend b) => (0, b)
  | Some (VDup b) => (1, b)
  | Some VOutOfOrder => (2, -1)
  | Some VFenced => (3, -1)
  end.

Definition zz_eqb (a b : Z * Z) : bool := (fst a =? fst b) && (snd a =? snd b).

(* blocks of an answer as (key, (code, base)); connection level: [((-1,-1),(1004,-1))] *)
Definition resp_blocks (r : resp) : list (tpk * (Z * Z)) :=
  match r with
  | RBlocks bl => bl
  | RErr e _ => [((-1, -1), (e, -1))]
  | RNil => []
  end.
Definition blk_eqb (a b : tpk * (Z * Z)) : bool := tpk_eqb (fst a) (fst b) && zz_eqb (snd a) (snd b).

Record breq := mkBreq {
  bq_batches : list batch;
  bq_fault : rfault;
  bq_verdicts : list (Z * Z);               (* observed per batch: vcode *)
  bq_answer : list (tpk * (Z * Z))          (* observed answer blocks *)
}.

Fixpoint broker_replay (br : broker) (rs : list breq) : broker * bool :=
  match rs with
  | [] => (br, true)
  | r :: rest =>
      let '(br', ls, resp) := process_b br (bq_batches r) (bq_fault r) in
      let okv := list_eqb zz_eqb (map (fun l => vcode (rl_verdict l)) ls) (bq_verdicts r) in
      let oka := list_eqb blk_eqb (resp_blocks resp) (bq_answer r) in
      let '(br2, okr) := broker_replay br' rest in
      (br2, okv && oka && okr)
  end.

Definition entry_eqb (e : entry) (x : Z * Z * Z) : bool :=
  (en_id e =? fst (fst x)) && (en_epoch e =? snd (fst x)) && (en_seq e =? snd x).
Fixpoint entries_eqb (a : list entry) (b : list (Z * Z * Z)) : bool :=
  match a, b with
  | [], [] => true
  | x :: a', y :: b' => entry_eqb x y && entries_eqb a' b'
  | _, _ => false
  end.
Definition logs_ok (br : broker) (logs : list (tpk * list (Z * Z * Z))) : bool :=
  forallb (fun kl => entries_eqb (ps_log (br_get (fst kl) br)) (snd kl)) logs.

(* ---------------------------------------------------------------- (2) transaction manager *)

(* TFlushed: a first-pass message forwarded by flushRetryBuffers (Actors.flush sends the backlog as it is: no stamp) *)
Inductive top := TStamp (k : tpk) (sq ep : Z) | TBump | TFlushed (id : Z) (hasseq : bool).

Fixpoint txn_replay (t : txn) (ops : list top) : txn * bool :=
  match ops with
  | [] => (t, true)
  | TStamp k sq ep :: r =>
      let '((sq', ep'), t') := txn_stamp t k in
      let '(t2, ok) := txn_replay t' r in
      (t2, (sq =? sq') && (ep =? ep') && ok)
  | TBump :: r => txn_replay (txn_bump t) r
  | TFlushed _ h :: r => let '(t2, ok) := txn_replay t r in (t2, negb h && ok)
  end.

(* ---------------------------------------------------------------- (3) retryBatch *)

Record rbcase := mkRbcase {
  rb_retry_max : nat;
  rb_key : tpk;
  rb_msgs : list (Z * Z * Z * nat);          (* id, sequence, epoch, retries at retryBatch.start *)
  rb_err : Z;
  rb_ep_lo : Z; rb_ep_hi : Z;                (* transaction-manager epoch at retryBatch.start / at the end *)
  rb_sent : option (Z * list (Z * Z * Z * nat)); (* the set handed to the bridge: label, messages *)
  rb_failed : list Z                         (* ids given an error event by this goroutine *)
}.

Definition rb_cfg (n : nat) : cfg := mkCfg n true true 1000000 104847360 0 0 false 0 [] true true.
Definition rb_msg (k : tpk) (x : Z * Z * Z * nat) : msg :=
  let '(id, sq, ep, r) := x in mkMsg id (fst k) (snd k) r 0 50 false (snd k) false sq ep true [].
Definition q4_eqb (a b : Z * Z * Z * nat) : bool :=
  let '(a1, a2, a3, a4) := a in let '(b1, b2, b3, b4) := b in
  (a1 =? b1) && (a2 =? b2) && (a3 =? b3) && (a4 =? b4)%nat.
Definition msg4 (m : msg) : Z * Z * Z * nat := (m_id m, m_seq m, m_epoch m, m_retries m).

Definition rb_ok (r : rbcase) : bool :=
  let ms := map (rb_msg (rb_key r)) (rb_msgs r) in
  match rb_sent r with
  | Some (label, sent) =>
      (rb_ep_lo r <=? label) && (label <=? rb_ep_hi r) &&
      match rb_step (rb_cfg (rb_retry_max r)) label (rb_key r) ms (rb_err r) (LOk 1) with
      | [ERbSend _ s] =>
          (s_epoch s =? label) &&
          match s_parts s with
          | [(k, l)] => tpk_eqb k (rb_key r) && list_eqb q4_eqb (map msg4 l) sent
          | _ => false
          end
      | _ => false
      end && match rb_failed r with [] => true | _ => false end
  | None =>
      (* no leader or budget exhausted: the model fails every message of the batch *)
      match rb_step (rb_cfg (rb_retry_max r)) (rb_ep_lo r) (rb_key r) ms (rb_err r) (LFail 5) with
      | effs => list_eqb Z.eqb (map (fun e => match e with EErr m _ => m_id m | _ => -2 end) effs) (rb_failed r)
      end
  end.

(* ---------------------------------------------------------------- one run *)

Record case := mkCase {
  cs_reqs : list breq;
  cs_logs : list (tpk * list (Z * Z * Z));
  cs_txn : list top;
  cs_final_epoch : Z;
  cs_rbs : list rbcase
}.

Definition ok (c : case) : bool :=
  let '(br, okb) := broker_replay [] (cs_reqs c) in
  let '(t, okt) := txn_replay txn0 (cs_txn c) in
  okb && logs_ok br (cs_logs c) && okt && (fst t =? cs_final_epoch c) && forallb rb_ok (cs_rbs c).

Definition mismatches_c05 := mismatches ok.
