(* C13 — round robin: when every member subscribes to every topic that has partitions, the members' totals differ by at
   most one (the k-th member in id order receives the partitions at positions k, k+n, k+2n, ... of the sorted list). *)
From Coq Require Import List ZArith Bool Lia Permutation.
From SV Require Import C08.Common C08.RoundRobin C08.Valid C08.ProofsBase C08.ProofsRange C08.ProofsRR C13.Model.
Import ListNotations.
Open Scope list_scope.
Open Scope Z_scope.

Lemma filter_perm_length : forall {A} (f : A -> bool) a b, Permutation a b -> length (filter f a) = length (filter f b).
Proof.
  intros A f a b H. induction H; simpl; try congruence.
  - destruct (f x); simpl; congruence.
  - destruct (f x), (f y); reflexivity.
Qed.

Lemma total_eq : forall p m, total p m = len (filter (of_member m) (triples p)).
Proof. intros. unfold total, holds, len. now rewrite map_length. Qed.

Lemma total_add : forall p mid t q m, total (plan_add p mid t [q]) m = total p m + (if str_eqb mid m then 1 else 0).
Proof.
  intros p mid t q m. rewrite !total_eq. unfold len.
  rewrite (filter_perm_length (of_member m) _ _ (plan_add_perm p mid t [q])).
  rewrite filter_app, app_length. unfold entry. cbn [map filter]. unfold of_member at 2. cbn [fst].
  destruct (str_eqb mid m); simpl; lia.
Qed.

Lemma divmod_step : forall i n, 0 < n -> 0 <= i ->
  ((i mod n) + 1 < n /\ (i + 1) / n = i / n /\ (i + 1) mod n = i mod n + 1) \/
  ((i mod n) + 1 = n /\ (i + 1) / n = i / n + 1 /\ (i + 1) mod n = 0).
Proof.
  intros i n Hn Hi. pose proof (Z.div_mod i n ltac:(lia)) as E. pose proof (Z.mod_pos_bound i n Hn) as B.
  destruct (Z.eq_dec (i mod n + 1) n) as [H|H].
  - right. split; [assumption|]. assert (E2 : i + 1 = n * (i / n + 1) + 0) by lia.
    split; [symmetry; apply (Z.div_unique (i + 1) n (i / n + 1) 0); lia | symmetry; apply (Z.mod_unique (i + 1) n (i / n + 1) 0); lia].
  - left. split; [lia|]. assert (E2 : i + 1 = n * (i / n) + (i mod n + 1)) by lia.
    split; [symmetry; apply (Z.div_unique (i + 1) n (i / n) (i mod n + 1)); lia | symmetry; apply (Z.mod_unique (i + 1) n (i / n) (i mod n + 1)); lia].
Qed.

Section RR.
  Variable ms : list member.          (* members sorted by id *)
  Variable n : Z.
  Hypothesis Hn : n = len ms.
  Hypothesis Hpos : 0 < n.
  Hypothesis Nid : NoDup (map m_id ms).

  (* member number k holds its share after i partitions were handed out *)
  Definition shares (i : Z) (p : plan) : Prop :=
    forall k mm, nth_error ms k = Some mm -> total p (m_id mm) = i / n + (if Z.of_nat k <? i mod n then 1 else 0).

  Lemma rr_loop_shares : forall tps i p, 0 <= i -> shares i p ->
    (forall x mm, In x tps -> In mm ms -> has_topic mm (fst x) = true) ->
    exists p', rr_loop ms n i tps p = RRPlan p' /\ shares (i + len tps) p'.
  Proof.
    induction tps as [|x r IH]; intros i p Hi S Hall; cbn [rr_loop].
    - exists p. split; [reflexivity|]. unfold len. simpl. now rewrite Z.add_0_r.
    - destruct (nth_error_Some_lt ms (Z.to_nat (i mod n))) as [m0 E0].
      { pose proof (Z.mod_pos_bound i n Hpos). unfold len in Hn. lia. }
      assert (Hm0 : In m0 ms) by (eapply nth_error_In; eassumption).
      assert (Es : rr_seek (length ms) ms n i (fst x) = Some (i, m0)).
      { destruct (length ms) as [|f] eqn:El; [unfold len in Hn; lia|]. cbn [rr_seek]. rewrite E0.
        now rewrite (Hall x m0 (or_introl eq_refl) Hm0). }
      rewrite Es.
      destruct (IH (i + 1) (plan_add p (m_id m0) (fst x) [snd x])) as [p' [E S']].
      + lia.
      + intros k mm Hk. rewrite total_add, (S k mm Hk).
        assert (Hkn : Z.of_nat k < n).
        { assert (k < length ms)%nat by (apply nth_error_Some; congruence). unfold len in Hn. lia. }
        pose proof (Z.mod_pos_bound i n Hpos) as B.
        assert (Eid : str_eqb (m_id m0) (m_id mm) = (Z.of_nat k =? i mod n)).
        { destruct (Z.of_nat k =? i mod n) eqn:Ek.
          - apply Z.eqb_eq in Ek. assert (k = Z.to_nat (i mod n)) by lia. subst k. rewrite E0 in Hk. injection Hk as ->. apply str_eqb_refl.
          - apply Z.eqb_neq in Ek. apply str_eqb_neq. intro Eq.
            assert (k = Z.to_nat (i mod n)); [|lia].
            eapply (proj1 (NoDup_nth_error (map m_id ms)) Nid).
            + rewrite map_length. apply nth_error_Some. congruence.
            + rewrite !nth_error_map, Hk, E0. simpl. now rewrite Eq. }
        rewrite Eid.
        destruct (divmod_step i n Hpos Hi) as [[D1 [D2 D3]]|[D1 [D2 D3]]]; rewrite D2, D3.
        * destruct (Z.of_nat k =? i mod n) eqn:Ek; [apply Z.eqb_eq in Ek | apply Z.eqb_neq in Ek];
            destruct (Z.of_nat k <? i mod n) eqn:E1; destruct (Z.of_nat k <? i mod n + 1) eqn:E2;
            try apply Z.ltb_lt in E1; try apply Z.ltb_ge in E1; try apply Z.ltb_lt in E2; try apply Z.ltb_ge in E2; lia.
        * destruct (Z.of_nat k =? i mod n) eqn:Ek; [apply Z.eqb_eq in Ek | apply Z.eqb_neq in Ek];
            destruct (Z.of_nat k <? i mod n) eqn:E1; destruct (Z.of_nat k <? 0) eqn:E2;
            try apply Z.ltb_lt in E1; try apply Z.ltb_ge in E1; try apply Z.ltb_lt in E2; try apply Z.ltb_ge in E2; lia.
      + intros y mm Hy Hmm. apply Hall; [now right | assumption].
      + exists p'. split; [exact E|]. rewrite len_cons. now replace (i + (1 + len r)) with (i + 1 + len r) by lia.
  Qed.
End RR.

Lemma within_one_aux : forall d r a b : Z, d + (if a <? r then 1 else 0) <= d + (if b <? r then 1 else 0) + 1.
Proof. intros d r a b. destruct (a <? r), (b <? r); lia. Qed.

Lemma total_nil : forall m, total [] m = 0.
Proof. reflexivity. Qed.

Theorem rr_balanced : forall ms ts p, wf_members ms -> all_subscribe_all ms ts ->
  rr_plan ms ts = RRPlan p -> totals_within_one ms p.
Proof.
  intros ms ts p Wm Hall E. unfold rr_plan in E.
  destruct ms as [|m0 ms']; [discriminate|]. destruct ts as [|t0 ts']; [discriminate|].
  set (ms := m0 :: ms') in *. set (ts := t0 :: ts') in *.
  set (sorted := sort id_less ms) in *.
  assert (Psort : Permutation sorted ms) by apply sort_perm.
  assert (Hlen : 0 < len sorted).
  { unfold len, sorted. rewrite sort_length. unfold ms. simpl. lia. }
  assert (Nid : NoDup (map m_id sorted)).
  { eapply Permutation_NoDup; [apply Permutation_map; symmetry; exact Psort | exact Wm]. }
  destruct (rr_loop_shares sorted (len sorted) eq_refl Hlen Nid (sort tp_less (all_tps ts)) 0 []) as [p' [E' S]].
  - lia.
  - intros k mm Hk. rewrite total_nil. rewrite Z.div_0_l, Z.mod_0_l by lia. destruct (Z.of_nat k <? 0) eqn:E1; [apply Z.ltb_lt in E1; lia | reflexivity].
  - intros x mm Hx Hmm. apply sort_In in Hx. apply all_tps_In in Hx as [ps [H1 H2]]. apply has_topic_In.
    apply (Hall mm (fst x) ps); [now apply (Permutation_in mm Psort) | assumption | intro Hnil; now rewrite Hnil in H2].
  - rewrite E' in E. injection E as <-.
    intros m1 m2 H1 H2.
    apply (Permutation_in m1 (Permutation_sym Psort)) in H1. apply (Permutation_in m2 (Permutation_sym Psort)) in H2.
    apply In_nth_error in H1 as [k1 K1]. apply In_nth_error in H2 as [k2 K2].
    rewrite (S k1 m1 K1), (S k2 m2 K2).
    apply within_one_aux.
Qed.

(* the pairwise reading ("members with identical subscriptions get totals within one of each other") is false of the
   algorithm when other members subscribe differently *)
From Coq Require Import String.
Open Scope string_scope.
Example rr_pairwise_counterexample :
  let ms := [Build_member (str_of "A") [str_of "a"] (UD [] None); Build_member (str_of "B") [str_of "a"] (UD [] None);
             Build_member (str_of "D") [str_of "a-1"] (UD [] None)] in
  let ts := [(str_of "a", [0%Z; 2%Z]); (str_of "a-1", [0%Z])] in
  (* sorted "topic-partition" values: a-0, a-1-0, a-2: the cursor passes B when it serves a-1-0 and is back at A for a-2 *)
  exists p, rr_plan ms ts = RRPlan p /\ total p (str_of "A") = 2%Z /\ total p (str_of "B") = 0%Z.
Proof. eexists. split; [vm_compute; reflexivity|]. split; vm_compute; reflexivity. Qed.
