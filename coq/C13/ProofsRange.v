(* C13 — range: per topic the subscribers, in hash order, receive consecutive slices of the partition list whose sizes
   are floor(n/m) or ceil(n/m). *)
From Coq Require Import List ZArith Bool Lia Permutation.
From SV Require Import C08.Common C08.RangeFloat C08.Range C08.RoundRobin C08.Valid C08.ProofsBase C08.ProofsRange
  C08.ProofsFloat C13.Model.
Import ListNotations.
Open Scope Z_scope.

(* ---- plan[m][t] under Add ---- *)
Lemma plan_get_add_same : forall p m t ps, plan_get (plan_add p m t ps) m t = plan_get p m t ++ ps.
Proof.
  intros p m t ps. unfold plan_add. destruct ps as [|q ps']; [now rewrite app_nil_r|].
  unfold plan_get, plan_inner, inner_get. rewrite (aget_aset_same str_eqb str_spec). now rewrite (aget_aset_same str_eqb str_spec).
Qed.
Lemma plan_get_add_other : forall p m t ps m' t', (m' <> m \/ t' <> t) -> plan_get (plan_add p m t ps) m' t' = plan_get p m' t'.
Proof.
  intros p m t ps m' t' H. unfold plan_add. destruct ps as [|q ps']; [reflexivity|].
  unfold plan_get, plan_inner. destruct (eq_dec_of str_eqb str_spec m' m) as [->|Nm].
  - destruct H as [H|H]; [congruence|]. rewrite (aget_aset_same str_eqb str_spec). unfold inner_get at 1.
    now rewrite (aget_aset_other str_eqb str_spec).
  - now rewrite (aget_aset_other str_eqb str_spec).
Qed.

Lemma upto_length : forall k, length (upto k) = k.
Proof. induction k as [|k IH]; simpl; [reflexivity|]. rewrite app_length, IH. simpl. lia. Qed.
Lemma upto_nth : forall k i, (i < k)%nat -> nth i (upto k) 0 = Z.of_nat i.
Proof.
  induction k as [|k IH]; intros i H; [lia|]. simpl. destruct (Nat.eq_dec i k) as [->|N].
  - rewrite app_nth2 by (rewrite upto_length; lia). rewrite upto_length, Nat.sub_diag. reflexivity.
  - rewrite app_nth1 by (rewrite upto_length; lia). apply IH. lia.
Qed.
Lemma cut_bnd : forall n m i, 0 <= m -> (i <= Z.to_nat m)%nat -> cut n m i = range_bnd (range_step n m) (Z.of_nat i).
Proof.
  intros n m i Hm Hi. unfold cut, range_bounds.
  rewrite (nth_indep _ 0 (range_bnd (range_step n m) 0)) by (rewrite map_length, upto_length; lia).
  rewrite map_nth. rewrite upto_nth by lia. reflexivity.
Qed.

(* ---- insertion sort by hash sorts ---- *)
Lemma hash_sorted_insert : forall topic x l, hash_sorted topic l -> hash_sorted topic (insert (hash_less topic) x l).
Proof.
  intros topic x. induction l as [|y l IH]; intro H; [simpl; auto|].
  cbn [insert]. unfold hash_less at 1. destruct (hashv topic y <? hashv topic x) eqn:E.
  - apply Z.ltb_lt in E. destruct H as [H1 H2]. specialize (IH H2). cbn [hash_sorted]. split; [|exact IH].
    destruct l as [|z l]; cbn [insert].
    + lia.
    + unfold hash_less. destruct (hashv topic z <? hashv topic x) eqn:E2; [exact H1 | lia].
  - apply Z.ltb_ge in E. cbn [hash_sorted]. split; [exact E | exact H].
Qed.
Lemma hash_sorted_sort : forall topic l, hash_sorted topic (sort_by_hash topic l).
Proof.
  intros topic. unfold sort_by_hash. induction l as [|x l IH]; [exact I|]. cbn [sort]. now apply hash_sorted_insert.
Qed.

(* ---- coreFn: who gets what ---- *)
Definition slice_at (step : b64) (parts : list Z) (j : Z) : list Z :=
  firstn (Z.to_nat (range_bnd step (j + 1) - range_bnd step j)) (skipn (Z.to_nat (range_bnd step j)) parts).

Lemma core_loop_get : forall step topic parts mids i p p', core_loop step i mids topic parts p = Some p' -> NoDup mids ->
  (forall k mid, nth_error mids k = Some mid -> plan_get p' mid topic = plan_get p mid topic ++ slice_at step parts (i + Z.of_nat k)) /\
  (forall m' t', t' <> topic \/ ~ In m' mids -> plan_get p' m' t' = plan_get p m' t').
Proof.
  intros step topic parts. induction mids as [|mid r IH]; intros i p p' E N; cbn [core_loop] in E.
  - injection E as <-. split; [intros [|k] mid' H; discriminate | reflexivity].
  - inversion N as [|? ? Hm Nr]; subst.
    unfold slice in E.
    destruct ((0 <=? range_bnd step i) && (range_bnd step i <=? range_bnd step (i + 1)) && (range_bnd step (i + 1) <=? len parts)); [|discriminate].
    apply IH in E; [|assumption]. destruct E as [E1 E2]. split.
    + intros [|k] mid' H; cbn [nth_error] in H.
      * injection H as <-. rewrite E2 by (right; assumption). rewrite plan_get_add_same. unfold slice_at. now rewrite Z.add_0_r.
      * rewrite (E1 k mid' H). rewrite plan_get_add_other.
        -- f_equal. f_equal. lia.
        -- left. intros ->. apply Hm. eapply nth_error_In; eassumption.
    + intros m' t' H. rewrite E2 by (destruct H as [H|H]; [now left | right; intro H'; apply H; now right]).
      apply plan_get_add_other. destruct H as [H|H]; [now right | left; intros ->; apply H; now left].
Qed.

Lemma range_topics_get : forall ts mbt p p', range_topics ts mbt p = Some p' -> NoDup (map fst mbt) ->
  (forall t mids, In (t, mids) mbt -> NoDup mids) ->
  (forall topic mids, In (topic, mids) mbt ->
     forall k mid, nth_error (sort_by_hash topic mids) k = Some mid ->
     plan_get p' mid topic = plan_get p mid topic ++
       slice_at (range_step (len (topic_partitions ts topic)) (len (sort_by_hash topic mids))) (topic_partitions ts topic) (Z.of_nat k)) /\
  (forall m' t', ~ In t' (map fst mbt) -> plan_get p' m' t' = plan_get p m' t').
Proof.
  intros ts. induction mbt as [|[topic mids] mbt IH]; intros p p' E N Hn; cbn [range_topics] in E.
  - injection E as <-. split; [intros ? ? [] | reflexivity].
  - simpl in N. inversion N as [|? ? Ht Nr]; subst.
    destruct (range_core p (sort_by_hash topic mids) topic (topic_partitions ts topic)) as [p1|] eqn:E1; [|discriminate].
    unfold range_core in E1. apply core_loop_get in E1.
    2:{ unfold sort_by_hash. apply sort_NoDup. apply (Hn topic). now left. }
    destruct E1 as [C1 C2].
    apply IH in E; [|assumption | intros t m' H; apply (Hn t); now right]. destruct E as [I1 I2]. split.
    + intros topic' mids' [H|H] k mid Hk.
      * injection H as <- <-. rewrite I2 by assumption. rewrite (C1 k mid Hk). reflexivity.
      * rewrite (I1 topic' mids' H k mid Hk). rewrite C2; [reflexivity|]. left. intros ->. apply Ht.
        apply in_map_iff. now exists (topic, mids').
    + intros m' t' H. simpl in H. rewrite I2 by tauto. apply C2. left. intros ->. apply H. now left.
Qed.

(* ---- the members-by-topic map lists each subscriber once ---- *)
Lemma mbt_get_aset : forall mbt t0 l t, mbt_get (aset str_eqb t0 l mbt) t = if str_eqb t t0 then l else mbt_get mbt t.
Proof.
  intros mbt t0 l t. unfold mbt_get. destruct (str_eqb t t0) eqn:E.
  - apply str_eqb_eq in E. subst. now rewrite (aget_aset_same str_eqb str_spec).
  - apply str_eqb_neq in E. now rewrite (aget_aset_other str_eqb str_spec).
Qed.

Lemma mbt_add_topics_get : forall mid ts mbt t, NoDup ts ->
  mbt_get (mbt_add_topics mbt mid ts) t = mbt_get mbt t ++ (if mem str_eqb t ts then [mid] else []).
Proof.
  intros mid. induction ts as [|t0 ts IH]; intros mbt t N; cbn [mbt_add_topics].
  - simpl. now rewrite app_nil_r.
  - inversion N as [|? ? Ht Nr]; subst. rewrite (IH _ t Nr). rewrite mbt_get_aset.
    unfold mem. cbn [existsb]. fold (mem str_eqb t ts). destruct (str_eqb t t0) eqn:E.
    + apply str_eqb_eq in E. subst t0. apply (mem_false str_eqb str_spec) in Ht. rewrite Ht. cbn [orb]. now rewrite app_nil_r.
    + cbn [orb]. reflexivity.
Qed.

Lemma build_mbt_get : forall ms mbt t, (forall mm, In mm ms -> NoDup (m_topics mm)) ->
  mbt_get (build_mbt mbt ms) t = mbt_get mbt t ++ map m_id (filter (fun m => mem str_eqb t (m_topics m)) ms).
Proof.
  induction ms as [|m ms IH]; intros mbt t H; cbn [build_mbt].
  - simpl. now rewrite app_nil_r.
  - rewrite IH by (intros mm Hm; apply H; now right). rewrite mbt_add_topics_get by (apply H; now left).
    cbn [filter]. destruct (mem str_eqb t (m_topics m)); cbn [map]; rewrite <- app_assoc; reflexivity.
Qed.

Lemma NoDup_map_filter : forall {A B} (f : A -> B) (g : A -> bool) l, NoDup (map f l) -> NoDup (map f (filter g l)).
Proof.
  intros A B f g. induction l as [|x l IH]; intro H; [constructor|]. simpl in H. inversion H as [|? ? Hx Hl]; subst.
  cbn [filter]. destruct (g x); [|now apply IH]. cbn [map]. constructor; [|now apply IH].
  intro HI. apply Hx. apply in_map_iff in HI as [y [E Hy]]. apply filter_In in Hy as [Hy _]. apply in_map_iff. now exists y.
Qed.

Lemma mbt_entry_spec : forall ms t mids, wf_members ms -> (forall mm, In mm ms -> NoDup (m_topics mm)) ->
  In (t, mids) (build_mbt [] ms) ->
  NoDup mids /\ (forall x, In x mids <-> subscribes ms x t).
Proof.
  intros ms t mids Wm Hn H.
  destruct (build_mbt_ok ms ms [] (fun _ H => H)) as [N _]; [constructor | intros ? ? [] |]. simpl in N.
  assert (E : mids = map m_id (filter (fun m => mem str_eqb t (m_topics m)) ms)).
  { pose proof (build_mbt_get ms [] t Hn) as G. unfold mbt_get at 1 in G. rewrite (In_aget str_eqb str_spec t mids _ N H) in G.
    rewrite G. reflexivity. }
  subst mids. split; [now apply NoDup_map_filter|].
  intro x. rewrite in_map_iff. split.
  - intros [mm [E H1]]. apply filter_In in H1 as [H1 H2]. apply (mem_In str_eqb str_spec) in H2. now exists mm.
  - intros [mm [H1 [H2 H3]]]. exists mm. split; [assumption|]. apply filter_In. split; [assumption | now apply (mem_In str_eqb str_spec)].
Qed.

(* ---- the theorem ---- *)
Theorem range_contiguous_balanced : forall ms ts p,
  wf_members ms -> (forall mm, In mm ms -> NoDup (m_topics mm)) -> wf_topics ts ->
  len (concat (map m_topics ms)) < 2 ^ 24 -> (forall t ps, In (t, ps) ts -> len ps < 2 ^ 24) ->
  range_plan ms ts = Some p ->
  forall topic mids, In (topic, mids) (build_mbt [] ms) ->
    let sorted := sort_by_hash topic mids in
    let parts := topic_partitions ts topic in
    let n := len parts in
    let m := len sorted in
    (forall x, In x sorted <-> subscribes ms x topic) /\ NoDup sorted /\ hash_sorted topic sorted /\
    cut n m 0 = 0 /\ cut n m (length sorted) = n /\
    forall i mid, nth_error sorted i = Some mid ->
      plan_get p mid topic = range_share parts m i /\ fair_size n m (len (range_share parts m i)).
Proof.
  intros ms ts p Wm Hn Wt Hsz Hpz E topic mids Hin sorted parts n m.
  destruct (mbt_entry_spec ms topic mids Wm Hn Hin) as [Nm Sm].
  destruct (build_mbt_ok ms ms [] (fun _ H => H)) as [Nk _]; [constructor | intros ? ? [] |]. simpl in Nk.
  pose proof (mbt_sizes ms topic mids Hin) as [Z1 Z2].
  assert (Hm : 1 <= m < 2 ^ 24) by (unfold m, sorted, sort_by_hash, len; rewrite sort_length; fold (len mids); lia).
  assert (Hnn : 0 <= n < 2 ^ 24).
  { split; [apply len_nonneg|]. unfold n, parts, topic_partitions. destruct (aget str_eqb topic ts) as [ps|] eqn:Eg.
    - apply (Hpz topic). now apply (aget_In str_eqb str_spec).
    - unfold len. simpl. lia. }
  assert (Hml : Z.to_nat m = length sorted) by (unfold m, len; now rewrite Nat2Z.id).
  split; [intro x; unfold sorted, sort_by_hash; rewrite sort_In; apply Sm|].
  split; [unfold sorted, sort_by_hash; now apply sort_NoDup|].
  split; [apply hash_sorted_sort|].
  split; [rewrite cut_bnd by lia; apply range_bnd_zero; lia|].
  split. { rewrite cut_bnd by lia. rewrite <- Hml, Z2Nat.id by lia. apply range_bnd_last; lia. }
  intros i mid Hi.
  assert (Hil : (i < length sorted)%nat) by (apply nth_error_Some; congruence).
  unfold range_plan in E.
  destruct (range_topics_get ts (build_mbt [] ms) [] p E Nk) as [G _].
  { intros t m' H. now apply (mbt_entry_spec ms t m' Wm Hn H). }
  specialize (G topic mids Hin i mid Hi). fold sorted parts n m in G.
  unfold plan_get at 2 in G. simpl in G.
  assert (B1 : range_bnd (range_step n m) (Z.of_nat i) <= range_bnd (range_step n m) (Z.of_nat i + 1)) by (apply range_bnd_mono; lia).
  assert (D := range_bnd_diff n m (Z.of_nat i) Hnn Hm ltac:(lia)).
  assert (B0 : 0 <= range_bnd (range_step n m) (Z.of_nat i)).
  { rewrite <- (range_bnd_zero n m) by lia. apply range_bnd_mono; lia. }
  assert (B2 : range_bnd (range_step n m) (Z.of_nat i + 1) <= n).
  { rewrite <- (range_bnd_last n m) at 2 by lia. apply range_bnd_mono; lia. }
  assert (ES : slice_at (range_step n m) parts (Z.of_nat i) = range_share parts m i).
  { unfold slice_at, range_share. fold n. rewrite !cut_bnd by lia. rewrite Nat2Z.inj_succ. unfold Z.succ.
    f_equal. lia. }
  rewrite ES in G. split; [exact G|].
  unfold fair_size. unfold range_share. fold n. rewrite !cut_bnd by lia. rewrite Nat2Z.inj_succ. unfold Z.succ.
  unfold len. rewrite firstn_length, skipn_length. fold (len parts). fold n.
  assert (Hlen : Z.of_nat (length parts) = n) by reflexivity.
  rewrite Nat2Z.inj_min, Nat2Z.inj_sub by lia. rewrite Nat2Z.inj_sub by lia. rewrite !Z2Nat.id by lia. rewrite Hlen. lia.
Qed.
