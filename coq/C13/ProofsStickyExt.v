(* C13 — sticky: Plan depends on a member's user data only through its claims; in particular the generation of a member that
   claims nothing (a new member: nil user data decodes to no partitions at generation 0) is irrelevant. *)
From Coq Require Import List ZArith Bool Lia.
From SV Require Import C08.Common C08.RoundRobin C08.Sticky C08.Valid C08.ProofsBase C13.Model.
Import ListNotations.
Open Scope Z_scope.

Definition ud_equiv (a b : userdata) : Prop :=
  a = b \/ exists g1 g2, a = UD [] g1 /\ b = UD [] g2.
Definition member_equiv (a b : member) : Prop := m_id a = m_id b /\ m_topics a = m_topics b /\ ud_equiv (m_ud a) (m_ud b).

Lemma find_member_equiv : forall ms1 ms2, Forall2 member_equiv ms1 ms2 -> forall id,
  match find_member ms1 id, find_member ms2 id with
  | Some a, Some b => member_equiv a b
  | None, None => True
  | _, _ => False
  end.
Proof.
  intros ms1 ms2 H. induction H as [|a b l1 l2 Hab Hl IH]; intro id; cbn [find_member]; [exact I|].
  destruct Hab as [E1 [E2 E3]]. rewrite <- E1. destruct (str_eqb id (m_id a)); [now repeat split | apply IH].
Qed.

Lemma prepop_members_equiv : forall ms1 ms2, Forall2 member_equiv ms1 ms2 -> forall ids sp,
  prepop_members ms1 ids sp = prepop_members ms2 ids sp.
Proof.
  intros ms1 ms2 H. induction ids as [|id r IH]; intro sp; cbn [prepop_members]; [reflexivity|].
  pose proof (find_member_equiv ms1 ms2 H id) as F.
  destruct (find_member ms1 id) as [a|], (find_member ms2 id) as [b|]; try contradiction; [|apply IH].
  destruct F as [_ [_ [E|[g1 [g2 [E1 E2]]]]]]; [rewrite E; destruct (m_ud b); [reflexivity | apply IH] | rewrite E1, E2; simpl; apply IH].
Qed.

Lemma map_id_equiv : forall ms1 ms2, Forall2 member_equiv ms1 ms2 -> map m_id ms1 = map m_id ms2.
Proof. intros ms1 ms2 H. induction H as [|a b l1 l2 [E _] _ IH]; [reflexivity|]. simpl. now rewrite E, IH. Qed.

Lemma pot_members_equiv : forall ts ms1 ms2, Forall2 member_equiv ms1 ms2 -> forall c2p p2c ca,
  pot_members ts ms1 c2p p2c ca = pot_members ts ms2 c2p p2c ca.
Proof.
  intros ts ms1 ms2 H. induction H as [|a b l1 l2 [E1 [E2 _]] _ IH]; intros c2p p2c ca; cbn [pot_members]; [reflexivity|].
  rewrite E1, E2. destruct (pot_topics ts (aset str_eqb (m_id b) [] c2p) p2c (m_id b) (m_topics b)) as [c1 p1]. apply IH.
Qed.

Lemma topics_of_equiv : forall ms1 ms2, Forall2 member_equiv ms1 ms2 -> forall id, topics_of ms1 id = topics_of ms2 id.
Proof.
  intros ms1 ms2 H id. unfold topics_of. pose proof (find_member_equiv ms1 ms2 H id) as F.
  destruct (find_member ms1 id), (find_member ms2 id); try contradiction; [apply F | reflexivity].
Qed.

Lemma keep_parts_equiv : forall ms1 ms2, (forall id, topics_of ms1 id = topics_of ms2 id) ->
  forall p2c mid parts keep cpc unv una, keep_parts ms1 p2c mid parts keep cpc unv una = keep_parts ms2 p2c mid parts keep cpc unv una.
Proof.
  intros ms1 ms2 H p2c mid. induction parts as [|x r IH]; intros keep cpc unv una; cbn [keep_parts]; [reflexivity|].
  destruct (aget tp_eqb x p2c); [|apply IH]. rewrite (H mid). destruct (mem str_eqb (fst x) (topics_of ms2 mid)); apply IH.
Qed.

Lemma keep_members_equiv : forall ms1 ms2, (forall id, topics_of ms1 id = topics_of ms2 id) ->
  forall p2c ids s, keep_members ms1 p2c ids s = keep_members ms2 p2c ids s.
Proof.
  intros ms1 ms2 H p2c. induction ids as [|id r IH]; intro s; cbn [keep_members]; [reflexivity|].
  rewrite (keep_parts_equiv ms1 ms2 H). destruct (keep_parts ms2 p2c id (ca_get (k_ca s) id) [] (k_cpc s) (k_unvisited s) (k_unassigned s)) as [[[a b] c] d].
  apply IH.
Qed.

Theorem sticky_plan_equiv : forall fuel fx o ms1 ms2 ts, Forall2 member_equiv ms1 ms2 ->
  sticky_plan fuel fx o ms1 ts = sticky_plan fuel fx o ms2 ts.
Proof.
  intros fuel fx o ms1 ms2 ts H.
  assert (E : sticky_prepare o ms1 ts = sticky_prepare o ms2 ts).
  { unfold sticky_prepare, prepopulate. rewrite (map_id_equiv ms1 ms2 H). rewrite (prepop_members_equiv ms1 ms2 H).
    destruct (prepop_members ms2 _ []) as [sp|]; [|reflexivity].
    destruct (prepop_assign sp _ [] []) as [ca0 prev]. rewrite (pot_members_equiv ts ms1 ms2 H).
    destruct (pot_members ts ms2 [] (p2c_init (all_tps ts)) ca0) as [[c2p p2c] ca1].
    now rewrite (keep_members_equiv ms1 ms2 (topics_of_equiv ms1 ms2 H)). }
  unfold sticky_plan, sticky_plan_full. now rewrite E.
Qed.
