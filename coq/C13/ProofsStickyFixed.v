(* C13 — sticky: re-planning a balanced plan with unchanged members, subscriptions and partitions, every member
   reporting that plan as its user data (one generation), returns the same plan (as member -> set of partitions). *)
From Coq Require Import List ZArith Bool Lia Permutation.
From SV Require Import C08.Common C08.RoundRobin C08.Sticky C08.Valid C08.ProofsBase C08.ProofsStickyBase
  C08.ProofsStickyEnv C08.ProofsStickyKeep C08.ProofsStickyMove C08.ProofsStickySort C08.ProofsSticky
  C13.Model C13.ProofsRange C13.ProofsRR C13.ProofsStickyBalanced.
Import ListNotations.
Open Scope Z_scope.

(* ---- what a member holds ---- *)
Lemma holds_In : forall p m t q, In (t, q) (holds p m) <-> In (m, t, q) (triples p).
Proof.
  intros p m t q. unfold holds. rewrite in_map_iff. split.
  - intros [[[m' t'] q'] [E H]]. simpl in E. injection E as -> ->. apply filter_In in H as [H1 H2].
    unfold of_member in H2. simpl in H2. apply str_eqb_eq in H2. now subst.
  - intro H. exists (m, t, q). split; [reflexivity|]. apply filter_In. split; [assumption|]. unfold of_member. simpl. apply str_eqb_refl.
Qed.

Lemma holds_unique : forall p m m' x, NoDup (assigned p) -> In x (holds p m) -> In x (holds p m') -> m = m'.
Proof.
  intros p m m' [t q] N H1 H2. apply holds_In in H1. apply holds_In in H2.
  destruct (eq_dec_of str_eqb str_spec m m') as [E|E]; [assumption|]. exfalso.
  unfold assigned in N. revert N H1 H2. generalize (triples p). intros l N H1 H2.
  apply in_split in H1 as [l1 [l2 ->]]. rewrite map_app in N. simpl in N. apply NoDup_remove_2 in N. apply N.
  apply in_app_or in H2 as [H2|[H2|H2]].
  - apply in_or_app. left. apply in_map_iff. now exists (m', t, q).
  - injection H2 as ->. congruence.
  - apply in_or_app. right. apply in_map_iff. now exists (m', t, q).
Qed.

(* ---- the reporting group ---- *)
Lemma report_ids : forall p g ms, map m_id (map (report p g) ms) = map m_id ms.
Proof. intros. rewrite map_map. reflexivity. Qed.
Lemma find_member_report : forall p g ms id,
  find_member (map (report p g) ms) id = option_map (report p g) (find_member ms id).
Proof.
  intros p g. induction ms as [|m ms IH]; intro id; [reflexivity|]. cbn [map find_member report m_id].
  destruct (str_eqb id (m_id m)); [reflexivity | apply IH].
Qed.
Lemma subscribes_report : forall p g ms m t, subscribes (map (report p g) ms) m t <-> subscribes ms m t.
Proof.
  intros p g ms m t. unfold subscribes. split.
  - intros [mm [H1 [H2 H3]]]. apply in_map_iff in H1 as [m0 [<- H1]]. exists m0. auto.
  - intros [mm [H1 [H2 H3]]]. exists (report p g mm). split; [apply in_map_iff; now exists mm | now split].
Qed.
Lemma topics_of_report : forall p g ms m, topics_of (map (report p g) ms) m = topics_of ms m.
Proof. intros. unfold topics_of. rewrite find_member_report. now destruct (find_member ms m). Qed.
Lemma topics_of_complete : forall ms m t, wf_members ms -> subscribes ms m t -> In t (topics_of ms m).
Proof.
  intros ms m t W [mm [H1 [H2 H3]]]. unfold topics_of. subst m.
  induction ms as [|x ms IH]; [contradiction|]. cbn [find_member]. unfold wf_members in W. simpl in W. inversion W as [|? ? Hx Wr]; subst.
  destruct H1 as [->|H1]; [now rewrite str_eqb_refl|].
  destruct (str_eqb (m_id mm) (m_id x)) eqn:E; [|now apply IH].
  apply str_eqb_eq in E. exfalso. apply Hx. rewrite <- E. apply in_map_iff. now exists mm.
Qed.

(* ---- prepopulate keeps every uncontested claim ---- *)
Section Prepop.
  Variable p : plan.
  Variable g : Z.
  Hypothesis Honce : NoDup (assigned p).

  (* every consumer recorded for a partition holds it in p, and there is at least one *)
  Definition sp_true (sp : sp_t) : Prop :=
    forall x cs, In (x, cs) sp -> cs <> [] /\ forall g' c, In (g', c) cs -> In x (holds p c).

  Lemma prepop_part_true : forall mid sp x, sp_true sp -> In x (holds p mid) ->
    sp_true (prepop_part mid (Some g) sp x) /\ In x (akeys (prepop_part mid (Some g) sp x)) /\
    (forall y, In y (akeys sp) -> In y (akeys (prepop_part mid (Some g) sp x))).
  Proof.
    intros mid sp x S Hx. unfold prepop_part.
    assert (A : forall cs', cs' <> [] -> (forall g' c, In (g', c) cs' -> In x (holds p c)) -> sp_true (aset tp_eqb x cs' sp)).
    { intros cs' H1 H2 y cs H. apply (aset_In tp_eqb tp_spec) in H as [[-> ->]|H]; [now split | now apply S]. }
    destruct (aget tp_eqb x sp) as [cs|] eqn:E.
    - pose proof (aget_In tp_eqb tp_spec _ _ _ E) as Hin. destruct (S x cs Hin) as [S1 S2].
      assert (Hk : In x (akeys sp)) by (eapply (aget_Some_key tp_eqb tp_spec); eassumption).
      destruct (mem Z.eqb g (akeys cs)).
      + split; [assumption|]. split; [assumption | auto].
      + split; [|split].
        * apply A.
          -- intro H0. assert (H : In (g, mid) (aset Z.eqb g mid cs)) by (apply (aget_In Z.eqb Z_spec); apply (aget_aset_same Z.eqb Z_spec)). now rewrite H0 in H.
          -- intros g' c H. apply (aset_In Z.eqb Z_spec) in H as [[-> ->]|H]; [assumption | now apply (S2 g' c)].
        * apply (aset_keys_iff tp_eqb tp_spec). now left.
        * intros y Hy. apply (aset_keys_iff tp_eqb tp_spec). now right.
    - split; [|split].
      + apply A; [discriminate|]. intros g' c [H|[]]. now injection H as _ <-.
      + apply (aset_keys_iff tp_eqb tp_spec). now left.
      + intros y Hy. apply (aset_keys_iff tp_eqb tp_spec). now right.
  Qed.

  Lemma fold_prepop_true : forall mid parts sp, sp_true sp -> (forall x, In x parts -> In x (holds p mid)) ->
    sp_true (fold_left (prepop_part mid (Some g)) parts sp) /\
    (forall y, In y (akeys sp) \/ In y parts -> In y (akeys (fold_left (prepop_part mid (Some g)) parts sp))).
  Proof.
    intros mid. induction parts as [|x r IH]; intros sp S H; simpl.
    - split; [assumption|]. intros y [Hy|[]]. assumption.
    - destruct (prepop_part_true mid sp x S (H x (or_introl eq_refl))) as [A [B C]].
      destruct (IH _ A (fun y Hy => H y (or_intror Hy))) as [D E]. split; [assumption|].
      intros y [Hy|[<-|Hy]]; apply E; auto.
  Qed.

  Lemma prepop_members_true : forall ms ids sp, sp_true sp ->
    exists sp', prepop_members (map (report p g) ms) ids sp = Some sp' /\ sp_true sp' /\
      (forall y, In y (akeys sp) -> In y (akeys sp')) /\
      (forall id y, In id ids -> In id (map m_id ms) -> In y (holds p id) -> In y (akeys sp')).
  Proof.
    intros ms. induction ids as [|id r IH]; intros sp S; cbn [prepop_members].
    - exists sp. split; [reflexivity|]. split; [assumption|]. split; [auto | intros ? ? []].
    - rewrite find_member_report. destruct (find_member ms id) as [mm|] eqn:Ef; cbn [option_map].
      + apply find_member_spec in Ef as [F1 F2]. cbn [report m_ud]. rewrite F2.
        destruct (fold_prepop_true id (holds p id) sp S (fun x H => H)) as [A B].
        destruct (IH _ A) as [sp' [E [S' [M K]]]]. exists sp'. split; [exact E|]. split; [exact S'|]. split.
        * intros y Hy. apply M. apply B. now left.
        * intros id' y [<-|Hi] Hm Hy; [apply M; apply B; now right | now apply (K id' y)].
      + destruct (IH sp S) as [sp' [E [S' [M K]]]]. exists sp'. split; [exact E|]. split; [exact S'|]. split; [exact M|].
        intros id' y [<-|Hi] Hm Hy; [|now apply (K id' y)].
        exfalso. apply in_map_iff in Hm as [mm [E1 E2]]. subst id. clear - Ef E2.
        induction ms as [|x ms IHm]; [contradiction|]. cbn [find_member] in Ef. destruct (str_eqb (m_id mm) (m_id x)) eqn:E; [discriminate|].
        destruct E2 as [->|E2]; [now rewrite str_eqb_refl in E | now apply IHm].
  Qed.

  Lemma prepop_assign_mono : forall sp keys ca prev ca' prev', prepop_assign sp keys ca prev = (ca', prev') ->
    forall m y, In y (ca_get ca m) -> In y (ca_get ca' m).
  Proof.
    intros sp. induction keys as [|x r IH]; intros ca prev ca' prev' E m y H; cbn [prepop_assign] in E.
    - now injection E as <- _.
    - destruct (sort gen_greater match aget tp_eqb x sp with Some cs => cs | None => [] end) as [|[g0 c] rest]; [eapply IH; eauto|].
      assert (H' : In y (ca_get (aset str_eqb c (ca_get ca c ++ [x]) ca) m)).
      { destruct (eq_dec_of str_eqb str_spec m c) as [->|N]; [rewrite ca_get_aset_same; apply in_or_app; now left | now rewrite ca_get_aset_other]. }
      destruct rest as [|[g1 c1] rest']; eapply IH; eauto.
  Qed.

  Lemma prepop_assign_keeps : forall sp, sp_true sp -> forall keys ca prev ca' prev',
    prepop_assign sp keys ca prev = (ca', prev') -> (forall x, In x keys -> In x (akeys sp)) ->
    forall x m, In x keys -> In x (holds p m) -> In x (ca_get ca' m).
  Proof.
    intros sp S. induction keys as [|x r IH]; intros ca prev ca' prev' E Hk y m Hy Hm; [contradiction|].
    cbn [prepop_assign] in E.
    destruct (key_aget tp_eqb tp_spec x sp (Hk x (or_introl eq_refl))) as [cs Ecs]. rewrite Ecs in E.
    destruct (S x cs (aget_In tp_eqb tp_spec _ _ _ Ecs)) as [S1 S2].
    destruct (sort gen_greater cs) as [|[g0 c] rest] eqn:Es.
    - exfalso. apply S1. destruct cs as [|c0 cs']; [reflexivity|].
      assert (H : In c0 (sort gen_greater (c0 :: cs'))) by (apply sort_In; now left). now rewrite Es in H.
    - assert (Hc : In x (holds p c)).
      { apply (S2 g0 c). apply (sort_In gen_greater cs). rewrite Es. now left. }
      destruct Hy as [<-|Hy].
      + assert (c = m) by (eapply holds_unique; eauto). subst c.
        assert (H' : In x (ca_get (aset str_eqb m (ca_get ca m ++ [x]) ca) m)) by (rewrite ca_get_aset_same; apply in_or_app; right; now left).
        destruct rest as [|[g1 c1] rest']; eapply prepop_assign_mono; eauto.
      + destruct rest as [|[g1 c1] rest']; eapply IH; eauto; intros z Hz; apply Hk; now right.
  Qed.
End Prepop.

(* ---- the later phases never take a partition away from a member that may keep it ---- *)
Lemma keep_parts_keeps : forall ms (p2c : p2c_t) mid parts keep cpc unv una keep' cpc' unv' una',
  keep_parts ms p2c mid parts keep cpc unv una = (keep', cpc', unv', una') ->
  forall q, In q keep \/ (In q parts /\ In q (akeys p2c) /\ In (fst q) (topics_of ms mid)) -> In q keep'.
Proof.
  intros ms p2c mid. induction parts as [|x r IH]; intros keep cpc unv una keep' cpc' unv' una' E q H; cbn [keep_parts] in E.
  - injection E as <- _ _ _. destruct H as [H|[[] _]]. assumption.
  - destruct (aget tp_eqb x p2c) as [v|] eqn:Eg.
    + destruct (mem str_eqb (fst x) (topics_of ms mid)) eqn:Em.
      * eapply IH; [exact E|]. destruct H as [H|[[<-|H1] [H2 H3]]]; [left; apply in_or_app; now left | left; apply in_or_app; right; now left | right; auto].
      * eapply IH; [exact E|]. destruct H as [H|[[<-|H1] [H2 H3]]]; [now left | | right; auto].
        apply (mem_In str_eqb str_spec) in H3. congruence.
    + eapply IH; [exact E|]. destruct H as [H|[[<-|H1] [H2 H3]]]; [now left | | right; auto].
      apply (aget_None tp_eqb tp_spec) in Eg. contradiction.
Qed.

Lemma keep_members_other : forall ms p2c ids s m, ~ In m ids -> ca_get (k_ca (keep_members ms p2c ids s)) m = ca_get (k_ca s) m.
Proof.
  intros ms p2c. induction ids as [|id r IH]; intros s m H; cbn [keep_members]; [reflexivity|].
  destruct (keep_parts ms p2c id (ca_get (k_ca s) id) [] (k_cpc s) (k_unvisited s) (k_unassigned s)) as [[[keep cpc] unv] una].
  rewrite IH by (intro Hr; apply H; now right). cbn [k_ca]. apply ca_get_aset_other. intros ->. apply H. now left.
Qed.

Lemma keep_members_keeps : forall ms p2c ids s m q, NoDup ids -> In m ids ->
  In q (ca_get (k_ca s) m) -> In q (akeys p2c) -> In (fst q) (topics_of ms m) ->
  In q (ca_get (k_ca (keep_members ms p2c ids s)) m).
Proof.
  intros ms p2c. induction ids as [|id r IH]; intros s m q N Hm Hq Hk Ht; [contradiction|]. cbn [keep_members].
  inversion N as [|? ? Hid Nr]; subst.
  destruct (keep_parts ms p2c id (ca_get (k_ca s) id) [] (k_cpc s) (k_unvisited s) (k_unassigned s)) as [[[keep cpc] unv] una] eqn:E.
  destruct (eq_dec_of str_eqb str_spec m id) as [->|Nm].
  - rewrite keep_members_other by assumption. cbn [k_ca]. rewrite ca_get_aset_same.
    eapply keep_parts_keeps; [exact E|]. right. auto.
  - destruct Hm as [Hm|Hm]; [congruence|]. apply IH; auto. cbn [k_ca]. now rewrite ca_get_aset_other.
Qed.

Lemma assign_all_mono : forall c2p p2c una ca cpc sorted ca' cpc' sorted',
  assign_all c2p p2c una ca cpc sorted = (ca', cpc', sorted') -> forall m q, In q (ca_get ca m) -> In q (ca_get ca' m).
Proof.
  intros c2p p2c. induction una as [|x r IH]; intros ca cpc sorted ca' cpc' sorted' E m q H; cbn [assign_all] in E.
  - now injection E as <- _ _.
  - destruct (p2c_get p2c x); [eapply IH; eauto|]. unfold assign_partition in E.
    destruct (first_potential c2p x sorted) as [m0|]; [|eapply IH; eauto].
    eapply IH; [exact E|]. destruct (eq_dec_of str_eqb str_spec m m0) as [->|N].
    + rewrite ca_get_aset_same. apply in_or_app. now left.
    + now rewrite ca_get_aset_other.
Qed.

Lemma split_fixed_keeps : forall c2p p2c ids ca fixed ca' fixed', split_fixed c2p p2c ids ca fixed = (ca', fixed') ->
  NoDup ids -> (forall x, In x ids -> ~ In x (akeys fixed)) ->
  forall m q, In q (ca_get ca m) \/ In q (ca_get fixed m) -> In q (ca_get ca' m) \/ In q (ca_get fixed' m).
Proof.
  intros c2p p2c. induction ids as [|id r IH]; intros ca fixed ca' fixed' E N Hf m q H; cbn [split_fixed] in E.
  - now injection E as <- <-.
  - inversion N as [|? ? Hid Nr]; subst.
    destruct (member_can_participate ca c2p p2c id).
    + eapply IH; eauto. intros x Hx. apply Hf. now right.
    + eapply IH; [exact E | exact Nr | |].
      * intros x Hx Hx2. apply (aset_keys_iff str_eqb str_spec) in Hx2 as [->|Hx2]; [contradiction | apply (Hf x); [now right | assumption]].
      * destruct (eq_dec_of str_eqb str_spec m id) as [->|Nm].
        -- right. rewrite ca_get_aset_same. destruct H as [H|H]; [assumption|].
           rewrite ca_get_notin in H by (apply Hf; now left). contradiction.
        -- rewrite ca_get_adel_other, ca_get_aset_other by assumption. exact H.
Qed.

(* ---- a pass over a state where nobody is two ahead of a potential consumer changes nothing ---- *)
Lemma pass_no_move : forall prev c2p p2c parts s,
  (forall x, In x parts -> forall oc, In oc (p2c_get p2c x) -> ~ (len (ca_get (s_ca s) oc) + 1 < len (ca_get (s_ca s) (cpc_get (s_cpc s) x)))) ->
  exists e, reassign_pass true prev c2p p2c parts s false = (s, false, e).
Proof.
  intros prev c2p p2c. induction parts as [|x r IH]; intros s H; cbn [reassign_pass]; [now exists PassDone|].
  destruct (is_balanced (s_ca s) c2p) as [[|]|]; [now exists PassDone | | now exists PassPanic].
  cbn [negb orb].
  assert (V : match aget tp_eqb x prev with
              | Some (pm, _) => if mem str_eqb pm (p2c_get p2c x) && (len (ca_get (s_ca s) pm) + 1 <? len (ca_get (s_ca s) (cpc_get (s_cpc s) x))) then Some pm else None
              | None => None end = None).
  { destruct (aget tp_eqb x prev) as [[pm g0]|]; [|reflexivity].
    destruct (mem str_eqb pm (p2c_get p2c x) && (len (ca_get (s_ca s) pm) + 1 <? len (ca_get (s_ca s) (cpc_get (s_cpc s) x)))) eqn:Ec; [|reflexivity].
    apply andb_true_iff in Ec as [C1 C2]. apply (mem_In str_eqb str_spec) in C1. apply Z.ltb_lt in C2. exfalso. eapply H; [now left | exact C1 | exact C2]. }
  rewrite V.
  assert (X : existsb (fun oc => len (ca_get (s_ca s) oc) + 1 <? len (ca_get (s_ca s) (cpc_get (s_cpc s) x))) (p2c_get p2c x) = false).
  { destruct (existsb _ (p2c_get p2c x)) eqn:Ex; [|reflexivity]. apply existsb_exists in Ex as [oc [O1 O2]]. apply Z.ltb_lt in O2. exfalso. eapply H; [now left | exact O1 | exact O2]. }
  rewrite X. apply IH. intros y Hy. apply H. now right.
Qed.

Lemma triples_key : forall p m t q, In (m, t, q) (triples p) -> In m (map fst p).
Proof.
  induction p as [|[m' tl] p IH]; intros m t q H; [contradiction|]. cbn [triples] in H. apply in_app_or in H as [H|H].
  - left. simpl. clear - H. induction tl as [|[t' ps] tl IHt]; [contradiction|]. cbn [inner_triples] in H. apply in_app_or in H as [H|H]; [|now apply IHt].
    apply in_map_iff in H as [q' [E _]]. now injection E.
  - right. eapply IH; eassumption.
Qed.

Lemma holds_NoDup : forall p m, NoDup (assigned p) -> NoDup (holds p m).
Proof. intros p m H. unfold holds. apply C13.ProofsRange.NoDup_map_filter. exact H. Qed.

(* ---- the preparation phase is sticky: whatever happened to the group, a member that reports a partition (one generation,
   nobody else reporting it), still subscribes to its topic, and whose partition still exists, has it when
   performReassignments starts (in the working map or set aside as fixed) ---- *)
Lemma preparation_keeps : forall o ms ts p g pr,
  wf_members ms -> wf_topics ts -> NoDup (assigned p) ->
  sticky_prepare o (map (report p g) ms) ts = Some pr ->
  forall m x, In m (map m_id ms) -> In x (holds p m) -> pot ms ts m x ->
    In x (ca_get (s_ca (pr_s0 pr)) m) \/ In x (ca_get (pr_fixed pr) m).
Proof.
  intros o ms ts p g pr Wm Wt V5 Ep m x Hm Hx Hp.
  set (ms' := map (report p g) ms) in *.
  assert (Wm' : wf_members ms') by (unfold wf_members, ms'; now rewrite report_ids).
  assert (Hids : map m_id ms' = map m_id ms) by apply report_ids.
    unfold sticky_prepare in Ep.
    destruct (prepopulate o ms') as [[ca0 prev]|] eqn:Epre; [|discriminate].
    destruct (prepopulate_ok ms' Wm' o ca0 prev Epre) as [P1 [P2 P3]].
    destruct (pot_members ts ms' [] (p2c_init (all_tps ts)) ca0) as [[c2p p2c] ca1] eqn:Epot.
    destruct (pot_members_facts ms' ts Wm' Wt ca0 c2p p2c ca1 P1 Epot) as [F1 [F2 [F3 [F4 [F5 [F6 [F7 F8]]]]]]].
    injection Ep as Ep.
    (* prepopulate *)
    assert (H0 : In x (ca_get ca0 m)).
    { unfold prepopulate in Epre.
      destruct (prepop_members_true p g ms (order_by str_eqb (o_prepop_members o) (map m_id ms')) []) as [sp [E1 [S1 [_ K1]]]]; [intros ? ? []|].
      fold ms' in E1. rewrite E1 in Epre. injection Epre as Epre.
      assert (Nsp : NoDup (akeys sp)).
      { eapply (prepop_members_ok ms' _ [] sp); [| |exact E1].
        - intros y Hy. now apply (order_by_spec str_eqb str_spec (o_prepop_members o) (map m_id ms') Wm') in Hy.
        - split; [constructor | intros ? ? ? ? []]. }
      destruct (order_by_spec tp_eqb tp_spec (o_prepop_parts o) (akeys sp) Nsp) as [O1 O2].
      eapply (prepop_assign_keeps p V5 sp S1 _ [] [] ca0 prev Epre).
      - intros y Hy. now apply O2.
      - apply O2. apply (K1 m x); [|assumption|assumption].
        apply (order_by_spec str_eqb str_spec (o_prepop_members o) (map m_id ms') Wm'). now rewrite Hids.
      - assumption. }
    (* keep *)
    rewrite <- F8 in H0.
    assert (Hm1 : In m (akeys ca1)) by (apply F6; right; now rewrite Hids).
    destruct (order_by_spec str_eqb str_spec (o_plan_current o) (akeys ca1) F5) as [O1 O2].
    set (k := keep_members ms' p2c (order_by str_eqb (o_plan_current o) (akeys ca1))
                {| k_ca := ca1; k_cpc := []; k_unvisited := akeys p2c; k_unassigned := [] |}) in *.
    assert (H1 : In x (ca_get (k_ca k) m)).
    { unfold k. apply keep_members_keeps; cbn [k_ca]; auto.
      - now apply O2.
      - rewrite F2. apply Hp.
      - unfold ms'. rewrite topics_of_report. apply topics_of_complete; [assumption | apply Hp]. }
    (* assign, split *)
    unfold balance_prepare in Ep.
    destruct (assign_all c2p p2c _ (k_ca k) (k_cpc k) (sort_members (k_ca k))) as [[ca1' cpc1] sorted1] eqn:Eas.
    pose proof (assign_all_mono _ _ _ _ _ _ _ _ _ Eas m x H1) as H2.
    destruct (split_fixed c2p p2c (akeys c2p) ca1' []) as [ca2 fixed] eqn:Esp.
    pose proof (split_fixed_keeps _ _ _ _ _ _ _ Esp) as H3. rewrite F1 in H3.
    specialize (H3 Wm' (fun y _ H => H) m x (or_introl H2)).
    subst pr. cbn [pr_s0 pr_fixed s_ca]. exact H3.
Qed.

(* ---- the theorem ---- *)
Theorem sticky_fixed_point : forall fuel o ms ts p g,
  wf_members ms -> wf_topics ts -> valid_plan ms ts p -> kafka_balanced ms p ->
  exists p', sticky_plan (S fuel) true o (map (report p g) ms) ts = SOk p' /\ same_owners p p'.
Proof.
  intros fuel o ms ts p g Wm Wt V KB.
  destruct V as [V1 V2 V3 V4 V5 V6].
  set (ms' := map (report p g) ms).
  assert (Wm' : wf_members ms') by (unfold wf_members, ms'; now rewrite report_ids).
  assert (Hids : map m_id ms' = map m_id ms) by apply report_ids.
  assert (Hpot : forall m q, pot ms' ts m q <-> pot ms ts m q).
  { intros m q. unfold pot, ms'. now rewrite subscribes_report. }
  (* facts about p *)
  assert (Hmem : forall m x, In x (holds p m) -> In m (map m_id ms) /\ pot ms ts m x).
  { intros m [t q] H. apply holds_In in H. split; [apply V3; eapply triples_key; eassumption|].
    destruct (V4 m t q H) as [A B]. split; [apply all_tps_In; exact B | exact A]. }
  pose proof (sticky_valid (S fuel) o ms' ts Wm' Wt) as SV. unfold sticky_plan. unfold sticky_plan_full in *.
  destruct (sticky_prepare o ms' ts) as [pr|] eqn:Ep.
  2:{ exfalso. cbn [p_res] in SV. destruct SV as [mm [H1 H2]]. unfold ms' in H1. apply in_map_iff in H1 as [m0 [<- _]]. discriminate. }
  pose proof (sticky_prepare_ok o ms' ts pr Wm' Wt Ep) as [C1 C2 NW NF DJ FP KY ID RI PA PALL _].
  set (W := akeys (s_ca (pr_s0 pr))) in *.
  assert (Stay : forall m x, In x (holds p m) -> In x (ca_get (s_ca (pr_s0 pr)) m) \/ In x (ca_get (pr_fixed pr) m)).
  { intros m x Hx. destruct (Hmem m x Hx) as [Hm Hp]. eapply (preparation_keeps o ms ts p g pr); eauto. }
  (* and nothing else is there *)
  assert (NKs : NoDup (akeys (s_ca (pr_s0 pr)))) by exact NW.
  pose proof (ri_lists ms' ts W (pr_fixed pr) (pr_s0 pr) RI) as NLL.
  assert (Back : forall m x, In x (ca_get (s_ca (pr_s0 pr)) m) \/ In x (ca_get (pr_fixed pr) m) -> In x (holds p m)).
  { intros m [t q] H.
    assert (Hp : pot ms ts m (t, q)).
    { apply Hpot. destruct H as [H|H]; [now apply (ri_sound ms' ts W (pr_fixed pr) (pr_s0 pr) RI m) | now apply (ri_sound_fx ms' ts W (pr_fixed pr) (pr_s0 pr) RI m)]. }
    assert (Ha : In (t, q) (assigned p)).
    { apply V6; [exact (proj1 (all_tps_In ts (t, q)) (proj1 Hp)) | exists m; exact (proj2 Hp)]. }
    unfold assigned in Ha. apply in_map_iff in Ha as [[[m' t'] q'] [E Ha]]. simpl in E. injection E as -> ->.
    apply holds_In in Ha. destruct (Stay m' (t, q) Ha) as [S1|S1].
    - destruct H as [H|H].
      + assert (m' = m) by (eapply (owner_unique (s_ca (pr_s0 pr)) (t, q)); eauto; now apply NoDup_app_inv in NLL). now subst.
      + exfalso. apply NoDup_app_inv in NLL as [_ [_ D]]. apply (D (t, q)); eapply ca_get_lists; eassumption.
    - destruct H as [H|H].
      + exfalso. apply NoDup_app_inv in NLL as [_ [_ D]]. apply (D (t, q)); eapply ca_get_lists; eassumption.
      + assert (m' = m) by (eapply (owner_unique (pr_fixed pr) (t, q)); eauto; now apply NoDup_app_inv in NLL). now subst. }
  (* sizes of the working members' lists are the totals of p *)
  assert (Size : forall m, In m W -> len (ca_get (s_ca (pr_s0 pr)) m) = total p m).
  { intros m Hm. unfold total, len. f_equal. apply Permutation_length. apply NoDup_Permutation.
    - pose proof (Permutation_NoDup (lists_split m (s_ca (pr_s0 pr)) NKs)) as H. apply NoDup_app_inv in NLL as [NL _]. specialize (H NL). now apply NoDup_app_inv in H.
    - now apply holds_NoDup.
    - intro x. split; [intro H; apply Back; now left|]. intro H. destruct (Stay m x H) as [S1|S1]; [assumption|].
      exfalso. apply (DJ m); [|exact Hm]. apply ca_get_nonempty_key. intro E0. now rewrite E0 in S1. }
  (* hence the first pass changes nothing *)
  destruct (pass_no_move (pr_prev pr) (pr_c2p pr) (pr_p2c pr) (pr_parts pr) (pr_s0 pr)) as [e Epass].
  { intros x Hx oc Hoc Hlt. apply C2 in Hoc.
    assert (Hxl : In x (lists (s_ca (pr_s0 pr)))).
    { eapply (owner_working ms' ts W (pr_fixed pr) NF DJ (pr_s0 pr) x oc); eauto. }
    destruct (lists_ca_get (s_ca (pr_s0 pr)) x NKs Hxl) as [m2 [M1 M2]].
    destruct (ri_sound ms' ts W (pr_fixed pr) (pr_s0 pr) RI m2 x M2) as [_ Ec]. rewrite Ec in Hlt.
    assert (HocW : In oc W) by (eapply (potential_working ms' ts (pr_p2c pr) W (pr_fixed pr) FP KY (pr_s0 pr) x oc); eauto).
    rewrite (Size oc HocW), (Size m2 M1) in Hlt.
    destruct x as [t q]. apply (KB oc m2 t q).
    - rewrite <- Hids. apply ID. now left.
    - apply holds_In. apply Back. now left.
    - exact Hlt.
    - apply Hpot in Hoc. apply Hoc. }
  unfold run_perform in *. cbn [perform] in *. rewrite Epass in *.
  destruct e.
  - cbn [sticky_finish balance_finish b_ca b_end p_res] in *. unfold sticky_finish, balance_finish. cbn [b_ca b_end b_reverted p_res].
    rewrite andb_false_r. cbn [andb].
    set (fin := add_back (pr_fixed pr) (s_ca (pr_s0 pr))).
    exists (assemble fin []). split; [reflexivity|].
    destruct (add_back_spec (pr_fixed pr) (s_ca (pr_s0 pr)) NF DJ NKs) as [B1 [B2 [B3 B4]]]. fold fin in B1, B2, B3, B4.
    destruct (assemble_spec fin [] wf_plan_nil B1) as [_ [P _]]; [intros m _ []|]. simpl in P.
    assert (G : forall m, ca_get fin m = if mem str_eqb m (akeys (pr_fixed pr)) then ca_get (pr_fixed pr) m else ca_get (s_ca (pr_s0 pr)) m).
    { intro m. unfold fin. now apply add_back_get. }
    intros m [t q]. rewrite (holds_In (assemble fin []) m t q). split.
    + intro H. apply (Permutation_in _ (Permutation_sym P)). apply asg_triples_In.
      assert (Hin : In (t, q) (ca_get fin m)).
      { rewrite G. destruct (mem str_eqb m (akeys (pr_fixed pr))) eqn:Em.
        - destruct (Stay m (t, q) H) as [S1|S1]; [|assumption]. exfalso. apply (mem_In str_eqb str_spec) in Em.
          apply (DJ m Em). apply ca_get_nonempty_key. intro E0. now rewrite E0 in S1.
        - destruct (Stay m (t, q) H) as [S1|S1]; [assumption|]. exfalso. apply (mem_false str_eqb str_spec) in Em. apply Em.
          apply ca_get_nonempty_key. intro E0. now rewrite E0 in S1. }
      destruct (ca_get_In_entry m fin (t, q) Hin) as [l [L1 L2]]. now exists l.
    + intro H. apply (Permutation_in _ P) in H. apply asg_triples_In in H as [l [L1 L2]].
      rewrite <- (entry_ca_get m l fin B1 L1) in L2. apply B4 in L2. now apply Back.
  - exfalso. unfold sticky_finish, balance_finish in SV. cbn [b_end p_res] in SV. exact SV.
Qed.

(* ---- full statements: leave (proved in ProofsStickyLeave.v), and the general no-pair-swap clause for an arbitrary change of
   the group, which is proved for an unchanged group, one leave and one join (ProofsStickyJoin2.v) and otherwise evaluated on every
   honest chain the check runs (monitor); [preparation_keeps] holds for any change ---- *)
Definition remaining (ms : list member) (leaver : str) : list member := filter (fun m => negb (str_eqb (m_id m) leaver)) ms.
Definition identical_subscriptions (ms : list member) : Prop :=
  forall m1 m2 t, In m1 ms -> In m2 ms -> (In t (m_topics m1) <-> In t (m_topics m2)).

(* when a member leaves, the others keep everything they had *)
Definition sticky_leave_keeps_statement : Prop :=
  forall fuel o ms ts p g leaver p', wf_members ms -> wf_topics ts -> identical_subscriptions ms ->
  valid_plan ms ts p -> kafka_balanced ms p ->
  sticky_plan fuel true o (map (report p g) (remaining ms leaver)) ts = SOk p' ->
  forall m x, m <> leaver -> In x (holds p m) -> In x (holds p' m).

(* partitions never swap owners pairwise within a topic, whatever changed in the group *)
Definition sticky_no_pair_swap_statement : Prop :=
  forall fuel o ms ts p g ms2 ts2 p', wf_members ms -> wf_topics ts -> valid_plan ms ts p -> kafka_balanced ms p ->
  wf_members ms2 -> wf_topics ts2 -> (forall m2, In m2 ms2 -> m_ud m2 = UD (holds p (m_id m2)) (Some g)) ->
  sticky_plan fuel true o ms2 ts2 = SOk p' -> pair_swapb p p' = false.

Lemma preparation_keeps_stated : forall o ms ts p g pr,
  wf_members ms -> wf_topics ts -> NoDup (assigned p) ->
  sticky_prepare o (map (report p g) ms) ts = Some pr ->
  forall m x, In m (map m_id ms) -> In x (holds p m) -> subscribes ms m (fst x) -> In x (all_tps ts) ->
    In x (ca_get (s_ca (pr_s0 pr)) m) \/ In x (ca_get (pr_fixed pr) m).
Proof. intros o ms ts p g pr Wm Wt N E m x Hm Hx Hs Ht. eapply preparation_keeps; eauto. now split. Qed.
