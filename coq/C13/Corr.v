(* C13 — correspondence: go/harness/cmd/c13corr runs the real strategies; besides the plan equality of C08's
   correspondence these tests evaluate the balance / stickiness notions of C13/Model.v on what the implementation
   returned (so that the notions the theorems speak about are the ones observed). *)
From Coq Require Import List ZArith Bool String.
From SV Require Import Base.Corr C08.Common C08.Range C08.RoundRobin C08.Sticky C08.Valid C08.Corr C13.Model.
Import ListNotations.
Open Scope Z_scope.

Definition clean_subscriptions (ms : list member) : bool :=
  nodupb str_eqb (map m_id ms) && forallb (fun m => nodupb str_eqb (m_topics m)) ms.

Definition ok13_range (c : rcase) : bool :=
  ok_range c &&
  (hash_collision (rc_members c) || negb (clean_subscriptions (rc_members c)) ||
   range_balancedb (rc_members c) (rc_topics c) (rc_plan c)).
Definition mismatches13_range := mismatches ok13_range.

Definition ok13_rr (c : rrcase) : bool :=
  ok_rr c &&
  match rr_obs c with
  | Some q => negb (all_subscribe_allb (rr_members c) (rr_topics c)) || totals_within_oneb (rr_members c) q
  | None => true
  end.
Definition mismatches13_rr := mismatches ok13_rr.

(* one step of an honest rebalance chain: the previous plan (if any), how the group changed (0 unchanged, 1 join, 2 leave,
   3 anything else), whether all subscriptions are identical, the members present before and after *)
Record s13case := { s13_cur : scase; s13_prev : option plan; s13_rel : Z; s13_ident : bool; s13_stay : list str }.
Definition ok13_sticky (c : s13case) : bool :=
  ok_sticky (s13_cur c) &&
  match sc_obs (s13_cur c) with
  | OPlan q =>
    kafka_balancedb (sc_members (s13_cur c)) q &&
    match s13_prev c with
    | Some p0 =>
      negb (pair_swapb p0 q) &&
      (negb (s13_rel c =? 0) || same_ownersb p0 q) &&
      (negb (s13_ident c && ((s13_rel c =? 1) || (s13_rel c =? 2))) ||
       match moved_between p0 q (s13_stay c) with [] => true | _ => false end)
    | None => true
    end
  | _ => true
  end.
Definition mismatches13_sticky := mismatches ok13_sticky.
