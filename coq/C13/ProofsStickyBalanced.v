(* C13 — sticky: a plan returned by the (repaired) strategy is balanced in Kafka's sense, for all inputs, user data and
   iteration orders (runs that take the revert branch of balance() excluded, as in C08). *)
From Coq Require Import List ZArith Bool Lia Permutation.
From SV Require Import C08.Common C08.RoundRobin C08.Sticky C08.Valid C08.ProofsBase C08.ProofsStickyBase
  C08.ProofsStickyEnv C08.ProofsStickyKeep C08.ProofsStickyMove C08.ProofsStickySort C08.ProofsStickySorted C08.ProofsSticky C13.Model C13.ProofsRR.
Import ListNotations.
Open Scope Z_scope.

(* ---- what a pass without modification tells ---- *)
Lemma pass_true : forall fx prev c2p p2c parts s s' m e,
  reassign_pass fx prev c2p p2c parts s true = (s', m, e) -> m = true.
Proof.
  intros fx prev c2p p2c. induction parts as [|p r IH]; intros s s' m e E; cbn [reassign_pass] in E.
  - now injection E as _ <- _.
  - destruct (is_balanced (s_ca s) c2p) as [[|]|]; try (now injection E as _ <- _).
    destruct (match aget tp_eqb p prev with
              | Some (pm, _) => if (negb fx || mem str_eqb pm (p2c_get p2c p)) && (len (ca_get (s_ca s) pm) + 1 <? len (ca_get (s_ca s) (cpc_get (s_cpc s) p))) then Some pm else None
              | None => None end); [eapply IH; eassumption|].
    destruct (existsb _ (p2c_get p2c p)); eapply IH; eassumption.
Qed.

Definition no_better_consumer (p2c : p2c_t) (s : st) (p : tp) : Prop :=
  forall oc, In oc (p2c_get p2c p) -> ~ (len (ca_get (s_ca s) oc) + 1 < len (ca_get (s_ca s) (cpc_get (s_cpc s) p))).

Lemma pass_unmodified : forall fx prev c2p p2c parts s s' e,
  reassign_pass fx prev c2p p2c parts s false = (s', false, e) ->
  s' = s /\ (e = PassDone -> is_balanced (s_ca s) c2p = Some true \/ forall p, In p parts -> no_better_consumer p2c s p).
Proof.
  intros fx prev c2p p2c. induction parts as [|p r IH]; intros s s' e E; cbn [reassign_pass] in E.
  - injection E as <- <-. split; [reflexivity|]. intros _. right. intros p [].
  - destruct (is_balanced (s_ca s) c2p) as [[|]|] eqn:Eb.
    + injection E as <- <-. split; [reflexivity|]. intros _. now left.
    + destruct (match aget tp_eqb p prev with
                | Some (pm, _) => if (negb fx || mem str_eqb pm (p2c_get p2c p)) && (len (ca_get (s_ca s) pm) + 1 <? len (ca_get (s_ca s) (cpc_get (s_cpc s) p))) then Some pm else None
                | None => None end).
      * apply pass_true in E. discriminate.
      * destruct (existsb (fun oc => len (ca_get (s_ca s) oc) + 1 <? len (ca_get (s_ca s) (cpc_get (s_cpc s) p))) (p2c_get p2c p)) eqn:Ex.
        -- apply pass_true in E. discriminate.
        -- apply IH in E as [E1 E2]. split; [assumption|]. intro He. right. intros q [<-|Hq].
           ++ intros oc Hoc Hlt. assert (H : existsb (fun oc => len (ca_get (s_ca s) oc) + 1 <? len (ca_get (s_ca s) (cpc_get (s_cpc s) p))) (p2c_get p2c p) = true).
              { apply existsb_exists. exists oc. split; [assumption | now apply Z.ltb_lt]. }
              congruence.
           ++ destruct (E2 He) as [H|H]; [congruence | now apply H].
    + injection E as <- <-. split; [reflexivity|]. discriminate.
Qed.

Lemma perform_done : forall fx prev c2p p2c parts fuel s pf s' pf',
  perform fuel fx prev c2p p2c parts s pf = (s', pf', PerfDone) ->
  reassign_pass fx prev c2p p2c parts s' false = (s', false, PassDone).
Proof.
  intros fx prev c2p p2c parts. induction fuel as [|fuel IH]; intros s pf s' pf' E; cbn [perform] in E; [discriminate|].
  destruct (reassign_pass fx prev c2p p2c parts s false) as [[s1 m1] e1] eqn:Ep.
  destruct e1, m1; try discriminate; [eapply IH; eassumption|].
  injection E as <- _. destruct (pass_unmodified _ _ _ _ _ _ _ _ Ep) as [-> _]. exact Ep.
Qed.

(* ---- owner_of, sizes ---- *)
Lemma owner_of_spec : forall (ca : asg) q m, NoDup (akeys ca) -> NoDup (lists ca) -> In q (ca_get ca m) -> owner_of ca q = m.
Proof.
  induction ca as [|[k l] ca IH]; intros q m Nk Nl H; [contradiction|].
  simpl in Nk. inversion Nk as [|? ? Hk Nr]; subst. rewrite lists_cons in Nl. apply NoDup_app_inv in Nl as [N1 [N2 N3]].
  cbn [owner_of]. unfold ca_get in H. cbn [aget] in H. destruct (str_eqb m k) eqn:E.
  - apply str_eqb_eq in E. subst k. apply (mem_In tp_eqb tp_spec) in H. now rewrite H.
  - fold (ca_get ca m) in H. destruct (mem tp_eqb q l) eqn:Em.
    + exfalso. apply (mem_In tp_eqb tp_spec) in Em. apply (N3 q Em). eapply ca_get_lists; eassumption.
    + now apply IH.
Qed.

Lemma two_distinct_len : forall (l : list str) a b, In a l -> In b l -> a <> b -> 2 <= len l.
Proof.
  intros l a b Ha Hb N. destruct l as [|x [|y l]]; [contradiction | | unfold len; simpl; lia].
  destruct Ha as [<-|[]], Hb as [<-|[]]. congruence.
Qed.

Lemma add_back_get : forall fixed ca m, NoDup (akeys fixed) -> (forall x, In x (akeys fixed) -> ~ In x (akeys ca)) ->
  ca_get (add_back fixed ca) m = if mem str_eqb m (akeys fixed) then ca_get fixed m else ca_get ca m.
Proof.
  induction fixed as [|[k l] r IH]; intros ca m N D; cbn [add_back]; [reflexivity|].
  simpl in N. inversion N as [|? ? Hk Nr]; subst. rewrite IH.
  - unfold mem. cbn [akeys map existsb fst]. fold (akeys r). fold (mem str_eqb m (akeys r)).
    destruct (str_eqb m k) eqn:E.
    + apply str_eqb_eq in E. subst k. apply (mem_false str_eqb str_spec) in Hk. rewrite Hk. cbn [orb].
      rewrite ca_get_aset_same. unfold ca_get. cbn [aget]. now rewrite str_eqb_refl.
    + cbn [orb]. apply str_eqb_neq in E as E'. destruct (mem str_eqb m (akeys r)).
      * unfold ca_get at 2. cbn [aget]. now rewrite E.
      * now apply ca_get_aset_other.
  - assumption.
  - intros x Hx Hx2. apply (aset_keys_iff str_eqb str_spec) in Hx2 as [->|Hx2]; [contradiction|]. apply (D x); [now right | assumption].
Qed.

Lemma filter_entry_other : forall k m (l : list tp), str_eqb k m = false ->
  filter (of_member m) (map (fun q : tp => (k, fst q, snd q)) l) = [].
Proof.
  intros k m l Nk. induction l as [|q l IHl]; [reflexivity|]. cbn [map filter]. unfold of_member at 1. cbn [fst]. rewrite Nk. exact IHl.
Qed.
Lemma filter_entry_same : forall m (l : list tp),
  length (filter (of_member m) (map (fun q : tp => (m, fst q, snd q)) l)) = length l.
Proof.
  intros m l. induction l as [|q l IHl]; [reflexivity|]. cbn [map filter]. unfold of_member at 1. cbn [fst]. rewrite str_eqb_refl. simpl. now rewrite IHl.
Qed.
Lemma asg_triples_none : forall (ca : asg) m, ~ In m (akeys ca) -> filter (of_member m) (asg_triples ca) = [].
Proof.
  induction ca as [|[k l] ca IH]; intros m H; [reflexivity|]. unfold asg_triples. cbn [flat_map fst snd]. fold (asg_triples ca).
  rewrite filter_app, IH by (intro Hi; apply H; now right). rewrite app_nil_r.
  apply filter_entry_other. apply str_eqb_neq. intros ->. apply H. now left.
Qed.
Lemma asg_total : forall (ca : asg) p m, NoDup (akeys ca) -> Permutation (triples p) (asg_triples ca) -> total p m = len (ca_get ca m).
Proof.
  intros ca p m N P. rewrite total_eq. unfold len. rewrite (filter_perm_length (of_member m) _ _ P). f_equal. clear P.
  induction ca as [|[k l] ca IH]; [reflexivity|]. simpl in N. inversion N as [|? ? Hk Nr]; subst.
  unfold asg_triples. cbn [flat_map fst snd]. fold (asg_triples ca). rewrite filter_app, app_length.
  unfold ca_get. cbn [aget]. destruct (str_eqb m k) eqn:E.
  - apply str_eqb_eq in E. subst k. rewrite (asg_triples_none ca m Hk). simpl. rewrite Nat.add_0_r. apply filter_entry_same.
  - fold (ca_get ca m). rewrite (IH Nr). rewrite filter_entry_other; [reflexivity|].
    apply str_eqb_neq. intros ->. now rewrite str_eqb_refl in E.
Qed.

(* ---- no member is two or more ahead of somebody who could take one of its partitions ---- *)
Lemma no_two_apart : forall ms ts c2p p2c W fixed prev parts s,
  (forall m q, In q (ca_get c2p m) <-> pot ms ts m q) -> (forall q m, In m (p2c_get p2c q) <-> pot ms ts m q) ->
  NoDup W -> fixed_prop ms ts p2c fixed -> (forall m q, pot ms ts m q -> In m W \/ In m (akeys fixed)) ->
  run_inv ms ts W fixed s ->
  reassign_pass true prev c2p p2c parts s false = (s, false, PassDone) ->
  (forall q, In q (all_tps ts) -> part_can_participate p2c q = true -> In q parts) ->
  forall m1 m2 q, pot ms ts m1 q -> In q (ca_get (s_ca s) m2) ->
    len (ca_get (s_ca s) m1) + 1 < len (ca_get (s_ca s) m2) -> False.
Proof.
  intros ms ts c2p p2c W fixed prev parts s Hc2p Hp2c NW FP KY RI EP PA m1 m2 q Hpot Hq Hlt.
  assert (Nm : m1 <> m2) by (intros ->; lia).
  destruct (ri_sound ms ts W fixed s RI m2 q Hq) as [Hpot2 Hcpc].
  assert (NK : NoDup (akeys (s_ca s))) by (rewrite (ri_keys ms ts W fixed s RI); exact NW).
  assert (NL : NoDup (lists (s_ca s))) by (pose proof (ri_lists ms ts W fixed s RI) as H; now apply NoDup_app_inv in H).
  assert (Hql : In q (lists (s_ca s))) by (eapply ca_get_lists; eassumption).
  assert (H1W : In m1 (akeys (s_ca s))).
  { rewrite (ri_keys ms ts W fixed s RI). eapply (potential_working ms ts p2c W fixed FP KY s q m1); eauto. }
  assert (H2W : In m2 (akeys (s_ca s))) by (apply ca_get_nonempty_key; intro E0; now rewrite E0 in Hq).
  assert (Hpart : part_can_participate p2c q = true).
  { unfold part_can_participate. apply Z.leb_le. apply (two_distinct_len _ m1 m2); [now apply Hp2c | now apply Hp2c | assumption]. }
  destruct (pass_unmodified _ _ _ _ _ _ _ _ EP) as [_ HB]. destruct (HB eq_refl) as [Hbal|Hno].
  - unfold is_balanced in Hbal. destruct (sort_members (s_ca s)) as [|f l] eqn:Es; [discriminate|].
    assert (SS : size_sorted (s_ca s) (f :: l)) by (rewrite <- Es; apply size_sorted_sort).
    assert (I1 : In m1 (f :: l)) by (rewrite <- Es; now apply sort_members_In).
    assert (I2 : In m2 (f :: l)) by (rewrite <- Es; now apply sort_members_In).
    pose proof (size_sorted_bounds (s_ca s) l f SS m1 I1) as B1. pose proof (size_sorted_bounds (s_ca s) l f SS m2 I2) as B2.
    destruct (len (ca_get (s_ca s) (last (f :: l) f)) - 1 <=? len (ca_get (s_ca s) f)) eqn:Esh.
    + apply Z.leb_le in Esh. lia.
    + injection Hbal as Hbal. change (forallb (balanced_member (s_ca s) c2p) (f :: l) = true) in Hbal. rewrite forallb_forall in Hbal. specialize (Hbal m1 I1). unfold balanced_member in Hbal.
      assert (Hnot : ~ In q (ca_get (s_ca s) m1)).
      { intro H. apply Nm. eapply (owner_unique (s_ca s) q m1 m2); eauto. }
      destruct (len (ca_get (s_ca s) m1) =? len (ca_get c2p m1)) eqn:Ec.
      * apply Z.eqb_eq in Ec. apply Hnot. revert q Hpot Hq Hlt Hpot2 Hcpc Hql Hpart Hnot.
        intros q Hpot _ _ _ _ _ _ _. apply Hc2p in Hpot. revert q Hpot. apply NoDup_length_incl.
        -- pose proof (Permutation_NoDup (lists_split m1 (s_ca s) NK) NL) as H. now apply NoDup_app_inv in H.
        -- unfold len in Ec. lia.
        -- intros x Hx. apply Hc2p. now apply (ri_sound ms ts W fixed s RI m1 x).
      * cbv beta iota in Hbal. rewrite forallb_forall in Hbal. specialize (Hbal q (proj2 (Hc2p m1 q) Hpot)). cbv beta in Hbal.
        destruct (mem tp_eqb q (ca_get (s_ca s) m1)) eqn:Em; [apply (mem_In tp_eqb tp_spec) in Em; contradiction|].
        rewrite (owner_of_spec (s_ca s) q m2 NK NL Hq) in Hbal. apply negb_true_iff in Hbal. apply Z.ltb_ge in Hbal. lia.
  - apply (Hno q (PA q (proj1 Hpot) Hpart) m1); [now apply Hp2c|]. now rewrite Hcpc.
Qed.

(* ---- the theorem ---- *)
Theorem sticky_balanced : forall fuel o ms ts p, wf_members ms -> wf_topics ts ->
  let r := sticky_plan_full fuel true o ms ts in
  p_res r = SOk p -> (p_reverted r = true -> p_nfixed r = 0) -> kafka_balanced ms p.
Proof.
  intros fuel o ms ts p Wm Wt. unfold sticky_plan_full.
  destruct (sticky_prepare o ms ts) as [pr|] eqn:Ep; [|discriminate].
  destruct (sticky_prepare_ok o ms ts pr Wm Wt Ep) as [C1 C2 NW NF DJ FP KY ID RI PA PALL _].
  set (W := akeys (s_ca (pr_s0 pr))) in *.
  unfold run_perform.
  destruct (perform fuel true (pr_prev pr) (pr_c2p pr) (pr_p2c pr) (pr_parts pr) (pr_s0 pr) false) as [[s' pf] e] eqn:Er.
  pose proof (perform_inv ms ts (pr_c2p pr) (pr_p2c pr) C1 C2 W (pr_fixed pr) NW NF DJ FP KY (pr_prev pr) (pr_parts pr) fuel _ _ _ _ _ Er RI) as RI'.
  unfold sticky_finish, balance_finish. cbn [b_ca b_end b_reverted b_performed p_res p_reverted p_nfixed].
  set (reverted := negb (pr_initializing pr) && pf && (balance_score (s_ca (pr_s0 pr)) <=? balance_score (s_ca s'))).
  intros Eres Hrev. destruct e; try discriminate. injection Eres as <-.
  apply perform_done in Er.
  assert (Eb : (if reverted then s_ca s' else add_back (pr_fixed pr) (s_ca s')) = add_back (pr_fixed pr) (s_ca s')).
  { destruct reverted; [|reflexivity]. specialize (Hrev eq_refl). destruct (pr_fixed pr); [reflexivity|]. unfold len in Hrev. simpl in Hrev. lia. }
  rewrite Eb. set (fin := add_back (pr_fixed pr) (s_ca s')).
  pose proof (ri_keys ms ts W (pr_fixed pr) s' RI') as R1.
  destruct (add_back_spec (pr_fixed pr) (s_ca s') NF) as [B1 [B2 [B3 B4]]]; [now rewrite R1 | now rewrite R1|]. fold fin in B1, B2, B3, B4.
  destruct (assemble_spec fin [] wf_plan_nil B1) as [_ [P _]]; [intros m _ []|]. simpl in P.
  assert (G : forall m, ca_get fin m = if mem str_eqb m (akeys (pr_fixed pr)) then ca_get (pr_fixed pr) m else ca_get (s_ca s') m).
  { intro m. unfold fin. apply add_back_get; [assumption | now rewrite R1]. }
  intros m1 m2 t q Hm1 Htr Htot Hsub.
  rewrite (asg_total fin _ m1 B1 P), (asg_total fin _ m2 B1 P) in Htot.
  apply (Permutation_in _ P) in Htr. apply asg_triples_In in Htr as [l [H1 H2]].
  rewrite <- (entry_ca_get m2 l fin B1 H1) in H2.
  assert (Nm : m1 <> m2) by (intros ->; lia).
  rewrite (G m2) in H2. rewrite (G m2) in Htot.
  destruct (mem str_eqb m2 (akeys (pr_fixed pr))) eqn:E2.
  - (* a fixed member's partition has a single potential consumer *)
    apply (mem_In str_eqb str_spec) in E2. destruct (FP m2 E2) as [_ F2]. specialize (F2 _ H2).
    destruct (ri_sound_fx ms ts W (pr_fixed pr) s' RI' m2 (t, q) H2) as [Hp2 _].
    assert (Hp1 : pot ms ts m1 (t, q)) by (split; [apply Hp2 | exact Hsub]).
    pose proof (two_distinct_len _ m1 m2 (proj2 (C2 (t, q) m1) Hp1) (proj2 (C2 (t, q) m2) Hp2) Nm). lia.
  - destruct (ri_sound ms ts W (pr_fixed pr) s' RI' m2 (t, q) H2) as [Hp2 _].
    assert (Hp1 : pot ms ts m1 (t, q)) by (split; [apply Hp2 | exact Hsub]).
    assert (Hql : In (t, q) (lists (s_ca s'))) by (eapply ca_get_lists; eassumption).
    assert (H1W : In m1 W) by (eapply (potential_working ms ts (pr_p2c pr) W (pr_fixed pr) FP KY s' (t, q) m1); eauto).
    rewrite (G m1) in Htot.
    assert (E1 : mem str_eqb m1 (akeys (pr_fixed pr)) = false).
    { apply (mem_false str_eqb str_spec). intro H. now apply (DJ m1 H). }
    rewrite E1 in Htot.
    eapply (no_two_apart ms ts (pr_c2p pr) (pr_p2c pr) W (pr_fixed pr) (pr_prev pr) (pr_parts pr) s'); eauto.
Qed.
