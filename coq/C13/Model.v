(* C13 — balance and stickiness notions over the plans of the C08 models, as propositions and as executable tests.
   No proofs here.  The strategy models themselves are coq/C08/{Range,RoundRobin,Sticky}.v. *)
From Coq Require Import List ZArith Bool.
From SV Require Import Base.Corr C08.Common C08.RangeFloat C08.Range C08.RoundRobin C08.Sticky C08.Valid.
Import ListNotations.
Open Scope Z_scope.

(* what a member holds in a plan *)
Definition of_member (m : str) (x : str * str * Z) : bool := str_eqb (fst (fst x)) m.
Definition holds (p : plan) (m : str) : list tp := map (fun x => (snd (fst x), snd x)) (filter (of_member m) (triples p)).
Definition total (p : plan) (m : str) : Z := len (holds p m).
(* plan[m][t] *)
Definition plan_get (p : plan) (m t : str) : list Z := inner_get t (plan_inner p m).

(* ---- range: contiguous, balanced, in hash order ---- *)
Definition cut (n m : Z) (i : nat) : Z := nth i (range_bounds n m) 0.
(* the i-th member (hash order) of a topic with partition list [parts] and m subscribers receives parts[cut i : cut (i+1)] *)
Definition range_share (parts : list Z) (m : Z) (i : nat) : list Z :=
  firstn (Z.to_nat (cut (len parts) m (S i)) - Z.to_nat (cut (len parts) m i)) (skipn (Z.to_nat (cut (len parts) m i)) parts).
Definition fair_size (n m sz : Z) : Prop := n / m <= sz <= n / m + (if n mod m =? 0 then 0 else 1).
Fixpoint hash_sorted (topic : str) (l : list str) : Prop :=
  match l with
  | [] => True
  | a :: r => (match r with [] => True | b :: _ => hashv topic a <= hashv topic b end) /\ hash_sorted topic r
  end.

(* walks the list of cuts (range_bounds, computed once) along the hash-sorted subscribers *)
Fixpoint range_shares_okb (p : plan) (topic : str) (parts : list Z) (m : Z) (cuts : list Z) (sorted : list str) : bool :=
  match sorted, cuts with
  | [], _ => true
  | mid :: r, lo :: ((hi :: _) as cuts') =>
    let sh := firstn (Z.to_nat hi - Z.to_nat lo) (skipn (Z.to_nat lo) parts) in
    let q := len parts / m in
    list_eqb Z.eqb (plan_get p mid topic) sh && (q <=? len sh) && (len sh <=? q + (if len parts mod m =? 0 then 0 else 1)) &&
    range_shares_okb p topic parts m cuts' r
  | _, _ => false
  end.
(* observed plan [p]: every topic's subscribers hold their fair contiguous share *)
Definition range_balancedb (ms : list member) (ts : topics_t) (p : plan) : bool :=
  forallb (fun x => let sorted := sort_by_hash (fst x) (snd x) in
                    let parts := topic_partitions ts (fst x) in
                    range_shares_okb p (fst x) parts (len sorted) (range_bounds (len parts) (len sorted)) sorted) (build_mbt [] ms).

(* ---- round robin ---- *)
(* every member subscribes to every topic that has partitions *)
Definition all_subscribe_all (ms : list member) (ts : topics_t) : Prop :=
  forall mm t ps, In mm ms -> In (t, ps) ts -> ps <> [] -> In t (m_topics mm).
Definition all_subscribe_allb (ms : list member) (ts : topics_t) : bool :=
  forallb (fun mm => forallb (fun x => match snd x with [] => true | _ => mem str_eqb (fst x) (m_topics mm) end) ts) ms.
Definition totals_within_one (ms : list member) (p : plan) : Prop :=
  forall m1 m2, In m1 ms -> In m2 ms -> total p (m_id m1) <= total p (m_id m2) + 1.
Definition totals_within_oneb (ms : list member) (p : plan) : bool :=
  let tl := map (fun m => total p (m_id m)) ms in
  forallb (fun a => forallb (fun b => a <=? b + 1) tl) tl.

(* ---- sticky ---- *)
(* Kafka's balance: a member holding two or more partitions more than another holds none the other could take *)
Definition kafka_balanced (ms : list member) (p : plan) : Prop :=
  forall m1 m2 t q, In m1 (map m_id ms) -> In (m2, t, q) (triples p) -> total p m1 + 1 < total p m2 -> ~ subscribes ms m1 t.
Definition kafka_balancedb (ms : list member) (p : plan) : bool :=
  let tot := map (fun c => (c, total p (m_id c))) ms in
  forallb (fun e => let th := total p (fst e) in
     forallb (fun y => match snd y with
                       | [] => true
                       | _ => forallb (fun ct => negb ((snd ct + 1 <? th) && mem str_eqb (fst y) (m_topics (fst ct)))) tot
                       end) (snd e)) p.

Definition owner_in (p : plan) (x : tp) : option str :=
  match filter (fun y => tp_eqb (snd (fst y), snd y) x) (triples p) with
  | [] => None
  | y :: _ => Some (fst (fst y))
  end.
Definition opt_str_eqb (a b : option str) : bool := option_eqb str_eqb a b.
(* the two plans give every partition to the same member (list order aside) *)
Definition same_owners (p1 p2 : plan) : Prop := forall m x, In x (holds p1 m) <-> In x (holds p2 m).
Definition same_ownersb (p1 p2 : plan) : bool :=
  forallb (fun x => opt_str_eqb (owner_in p1 x) (owner_in p2 x)) (assigned p1 ++ assigned p2).
(* partitions whose owner changed from one member of [among] to another member of [among] *)
Definition moved_between (p1 p2 : plan) (among : list str) : list tp :=
  filter (fun x => match owner_in p1 x, owner_in p2 x with
                   | Some a, Some b => negb (str_eqb a b) && mem str_eqb a among && mem str_eqb b among
                   | _, _ => false end) (assigned p1).
(* two partitions of one topic exchanged owners *)
Definition pair_swapb (p1 p2 : plan) : bool :=
  existsb (fun x => existsb (fun y =>
     str_eqb (fst x) (fst y) &&
     match owner_in p1 x, owner_in p2 x, owner_in p1 y, owner_in p2 y with
     | Some a, Some b, Some c, Some d => negb (str_eqb a b) && str_eqb a d && str_eqb b c
     | _, _, _, _ => false end) (assigned p1)) (assigned p1).

(* the user data an honest member reports after receiving [p] at generation [g] *)
Definition report (p : plan) (g : Z) (m : member) : member :=
  {| m_id := m_id m; m_topics := m_topics m; m_ud := UD (holds p (m_id m)) (Some g) |}.

(* two partitions of one topic exchanged owners between the plans p and p' *)
Definition pair_swap (p p' : plan) : Prop :=
  exists t q1 q2 a b, a <> b /\ In (t, q1) (holds p a) /\ In (t, q1) (holds p' b) /\ In (t, q2) (holds p b) /\ In (t, q2) (holds p' a).
