(* C13 — sticky, identical subscriptions: when a member joins, no partition moves between old members.
   Part 1: the order in which sortPartitions lists the partitions (round robin over the members, always one with the most
   partitions left) and what one pass of performReassignments does with it. *)
From Coq Require Import List ZArith Bool Lia Permutation.
From SV Require Import C08.Common C08.RoundRobin C08.Sticky C08.StickyDirect C08.Valid C08.ProofsBase C08.ProofsStickyBase
  C08.ProofsStickyEnv C08.ProofsStickyKeep C08.ProofsStickyMove C08.ProofsStickySort C08.ProofsStickySorted C08.ProofsSticky
  C08.ProofsStickyTerm
  C13.Model C13.ProofsRange C13.ProofsRR C13.ProofsStickyBalanced C13.ProofsStickyFixed C13.ProofsStickyLeave.
Import ListNotations.
Open Scope Z_scope.

(* [rr_seq a l]: l lists all partitions of the map a, each time taking one from a member that has the most left *)
Inductive rr_seq : asg -> list tp -> Prop :=
| rr_nil : forall a, (forall m l, In (m, l) a -> l = []) -> rr_seq a []
| rr_cons : forall a c l0 x r, In (c, l0) a -> In x l0 ->
    (forall m l', In (m, l') a -> (length l' <= length l0)%nat) ->
    rr_seq (aset str_eqb c (remove_first tp_eqb x l0) a) r -> rr_seq a (x :: r).

Lemma pq_top_max : forall l best, forall e, In e (best :: l) -> (length (snd e) <= length (snd (pq_top best l)))%nat.
Proof.
  induction l as [|y l IH]; intros best e H; cbn [pq_top].
  - destruct H as [<-|[]]. lia.
  - assert (Hb : (length (snd best) <= length (snd (if pq_before y best then y else best)))%nat /\
                 (length (snd y) <= length (snd (if pq_before y best then y else best)))%nat).
    { unfold pq_before. unfold len. destruct (Z.of_nat (length (snd y)) =? Z.of_nat (length (snd best))) eqn:E.
      - apply Z.eqb_eq in E. destruct (str_ltb (fst best) (fst y)); lia.
      - destruct (Z.of_nat (length (snd best)) <? Z.of_nat (length (snd y))) eqn:E2; [apply Z.ltb_lt in E2 | apply Z.ltb_ge in E2; apply Z.eqb_neq in E]; lia. }
    destruct Hb as [B1 B2].
    pose proof (IH (if pq_before y best then y else best) (if pq_before y best then y else best) (or_introl eq_refl)) as T0.
    destruct H as [<-|[<-|H]].
    + lia.
    + lia.
    + apply (IH _ e). now right.
Qed.

Lemma remove_nth_first : forall (l : list tp) n, NoDup l -> (n < length l)%nat ->
  remove_nth n l = remove_first tp_eqb (nth n l ([], 0)) l.
Proof.
  induction l as [|y l IH]; intros n N H; simpl in H; [lia|]. inversion N as [|? ? Hy Nl]; subst.
  destruct n as [|n]; cbn [remove_nth nth remove_first].
  - now rewrite tp_eqb_refl.
  - assert (Hn : In (nth n l ([], 0)) l) by (apply nth_In; lia).
    destruct (tp_eqb y (nth n l ([], 0))) eqn:E; [apply tp_eqb_eq in E; subst; contradiction|].
    f_equal. apply IH; [assumption | lia].
Qed.

Lemma total_len_aset : forall c l0 x (a : asg), NoDup (akeys a) -> In (c, l0) a -> In x l0 ->
  S (total_len (aset str_eqb c (remove_first tp_eqb x l0) a)) = total_len a.
Proof.
  intros c l0 x. induction a as [|[k v] a IH]; intros N H Hx; [contradiction|].
  simpl in N. inversion N as [|? ? Hk Nr]; subst. cbn [aset]. destruct (str_eqb c k) eqn:E.
  - apply str_eqb_eq in E. subst k. destruct H as [H|H].
    + injection H as ->. cbn [total_len fold_right snd].
      assert (L : S (length (remove_first tp_eqb x l0)) = length l0).
      { pose proof (len_remove_first x l0 Hx) as L. unfold len in L. lia. }
      fold (total_len a). lia.
    + exfalso. apply Hk. apply in_map_iff. now exists (c, l0).
  - destruct H as [H|H]; [injection H as -> ->; now rewrite str_eqb_refl in E|].
    cbn [total_len fold_right snd]. fold (total_len a). fold (total_len (aset str_eqb c (remove_first tp_eqb x l0) a)).
    specialize (IH Nr H Hx). lia.
Qed.

Lemma total_len_zero : forall (a : asg), total_len a = O -> forall m l, In (m, l) a -> l = [].
Proof.
  induction a as [|[k v] a IH]; intros H m l Hin; [contradiction|]. cbn [total_len fold_right snd] in H. fold (total_len a) in H.
  destruct Hin as [Hin|Hin]; [injection Hin as <- <-; destruct v; [reflexivity | simpl in H; lia] | apply (IH ltac:(lia) m l Hin)].
Qed.

Lemma pq_loop_rr : forall fuel prev (a : asg) acc, NoDup (akeys a) -> (forall m l, In (m, l) a -> NoDup l) -> fuel = total_len a ->
  exists out, pq_loop fuel prev a acc = acc ++ out /\ rr_seq a out.
Proof.
  induction fuel as [|fuel IH]; intros prev a acc N Nl Hf; cbn [pq_loop].
  - exists []. rewrite app_nil_r. split; [reflexivity|]. constructor. apply total_len_zero. now symmetry.
  - destruct a as [|x r]; [exists []; rewrite app_nil_r; split; [reflexivity | constructor; intros ? ? []]|].
    pose proof (pq_top_In r x) as Hin. pose proof (pq_top_max r x) as Hmax. destruct (pq_top x r) as [id l]. cbn [snd] in Hmax.
    destruct l as [|p0 l0].
    { exists []. rewrite app_nil_r. split; [reflexivity|]. constructor. intros m l' H. specialize (Hmax (m, l') H). simpl in Hmax. destruct l'; [reflexivity | simpl in Hmax; lia]. }
    remember (p0 :: l0) as l eqn:El. remember (x :: r) as a eqn:Ea.
    set (idx := match find_index (fun p => match aget tp_eqb p prev with Some _ => true | None => false end) l 0 with Some i => i | None => 0%nat end).
    assert (Hidx : (idx < length l)%nat).
    { unfold idx. destruct (find_index _ l 0) as [i|] eqn:Ef; [apply find_index_lt in Ef; lia | rewrite El; simpl; lia]. }
    assert (NLl : NoDup l) by (eapply Nl; eassumption).
    assert (Hx : In (nth idx l ([], 0)) l) by (apply nth_In; assumption).
    rewrite (remove_nth_first l idx NLl Hidx).
    destruct (IH prev (aset str_eqb id (remove_first tp_eqb (nth idx l ([], 0)) l) a) (acc ++ [nth idx l ([], 0)])) as [out [E R]].
    + now apply (aset_NoDup str_eqb str_spec).
    + intros m l' H. apply (aset_In str_eqb str_spec) in H as [[-> ->]|H]; [now apply (remove_first_NoDup tp_eqb tp_spec) | eapply Nl; eassumption].
    + pose proof (total_len_aset id l (nth idx l ([], 0)) a N Hin Hx). lia.
    + exists (nth idx l ([], 0) :: out). split; [rewrite E; now rewrite <- app_assoc|].
      eapply rr_cons; eauto. intros m l' H. specialize (Hmax (m, l') H). exact Hmax.
Qed.

(* ---- Part 2: one pass over a round-robin list when only the new member N is smaller than the others ---- *)
Lemma process_movement_lists : forall s x c n, cpc_get (s_cpc s) x = c -> n <> c ->
  let s' := process_movement s x n in
  ca_get (s_ca s') c = remove_first tp_eqb x (ca_get (s_ca s) c) /\
  ca_get (s_ca s') n = ca_get (s_ca s) n ++ [x] /\
  (forall m, m <> c -> m <> n -> ca_get (s_ca s') m = ca_get (s_ca s) m) /\
  s_mov s' = move_partition (s_mov s) x c n.
Proof.
  intros s x c n Ec Nn. unfold process_movement. rewrite Ec. cbn [s_ca s_mov]. split; [|split; [|split]].
  - rewrite ca_get_aset_other by congruence. apply ca_get_aset_same.
  - rewrite ca_get_aset_same. now rewrite ca_get_aset_other.
  - intros m H1 H2. now rewrite !ca_get_aset_other.
  - reflexivity.
Qed.

Lemma sort_members_head_min : forall ca f l, sort_members ca = f :: l -> forall m, In m (akeys ca) -> len (ca_get ca f) <= len (ca_get ca m).
Proof.
  intros ca f l E m Hm. assert (SS : size_sorted ca (f :: l)) by (rewrite <- E; apply size_sorted_sort).
  apply (size_sorted_bounds ca l f SS m). rewrite <- E. now apply sort_members_In.
Qed.

Section JoinPass.
  Variable ms : list member.
  Variable ts : topics_t.
  Variable c2p : asg.
  Variable p2c : p2c_t.
  Hypothesis Hc2p : forall m q, In q (ca_get c2p m) <-> pot ms ts m q.
  Hypothesis Hp2cg : forall q m, In m (p2c_get p2c q) <-> pot ms ts m q.
  Variable W : list str.
  Variable fixed : asg.
  Hypothesis NW : NoDup W.
  Hypothesis Hfx_nodup : NoDup (akeys fixed).
  Hypothesis Hfx_disj : forall m, In m (akeys fixed) -> ~ In m W.
  Hypothesis Hfx_prop : fixed_prop ms ts p2c fixed.
  Hypothesis Hpot_key : forall m q, pot ms ts m q -> In m W \/ In m (akeys fixed).
  Variable N : str.
  Hypothesis HN : In N W.
  Hypothesis Hall : forall x m0, pot ms ts m0 x -> forall m, In m W -> pot ms ts m x.

  Record pinv (s : st) (R : asg) : Prop := {
    pi_inv : inv2 ms ts W fixed s;
    pi_act : forall m, In m W -> m <> N -> len (ca_get (s_ca s) m) = len (ca_get R m) \/ len (ca_get (s_ca s) m) <= len (ca_get (s_ca s) N) + 1;
    pi_olds : forall a b, In a W -> In b W -> a <> N -> b <> N -> len (ca_get (s_ca s) a) <= len (ca_get (s_ca s) b) + 1;
    pi_new : forall m, In m W -> m <> N -> len (ca_get (s_ca s) N) <= len (ca_get (s_ca s) m);
    pi_rem : forall m x, In x (ca_get R m) -> In x (ca_get (s_ca s) m) /\ m <> N /\ In m W;
    pi_mov : forall q pr, In (q, pr) (s_mov s) -> fst pr <> N;
    pi_Rk : NoDup (akeys R);
    pi_Rl : forall m, NoDup (ca_get R m)
  }.

  (* nothing a member had has gone anywhere but to N *)
  Definition only_to_new (s s' : st) : Prop :=
    forall m y, In y (ca_get (s_ca s) m) -> In y (ca_get (s_ca s') m) \/ In y (ca_get (s_ca s') N).

  Lemma no_redirect_to_new : forall s R x c, pinv s R -> redirects (s_mov s) x c N = false.
  Proof.
    intros s R x c I. unfold redirects. destruct (mov_topic_exists (s_mov s) (fst x)); [|reflexivity]. cbn [andb].
    destruct (mov_set (s_mov s) (fst x) (N, match aget tp_eqb x (s_mov s) with Some pr => fst pr | None => c end)) as [|q r] eqn:E; [reflexivity|].
    exfalso. assert (H : In q (q :: r)) by now left. rewrite <- E in H. unfold mov_set in H.
    apply in_map_iff in H as [[q' pr] [_ H]]. apply filter_In in H as [H1 H2]. cbn [snd fst] in H2.
    apply andb_true_iff in H2 as [_ H2]. unfold pair_eqb in H2. apply andb_true_iff in H2 as [H2 _]. apply str_eqb_eq in H2. cbn [fst] in H2.
    now apply (pi_mov s R I q' pr H1).
  Qed.

  Lemma join_move : forall s R c l0 x, pinv s R -> In (c, l0) R -> In x l0 ->
    (forall m l', In (m, l') R -> (length l' <= length l0)%nat) ->
    len (ca_get (s_ca s) N) + 1 < len (ca_get (s_ca s) c) ->
    pinv (reassign_partition s x N) (aset str_eqb c (remove_first tp_eqb x l0) R) /\ only_to_new s (reassign_partition s x N).
  Proof.
    intros s R c l0 x I Hc Hx Hmax Hlt.
    pose proof I as [[RI Hs] A1 A2 A3 A4 A5 A6 A7].
    assert (Rc : ca_get R c = l0) by now apply entry_ca_get.
    assert (Hxr : In x (ca_get R c)) by now rewrite Rc.
    destruct (A4 c x Hxr) as [Hxs [NcN HcW]].
    assert (Ecpc : cpc_get (s_cpc s) x = c) by now apply (ri_sound ms ts W fixed s RI c x).
    assert (Hpc : pot ms ts c x) by now apply (ri_sound ms ts W fixed s RI c x).
    assert (HpN : pot ms ts N x) by (eapply Hall; eassumption).
    assert (Hxl : In x (lists (s_ca s))) by (eapply ca_get_lists; eassumption).
    pose proof (no_redirect_to_new s R x c I) as Hd. rewrite <- Ecpc in Hd at 1.
    assert (Hlt' : len (ca_get (s_ca s) N) + 1 < len (ca_get (s_ca s) (cpc_get (s_cpc s) x))) by now rewrite Ecpc.
    destruct (direct_move ms ts W fixed NW s x N (conj RI Hs) Hxl HN HpN Hlt' Hd) as [I2 _].
    unfold reassign_partition in *. rewrite (actual_partition_direct _ _ _ _ _ Hd) in *.
    replace {| s_ca := s_ca s; s_cpc := s_cpc s; s_mov := s_mov s; s_sorted := s_sorted s; s_picks := s_picks s |} with s in * by (destruct s; reflexivity).
    destruct (process_movement_lists s x c N Ecpc (not_eq_sym NcN)) as [L1 [L2 [L3 L4]]].
    set (s' := process_movement s x N) in *.
    assert (NLc : NoDup (ca_get (s_ca s) c)).
    { assert (NK : NoDup (akeys (s_ca s))) by (rewrite (ri_keys ms ts W fixed s RI); exact NW).
      pose proof (ri_lists ms ts W fixed s RI) as NL. apply NoDup_app_inv in NL as [NL _].
      pose proof (Permutation_NoDup (lists_split c (s_ca s) NK) NL) as H. now apply NoDup_app_inv in H. }
    assert (Sc : len (ca_get (s_ca s') c) = len (ca_get (s_ca s) c) - 1) by (rewrite L1; now apply len_remove_first).
    assert (SN : len (ca_get (s_ca s') N) = len (ca_get (s_ca s) N) + 1) by (rewrite L2, len_app; reflexivity).
    assert (Act : len (ca_get (s_ca s) c) = len l0).
    { destruct (A1 c HcW NcN) as [H|H]; [now rewrite H, Rc | lia]. }
    assert (Cmax : forall b, In b W -> b <> N -> len (ca_get (s_ca s) b) <= len (ca_get (s_ca s) c)).
    { intros b Hb Nb. destruct (A1 b Hb Nb) as [H|H]; [|lia]. rewrite H, Act.
      destruct (in_dec (eq_dec_of str_eqb str_spec) b (akeys R)) as [Hk|Hk].
      - destruct (key_aget str_eqb str_spec b R Hk) as [lb Eb]. unfold ca_get. rewrite Eb.
        apply (aget_In str_eqb str_spec) in Eb. specialize (Hmax b lb Eb). unfold len. lia.
      - rewrite ca_get_notin by assumption. unfold len. simpl. lia. }
    assert (Sz : forall m, m <> c -> m <> N -> ca_get (s_ca s') m = ca_get (s_ca s) m) by exact L3.
    split.
    - constructor.
      + exact I2.
      + intros m Hm Nm. destruct (eq_dec_of str_eqb str_spec m c) as [->|Nc].
        * left. rewrite ca_get_aset_same, Sc, Act. symmetry. now apply len_remove_first.
        * rewrite ca_get_aset_other by assumption. rewrite (Sz m Nc Nm), SN. destruct (A1 m Hm Nm); [now left | right; lia].
      + intros a b Ha Hb Na Nb. pose proof (A2 a b Ha Hb Na Nb). pose proof (Cmax a Ha Na). pose proof (Cmax b Hb Nb). pose proof (A2 c b HcW Hb NcN Nb).
        destruct (eq_dec_of str_eqb str_spec a c) as [->|Nac]; destruct (eq_dec_of str_eqb str_spec b c) as [->|Nbc];
          rewrite ?Sc; rewrite ?(Sz a) by assumption; rewrite ?(Sz b) by assumption; lia.
      + intros m Hm Nm. rewrite SN. pose proof (A2 c m HcW Hm NcN Nm).
        destruct (eq_dec_of str_eqb str_spec m c) as [->|Nc]; [rewrite Sc; lia | rewrite (Sz m Nc Nm); lia].
      + intros m y Hy. destruct (eq_dec_of str_eqb str_spec m c) as [->|Nc].
        * rewrite ca_get_aset_same in Hy. split; [|now split]. rewrite L1.
          assert (Hy0 : In y l0) by (eapply remove_first_incl; eassumption).
          assert (Nyx : y <> x).
          { intros ->. rewrite <- Rc in Hy. now apply (remove_first_NoDup tp_eqb tp_spec x (ca_get R c) (A7 c)). }
          apply (remove_first_other tp_eqb tp_spec); [assumption|]. apply (A4 c y). now rewrite Rc.
        * rewrite ca_get_aset_other in Hy by assumption. destruct (A4 m y Hy) as [B1 [B2 B3]]. split; [|now split]. now rewrite (Sz m Nc B2).
      + intros q pr H. rewrite L4 in H. unfold move_partition in H. destruct (aget tp_eqb x (s_mov s)) as [ex|] eqn:Ex.
        * apply (aget_In tp_eqb tp_spec) in Ex. pose proof (A5 x ex Ex) as Hex.
          destruct (negb (str_eqb (fst ex) N)).
          -- apply (aset_In tp_eqb tp_spec) in H as [[-> ->]|H]; [exact Hex | apply (adel_In tp_eqb) in H; now apply (A5 q pr)].
          -- apply (adel_In tp_eqb) in H. now apply (A5 q pr).
        * apply (aset_In tp_eqb tp_spec) in H as [[-> ->]|H]; [exact NcN | now apply (A5 q pr)].
      + now apply (aset_NoDup str_eqb str_spec).
      + intro m. destruct (eq_dec_of str_eqb str_spec m c) as [->|Nc].
        * rewrite ca_get_aset_same. rewrite <- Rc. now apply (remove_first_NoDup tp_eqb tp_spec).
        * rewrite ca_get_aset_other by assumption. apply A7.
    - intros m y Hy. destruct (eq_dec_of str_eqb str_spec m c) as [->|Nc].
      + destruct (eq_dec_of tp_eqb tp_spec y x) as [->|Nyx]; [right; rewrite L2; apply in_or_app; right; now left|].
        left. rewrite L1. now apply (remove_first_other tp_eqb tp_spec).
      + destruct (eq_dec_of str_eqb str_spec m N) as [->|NmN]; [left; rewrite L2; apply in_or_app; now left|].
        left. now rewrite (Sz m Nc NmN).
  Qed.

  Lemma pinv_skip : forall s R c l0 x, pinv s R -> In (c, l0) R -> In x l0 ->
    len (ca_get (s_ca s) c) <= len (ca_get (s_ca s) N) + 1 ->
    pinv s (aset str_eqb c (remove_first tp_eqb x l0) R).
  Proof.
    intros s R c l0 x I Hc Hx Hle. pose proof I as [[RI Hs] A1 A2 A3 A4 A5 A6 A7].
    assert (Rc : ca_get R c = l0) by now apply entry_ca_get.
    constructor.
    - split; assumption.
    - intros m Hm Nm. destruct (eq_dec_of str_eqb str_spec m c) as [->|Nc]; [now right|].
      rewrite ca_get_aset_other by assumption. now apply A1.
    - exact A2.
    - exact A3.
    - intros m y Hy. destruct (eq_dec_of str_eqb str_spec m c) as [->|Nc].
      + rewrite ca_get_aset_same in Hy. apply (A4 c y). rewrite Rc. eapply remove_first_incl; eassumption.
      + rewrite ca_get_aset_other in Hy by assumption. now apply A4.
    - exact A5.
    - now apply (aset_NoDup str_eqb str_spec).
    - intro m. destruct (eq_dec_of str_eqb str_spec m c) as [->|Nc].
      + rewrite ca_get_aset_same. rewrite <- Rc. now apply (remove_first_NoDup tp_eqb tp_spec).
      + rewrite ca_get_aset_other by assumption. apply A7.
  Qed.

  Lemma only_to_new_refl : forall s, only_to_new s s.
  Proof. intros s m y H. now left. Qed.
  Lemma only_to_new_trans : forall s1 s2 s3, only_to_new s1 s2 -> only_to_new s2 s3 -> only_to_new s1 s3.
  Proof.
    intros s1 s2 s3 H1 H2 m y H. destruct (H1 m y H) as [H'|H'].
    - apply (H2 m y H').
    - destruct (H2 N y H') as [H''|H'']; now right.
  Qed.

  (* the new member is first in the sorted list as long as it is strictly the smallest *)
  Lemma new_is_first : forall s, inv2 ms ts W fixed s ->
    (forall m, In m W -> m <> N -> len (ca_get (s_ca s) N) < len (ca_get (s_ca s) m)) ->
    exists l, s_sorted s = N :: l.
  Proof.
    intros s [RI Hs] H. rewrite Hs. destruct (sort_members (s_ca s)) as [|f l] eqn:E.
    - exfalso. assert (Hin : In N (sort_members (s_ca s))) by (apply sort_members_In; now rewrite (ri_keys ms ts W fixed s RI)). now rewrite E in Hin.
    - exists l. f_equal. destruct (eq_dec_of str_eqb str_spec f N) as [->|Nf]; [reflexivity|]. exfalso.
      assert (Hf : In f W) by (rewrite <- (ri_keys ms ts W fixed s RI); apply sort_members_In; rewrite E; now left).
      pose proof (sort_members_head_min (s_ca s) f l E N ltac:(now rewrite (ri_keys ms ts W fixed s RI))). specialize (H f Hf Nf). lia.
  Qed.

  Lemma join_pass : forall prev R out, rr_seq R out -> forall s modified s' modified' e,
    pinv s R -> reassign_pass true prev c2p p2c out s modified = (s', modified', e) ->
    e = PassDone /\ only_to_new s s' /\
    exists R', pinv s' R' /\ (is_balanced (s_ca s') c2p = Some true \/ (forall m l, In (m, l) R' -> l = [])).
  Proof.
    intros prev R out HR. induction HR as [a Hemp | a c l0 x r Hc Hx Hmax HR IH]; intros s modified s' modified' e I E; cbn [reassign_pass] in E.
    - injection E as <- _ <-. split; [reflexivity|]. split; [apply only_to_new_refl|]. exists a. split; [assumption | now right].
    - pose proof I as [[RI Hs] A1 A2 A3 A4 A5 A6 A7].
      destruct (is_balanced (s_ca s) c2p) as [[|]|] eqn:Eb.
      + injection E as <- _ <-. split; [reflexivity|]. split; [apply only_to_new_refl|]. exists a. split; [assumption | now left].
      + cbn [negb orb] in E.
        assert (Rc : ca_get a c = l0) by now apply entry_ca_get.
        assert (Hxr : In x (ca_get a c)) by now rewrite Rc.
        destruct (A4 c x Hxr) as [Hxs [NcN HcW]].
        assert (Ecpc : cpc_get (s_cpc s) x = c) by now apply (ri_sound ms ts W fixed s RI c x).
        assert (Hpc : pot ms ts c x) by now apply (ri_sound ms ts W fixed s RI c x).
        assert (Hxl : In x (lists (s_ca s))) by (eapply ca_get_lists; eassumption).
        rewrite Ecpc in E.
        (* whoever is two below c is the new member *)
        assert (Only : forall oc, pot ms ts oc x -> len (ca_get (s_ca s) oc) + 1 < len (ca_get (s_ca s) c) -> oc = N).
        { intros oc Ho Hlt. assert (How : In oc W) by (eapply (potential_working ms ts p2c W fixed Hfx_prop Hpot_key); eauto).
          destruct (eq_dec_of str_eqb str_spec oc N) as [->|No]; [reflexivity|]. exfalso. pose proof (A2 c oc HcW How NcN No). lia. }
        destruct (match aget tp_eqb x prev with
                  | Some (pm, _) => if mem str_eqb pm (p2c_get p2c x) && (len (ca_get (s_ca s) pm) + 1 <? len (ca_get (s_ca s) c)) then Some pm else None
                  | None => None end) as [pm|] eqn:Ev.
        * destruct (aget tp_eqb x prev) as [[pm' g0]|]; [|discriminate].
          destruct (mem str_eqb pm' (p2c_get p2c x) && (len (ca_get (s_ca s) pm') + 1 <? len (ca_get (s_ca s) c))) eqn:Ec; [|discriminate].
          injection Ev as ->. apply andb_true_iff in Ec as [C1 C2]. apply (mem_In str_eqb str_spec) in C1. apply Hp2cg in C1. apply Z.ltb_lt in C2.
          pose proof (Only pm C1 C2) as ->.
          destruct (join_move s a c l0 x I Hc Hx Hmax C2) as [I' O'].
          destruct (IH _ _ _ _ _ I' E) as [E1 [O2 [R' [I2 B2]]]].
          split; [assumption|]. split; [eapply only_to_new_trans; eassumption|]. exists R'. now split.
        * destruct (existsb (fun oc => len (ca_get (s_ca s) oc) + 1 <? len (ca_get (s_ca s) c)) (p2c_get p2c x)) eqn:Ex.
          -- apply existsb_exists in Ex as [oc [O1 O2]]. apply Hp2cg in O1. apply Z.ltb_lt in O2.
             pose proof (Only oc O1 O2) as ->.
             assert (Strict : forall m, In m W -> m <> N -> len (ca_get (s_ca s) N) < len (ca_get (s_ca s) m)).
             { intros m Hm Nm. pose proof (A2 c m HcW Hm NcN Nm). lia. }
             destruct (new_is_first s (conj RI Hs) Strict) as [l Hl].
             unfold reassign_to_new in E. rewrite Hl in E. cbn [first_potential] in E.
             rewrite (proj2 (mem_In tp_eqb tp_spec x (ca_get c2p N)) (proj2 (Hc2p N x) O1)) in E.
             destruct (join_move s a c l0 x I Hc Hx Hmax O2) as [I' O'].
             destruct (IH _ _ _ _ _ I' E) as [E1 [O3 [R' [I2 B2]]]].
             split; [assumption|]. split; [eapply only_to_new_trans; eassumption|]. exists R'. now split.
          -- assert (Hle : len (ca_get (s_ca s) c) <= len (ca_get (s_ca s) N) + 1).
             { destruct (Z_le_gt_dec (len (ca_get (s_ca s) c)) (len (ca_get (s_ca s) N) + 1)) as [H|H]; [assumption|]. exfalso.
               assert (HpN : pot ms ts N x) by (eapply Hall; eassumption).
               assert (T : existsb (fun oc => len (ca_get (s_ca s) oc) + 1 <? len (ca_get (s_ca s) c)) (p2c_get p2c x) = true).
               { apply existsb_exists. exists N. split; [now apply Hp2cg | apply Z.ltb_lt; lia]. }
               congruence. }
             pose proof (pinv_skip s a c l0 x I Hc Hx Hle) as I'.
             destruct (IH _ _ _ _ _ I' E) as [E1 [O3 [R' [I2 B2]]]].
             split; [assumption|]. split; [assumption|]. exists R'. now split.
      + exfalso. unfold is_balanced in Eb. destruct (sort_members (s_ca s)) as [|f l] eqn:Es.
        * assert (Hin : In N (sort_members (s_ca s))) by (apply sort_members_In; now rewrite (ri_keys ms ts W fixed s RI)). now rewrite Es in Hin.
        * destruct (len (ca_get (s_ca s) (last (f :: l) f)) - 1 <=? len (ca_get (s_ca s) f)); discriminate.
  Qed.

  (* when nothing is left to visit everybody is within one of everybody *)
  Lemma exhausted_within1 : forall s R, pinv s R -> (forall m l, In (m, l) R -> l = []) ->
    forall a b, In a W -> In b W -> len (ca_get (s_ca s) a) <= len (ca_get (s_ca s) b) + 1.
  Proof.
    intros s R [_ A1 A2 A3 _ _ _ _] He a b Ha Hb.
    assert (R0 : forall m, len (ca_get R m) = 0).
    { intro m. unfold ca_get. destruct (aget str_eqb m R) as [l|] eqn:E; [|reflexivity]. apply (aget_In str_eqb str_spec) in E. now rewrite (He m l E). }
    destruct (eq_dec_of str_eqb str_spec a N) as [->|Na]; destruct (eq_dec_of str_eqb str_spec b N) as [->|Nb].
    - lia.
    - pose proof (A3 b Hb Nb). lia.
    - destruct (A1 a Ha Na) as [H|H]; [rewrite H, R0; pose proof (len_nonneg (ca_get (s_ca s) N)); lia | lia].
    - now apply A2.
  Qed.

  Lemma within1_balanced : forall ca, akeys ca = W ->
    (forall a b, In a W -> In b W -> len (ca_get ca a) <= len (ca_get ca b) + 1) -> is_balanced ca c2p = Some true.
  Proof.
    intros ca Hk Hw. unfold is_balanced. destruct (sort_members ca) as [|f l] eqn:E.
    - exfalso. assert (Hin : In N (sort_members ca)) by (apply sort_members_In; now rewrite Hk). now rewrite E in Hin.
    - assert (Hf : In f W) by (rewrite <- Hk; apply sort_members_In; rewrite E; now left).
      assert (Hl : In (last (f :: l) f) W).
      { rewrite <- Hk. apply sort_members_In. rewrite E. destruct (last_In (f :: l) f) as [H|H]; [rewrite <- H; now left | exact H]. }
      specialize (Hw _ _ Hl Hf).
      destruct (len (ca_get ca (last (f :: l) f)) - 1 <=? len (ca_get ca f)) eqn:Eb; [reflexivity|]. apply Z.leb_gt in Eb. lia.
  Qed.
End JoinPass.

(* ---- Part 3: auxiliary facts for the preparation phase with identical subscriptions ---- *)
Section IdentLoop.
  Context {A : Type} (eqb : A -> A -> bool) (Heq : eqb_spec eqb).

  Lemma dedup_first_nodup_id : forall l seen, NoDup l -> (forall x, In x l -> ~ In x seen) -> dedup_first eqb seen l = l.
  Proof.
    induction l as [|y l IH]; intros seen N H; [reflexivity|]. inversion N as [|? ? Hy Nl]; subst. cbn [dedup_first].
    rewrite (proj2 (mem_false eqb Heq y seen) (H y (or_introl eq_refl))). f_equal. apply IH; [assumption|].
    intros x Hx [<-|Hs]; [contradiction | apply (H x); [now right | assumption]].
  Qed.

  Lemma count_of_nodup : forall k l, NoDup l -> count_of eqb k l = if mem eqb k l then 1 else 0.
  Proof.
    intros k. induction l as [|y l IH]; intro N; [reflexivity|]. inversion N as [|? ? Hy Nl]; subst.
    unfold count_of, mem. cbn [filter existsb]. destruct (eqb k y) eqn:E.
    - apply Heq in E. subst y. cbn [orb]. rewrite len_cons. fold (count_of eqb k l). rewrite (IH Nl).
      now rewrite (proj2 (mem_false eqb Heq k l) Hy).
    - cbn [orb]. apply (IH Nl).
  Qed.

  Lemma ident_loop_same_set : forall (v0 : list A) vals, (forall v, In v vals -> NoDup v /\ forall k, In k v <-> In k v0) ->
    forall cur, (cur = [] \/ (NoDup cur /\ forall k, In k cur <-> In k v0)) -> ident_loop eqb cur vals = true.
  Proof.
    intros v0. induction vals as [|v r IH]; intros H cur Hc; [reflexivity|]. cbn [ident_loop].
    destruct (H v (or_introl eq_refl)) as [Nv Sv].
    assert (Hr : forall v', In v' r -> NoDup v' /\ forall k, In k v' <-> In k v0) by (intros v' Hv'; apply H; now right).
    destruct cur as [|c0 cur'] eqn:Ecur.
    - apply IH; [assumption|]. right. now split.
    - destruct Hc as [Hc|[Nc Sc]]; [discriminate|].
      assert (P : Permutation (c0 :: cur') v).
      { apply NoDup_Permutation; try assumption. intro k. now rewrite Sc, Sv. }
      rewrite (dedup_first_nodup_id (c0 :: cur') [] Nc) by (intros ? _ []).
      unfold len. rewrite (Permutation_length P), Z.eqb_refl. cbn [negb].
      assert (F : forallb (fun k => count_of eqb k v =? count_of eqb k (c0 :: cur')) (c0 :: cur') = true).
      { apply forallb_forall. intros k Hk. rewrite (count_of_nodup k v Nv), (count_of_nodup k (c0 :: cur') Nc).
        rewrite (proj2 (mem_In eqb Heq k (c0 :: cur')) Hk). rewrite (proj2 (mem_In eqb Heq k v) (Permutation_in k P Hk)). reflexivity. }
      rewrite F. apply IH; [assumption|]. right. now split.
  Qed.
End IdentLoop.

Lemma forallb_filter_id : forall {A} (f : A -> bool) l, forallb f l = true -> filter f l = l.
Proof.
  intros A f. induction l as [|x l IH]; intro H; [reflexivity|]. cbn [forallb] in H. apply andb_true_iff in H as [H1 H2].
  cbn [filter]. rewrite H1. f_equal. now apply IH.
Qed.

(* dropping the non-participating partitions is a filter *)
Lemma remove_first_filter : forall (q : tp) l, NoDup l -> remove_first tp_eqb q l = filter (fun y => negb (tp_eqb y q)) l.
Proof.
  intros q. induction l as [|y l IH]; intro N; [reflexivity|]. inversion N as [|? ? Hy Nl]; subst. cbn [remove_first filter].
  destruct (tp_eqb y q) eqn:E; cbn [negb].
  - apply tp_eqb_eq in E. subst y. symmetry. apply forallb_filter_id. apply forallb_forall. intros z Hz. apply negb_true_iff. apply tp_eqb_neq. intros ->. contradiction.
  - f_equal. now apply IH.
Qed.
Lemma drop_nonparticipating_keep : forall (p2c : p2c_t) keys sorted,
  (forall x, In x sorted -> In x keys -> part_can_participate p2c x = true) -> drop_nonparticipating p2c keys sorted = sorted.
Proof.
  intros p2c. induction keys as [|k keys IH]; intros sorted H; [reflexivity|]. cbn [drop_nonparticipating].
  destruct (part_can_participate p2c k) eqn:E.
  - apply IH. intros x H1 H2. apply H; [assumption | now right].
  - rewrite (remove_first_notin tp_eqb tp_spec k sorted).
    + apply IH. intros x H1 H2. apply H; [assumption | now right].
    + intro Hk. rewrite (H k Hk (or_introl eq_refl)) in E. discriminate.
Qed.
Lemma drop_nonparticipating_app : forall (p2c : p2c_t) keys a b, NoDup (a ++ b) ->
  (forall x, In x a -> part_can_participate p2c x = true) ->
  (forall x, In x b -> In x keys /\ part_can_participate p2c x = false) ->
  drop_nonparticipating p2c keys (a ++ b) = a.
Proof.
  intros p2c. induction keys as [|k keys IH]; intros a b N Ha Hb; cbn [drop_nonparticipating].
  - destruct b as [|y b]; [now rewrite app_nil_r|]. destruct (Hb y (or_introl eq_refl)) as [[] _].
  - apply NoDup_app_inv in N as N'. destruct N' as [Na [Nb Nab]].
    destruct (part_can_participate p2c k) eqn:E.
    + apply IH; [assumption | assumption|]. intros x Hx. destruct (Hb x Hx) as [[<-|H1] H2]; [congruence | now split].
    + destruct (in_dec (eq_dec_of tp_eqb tp_spec) k b) as [Hkb|Hkb].
      * assert (Hka : ~ In k a) by (intro H; now apply (Nab k H)).
        rewrite (remove_first_filter k (a ++ b) N). rewrite filter_app.
        rewrite (forallb_filter_id (fun y => negb (tp_eqb y k)) a) by (apply forallb_forall; intros z Hz; apply negb_true_iff; apply tp_eqb_neq; intros ->; contradiction).
        rewrite <- (remove_first_filter k b Nb).
        apply IH.
        -- apply NoDup_app_intro; [assumption | now apply (remove_first_NoDup tp_eqb tp_spec) |].
           intros x H1 H2. apply (Nab x H1). eapply remove_first_incl; eassumption.
        -- assumption.
        -- intros x Hx. assert (Hxb : In x b) by (eapply remove_first_incl; eassumption). destruct (Hb x Hxb) as [[E0|H1] H2]; [|now split].
           exfalso. subst x. now apply (remove_first_NoDup tp_eqb tp_spec k b Nb).
      * rewrite (remove_first_notin tp_eqb tp_spec k (a ++ b)).
        -- apply IH; [assumption | assumption|]. intros x Hx. destruct (Hb x Hx) as [[<-|H1] H2]; [contradiction | now split].
        -- intro H. apply in_app_or in H as [H|H]; [rewrite (Ha k H) in E; discriminate | contradiction].
Qed.

Lemma assign_all_skip : forall c2p (p2c : p2c_t) una ca cpc sorted, (forall x, In x una -> p2c_get p2c x = []) ->
  assign_all c2p p2c una ca cpc sorted = (ca, cpc, sorted).
Proof.
  intros c2p p2c. induction una as [|x r IH]; intros ca cpc sorted H; cbn [assign_all]; [reflexivity|].
  rewrite (H x (or_introl eq_refl)). apply IH. intros y Hy. apply H. now right.
Qed.

Lemma split_fixed_stays : forall c2p p2c ids ca fixed ca' fixed' m, split_fixed c2p p2c ids ca fixed = (ca', fixed') ->
  In m (akeys ca) -> member_can_participate ca c2p p2c m = true -> In m (akeys ca').
Proof.
  intros c2p p2c. induction ids as [|id r IH]; intros ca fixed ca' fixed' m E Hm Hp; cbn [split_fixed] in E.
  - now injection E as <- _.
  - destruct (member_can_participate ca c2p p2c id) eqn:Ei; [eapply IH; eauto|].
    assert (Nm : m <> id) by (intros ->; congruence).
    eapply IH; [exact E| |].
    + apply (adel_keys str_eqb str_spec). now split.
    + unfold member_can_participate in *. now rewrite ca_get_adel_other.
Qed.

Lemma pass_balanced_noop : forall fx prev c2p p2c parts s m, is_balanced (s_ca s) c2p = Some true ->
  reassign_pass fx prev c2p p2c parts s m = (s, m, PassDone).
Proof. intros fx prev c2p p2c parts s m H. destruct parts as [|x r]; cbn [reassign_pass]; [reflexivity | now rewrite H]. Qed.

Lemma assemble_holds : forall (ca : asg) m y, NoDup (akeys ca) -> (In y (holds (assemble ca []) m) <-> In y (ca_get ca m)).
Proof.
  intros ca m [t q] N. destruct (assemble_spec ca [] wf_plan_nil N) as [_ [P _]]; [intros ? _ []|]. simpl in P.
  rewrite holds_In. split.
  - intro H. apply (Permutation_in _ P) in H. apply asg_triples_In in H as [l [L1 L2]]. now rewrite (entry_ca_get m l ca N L1).
  - intro H. apply (Permutation_in _ (Permutation_sym P)). apply asg_triples_In. destruct (ca_get_In_entry m ca (t, q) H) as [l [L1 L2]]. now exists l.
Qed.
