(* C13 — sticky, identical subscriptions: when a member leaves, the others keep everything they had.
   Also: the preparation phase in stages, and the plan returned when the first pass finds nothing to move. *)
From Coq Require Import List ZArith Bool Lia Permutation.
From SV Require Import C08.Common C08.RoundRobin C08.Sticky C08.Valid C08.ProofsBase C08.ProofsStickyBase
  C08.ProofsStickyEnv C08.ProofsStickyKeep C08.ProofsStickyMove C08.ProofsStickySort C08.ProofsStickySorted C08.ProofsSticky
  C13.Model C13.ProofsRange C13.ProofsRR C13.ProofsStickyBalanced C13.ProofsStickyFixed.
Import ListNotations.
Open Scope Z_scope.

(* ---- Plan up to the end of the loop that keeps valid prior ownership ---- *)
Definition stage1 (o : oracle) (ms : list member) (ts : topics_t) : option (asg * prev_t * asg * p2c_t * asg * keep_st) :=
  match prepopulate o ms with
  | None => None
  | Some (ca0, prev) =>
    let '(c2p, p2c, ca1) := pot_members ts ms [] (p2c_init (all_tps ts)) ca0 in
    Some (ca0, prev, c2p, p2c, ca1,
          keep_members ms p2c (order_by str_eqb (o_plan_current o) (akeys ca1))
            {| k_ca := ca1; k_cpc := []; k_unvisited := akeys p2c; k_unassigned := [] |})
  end.

Lemma sticky_prepare_stage1 : forall o ms ts,
  sticky_prepare o ms ts =
  match stage1 o ms ts with
  | None => None
  | Some (ca0, prev, c2p, p2c, ca1, k) =>
    Some (balance_prepare o (k_ca k) prev
            (sort_partitions o (k_ca k) prev (match ca0 with [] => true | _ => false end) p2c c2p)
            (k_unassigned k ++ order_by tp_eqb (o_plan_unvisited o) (k_unvisited k))
            (sort_members (k_ca k)) c2p p2c (k_cpc k))
  end.
Proof.
  intros o ms ts. unfold sticky_prepare, stage1. destruct (prepopulate o ms) as [[ca0 prev]|]; [|reflexivity].
  destruct (pot_members ts ms [] (p2c_init (all_tps ts)) ca0) as [[c2p p2c] ca1]. reflexivity.
Qed.

(* ---- soundness of the reconstruction from user data ---- *)
Lemma prepop_assign_sound : forall p sp, sp_true p sp -> forall keys ca prev ca' prev',
  prepop_assign sp keys ca prev = (ca', prev') ->
  forall m x, In x (ca_get ca' m) -> In x (ca_get ca m) \/ In x (holds p m).
Proof.
  intros p sp S. induction keys as [|y r IH]; intros ca prev ca' prev' E m x H; cbn [prepop_assign] in E.
  - injection E as <- _. now left.
  - destruct (sort gen_greater match aget tp_eqb y sp with Some cs => cs | None => [] end) as [|[g0 c] rest] eqn:Es; [eapply IH; eauto|].
    assert (Hc : In y (holds p c)).
    { destruct (aget tp_eqb y sp) as [cs|] eqn:Eg.
      - apply (aget_In tp_eqb tp_spec) in Eg. destruct (S y cs Eg) as [_ S2]. apply (S2 g0 c). apply (sort_In gen_greater cs). rewrite Es. now left.
      - simpl in Es. discriminate. }
    assert (Step : In x (ca_get (aset str_eqb c (ca_get ca c ++ [y]) ca) m) -> In x (ca_get ca m) \/ In x (holds p m)).
    { intro H'. destruct (eq_dec_of str_eqb str_spec m c) as [->|N].
      - rewrite ca_get_aset_same in H'. apply in_app_or in H' as [H'|[<-|[]]]; [now left | now right].
      - rewrite ca_get_aset_other in H' by assumption. now left. }
    destruct rest as [|[g1 c1] rest']; (eapply IH in E; [|exact H]); destruct E as [E|E]; auto.
Qed.

Lemma keep_members_sub : forall ms p2c ids s m x,
  In x (ca_get (k_ca (keep_members ms p2c ids s)) m) -> In x (ca_get (k_ca s) m).
Proof.
  intros ms p2c. induction ids as [|id r IH]; intros s m x H; cbn [keep_members] in H; [assumption|].
  destruct (keep_parts ms p2c id (ca_get (k_ca s) id) [] (k_cpc s) (k_unvisited s) (k_unassigned s)) as [[[keep cpc] unv] una] eqn:E.
  apply IH in H. cbn [k_ca] in H.
  apply keep_parts_spec in E as [kn [bn [dn [K1 [_ [K3 _]]]]]]. simpl in K1. subst keep.
  destruct (eq_dec_of str_eqb str_spec m id) as [->|N].
  - rewrite ca_get_aset_same in H. apply (Permutation_in x (Permutation_sym K3)). apply in_or_app. now left.
  - now rewrite ca_get_aset_other in H.
Qed.

Lemma keep_members_keys : forall ms p2c ids s, (forall y, In y ids -> In y (akeys (k_ca s))) ->
  akeys (k_ca (keep_members ms p2c ids s)) = akeys (k_ca s).
Proof.
  intros ms p2c. induction ids as [|id r IH]; intros s H; cbn [keep_members]; [reflexivity|].
  destruct (keep_parts ms p2c id (ca_get (k_ca s) id) [] (k_cpc s) (k_unvisited s) (k_unassigned s)) as [[[keep cpc] unv] una].
  rewrite IH; cbn [k_ca].
  - apply (aset_keys_in str_eqb str_spec). apply H. now left.
  - intros y Hy. rewrite (aset_keys_in str_eqb str_spec) by (apply H; now left). apply H. now right.
Qed.

Lemma keep_members_nodup : forall ms p2c ids s, (forall m, NoDup (ca_get (k_ca s) m)) ->
  forall m, NoDup (ca_get (k_ca (keep_members ms p2c ids s)) m).
Proof.
  intros ms p2c. induction ids as [|id r IH]; intros s H m; cbn [keep_members]; [apply H|].
  destruct (keep_parts ms p2c id (ca_get (k_ca s) id) [] (k_cpc s) (k_unvisited s) (k_unassigned s)) as [[[keep cpc] unv] una] eqn:E.
  apply IH. cbn [k_ca]. intro m'.
  apply keep_parts_spec in E as [kn [bn [dn [K1 [_ [K3 _]]]]]]. simpl in K1. subst keep.
  destruct (eq_dec_of str_eqb str_spec m' id) as [->|N].
  - rewrite ca_get_aset_same. pose proof (Permutation_NoDup K3 (H id)) as HN. now apply NoDup_app_inv in HN.
  - rewrite ca_get_aset_other by assumption. apply H.
Qed.

(* what the kept lists are when everybody reports what it holds in p under one generation *)
Lemma stage1_exact : forall o cur ts p g ca0 prev c2p p2c ca1 k,
  wf_members cur -> wf_topics ts -> NoDup (assigned p) ->
  stage1 o (map (report p g) cur) ts = Some (ca0, prev, c2p, p2c, ca1, k) ->
  (forall m x, In x (ca_get (k_ca k) m) -> In x (holds p m)) /\
  (forall m x, In m (map m_id cur) -> In x (holds p m) -> pot cur ts m x -> In x (ca_get (k_ca k) m)) /\
  (forall m, In m (akeys (k_ca k)) <-> In m (map m_id cur)) /\ NoDup (akeys (k_ca k)) /\
  (forall m, NoDup (ca_get (k_ca k) m)).
Proof.
  intros o cur ts p g ca0 prev c2p p2c ca1 k Wm Wt V5 E.
  set (ms' := map (report p g) cur) in *.
  assert (Wm' : wf_members ms') by (unfold wf_members, ms'; now rewrite report_ids).
  assert (Hids : map m_id ms' = map m_id cur) by apply report_ids.
  unfold stage1 in E.
  destruct (prepopulate o ms') as [[ca0' prev']|] eqn:Epre; [|discriminate].
  destruct (prepopulate_ok ms' Wm' o ca0' prev' Epre) as [P1 [P2 P3]].
  destruct (pot_members ts ms' [] (p2c_init (all_tps ts)) ca0') as [[c2p' p2c'] ca1'] eqn:Epot.
  destruct (pot_members_facts ms' ts Wm' Wt ca0' c2p' p2c' ca1' P1 Epot) as [F1 [F2 [F3 [F4 [F5 [F6 [F7 F8]]]]]]].
  injection E as <- <- <- <- <- <-.
  unfold prepopulate in Epre.
  destruct (prepop_members_true p g cur (order_by str_eqb (o_prepop_members o) (map m_id ms')) []) as [sp [E1 [S1 [_ K1]]]]; [intros ? ? []|].
  fold ms' in E1. rewrite E1 in Epre. injection Epre as Epre.
  assert (Nsp : NoDup (akeys sp)).
  { eapply (prepop_members_ok ms' _ [] sp); [| |exact E1].
    - intros y Hy. now apply (order_by_spec str_eqb str_spec (o_prepop_members o) (map m_id ms') Wm') in Hy.
    - split; [constructor | intros ? ? ? ? []]. }
  destruct (order_by_spec tp_eqb tp_spec (o_prepop_parts o) (akeys sp) Nsp) as [O1 O2].
  destruct (order_by_spec str_eqb str_spec (o_plan_current o) (akeys ca1') F5) as [Q1 Q2].
  split; [|split].
  - intros m x H. apply keep_members_sub in H. cbn [k_ca] in H. rewrite F8 in H.
    destruct (prepop_assign_sound p sp S1 _ _ _ _ _ Epre m x H) as [[]|H']. exact H'.
  - intros m x Hm Hx Hp.
    assert (H0 : In x (ca_get ca0' m)).
    { eapply (prepop_assign_keeps p V5 sp S1 _ [] [] ca0' prev' Epre).
      - intros y Hy. now apply O2.
      - apply O2. apply (K1 m x); [|assumption|assumption].
        apply (order_by_spec str_eqb str_spec (o_prepop_members o) (map m_id ms') Wm'). now rewrite Hids.
      - assumption. }
    rewrite <- F8 in H0.
    apply keep_members_keeps; cbn [k_ca]; auto.
    + apply Q2. apply F6. right. now rewrite Hids.
    + rewrite F2. apply Hp.
    + unfold ms'. rewrite topics_of_report. apply topics_of_complete; [assumption | apply Hp].
  - assert (KK : akeys (k_ca (keep_members ms' p2c' (order_by str_eqb (o_plan_current o) (akeys ca1'))
                   {| k_ca := ca1'; k_cpc := []; k_unvisited := akeys p2c'; k_unassigned := [] |})) = akeys ca1').
    { apply keep_members_keys. intros y Hy. now apply Q2. }
    split; [|split].
    + intro m. rewrite KK, F6, Hids. split; [intros [H|H]; [rewrite <- Hids; now apply P2 | assumption] | now right].
    + now rewrite KK.
    + intro m. apply keep_members_nodup. cbn [k_ca]. intro m'. rewrite F8.
      pose proof (Permutation_NoDup (lists_split m' ca0' P1) P3) as H. now apply NoDup_app_inv in H.
Qed.

(* ---- with identical subscriptions the greedy assignment keeps all sizes within one ---- *)
Definition within1 (ca : asg) (K : list str) : Prop :=
  forall a b, In a K -> In b K -> len (ca_get ca a) <= len (ca_get ca b) + 1.

Lemma assign_all_within1 : forall ms ts c2p p2c K,
  (forall m q, In q (ca_get c2p m) <-> pot ms ts m q) -> (forall q m, In m (p2c_get p2c q) <-> pot ms ts m q) ->
  (forall m q, pot ms ts m q -> In m K) ->
  (forall x m0, pot ms ts m0 x -> forall m, In m K -> pot ms ts m x) ->
  forall una ca cpc sorted ca' cpc' sorted',
  assign_all c2p p2c una ca cpc sorted = (ca', cpc', sorted') ->
  akeys ca = K -> sorted = sort_members ca -> within1 ca K ->
  akeys ca' = K /\ within1 ca' K.
Proof.
  intros ms ts c2p p2c K Hc2p Hp2c HK Hid. induction una as [|x r IH]; intros ca cpc sorted ca' cpc' sorted' E Hk Hs Hw; cbn [assign_all] in E.
  - injection E as <- _ _. now split.
  - destruct (p2c_get p2c x) as [|m0 l0] eqn:Ep; [eapply IH; eauto|].
    assert (Hp0 : pot ms ts m0 x) by (apply Hp2c; rewrite Ep; now left).
    unfold assign_partition in E. subst sorted.
    destruct (sort_members ca) as [|f l] eqn:Es.
    { exfalso. assert (H : In m0 (sort_members ca)) by (apply sort_members_In; rewrite Hk; eapply HK; eassumption). now rewrite Es in H. }
    assert (Hf : In f K) by (rewrite <- Hk; apply sort_members_In; rewrite Es; now left).
    assert (Hpf : pot ms ts f x) by (eapply Hid; eassumption).
    cbn [first_potential] in E. rewrite (proj2 (mem_In tp_eqb tp_spec x (ca_get c2p f)) (proj2 (Hc2p f x) Hpf)) in E.
    eapply IH; [exact E| | reflexivity |].
    + rewrite (aset_keys_in str_eqb str_spec); [assumption | now rewrite Hk].
    + assert (SS : size_sorted ca (f :: l)) by (rewrite <- Es; apply size_sorted_sort).
      assert (Hmin : forall b, In b K -> len (ca_get ca f) <= len (ca_get ca b)).
      { intros b Hb. apply (size_sorted_bounds ca l f SS b). rewrite <- Es. apply sort_members_In. now rewrite Hk. }
      intros a b Ha Hb. pose proof (Hw a b Ha Hb) as Wab. pose proof (Hmin b Hb) as Mb. pose proof (Hw f b Hf Hb) as Wfb.
      assert (L1 : len (ca_get ca f ++ [x]) = len (ca_get ca f) + 1) by (rewrite len_app; unfold len at 2; simpl; lia).
      destruct (eq_dec_of str_eqb str_spec a f) as [Ea|Na]; destruct (eq_dec_of str_eqb str_spec b f) as [Eb|Nb]; subst;
        rewrite ?ca_get_aset_same, ?ca_get_aset_other by assumption; rewrite ?L1; lia.
Qed.

Lemma split_fixed_working : forall c2p p2c ids ca fixed ca' fixed', split_fixed c2p p2c ids ca fixed = (ca', fixed') ->
  forall m, In m (akeys ca') -> In m (akeys ca) /\ ca_get ca' m = ca_get ca m.
Proof.
  intros c2p p2c. induction ids as [|id r IH]; intros ca fixed ca' fixed' E m H; cbn [split_fixed] in E.
  - injection E as <- _. now split.
  - destruct (member_can_participate ca c2p p2c id); [eapply IH; eauto|].
    destruct (IH _ _ _ _ E m H) as [H1 H2]. apply (adel_keys str_eqb str_spec) in H1 as [N H1].
    split; [assumption|]. rewrite H2. now apply ca_get_adel_other.
Qed.

(* ---- the plan when the first pass of performReassignments finds nothing to move ---- *)
Lemma plan_of_no_move : forall fuel o ms ts pr, wf_members ms -> wf_topics ts ->
  sticky_prepare o ms ts = Some pr ->
  (forall x, In x (pr_parts pr) -> forall oc, In oc (p2c_get (pr_p2c pr) x) ->
     ~ (len (ca_get (s_ca (pr_s0 pr)) oc) + 1 < len (ca_get (s_ca (pr_s0 pr)) (cpc_get (s_cpc (pr_s0 pr)) x)))) ->
  exists p', sticky_plan (S fuel) true o ms ts = SOk p' /\
    forall m x, In x (holds p' m) <-> In x (ca_get (s_ca (pr_s0 pr)) m) \/ In x (ca_get (pr_fixed pr) m).
Proof.
  intros fuel o ms ts pr Wm Wt Ep Hno.
  pose proof (sticky_valid (S fuel) o ms ts Wm Wt) as SV. unfold sticky_plan. unfold sticky_plan_full in *. rewrite Ep in *.
  pose proof (sticky_prepare_ok o ms ts pr Wm Wt Ep) as [C1 C2 NW NF DJ FP KY ID RI PA PALL _].
  destruct (pass_no_move (pr_prev pr) (pr_c2p pr) (pr_p2c pr) (pr_parts pr) (pr_s0 pr) Hno) as [e Epass].
  unfold run_perform in *. cbn [perform] in *. rewrite Epass in *.
  destruct e.
  - unfold sticky_finish, balance_finish. cbn [b_ca b_end b_reverted p_res]. rewrite andb_false_r. cbn [andb].
    set (fin := add_back (pr_fixed pr) (s_ca (pr_s0 pr))).
    exists (assemble fin []). split; [reflexivity|].
    destruct (add_back_spec (pr_fixed pr) (s_ca (pr_s0 pr)) NF DJ NW) as [B1 [B2 [B3 B4]]]. fold fin in B1, B2, B3, B4.
    destruct (assemble_spec fin [] wf_plan_nil B1) as [_ [P _]]; [intros m _ []|]. simpl in P.
    assert (G : forall m, ca_get fin m = if mem str_eqb m (akeys (pr_fixed pr)) then ca_get (pr_fixed pr) m else ca_get (s_ca (pr_s0 pr)) m).
    { intro m. unfold fin. now apply add_back_get. }
    intros m [t q]. rewrite (holds_In (assemble fin []) m t q). split.
    + intro H. apply (Permutation_in _ P) in H. apply asg_triples_In in H as [l [L1 L2]].
      rewrite <- (entry_ca_get m l fin B1 L1) in L2. now apply B4.
    + intro H. apply (Permutation_in _ (Permutation_sym P)). apply asg_triples_In.
      assert (Hin : In (t, q) (ca_get fin m)).
      { rewrite G. destruct (mem str_eqb m (akeys (pr_fixed pr))) eqn:Em.
        - destruct H as [S1|S1]; [|assumption]. exfalso. apply (mem_In str_eqb str_spec) in Em.
          apply (DJ m Em). apply ca_get_nonempty_key. intro E0. now rewrite E0 in S1.
        - destruct H as [S1|S1]; [assumption|]. exfalso. apply (mem_false str_eqb str_spec) in Em. apply Em.
          apply ca_get_nonempty_key. intro E0. now rewrite E0 in S1. }
      destruct (ca_get_In_entry m fin (t, q) Hin) as [l [L1 L2]]. now exists l.
  - exfalso. unfold sticky_finish, balance_finish in SV. cbn [b_end p_res] in SV. exact SV.
Qed.

Lemma sticky_plan_fuel0 : forall fx o ms ts p, sticky_plan 0 fx o ms ts <> SOk p.
Proof.
  intros fx o ms ts p. unfold sticky_plan, sticky_plan_full. destruct (sticky_prepare o ms ts); [|discriminate].
  unfold run_perform. cbn [perform]. unfold sticky_finish, balance_finish. cbn [b_end p_res]. discriminate.
Qed.

(* ---- identical subscriptions: a balanced plan has totals within one ---- *)
Lemma identical_totals : forall ms ts p, valid_plan ms ts p -> kafka_balanced ms p -> identical_subscriptions ms ->
  forall a b, In a (map m_id ms) -> In b (map m_id ms) -> total p a <= total p b + 1.
Proof.
  intros ms ts p V KB Hid a b Ha Hb. destruct (Z_le_gt_dec (total p a) (total p b + 1)) as [H|H]; [assumption|]. exfalso.
  assert (Hne : holds p a <> []).
  { intro E0. unfold total in H. rewrite E0 in H. unfold len in H at 1. simpl in H. pose proof (len_nonneg (holds p b)). unfold total in H. lia. }
  destruct (holds p a) as [|[t q] r] eqn:Eh; [congruence|].
  assert (Hx : In (a, t, q) (triples p)) by (apply holds_In; rewrite Eh; now left).
  apply (KB b a t q Hb Hx); [lia|].
  destruct (vp_sound ms ts p V a t q Hx) as [[ma [A1 [A2 A3]]] _].
  apply in_map_iff in Hb as [mb [B1 B2]]. exists mb. split; [assumption|]. split; [assumption|]. now apply (Hid ma mb t A1 B2).
Qed.

(* ---- the theorem ---- *)
Theorem sticky_leave_keeps : sticky_leave_keeps_statement.
Proof.
  unfold sticky_leave_keeps_statement.
  intros fuel o ms ts p g leaver p' Wm Wt Hid V KB E m x Nm Hx.
  destruct fuel as [|fuel]; [exfalso; eapply sticky_plan_fuel0; eassumption|].
  set (cur := remaining ms leaver) in *.
  assert (Hcur : forall mm, In mm cur <-> In mm ms /\ m_id mm <> leaver).
  { intro mm. unfold cur, remaining. rewrite filter_In, negb_true_iff, str_eqb_neq. tauto. }
  assert (Wc : wf_members cur) by (unfold wf_members, cur, remaining; now apply NoDup_map_filter).
  set (ms' := map (report p g) cur) in *.
  assert (Wm' : wf_members ms') by (unfold wf_members, ms'; now rewrite report_ids).
  assert (Hids : map m_id ms' = map m_id cur) by apply report_ids.
  assert (Hsubc : forall a t, In a (map m_id cur) -> subscribes ms a t -> subscribes cur a t).
  { intros a t Ha [ma [A1 [A2 A3]]]. exists ma. split; [|now split]. apply Hcur. split; [assumption|].
    apply in_map_iff in Ha as [mc [C1 C2]]. apply Hcur in C2 as [_ C2]. congruence. }
  assert (Hidc : forall a, In a (map m_id cur) -> In a (map m_id ms)).
  { intros a Ha. apply in_map_iff in Ha as [mc [C1 C2]]. apply in_map_iff. exists mc. split; [assumption | now apply Hcur]. }
  pose proof V as [V1 V2 V3 V4 V5 V6].
  assert (Hmem : forall a y, In a (map m_id cur) -> In y (holds p a) -> pot cur ts a y).
  { intros a [t q] Ha H. apply holds_In in H. destruct (V4 a t q H) as [A B]. split; [apply all_tps_In; exact B | now apply Hsubc]. }
  assert (Hm : In m (map m_id cur)).
  { destruct x as [t q]. apply holds_In in Hx. destruct (V4 m t q Hx) as [[mm [A1 [A2 A3]]] _]. apply in_map_iff. exists mm. split; [assumption|]. apply Hcur. split; [assumption | congruence]. }
  destruct (sticky_prepare o ms' ts) as [pr|] eqn:Ep.
  2:{ exfalso. unfold sticky_plan, sticky_plan_full in E. rewrite Ep in E. discriminate. }
  destruct (plan_of_no_move fuel o ms' ts pr Wm' Wt Ep) as [p'' [E'' HP]].
  2:{ rewrite E'' in E. injection E as <-. apply HP. eapply (preparation_keeps o cur ts p g pr); eauto. }
  (* nobody is two ahead of anybody when performReassignments starts *)
  pose proof (sticky_prepare_ok o ms' ts pr Wm' Wt Ep) as [C1 C2 NW NF DJ FP KY ID RI PA PALL _].
  rewrite sticky_prepare_stage1 in Ep.
  destruct (stage1 o ms' ts) as [[[[[[ca0 prev] c2p] p2c] ca1] k]|] eqn:Est; [|discriminate].
  destruct (stage1_exact o cur ts p g ca0 prev c2p p2c ca1 k Wc Wt V5 Est) as [X1 [X2 [X3 [X4 X5]]]].
  injection Ep as Ep. unfold balance_prepare in Ep.
  destruct (assign_all c2p p2c _ (k_ca k) (k_cpc k) (sort_members (k_ca k))) as [[ca1' cpc1] sorted1] eqn:Eas.
  destruct (split_fixed c2p p2c (akeys c2p) ca1' []) as [ca2 fixed] eqn:Esp.
  subst pr. cbn [pr_c2p pr_p2c pr_parts pr_s0 pr_fixed s_ca s_cpc] in *.
  set (K := akeys (k_ca k)) in *.
  assert (Hpot' : forall a y, pot ms' ts a y <-> pot cur ts a y) by (intros a y; unfold pot, ms'; now rewrite subscribes_report).
  assert (W1 : within1 (k_ca k) K).
  { intros a b Ha Hb. apply X3 in Ha. apply X3 in Hb.
    assert (La : len (ca_get (k_ca k) a) <= total p a).
    { unfold total, len. apply inj_le. apply NoDup_incl_length; [apply X5 | intros y Hy; now apply X1]. }
    assert (Lb : total p b <= len (ca_get (k_ca k) b)).
    { unfold total, len. apply inj_le. apply NoDup_incl_length; [now apply holds_NoDup | intros y Hy; apply X2; auto]. }
    pose proof (identical_totals ms ts p V KB Hid a b (Hidc a Ha) (Hidc b Hb)). lia. }
  assert (HK' : forall a y, pot ms' ts a y -> In a K).
  { intros a y H. apply X3. apply Hpot' in H. destruct H as [_ [ma [A1 [A2 A3]]]]. apply in_map_iff. now exists ma. }
  assert (HID' : forall y m0, pot ms' ts m0 y -> forall a, In a K -> pot ms' ts a y).
  { intros y m0 H0 a Ha. apply X3 in Ha. apply Hpot'. apply Hpot' in H0. destruct H0 as [H1 [m1 [A1 [A2 A3]]]]. split; [assumption|].
    apply in_map_iff in Ha as [ma [B1 B2]]. exists ma. split; [assumption|]. split; [assumption|].
    apply Hcur in A1 as [A1 _]. apply Hcur in B2 as [B2 _]. now apply (Hid m1 ma (fst y) A1 B2). }
  destruct (assign_all_within1 ms' ts c2p p2c K C1 C2 HK' HID' _ _ _ _ _ _ _ Eas eq_refl eq_refl W1) as [K1 W2].
  intros y Hy oc Hoc Hlt. apply C2 in Hoc.
  assert (Hyl : In y (lists ca2)) by (eapply (owner_working ms' ts (akeys ca2) fixed NF DJ _ y oc RI); eauto).
  destruct (lists_ca_get ca2 y NW Hyl) as [m2 [M1 M2]].
  destruct (ri_sound ms' ts (akeys ca2) fixed _ RI m2 y M2) as [_ Ec]. cbn [s_cpc s_ca] in Ec. rewrite Ec in Hlt.
  assert (HocW : In oc (akeys ca2)) by (eapply (potential_working ms' ts p2c (akeys ca2) fixed FP KY _ y oc RI); eauto).
  destruct (split_fixed_working _ _ _ _ _ _ _ Esp oc HocW) as [O1 O2]. destruct (split_fixed_working _ _ _ _ _ _ _ Esp m2 M1) as [P1 P2].
  rewrite O2, P2 in Hlt. rewrite K1 in O1, P1. specialize (W2 m2 oc P1 O1). lia.
Qed.
