(* C13 — sticky, identical subscriptions, join: the preparation phase in detail and the theorem. *)
From Coq Require Import List ZArith Bool Lia Permutation.
From SV Require Import C08.Common C08.RoundRobin C08.Sticky C08.StickyDirect C08.Valid C08.ProofsBase C08.ProofsStickyBase
  C08.ProofsStickyEnv C08.ProofsStickyKeep C08.ProofsStickyMove C08.ProofsStickySort C08.ProofsStickySorted C08.ProofsSticky
  C08.ProofsStickyTerm
  C13.Model C13.ProofsRange C13.ProofsRR C13.ProofsStickyBalanced C13.ProofsStickyFixed C13.ProofsStickyLeave C13.ProofsStickyJoin.
Import ListNotations.
Open Scope Z_scope.

(* ---- exact lists of potential consumers ---- *)
Lemma mem_app : forall {A} (eqb : A -> A -> bool) x (a b : list A), mem eqb x (a ++ b) = mem eqb x a || mem eqb x b.
Proof. intros. unfold mem. apply existsb_app. Qed.

Lemma pot_parts_exact : forall mid tps c2p p2c c2p' p2c', pot_parts c2p p2c mid tps = (c2p', p2c') -> NoDup tps ->
  forall q, p2c_get p2c' q = p2c_get p2c q ++ (if mem tp_eqb q tps then [mid] else []).
Proof.
  intros mid. induction tps as [|p r IH]; intros c2p p2c c2p' p2c' E N q; cbn [pot_parts] in E.
  - injection E as _ <-. simpl. now rewrite app_nil_r.
  - inversion N as [|? ? Hp Nr]; subst. pose proof (IH _ _ _ _ E Nr q) as R1. rewrite R1. unfold mem. cbn [existsb]. fold (mem tp_eqb q r).
    destruct (tp_eqb q p) eqn:Eq.
    + apply tp_eqb_eq in Eq. subst q. rewrite p2c_get_aset_same. rewrite (proj2 (mem_false tp_eqb tp_spec p r) Hp). cbn [orb]. now rewrite app_nil_r.
    + apply tp_eqb_neq in Eq. rewrite (p2c_get_aset_other p q) by assumption. reflexivity.
Qed.

Lemma potl_cons : forall ts t r, potl ts (t :: r) = match aget str_eqb t ts with Some ps => expand_topic t ps | None => [] end ++ potl ts r.
Proof. reflexivity. Qed.

Lemma pot_topics_exact : forall ts mid subs c2p p2c c2p' p2c', pot_topics ts c2p p2c mid subs = (c2p', p2c') -> NoDup (potl ts subs) ->
  forall q, p2c_get p2c' q = p2c_get p2c q ++ (if mem tp_eqb q (potl ts subs) then [mid] else []).
Proof.
  intros ts mid. induction subs as [|t r IH]; intros c2p p2c c2p' p2c' E N q; cbn [pot_topics] in E.
  - injection E as _ <-. simpl. now rewrite app_nil_r.
  - rewrite potl_cons in *. destruct (aget str_eqb t ts) as [ps|].
    + destruct (pot_parts c2p p2c mid (expand_topic t ps)) as [c1 p1] eqn:E1.
      apply NoDup_app_inv in N as [N1 [N2 N3]].
      pose proof (IH _ _ _ _ E N2 q) as R1. pose proof (pot_parts_exact _ _ _ _ _ _ E1 N1 q) as R2. rewrite R1, R2. rewrite mem_app.
      destruct (mem tp_eqb q (expand_topic t ps)) eqn:Ea; destruct (mem tp_eqb q (potl ts r)) eqn:Eb; cbn [orb]; rewrite <- ?app_assoc; rewrite ?app_nil_r; try reflexivity.
      exfalso. apply (mem_In tp_eqb tp_spec) in Ea. apply (mem_In tp_eqb tp_spec) in Eb. now apply (N3 q).
    + simpl in N. simpl. exact (IH _ _ _ _ E N q).
Qed.

Lemma pot_members_exact : forall ts l c2p p2c ca c2p' p2c' ca', pot_members ts l c2p p2c ca = (c2p', p2c', ca') ->
  (forall mm, In mm l -> NoDup (potl ts (m_topics mm))) ->
  forall q, p2c_get p2c' q = p2c_get p2c q ++ map m_id (filter (fun mm => mem tp_eqb q (potl ts (m_topics mm))) l).
Proof.
  intros ts. induction l as [|m l IH]; intros c2p p2c ca c2p' p2c' ca' E H q; cbn [pot_members] in E.
  - injection E as _ <- _. simpl. now rewrite app_nil_r.
  - destruct (pot_topics ts (aset str_eqb (m_id m) [] c2p) p2c (m_id m) (m_topics m)) as [c1 p1] eqn:E1.
    pose proof (IH _ _ _ _ _ _ E (fun mm Hm => H mm (or_intror Hm)) q) as R1.
    pose proof (pot_topics_exact _ _ _ _ _ _ _ E1 (H m (or_introl eq_refl)) q) as R2. rewrite R1, R2. cbn [filter].
    destruct (mem tp_eqb q (potl ts (m_topics m))); cbn [map]; rewrite <- app_assoc; reflexivity.
Qed.

Lemma potl_NoDup : forall ts subs, wf_topics ts -> NoDup subs -> NoDup (potl ts subs).
Proof.
  intros ts subs [W1 W2]. induction subs as [|t r IH]; intro N; [constructor|]. inversion N as [|? ? Ht Nr]; subst.
  rewrite potl_cons. destruct (aget str_eqb t ts) as [ps|] eqn:E; [|now apply IH].
  apply (aget_In str_eqb str_spec) in E. apply NoDup_app_intro.
  - apply expand_topic_NoDup. now apply (W2 t).
  - now apply IH.
  - intros x H1 H2. apply expand_topic_In in H1 as [H1 _]. apply (potl_In ts (conj W1 W2)) in H2 as [_ H2]. rewrite H1 in H2. contradiction.
Qed.

(* ---- Plan up to the keep loop: invariants ---- *)
Lemma stage1_keep_inv : forall o ms ts ca0 prev c2p p2c ca1 k, wf_members ms -> wf_topics ts ->
  stage1 o ms ts = Some (ca0, prev, c2p, p2c, ca1, k) ->
  akeys c2p = map m_id ms /\ akeys p2c = all_tps ts /\
  (forall m q, In q (ca_get c2p m) <-> pot ms ts m q) /\ (forall q m, In m (p2c_get p2c q) <-> pot ms ts m q) /\
  keep_inv ms ts (akeys ca1) (order_by str_eqb (o_plan_current o) (akeys ca1)) k /\
  (forall m, In m (order_by str_eqb (o_plan_current o) (akeys ca1)) <-> In m (akeys ca1)) /\
  (forall m, ca_get ca1 m = ca_get ca0 m) /\
  ((forall mm, In mm ms -> NoDup (potl ts (m_topics mm))) ->
   (forall q, p2c_get p2c q = map m_id (filter (fun mm => mem tp_eqb q (potl ts (m_topics mm))) ms)) /\
   (forall mm, In mm ms -> ca_get c2p (m_id mm) = potl ts (m_topics mm))).
Proof.
  intros o ms ts ca0 prev c2p p2c ca1 k Wm Wt E. unfold stage1 in E.
  destruct (prepopulate o ms) as [[ca0' prev']|] eqn:Epre; [|discriminate].
  destruct (prepopulate_ok ms Wm o ca0' prev' Epre) as [P1 [P2 P3]].
  destruct (pot_members ts ms [] (p2c_init (all_tps ts)) ca0') as [[c2p' p2c'] ca1'] eqn:Epot.
  destruct (pot_members_facts ms ts Wm Wt ca0' c2p' p2c' ca1' P1 Epot) as [F1 [F2 [F3 [F4 [F5 [F6 [F7 F8]]]]]]].
  injection E as <- <- <- <- <- <-.
  assert (Nall : NoDup (all_tps ts)) by now apply all_tps_NoDup.
  destruct (order_by_spec str_eqb str_spec (o_plan_current o) (akeys ca1') F5) as [O1 O2].
  split; [exact F1|]. split; [exact F2|]. split; [exact F3|]. split; [exact F4|]. split; [|split; [exact O2|split; [exact F8|]]].
  - set (s0 := {| k_ca := ca1'; k_cpc := []; k_unvisited := akeys p2c'; k_unassigned := [] |}).
  assert (I0 : keep_inv ms ts (akeys ca1') [] s0).
  { constructor; unfold s0; cbn [k_ca k_cpc k_unvisited k_unassigned].
    - reflexivity.
    - rewrite app_nil_r, F7. exact P3.
    - now rewrite F2.
    - intros q Hq. rewrite F2 in Hq. split; [assumption|]. split; [intros [] | intros d []].
    - intros q Hq Hn. exfalso. apply Hn. now rewrite F2.
    - intros d q []. }
    exact (keep_members_inv ms ts p2c' F2 (akeys ca1') F5 _ [] s0 I0 O1 (fun x Hx => proj1 (O2 x) Hx)).
  - intro Hnd. split.
    + intro q. pose proof (pot_members_exact ts ms [] (p2c_init (all_tps ts)) ca0' c2p' p2c' ca1' Epot Hnd q) as R. now rewrite p2c_init_get in R.
    + intros mm Hm. pose proof (pot_members_spec ts ca0' ms [] [] _ _ _ _ _ Epot (pot_members_init ts ca0' P1) Wm) as [_ _ I3 _ _ _ _ _].
      now apply I3.
Qed.

Lemma find_member_In : forall ms mm, wf_members ms -> In mm ms -> find_member ms (m_id mm) = Some mm.
Proof.
  induction ms as [|x ms IH]; intros mm W H; [contradiction|]. unfold wf_members in W. simpl in W. inversion W as [|? ? Hx Wr]; subst.
  cbn [find_member]. destruct H as [->|H]; [now rewrite str_eqb_refl|].
  destruct (str_eqb (m_id mm) (m_id x)) eqn:E; [|now apply IH]. apply str_eqb_eq in E. exfalso. apply Hx. rewrite <- E. apply in_map_iff. now exists mm.
Qed.
