(* C13 — sticky, identical subscriptions, join: the preparation phase in detail and the theorem. *)
From Coq Require Import List ZArith Bool Lia Permutation.
From SV Require Import C08.Common C08.RoundRobin C08.Sticky C08.StickyDirect C08.Valid C08.ProofsBase C08.ProofsStickyBase
  C08.ProofsStickyEnv C08.ProofsStickyKeep C08.ProofsStickyMove C08.ProofsStickySort C08.ProofsStickySorted C08.ProofsSticky
  C08.ProofsStickyTerm
  C13.Model C13.ProofsRange C13.ProofsRR C13.ProofsStickyBalanced C13.ProofsStickyFixed C13.ProofsStickyLeave C13.ProofsStickyJoin C13.ProofsStickyExt.
Import ListNotations.
Open Scope Z_scope.

(* ---- exact lists of potential consumers ---- *)
Lemma mem_app : forall {A} (eqb : A -> A -> bool) x (a b : list A), mem eqb x (a ++ b) = mem eqb x a || mem eqb x b.
Proof. intros. unfold mem. apply existsb_app. Qed.

Lemma pot_parts_exact : forall mid tps c2p p2c c2p' p2c', pot_parts c2p p2c mid tps = (c2p', p2c') -> NoDup tps ->
  forall q, p2c_get p2c' q = p2c_get p2c q ++ (if mem tp_eqb q tps then [mid] else []).
Proof.
  intros mid. induction tps as [|p r IH]; intros c2p p2c c2p' p2c' E N q; cbn [pot_parts] in E.
  - injection E as _ <-. simpl. now rewrite app_nil_r.
  - inversion N as [|? ? Hp Nr]; subst. pose proof (IH _ _ _ _ E Nr q) as R1. rewrite R1. unfold mem. cbn [existsb]. fold (mem tp_eqb q r).
    destruct (tp_eqb q p) eqn:Eq.
    + apply tp_eqb_eq in Eq. subst q. rewrite p2c_get_aset_same. rewrite (proj2 (mem_false tp_eqb tp_spec p r) Hp). cbn [orb]. now rewrite app_nil_r.
    + apply tp_eqb_neq in Eq. rewrite (p2c_get_aset_other p q) by assumption. reflexivity.
Qed.

Lemma potl_cons : forall ts t r, potl ts (t :: r) = match aget str_eqb t ts with Some ps => expand_topic t ps | None => [] end ++ potl ts r.
Proof. reflexivity. Qed.

Lemma pot_topics_exact : forall ts mid subs c2p p2c c2p' p2c', pot_topics ts c2p p2c mid subs = (c2p', p2c') -> NoDup (potl ts subs) ->
  forall q, p2c_get p2c' q = p2c_get p2c q ++ (if mem tp_eqb q (potl ts subs) then [mid] else []).
Proof.
  intros ts mid. induction subs as [|t r IH]; intros c2p p2c c2p' p2c' E N q; cbn [pot_topics] in E.
  - injection E as _ <-. simpl. now rewrite app_nil_r.
  - rewrite potl_cons in *. destruct (aget str_eqb t ts) as [ps|].
    + destruct (pot_parts c2p p2c mid (expand_topic t ps)) as [c1 p1] eqn:E1.
      apply NoDup_app_inv in N as [N1 [N2 N3]].
      pose proof (IH _ _ _ _ E N2 q) as R1. pose proof (pot_parts_exact _ _ _ _ _ _ E1 N1 q) as R2. rewrite R1, R2. rewrite mem_app.
      destruct (mem tp_eqb q (expand_topic t ps)) eqn:Ea; destruct (mem tp_eqb q (potl ts r)) eqn:Eb; cbn [orb]; rewrite <- ?app_assoc; rewrite ?app_nil_r; try reflexivity.
      exfalso. apply (mem_In tp_eqb tp_spec) in Ea. apply (mem_In tp_eqb tp_spec) in Eb. now apply (N3 q).
    + simpl in N. simpl. exact (IH _ _ _ _ E N q).
Qed.

Lemma pot_members_exact : forall ts l c2p p2c ca c2p' p2c' ca', pot_members ts l c2p p2c ca = (c2p', p2c', ca') ->
  (forall mm, In mm l -> NoDup (potl ts (m_topics mm))) ->
  forall q, p2c_get p2c' q = p2c_get p2c q ++ map m_id (filter (fun mm => mem tp_eqb q (potl ts (m_topics mm))) l).
Proof.
  intros ts. induction l as [|m l IH]; intros c2p p2c ca c2p' p2c' ca' E H q; cbn [pot_members] in E.
  - injection E as _ <- _. simpl. now rewrite app_nil_r.
  - destruct (pot_topics ts (aset str_eqb (m_id m) [] c2p) p2c (m_id m) (m_topics m)) as [c1 p1] eqn:E1.
    pose proof (IH _ _ _ _ _ _ E (fun mm Hm => H mm (or_intror Hm)) q) as R1.
    pose proof (pot_topics_exact _ _ _ _ _ _ _ E1 (H m (or_introl eq_refl)) q) as R2. rewrite R1, R2. cbn [filter].
    destruct (mem tp_eqb q (potl ts (m_topics m))); cbn [map]; rewrite <- app_assoc; reflexivity.
Qed.

Lemma potl_NoDup : forall ts subs, wf_topics ts -> NoDup subs -> NoDup (potl ts subs).
Proof.
  intros ts subs [W1 W2]. induction subs as [|t r IH]; intro N; [constructor|]. inversion N as [|? ? Ht Nr]; subst.
  rewrite potl_cons. destruct (aget str_eqb t ts) as [ps|] eqn:E; [|now apply IH].
  apply (aget_In str_eqb str_spec) in E. apply NoDup_app_intro.
  - apply expand_topic_NoDup. now apply (W2 t).
  - now apply IH.
  - intros x H1 H2. apply expand_topic_In in H1 as [H1 _]. apply (potl_In ts (conj W1 W2)) in H2 as [_ H2]. rewrite H1 in H2. contradiction.
Qed.

(* ---- Plan up to the keep loop: invariants ---- *)
Lemma stage1_keep_inv : forall o ms ts ca0 prev c2p p2c ca1 k, wf_members ms -> wf_topics ts ->
  stage1 o ms ts = Some (ca0, prev, c2p, p2c, ca1, k) ->
  akeys c2p = map m_id ms /\ akeys p2c = all_tps ts /\
  (forall m q, In q (ca_get c2p m) <-> pot ms ts m q) /\ (forall q m, In m (p2c_get p2c q) <-> pot ms ts m q) /\
  keep_inv ms ts (akeys ca1) (order_by str_eqb (o_plan_current o) (akeys ca1)) k /\
  (forall m, In m (order_by str_eqb (o_plan_current o) (akeys ca1)) <-> In m (akeys ca1)) /\
  (forall m, ca_get ca1 m = ca_get ca0 m) /\
  ((forall mm, In mm ms -> NoDup (potl ts (m_topics mm))) ->
   (forall q, p2c_get p2c q = map m_id (filter (fun mm => mem tp_eqb q (potl ts (m_topics mm))) ms)) /\
   (forall mm, In mm ms -> ca_get c2p (m_id mm) = potl ts (m_topics mm))).
Proof.
  intros o ms ts ca0 prev c2p p2c ca1 k Wm Wt E. unfold stage1 in E.
  destruct (prepopulate o ms) as [[ca0' prev']|] eqn:Epre; [|discriminate].
  destruct (prepopulate_ok ms Wm o ca0' prev' Epre) as [P1 [P2 P3]].
  destruct (pot_members ts ms [] (p2c_init (all_tps ts)) ca0') as [[c2p' p2c'] ca1'] eqn:Epot.
  destruct (pot_members_facts ms ts Wm Wt ca0' c2p' p2c' ca1' P1 Epot) as [F1 [F2 [F3 [F4 [F5 [F6 [F7 F8]]]]]]].
  injection E as <- <- <- <- <- <-.
  assert (Nall : NoDup (all_tps ts)) by now apply all_tps_NoDup.
  destruct (order_by_spec str_eqb str_spec (o_plan_current o) (akeys ca1') F5) as [O1 O2].
  split; [exact F1|]. split; [exact F2|]. split; [exact F3|]. split; [exact F4|]. split; [|split; [exact O2|split; [exact F8|]]].
  - set (s0 := {| k_ca := ca1'; k_cpc := []; k_unvisited := akeys p2c'; k_unassigned := [] |}).
  assert (I0 : keep_inv ms ts (akeys ca1') [] s0).
  { constructor; unfold s0; cbn [k_ca k_cpc k_unvisited k_unassigned].
    - reflexivity.
    - rewrite app_nil_r, F7. exact P3.
    - now rewrite F2.
    - intros q Hq. rewrite F2 in Hq. split; [assumption|]. split; [intros [] | intros d []].
    - intros q Hq Hn. exfalso. apply Hn. now rewrite F2.
    - intros d q []. }
    exact (keep_members_inv ms ts p2c' F2 (akeys ca1') F5 _ [] s0 I0 O1 (fun x Hx => proj1 (O2 x) Hx)).
  - intro Hnd. split.
    + intro q. pose proof (pot_members_exact ts ms [] (p2c_init (all_tps ts)) ca0' c2p' p2c' ca1' Epot Hnd q) as R. now rewrite p2c_init_get in R.
    + intros mm Hm. pose proof (pot_members_spec ts ca0' ms [] [] _ _ _ _ _ Epot (pot_members_init ts ca0' P1) Wm) as [_ _ I3 _ _ _ _ _].
      now apply I3.
Qed.

Lemma find_member_In : forall ms mm, wf_members ms -> In mm ms -> find_member ms (m_id mm) = Some mm.
Proof.
  induction ms as [|x ms IH]; intros mm W H; [contradiction|]. unfold wf_members in W. simpl in W. inversion W as [|? ? Hx Wr]; subst.
  cbn [find_member]. destruct H as [->|H]; [now rewrite str_eqb_refl|].
  destruct (str_eqb (m_id mm) (m_id x)) eqn:E; [|now apply IH]. apply str_eqb_eq in E. exfalso. apply Hx. rewrite <- E. apply in_map_iff. now exists mm.
Qed.

Lemma lists_all_empty : forall (a : asg), (forall m l, In (m, l) a -> l = []) -> lists a = [].
Proof.
  induction a as [|[k v] a IH]; intro H; [reflexivity|]. rewrite lists_cons. rewrite (H k v (or_introl eq_refl)). simpl.
  apply IH. intros m l Hl. apply (H m l). now right.
Qed.

Lemma rr_seq_perm : forall a out, rr_seq a out -> NoDup (akeys a) -> Permutation out (lists a).
Proof.
  intros a out H. induction H as [a He | a c l0 x r Hc Hx Hmax HR IH]; intro N.
  - now rewrite (lists_all_empty a He).
  - rewrite (lists_split c a N), (entry_ca_get c l0 a N Hc).
    rewrite (remove_first_perm tp_eqb tp_spec x l0 Hx) at 1. simpl. constructor.
    rewrite IH by now apply (aset_NoDup str_eqb str_spec). now rewrite (lists_aset_split c _ a N).
Qed.

Lemma ca_get_filter_assigned : forall (ca : asg) (p2c : p2c_t) m,
  ca_get (filter_assigned ca p2c) m = filter (fun p => match aget tp_eqb p p2c with Some _ => true | None => false end) (ca_get ca m).
Proof.
  intros ca p2c m. unfold ca_get, filter_assigned. induction ca as [|[k v] ca IH]; [reflexivity|]. cbn [map aget fst snd].
  destruct (str_eqb m k); [reflexivity | exact IH].
Qed.

(* ---- the theorem ---- *)
Theorem sticky_join_no_shuffle : forall fuel o ms ts p g newm p',
  wf_members (newm :: ms) -> wf_topics ts -> identical_subscriptions (newm :: ms) ->
  (forall mm, In mm (newm :: ms) -> NoDup (m_topics mm)) ->
  (forall t ps, In (t, ps) ts -> In t (m_topics newm)) ->
  valid_plan ms ts p -> kafka_balanced ms p ->
  sticky_plan fuel true o (map (report p g) (newm :: ms)) ts = SOk p' ->
  forall m x, In x (holds p m) -> In x (holds p' m) \/ In x (holds p' (m_id newm)).
Proof.
  intros fuel o ms ts p g newm p' Wc Wt Hid Hnd Htop V KB E m x Hx.
  destruct fuel as [|fuel]; [exfalso; eapply sticky_plan_fuel0; eassumption|].
  set (cur := newm :: ms) in *. set (N := m_id newm) in *. set (ms' := map (report p g) cur) in *.
  assert (Wm' : wf_members ms') by (unfold wf_members, ms'; now rewrite report_ids).
  assert (Hids : map m_id ms' = map m_id cur) by apply report_ids.
  assert (Wms : wf_members ms) by (unfold wf_members in *; simpl in Wc; now inversion Wc).
  assert (NNo : ~ In N (map m_id ms)) by (unfold wf_members in Wc; simpl in Wc; now inversion Wc).
  pose proof V as [V1 V2 V3 V4 V5 V6].
  assert (HallT : forall mm t ps, In mm cur -> In (t, ps) ts -> In t (m_topics mm)).
  { intros mm t ps Hm Ht. apply (Hid newm mm t (or_introl eq_refl) Hm). eapply Htop; eassumption. }
  assert (PotAll : forall a y, In a (map m_id cur) -> In y (all_tps ts) -> pot cur ts a y).
  { intros a y Ha Hy. split; [assumption|]. apply in_map_iff in Ha as [ma [A1 A2]]. exists ma. split; [assumption|]. split; [assumption|].
    apply all_tps_In in Hy as [ps [H1 _]]. eapply HallT; eassumption. }
  assert (Hpot' : forall a y, pot ms' ts a y <-> pot cur ts a y) by (intros a y; unfold pot, ms'; now rewrite subscribes_report).
  assert (HN0 : holds p N = []).
  { destruct (holds p N) as [|[t q] r] eqn:Eh; [reflexivity|]. exfalso. apply NNo. apply V3.
    assert (H : In (t, q) (holds p N)) by (rewrite Eh; now left). apply holds_In in H. eapply triples_key; eassumption. }
  assert (Hheld : forall a y, In y (holds p a) -> In a (map m_id ms) /\ In y (all_tps ts)).
  { intros a [t q] H. apply holds_In in H. split; [apply V3; eapply triples_key; eassumption|]. apply all_tps_In. now apply (V4 a t q). }
  destruct (Hheld m x Hx) as [Hm Hxa].
  assert (NmN : m <> N) by (intros ->; contradiction).
  assert (IdsC : forall a, In a (map m_id ms) -> In a (map m_id cur)) by (intros a Ha; right; assumption).
  (* every assignable partition is held by an old member in p *)
  assert (Held : forall y, In y (all_tps ts) -> exists a, In y (holds p a)).
  { intros [t q] Hy. assert (Ha : In (t, q) (assigned p)).
    { apply V6; [now apply all_tps_In in Hy|]. exists m. apply in_map_iff in Hm as [mm [M1 M2]]. exists mm. split; [assumption|]. split; [assumption|].
      apply all_tps_In in Hy as [ps [H1 _]]. apply (HallT mm t ps); [now right | assumption]. }
    unfold assigned in Ha. apply in_map_iff in Ha as [[[a t'] q'] [Eq Ha]]. simpl in Eq. injection Eq as -> ->. exists a. now apply holds_In. }
  destruct (sticky_prepare o ms' ts) as [pr|] eqn:Ep.
  2:{ exfalso. unfold sticky_plan, sticky_plan_full in E. rewrite Ep in E. discriminate. }
  pose proof (sticky_prepare_ok o ms' ts pr Wm' Wt Ep) as [C1 C2 NW NF DJ FP KY ID RI PA PALL PS].
  unfold sticky_plan, sticky_plan_full in E. rewrite Ep in E.
  rewrite sticky_prepare_stage1 in Ep.
  destruct (stage1 o ms' ts) as [[[[[[ca0 prev] c2p] p2c] ca1] k]|] eqn:Est; [|discriminate].
  destruct (stage1_exact o cur ts p g ca0 prev c2p p2c ca1 k Wc Wt V5 Est) as [X1 [X2 [X3 [X4 X5]]]].
  destruct (stage1_keep_inv o ms' ts ca0 prev c2p p2c ca1 k Wm' Wt Est) as [F1 [F2 [F3 [F4 [KI [O2 [F8 FX]]]]]]].
  destruct KI as [K1 K2 K3 K4 K5 K6].
  destruct FX as [PX CX].
  { intros mm Hmm. apply potl_NoDup; [assumption|]. unfold ms' in Hmm. apply in_map_iff in Hmm as [m0 [<- H0]]. cbn [report m_topics]. now apply Hnd. }
  set (K := akeys (k_ca k)) in *.
  (* kept lists *)
  assert (Kx : forall a y, In y (holds p a) -> In y (ca_get (k_ca k) a)).
  { intros a y Hy. destruct (Hheld a y Hy) as [Ha Hya]. apply X2; auto. }
  assert (KN : ca_get (k_ca k) N = []).
  { destruct (ca_get (k_ca k) N) as [|y r] eqn:Ek; [reflexivity|]. exfalso. assert (H : In y (holds p N)) by (apply X1; rewrite Ek; now left). now rewrite HN0 in H. }
  assert (InP2c : forall a y, In y (ca_get (k_ca k) a) -> In y (all_tps ts)).
  { intros a y Hy. apply X1 in Hy. now apply (Hheld a y). }
  (* nothing assignable is waiting *)
  assert (Una0 : forall y, In y (k_unassigned k ++ order_by tp_eqb (o_plan_unvisited o) (k_unvisited k)) -> p2c_get p2c y = []).
  { intros y Hy. destruct (p2c_get p2c y) as [|m0 l0] eqn:Eg; [reflexivity|]. exfalso.
    assert (Hp0 : pot ms' ts m0 y) by (apply F4; rewrite Eg; now left).
    destruct (Held y (proj1 Hp0)) as [a Ha]. pose proof (Kx a y Ha) as Hk.
    apply in_app_or in Hy as [Hy|Hy].
    - apply NoDup_app_inv in K2 as [_ [_ D]]. apply (D y); [eapply ca_get_lists; eassumption | assumption].
    - apply (order_by_spec tp_eqb tp_spec (o_plan_unvisited o) (k_unvisited k) K3) in Hy.
      destruct (K4 y Hy) as [_ [_ A3]]. apply (A3 a); [|assumption]. apply O2. rewrite <- K1. apply X3. apply IdsC. now apply (Hheld a y). }
  injection Ep as Ep. unfold balance_prepare in Ep. rewrite (assign_all_skip c2p p2c _ (k_ca k) (k_cpc k) (sort_members (k_ca k)) Una0) in Ep.
  destruct (split_fixed c2p p2c (akeys c2p) (k_ca k) []) as [ca2 fixed] eqn:Esp.
  subst pr. cbn [pr_prev pr_c2p pr_p2c pr_parts pr_s0 pr_fixed pr_initializing s_ca s_cpc s_mov s_sorted s_picks] in *.
  set (s0 := {| s_ca := ca2; s_cpc := k_cpc k; s_mov := []; s_sorted := match fixed with [] => sort_members (k_ca k) | _ :: _ => sort_members ca2 end; s_picks := o_picks o |}) in *.
  set (W := akeys ca2) in *.
  (* who takes part *)
  assert (PN : pot ms' ts N x) by (apply Hpot'; apply PotAll; [now left | assumption]).
  assert (Two : forall a y, In y (ca_get (k_ca k) a) -> 2 <= len (p2c_get p2c y)).
  { intros a y Hy. assert (Ha : a <> N) by (intros ->; now rewrite KN in Hy).
    assert (Hyk : In a K) by (apply ca_get_nonempty_key; intro E0; now rewrite E0 in Hy).
    apply (two_distinct_len _ a N); [| |assumption].
    - apply F4. apply Hpot'. apply PotAll; [now apply X3 | eapply InP2c; eassumption].
    - apply F4. apply Hpot'. apply PotAll; [now left | eapply InP2c; eassumption]. }
  assert (Part : forall a, In a K -> (a = N \/ ca_get (k_ca k) a <> []) -> In a W).
  { intros a Ha Hc. eapply split_fixed_stays; [exact Esp | exact Ha|]. unfold member_can_participate.
    destruct (len (ca_get (k_ca k) a) <? len (ca_get c2p a)) eqn:El; [reflexivity|]. apply Z.ltb_ge in El.
    destruct Hc as [->|Hc].
    - exfalso. rewrite KN in El. apply F3 in PN. destruct (ca_get c2p N); [contradiction | unfold len in El; simpl in El; lia].
    - destruct (ca_get (k_ca k) a) as [|y r] eqn:Ek; [congruence|]. cbn [existsb]. unfold part_can_participate at 1.
      rewrite (proj2 (Z.leb_le _ _) (Two a y ltac:(rewrite Ek; now left))). reflexivity. }
  assert (HNK : In N K) by (apply X3; now left).
  assert (HNW : In N W) by (apply Part; [assumption | now left]).
  assert (Wget : forall a, In a W -> ca_get ca2 a = ca_get (k_ca k) a /\ In a K).
  { intros a Ha. destruct (split_fixed_working _ _ _ _ _ _ _ Esp a Ha) as [H1 H2]. now split. }
  assert (Hxk : In x (ca_get (k_ca k) m)) by now apply Kx.
  assert (HmW : In m W).
  { apply Part; [apply X3; now apply IdsC | right; intro E0; now rewrite E0 in Hxk]. }
  (* sizes of the old members' lists *)
  assert (Hidm : identical_subscriptions ms) by (intros m1 m2 t H1 H2; apply Hid; now right).
  assert (Sz : forall a, In a (map m_id ms) -> len (ca_get (k_ca k) a) = total p a).
  { intros a Ha. unfold total, len. f_equal. apply Permutation_length. apply NoDup_Permutation; [apply X5 | now apply holds_NoDup|].
    intro y. split; [apply X1 | apply Kx]. }
  assert (OldW : forall a, In a W -> a <> N -> In a (map m_id ms)).
  { intros a Ha Na. destruct (Wget a Ha) as [_ Hk]. apply X3 in Hk. destruct Hk as [Hk|Hk]; [exfalso; apply Na; symmetry; exact Hk | assumption]. }
  (* the list of reassignable partitions *)
  set (R0 := filter_assigned (k_ca k) p2c).
  assert (R0get : forall a, ca_get R0 a = ca_get (k_ca k) a).
  { intro a. unfold R0. rewrite ca_get_filter_assigned. apply forallb_filter_id. apply forallb_forall. intros y Hy.
    destruct (key_aget tp_eqb tp_spec y p2c) as [v Ev]; [rewrite F2; eapply InP2c; eassumption | now rewrite Ev]. }
  assert (R0k : akeys R0 = K) by (unfold R0; apply filter_assigned_keys).
  destruct (pq_loop_rr (total_len R0) prev R0 []) as [out [Eout RR]]; [now rewrite R0k | | reflexivity|].
  { intros a l Hl. rewrite <- (entry_ca_get a l R0) by (rewrite ?R0k; assumption). rewrite R0get. apply X5. }
  simpl in Eout.
  pose proof (rr_seq_perm R0 out RR ltac:(now rewrite R0k)) as Pout.
  assert (Lout : forall y, In y out <-> exists a, In y (ca_get (k_ca k) a)).
  { intro y. split.
    - intro H. apply (Permutation_in y Pout) in H. apply lists_ca_get in H; [|now rewrite R0k]. destruct H as [a [_ H]]. exists a. now rewrite <- R0get.
    - intros [a H]. apply (Permutation_in y (Permutation_sym Pout)). rewrite <- R0get in H. eapply ca_get_lists; eassumption. }
  assert (Fresh : match ca0 with [] => true | _ :: _ => false end = false).
  { destruct ca0; [|reflexivity]. exfalso.
    assert (Hsub : In x (ca_get ca1 m)).
    { unfold stage1 in Est. destruct (prepopulate o ms') as [[c0 pv]|]; [|discriminate]. destruct (pot_members ts ms' [] (p2c_init (all_tps ts)) c0) as [[a1 a2] a3].
      injection Est as _ _ _ _ E5 E6. rewrite <- E6 in Hxk. apply keep_members_sub in Hxk. cbn [k_ca] in Hxk. now rewrite <- E5. }
    rewrite F8 in Hsub. contradiction. }
  assert (Ident : subscriptions_identical o p2c c2p = true).
  { unfold subscriptions_identical. apply andb_true_iff. split.
    - apply (ident_loop_same_set str_eqb str_spec (map m_id ms')); [|now left].
      intros v Hv. apply in_map_iff in Hv as [y [<- Hy]].
      apply (order_by_spec tp_eqb tp_spec (o_ident_parts o) (akeys p2c)) in Hy; [|rewrite F2; now apply all_tps_NoDup]. rewrite F2 in Hy.
      rewrite PX. rewrite (forallb_filter_id _ ms'); [split; [exact Wm' | tauto]|].
      apply forallb_forall. intros mm Hmm. apply (mem_In tp_eqb tp_spec). apply potl_In; [assumption|]. split; [assumption|].
      unfold ms' in Hmm. apply in_map_iff in Hmm as [m0 [<- H0]]. cbn [report m_topics]. apply all_tps_In in Hy as [ps [H1 _]]. eapply HallT; eassumption.
    - apply (ident_loop_same_set tp_eqb tp_spec (all_tps ts)); [|now left].
      intros v Hv. apply in_map_iff in Hv as [a [<- Ha]].
      apply (order_by_spec str_eqb str_spec (o_ident_members o) (akeys c2p)) in Ha; [|rewrite F1; exact Wm']. rewrite F1 in Ha.
      apply in_map_iff in Ha as [mm [<- Hmm]]. rewrite (CX mm Hmm). split.
      + apply potl_NoDup; [assumption|]. unfold ms' in Hmm. apply in_map_iff in Hmm as [m0 [<- H0]]. cbn [report m_topics]. now apply Hnd.
      + intro y. rewrite (potl_In ts Wt). split; [tauto|]. intro Hy. split; [assumption|].
        unfold ms' in Hmm. apply in_map_iff in Hmm as [m0 [<- H0]]. cbn [report m_topics]. apply all_tps_In in Hy as [ps [H1 _]]. eapply HallT; eassumption. }
  assert (Eparts : drop_nonparticipating p2c (akeys p2c) (sort_partitions o (k_ca k) prev match ca0 with [] => true | _ :: _ => false end p2c c2p) = out).
  { pose proof (sort_partitions_ok o (k_ca k) prev match ca0 with [] => true | _ :: _ => false end p2c c2p X4) as SP.
    destruct SP as [SP1 SP2]; [now apply NoDup_app_inv in K2 | rewrite F2; now apply all_tps_NoDup|].
    unfold sort_partitions in *. rewrite Fresh, Ident in *. cbn [negb andb] in *. fold R0 in SP1, SP2 |- *. rewrite Eout in *.
    apply drop_nonparticipating_app; [exact SP1 | |].
    - intros y Hy. apply Lout in Hy as [a Ha]. unfold part_can_participate. apply Z.leb_le. eapply Two; eassumption.
    - intros y Hy. split; [apply SP2; apply in_or_app; now right|].
      unfold part_can_participate. destruct (p2c_get p2c y) as [|m0 l0] eqn:Eg; [reflexivity|]. exfalso.
      assert (Hp0 : pot ms' ts m0 y) by (apply F4; rewrite Eg; now left).
      destruct (Held y (proj1 Hp0)) as [a Ha]. assert (Hyo : In y out) by (apply Lout; exists a; now apply Kx).
      apply NoDup_app_inv in SP1 as [_ [_ D]]. now apply (D y). }
  rewrite Eparts in *.
  (* the pass *)
  assert (I0 : pinv ms' ts W fixed N s0 R0).
  { constructor.
    - split; assumption.
    - intros a Ha Na. left. cbn [s_ca s0]. rewrite R0get. now rewrite (proj1 (Wget a Ha)).
    - intros a b Ha Hb Na Nb. cbn [s_ca s0]. rewrite (proj1 (Wget a Ha)), (proj1 (Wget b Hb)).
      rewrite (Sz a (OldW a Ha Na)), (Sz b (OldW b Hb Nb)). eapply identical_totals; eauto.
    - intros a Ha Na. cbn [s_ca s0]. rewrite (proj1 (Wget N HNW)), KN. apply len_nonneg.
    - intros a y Hy. rewrite R0get in Hy. assert (Na : a <> N) by (intros ->; now rewrite KN in Hy).
      assert (HaW : In a W) by (apply Part; [apply ca_get_nonempty_key; intro E0; now rewrite E0 in Hy | right; intro E0; now rewrite E0 in Hy]).
      cbn [s_ca s0]. rewrite (proj1 (Wget a HaW)). auto.
    - intros q pr [].
    - now rewrite R0k.
    - intro a. rewrite R0get. apply X5. }
  assert (HallW : forall y m0, pot ms' ts m0 y -> forall a, In a W -> pot ms' ts a y).
  { intros y m0 H0 a Ha. apply Hpot'. apply PotAll; [apply X3; now apply Wget | apply H0]. }
  unfold run_perform in E. cbn [pr_prev pr_c2p pr_p2c pr_parts pr_s0] in E. cbn [perform] in E.
  destruct (reassign_pass true prev c2p p2c out s0 false) as [[s1 m1] e1] eqn:Epass.
  destruct (join_pass ms' ts c2p p2c C1 C2 W fixed NW FP KY N HNW HallW prev R0 out RR s0 false s1 m1 e1 I0 Epass) as [-> [OT [R' [I1 B1]]]].
  assert (Bal1 : is_balanced (s_ca s1) c2p = Some true).
  { destruct B1 as [B1|B1]; [assumption|]. pose proof I1 as [[RI1 _] _ _ _ _ _ _ _].
    apply (within1_balanced c2p W N HNW); [apply (ri_keys ms' ts W fixed s1 RI1) | eapply exhausted_within1; eassumption]. }
  match type of E with context [sticky_finish ?r _] => set (PR := r) in E end.
  assert (E' : exists pf, p_res (sticky_finish PR (s1, pf, PerfDone)) = SOk p').
  { destruct m1.
    - destruct fuel as [|fuel]; [cbn [perform] in E; unfold sticky_finish, balance_finish in E; cbn [b_end p_res] in E; discriminate|].
      cbn [perform] in E. rewrite (pass_balanced_noop true prev c2p p2c out s1 false Bal1) in E. now exists true.
    - now exists false. }
  destruct E' as [pf E']. unfold sticky_finish, balance_finish in E'. cbn [b_ca b_end b_reverted b_performed p_res] in E'.
  unfold PR in E'. cbn [pr_fixed pr_s0] in E'. injection E' as E'.
  pose proof I1 as [[RI1 _] _ _ _ _ _ _ _].
  pose proof (ri_keys ms' ts W fixed s1 RI1) as Ks1.
  assert (FinH : forall a y, In a W -> In y (ca_get (s_ca s1) a) -> In y (holds p' a)).
  { intros a y Ha Hy. rewrite <- E'.
    match goal with |- context [if ?c then _ else _] => destruct c end.
    - apply assemble_holds; [rewrite Ks1; exact NW | exact Hy].
    - destruct (add_back_spec fixed (s_ca s1) NF) as [B2 _]; [now rewrite Ks1 | rewrite Ks1; exact NW|].
      apply assemble_holds; [exact B2|]. rewrite add_back_get; [|assumption | now rewrite Ks1].
      rewrite (proj2 (mem_false str_eqb str_spec a (akeys fixed))); [exact Hy|]. intro H. now apply (DJ a H). }
  assert (Hx0 : In x (ca_get (s_ca s0) m)) by (cbn [s_ca s0]; now rewrite (proj1 (Wget m HmW))).
  destruct (OT m x Hx0) as [H|H]; [left | right]; now apply FinH.
Qed.

(* ---- every returned plan gives a partition to one member only, and only to members of the group (also in the
   revert branch of balance(): this part of validity does not depend on the fixed members) ---- *)
Lemma sticky_plan_functional : forall fuel o ms ts p', wf_members ms -> wf_topics ts ->
  sticky_plan fuel true o ms ts = SOk p' ->
  (forall a b y, In y (holds p' a) -> In y (holds p' b) -> a = b) /\
  (forall a y, In y (holds p' a) -> In a (map m_id ms)).
Proof.
  intros fuel o ms ts p' Wm Wt E. unfold sticky_plan, sticky_plan_full in E.
  destruct (sticky_prepare o ms ts) as [pr|] eqn:Ep; [|discriminate].
  destruct (sticky_prepare_ok o ms ts pr Wm Wt Ep) as [C1 C2 NW NF DJ FP KY ID RI PA PALL PS].
  unfold run_perform in E.
  destruct (perform fuel true (pr_prev pr) (pr_c2p pr) (pr_p2c pr) (pr_parts pr) (pr_s0 pr) false) as [[s' pf] e] eqn:Er.
  pose proof (perform_inv ms ts (pr_c2p pr) (pr_p2c pr) C1 C2 _ (pr_fixed pr) NW NF DJ FP KY (pr_prev pr) (pr_parts pr) fuel _ _ _ _ _ Er RI) as RI'.
  unfold sticky_finish, balance_finish in E. cbn [b_ca b_end b_reverted b_performed p_res] in E.
  destruct e; try discriminate. injection E as E.
  pose proof (ri_keys _ _ _ _ _ RI') as Ks. pose proof (ri_lists _ _ _ _ _ RI') as NL.
  assert (NKs : NoDup (akeys (s_ca s'))) by (rewrite Ks; exact NW).
  match type of E with assemble (if ?c then _ else _) [] = _ => destruct c end; subst p'.
  - split.
    + intros a b y Ha Hb. apply (assemble_holds _ _ _ NKs) in Ha. apply (assemble_holds _ _ _ NKs) in Hb.
      eapply (owner_unique (s_ca s') y); eauto. now apply NoDup_app_inv in NL.
    + intros a y Ha. apply (assemble_holds _ _ _ NKs) in Ha. apply ID. left. rewrite <- Ks. apply ca_get_nonempty_key. intro E0. now rewrite E0 in Ha.
  - destruct (add_back_spec (pr_fixed pr) (s_ca s') NF) as [B1 [B2 [B3 B4]]]; [now rewrite Ks | assumption|].
    split.
    + intros a b y Ha Hb. apply (assemble_holds _ _ _ B1) in Ha. apply (assemble_holds _ _ _ B1) in Hb.
      eapply (owner_unique _ y); eauto. eapply Permutation_NoDup; [symmetry; exact B3 | exact NL].
    + intros a y Ha. apply (assemble_holds _ _ _ B1) in Ha. apply ID. rewrite <- Ks. apply B2. apply ca_get_nonempty_key. intro E0. now rewrite E0 in Ha.
Qed.

(* ---- no pairwise swap within a topic across an unchanged replan, a leave or a join ---- *)
Theorem sticky_no_pair_swap_unchanged : forall fuel o ms ts p g p',
  wf_members ms -> wf_topics ts -> valid_plan ms ts p -> kafka_balanced ms p ->
  sticky_plan fuel true o (map (report p g) ms) ts = SOk p' -> ~ pair_swap p p'.
Proof.
  intros fuel o ms ts p g p' Wm Wt V KB E [t [q1 [q2 [a [b [Nab [H1 [H2 _]]]]]]]].
  destruct fuel as [|fuel]; [eapply sticky_plan_fuel0; eassumption|].
  destruct (sticky_fixed_point fuel o ms ts p g Wm Wt V KB) as [p'' [E'' SO]]. rewrite E'' in E. injection E as <-.
  apply SO in H2. apply Nab. eapply holds_unique; eauto. apply (vp_once ms ts p V).
Qed.

Theorem sticky_no_pair_swap_leave : forall fuel o ms ts p g leaver p',
  wf_members ms -> wf_topics ts -> identical_subscriptions ms -> valid_plan ms ts p -> kafka_balanced ms p ->
  sticky_plan fuel true o (map (report p g) (remaining ms leaver)) ts = SOk p' -> ~ pair_swap p p'.
Proof.
  intros fuel o ms ts p g leaver p' Wm Wt Hid V KB E [t [q1 [q2 [a [b [Nab [H1 [H2 [H3 H4]]]]]]]]].
  assert (Wr : wf_members (map (report p g) (remaining ms leaver))).
  { unfold wf_members. rewrite report_ids. unfold remaining. now apply NoDup_map_filter. }
  destruct (sticky_plan_functional fuel o _ ts p' Wr Wt E) as [F1 F2].
  destruct (eq_dec_of str_eqb str_spec a leaver) as [->|Na].
  - apply F2 in H4. rewrite report_ids in H4. apply in_map_iff in H4 as [mm [E1 E2]]. unfold remaining in E2. apply filter_In in E2 as [_ E2].
    apply negb_true_iff in E2. apply str_eqb_neq in E2. congruence.
  - pose proof (sticky_leave_keeps fuel o ms ts p g leaver p' Wm Wt Hid V KB E a (t, q1) Na H1) as K. apply Nab. eapply F1; eassumption.
Qed.

Theorem sticky_no_pair_swap_join : forall fuel o ms ts p g newm p',
  wf_members (newm :: ms) -> wf_topics ts -> identical_subscriptions (newm :: ms) ->
  (forall mm, In mm (newm :: ms) -> NoDup (m_topics mm)) ->
  (forall t ps, In (t, ps) ts -> In t (m_topics newm)) ->
  valid_plan ms ts p -> kafka_balanced ms p ->
  sticky_plan fuel true o (map (report p g) (newm :: ms)) ts = SOk p' -> ~ pair_swap p p'.
Proof.
  intros fuel o ms ts p g newm p' Wc Wt Hid Hnd Htop V KB E [t [q1 [q2 [a [b [Nab [H1 [H2 [H3 H4]]]]]]]]].
  assert (Wr : wf_members (map (report p g) (newm :: ms))) by (unfold wf_members; now rewrite report_ids).
  destruct (sticky_plan_functional fuel o _ ts p' Wr Wt E) as [F1 _].
  destruct (sticky_join_no_shuffle fuel o ms ts p g newm p' Wc Wt Hid Hnd Htop V KB E a (t, q1) H1) as [K|K].
  - apply Nab. eapply F1; eassumption.
  - assert (Eb : b = m_id newm) by (eapply F1; eassumption). subst b.
    apply holds_In in H3. apply triples_key in H3. apply (vp_members ms ts p V) in H3.
    unfold wf_members in Wc. simpl in Wc. inversion Wc. contradiction.
Qed.

(* ---- the same with the new member as it really arrives: any user data without claims (nil user data decodes to no partitions,
   generation 0) ---- *)
Lemma join_group_equiv : forall ms ts p g newm ge, wf_members (newm :: ms) -> valid_plan ms ts p -> m_ud newm = UD [] ge ->
  Forall2 member_equiv (newm :: map (report p g) ms) (map (report p g) (newm :: ms)).
Proof.
  intros ms ts p g newm ge Wc V Hu. cbn [map]. constructor.
  - split; [reflexivity|]. split; [reflexivity|]. right. exists ge, (Some g). split; [assumption|]. cbn [report m_ud]. f_equal.
    destruct (holds p (m_id newm)) as [|[t q] r] eqn:Eh; [reflexivity|]. exfalso.
    assert (H : In (t, q) (holds p (m_id newm))) by (rewrite Eh; now left). apply holds_In in H. apply triples_key in H. apply (vp_members ms ts p V) in H.
    unfold wf_members in Wc. simpl in Wc. inversion Wc. contradiction.
  - clear. induction (map (report p g) ms) as [|a l IH]; constructor; [|assumption]. split; [reflexivity|]. split; [reflexivity | now left].
Qed.

Theorem sticky_join_no_shuffle_real : forall fuel o ms ts p g newm ge p',
  wf_members (newm :: ms) -> wf_topics ts -> identical_subscriptions (newm :: ms) ->
  (forall mm, In mm (newm :: ms) -> NoDup (m_topics mm)) ->
  (forall t ps, In (t, ps) ts -> In t (m_topics newm)) ->
  m_ud newm = UD [] ge -> valid_plan ms ts p -> kafka_balanced ms p ->
  sticky_plan fuel true o (newm :: map (report p g) ms) ts = SOk p' ->
  forall m x, In x (holds p m) -> In x (holds p' m) \/ In x (holds p' (m_id newm)).
Proof.
  intros fuel o ms ts p g newm ge p' Wc Wt Hid Hnd Htop Hu V KB E.
  rewrite (sticky_plan_equiv fuel true o _ _ ts (join_group_equiv ms ts p g newm ge Wc V Hu)) in E.
  eapply sticky_join_no_shuffle; eassumption.
Qed.

Theorem sticky_no_pair_swap_join_real : forall fuel o ms ts p g newm ge p',
  wf_members (newm :: ms) -> wf_topics ts -> identical_subscriptions (newm :: ms) ->
  (forall mm, In mm (newm :: ms) -> NoDup (m_topics mm)) ->
  (forall t ps, In (t, ps) ts -> In t (m_topics newm)) ->
  m_ud newm = UD [] ge -> valid_plan ms ts p -> kafka_balanced ms p ->
  sticky_plan fuel true o (newm :: map (report p g) ms) ts = SOk p' -> ~ pair_swap p p'.
Proof.
  intros fuel o ms ts p g newm ge p' Wc Wt Hid Hnd Htop Hu V KB E.
  rewrite (sticky_plan_equiv fuel true o _ _ ts (join_group_equiv ms ts p g newm ge Wc V Hu)) in E.
  eapply sticky_no_pair_swap_join; eassumption.
Qed.
