(* WireFmt.Group — the group-protocol entry points that decode data written by OTHER group members:
   JoinGroupResponse.GetMembers (one ConsumerGroupMemberMetadata blob per member), SyncGroupResponse.GetMemberAssignment,
   deserializeTopicPartitionAssignment (sticky user data: V1, else V0).  Executable definitions only.
   encoder_decoder.go decode(buf, in): a nil buffer returns nil without touching [in]; the entry points decode every blob
   into a FRESH value, so a null blob yields the zero value. *)
From Coq Require Import List ZArith Bool.
From SV Require Import WireFmt.Format.
Import ListNotations.
Open Scope Z_scope.

(* decode(bin, new(T)) for a non-versioned decoder (version 0 in the table) *)
Definition decode_blob (cfg : pcfg) (cap : option Z) (fd : fmt) (zero : value) (b : option (list Z)) : outcome value :=
  match b with
  | None => Ok zero
  | Some bs => dec_top cfg cap fd 0 zero bs
  end.

(* GetMembers: the per-blob decoder mapped over the members (in whatever order the map is iterated);
   the first failure is the result of the whole call *)
Fixpoint get_members {K : Type} (d : option (list Z) -> outcome value) (ms : list (K * option (list Z)))
  : outcome (list (K * value)) :=
  match ms with
  | [] => Ok []
  | (k, b) :: r => bind (d b) (fun y => bind (get_members d r) (fun l => Ok ((k, y) :: l)))
  end.

(* deserializeTopicPartitionAssignment: V1, and V0 if V1 returns an error (tag 1 / 0 says which one decoded) *)
Definition sticky_user_data (d1 d0 : option (list Z) -> outcome value) (b : option (list Z)) : outcome (Z * value) :=
  match d1 b with
  | Ok y => Ok (1, y)
  | Err => bind (d0 b) (fun y => Ok (0, y))
  | Panic => Panic
  | Alloc n => Alloc n
  end.
