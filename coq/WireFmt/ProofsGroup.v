(* Per-member independence of GetMembers: the metadata a member gets depends on that member's bytes only. *)
From Coq Require Import List ZArith Bool Permutation.
From SV Require Import WireFmt.Format WireFmt.Group WireFmt.ProofsSafe.
Import ListNotations.
Open Scope Z_scope.

Section Members.
Context {K : Type}.
Variable d : option (list Z) -> outcome value.

(* a successful call returns, member by member, exactly the decode of that member's own blob *)
Lemma get_members_ok : forall (ms : list (K * option (list Z))) l,
  get_members d ms = Ok l ->
  Forall2 (fun m r => fst r = fst m /\ d (snd m) = Ok (snd r)) ms l.
Proof.
  induction ms as [|[k b] r IH]; intros l H; cbn [get_members] in H.
  - injection H as <-. constructor.
  - destruct (d b) as [y| | |] eqn:Eb; cbn [bind] in H; try discriminate.
    destruct (get_members d r) as [l'| | |] eqn:Er; cbn [bind] in H; try discriminate.
    injection H as <-. constructor; [split; [reflexivity | exact Eb] | apply IH; reflexivity].
Qed.

(* it succeeds exactly when every member's own blob decodes *)
Lemma get_members_ok_iff : forall (ms : list (K * option (list Z))),
  is_ok (get_members d ms) = forallb (fun m => is_ok (d (snd m))) ms.
Proof.
  induction ms as [|[k b] r IH]; cbn [get_members forallb]; [reflexivity|].
  cbn [snd]. destruct (d b) as [y| | |]; cbn [bind is_ok andb]; try reflexivity.
  rewrite <- IH. destruct (get_members d r); reflexivity.
Qed.

(* independence: whatever the other members sent (and wherever this member sits in the iteration), a member whose
   blob is b is given d b *)
Theorem members_independent : forall (ms ms' : list (K * option (list Z))) l l' i j k k' b,
  get_members d ms = Ok l -> get_members d ms' = Ok l' ->
  nth_error ms i = Some (k, b) -> nth_error ms' j = Some (k', b) ->
  exists y, d b = Ok y /\ nth_error l i = Some (k, y) /\ nth_error l' j = Some (k', y).
Proof.
  intros ms ms' l l' i j k k' b H H' Hi Hj.
  assert (A : forall (m : list (K * option (list Z))) r n kk, Forall2 (fun m r => fst r = fst m /\ d (snd m) = Ok (snd r)) m r ->
            nth_error m n = Some (kk, b) -> exists y, d b = Ok y /\ nth_error r n = Some (kk, y)).
  { intros m r n kk F. revert n. induction F as [|[k0 b0] [k1 y1] m r [E1 E2] F IH]; intros n Hn.
    - destruct n; discriminate.
    - destruct n as [|n]; cbn [nth_error] in *.
      + injection Hn as -> ->. cbn [fst snd] in *. subst k1. exists y1. split; [exact E2 | reflexivity].
      + apply IH; exact Hn. }
  destruct (A ms l i k (get_members_ok ms l H) Hi) as [y [Ey Hl]].
  destruct (A ms' l' j k' (get_members_ok ms' l' H') Hj) as [y' [Ey' Hl']].
  rewrite Ey in Ey'. injection Ey' as <-. exists y. auto.
Qed.

(* the iteration order of the map does not matter *)
Theorem members_order_irrelevant : forall (ms ms' : list (K * option (list Z))) l,
  Permutation ms ms' -> get_members d ms = Ok l ->
  exists l', get_members d ms' = Ok l' /\ Permutation l l'.
Proof.
  intros ms ms' l P. revert l. induction P as [| [k b] r r' P IH | [k1 b1] [k2 b2] r | r1 r2 r3 P1 IH1 P2 IH2]; intros l H.
  - exists l. split; [exact H | apply Permutation_refl].
  - cbn [get_members] in *. destruct (d b) as [y| | |]; cbn [bind] in *; try discriminate.
    destruct (get_members d r) as [l0| | |] eqn:E; cbn [bind] in *; try discriminate.
    injection H as <-. destruct (IH l0 eq_refl) as [l1 [E1 P1]]. rewrite E1. cbn [bind].
    exists ((k, y) :: l1). split; [reflexivity | constructor; exact P1].
  - cbn [get_members] in *. destruct (d b2) as [y2| | |]; cbn [bind] in *; try discriminate.
    destruct (d b1) as [y1| | |]; cbn [bind] in *; try discriminate.
    destruct (get_members d r) as [l0| | |]; cbn [bind] in *; try discriminate.
    injection H as <-. exists ((k1, y1) :: (k2, y2) :: l0). split; [reflexivity | apply perm_swap].
  - destruct (IH1 l H) as [l1 [E1 Q1]]. destruct (IH2 l1 E1) as [l2 [E2 Q2]].
    exists l2. split; [exact E2 | eapply Permutation_trans; eassumption].
Qed.

(* and the call is as safe as the per-blob decoder *)
Lemma get_members_safe : forall (ms : list (K * option (list Z))),
  (forall m, In m ms -> safe_outcome (d (snd m))) -> safe_outcome (get_members d ms).
Proof.
  induction ms as [|[k b] r IH]; intros S; cbn [get_members]; [exact I|].
  pose proof (S (k, b) (or_introl eq_refl)) as Sb. cbn [snd] in Sb.
  destruct (d b) as [y| | |]; cbn [bind]; try exact Sb; try exact I.
  assert (Sr : safe_outcome (get_members d r)) by (apply IH; intros m Hm; apply S; right; exact Hm).
  destruct (get_members d r); cbn [bind]; try exact Sr; exact I.
Qed.
End Members.

(* with a guarded blob format: GetMembers over arbitrary member blobs returns a value or an error *)
Theorem members_safe_guarded : forall (K : Type) cfg fd zero cap (ms : list (K * option (list Z))),
  guarded cfg fd = true ->
  (forall k bs, In (k, Some bs) ms -> bytes_ok bs = true /\ zlen bs < 2 ^ 63 /\ max_esize fd * zlen bs <= cap) ->
  safe_outcome (get_members (decode_blob cfg (Some cap) fd zero) ms).
Proof.
  intros K cfg fd zero cap ms G H. apply get_members_safe. intros [k [bs|]] Hm; cbn [snd decode_blob]; [|exact I].
  destruct (H k bs Hm) as [B [L C]]. apply format_safe_top; assumption.
Qed.
