(* WireFmt.Proofs — the generic C09 theorems over the format language:
     sizing_agrees      enc_prep f v x = zlen (enc_real f v x)
     format_roundtrip   dec cfg None f v x0 (enc_real f v x ++ rest) = Ok (upd f v x0 x, rest)
   (the pair theorems are in ProofsPair.v, the C10 theorems in ProofsSafe.v). *)
From Coq Require Import List ZArith Bool Lia.
From SV Require Import WireFmt.Format WireFmt.ProofsPrim.
Import ListNotations.
Open Scope Z_scope.

Ltac Zify.zify_post_hook ::= Z.div_mod_to_equations.

(* ================================================================== 1. the sizing pass agrees with the writing pass *)
Lemma prep_list_len prepE encE l :
  (forall y, prepE y = zlen (encE y)) -> prep_list prepE l = zlen (enc_list encE l).
Proof.
  intros H. induction l as [|y l IH]; cbn [prep_list enc_list]; [reflexivity|].
  rewrite zlen_app, H, IH. reflexivity.
Qed.

Lemma prep_arr_len k o prepE encE :
  (forall y, prepE y = zlen (encE y)) -> prep_arr k o prepE = zlen (enc_arr k o encE).
Proof.
  intros H. unfold prep_arr, enc_arr. rewrite zlen_app, <- (prep_list_len prepE encE _ H). f_equal.
  destruct (ak_elen k); destruct (writes_null (ak_enull k) o); cbn [enc_null enc_count];
    rewrite ?zlen_be, ?uvarint_size_len; reflexivity.
Qed.

Theorem sizing_agrees : forall f v x, enc_prep f v x = zlen (enc_real f v x).
Proof.
  intros f v.
  induction f as [|a IHa b IHb|c a IHa b IHb|p c pa|p z| |pa|pa z|lbl k pa zero e IHe];
    intros x; cbn [enc_prep enc_real].
  - reflexivity.
  - rewrite zlen_app, IHa, IHb. reflexivity.
  - destruct (veval c v); auto.
  - apply prep_prim_len.
  - apply prep_prim_len.
  - reflexivity.
  - reflexivity.
  - reflexivity.
  - apply prep_arr_len. exact IHe.
Qed.

(* ================================================================== 2. round trip *)

(* the number of bytes per element the count check of each getter presumes *)
Definition min_elem (k : akind) : Z :=
  match ak_dlen k with DLU32 w => w | DLStrArr => 2 | DLCompactI32 => 4 | _ => 1 end.

Lemma enc_count_len_pos el n : 1 <= zlen (enc_count el n).
Proof. destruct el; cbn [enc_count]; [rewrite zlen_be; lia|apply uvarint_len_pos]. Qed.

Lemma enc_null_len_pos el : 1 <= zlen (enc_null el).
Proof. destruct el; cbn [enc_null]; [rewrite zlen_be; lia|rewrite zlen_cons, zlen_nil; lia]. Qed.

Lemma enc_arr_len_pos k o encE : 1 <= zlen (enc_arr k o encE).
Proof.
  unfold enc_arr. rewrite zlen_app. pose proof (zlen_nonneg (enc_list encE (olist o))) as H.
  destruct (writes_null (ak_enull k) o);
    [pose proof (enc_null_len_pos (ak_elen k))|pose proof (enc_count_len_pos (ak_elen k) (zlen (olist o)))]; lia.
Qed.

Lemma nonempty_len e v : nonempty e v = true -> forall y, 1 <= zlen (enc_real e v y).
Proof.
  induction e as [|a IHa b IHb|c a IHa b IHb|p c pa|p z| |pa|pa z|lbl k pa zero e IHe];
    cbn [nonempty enc_real]; intros H y; try discriminate.
  - rewrite zlen_app. pose proof (zlen_nonneg (enc_real a v y)). pose proof (zlen_nonneg (enc_real b v y)).
    apply orb_true_iff in H. destruct H as [H|H]; [specialize (IHa H y)|specialize (IHb H y)]; lia.
  - destruct (veval c v); auto.
  - apply enc_prim_len_pos.
  - apply enc_prim_len_pos.
  - apply enc_arr_len_pos.
Qed.

Lemma prim_eqb_eq a b : prim_eqb a b = true -> a = b.
Proof. destruct a, b; cbn; intros H; try discriminate; reflexivity. Qed.

Lemma conv_eqb_eq a b : conv_eqb a b = true -> a = b.
Proof. destruct a, b; cbn; intros H; try discriminate; reflexivity. Qed.

Lemma path_eqb_eq a : forall b, path_eqb a b = true -> a = b.
Proof.
  induction a as [|x a IH]; intros [|y b] H; cbn [path_eqb] in H; try discriminate; [reflexivity|].
  apply andb_true_iff in H. destruct H as [H1 H2]. apply Nat.eqb_eq in H1. subst. f_equal. auto.
Qed.

Lemma elem_is_enc e p v y : elem_is e p = true -> enc_real e v y = enc_prim p CId y.
Proof.
  destruct e as [|a b| | p' c pa | | | | |]; cbn [elem_is]; try discriminate.
  - destruct a as [| | | p' c pa | | | | |]; try discriminate.
    destruct c; try discriminate. destruct pa; try discriminate. destruct b; try discriminate.
    intros H. apply prim_eqb_eq in H. subst p'. cbn [enc_real vget]. apply app_nil_r.
  - destruct c; try discriminate. destruct pa; try discriminate.
    intros H. apply prim_eqb_eq in H. subst p'. reflexivity.
Qed.

Lemma min_elem_le k e v :
  elem_fits k e = true -> nonempty e v = true -> forall y, min_elem k <= zlen (enc_real e v y).
Proof.
  unfold elem_fits, min_elem. intros Hf Hn y.
  destruct (ak_dlen k) as [| |w| | |]; try (apply nonempty_len; exact Hn).
  - destruct (w =? 4) eqn:E4.
    + apply Z.eqb_eq in E4. subst w. rewrite (elem_is_enc _ _ v y Hf). cbn [enc_prim]. rewrite zlen_be. lia.
    + destruct (w =? 8) eqn:E8; [|discriminate].
      apply Z.eqb_eq in E8. subst w. rewrite (elem_is_enc _ _ v y Hf). cbn [enc_prim]. rewrite zlen_be. lia.
  - rewrite (elem_is_enc _ _ v y Hf). cbn [enc_prim]. rewrite zlen_app, zlen_be.
    pose proof (zlen_nonneg (olist (as_bytes y))). lia.
  - rewrite (elem_is_enc _ _ v y Hf). cbn [enc_prim]. rewrite zlen_be. lia.
Qed.

Lemma enc_list_len_ge encE c l :
  (forall y, c <= zlen (encE y)) -> c * zlen l <= zlen (enc_list encE l).
Proof.
  intros H. induction l as [|y l IH]; cbn [enc_list].
  - unfold zlen. cbn [length]. lia.
  - rewrite zlen_cons, zlen_app. specialize (H y). lia.
Qed.

Lemma dec_loop_rt decE encE updE wtE :
  (forall y r, wtE y = true -> decE (encE y ++ r) = Ok (updE y, r)) ->
  forall l rest, wt_list wtE l = true ->
  dec_loop decE (length l) (enc_list encE l ++ rest) = Ok (upd_list updE l, rest).
Proof.
  intros H. induction l as [|y l IH]; intros rest Hwt; cbn [length dec_loop enc_list upd_list wt_list] in *.
  - reflexivity.
  - apply andb_true_iff in Hwt. destruct Hwt as [Hy Hl].
    rewrite <- app_assoc, (H y _ Hy). cbn [bind]. rewrite (IH rest Hl). reflexivity.
Qed.

Definition null_compat (el : elen) (dl : dlen) : bool :=
  match el, dl with
  | ELI32, DLArr | ELI32, DLI32 | ELCompact, DLCompact | ELCompact, DLCompactI32 => true
  | _, _ => false
  end.
Definition null_count (el : elen) (dl : dlen) : Z :=
  match el, dl with ELCompact, DLCompact => 0 | _, _ => -1 end.

Lemma read_count_null cfg el dl r :
  null_compat el dl = true -> read_count cfg dl (enc_null el ++ r) = Ok (null_count el dl, r).
Proof.
  pose proof (zlen_nonneg r) as Hr.
  destruct el, dl; cbn [null_compat]; intros H; try discriminate; cbn [read_count enc_null null_count].
  - rewrite get_int_be4. cbn [bind]. rewrite wraps32_id by lia.
    destruct (zlen r <? -1) eqn:E; [apply Z.ltb_lt in E; lia|].
    change (131070 <? -1) with false. change (-1 <? -1) with false. rewrite andb_false_r. reflexivity.
  - rewrite get_int_be4. rewrite wraps32_id by lia. reflexivity.
  - reflexivity.
  - reflexivity.
Qed.

Lemma read_count_count cfg k n r :
  len_compat k k = true -> 0 <= n <= max_count k -> min_elem k * n <= zlen r ->
  read_count cfg (ak_dlen k) (enc_count (ak_elen k) n ++ r) = Ok (n, r).
Proof.
  unfold len_compat, max_count, min_elem. pose proof (zlen_nonneg r) as Hr.
  destruct (ak_elen k), (ak_dlen k) as [| |w| | |]; intros Hc Hn Hm; try discriminate;
    cbn [read_count enc_count].
  - rewrite get_int_be4. cbn [bind]. rewrite wraps32_id by lia.
    destruct (zlen r <? n) eqn:E1; [apply Z.ltb_lt in E1; lia|].
    destruct (131070 <? n) eqn:E2; [apply Z.ltb_lt in E2; lia|].
    destruct (n <? -1) eqn:E3; [apply Z.ltb_lt in E3; lia|]. rewrite andb_false_r. reflexivity.
  - rewrite get_int_be4. rewrite wraps32_id by lia. reflexivity.
  - rewrite get_uint_be4. cbn [bind]. rewrite Z.mod_small by lia.
    destruct (zlen r <? w * n) eqn:E1; [apply Z.ltb_lt in E1; lia|]. reflexivity.
  - rewrite get_uint_be4. cbn [bind]. rewrite Z.mod_small by lia.
    destruct (zlen r <? 2 * n) eqn:E1; [apply Z.ltb_lt in E1; lia|]. rewrite andb_false_r. reflexivity.
  - rewrite get_uvarint_small by lia. cbn [bind].
    destruct (n + 1 =? 0) eqn:E0; [apply Z.eqb_eq in E0; lia|].
    destruct (zlen r <? n + 1 - 1) eqn:E1; [apply Z.ltb_lt in E1; lia|]. rewrite andb_false_r.
    rewrite to_int64_id by lia. do 2 f_equal. lia.
  - rewrite get_uvarint_small by lia. cbn [bind].
    destruct (n + 1 =? 0) eqn:E0; [apply Z.eqb_eq in E0; lia|].
    destruct (zlen r / 4 <? n + 1 - 1) eqn:E1; [apply Z.ltb_lt in E1; lia|]. rewrite andb_false_r.
    rewrite to_int64_id by lia. do 2 f_equal. lia.
Qed.

Lemma writes_null_nil en o : writes_null en o = true -> olist o = [].
Proof.
  destruct en; cbn [writes_null]; try discriminate.
  - destruct (olist o); [reflexivity|discriminate].
  - destruct o; [discriminate|reflexivity].
Qed.

Lemma writes_null_kind en o : writes_null en o = true -> en = EEmptyNull \/ en = ENilNull.
Proof. destruct en; cbn [writes_null]; try discriminate; auto. Qed.

Lemma apply_beh_ok b pa x0 : beh_ok b = true -> apply_beh b pa x0 = Ok (upd_beh b pa x0).
Proof. destruct b; cbn; try discriminate; reflexivity. Qed.

Lemma null_compat_of k o :
  len_compat k k = true -> writes_null (ak_enull k) o = true -> null_compat (ak_elen k) (ak_dlen k) = true.
Proof.
  intros Hc Hw. apply writes_null_kind in Hw. unfold len_compat in Hc.
  destruct (ak_elen k), (ak_dlen k); try discriminate; try reflexivity;
    destruct Hw as [Hw|Hw]; rewrite Hw in Hc; discriminate.
Qed.

Lemma null_beh_ok k o :
  beh_ok (ak_zero k) = true -> null_seen_ok k k = true -> writes_null (ak_enull k) o = true ->
  beh_ok (count_beh k (null_count (ak_elen k) (ak_dlen k))) = true.
Proof.
  intros Hz Hn Hw. apply writes_null_kind in Hw. unfold null_seen_ok in Hn. unfold count_beh.
  destruct (ak_elen k), (ak_dlen k); cbn [null_count];
    first [ exact Hz | destruct Hw as [Hw|Hw]; rewrite Hw in Hn; exact Hn ].
Qed.

Lemma null_count_nonpos el dl : (0 <? null_count el dl) = false.
Proof. destruct el, dl; reflexivity. Qed.

Lemma dec_arr_rt cfg k pa encE decE updE wtE o x0 rest :
  arr_compat k k = true ->
  (forall y, min_elem k <= zlen (encE y)) ->
  (forall y r, wtE y = true -> decE (encE y ++ r) = Ok (updE y, r)) ->
  zlen (olist o) <= max_count k -> wt_list wtE (olist o) = true ->
  dec_arr cfg None k pa decE x0 (enc_arr k o encE ++ rest) =
  Ok (match olist o with
      | [] => upd_beh (count_beh k (seen_count k o)) pa x0
      | l => vset pa (VList (Some (upd_list updE l))) x0
      end, rest).
Proof.
  intros Hac Hmin Hdec Hmax Hwt.
  unfold arr_compat in Hac. apply andb_true_iff in Hac. destruct Hac as [Hac _].
  apply andb_true_iff in Hac. destruct Hac as [Hac Hns].
  apply andb_true_iff in Hac. destruct Hac as [Hlc Hz].
  unfold dec_arr, enc_arr, seen_count. rewrite <- app_assoc.
  destruct (writes_null (ak_enull k) o) eqn:Ewn.
  - rewrite (writes_null_nil _ _ Ewn). cbn [enc_list app].
    rewrite (read_count_null cfg _ _ rest (null_compat_of k o Hlc Ewn)). cbn [bind].
    rewrite null_count_nonpos.
    fold (null_count (ak_elen k) (ak_dlen k)).
    rewrite (apply_beh_ok _ pa x0 (null_beh_ok k o Hz Hns Ewn)). reflexivity.
  - pose proof (zlen_nonneg (olist o)) as Hl0.
    rewrite read_count_count; [|exact Hlc|lia|].
    2:{ rewrite zlen_app. pose proof (enc_list_len_ge encE (min_elem k) (olist o) Hmin).
        pose proof (zlen_nonneg rest). lia. }
    cbn [bind]. destruct (olist o) as [|y l] eqn:El.
    + change (zlen (@nil value)) with 0. cbn [enc_list app]. change (0 <? 0) with false. cbv iota.
      unfold count_beh. change (0 =? 0) with true. cbv iota.
      rewrite (apply_beh_ok _ pa x0 Hz). reflexivity.
    + destruct (0 <? zlen (y :: l)) eqn:E0; [|apply Z.ltb_ge in E0; rewrite zlen_cons in E0; pose proof (zlen_nonneg l); lia].
      cbn [over_cap]. rewrite andb_false_r. rewrite to_nat_zlen.
      rewrite (dec_loop_rt decE encE updE wtE Hdec (y :: l) rest Hwt). reflexivity.
Qed.

Theorem format_roundtrip : forall cfg f v x x0 rest,
  wf f v = true -> wt f v x = true ->
  dec cfg None f v x0 (enc_real f v x ++ rest) = Ok (upd f v x0 x, rest).
Proof.
  intros cfg f v.
  induction f as [|a IHa b IHb|c a IHa b IHb|p c pa|p z| |pa|pa z|lbl k pa zero e IHe];
    intros x x0 rest Hwf Hwt; cbn [dec enc_real upd wf wt] in *.
  - reflexivity.
  - apply andb_true_iff in Hwf. destruct Hwf as [Hwa Hwb].
    apply andb_true_iff in Hwt. destruct Hwt as [Hta Htb].
    rewrite <- app_assoc, (IHa x x0 _ Hwa Hta). cbn [bind]. apply IHb; assumption.
  - destruct (veval c v); auto.
  - apply andb_true_iff in Hwt. destruct Hwt as [_ Hp].
    rewrite (dec_prim_roundtrip cfg p c _ rest Hp). reflexivity.
  - rewrite (dec_prim_roundtrip cfg p CId (VInt z) rest).
    + reflexivity.
    + destruct p; try discriminate; reflexivity.
  - reflexivity.
  - reflexivity.
  - reflexivity.
  - apply andb_true_iff in Hwf. destruct Hwf as [Hwf Hwe].
    apply andb_true_iff in Hwf. destruct Hwf as [Hwf Hne].
    apply andb_true_iff in Hwf. destruct Hwf as [Hac Hef].
    apply andb_true_iff in Hwt. destruct Hwt as [_ Hwt].
    destruct (vget pa x) as [|?|o|?] eqn:Evg; try discriminate. cbn [as_list].
    apply andb_true_iff in Hwt. destruct Hwt as [Hwt _].
    apply andb_true_iff in Hwt. destruct Hwt as [Hmax Hwl]. apply Z.leb_le in Hmax.
    apply (dec_arr_rt cfg k pa (enc_real e v) (dec cfg None e v zero) (upd e v zero) (wt e v)).
    + exact Hac.
    + apply min_elem_le; assumption.
    + intros y r Hy. apply IHe; assumption.
    + exact Hmax.
    + exact Hwl.
Qed.

Theorem format_roundtrip_top : forall cfg f v x x0,
  wf f v = true -> wt f v x = true ->
  dec_top cfg None f v x0 (enc_real f v x) = Ok (upd f v x0 x).
Proof.
  intros cfg f v x x0 Hwf Hwt. unfold dec_top.
  rewrite <- (app_nil_r (enc_real f v x)), (format_roundtrip cfg f v x x0 [] Hwf Hwt). reflexivity.
Qed.
