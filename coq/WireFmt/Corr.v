(* WireFmt.Corr — correspondence functions for the format layer (C09b / C10b).
   The harnesses go/harness/cmd/c09fmt and c10fmt write what the implementation did as [c09case] /
   [c10case] values; [ok09]/[ok10] re-run the format interpreter on the regenerated table
   (build/<id>/GenFormats.v) and compare projected, canonicalised observables. *)
From Coq Require Import List ZArith Bool String.
From SV Require Import Base.Corr WireFmt.Format WireFmt.Group.
Import ListNotations.
Open Scope Z_scope.

(* ------------------------------------------------------------------ comparing and canonicalising values *)
Fixpoint value_eqb (a b : value) : bool :=
  match a, b with
  | VInt x, VInt y => x =? y
  | VBytes o1, VBytes o2 => option_eqb (list_eqb Z.eqb) o1 o2
  | VList None, VList None => true
  | VList (Some l1), VList (Some l2) =>
      (fix go (l1 l2 : list value) : bool :=
         match l1, l2 with
         | [], [] => true
         | x :: r, y :: s => value_eqb x y && go r s
         | _, _ => false
         end) l1 l2
  | VStruct l1, VStruct l2 =>
      (fix go (l1 l2 : list value) : bool :=
         match l1, l2 with
         | [], [] => true
         | x :: r, y :: s => value_eqb x y && go r s
         | _, _ => false
         end) l1 l2
  | _, _ => false
  end.

(* order of map keys as the dumper sorts them: integers numerically, strings bytewise *)
Fixpoint bytes_ltb (a b : list Z) : bool :=
  match a, b with
  | [], [] => false
  | [], _ :: _ => true
  | _ :: _, [] => false
  | x :: a', y :: b' => if x <? y then true else if y <? x then false else bytes_ltb a' b'
  end.
Definition key_ltb (a b : value) : bool :=
  match a, b with
  | VInt x, VInt y => x <? y
  | VBytes (Some x), VBytes (Some y) => bytes_ltb x y
  | _, _ => false
  end.
Definition entry_key (e : value) : value := match e with VStruct (k :: _) => k | _ => VInt 0 end.
Fixpoint insert_entry (e : value) (l : list value) : list value :=
  match l with
  | [] => [e]
  | x :: r => if key_ltb (entry_key x) (entry_key e) then x :: insert_entry e r else e :: l
  end.
Fixpoint sort_entries (l : list value) : list value :=
  match l with
  | [] => []
  | x :: r => insert_entry x (sort_entries r)
  end.

Fixpoint map_values (f : value -> value) (l : list value) : list value :=
  match l with [] => [] | x :: r => f x :: map_values f r end.

(* entries of every Go map the format reaches, sorted by key *)
Fixpoint canon (f : fmt) (v : Z) (y : value) : value :=
  match f with
  | FSeq a b => canon b v (canon a v y)
  | FGate c a b => if veval c v then canon a v y else canon b v y
  | FArr _ k pa _ e =>
      match vget pa y with
      | VList (Some l) =>
          let l' := map_values (canon e v) l in
          vset pa (VList (Some (if ak_map k then sort_entries l' else l'))) y
      | _ => y
      end
  | _ => y
  end.

(* masks: paths of fields the decoder derives from others (not compared); -1 = every element *)
Fixpoint vmask (p : list Z) (y : value) : value :=
  match p with
  | [] => VInt 0
  | i :: p' =>
      if i <? 0 then
        match y with
        | VList (Some l) => VList (Some (map_values (vmask p') l))
        | _ => y
        end
      else
        match y with
        | VStruct fs =>
            match nth_error fs (Z.to_nat i) with
            | Some old => VStruct (set_nth (Z.to_nat i) (vmask p' old) fs)
            | None => y
            end
        | _ => y
        end
  end.
Definition vmask_all (ms : list (list Z)) (y : value) : value := fold_left (fun acc p => vmask p acc) ms y.

(* ------------------------------------------------------------------ C09: value round trips *)
Record c09case := {
  c_row : nat;                 (* index into the table *)
  c_v : Z;
  c_x : value;                 (* the value, dumped before encoding *)
  c_bytes : list Z;            (* what the implementation's encoder produced *)
  c_prep : Z;                  (* length computed by its sizing pass *)
  c_dec : value;               (* what its decoder made of those bytes (maps sorted by key) *)
  c_mask : list (list Z);
  c_exact : bool               (* the encoding is deterministic (no map, or only sorted maps) *)
}.

Definition dummy_row : row :=
  {| r_name := ""; r_vmin := 0; r_vmax := 0; r_zero := VInt 0; r_ver := None; r_enc := None; r_dec := None; r_untrusted := false |}.

Definition ver_ok (r : row) (v : Z) (x : value) : bool :=
  match r_ver r with Some p => value_eqb (vget p x) (VInt v) | None => true end.

Definition ok09 (cfg : pcfg) (tbl : list row) (c : c09case) : bool :=
  let r := nth (c_row c) tbl dummy_row in
  let v := c_v c in
  let x := c_x c in
  (c_prep c =? zlen (c_bytes c)) &&
  match r_enc r with
  | Some fe =>
      (enc_prep fe v x =? zlen (c_bytes c)) &&
      (negb (c_exact c) || list_eqb Z.eqb (enc_real fe v x) (c_bytes c))
  | None => true
  end &&
  match r_dec r with
  | Some fd =>
      match dec_top cfg None fd v (r_zero r) (c_bytes c) with
      | Ok y =>
          value_eqb (vmask_all (c_mask c) (canon fd v y)) (vmask_all (c_mask c) (c_dec c)) &&
          match r_enc r with
          | Some fe =>
              (* the model's encoder reproduces the implementation's bytes from the decoded value (wire order kept) *)
              list_eqb Z.eqb (enc_real fe v y) (c_bytes c) &&
              (* and the instance of the round-trip theorem: hypotheses hold, normal form = decoded value *)
              mirror_at v fd fe && wf (paired v fd fe) v && wt (paired v fd fe) v x && ver_ok r v x &&
              value_eqb (canon fd v (upd (paired v fd fe) v (r_zero r) x)) (canon fd v y)
          | None => true
          end
      | _ => false
      end
  | None => true
  end.

Definition mismatches_09 (cfg : pcfg) (tbl : list row) := mismatches (ok09 cfg tbl).

(* ------------------------------------------------------------------ C10: malformed input *)
(* outcome classes: 0 value, 1 error, 2 panic, 3 allocation above the cap / out of memory *)
Definition class_of {A} (o : outcome A) : Z :=
  match o with Ok _ => 0 | Err => 1 | Panic => 2 | Alloc _ => 3 end.

Record c10case := {
  d_row : nat;
  d_v : Z;
  d_bytes : list Z;
  d_class : Z;                 (* what the implementation did *)
  d_cap : Z;                   (* allocation cap of the subprocess, bytes *)
  d_lenient : bool             (* the decoder validates values beyond the format: an error where the model decodes is fine *)
}.

Definition ok10 (cfg : pcfg) (tbl : list row) (c : c10case) : bool :=
  let r := nth (d_row c) tbl dummy_row in
  match r_dec r with
  | Some fd =>
      let m := class_of (dec_top cfg (Some (d_cap c)) fd (d_v c) (r_zero r) (d_bytes c)) in
      (m =? d_class c) || (d_lenient c && (m =? 0) && (d_class c =? 1))
  | None => true
  end.

Definition mismatches_10 (cfg : pcfg) (tbl : list row) := mismatches (ok10 cfg tbl).

(* ------------------------------------------------------------------ C10: witnesses for unguarded sites *)
(* the shortest input that reaches the collection labelled [site] and presents it with the count -1 (or, when
   [huge], the largest count): every earlier field is given its smallest encoding. None: the site does not occur. *)
Definition min_prim (p : prim) : list Z :=
  match p with
  | PI8 | PBool => [0]
  | PI16 => [0; 0]
  | PI32 => [0; 0; 0; 0]
  | PI64 => [0; 0; 0; 0; 0; 0; 0; 0]
  | PStr | PNStr => [0; 0]
  | PCStr | PCNStr | PCBytes => [1]
  | PBytes => [0; 0; 0; 0]
  end.

Definition count_bytes (dl : dlen) (n : Z) : list Z :=
  match dl with
  | DLCompact | DLCompactI32 => uvarint (n + 1)
  | _ => be 4 n
  end.

(* the count that makes an unguarded collection misbehave *)
Definition attack_count (cfg : pcfg) (k : akind) : Z :=
  if can_null (ak_dlen k) && negb (beh_ok (ak_null k)) then -1
  else if can_neg cfg (ak_dlen k) && negb (beh_ok (ak_neg k)) then -2
  else 2 ^ 31 - 1.

(* (bytes, reached) *)
Fixpoint witness (cfg : pcfg) (f : fmt) (v : Z) (site : string) : list Z * bool :=
  match f with
  | FNil | FSetVer _ | FSetConst _ _ => ([], false)
  | FSeq a b =>
      let '(ba, ra) := witness cfg a v site in
      if ra then (ba, true) else let '(bb, rb) := witness cfg b v site in (ba ++ bb, rb)
  | FGate c a b => if veval c v then witness cfg a v site else witness cfg b v site
  | FPrim p _ _ | FConst p _ => (min_prim p, false)
  | FTag => ([0], false)
  | FArr l k _ _ e =>
      if String.eqb l site then (count_bytes (ak_dlen k) (attack_count cfg k), true)
      else
        let '(be_, re) := witness cfg e v site in
        if re then (count_bytes (ak_dlen k) 1 ++ be_, true)
        else (count_bytes (ak_dlen k) 0, false)
  end.

Fixpoint dedup (l : list string) : list string :=
  match l with
  | [] => []
  | s :: r => if existsb (String.eqb s) r then dedup r else s :: dedup r
  end.

(* first version of the row at which the site is reached *)
Fixpoint first_reach (cfg : pcfg) (fd : fmt) (site : string) (vs : list Z) : option (Z * list Z) :=
  match vs with
  | [] => None
  | v :: r => let '(bs, ok) := witness cfg fd v site in if ok then Some (v, bs) else first_reach cfg fd site r
  end.

Fixpoint rows_from (i : nat) (tbl : list row) : list (nat * row) :=
  match tbl with [] => [] | r :: t => (i, r) :: rows_from (S i) t end.

(* decoders of data the client does not control *)
Definition scope_sites (cfg : pcfg) (tbl : list row) : list string :=
  dedup (flat_map (fun r => if r_untrusted r then match r_dec r with Some fd => unguarded_sites cfg fd | None => [] end else []) tbl).

(* (site, row index :: version :: witness bytes) for every unguarded site of the decoders in scope *)
Definition site_witnesses (cfg : pcfg) (tbl : list row) : list (string * list Z) :=
  flat_map (fun ir =>
    let '(i, r) := ir in
    if r_untrusted r then
      match r_dec r with
      | Some fd =>
          flat_map (fun s => match first_reach cfg fd s (versions r) with
                             | Some (v, bs) => [(s, Z.of_nat i :: v :: bs)]
                             | None => []
                             end) (dedup (unguarded_sites cfg fd))
      | None => []
      end
    else []) (rows_from 0 tbl).

(* the model's verdict on a witness: 2 panic, 3 allocation above the cap *)
Definition witness_class (cfg : pcfg) (cap : Z) (tbl : list row) (w : string * list Z) : Z :=
  match snd w with
  | i :: v :: bs =>
      let r := nth (Z.to_nat i) tbl dummy_row in
      match r_dec r with
      | Some fd => class_of (dec_top cfg (Some cap) fd v (r_zero r) bs)
      | None => -1
      end
  | _ => -1
  end.

(* ------------------------------------------------------------------ C10: group-protocol entry points *)
(* g_kind 0: JoinGroupResponse.GetMembers (g_rows = [ConsumerGroupMemberMetadata])
          1: SyncGroupResponse.GetMemberAssignment (g_rows = [ConsumerGroupMemberAssignment], one member)
          2: deserializeTopicPartitionAssignment (g_rows = [StickyAssignorUserDataV1; StickyAssignorUserDataV0], one member;
             the result value is VStruct [VInt tag; data], tag 1 = V1, 0 = V0)
   members and results sorted by member id; g_class: 0 value, 1 error, 2 panic *)
Record c10gcase := {
  g_kind : Z;
  g_rows : list nat;
  g_members : list (value * option (list Z));
  g_class : Z;
  g_result : list (value * value);
  g_masks : list (list (list Z))       (* per row of g_rows *)
}.

Definition row_dec (tbl : list row) (i : nat) : fmt * value :=
  let r := nth i tbl dummy_row in (match r_dec r with Some fd => fd | None => FNil end, r_zero r).

Definition norm_result (fd : fmt) (ms : list (list Z)) (y : value) : value := vmask_all ms (canon fd 0 y).

Fixpoint results_eqb (f : value -> value) (a b : list (value * value)) : bool :=
  match a, b with
  | [], [] => true
  | (k, y) :: a', (k', y') :: b' => value_eqb k k' && value_eqb (f y) (f y') && results_eqb f a' b'
  | _, _ => false
  end.

Definition ok10g (cfg : pcfg) (tbl : list row) (c : c10gcase) : bool :=
  match g_rows c with
  | [i] =>
      let '(fd, zero) := row_dec tbl i in
      let m := get_members (decode_blob cfg None fd zero) (g_members c) in
      (class_of m =? g_class c) &&
      match m with
      | Ok l => results_eqb (norm_result fd (nth 0 (g_masks c) [])) l (g_result c)
      | _ => true
      end
  | [i1; i0] =>
      let '(fd1, z1) := row_dec tbl i1 in
      let '(fd0, z0) := row_dec tbl i0 in
      match g_members c with
      | [(k, b)] =>
          let m := sticky_user_data (decode_blob cfg None fd1 z1) (decode_blob cfg None fd0 z0) b in
          (class_of m =? g_class c) &&
          match m, g_result c with
          | Ok (tag, y), [(_, VStruct [VInt tag'; y'])] =>
              (tag =? tag') &&
              (if tag =? 1 then value_eqb (norm_result fd1 (nth 0 (g_masks c) []) y) (norm_result fd1 (nth 0 (g_masks c) []) y')
               else value_eqb (norm_result fd0 (nth 1 (g_masks c) []) y) (norm_result fd0 (nth 1 (g_masks c) []) y'))
          | Ok _, _ => false
          | _, _ => true
          end
      | _ => false
      end
  | _ => false
  end.

Definition mismatches_10g (cfg : pcfg) (tbl : list row) := mismatches (ok10g cfg tbl).
