(* WireFmt.ProofsSafe — the C10 theorems over the format language:
     consumes_suffix   dec cfg cap f v x0 bs = Ok (y, r) -> exists used, bs = used ++ r
     format_safe       a guarded format never panics and never allocates above the cap, on any byte input *)
From Coq Require Import List ZArith Bool Lia.
From SV Require Import WireFmt.Format WireFmt.ProofsPrim.
Import ListNotations.
Open Scope Z_scope.

Ltac Zify.zify_post_hook ::= Z.div_mod_to_equations.

(* ================================================================== suffixes *)
Definition suffix (r bs : list Z) : Prop := exists h, bs = h ++ r.

Lemma suffix_refl r : suffix r r.
Proof. exists []. reflexivity. Qed.

Lemma suffix_app h r : suffix r (h ++ r).
Proof. exists h. reflexivity. Qed.

Lemma suffix_cons b r bs : suffix r bs -> suffix r (b :: bs).
Proof. intros [h ->]. exists (b :: h). reflexivity. Qed.

Lemma suffix_trans a b c : suffix a b -> suffix b c -> suffix a c.
Proof. intros [h1 ->] [h2 ->]. exists (h2 ++ h1). now rewrite app_assoc. Qed.

Lemma suffix_zlen r bs : suffix r bs -> zlen r <= zlen bs.
Proof. intros [h ->]. rewrite zlen_app. pose proof (zlen_nonneg h). lia. Qed.

Lemma suffix_bytes_ok r bs : suffix r bs -> bytes_ok bs = true -> bytes_ok r = true.
Proof. intros [h ->]. unfold bytes_ok. rewrite forallb_app. intros H. apply andb_true_iff in H. tauto. Qed.

(* inversion of an Ok result through bind *)
Ltac binv H :=
  let a := fresh "a" in let E := fresh "E" in
  apply bind_inv_ok in H; destruct H as [a [E H]]; destruct a; cbv beta iota in H.

Lemma take_n_suffix n bs h r : take_n n bs = Ok (h, r) -> suffix r bs.
Proof. intros H. apply take_n_ok in H. destruct H as [-> _]. apply suffix_app. Qed.

Lemma take_z_suffix n bs h r : take_z n bs = Ok (h, r) -> suffix r bs.
Proof. intros H. apply take_z_ok in H. destruct H as [-> _]. apply suffix_app. Qed.

Lemma slice_z_suffix n bs h r : slice_z n bs = Ok (h, r) -> suffix r bs.
Proof. intros H. apply slice_z_ok in H. destruct H as [-> _]. apply suffix_app. Qed.

Lemma get_uint_inv n bs u r :
  get_uint n bs = Ok (u, r) -> exists h, bs = h ++ r /\ length h = n /\ u = unbe h 0.
Proof.
  unfold get_uint. intros H. binv H. inversion H; subst. apply take_n_ok in E. destruct E as [-> El].
  eexists; eauto.
Qed.

Lemma get_int_inv n bs z r :
  get_int n bs = Ok (z, r) ->
  exists h, bs = h ++ r /\ length h = n /\ z = wraps (8 * Z.of_nat n) (unbe h 0).
Proof.
  unfold get_int. intros H. binv H. inversion H; subst. apply get_uint_inv in E.
  destruct E as [h [-> [El ->]]]. eexists; eauto.
Qed.

Lemma get_uint_suffix n bs u r : get_uint n bs = Ok (u, r) -> suffix r bs.
Proof. intros H. apply get_uint_inv in H. destruct H as [h [-> _]]. apply suffix_app. Qed.

Lemma get_int_suffix n bs u r : get_int n bs = Ok (u, r) -> suffix r bs.
Proof. intros H. apply get_int_inv in H. destruct H as [h [-> _]]. apply suffix_app. Qed.

Lemma get_uvarint_aux_suffix bs : forall i x s n r,
  get_uvarint_aux bs i x s = Ok (n, r) -> suffix r bs /\ zlen r + 1 <= zlen bs.
Proof.
  induction bs as [|b bs IH]; intros i x s n r H; cbn [get_uvarint_aux] in H; [discriminate|].
  destruct (i =? 10)%nat; [discriminate|].
  destruct (b <? 128).
  - destruct ((i =? 9)%nat && (1 <? b)); [discriminate|]. inversion H; subst.
    split; [apply suffix_cons, suffix_refl|rewrite zlen_cons; lia].
  - apply IH in H. destruct H as [H1 H2]. split; [apply suffix_cons; exact H1|rewrite zlen_cons; lia].
Qed.

Lemma get_uvarint_suffix bs n r : get_uvarint bs = Ok (n, r) -> suffix r bs.
Proof. intros H. apply get_uvarint_aux_suffix in H. tauto. Qed.

Lemma get_uvarint_shorter bs n r : get_uvarint bs = Ok (n, r) -> zlen r + 1 <= zlen bs.
Proof. intros H. apply get_uvarint_aux_suffix in H. tauto. Qed.

(* repeatedly take an Ok equation apart, collecting suffix facts *)
Ltac ok_step :=
  match goal with
  | H : Ok _ = Ok _ |- _ => inversion H; subst; clear H
  | H : Err = Ok _ |- _ => discriminate H
  | H : Panic = Ok _ |- _ => discriminate H
  | H : Alloc _ = Ok _ |- _ => discriminate H
  | H : bind _ _ = Ok _ |- _ => binv H
  | H : (if ?c then _ else _) = Ok _ |- _ => destruct c eqn:?
  | H : (let _ := _ in _) = Ok _ |- _ => cbv zeta in H
  | H : take_n _ _ = Ok _ |- _ => apply take_n_suffix in H
  | H : take_z _ _ = Ok _ |- _ => apply take_z_suffix in H
  | H : slice_z _ _ = Ok _ |- _ => apply slice_z_suffix in H
  | H : get_int _ _ = Ok _ |- _ => apply get_int_suffix in H
  | H : get_uint _ _ = Ok _ |- _ => apply get_uint_suffix in H
  | H : get_uvarint _ = Ok _ |- _ => apply get_uvarint_suffix in H
  end.

Lemma dec_prim_suffix cfg p c bs y r : dec_prim cfg p c bs = Ok (y, r) -> suffix r bs.
Proof.
  intros H. destruct p; cbn [dec_prim] in H; repeat ok_step;
    eauto using suffix_refl, suffix_trans.
Qed.

Lemma read_count_suffix cfg dl bs n r : read_count cfg dl bs = Ok (n, r) -> suffix r bs.
Proof.
  intros H. destruct dl; cbn [read_count] in H; repeat ok_step;
    eauto using suffix_refl, suffix_trans.
Qed.

Lemma dec_loop_suffix decE :
  (forall bs y r, decE bs = Ok (y, r) -> suffix r bs) ->
  forall n bs l r, dec_loop decE n bs = Ok (l, r) -> suffix r bs.
Proof.
  intros HE. induction n as [|n IH]; intros bs l r H; cbn [dec_loop] in H.
  - inversion H; subst. apply suffix_refl.
  - binv H. binv H. inversion H; subst. apply HE in E. apply IH in E0. eapply suffix_trans; eauto.
Qed.

Lemma apply_beh_inv b pa x0 x1 : apply_beh b pa x0 = Ok x1 -> beh_ok b = true.
Proof. destruct b; cbn; intros H; try discriminate; reflexivity. Qed.

Lemma dec_arr_suffix cfg cap k pa decE x0 bs y r :
  (forall bs y r, decE bs = Ok (y, r) -> suffix r bs) ->
  dec_arr cfg cap k pa decE x0 bs = Ok (y, r) -> suffix r bs.
Proof.
  intros HE H. unfold dec_arr in H.
  apply bind_inv_ok in H. destruct H as [[cnt r0] [E H]]. cbv beta iota in H.
  apply read_count_suffix in E.
  destruct (0 <? cnt).
  - destruct ((0 <? ak_esize k) && over_cap cap (cnt * ak_esize k)); [discriminate|].
    apply bind_inv_ok in H. destruct H as [[l r1] [E1 H]]. cbv beta iota in H. inversion H; subst.
    apply (dec_loop_suffix decE HE) in E1. eapply suffix_trans; eauto.
  - apply bind_inv_ok in H. destruct H as [x1 [E1 H]]. inversion H; subst. exact E.
Qed.

Lemma dec_suffix cfg cap v f : forall x0 bs y r, dec cfg cap f v x0 bs = Ok (y, r) -> suffix r bs.
Proof.
  induction f as [|a IHa b IHb|c a IHa b IHb|p c pa|p z| |pa|pa z|lbl k pa zero e IHe];
    intros x0 bs y r H; cbn [dec] in H.
  - inversion H; subst. apply suffix_refl.
  - apply bind_inv_ok in H. destruct H as [[x1 r1] [E H]]. cbv beta iota in H.
    apply IHa in E. apply IHb in H. eapply suffix_trans; eauto.
  - destruct (veval c v); eauto.
  - apply bind_inv_ok in H. destruct H as [[y1 r1] [E H]]. cbv beta iota in H. inversion H; subst.
    eapply dec_prim_suffix; eauto.
  - apply bind_inv_ok in H. destruct H as [[y1 r1] [E H]]. cbv beta iota in H. inversion H; subst.
    eapply dec_prim_suffix; eauto.
  - apply bind_inv_ok in H. destruct H as [[n r1] [E H]]. cbv beta iota in H.
    destruct (n =? 0); [|discriminate]. inversion H; subst. eapply get_uvarint_suffix; eauto.
  - inversion H; subst. apply suffix_refl.
  - inversion H; subst. apply suffix_refl.
  - eapply dec_arr_suffix; [|exact H]. intros bs' y' r'. apply IHe.
Qed.

(* 6. the decoder consumes a prefix and returns the rest *)
Theorem consumes_suffix : forall cfg cap f v x0 bs y r,
  dec cfg cap f v x0 bs = Ok (y, r) -> exists used, bs = used ++ r.
Proof. intros cfg cap f v x0 bs y r H. exact (dec_suffix cfg cap v f x0 bs y r H). Qed.

(* dec never lengthens the remaining input *)
Lemma dec_shorter cfg cap f v x0 bs y r : dec cfg cap f v x0 bs = Ok (y, r) -> zlen r <= zlen bs.
Proof. intros H. apply suffix_zlen. eapply dec_suffix; eauto. Qed.

(* ================================================================== ranges of what is read from bytes *)
Lemma bytes_ok_cons b l : bytes_ok (b :: l) = true -> 0 <= b < 256 /\ bytes_ok l = true.
Proof.
  cbn [bytes_ok forallb]. intros H. apply andb_true_iff in H. destruct H as [Hb Hl]. split; [|exact Hl].
  unfold byte_ok in Hb. apply andb_true_iff in Hb. destruct Hb as [H1 H2].
  apply Z.leb_le in H1. apply Z.ltb_lt in H2. lia.
Qed.

Lemma bytes_ok_app_l a b : bytes_ok (a ++ b) = true -> bytes_ok a = true.
Proof. unfold bytes_ok. rewrite forallb_app. intros H. apply andb_true_iff in H. tauto. Qed.

Lemma unbe_nonneg h : forall acc, bytes_ok h = true -> 0 <= acc -> 0 <= unbe h acc.
Proof.
  induction h as [|b h IH]; intros acc Hb Ha; cbn [unbe]; [exact Ha|].
  apply bytes_ok_cons in Hb. destruct Hb as [Hb Hh]. apply IH; [exact Hh|lia].
Qed.

Lemma get_uint_nonneg n bs u r : get_uint n bs = Ok (u, r) -> bytes_ok bs = true -> 0 <= u.
Proof.
  intros H Hb. apply get_uint_inv in H. destruct H as [h [-> [_ ->]]].
  apply unbe_nonneg; [eapply bytes_ok_app_l; eauto|lia].
Qed.

Lemma get_uvarint_aux_range bs : forall i x s n r,
  get_uvarint_aux bs i x s = Ok (n, r) -> bytes_ok bs = true ->
  (i <= 10)%nat -> s = 7 * Z.of_nat i -> 0 <= x < 2 ^ s -> 0 <= n < 2 ^ 64.
Proof.
  induction bs as [|b bs IH]; intros i x s n r H Hb Hi Hs Hx; cbn [get_uvarint_aux] in H; [discriminate|].
  apply bytes_ok_cons in Hb. destruct Hb as [Hb Hbs].
  destruct (i =? 10)%nat eqn:E10; [discriminate|]. apply Nat.eqb_neq in E10.
  assert (HP : 0 < 2 ^ s) by (apply Z.pow_pos_nonneg; lia).
  assert (H7 : 2 ^ (s + 7) = 128 * 2 ^ s).
  { rewrite Z.pow_add_r by lia. change (2 ^ 7) with 128. ring. }
  destruct (b <? 128) eqn:E128; [apply Z.ltb_lt in E128|apply Z.ltb_ge in E128].
  - destruct (i =? 9)%nat eqn:E9.
    + apply Nat.eqb_eq in E9. subst i. change (7 * Z.of_nat 9) with 63 in Hs. subst s.
      cbn [andb] in H. destruct (1 <? b) eqn:E1; [discriminate|]. apply Z.ltb_ge in E1.
      inversion H; subst. nia.
    + apply Nat.eqb_neq in E9. cbn [andb] in H. inversion H; subst n r.
      assert (Hle : 2 ^ (s + 7) <= 2 ^ 63) by (apply Z.pow_le_mono_r; lia).
      set (P := 2 ^ s) in *. nia.
  - apply (IH (S i) _ (s + 7) n r H Hbs); [lia|lia|].
    rewrite H7. set (P := 2 ^ s) in *. nia.
Qed.

Lemma get_uvarint_range bs n r : get_uvarint bs = Ok (n, r) -> bytes_ok bs = true -> 0 <= n < 2 ^ 64.
Proof.
  intros H Hb. apply (get_uvarint_aux_range bs 0 0 0 n r H Hb); [lia|reflexivity|].
  change (2 ^ 0) with 1. lia.
Qed.

(* ================================================================== safety of the pieces *)
Lemma safe_bind {A B} (o : outcome A) (f : A -> outcome B) :
  safe_outcome o -> (forall a, o = Ok a -> safe_outcome (f a)) -> safe_outcome (bind o f).
Proof. destruct o; cbn [bind safe_outcome]; intros H1 H2; auto. Qed.

Lemma take_n_safe n bs : safe_outcome (take_n n bs).
Proof. unfold take_n. destruct (length bs <? n)%nat; exact I. Qed.

Lemma take_z_safe n bs : safe_outcome (take_z n bs).
Proof. unfold take_z. destruct (n <? 0); [exact I|]. destruct (zlen bs <? n); [exact I|apply take_n_safe]. Qed.

Lemma get_uint_safe n bs : safe_outcome (get_uint n bs).
Proof. unfold get_uint. apply safe_bind; [apply take_n_safe|]. intros [h r] _. exact I. Qed.

Lemma get_int_safe n bs : safe_outcome (get_int n bs).
Proof. unfold get_int. apply safe_bind; [apply get_uint_safe|]. intros [h r] _. exact I. Qed.

Lemma get_uvarint_aux_safe bs : forall i x s, safe_outcome (get_uvarint_aux bs i x s).
Proof.
  induction bs as [|b bs IH]; intros i x s; cbn [get_uvarint_aux]; [exact I|].
  destruct (i =? 10)%nat; [exact I|]. destruct (b <? 128); [|apply IH].
  destruct ((i =? 9)%nat && (1 <? b)); exact I.
Qed.

Lemma get_uvarint_safe bs : safe_outcome (get_uvarint bs).
Proof. apply get_uvarint_aux_safe. Qed.

Ltac safe_step :=
  match goal with
  | |- safe_outcome (Ok _) => exact I
  | |- safe_outcome Err => exact I
  | |- safe_outcome (bind _ _) => apply safe_bind; [|intros [? ?] ?]
  | |- safe_outcome (if ?c then _ else _) => destruct c
  | |- safe_outcome (take_n _ _) => apply take_n_safe
  | |- safe_outcome (take_z _ _) => apply take_z_safe
  | |- safe_outcome (get_int _ _) => apply get_int_safe
  | |- safe_outcome (get_uint _ _) => apply get_uint_safe
  | |- safe_outcome (get_uvarint _) => apply get_uvarint_safe
  end.

Lemma dec_prim_safe cfg p c bs : prim_guarded cfg p = true -> safe_outcome (dec_prim cfg p c bs).
Proof.
  intros Hg. destruct p; cbn [dec_prim prim_guarded] in *; try rewrite Hg; cbv zeta; repeat safe_step.
Qed.

Lemma read_count_safe cfg dl bs : safe_outcome (read_count cfg dl bs).
Proof. destruct dl; cbn [read_count]; repeat safe_step. Qed.

(* what a successfully read count can be *)
Lemma read_count_bounds cfg dl bs cnt r :
  read_count cfg dl bs = Ok (cnt, r) -> bytes_ok bs = true -> zlen bs < 2 ^ 63 ->
  (cnt = -1 -> can_null dl = true) /\
  (cnt < -1 -> can_neg cfg dl = true) /\
  (count_bounded cfg dl = true -> cnt <= zlen r).
Proof.
  intros H Hb Hlen. pose proof (zlen_nonneg r) as Hr0.
  destruct dl as [| |w| | |]; cbn [read_count can_null can_neg count_bounded] in *.
  - (* DLArr *) apply bind_inv_ok in H. destruct H as [[n r0] [E H]]. cbv beta iota in H.
    destruct (zlen r0 <? n) eqn:E1; [discriminate|]. apply Z.ltb_ge in E1.
    destruct ((131070 <? n) || (cf_arr_rejects_neg cfg && (n <? -1))) eqn:E2; [discriminate|].
    inversion H; subst. apply orb_false_iff in E2. destruct E2 as [_ E2].
    repeat split; auto. intros Hn. destruct (cf_arr_rejects_neg cfg); [|reflexivity].
    cbn [andb] in E2. apply Z.ltb_ge in E2. lia.
  - (* DLI32 *) repeat split; auto. discriminate.
  - (* DLU32 *) apply bind_inv_ok in H. destruct H as [[n r0] [E H]]. cbv beta iota in H.
    destruct (zlen r0 <? w * n) eqn:E1; [discriminate|]. apply Z.ltb_ge in E1. inversion H; subst.
    pose proof (get_uint_nonneg _ _ _ _ E Hb) as Hn.
    repeat split; intros; try lia. apply Z.leb_le in H0. nia.
  - (* DLStrArr *) apply bind_inv_ok in H. destruct H as [[n r0] [E H]]. cbv beta iota in H.
    destruct (cf_strarr_bounded cfg && (zlen r0 <? 2 * n)) eqn:E1; [discriminate|]. inversion H; subst.
    pose proof (get_uint_nonneg _ _ _ _ E Hb) as Hn.
    repeat split; intros; try lia. rewrite H0 in E1. cbn [andb] in E1. apply Z.ltb_ge in E1. lia.
  - (* DLCompact *) apply bind_inv_ok in H. destruct H as [[n r0] [E H]]. cbv beta iota in H.
    pose proof (get_uvarint_range _ _ _ E Hb) as Hn.
    pose proof (get_uvarint_shorter _ _ _ E) as Hsh.
    destruct (n =? 0) eqn:E0.
    + inversion H; subst. repeat split; intros; lia.
    + apply Z.eqb_neq in E0.
      destruct (cf_carr_bounded cfg && (zlen r0 <? n - 1)) eqn:E1; [discriminate|]. inversion H; subst.
      unfold to_int64, wraps. change (2 ^ (64 - 1)) with (2 ^ 63).
      rewrite (Z.mod_small n (2 ^ 64)) by lia.
      destruct (cf_carr_bounded cfg); cbn [andb negb] in *.
      * apply Z.ltb_ge in E1. destruct (n <? 2 ^ 63) eqn:E2; [apply Z.ltb_lt in E2|apply Z.ltb_ge in E2];
          repeat split; intros; lia.
      * destruct (n <? 2 ^ 63) eqn:E2; [apply Z.ltb_lt in E2|apply Z.ltb_ge in E2];
          repeat split; intros; try discriminate; try reflexivity; lia.
  - (* DLCompactI32 *) apply bind_inv_ok in H. destruct H as [[n r0] [E H]]. cbv beta iota in H.
    pose proof (get_uvarint_range _ _ _ E Hb) as Hn.
    pose proof (get_uvarint_shorter _ _ _ E) as Hsh.
    destruct (n =? 0) eqn:E0.
    + inversion H; subst. repeat split; intros; lia.
    + apply Z.eqb_neq in E0.
      destruct (cf_ci32_bounded cfg && (zlen r0 / 4 <? n - 1)) eqn:E1; [discriminate|]. inversion H; subst.
      unfold to_int64, wraps. change (2 ^ (64 - 1)) with (2 ^ 63).
      rewrite (Z.mod_small n (2 ^ 64)) by lia.
      destruct (cf_ci32_bounded cfg); cbn [andb negb] in *.
      * apply Z.ltb_ge in E1. destruct (n <? 2 ^ 63) eqn:E2; [apply Z.ltb_lt in E2|apply Z.ltb_ge in E2];
          repeat split; intros; lia.
      * destruct (n <? 2 ^ 63) eqn:E2; [apply Z.ltb_lt in E2|apply Z.ltb_ge in E2];
          repeat split; intros; try discriminate; try reflexivity; lia.
Qed.

Lemma dec_loop_safe decE B :
  (forall bs, bytes_ok bs = true -> zlen bs <= B -> safe_outcome (decE bs)) ->
  (forall bs y r, decE bs = Ok (y, r) -> suffix r bs) ->
  forall n bs, bytes_ok bs = true -> zlen bs <= B -> safe_outcome (dec_loop decE n bs).
Proof.
  intros Hs Hx. induction n as [|n IH]; intros bs Hb Hl; cbn [dec_loop]; [exact I|].
  apply safe_bind; [apply Hs; assumption|]. intros [y r] E.
  apply Hx in E. apply safe_bind.
  - apply IH; [eapply suffix_bytes_ok; eauto|]. apply suffix_zlen in E. lia.
  - intros [l r'] _. exact I.
Qed.

Lemma beh_ok_safe b pa x0 : beh_ok b = true -> safe_outcome (apply_beh b pa x0).
Proof. destruct b; cbn; intros H; try discriminate; exact I. Qed.

Lemma dec_arr_safe cfg cap k pa decE x0 bs :
  arr_guarded cfg k = true -> bytes_ok bs = true -> zlen bs < 2 ^ 63 -> ak_esize k * zlen bs <= cap ->
  (forall bs', bytes_ok bs' = true -> zlen bs' <= zlen bs -> safe_outcome (decE bs')) ->
  (forall bs' y r, decE bs' = Ok (y, r) -> suffix r bs') ->
  safe_outcome (dec_arr cfg (Some cap) k pa decE x0 bs).
Proof.
  intros Hg Hb Hlen Hcap Hs Hx. unfold dec_arr.
  apply safe_bind; [apply read_count_safe|]. intros [cnt r] E.
  pose proof (read_count_suffix _ _ _ _ _ E) as Hsuf.
  pose proof (suffix_zlen _ _ Hsuf) as Hrl.
  destruct (read_count_bounds _ _ _ _ _ E Hb Hlen) as [Hnull [Hneg Hbnd]].
  unfold arr_guarded in Hg.
  apply andb_true_iff in Hg. destruct Hg as [Hg Hsz].
  apply andb_true_iff in Hg. destruct Hg as [Hg Hz].
  apply andb_true_iff in Hg. destruct Hg as [Hgn Hgg].
  destruct (0 <? cnt) eqn:Ec; [apply Z.ltb_lt in Ec|apply Z.ltb_ge in Ec].
  - destruct ((0 <? ak_esize k) && over_cap (Some cap) (cnt * ak_esize k)) eqn:Ea.
    + exfalso. apply andb_true_iff in Ea. destruct Ea as [E1 E2]. apply Z.ltb_lt in E1.
      cbn [over_cap] in E2. apply Z.ltb_lt in E2.
      apply orb_true_iff in Hsz. destruct Hsz as [Hsz|Hsz]; [apply Z.leb_le in Hsz; lia|].
      specialize (Hbnd Hsz). nia.
    + apply safe_bind.
      * apply (dec_loop_safe decE (zlen bs) Hs Hx); [eapply suffix_bytes_ok; eauto|exact Hrl].
      * intros [l r'] _. exact I.
  - apply safe_bind; [|intros x1 _; exact I]. apply beh_ok_safe. unfold count_beh.
    destruct (cnt =? 0) eqn:E0; [exact Hz|]. apply Z.eqb_neq in E0.
    destruct (cnt =? -1) eqn:E1.
    + apply Z.eqb_eq in E1. rewrite (Hnull E1) in Hgn. exact Hgn.
    + apply Z.eqb_neq in E1. rewrite Hneg in Hgg by lia. exact Hgg.
Qed.

Lemma max_esize_nonneg f : 0 <= max_esize f.
Proof. induction f; cbn [max_esize]; lia. Qed.

(* ================================================================== 5. guarded formats are safe *)
Lemma format_safe_gen cfg cap v f :
  guarded cfg f = true ->
  forall bs x0, bytes_ok bs = true -> zlen bs < 2 ^ 63 -> max_esize f * zlen bs <= cap ->
  safe_outcome (dec cfg (Some cap) f v x0 bs).
Proof.
  induction f as [|a IHa b IHb|c a IHa b IHb|p c pa|p z| |pa|pa z|lbl k pa zero e IHe];
    intros Hg bs x0 Hb Hlen Hcap; cbn [dec guarded max_esize] in *;
    pose proof (zlen_nonneg bs) as Hbs0.
  - exact I.
  - apply andb_true_iff in Hg. destruct Hg as [Hga Hgb].
    pose proof (max_esize_nonneg a) as Ha0. pose proof (max_esize_nonneg b) as Hb0.
    apply safe_bind.
    + apply IHa; auto. nia.
    + intros [x1 r] E. apply dec_suffix in E.
      pose proof (suffix_zlen _ _ E) as Hrl. pose proof (zlen_nonneg r) as Hr0.
      apply IHb; auto; [eapply suffix_bytes_ok; eauto|lia|nia].
  - apply andb_true_iff in Hg. destruct Hg as [Hga Hgb].
    pose proof (max_esize_nonneg a) as Ha0. pose proof (max_esize_nonneg b) as Hb0.
    destruct (veval c v); [apply IHa|apply IHb]; auto; nia.
  - apply safe_bind; [apply dec_prim_safe; exact Hg|]. intros [y r] _. exact I.
  - apply safe_bind; [apply dec_prim_safe; exact Hg|]. intros [y r] _. exact I.
  - apply safe_bind; [apply get_uvarint_safe|]. intros [n r] _. destruct (n =? 0); exact I.
  - exact I.
  - exact I.
  - apply andb_true_iff in Hg. destruct Hg as [Hgk Hge].
    pose proof (max_esize_nonneg e) as He0.
    apply dec_arr_safe; auto.
    + nia.
    + intros bs' Hb' Hl'. pose proof (zlen_nonneg bs'). apply IHe; auto; [lia|nia].
    + intros bs' y r. apply dec_suffix.
Qed.

Theorem format_safe : forall cfg f v x0 bs cap,
  guarded cfg f = true -> bytes_ok bs = true -> zlen bs < 2 ^ 63 -> max_esize f * zlen bs <= cap ->
  safe_outcome (dec cfg (Some cap) f v x0 bs).
Proof. intros. apply format_safe_gen; assumption. Qed.

Theorem format_safe_top : forall cfg f v x0 bs cap,
  guarded cfg f = true -> bytes_ok bs = true -> zlen bs < 2 ^ 63 -> max_esize f * zlen bs <= cap ->
  safe_outcome (dec_top cfg (Some cap) f v x0 bs).
Proof.
  intros. unfold dec_top. apply safe_bind; [apply format_safe; assumption|].
  intros [y r] _. destruct r; exact I.
Qed.
