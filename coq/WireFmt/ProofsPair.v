(* WireFmt.ProofsPair — the tie between a regenerated (decoder format, encoder format) pair and the single
   format [paired v fd fe] the round-trip theorem is about:
     pair_roundtrip  mirror_at v fd fe -> wf/wt of the paired format ->
                     dec cfg None fd v x0 (enc_real fe v x ++ rest) = Ok (upd (paired v fd fe) v x0 x, rest)
   Route: flat preserves enc_real and dec; dec (merge fd fe) = dec fd (dec reads only decoder attributes);
   [merge_e] = merge with the encoder's constants has enc_real (merge_e fd fe) = enc_real fe under mirror_flat
   (mirror_flat does not compare the constants of FConst, and merge keeps the decoder's constant, so that
   equation does not hold of merge itself); merge and merge_e differ only in constants ([ceq]), which
   dec, upd, wf and wt do not look at. *)
From Coq Require Import List ZArith Bool Lia.
From SV Require Import WireFmt.Format WireFmt.ProofsPrim WireFmt.Proofs.
Import ListNotations.
Open Scope Z_scope.

(* ================================================================== extensionality of the list helpers *)
Lemma enc_list_ext e1 e2 l : (forall y, e1 y = e2 y) -> enc_list e1 l = enc_list e2 l.
Proof. intros H. induction l as [|y l IH]; cbn [enc_list]; [reflexivity|]. now rewrite H, IH. Qed.

Lemma enc_arr_ext k o e1 e2 : (forall y, e1 y = e2 y) -> enc_arr k o e1 = enc_arr k o e2.
Proof. intros H. unfold enc_arr. now rewrite (enc_list_ext e1 e2 _ H). Qed.

Lemma dec_loop_ext d1 d2 : (forall bs, d1 bs = d2 bs) -> forall n bs, dec_loop d1 n bs = dec_loop d2 n bs.
Proof.
  intros H. induction n as [|n IH]; intros bs; cbn [dec_loop]; [reflexivity|].
  rewrite H. apply bind_ext. intros [y r]. now rewrite IH.
Qed.

Lemma dec_arr_ext cfg cap k pa d1 d2 x0 bs :
  (forall bs, d1 bs = d2 bs) -> dec_arr cfg cap k pa d1 x0 bs = dec_arr cfg cap k pa d2 x0 bs.
Proof.
  intros H. unfold dec_arr. apply bind_ext. intros [cnt r].
  destruct (0 <? cnt); [|reflexivity].
  destruct ((0 <? ak_esize k) && over_cap cap (cnt * ak_esize k)); [reflexivity|].
  now rewrite (dec_loop_ext d1 d2 H).
Qed.

Lemma upd_list_ext u1 u2 l : (forall y, u1 y = u2 y) -> upd_list u1 l = upd_list u2 l.
Proof. intros H. induction l as [|y l IH]; cbn [upd_list]; [reflexivity|]. now rewrite H, IH. Qed.

Lemma wt_list_ext w1 w2 l : (forall y, w1 y = w2 y) -> wt_list w1 l = wt_list w2 l.
Proof. intros H. induction l as [|y l IH]; cbn [wt_list]; [reflexivity|]. now rewrite H, IH. Qed.

(* ================================================================== flattening preserves both directions *)
Lemma enc_real_app_fmt v x a : forall b, enc_real (app_fmt a b) v x = enc_real a v x ++ enc_real b v x.
Proof.
  induction a as [|a1 IH1 a2 IH2| | | | | | |]; intros b; cbn [app_fmt enc_real]; try reflexivity.
  rewrite IH2. now rewrite app_assoc.
Qed.

Lemma dec_app_fmt cfg cap v a : forall b x0 bs,
  dec cfg cap (app_fmt a b) v x0 bs = bind (dec cfg cap a v x0 bs) (fun '(x1, r) => dec cfg cap b v x1 r).
Proof.
  induction a as [|a1 IH1 a2 IH2| | | | | | |]; intros b x0 bs; cbn [app_fmt dec]; try reflexivity.
  rewrite bind_assoc. apply bind_ext. intros [x1 r]. apply IH2.
Qed.

Lemma enc_real_flat v f : forall x, enc_real (flat v f) v x = enc_real f v x.
Proof.
  induction f as [|a IHa b IHb|c a IHa b IHb|p c pa|p z| |pa|pa z|lbl k pa zero e IHe];
    intros x; cbn [flat enc_real]; try apply app_nil_r.
  - reflexivity.
  - rewrite enc_real_app_fmt, IHa, IHb. reflexivity.
  - destruct (veval c v); auto.
  - rewrite app_nil_r. apply enc_arr_ext. exact IHe.
Qed.

Lemma dec_flat cfg cap v f : forall x0 bs, dec cfg cap (flat v f) v x0 bs = dec cfg cap f v x0 bs.
Proof.
  induction f as [|a IHa b IHb|c a IHa b IHb|p c pa|p z| |pa|pa z|lbl k pa zero e IHe];
    intros x0 bs; cbn [flat dec]; try apply bind_ret_pair.
  - reflexivity.
  - rewrite dec_app_fmt, IHa. apply bind_ext. intros [x1 r]. apply IHb.
  - destruct (veval c v); auto.
  - rewrite bind_ret_pair. apply dec_arr_ext. intros bs'. apply IHe.
Qed.

(* ================================================================== an induction principle that reaches the
   element format of a collection at the head of a sequence (the recursion pattern of merge / mirror_flat) *)
Definition not_seq (f : fmt) : Prop := match f with FSeq _ _ => False | _ => True end.

Lemma fmt_seq_ind (P : fmt -> Prop) :
  (forall f, not_seq f -> P f) ->
  (forall a b, P b -> (forall l k pa z e, a = FArr l k pa z e -> P e) -> P (FSeq a b)) ->
  forall f, P f.
Proof.
  intros Hleaf Hseq f.
  enough (H : P f /\ (forall l k pa z e, f = FArr l k pa z e -> P e)) by tauto.
  induction f as [|a IHa b IHb|c a IHa b IHb|p c pa|p z| |pa|pa z|lbl k pa zero e IHe];
    (split; [|try (intros; discriminate)]); try (apply Hleaf; exact I).
  - apply Hseq; tauto.
  - intros l k0 pa0 z e0 E. inversion E; subst. tauto.
Qed.

(* ================================================================== merge with the encoder's constants *)
Fixpoint merge_e (fd fe : fmt) : fmt :=
  match fd with
  | FSeq a rd =>
      match a with
      | FSetVer _ | FSetConst _ _ => FSeq a (merge_e rd fe)
      | FArr l kd pa z ed =>
          match fe with
          | FSeq (FArr _ ke _ _ ee) re => FSeq (FArr l (mk_kind ke kd) pa z (merge_e ed ee)) (merge_e rd re)
          | _ => fd
          end
      | FConst p z =>
          match fe with
          | FSeq (FConst _ z') re => FSeq (FConst p z') (merge_e rd re)
          | FSeq _ re => FSeq a (merge_e rd re)
          | _ => fd
          end
      | _ => match fe with FSeq _ re => FSeq a (merge_e rd re) | _ => fd end
      end
  | _ => fd
  end.

(* equal up to the constants of FConst *)
Fixpoint ceq (f g : fmt) : Prop :=
  match f, g with
  | FNil, FNil => True
  | FSeq a b, FSeq a' b' => ceq a a' /\ ceq b b'
  | FGate c a b, FGate c' a' b' => c = c' /\ ceq a a' /\ ceq b b'
  | FPrim p c pa, FPrim p' c' pa' => p = p' /\ c = c' /\ pa = pa'
  | FConst p _, FConst p' _ => p = p'
  | FTag, FTag => True
  | FSetVer pa, FSetVer pa' => pa = pa'
  | FSetConst pa z, FSetConst pa' z' => pa = pa' /\ z = z'
  | FArr _ k pa z e, FArr _ k' pa' z' e' => k = k' /\ pa = pa' /\ z = z' /\ ceq e e'
  | _, _ => False
  end.

Lemma ceq_refl f : ceq f f.
Proof. induction f; cbn [ceq]; auto. Qed.

Lemma ceq_merge : forall fd fe, ceq (merge fd fe) (merge_e fd fe).
Proof.
  induction fd as [f Hf|a b IHb IHe] using fmt_seq_ind; intros fe.
  - destruct f; try contradiction; apply ceq_refl.
  - destruct a as [|a1 a2|c a1 a2|p c pa|p z| |pa|pa z|lbl k pa zero e]; cbn [merge merge_e].
    + destruct fe; try apply ceq_refl. cbn [ceq]. auto.
    + destruct fe; try apply ceq_refl. cbn [ceq]. split; [split; apply ceq_refl|apply IHb].
    + destruct fe; try apply ceq_refl. cbn [ceq]. split; [repeat split; apply ceq_refl|apply IHb].
    + destruct fe; try apply ceq_refl. cbn [ceq]. auto.
    + destruct fe as [|a' re| | | | | | |]; try apply ceq_refl.
      destruct a'; cbn [ceq]; auto.
    + destruct fe; try apply ceq_refl. cbn [ceq]. auto.
    + cbn [ceq]. auto.
    + cbn [ceq]. auto.
    + destruct fe as [|a' re| | | | | | |]; try apply ceq_refl.
      destruct a'; try apply ceq_refl. cbn [ceq]. repeat split; auto. eapply IHe. reflexivity.
Qed.

Lemma ceq_dec v cfg cap : forall f g, ceq f g -> forall x0 bs, dec cfg cap f v x0 bs = dec cfg cap g v x0 bs.
Proof.
  induction f as [|a IHa b IHb|c a IHa b IHb|p c pa|p z| |pa|pa z|lbl k pa zero e IHe];
    intros g H x0 bs; destruct g as [|a' b'|c' a' b'|p' c' pa'|p' z'| |pa'|pa' z'|lbl' k' pa' zero' e']; cbn [ceq] in H; try contradiction; cbn [dec].
  - reflexivity.
  - destruct H as [Ha Hb]. rewrite (IHa _ Ha). apply bind_ext. intros [x1 r]. apply IHb. exact Hb.
  - destruct H as [-> [Ha Hb]]. destruct (veval c' v); auto.
  - destruct H as [-> [-> ->]]. reflexivity.
  - subst. reflexivity.
  - reflexivity.
  - subst. reflexivity.
  - destruct H as [-> ->]. reflexivity.
  - destruct H as [-> [-> [-> He]]]. apply dec_arr_ext. intros bs'. apply IHe. exact He.
Qed.

Lemma ceq_upd v : forall f g, ceq f g -> forall x0 x, upd f v x0 x = upd g v x0 x.
Proof.
  induction f as [|a IHa b IHb|c a IHa b IHb|p c pa|p z| |pa|pa z|lbl k pa zero e IHe];
    intros g H x0 x; destruct g as [|a' b'|c' a' b'|p' c' pa'|p' z'| |pa'|pa' z'|lbl' k' pa' zero' e']; cbn [ceq] in H; try contradiction; cbn [upd].
  - reflexivity.
  - destruct H as [Ha Hb]. rewrite (IHa _ Ha). apply IHb. exact Hb.
  - destruct H as [-> [Ha Hb]]. destruct (veval c' v); auto.
  - destruct H as [-> [-> ->]]. reflexivity.
  - reflexivity.
  - reflexivity.
  - subst. reflexivity.
  - destruct H as [-> ->]. reflexivity.
  - destruct H as [-> [-> [-> He]]]. destruct (olist (as_list (vget pa' x))); [reflexivity|].
    do 3 f_equal. apply upd_list_ext. intros y. apply IHe. exact He.
Qed.

Lemma ceq_nonempty v : forall f g, ceq f g -> nonempty f v = nonempty g v.
Proof.
  induction f as [|a IHa b IHb|c a IHa b IHb|p c pa|p z| |pa|pa z|lbl k pa zero e IHe];
    intros g H; destruct g as [|a' b'|c' a' b'|p' c' pa'|p' z'| |pa'|pa' z'|lbl' k' pa' zero' e']; cbn [ceq] in H; try contradiction; cbn [nonempty]; try reflexivity.
  - destruct H as [Ha Hb]. now rewrite (IHa _ Ha), (IHb _ Hb).
  - destruct H as [-> [Ha Hb]]. destruct (veval c' v); auto.
Qed.

Lemma ceq_elem_is p : forall e e', ceq e e' -> elem_is e p = elem_is e' p.
Proof.
  intros e e' H. destruct e as [|a b| | | | | | |], e' as [|a' b'| | | | | | |];
    cbn [ceq] in H; try contradiction; try reflexivity.
  - destruct H as [Ha Hb].
    destruct a, a'; cbn [ceq] in Ha; try contradiction; try reflexivity.
    destruct Ha as [-> [-> ->]].
    destruct b, b'; cbn [ceq] in Hb; try contradiction; reflexivity.
  - destruct H as [-> [-> ->]]. reflexivity.
Qed.

Lemma ceq_elem_fits k e e' : ceq e e' -> elem_fits k e = elem_fits k e'.
Proof.
  intros H. unfold elem_fits. destruct (ak_dlen k); try reflexivity;
    rewrite ?(ceq_elem_is PI32 _ _ H), ?(ceq_elem_is PI64 _ _ H), ?(ceq_elem_is PStr _ _ H); reflexivity.
Qed.

Lemma ceq_wf v : forall f g, ceq f g -> wf f v = wf g v.
Proof.
  induction f as [|a IHa b IHb|c a IHa b IHb|p c pa|p z| |pa|pa z|lbl k pa zero e IHe];
    intros g H; destruct g as [|a' b'|c' a' b'|p' c' pa'|p' z'| |pa'|pa' z'|lbl' k' pa' zero' e']; cbn [ceq] in H; try contradiction; cbn [wf]; try reflexivity.
  - destruct H as [Ha Hb]. now rewrite (IHa _ Ha), (IHb _ Hb).
  - destruct H as [-> [Ha Hb]]. destruct (veval c' v); auto.
  - subst. reflexivity.
  - destruct H as [-> [-> [-> He]]].
    now rewrite (ceq_elem_fits _ _ _ He), (ceq_nonempty v _ _ He), (IHe _ He).
Qed.

Lemma ceq_wt v : forall f g, ceq f g -> forall x, wt f v x = wt g v x.
Proof.
  induction f as [|a IHa b IHb|c a IHa b IHb|p c pa|p z| |pa|pa z|lbl k pa zero e IHe];
    intros g H x; destruct g as [|a' b'|c' a' b'|p' c' pa'|p' z'| |pa'|pa' z'|lbl' k' pa' zero' e']; cbn [ceq] in H; try contradiction; cbn [wt]; try reflexivity.
  - destruct H as [Ha Hb]. now rewrite (IHa _ Ha), (IHb _ Hb).
  - destruct H as [-> [Ha Hb]]. destruct (veval c' v); auto.
  - destruct H as [-> [-> ->]]. reflexivity.
  - subst. reflexivity.
  - destruct H as [-> [-> [-> He]]]. f_equal. destruct (vget pa' x); try reflexivity.
    rewrite (wt_list_ext (wt e v) (wt e' v) _ (IHe _ He)). reflexivity.
Qed.

(* the decoder reads only the decoder attributes of the merged collections *)
Lemma dec_arr_mk_kind cfg cap ke kd pa d x0 bs :
  dec_arr cfg cap (mk_kind ke kd) pa d x0 bs = dec_arr cfg cap kd pa d x0 bs.
Proof. reflexivity. Qed.

Lemma dec_merge v cfg cap : forall fd fe x0 bs, dec cfg cap (merge fd fe) v x0 bs = dec cfg cap fd v x0 bs.
Proof.
  induction fd as [f Hf|a b IHb IHe] using fmt_seq_ind; intros fe x0 bs.
  - destruct f; try contradiction; reflexivity.
  - destruct a as [|a1 a2|c a1 a2|p c pa|p z| |pa|pa z|lbl k pa zero e]; cbn [merge];
      try (destruct fe; try reflexivity; cbn [dec]; apply bind_ext; intros [x1 r]; apply IHb).
    destruct fe as [|a' re| | | | | | |]; try reflexivity. destruct a'; try reflexivity.
      cbn [dec]. rewrite dec_arr_mk_kind.
      rewrite (dec_arr_ext cfg cap k pa (dec cfg cap (merge e a') v zero) (dec cfg cap e v zero)).
    + apply bind_ext. intros [x1 r]. apply IHb.
    + intros bs'. eapply IHe. reflexivity.
Qed.

(* the encoder reads only the encoder attributes; decoder-only atoms write nothing *)
Lemma enc_arr_mk_kind ke kd o e : enc_arr (mk_kind ke kd) o e = enc_arr ke o e.
Proof. reflexivity. Qed.

Lemma enc_merge_e v : forall fd fe, mirror_flat fd fe = true ->
  forall x, enc_real (merge_e fd fe) v x = enc_real fe v x.
Proof.
  induction fd as [f Hf|a b IHb IHe] using fmt_seq_ind; intros fe H x.
  - destruct f; try contradiction; cbn [mirror_flat] in H; try discriminate.
    destruct fe; try discriminate. reflexivity.
  - destruct a as [|a1 a2|c a1 a2|p c pa|p z| |pa|pa z|lbl k pa zero e]; cbn [mirror_flat] in H;
      try discriminate.
    + (* FPrim *) destruct fe as [|a' re| | | | | | |]; try discriminate. destruct a'; try discriminate.
      apply andb_true_iff in H. destruct H as [H Hr].
      apply andb_true_iff in H. destruct H as [H Hpa].
      apply andb_true_iff in H. destruct H as [Hp Hc].
      apply prim_eqb_eq in Hp. apply conv_eqb_eq in Hc. apply path_eqb_eq in Hpa. subst.
      cbn [merge_e enc_real]. f_equal. apply IHb. exact Hr.
    + (* FConst *) destruct fe as [|a' re| | | | | | |]; try discriminate. destruct a'; try discriminate.
      apply andb_true_iff in H. destruct H as [H Hr].
      apply andb_true_iff in H. destruct H as [Hp _]. apply prim_eqb_eq in Hp. subst.
      cbn [merge_e enc_real]. f_equal. apply IHb. exact Hr.
    + (* FTag *) destruct fe as [|a' re| | | | | | |]; try discriminate. destruct a'; try discriminate.
      cbn [merge_e enc_real]. f_equal. apply IHb. exact H.
    + (* FSetVer *) cbn [merge_e enc_real app]. apply IHb. exact H.
    + (* FSetConst *) cbn [merge_e enc_real app]. apply IHb. exact H.
    + (* FArr *) destruct fe as [|a' re| | | | | | |]; try discriminate. destruct a'; try discriminate.
      apply andb_true_iff in H. destruct H as [H Hr].
      apply andb_true_iff in H. destruct H as [H He].
      apply andb_true_iff in H. destruct H as [_ Hpa]. apply path_eqb_eq in Hpa. subst.
      cbn [merge_e enc_real]. rewrite enc_arr_mk_kind. f_equal; [|apply IHb; exact Hr].
      apply enc_arr_ext. intros y. eapply IHe; [reflexivity|exact He].
Qed.

(* ================================================================== 4. the pair theorems *)
Theorem pair_roundtrip : forall cfg fd fe v x x0 rest,
  mirror_at v fd fe = true -> wf (paired v fd fe) v = true -> wt (paired v fd fe) v x = true ->
  dec cfg None fd v x0 (enc_real fe v x ++ rest) = Ok (upd (paired v fd fe) v x0 x, rest).
Proof.
  intros cfg fd fe v x x0 rest Hm Hwf Hwt. unfold mirror_at, paired in *.
  set (Fd := flat v fd) in *. set (Fe := flat v fe) in *.
  pose proof (ceq_merge Fd Fe) as Hc.
  rewrite <- (enc_real_flat v fe x), <- (dec_flat cfg None v fd). fold Fd Fe.
  rewrite <- (enc_merge_e v Fd Fe Hm x).
  rewrite <- (dec_merge v cfg None Fd Fe).
  rewrite (ceq_dec v cfg None _ _ Hc), (ceq_upd v _ _ Hc).
  apply format_roundtrip.
  - rewrite <- (ceq_wf v _ _ Hc). exact Hwf.
  - rewrite <- (ceq_wt v _ _ Hc). exact Hwt.
Qed.

Theorem pair_roundtrip_top : forall cfg fd fe v x x0,
  mirror_at v fd fe = true -> wf (paired v fd fe) v = true -> wt (paired v fd fe) v x = true ->
  dec_top cfg None fd v x0 (enc_real fe v x) = Ok (upd (paired v fd fe) v x0 x).
Proof.
  intros cfg fd fe v x x0 Hm Hwf Hwt. unfold dec_top.
  rewrite <- (app_nil_r (enc_real fe v x)), (pair_roundtrip cfg fd fe v x x0 [] Hm Hwf Hwt). reflexivity.
Qed.

Theorem pair_sizing : forall fe v x, enc_prep fe v x = zlen (enc_real fe v x).
Proof. exact sizing_agrees. Qed.
