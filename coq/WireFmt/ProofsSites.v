(* A format without unguarded sites is guarded (so c10_format_safe applies to it). *)
From Coq Require Import List ZArith Bool.
From SV Require Import WireFmt.Format.
Import ListNotations.

Lemma no_sites_guarded : forall cfg f, unguarded_sites cfg f = [] -> guarded cfg f = true.
Proof.
  intros cfg f; induction f as [ | a IHa b IHb | c a IHa b IHb | p c pa | p z | | pa | pa z | l k pa zero e IHe ];
    cbn [unguarded_sites guarded]; intro H; try reflexivity.
  - apply app_eq_nil in H as [Ha Hb]. rewrite (IHa Ha), (IHb Hb). reflexivity.
  - apply app_eq_nil in H as [Ha Hb]. rewrite (IHa Ha), (IHb Hb). reflexivity.
  - destruct (prim_guarded cfg p); [reflexivity | discriminate].
  - destruct (prim_guarded cfg p); [reflexivity | discriminate].
  - apply app_eq_nil in H as [Hk He]. rewrite (IHe He).
    destruct (arr_guarded cfg k); [reflexivity | discriminate].
Qed.
