(* WireFmt.ProofsExamples — the hypotheses of the exported theorems are satisfiable on a non-trivial format
   (version gates, a string, a nullable string, a duration, a collection of 2-field structs, a tagged-field
   marker), and the unguarded witness of C10. *)
From Coq Require Import String List ZArith Bool Lia.
From SV Require Import WireFmt.Format WireFmt.ProofsPrim WireFmt.Proofs WireFmt.ProofsPair WireFmt.ProofsSafe
  WireFmt.ProofsReenc.
Import ListNotations.
Open Scope Z_scope.

Definition ex_kind : akind :=
  {| ak_elen := ELI32; ak_enull := ENilNull;
     ak_dlen := DLArr; ak_zero := BEmpty; ak_null := BNil; ak_neg := BKeep;
     ak_esize := 40; ak_map := false |}.

Definition ex_elem : fmt := FSeq (FPrim PI32 CId [0%nat]) (FPrim PStr CId [1%nat]).
Definition ex_zero : value := VStruct [VInt 0; VBytes (Some [])].

(* what an encode method looks like *)
Definition ex_fe : fmt :=
  FSeq (FPrim PI16 CId [0%nat])
  (FSeq (FPrim PStr CId [1%nat])
  (FSeq (FGate (VCmp OGe 1) (FPrim PNStr CId [2%nat]) FNil)
  (FSeq (FArr "items" ex_kind [3%nat] ex_zero ex_elem)
  (FSeq (FConst PI8 9)
        (FGate (VCmp OGe 2) (FSeq (FPrim PI32 CDurMs [4%nat]) FTag) FNil))))).

(* what the matching decode method looks like: records the version, nests its gates differently,
   discards a constant the encoder writes with another value *)
Definition ex_fd : fmt :=
  FSeq (FSetVer [5%nat])
  (FSeq (FSeq (FPrim PI16 CId [0%nat]) (FPrim PStr CId [1%nat]))
  (FSeq (FGate (VCmp OLt 1) FNil (FPrim PNStr CId [2%nat]))
  (FSeq (FArr "items" ex_kind [3%nat] ex_zero ex_elem)
  (FSeq (FConst PI8 0)
        (FGate (VNot (VCmp OGe 2)) FNil (FSeq (FPrim PI32 CDurMs [4%nat]) FTag)))))).

Definition ex_x : value :=
  VStruct [VInt 70000; VBytes (Some [104; 105]); VBytes None;
           VList (Some [VStruct [VInt 1; VBytes (Some [97])]; VStruct [VInt 2; VBytes (Some [])]]);
           VInt 1500000000; VInt 0].
Definition ex_x0 : value :=
  VStruct [VInt 0; VBytes (Some []); VBytes None; VList None; VInt 0; VInt 0].

(* ------------------------------------------------------------------ 1. sizing *)
Example ex_sizing : enc_prep ex_fe 2 ex_x = 31 /\ zlen (enc_real ex_fe 2 ex_x) = 31.
Proof. vm_compute. split; reflexivity. Qed.

(* ------------------------------------------------------------------ 2. round trip *)
Example ex_wf : wf ex_fe 2 = true /\ wt ex_fe 2 ex_x = true.
Proof. vm_compute. split; reflexivity. Qed.

Example ex_roundtrip :
  dec_top cfg_pinned None ex_fe 2 ex_x0 (enc_real ex_fe 2 ex_x) = Ok (upd ex_fe 2 ex_x0 ex_x).
Proof. apply format_roundtrip_top; [exact (proj1 ex_wf)|exact (proj2 ex_wf)]. Qed.

(* the normalisation is not the identity: the int16 wraps, the duration loses its sub-millisecond part *)
Example ex_upd :
  upd ex_fe 2 ex_x0 ex_x =
  VStruct [VInt 4464; VBytes (Some [104; 105]); VBytes None;
           VList (Some [VStruct [VInt 1; VBytes (Some [97])]; VStruct [VInt 2; VBytes (Some [])]]);
           VInt 1500000000; VInt 0].
Proof. vm_compute. reflexivity. Qed.

(* ------------------------------------------------------------------ 4. pairs *)
Example ex_pair_hyps :
  mirror_at 2 ex_fd ex_fe = true /\ wf (paired 2 ex_fd ex_fe) 2 = true /\ wt (paired 2 ex_fd ex_fe) 2 ex_x = true.
Proof. vm_compute. repeat split; reflexivity. Qed.

Example ex_pair_hyps_v0 :
  mirror_at 0 ex_fd ex_fe = true /\ wf (paired 0 ex_fd ex_fe) 0 = true /\ wt (paired 0 ex_fd ex_fe) 0 ex_x = true.
Proof. vm_compute. repeat split; reflexivity. Qed.

Example ex_pair_roundtrip :
  dec_top cfg_fixed None ex_fd 2 ex_x0 (enc_real ex_fe 2 ex_x) = Ok (upd (paired 2 ex_fd ex_fe) 2 ex_x0 ex_x).
Proof.
  destruct ex_pair_hyps as [H1 [H2 H3]]. apply pair_roundtrip_top; assumption.
Qed.

(* the decoder-only atom shows in the result *)
Example ex_pair_upd : vget [5%nat] (upd (paired 2 ex_fd ex_fe) 2 ex_x0 ex_x) = VInt 2.
Proof. vm_compute. reflexivity. Qed.

(* the constants differ, so merge does not reproduce the encoder's bytes although the pair mirrors *)
Example ex_merge_const : enc_real (paired 2 ex_fd ex_fe) 2 ex_x <> enc_real ex_fe 2 ex_x.
Proof. vm_compute. discriminate. Qed.

(* ------------------------------------------------------------------ 3. re-encoding *)
Example ex_reenc_hyps : reenc_ok ex_fe 2 ex_x0 = true /\ reenc_ok (paired 2 ex_fd ex_fe) 2 ex_x0 = true.
Proof. vm_compute. split; reflexivity. Qed.

Example ex_reencode : enc_real ex_fe 2 (upd ex_fe 2 ex_x0 ex_x) = enc_real ex_fe 2 ex_x.
Proof. apply reencode. exact (proj1 ex_reenc_hyps). Qed.

Example ex_pair_reencode : enc_real ex_fe 2 (upd (paired 2 ex_fd ex_fe) 2 ex_x0 ex_x) = enc_real ex_fe 2 ex_x.
Proof. apply pair_reencode; [exact (proj1 ex_pair_hyps)|exact (proj2 ex_reenc_hyps)]. Qed.

(* each side condition of reenc_ok is needed: a well-formed format, a well-typed value, and different bytes *)
(* overlapping paths: a later atom overwrites what an earlier one decoded *)
Example reenc_needs_disjoint :
  let f := FSeq (FPrim PI8 CId [0%nat]) (FSetConst [0%nat] 5) in
  let x := VStruct [VInt 1] in let x0 := VStruct [VInt 0] in
  wf f 0 = true /\ wt f 0 x = true /\ reenc_ok f 0 x0 = false /\
  enc_real f 0 (upd f 0 x0 x) <> enc_real f 0 x.
Proof. vm_compute. repeat split; try reflexivity. discriminate. Qed.

(* a path that is not valid in x0: the decoded field is lost *)
Example reenc_needs_path_ok :
  let f := FPrim PI8 CId [0%nat] in let x := VStruct [VInt 1] in let x0 := VInt 0 in
  wf f 0 = true /\ wt f 0 x = true /\ reenc_ok f 0 x0 = false /\
  enc_real f 0 (upd f 0 x0 x) <> enc_real f 0 x.
Proof. vm_compute. repeat split; try reflexivity. discriminate. Qed.

(* the decoder keeps the field on count 0 but x0 holds a non-empty collection *)
Example reenc_needs_nil_where_kept :
  let k := Build_akind ELI32 ENone DLArr BKeep BNil BNil 0 false in
  let f := FArr "a" k [0%nat] (VInt 0) (FPrim PI8 CId []) in
  let x := VStruct [VList None] in let x0 := VStruct [VList (Some [VInt 3])] in
  wf f 0 = true /\ wt f 0 x = true /\ reenc_ok f 0 x0 = false /\
  enc_real f 0 (upd f 0 x0 x) <> enc_real f 0 x.
Proof. vm_compute. repeat split; try reflexivity. discriminate. Qed.

(* the encoder tells nil from empty, the decoder turns count 0 into nil *)
Example reenc_needs_nilnull :
  let k := Build_akind ELI32 ENilNull DLArr BNil BNil BNil 0 false in
  let f := FArr "a" k [0%nat] (VInt 0) (FPrim PI8 CId []) in
  let x := VStruct [VList (Some [])] in let x0 := VStruct [VList None] in
  wf f 0 = true /\ wt f 0 x = true /\ reenc_ok f 0 x0 = false /\
  enc_real f 0 (upd f 0 x0 x) <> enc_real f 0 x.
Proof. vm_compute. repeat split; try reflexivity. discriminate. Qed.

(* ------------------------------------------------------------------ 5. safety *)
Definition ex_bs : list Z := [0; 1; 0; 2; 104; 105; 255; 255; 127; 255; 255; 255].

Example ex_safe_hyps :
  guarded cfg_fixed ex_fd = true /\ bytes_ok ex_bs = true /\ zlen ex_bs < 2 ^ 63 /\
  max_esize ex_fd * zlen ex_bs <= 480.
Proof. vm_compute. repeat split; try reflexivity. discriminate. Qed.

Example ex_safe : safe_outcome (dec_top cfg_fixed (Some 480) ex_fd 2 ex_x0 ex_bs).
Proof. destruct ex_safe_hyps as [H1 [H2 [H3 H4]]]. apply format_safe_top; assumption. Qed.

(* the format is guarded under the pinned getters as well (no compact strings, DLArr is always bounded) *)
Example ex_safe_pinned : guarded cfg_pinned ex_fd = true.
Proof. vm_compute. reflexivity. Qed.

(* and the count 2^31-1 this input announces is refused, not allocated *)
Example ex_safe_value : dec_top cfg_fixed (Some 480) ex_fd 2 ex_x0 ex_bs = Err.
Proof. vm_compute. reflexivity. Qed.

(* ------------------------------------------------------------------ 6. suffix *)
Example ex_suffix :
  exists y, dec cfg_fixed None ex_fd 2 ex_x0 (enc_real ex_fe 2 ex_x ++ [1; 2; 3]) = Ok (y, [1; 2; 3]).
Proof. eexists. vm_compute. reflexivity. Qed.

(* ------------------------------------------------------------------ C10: an unguarded format does panic *)
Definition bad_kind : akind :=
  {| ak_elen := ELI32; ak_enull := ENone;
     ak_dlen := DLArr; ak_zero := BEmpty; ak_null := BPanic; ak_neg := BPanic;
     ak_esize := 8; ak_map := false |}.
Definition bad_fmt : fmt := FArr "topics" bad_kind [0%nat] (VInt 0) (FPrim PI64 CId []).

Example c10_unguarded_witness :
  guarded cfg_fixed bad_fmt = false /\
  dec_top cfg_fixed (Some 1000) bad_fmt 0 (VStruct [VList None]) [255; 255; 255; 255] = Panic.
Proof. vm_compute. split; reflexivity. Qed.

Lemma unguarded_refuted :
  exists f v x0 bs, guarded cfg_fixed f = false /\ dec_top cfg_fixed (Some 1000) f v x0 bs = Panic.
Proof.
  exists bad_fmt, 0, (VStruct [VList None]), [255; 255; 255; 255]. exact c10_unguarded_witness.
Qed.

(* the site is reported by name *)
Example bad_sites : unguarded_sites cfg_fixed bad_fmt = ["topics"%string].
Proof. vm_compute. reflexivity. Qed.
