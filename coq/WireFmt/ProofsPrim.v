(* WireFmt.ProofsPrim — lemmas about the primitives of WireFmt.Format:
   big-endian integers, uvarints, take_n/firstn/skipn, and the round trip of every primitive codec. *)
From Coq Require Import List ZArith Bool Lia.
From SV Require Import WireFmt.Format.
Import ListNotations.
Open Scope Z_scope.

Ltac Zify.zify_post_hook ::= Z.div_mod_to_equations.

(* ------------------------------------------------------------------ lengths *)
Lemma zlen_nil {A} : zlen (@nil A) = 0.
Proof. reflexivity. Qed.

Lemma zlen_cons {A} (a : A) l : zlen (a :: l) = 1 + zlen l.
Proof. unfold zlen. cbn [length]. lia. Qed.

Lemma zlen_app {A} (a b : list A) : zlen (a ++ b) = zlen a + zlen b.
Proof. unfold zlen. rewrite app_length. lia. Qed.

Lemma zlen_nonneg {A} (l : list A) : 0 <= zlen l.
Proof. unfold zlen. lia. Qed.

Lemma to_nat_zlen {A} (l : list A) : Z.to_nat (zlen l) = length l.
Proof. unfold zlen. apply Nat2Z.id. Qed.

Lemma zlen_zero_nil {A} (l : list A) : zlen l = 0 -> l = [].
Proof. destruct l; [reflexivity|]. rewrite zlen_cons. pose proof (zlen_nonneg l). lia. Qed.

(* ------------------------------------------------------------------ outcomes *)
Lemma bind_ok {A B} (a : A) (f : A -> outcome B) : bind (Ok a) f = f a.
Proof. reflexivity. Qed.

Lemma bind_assoc {A B C} (o : outcome A) (f : A -> outcome B) (g : B -> outcome C) :
  bind (bind o f) g = bind o (fun a => bind (f a) g).
Proof. destruct o; reflexivity. Qed.

Lemma bind_ext {A B} (o : outcome A) (f g : A -> outcome B) :
  (forall a, f a = g a) -> bind o f = bind o g.
Proof. intros H. destruct o; cbn [bind]; auto. Qed.

Lemma bind_ret_pair {A B} (o : outcome (A * B)) : bind o (fun '(a, b) => Ok (a, b)) = o.
Proof. destruct o as [[a b]| | |]; reflexivity. Qed.

Lemma bind_inv_ok {A B} (o : outcome A) (f : A -> outcome B) b :
  bind o f = Ok b -> exists a, o = Ok a /\ f a = Ok b.
Proof. destruct o; cbn [bind]; intros H; try discriminate. eauto. Qed.

(* ------------------------------------------------------------------ take_n *)
Lemma firstn_app_len {A} (a r : list A) : firstn (length a) (a ++ r) = a.
Proof. induction a as [|y a IH]; cbn [length firstn app]; [reflexivity|]. now rewrite IH. Qed.

Lemma skipn_app_len {A} (a r : list A) : skipn (length a) (a ++ r) = r.
Proof. induction a as [|y a IH]; cbn [length skipn app]; [reflexivity|]. exact IH. Qed.

Lemma take_n_app (a r : list Z) : take_n (length a) (a ++ r) = Ok (a, r).
Proof.
  unfold take_n. destruct (Nat.ltb_spec (length (a ++ r)) (length a)) as [H|H].
  - rewrite app_length in H. lia.
  - now rewrite firstn_app_len, skipn_app_len.
Qed.

Lemma take_n_app' n (a r : list Z) : length a = n -> take_n n (a ++ r) = Ok (a, r).
Proof. intros <-. apply take_n_app. Qed.

Lemma take_n_ok n bs h r : take_n n bs = Ok (h, r) -> bs = h ++ r /\ length h = n.
Proof.
  unfold take_n. destruct (Nat.ltb_spec (length bs) n) as [H|H]; intros E; [discriminate|].
  inversion E; subst. split.
  - symmetry. apply firstn_skipn.
  - apply firstn_length_le. exact H.
Qed.

Lemma take_n_not_bad n bs : take_n n bs = Panic \/ (exists a, take_n n bs = Alloc a) -> False.
Proof. unfold take_n. destruct (length bs <? n)%nat; intros [H|[a H]]; discriminate. Qed.

Lemma take_z_app (a r : list Z) : take_z (zlen a) (a ++ r) = Ok (a, r).
Proof.
  unfold take_z. pose proof (zlen_nonneg a) as Ha. pose proof (zlen_nonneg r) as Hr.
  destruct (zlen a <? 0) eqn:E1; [apply Z.ltb_lt in E1; lia|].
  destruct (zlen (a ++ r) <? zlen a) eqn:E2; [apply Z.ltb_lt in E2; rewrite zlen_app in E2; lia|].
  rewrite to_nat_zlen. apply take_n_app.
Qed.

Lemma slice_z_app (a r : list Z) : slice_z (zlen a) (a ++ r) = Ok (a, r).
Proof.
  unfold slice_z. pose proof (zlen_nonneg a) as Ha. pose proof (zlen_nonneg r) as Hr.
  destruct (zlen a <? 0) eqn:E1; [apply Z.ltb_lt in E1; lia|].
  destruct (zlen (a ++ r) <? zlen a) eqn:E2; [apply Z.ltb_lt in E2; rewrite zlen_app in E2; lia|].
  cbn [orb]. rewrite to_nat_zlen. apply take_n_app.
Qed.

Lemma take_z_ok n bs h r : take_z n bs = Ok (h, r) -> bs = h ++ r /\ zlen h = n.
Proof.
  unfold take_z. destruct (n <? 0) eqn:E1; [discriminate|]. destruct (zlen bs <? n); [discriminate|].
  intros H. apply take_n_ok in H. destruct H as [H1 H2]. split; [exact H1|].
  unfold zlen. rewrite H2. apply Z.ltb_ge in E1. lia.
Qed.

Lemma slice_z_ok n bs h r : slice_z n bs = Ok (h, r) -> bs = h ++ r /\ zlen h = n.
Proof.
  unfold slice_z. destruct (n <? 0) eqn:E1; [discriminate|]. destruct (zlen bs <? n); [discriminate|].
  cbn [orb]. intros H. apply take_n_ok in H. destruct H as [H1 H2]. split; [exact H1|].
  unfold zlen. rewrite H2. apply Z.ltb_ge in E1. lia.
Qed.

(* ------------------------------------------------------------------ big endian *)
Lemma be_length n z : length (be n z) = n.
Proof. induction n as [|n IH]; cbn [be length]; [reflexivity|]. now rewrite IH. Qed.

Lemma zlen_be n z : zlen (be n z) = Z.of_nat n.
Proof. unfold zlen. now rewrite be_length. Qed.

Lemma be_bytes_ok n z : bytes_ok (be n z) = true.
Proof.
  induction n as [|n IH]; cbn [be bytes_ok forallb]; [reflexivity|].
  fold (bytes_ok (be n z)). rewrite IH, andb_true_r. unfold byte_ok.
  pose proof (Z.mod_pos_bound (z / 256 ^ Z.of_nat n) 256 ltac:(lia)) as H.
  apply andb_true_iff. split; [apply Z.leb_le|apply Z.ltb_lt]; lia.
Qed.

Lemma be_in_range n z b : In b (be n z) -> 0 <= b < 256.
Proof.
  induction n as [|n IH]; cbn [be In]; [tauto|]. intros [H|H]; [|auto].
  subst b. apply Z.mod_pos_bound. lia.
Qed.

Lemma unbe_app a b acc : unbe (a ++ b) acc = unbe b (unbe a acc).
Proof. revert acc. induction a as [|y a IH]; intros acc; cbn [app unbe]; [reflexivity|]. apply IH. Qed.

Lemma unbe_be_acc n : forall z acc,
  unbe (be n z) acc = acc * 256 ^ Z.of_nat n + z mod 256 ^ Z.of_nat n.
Proof.
  induction n as [|n IH]; intros z acc; cbn [be unbe].
  - change (Z.of_nat 0) with 0. rewrite Z.pow_0_r, Z.mod_1_r. lia.
  - rewrite IH. rewrite Nat2Z.inj_succ, Z.pow_succ_r by lia.
    set (P := 256 ^ Z.of_nat n).
    assert (HP : 0 < P) by (apply Z.pow_pos_nonneg; lia).
    rewrite (Z.mul_comm 256 P). rewrite (Z.rem_mul_r z P 256) by lia. ring.
Qed.

Lemma unbe_be n z : unbe (be n z) 0 = z mod 256 ^ Z.of_nat n.
Proof. rewrite unbe_be_acc. lia. Qed.

Lemma pow256 n : 256 ^ Z.of_nat n = 2 ^ (8 * Z.of_nat n).
Proof. change 256 with (2 ^ 8). rewrite <- Z.pow_mul_r by lia. reflexivity. Qed.

Lemma wraps_mod bits z : 0 <= bits -> wraps bits (z mod 2 ^ bits) = wraps bits z.
Proof.
  intros Hb. unfold wraps. rewrite Z.mod_mod; [reflexivity|].
  assert (0 < 2 ^ bits) by (apply Z.pow_pos_nonneg; lia). lia.
Qed.

Lemma get_uint_be n z r : get_uint n (be n z ++ r) = Ok (z mod 256 ^ Z.of_nat n, r).
Proof.
  unfold get_uint. rewrite (take_n_app' n (be n z) r (be_length n z)). cbn [bind].
  now rewrite unbe_be.
Qed.

Lemma get_int_be n z r : get_int n (be n z ++ r) = Ok (wraps (8 * Z.of_nat n) z, r).
Proof.
  unfold get_int. rewrite get_uint_be. cbn [bind]. rewrite pow256, wraps_mod by lia. reflexivity.
Qed.

(* the four concrete widths *)
Lemma unbe_be1 z : unbe (be 1 z) 0 = z mod 256 ^ 1.  Proof. exact (unbe_be 1 z). Qed.
Lemma unbe_be2 z : unbe (be 2 z) 0 = z mod 256 ^ 2.  Proof. exact (unbe_be 2 z). Qed.
Lemma unbe_be4 z : unbe (be 4 z) 0 = z mod 256 ^ 4.  Proof. exact (unbe_be 4 z). Qed.
Lemma unbe_be8 z : unbe (be 8 z) 0 = z mod 256 ^ 8.  Proof. exact (unbe_be 8 z). Qed.

Lemma get_int_be1 z r : get_int 1 (be 1 z ++ r) = Ok (wraps 8 z, r).   Proof. exact (get_int_be 1 z r). Qed.
Lemma get_int_be2 z r : get_int 2 (be 2 z ++ r) = Ok (wraps 16 z, r).  Proof. exact (get_int_be 2 z r). Qed.
Lemma get_int_be4 z r : get_int 4 (be 4 z ++ r) = Ok (wraps 32 z, r).  Proof. exact (get_int_be 4 z r). Qed.
Lemma get_int_be8 z r : get_int 8 (be 8 z ++ r) = Ok (wraps 64 z, r).  Proof. exact (get_int_be 8 z r). Qed.

Lemma get_uint_be1 z r : get_uint 1 (be 1 z ++ r) = Ok (z mod 2 ^ 8, r).   Proof. exact (get_uint_be 1 z r). Qed.
Lemma get_uint_be2 z r : get_uint 2 (be 2 z ++ r) = Ok (z mod 2 ^ 16, r).  Proof. exact (get_uint_be 2 z r). Qed.
Lemma get_uint_be4 z r : get_uint 4 (be 4 z ++ r) = Ok (z mod 2 ^ 32, r).  Proof. exact (get_uint_be 4 z r). Qed.
Lemma get_uint_be8 z r : get_uint 8 (be 8 z ++ r) = Ok (z mod 2 ^ 64, r).  Proof. exact (get_uint_be 8 z r). Qed.

(* wraps on values already in range *)
Lemma wraps8_id z : -128 <= z < 128 -> wraps 8 z = z.
Proof. intros H. unfold wraps. change (2 ^ (8 - 1)) with 128. change (2 ^ 8) with 256.
  destruct (z mod 256 <? 128) eqn:E; [apply Z.ltb_lt in E|apply Z.ltb_ge in E]; lia. Qed.
Lemma wraps16_id z : -32768 <= z < 32768 -> wraps 16 z = z.
Proof. intros H. unfold wraps. change (2 ^ (16 - 1)) with 32768. change (2 ^ 16) with 65536.
  destruct (z mod 65536 <? 32768) eqn:E; [apply Z.ltb_lt in E|apply Z.ltb_ge in E]; lia. Qed.
Lemma wraps32_id z : - 2 ^ 31 <= z < 2 ^ 31 -> wraps 32 z = z.
Proof. intros H. unfold wraps. change (2 ^ (32 - 1)) with (2 ^ 31).
  destruct (z mod 2 ^ 32 <? 2 ^ 31) eqn:E; [apply Z.ltb_lt in E|apply Z.ltb_ge in E]; lia. Qed.
Lemma wraps64_id z : - 2 ^ 63 <= z < 2 ^ 63 -> wraps 64 z = z.
Proof. intros H. unfold wraps. change (2 ^ (64 - 1)) with (2 ^ 63).
  destruct (z mod 2 ^ 64 <? 2 ^ 63) eqn:E; [apply Z.ltb_lt in E|apply Z.ltb_ge in E]; lia. Qed.

Lemma wraps_range bits z : 1 <= bits -> - 2 ^ (bits - 1) <= wraps bits z < 2 ^ (bits - 1).
Proof.
  intros Hb. unfold wraps.
  assert (E : 2 ^ bits = 2 * 2 ^ (bits - 1)).
  { replace bits with (Z.succ (bits - 1)) at 1 by lia. rewrite Z.pow_succ_r by lia. reflexivity. }
  assert (HP : 0 < 2 ^ (bits - 1)) by (apply Z.pow_pos_nonneg; lia).
  rewrite E. set (P := 2 ^ (bits - 1)) in *.
  pose proof (Z.mod_pos_bound z (2 * P) ltac:(lia)) as Hm.
  destruct (z mod (2 * P) <? P) eqn:E1; [apply Z.ltb_lt in E1|apply Z.ltb_ge in E1]; lia.
Qed.

(* wraps is idempotent (used by the re-encoding theorem) *)
Lemma wraps_mod_eq bits z : 0 <= bits -> wraps bits z mod 2 ^ bits = z mod 2 ^ bits.
Proof.
  intros Hb. unfold wraps.
  assert (HP : 0 < 2 ^ bits) by (apply Z.pow_pos_nonneg; lia).
  destruct (z mod 2 ^ bits <? 2 ^ (bits - 1)).
  - apply Z.mod_mod. lia.
  - replace (z mod 2 ^ bits - 2 ^ bits) with (z mod 2 ^ bits + (-1) * 2 ^ bits) by ring.
    rewrite Z.mod_add by lia. apply Z.mod_mod. lia.
Qed.

Lemma be_mod_eq n : forall a b, a mod 256 ^ Z.of_nat n = b mod 256 ^ Z.of_nat n -> be n a = be n b.
Proof.
  induction n as [|n IH]; intros a b H; cbn [be]; [reflexivity|].
  rewrite Nat2Z.inj_succ, Z.pow_succ_r in H by lia.
  set (P := 256 ^ Z.of_nat n) in *.
  assert (HP : 0 < P) by (apply Z.pow_pos_nonneg; lia).
  rewrite (Z.mul_comm 256 P) in H.
  rewrite (Z.rem_mul_r a P 256), (Z.rem_mul_r b P 256) in H by lia.
  pose proof (Z.mod_pos_bound a P HP) as Ha. pose proof (Z.mod_pos_bound b P HP) as Hb.
  pose proof (Z.mod_pos_bound (a / P) 256 ltac:(lia)) as Ha'.
  pose proof (Z.mod_pos_bound (b / P) 256 ltac:(lia)) as Hb'.
  assert (E1 : (a / P) mod 256 = (b / P) mod 256) by nia.
  assert (E2 : a mod P = b mod P) by nia.
  rewrite E1. f_equal. apply IH. exact E2.
Qed.

Lemma be_wraps n z : be n (wraps (8 * Z.of_nat n) z) = be n z.
Proof. apply be_mod_eq. rewrite pow256. apply wraps_mod_eq. lia. Qed.

(* ------------------------------------------------------------------ uvarint *)
Lemma uvarint_size_aux_len fuel : forall n, uvarint_size_aux fuel n = zlen (uvarint_aux fuel n).
Proof.
  induction fuel as [|f IH]; intros n; cbn [uvarint_size_aux uvarint_aux]; [reflexivity|].
  destruct (n <? 128); [reflexivity|]. rewrite zlen_cons, IH. reflexivity.
Qed.

Lemma uvarint_size_len n : uvarint_size n = zlen (uvarint n).
Proof. unfold uvarint_size, uvarint. apply uvarint_size_aux_len. Qed.

Lemma uvarint_size_0 : uvarint_size 0 = 1.
Proof. reflexivity. Qed.

Lemma uvarint_aux_pos fuel n : 1 <= zlen (uvarint_aux (S fuel) n).
Proof.
  cbn [uvarint_aux]. destruct (n <? 128); rewrite zlen_cons.
  - rewrite zlen_nil. lia.
  - pose proof (zlen_nonneg (uvarint_aux fuel (n / 128))). lia.
Qed.

Lemma uvarint_len_pos n : 1 <= zlen (uvarint n).
Proof. unfold uvarint. apply uvarint_aux_pos. Qed.

Lemma uvarint_aux_bytes_ok fuel : forall n, 0 <= n -> bytes_ok (uvarint_aux fuel n) = true.
Proof.
  induction fuel as [|f IH]; intros n Hn; cbn [uvarint_aux]; [reflexivity|].
  destruct (n <? 128) eqn:E; [apply Z.ltb_lt in E|apply Z.ltb_ge in E]; cbn [bytes_ok forallb].
  - rewrite andb_true_r. unfold byte_ok. apply andb_true_iff. split; [apply Z.leb_le|apply Z.ltb_lt]; lia.
  - fold (bytes_ok (uvarint_aux f (n / 128))). rewrite IH by (apply Z.div_pos; lia).
    rewrite andb_true_r. unfold byte_ok. apply andb_true_iff. split; [apply Z.leb_le|apply Z.ltb_lt]; lia.
Qed.

Lemma uvarint_bytes_ok n : bytes_ok (uvarint n) = true.
Proof. unfold uvarint. apply uvarint_aux_bytes_ok. apply Z.mod_pos_bound. lia. Qed.

Lemma get_uvarint_aux_enc fuel : forall m i x s r,
  0 <= m -> s = 7 * Z.of_nat i -> m * 2 ^ s < 2 ^ 64 -> (i + fuel = 10)%nat -> (1 <= fuel)%nat ->
  get_uvarint_aux (uvarint_aux fuel m ++ r) i x s = Ok (x + m * 2 ^ s, r).
Proof.
  induction fuel as [|f IH]; intros m i x s r Hm Hs Hlt Hif Hf; [lia|].
  assert (HP : 0 < 2 ^ s) by (apply Z.pow_pos_nonneg; lia).
  cbn [uvarint_aux].
  assert (Ei : (i =? 10)%nat = false) by (apply Nat.eqb_neq; lia).
  destruct (m <? 128) eqn:E.
  - apply Z.ltb_lt in E. cbn [app get_uvarint_aux]. rewrite Ei.
    destruct (m <? 128) eqn:E'; [|apply Z.ltb_ge in E'; lia].
    destruct (i =? 9)%nat eqn:E9; cbn [andb]; [|reflexivity].
    apply Nat.eqb_eq in E9. subst i. change (7 * Z.of_nat 9) with 63 in Hs. subst s.
    destruct (1 <? m) eqn:E1; [|reflexivity]. apply Z.ltb_lt in E1. lia.
  - apply Z.ltb_ge in E. cbn [app get_uvarint_aux]. rewrite Ei.
    destruct (m mod 128 + 128 <? 128) eqn:E'; [apply Z.ltb_lt in E'; lia|].
    assert (Hs7 : s + 7 < 64).
    { apply (Z.pow_lt_mono_r_iff 2); [lia|lia|]. rewrite Z.pow_add_r by lia.
      change (2 ^ 7) with 128. nia. }
    rewrite IH.
    + f_equal. f_equal. rewrite Z.pow_add_r by lia. change (2 ^ 7) with 128.
      set (P := 2 ^ s) in *. pose proof (Z.div_mod m 128 ltac:(lia)) as Hdm.
      set (q := m / 128) in *. set (t := m mod 128) in *. rewrite Hdm. ring.
    + apply Z.div_pos; lia.
    + lia.
    + rewrite Z.pow_add_r by lia. change (2 ^ 7) with 128.
      set (P := 2 ^ s) in *. pose proof (Z.div_mod m 128 ltac:(lia)) as Hdm.
      pose proof (Z.mod_pos_bound m 128 ltac:(lia)) as Hb.
      set (q := m / 128) in *. set (t := m mod 128) in *. nia.
    + lia.
    + lia.
Qed.

Lemma get_uvarint_uvarint n r : get_uvarint (uvarint n ++ r) = Ok (n mod 2 ^ 64, r).
Proof.
  unfold get_uvarint, uvarint.
  pose proof (Z.mod_pos_bound n (2 ^ 64) ltac:(lia)) as Hb.
  rewrite (get_uvarint_aux_enc 10 (n mod 2 ^ 64) 0 0 0 r); try lia.
  f_equal. f_equal. change (2 ^ 0) with 1. lia.
Qed.

Lemma get_uvarint_small n r : 0 <= n < 2 ^ 64 -> get_uvarint (uvarint n ++ r) = Ok (n, r).
Proof. intros H. rewrite get_uvarint_uvarint. rewrite Z.mod_small by lia. reflexivity. Qed.

Lemma get_uvarint_zero r : get_uvarint (0 :: r) = Ok (0, r).
Proof. reflexivity. Qed.

Lemma to_int64_id z : - 2 ^ 63 <= z < 2 ^ 63 -> to_int64 z = z.
Proof. apply wraps64_id. Qed.

Lemma to_int64_m1 : to_int64 (-1) = -1.
Proof. reflexivity. Qed.

(* ------------------------------------------------------------------ primitive codecs *)
Lemma bool_byte (z : Z) : (if z =? 0 then 0 else 1) = 0 \/ (if z =? 0 then 0 else 1) = 1.
Proof. destruct (z =? 0); auto. Qed.

Lemma enc_prim_len_pos p c x : 1 <= zlen (enc_prim p c x).
Proof.
  destruct p; cbn [enc_prim]; try (rewrite zlen_be; lia);
    try (rewrite zlen_cons, zlen_nil; lia).
  - rewrite zlen_app, zlen_be. pose proof (zlen_nonneg (olist (as_bytes x))). lia.
  - destruct (as_bytes x) as [s|]; [rewrite zlen_app|]; rewrite zlen_be; [pose proof (zlen_nonneg s)|]; lia.
  - rewrite zlen_app. pose proof (zlen_nonneg (olist (as_bytes x))).
    pose proof (uvarint_len_pos (zlen (olist (as_bytes x)) + 1)). lia.
  - destruct (as_bytes x) as [s|]; [|rewrite zlen_cons, zlen_nil; lia].
    rewrite zlen_app. pose proof (zlen_nonneg s). pose proof (uvarint_len_pos (zlen s + 1)). lia.
  - destruct (as_bytes x) as [s|]; [rewrite zlen_app|]; rewrite zlen_be; [pose proof (zlen_nonneg s)|]; lia.
  - rewrite zlen_app. pose proof (zlen_nonneg (olist (as_bytes x))).
    pose proof (uvarint_len_pos (zlen (olist (as_bytes x)) + 1)). lia.
Qed.

Lemma prep_prim_len p c x : prep_prim p x = zlen (enc_prim p c x).
Proof.
  destruct p; cbn [prep_prim enc_prim]; try (rewrite zlen_be; reflexivity); try reflexivity.
  - rewrite zlen_app, zlen_be. reflexivity.
  - destruct (as_bytes x); [rewrite zlen_app|]; rewrite zlen_be; reflexivity.
  - rewrite zlen_app, uvarint_size_len. reflexivity.
  - destruct (as_bytes x); [|reflexivity]. rewrite zlen_app, uvarint_size_len. reflexivity.
  - destruct (as_bytes x); [rewrite zlen_app|]; rewrite zlen_be; reflexivity.
  - rewrite zlen_app, uvarint_size_len. reflexivity.
Qed.

(* string-like bodies *)
Lemma dec_str16 s r (nullv : value) :
  zlen s <= 32767 ->
  bind (get_int 2 (be 2 (zlen s) ++ s ++ r)) (fun '(n, r0) =>
        if n <? -1 then Err else if zlen r0 <? n then Err
        else if n =? -1 then Ok (nullv, r0)
        else bind (take_n (Z.to_nat n) r0) (fun '(s0, r') => Ok (VBytes (Some s0), r')))
  = Ok (VBytes (Some s), r).
Proof.
  intros Hs. pose proof (zlen_nonneg s) as H0. pose proof (zlen_nonneg r) as Hr.
  rewrite get_int_be2. cbn [bind]. rewrite wraps16_id by lia.
  destruct (zlen s <? -1) eqn:E1; [apply Z.ltb_lt in E1; lia|].
  destruct (zlen (s ++ r) <? zlen s) eqn:E2; [apply Z.ltb_lt in E2; rewrite zlen_app in E2; lia|].
  destruct (zlen s =? -1) eqn:E3; [apply Z.eqb_eq in E3; lia|].
  rewrite to_nat_zlen, take_n_app. reflexivity.
Qed.

Lemma dec_null16 r (nullv : value) :
  bind (get_int 2 (be 2 (-1) ++ r)) (fun '(n, r0) =>
        if n <? -1 then Err else if zlen r0 <? n then Err
        else if n =? -1 then Ok (nullv, r0)
        else bind (take_n (Z.to_nat n) r0) (fun '(s0, r') => Ok (VBytes (Some s0), r')))
  = Ok (nullv, r).
Proof.
  rewrite get_int_be2. cbn [bind]. rewrite wraps16_id by lia.
  pose proof (zlen_nonneg r) as Hr.
  change (-1 <? -1) with false. cbv iota.
  destruct (zlen r <? -1) eqn:E2; [apply Z.ltb_lt in E2; lia|]. reflexivity.
Qed.

Lemma uvarint_len_dec s r :
  zlen s < 2 ^ 31 ->
  get_uvarint (uvarint (zlen s + 1) ++ s ++ r) = Ok (zlen s + 1, s ++ r) /\ to_int64 (zlen s + 1 - 1) = zlen s.
Proof.
  intros Hs. pose proof (zlen_nonneg s) as H0. split.
  - apply get_uvarint_small. lia.
  - replace (zlen s + 1 - 1) with (zlen s) by lia. apply to_int64_id. lia.
Qed.

Theorem dec_prim_roundtrip cfg p c x r :
  wt_prim p x = true ->
  dec_prim cfg p c (enc_prim p c x ++ r) = Ok (norm_prim p c x, r).
Proof.
  intros Hwt. destruct p; cbn [wt_prim] in Hwt.
  - (* PI8 *) cbn [dec_prim enc_prim norm_prim int_width]. rewrite get_int_be1. reflexivity.
  - cbn [dec_prim enc_prim norm_prim int_width]. rewrite get_int_be2. reflexivity.
  - cbn [dec_prim enc_prim norm_prim int_width]. rewrite get_int_be4. reflexivity.
  - cbn [dec_prim enc_prim norm_prim int_width]. rewrite get_int_be8. reflexivity.
  - (* PBool *) cbn [dec_prim enc_prim norm_prim].
    destruct (as_int x =? 0); reflexivity.
  - (* PStr *) destruct x as [|[s|]| |]; try discriminate. apply andb_true_iff in Hwt. destruct Hwt as [_ Hl].
    apply Z.leb_le in Hl. cbn [dec_prim enc_prim norm_prim as_bytes olist]. rewrite <- app_assoc.
    apply dec_str16. exact Hl.
  - (* PNStr *) destruct x as [|[s|]| |]; try discriminate; cbn [dec_prim enc_prim norm_prim as_bytes olist].
    + apply andb_true_iff in Hwt. destruct Hwt as [_ Hl]. apply Z.leb_le in Hl. rewrite <- app_assoc.
      apply dec_str16. exact Hl.
    + apply dec_null16.
  - (* PCStr *) destruct x as [|[s|]| |]; try discriminate. apply andb_true_iff in Hwt. destruct Hwt as [_ Hl].
    apply Z.ltb_lt in Hl. cbn [dec_prim enc_prim norm_prim as_bytes olist]. rewrite <- app_assoc.
    destruct (uvarint_len_dec s r Hl) as [E1 E2]. rewrite E1. cbn [bind]. cbv zeta. rewrite E2.
    pose proof (zlen_nonneg s) as H0. pose proof (zlen_nonneg r) as Hr.
    destruct (cf_cstr_bounded cfg).
    + destruct (zlen s <? 0) eqn:E3; [apply Z.ltb_lt in E3; lia|].
      destruct (zlen (s ++ r) <? zlen s) eqn:E4; [apply Z.ltb_lt in E4; rewrite zlen_app in E4; lia|].
      rewrite to_nat_zlen, take_n_app. reflexivity.
    + rewrite slice_z_app. reflexivity.
  - (* PCNStr *) destruct x as [|[s|]| |]; try discriminate; cbn [dec_prim enc_prim norm_prim as_bytes olist].
    + apply andb_true_iff in Hwt. destruct Hwt as [_ Hl]. apply Z.ltb_lt in Hl. rewrite <- app_assoc.
      destruct (uvarint_len_dec s r Hl) as [E1 E2]. rewrite E1. cbn [bind]. cbv zeta. rewrite E2.
      pose proof (zlen_nonneg s) as H0. pose proof (zlen_nonneg r) as Hr.
      destruct (zlen s <? 0) eqn:E3; [apply Z.ltb_lt in E3; lia|].
      destruct (cf_cnstr_bounded cfg).
      * destruct (zlen (s ++ r) <? zlen s) eqn:E4; [apply Z.ltb_lt in E4; rewrite zlen_app in E4; lia|].
        rewrite to_nat_zlen, take_n_app. reflexivity.
      * rewrite slice_z_app. reflexivity.
    + reflexivity.
  - (* PBytes *) destruct x as [|[s|]| |]; try discriminate; cbn [dec_prim enc_prim norm_prim as_bytes olist].
    + apply andb_true_iff in Hwt. destruct Hwt as [_ Hl]. apply Z.ltb_lt in Hl. rewrite <- app_assoc.
      pose proof (zlen_nonneg s) as H0.
      rewrite get_int_be4. cbn [bind]. rewrite wraps32_id by lia.
      destruct (zlen s =? -1) eqn:E3; [apply Z.eqb_eq in E3; lia|].
      rewrite take_z_app. reflexivity.
    + rewrite get_int_be4. reflexivity.
  - (* PCBytes *)
    assert (Hl : zlen (olist (as_bytes x)) < 2 ^ 31).
    { destruct x as [|[s|]| |]; try discriminate; cbn [as_bytes olist].
      - apply andb_true_iff in Hwt. destruct Hwt as [_ Hl]. apply Z.ltb_lt in Hl. exact Hl.
      - rewrite zlen_nil. lia. }
    cbn [dec_prim enc_prim norm_prim]. set (s := olist (as_bytes x)) in *. rewrite <- app_assoc.
    destruct (uvarint_len_dec s r Hl) as [E1 E2]. rewrite E1. cbn [bind]. rewrite E2.
    rewrite take_z_app. reflexivity.
Qed.
