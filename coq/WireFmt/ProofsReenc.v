(* WireFmt.ProofsReenc — re-encoding the decoded value gives identical bytes:
     reencode   reenc_ok f v x0 = true -> enc_real f v (upd f v x0 x) = enc_real f v x
   [reenc_ok] is computable: the paths the format touches at version v are valid in x0 and pairwise
   non-overlapping; where the decoder keeps the field (BKeep) the collection of x0 is nil; a collection whose
   encoder distinguishes nil from empty (ENilNull) is decoded by a null behaviour that yields nil and a zero
   behaviour that yields a non-nil empty collection; and the same, recursively, for the element formats and
   the values the decoder starts each element from. *)
From Coq Require Import List ZArith Bool Lia.
From SV Require Import WireFmt.Format WireFmt.ProofsPrim WireFmt.Proofs WireFmt.ProofsPair.
Import ListNotations.
Open Scope Z_scope.

(* ================================================================== paths *)
Fixpoint is_prefix (p q : path) : bool :=
  match p, q with
  | [], _ => true
  | _ :: _, [] => false
  | i :: p', j :: q' => (i =? j)%nat && is_prefix p' q'
  end.
Definition overlap (p q : path) : bool := is_prefix p q || is_prefix q p.
Definition disjoint_from (a : path) (l : list path) : bool := forallb (fun q => negb (overlap a q)) l.
Fixpoint pairwise_disjoint (l : list path) : bool :=
  match l with
  | [] => true
  | a :: r => disjoint_from a r && pairwise_disjoint r
  end.

Lemma overlap_sym p q : overlap p q = overlap q p.
Proof. unfold overlap. apply orb_comm. Qed.

Lemma overlap_nil_l q : overlap [] q = true.
Proof. reflexivity. Qed.

Lemma overlap_nil_r p : overlap p [] = true.
Proof. rewrite overlap_sym. reflexivity. Qed.

Lemma overlap_cons i p q : overlap (i :: p) (i :: q) = overlap p q.
Proof. unfold overlap. cbn [is_prefix]. rewrite Nat.eqb_refl. reflexivity. Qed.

Lemma pairwise_app l1 : forall l2,
  pairwise_disjoint (l1 ++ l2) = true ->
  pairwise_disjoint l1 = true /\ pairwise_disjoint l2 = true /\
  (forall p q, In p l1 -> In q l2 -> overlap p q = false).
Proof.
  induction l1 as [|a l1 IH]; intros l2 H; cbn [app pairwise_disjoint] in *.
  - repeat split; auto. intros p q [].
  - apply andb_true_iff in H. destruct H as [Ha Hr]. unfold disjoint_from in Ha.
    rewrite forallb_app in Ha. apply andb_true_iff in Ha. destruct Ha as [Ha1 Ha2].
    destruct (IH l2 Hr) as [H1 [H2 H3]]. repeat split; auto.
    + apply andb_true_iff. split; auto.
    + intros p q [<-|Hp] Hq; [|auto].
      rewrite forallb_forall in Ha2. specialize (Ha2 q Hq). apply negb_true_iff in Ha2. exact Ha2.
Qed.

Lemma nth_error_set_nth_same {A} (l : list A) : forall i old y,
  nth_error l i = Some old -> nth_error (set_nth i y l) i = Some y.
Proof.
  induction l as [|a l IH]; intros [|i] old y H; cbn [nth_error set_nth] in *; try discriminate; eauto.
Qed.

Lemma nth_error_set_nth_other {A} (l : list A) : forall i j y,
  i <> j -> nth_error (set_nth i y l) j = nth_error l j.
Proof.
  induction l as [|a l IH]; intros [|i] [|j] y H; cbn [nth_error set_nth]; try reflexivity; try congruence.
  apply IH. congruence.
Qed.

Lemma vget_vset_same p : forall x y, path_ok p x = true -> vget p (vset p y x) = y.
Proof.
  induction p as [|i p IH]; intros x y H; cbn [path_ok vset] in *; [reflexivity|].
  destruct x as [| | |fs]; try discriminate.
  destruct (nth_error fs i) as [old|] eqn:E; try discriminate.
  cbn [vget]. rewrite (nth_error_set_nth_same fs i old _ E). apply IH. exact H.
Qed.

Lemma vget_vset_other p : forall q x y, overlap p q = false -> vget q (vset p y x) = vget q x.
Proof.
  induction p as [|i p IH]; intros q x y H; [rewrite overlap_nil_l in H; discriminate|].
  destruct q as [|j q]; [rewrite overlap_nil_r in H; discriminate|].
  cbn [vset]. destruct x as [| | |fs]; try reflexivity.
  destruct (nth_error fs i) as [old|] eqn:E; try reflexivity.
  cbn [vget]. destruct (Nat.eq_dec i j) as [<-|Hij].
  - rewrite (nth_error_set_nth_same fs i old _ E), E. apply IH. rewrite overlap_cons in H. exact H.
  - rewrite (nth_error_set_nth_other fs i j _ Hij). reflexivity.
Qed.

Lemma path_ok_vset_other p : forall q x y, overlap p q = false -> path_ok q (vset p y x) = path_ok q x.
Proof.
  induction p as [|i p IH]; intros q x y H; [rewrite overlap_nil_l in H; discriminate|].
  destruct q as [|j q]; [rewrite overlap_nil_r in H; discriminate|].
  cbn [vset]. destruct x as [| | |fs]; try reflexivity.
  destruct (nth_error fs i) as [old|] eqn:E; try reflexivity.
  cbn [path_ok]. destruct (Nat.eq_dec i j) as [<-|Hij].
  - rewrite (nth_error_set_nth_same fs i old _ E), E. apply IH. rewrite overlap_cons in H. exact H.
  - rewrite (nth_error_set_nth_other fs i j _ Hij). reflexivity.
Qed.

(* ================================================================== the side conditions *)
(* the paths the format reads (encoder) and writes (upd) at version v *)
Fixpoint touched (f : fmt) (v : Z) : list path :=
  match f with
  | FNil | FConst _ _ | FTag => []
  | FSeq a b => touched a v ++ touched b v
  | FGate c a b => if veval c v then touched a v else touched b v
  | FPrim _ _ pa | FSetVer pa | FSetConst pa _ | FArr _ _ pa _ _ => [pa]
  end.

(* behaviours that leave the field of x0 as it is *)
Definition keeps (b : beh) : bool := match b with BKeep | BPanic => true | _ => false end.
Definition is_nil_list (x : value) : bool := match as_list x with None => true | Some _ => false end.
Definition compact_both (k : akind) : bool :=
  match ak_elen k, ak_dlen k with ELCompact, DLCompact => true | _, _ => false end.

(* an encoder that tells nil from empty needs a decoder that does *)
Definition nilnull_ok (k : akind) : bool :=
  match ak_enull k with
  | ENilNull =>
      negb (compact_both k) &&
      match ak_null k with BEmpty => false | _ => true end &&
      match ak_zero k with BEmpty => true | _ => false end
  | _ => true
  end.

(* what depends on the value decoding starts from *)
Fixpoint dyn_ok (f : fmt) (v : Z) (x0 : value) : bool :=
  match f with
  | FNil | FConst _ _ | FTag => true
  | FSeq a b => dyn_ok a v x0 && dyn_ok b v x0
  | FGate c a b => if veval c v then dyn_ok a v x0 else dyn_ok b v x0
  | FPrim _ _ pa | FSetVer pa | FSetConst pa _ => path_ok pa x0
  | FArr _ k pa _ _ =>
      path_ok pa x0 && (if keeps (ak_zero k) || keeps (ak_null k) then is_nil_list (vget pa x0) else true)
  end.

(* what depends on the format only *)
Fixpoint static_ok (f : fmt) (v : Z) : bool :=
  match f with
  | FSeq a b => static_ok a v && static_ok b v
  | FGate c a b => if veval c v then static_ok a v else static_ok b v
  | FArr _ k _ zero e =>
      nilnull_ok k && static_ok e v && pairwise_disjoint (touched e v) && dyn_ok e v zero
  | _ => true
  end.

Definition reenc_ok (f : fmt) (v : Z) (x0 : value) : bool :=
  static_ok f v && pairwise_disjoint (touched f v) && dyn_ok f v x0.

(* ================================================================== frame lemmas *)
Lemma upd_beh_frame b pa x0 q :
  overlap pa q = false ->
  vget q (upd_beh b pa x0) = vget q x0 /\ path_ok q (upd_beh b pa x0) = path_ok q x0.
Proof.
  intros H. destruct b; cbn [upd_beh]; split; try reflexivity;
    first [apply vget_vset_other; exact H | apply path_ok_vset_other; exact H].
Qed.

Lemma upd_frame v x f : forall x0 q,
  (forall p, In p (touched f v) -> overlap p q = false) ->
  vget q (upd f v x0 x) = vget q x0 /\ path_ok q (upd f v x0 x) = path_ok q x0.
Proof.
  induction f as [|a IHa b IHb|c a IHa b IHb|p c pa|p z| |pa|pa z|lbl k pa zero e IHe];
    intros x0 q H; cbn [upd touched] in *.
  - auto.
  - destruct (IHb (upd a v x0 x) q) as [E1 E2]; [intros p Hp; apply H, in_or_app; auto|].
    destruct (IHa x0 q) as [E3 E4]; [intros p Hp; apply H, in_or_app; auto|].
    rewrite E1, E2, E3, E4. auto.
  - destruct (veval c v); auto.
  - split; [apply vget_vset_other|apply path_ok_vset_other]; apply H; left; reflexivity.
  - auto.
  - auto.
  - split; [apply vget_vset_other|apply path_ok_vset_other]; apply H; left; reflexivity.
  - split; [apply vget_vset_other|apply path_ok_vset_other]; apply H; left; reflexivity.
  - assert (Hq : overlap pa q = false) by (apply H; left; reflexivity).
    destruct (olist (as_list (vget pa x))).
    + apply upd_beh_frame. exact Hq.
    + split; [apply vget_vset_other|apply path_ok_vset_other]; exact Hq.
Qed.

(* the encoder reads the value only at the touched paths *)
Lemma enc_real_read v f : forall y y',
  (forall p, In p (touched f v) -> vget p y = vget p y') -> enc_real f v y = enc_real f v y'.
Proof.
  induction f as [|a IHa b IHb|c a IHa b IHb|p c pa|p z| |pa|pa z|lbl k pa zero e IHe];
    intros y y' H; cbn [enc_real touched] in *; try reflexivity.
  - rewrite (IHa y y'), (IHb y y'); [reflexivity| |]; intros p Hp; apply H, in_or_app; auto.
  - destruct (veval c v); auto.
  - rewrite (H pa); [reflexivity|left; reflexivity].
  - rewrite (H pa); [reflexivity|left; reflexivity].
Qed.

Lemma dyn_ok_frame v f : forall x1 x0,
  (forall p, In p (touched f v) -> vget p x1 = vget p x0 /\ path_ok p x1 = path_ok p x0) ->
  dyn_ok f v x1 = dyn_ok f v x0.
Proof.
  induction f as [|a IHa b IHb|c a IHa b IHb|p c pa|p z| |pa|pa z|lbl k pa zero e IHe];
    intros x1 x0 H; cbn [dyn_ok touched] in *; try reflexivity.
  - rewrite (IHa x1 x0), (IHb x1 x0); [reflexivity| |]; intros p Hp; apply H, in_or_app; auto.
  - destruct (veval c v); auto.
  - apply H. left. reflexivity.
  - apply H. left. reflexivity.
  - apply H. left. reflexivity.
  - destruct (H pa (or_introl eq_refl)) as [E1 E2]. rewrite E1, E2. reflexivity.
Qed.

(* ================================================================== primitives *)
Lemma conv_to_from c u : conv_to c (conv_from c u) = u.
Proof. destruct c; cbn [conv_to conv_from]; [reflexivity|]. apply Z.quot_mul. unfold ms. lia. Qed.

Lemma enc_norm_prim p c z : enc_prim p c (norm_prim p c z) = enc_prim p c z.
Proof.
  destruct p; cbn [enc_prim norm_prim as_int as_bytes olist]; try reflexivity.
  - rewrite conv_to_from. exact (be_wraps 1 _).
  - rewrite conv_to_from. exact (be_wraps 2 _).
  - rewrite conv_to_from. exact (be_wraps 4 _).
  - rewrite conv_to_from. exact (be_wraps 8 _).
  - destruct (as_int z =? 0); reflexivity.
Qed.

(* ================================================================== collections *)
Lemma upd_list_len u l : zlen (upd_list u l) = zlen l.
Proof. induction l as [|y l IH]; cbn [upd_list]; [reflexivity|]. rewrite !zlen_cons, IH. reflexivity. Qed.

Lemma enc_list_upd_list E u l : (forall y, E (u y) = E y) -> enc_list E (upd_list u l) = enc_list E l.
Proof. intros H. induction l as [|y l IH]; cbn [upd_list enc_list]; [reflexivity|]. now rewrite H, IH. Qed.

Lemma olist_cons_inv {A} (o : option (list A)) y l : olist o = y :: l -> o = Some (y :: l).
Proof. destruct o; cbn [olist]; intros H; [now subst|discriminate]. Qed.

Lemma enc_arr_nonempty k E y l u :
  (forall z, E (u z) = E z) ->
  enc_arr k (Some (upd_list u (y :: l))) E = enc_arr k (Some (y :: l)) E.
Proof.
  intros H. unfold enc_arr. cbn [olist]. rewrite upd_list_len, (enc_list_upd_list E u _ H). reflexivity.
Qed.

Lemma as_list_upd_beh b pa x0 :
  path_ok pa x0 = true ->
  as_list (vget pa (upd_beh b pa x0)) =
  match b with BNil => None | BEmpty => Some [] | _ => as_list (vget pa x0) end.
Proof. intros H. destruct b; cbn [upd_beh]; try reflexivity; rewrite vget_vset_same by exact H; reflexivity. Qed.

Lemma count_beh_empty k o :
  olist o = [] ->
  (count_beh k (seen_count k o) = ak_zero k /\ (writes_null (ak_enull k) o = false \/ compact_both k = true)) \/
  (count_beh k (seen_count k o) = ak_null k /\ writes_null (ak_enull k) o = true /\ compact_both k = false).
Proof.
  intros Ho. unfold seen_count, compact_both. destruct (writes_null (ak_enull k) o).
  - destruct (ak_elen k), (ak_dlen k); cbn; auto.
  - rewrite Ho. left. split; auto.
Qed.

Lemma enc_arr_empty k E o o' :
  olist o = [] -> olist o' = [] -> writes_null (ak_enull k) o' = writes_null (ak_enull k) o ->
  enc_arr k o' E = enc_arr k o E.
Proof. intros H1 H2 H3. unfold enc_arr. rewrite H1, H2, H3. reflexivity. Qed.

Lemma arr_empty_reenc k E pa x0 o :
  nilnull_ok k = true -> path_ok pa x0 = true ->
  (if keeps (ak_zero k) || keeps (ak_null k) then is_nil_list (vget pa x0) else true) = true ->
  olist o = [] ->
  enc_arr k (as_list (vget pa (upd_beh (count_beh k (seen_count k o)) pa x0))) E = enc_arr k o E.
Proof.
  intros Hnn Hpa Hkeep Ho. rewrite (as_list_upd_beh _ pa x0 Hpa).
  set (b := count_beh k (seen_count k o)).
  assert (Hb : b = ak_zero k \/ b = ak_null k).
  { destruct (count_beh_empty k o Ho) as [[H _]|[H _]]; auto. }
  assert (Hk : keeps b = true -> as_list (vget pa x0) = None).
  { intros Hkb. assert (Hor : keeps (ak_zero k) || keeps (ak_null k) = true).
    { apply orb_true_iff. destruct Hb as [<-|<-]; auto. }
    rewrite Hor in Hkeep. unfold is_nil_list in Hkeep. destruct (as_list (vget pa x0)); [discriminate|reflexivity]. }
  set (o' := match b with BNil => None | BEmpty => Some [] | _ => as_list (vget pa x0) end).
  assert (Ho' : olist o' = []).
  { unfold o'. destruct b; try reflexivity; rewrite Hk; reflexivity. }
  apply enc_arr_empty; auto.
  unfold nilnull_ok in Hnn. destruct (ak_enull k) eqn:En; cbn [writes_null].
  - reflexivity.
  - rewrite Ho, Ho'. reflexivity.
  - apply andb_true_iff in Hnn. destruct Hnn as [Hnn Hz].
    apply andb_true_iff in Hnn. destruct Hnn as [Hcc Hn]. apply negb_true_iff in Hcc.
    destruct (count_beh_empty k o Ho) as [[H1 H2]|[H1 [H2 H3]]]; fold b in H1.
    + destruct H2 as [H2|H2]; [|congruence]. rewrite En in H2. cbn [writes_null] in H2.
      destruct o as [l|]; [|discriminate]. unfold o'. rewrite H1.
      destruct (ak_zero k); try discriminate. reflexivity.
    + rewrite En in H2. cbn [writes_null] in H2. destruct o as [l|]; [discriminate|].
      unfold o'. rewrite H1 in *. destruct (ak_null k); try discriminate; try reflexivity;
        rewrite Hk; reflexivity.
  - reflexivity.
Qed.

(* ================================================================== 3. re-encoding *)
Lemma reencode_gen v f : forall x x0,
  static_ok f v = true -> pairwise_disjoint (touched f v) = true -> dyn_ok f v x0 = true ->
  enc_real f v (upd f v x0 x) = enc_real f v x.
Proof.
  induction f as [|a IHa b IHb|c a IHa b IHb|p c pa|p z| |pa|pa z|lbl k pa zero e IHe];
    intros x x0 Hs Hp Hd; cbn [enc_real upd static_ok touched dyn_ok] in *; try reflexivity.
  - apply andb_true_iff in Hs. destruct Hs as [Hsa Hsb].
    apply andb_true_iff in Hd. destruct Hd as [Hda Hdb].
    destruct (pairwise_app _ _ Hp) as [Hpa [Hpb Hab]].
    f_equal.
    + transitivity (enc_real a v (upd a v x0 x)); [|apply IHa; assumption].
      apply enc_real_read. intros p Hin. apply upd_frame. intros q Hq.
      rewrite overlap_sym. apply Hab; assumption.
    + apply IHb; try assumption.
      rewrite (dyn_ok_frame v b (upd a v x0 x) x0); [exact Hdb|].
      intros q Hq. apply upd_frame. intros p Hin. apply Hab; assumption.
  - destruct (veval c v); auto.
  - rewrite vget_vset_same by exact Hd. apply enc_norm_prim.
  - apply andb_true_iff in Hs. destruct Hs as [Hs Hdz].
    apply andb_true_iff in Hs. destruct Hs as [Hs Hpe].
    apply andb_true_iff in Hs. destruct Hs as [Hnn Hse].
    apply andb_true_iff in Hd. destruct Hd as [Hpa Hkeep].
    destruct (olist (as_list (vget pa x))) as [|y l] eqn:El.
    + apply arr_empty_reenc; assumption.
    + rewrite vget_vset_same by exact Hpa. cbn [as_list].
      rewrite (olist_cons_inv _ _ _ El).
      apply (enc_arr_nonempty k (enc_real e v) y l (upd e v zero)).
      intros z. apply IHe; assumption.
Qed.

Theorem reencode : forall f v x0 x,
  reenc_ok f v x0 = true -> enc_real f v (upd f v x0 x) = enc_real f v x.
Proof.
  intros f v x0 x H. unfold reenc_ok in H.
  apply andb_true_iff in H. destruct H as [H Hd]. apply andb_true_iff in H. destruct H as [Hs Hp].
  apply reencode_gen; assumption.
Qed.

(* encode (decode (encode x)) = encode x *)
Theorem reencode_decoded : forall cfg f v x x0 y,
  wf f v = true -> wt f v x = true -> reenc_ok f v x0 = true ->
  dec_top cfg None f v x0 (enc_real f v x) = Ok y -> enc_real f v y = enc_real f v x.
Proof.
  intros cfg f v x x0 y Hwf Hwt Hok H.
  rewrite (format_roundtrip_top cfg f v x x0 Hwf Hwt) in H. inversion H; subst.
  apply reencode. exact Hok.
Qed.

(* ================================================================== the same for a mirrored pair *)
Lemma ceq_touched v : forall f g, ceq f g -> touched f v = touched g v.
Proof.
  induction f as [|a IHa b IHb|c a IHa b IHb|p c pa|p z| |pa|pa z|lbl k pa zero e IHe];
    intros g H; destruct g as [|a' b'|c' a' b'|p' c' pa'|p' z'| |pa'|pa' z'|lbl' k' pa' zero' e'];
    cbn [ceq] in H; try contradiction; cbn [touched]; try reflexivity.
  - destruct H as [Ha Hb]. now rewrite (IHa _ Ha), (IHb _ Hb).
  - destruct H as [-> [Ha Hb]]. destruct (veval c' v); auto.
  - destruct H as [_ [_ ->]]. reflexivity.
  - subst. reflexivity.
  - destruct H as [-> _]. reflexivity.
  - destruct H as [_ [-> _]]. reflexivity.
Qed.

Lemma ceq_dyn_ok v : forall f g, ceq f g -> forall x0, dyn_ok f v x0 = dyn_ok g v x0.
Proof.
  induction f as [|a IHa b IHb|c a IHa b IHb|p c pa|p z| |pa|pa z|lbl k pa zero e IHe];
    intros g H x0; destruct g as [|a' b'|c' a' b'|p' c' pa'|p' z'| |pa'|pa' z'|lbl' k' pa' zero' e'];
    cbn [ceq] in H; try contradiction; cbn [dyn_ok]; try reflexivity.
  - destruct H as [Ha Hb]. now rewrite (IHa _ Ha), (IHb _ Hb).
  - destruct H as [-> [Ha Hb]]. destruct (veval c' v); auto.
  - destruct H as [_ [_ ->]]. reflexivity.
  - subst. reflexivity.
  - destruct H as [-> _]. reflexivity.
  - destruct H as [-> [-> _]]. reflexivity.
Qed.

Lemma ceq_static_ok v : forall f g, ceq f g -> static_ok f v = static_ok g v.
Proof.
  induction f as [|a IHa b IHb|c a IHa b IHb|p c pa|p z| |pa|pa z|lbl k pa zero e IHe];
    intros g H; destruct g as [|a' b'|c' a' b'|p' c' pa'|p' z'| |pa'|pa' z'|lbl' k' pa' zero' e'];
    cbn [ceq] in H; try contradiction; cbn [static_ok]; try reflexivity.
  - destruct H as [Ha Hb]. now rewrite (IHa _ Ha), (IHb _ Hb).
  - destruct H as [-> [Ha Hb]]. destruct (veval c' v); auto.
  - destruct H as [-> [-> [-> He]]].
    now rewrite (IHe _ He), (ceq_touched v _ _ He), (ceq_dyn_ok v _ _ He).
Qed.

Lemma ceq_reenc_ok v f g x0 : ceq f g -> reenc_ok f v x0 = reenc_ok g v x0.
Proof.
  intros H. unfold reenc_ok.
  now rewrite (ceq_static_ok v _ _ H), (ceq_touched v _ _ H), (ceq_dyn_ok v _ _ H).
Qed.

(* what the decoder produced from the encoder's bytes, the encoder writes back as the same bytes *)
Theorem pair_reencode : forall fd fe v x0 x,
  mirror_at v fd fe = true -> reenc_ok (paired v fd fe) v x0 = true ->
  enc_real fe v (upd (paired v fd fe) v x0 x) = enc_real fe v x.
Proof.
  intros fd fe v x0 x Hm Hok. unfold mirror_at, paired in *.
  set (Fd := flat v fd) in *. set (Fe := flat v fe) in *.
  pose proof (ceq_merge Fd Fe) as Hc.
  rewrite <- !(enc_real_flat v fe). fold Fe.
  rewrite <- !(enc_merge_e v Fd Fe Hm).
  rewrite (ceq_upd v _ _ Hc). apply reencode. rewrite <- (ceq_reenc_ok v _ _ x0 Hc). exact Hok.
Qed.
