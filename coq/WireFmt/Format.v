(* WireFmt.Format — deep-embedded wire-format language for the request/response bodies of sarama
   (C09 layer 3 / C10).  Executable definitions only, no proofs.

   A format is read off an [encode(pe)] or a [decode(pd, version)] method by go/wiregen.  The same
   language serves both directions: [enc_real]/[enc_prep] interpret a format as the two encoder passes
   (realEncoder / prepEncoder), [dec] interprets it as realDecoder-driven decoding into an initial value
   [x0] (what [new(T)] gives), returning [Ok | Err | Panic | Alloc n] exactly where the Go code would
   return a value, return an error, panic (make with a negative length, slice out of range) or ask the
   allocator for [n] bytes with [n] above the cap.  [upd] is the normalisation ("touch") function of the
   round-trip theorem: [dec fd v x0 (enc_real fe v x) = Ok (upd fd fe v x0 x, [])].

   Values are generic trees (what the reflection dumper of go/harness/cmd/c09fmt prints):
     bool/intN/enum/Duration -> VInt;  string, *string, []byte -> VBytes (None = nil);
     []T, map[K]V (entries = VStruct [k; v]), nil *struct -> VList (None = nil);  struct, *struct -> VStruct. *)
From Coq Require Import List ZArith Bool String Lia.
Import ListNotations.
Open Scope Z_scope.

(* ------------------------------------------------------------------ values and paths *)
Inductive value :=
| VInt (z : Z)
| VBytes (o : option (list Z))
| VList (o : option (list value))
| VStruct (fs : list value).

Definition path := list nat.

Fixpoint set_nth {A} (i : nat) (y : A) (l : list A) : list A :=
  match l, i with
  | [], _ => []
  | _ :: r, O => y :: r
  | x :: r, S j => x :: set_nth j y r
  end.

(* total accessors: an invalid path reads [VInt 0] and writes nothing *)
Fixpoint vget (p : path) (x : value) : value :=
  match p with
  | [] => x
  | i :: p' => match x with
               | VStruct fs => match nth_error fs i with Some y => vget p' y | None => VInt 0 end
               | _ => VInt 0
               end
  end.

Fixpoint vset (p : path) (y : value) (x : value) : value :=
  match p with
  | [] => y
  | i :: p' => match x with
               | VStruct fs => match nth_error fs i with
                               | Some old => VStruct (set_nth i (vset p' y old) fs)
                               | None => x
                               end
               | _ => x
               end
  end.

Fixpoint path_ok (p : path) (x : value) : bool :=
  match p with
  | [] => true
  | i :: p' => match x with
               | VStruct fs => match nth_error fs i with Some y => path_ok p' y | None => false end
               | _ => false
               end
  end.

Definition as_int (x : value) : Z := match x with VInt z => z | _ => 0 end.
Definition as_bytes (x : value) : option (list Z) := match x with VBytes o => o | _ => None end.
Definition as_list (x : value) : option (list value) := match x with VList o => o | _ => None end.
Definition olist {A} (o : option (list A)) : list A := match o with Some l => l | None => [] end.

(* ------------------------------------------------------------------ integers on the wire *)
Definition wraps (bits z : Z) : Z :=
  let u := z mod 2 ^ bits in if u <? 2 ^ (bits - 1) then u else u - 2 ^ bits.

(* n bytes, big endian, of z modulo 256^n *)
Fixpoint be (n : nat) (z : Z) : list Z :=
  match n with
  | O => []
  | S k => (z / 256 ^ Z.of_nat k) mod 256 :: be k z
  end.

Fixpoint unbe (bs : list Z) (acc : Z) : Z :=
  match bs with
  | [] => acc
  | b :: r => unbe r (acc * 256 + b)
  end.

Definition byte_ok (b : Z) : bool := (0 <=? b) && (b <? 256).
Definition bytes_ok (l : list Z) : bool := forallb byte_ok l.

(* encoding/binary.PutUvarint (argument taken modulo 2^64); 10 groups of 7 bits cover 64 bits *)
Fixpoint uvarint_aux (fuel : nat) (n : Z) : list Z :=
  match fuel with
  | O => []
  | S f => if n <? 128 then [n] else (n mod 128 + 128) :: uvarint_aux f (n / 128)
  end.
Definition uvarint (n : Z) : list Z := uvarint_aux 10 (n mod 2 ^ 64).

(* prepEncoder.putUVarint: the size, computed without producing the bytes *)
Fixpoint uvarint_size_aux (fuel : nat) (n : Z) : Z :=
  match fuel with
  | O => 0
  | S f => if n <? 128 then 1 else 1 + uvarint_size_aux f (n / 128)
  end.
Definition uvarint_size (n : Z) : Z := uvarint_size_aux 10 (n mod 2 ^ 64).

(* ------------------------------------------------------------------ outcomes *)
Inductive outcome (A : Type) :=
| Ok (a : A)
| Err
| Panic
| Alloc (n : Z).
Arguments Ok {A} a.
Arguments Err {A}.
Arguments Panic {A}.
Arguments Alloc {A} n.

Definition bind {A B} (o : outcome A) (f : A -> outcome B) : outcome B :=
  match o with Ok a => f a | Err => Err | Panic => Panic | Alloc n => Alloc n end.

Definition is_ok {A} (o : outcome A) : bool := match o with Ok _ => true | _ => false end.
Definition is_err {A} (o : outcome A) : bool := match o with Err => true | _ => false end.
Definition is_panic {A} (o : outcome A) : bool := match o with Panic => true | _ => false end.
Definition is_alloc {A} (o : outcome A) : bool := match o with Alloc _ => true | _ => false end.
(* the C10 verdict: a value or an error *)
Definition safe_outcome {A} (o : outcome A) : Prop := match o with Ok _ | Err => True | _ => False end.

(* ------------------------------------------------------------------ the language *)
Inductive prim :=
| PI8 | PI16 | PI32 | PI64 | PBool        (* putIntN / putBool          on a VInt leaf *)
| PStr                                    (* putString / getString        (VBytes (Some _)) *)
| PNStr                                   (* putNullableString / getNullableString *)
| PCStr                                   (* putCompactString / getCompactString *)
| PCNStr                                  (* putNullableCompactString / getCompactNullableString *)
| PBytes                                  (* putBytes / getBytes *)
| PCBytes.                                (* putCompactBytes / getCompactBytes *)

(* conversions between the Go field and the wire integer *)
Inductive conv :=
| CId                                     (* same integer (typed conversions int16(KError) ...) *)
| CDurMs.                                 (* time.Duration <-> milliseconds: x / time.Millisecond ; Duration(w) * time.Millisecond *)

Inductive vop := OGe | OGt | OLe | OLt | OEq | ONe.
Inductive vcond :=
| VTrue
| VCmp (o : vop) (n : Z)                  (* version <op> n *)
| VNot (c : vcond)
| VAnd (a b : vcond)
| VOr (a b : vcond).

Definition vop_eval (o : vop) (v n : Z) : bool :=
  match o with
  | OGe => n <=? v | OGt => n <? v | OLe => v <=? n | OLt => v <? n | OEq => v =? n | ONe => negb (v =? n)
  end.
Fixpoint veval (c : vcond) (v : Z) : bool :=
  match c with
  | VTrue => true
  | VCmp o n => vop_eval o v n
  | VNot a => negb (veval a v)
  | VAnd a b => veval a v && veval b v
  | VOr a b => veval a v || veval b v
  end.

(* collections: what the encoder writes as the count, how the decoder reads and uses it *)
Inductive elen := ELI32 | ELCompact.      (* putArrayLength | putCompactArrayLength *)
Inductive enull :=
| ENone                                   (* nil and empty are both written as count 0 *)
| EEmptyNull                              (* len == 0 is written as the null marker (-1) *)
| ENilNull                                (* nil is written as the null marker, empty as count 0 *)
| ENilErr.                                (* nil makes the encoder fail (putCompactInt32Array) *)
Inductive dlen :=
| DLArr                                   (* getArrayLength *)
| DLI32                                   (* getInt32 used as a count, no check *)
| DLU32 (k : Z)                           (* getInt32Array / getInt64Array: int(uint32), requires k*n <= remaining *)
| DLStrArr                                (* getStringArray: int(uint32) *)
| DLCompact                               (* getCompactArrayLength *)
| DLCompactI32.                           (* getCompactInt32Array: 0 = null, n-1 elements *)
(* what the decoder does for count 0 / -1 / below -1 *)
Inductive beh :=
| BKeep                                   (* leaves the field as it is *)
| BNil                                    (* assigns nil *)
| BEmpty                                  (* assigns an empty, non-nil collection *)
| BPanic.                                 (* make([]T, negative) *)

Record akind := {
  ak_elen : elen; ak_enull : enull;                      (* encoder side *)
  ak_dlen : dlen; ak_zero : beh; ak_null : beh; ak_neg : beh;
  ak_esize : Z;                                          (* bytes per element asked of make (0: no pre-allocation) *)
  ak_map : bool                                          (* a Go map: iteration order is not fixed *)
}.

Inductive fmt :=
| FNil
| FSeq (a b : fmt)
| FGate (c : vcond) (a b : fmt)           (* if cond(version) then a else b *)
| FPrim (p : prim) (c : conv) (f : path)
| FConst (p : prim) (z : Z)               (* encoder writes the constant; decoder reads and discards *)
| FTag                                    (* empty tagged-field array *)
| FSetVer (f : path)                      (* decoder only: field := version *)
| FSetConst (f : path) (z : Z)            (* decoder only: field := constant *)
| FArr (lbl : string) (k : akind) (f : path) (zero : value) (elem : fmt).
                                          (* zero: what the decoder starts each element from *)

(* which guards the primitive getters of real_decoder.go have (read off the source by wiregen) *)
Record pcfg := {
  cf_arr_rejects_neg : bool;              (* getArrayLength: tmp < -1 is an error *)
  cf_carr_bounded : bool;                 (* getCompactArrayLength: n-1 > remaining is an error *)
  cf_cstr_bounded : bool;                 (* getCompactString checks its length *)
  cf_cnstr_bounded : bool;                (* getCompactNullableString checks its length *)
  cf_ci32_bounded : bool;                 (* getCompactInt32Array checks its count *)
  cf_strarr_bounded : bool                (* getStringArray checks its count *)
}.
Definition cfg_fixed : pcfg := Build_pcfg true true true true true true.
Definition cfg_pinned : pcfg := Build_pcfg false false false false false false.

(* ------------------------------------------------------------------ conversions *)
Definition ms : Z := 1000000.
Definition conv_to (c : conv) (z : Z) : Z :=          (* field -> wire *)
  match c with CId => z | CDurMs => Z.quot z ms end.
Definition conv_from (c : conv) (w : Z) : Z :=        (* wire -> field *)
  match c with CId => w | CDurMs => w * ms end.

(* ------------------------------------------------------------------ encoder, writing pass *)
Definition int_width (p : prim) : nat :=
  match p with PI8 | PBool => 1%nat | PI16 => 2%nat | PI32 => 4%nat | PI64 => 8%nat | _ => 0%nat end.
Definition is_int_prim (p : prim) : bool :=
  match p with PI8 | PI16 | PI32 | PI64 | PBool => true | _ => false end.

Definition zlen {A} (l : list A) : Z := Z.of_nat (List.length l).

Definition enc_prim (p : prim) (c : conv) (x : value) : list Z :=
  match p with
  | PI8 => be 1 (conv_to c (as_int x))
  | PI16 => be 2 (conv_to c (as_int x))
  | PI32 => be 4 (conv_to c (as_int x))
  | PI64 => be 8 (conv_to c (as_int x))
  | PBool => [if as_int x =? 0 then 0 else 1]
  | PStr => let s := olist (as_bytes x) in be 2 (zlen s) ++ s
  | PNStr => match as_bytes x with None => be 2 (-1) | Some s => be 2 (zlen s) ++ s end
  | PCStr => let s := olist (as_bytes x) in uvarint (zlen s + 1) ++ s
  | PCNStr => match as_bytes x with None => [0] | Some s => uvarint (zlen s + 1) ++ s end
  | PBytes => match as_bytes x with None => be 4 (-1) | Some s => be 4 (zlen s) ++ s end
  | PCBytes => let s := olist (as_bytes x) in uvarint (zlen s + 1) ++ s
  end.

Fixpoint enc_list (encE : value -> list Z) (l : list value) : list Z :=
  match l with
  | [] => []
  | y :: r => encE y ++ enc_list encE r
  end.

Definition enc_count (el : elen) (n : Z) : list Z :=
  match el with ELI32 => be 4 n | ELCompact => uvarint (n + 1) end.
Definition enc_null (el : elen) : list Z :=
  match el with ELI32 => be 4 (-1) | ELCompact => [0] end.
(* does the encoder write the null marker for this collection? *)
Definition writes_null (en : enull) (o : option (list value)) : bool :=
  match en with
  | EEmptyNull => match olist o with [] => true | _ => false end
  | ENilNull => match o with None => true | Some _ => false end
  | _ => false
  end.
Definition enc_arr (k : akind) (o : option (list value)) (encE : value -> list Z) : list Z :=
  (if writes_null (ak_enull k) o then enc_null (ak_elen k) else enc_count (ak_elen k) (zlen (olist o)))
  ++ enc_list encE (olist o).

Fixpoint enc_real (f : fmt) (v : Z) (x : value) : list Z :=
  match f with
  | FNil => []
  | FSeq a b => enc_real a v x ++ enc_real b v x
  | FGate c a b => if veval c v then enc_real a v x else enc_real b v x
  | FPrim p c pa => enc_prim p c (vget pa x)
  | FConst p z => enc_prim p CId (VInt z)
  | FTag => [0]
  | FSetVer _ => []
  | FSetConst _ _ => []
  | FArr _ k pa _ e => enc_arr k (as_list (vget pa x)) (enc_real e v)
  end.

(* ------------------------------------------------------------------ encoder, sizing pass (prepEncoder) *)
Definition prep_prim (p : prim) (x : value) : Z :=
  match p with
  | PI8 | PBool => 1
  | PI16 => 2
  | PI32 => 4
  | PI64 => 8
  | PStr => 2 + zlen (olist (as_bytes x))
  | PNStr => match as_bytes x with None => 2 | Some s => 2 + zlen s end
  | PCStr => uvarint_size (zlen (olist (as_bytes x)) + 1) + zlen (olist (as_bytes x))
  | PCNStr => match as_bytes x with None => uvarint_size 0 | Some s => uvarint_size (zlen s + 1) + zlen s end
  | PBytes => match as_bytes x with None => 4 | Some s => 4 + zlen s end
  | PCBytes => uvarint_size (zlen (olist (as_bytes x)) + 1) + zlen (olist (as_bytes x))
  end.

Fixpoint prep_list (prepE : value -> Z) (l : list value) : Z :=
  match l with
  | [] => 0
  | y :: r => prepE y + prep_list prepE r
  end.

Definition prep_arr (k : akind) (o : option (list value)) (prepE : value -> Z) : Z :=
  (match ak_elen k with
   | ELI32 => 4
   | ELCompact => if writes_null (ak_enull k) o then uvarint_size 0 else uvarint_size (zlen (olist o) + 1)
   end) + prep_list prepE (olist o).

Fixpoint enc_prep (f : fmt) (v : Z) (x : value) : Z :=
  match f with
  | FNil => 0
  | FSeq a b => enc_prep a v x + enc_prep b v x
  | FGate c a b => if veval c v then enc_prep a v x else enc_prep b v x
  | FPrim p _ pa => prep_prim p (vget pa x)
  | FConst p z => prep_prim p (VInt z)
  | FTag => uvarint_size 0
  | FSetVer _ => 0
  | FSetConst _ _ => 0
  | FArr _ k pa _ e => prep_arr k (as_list (vget pa x)) (enc_prep e v)
  end.

(* ------------------------------------------------------------------ decoder primitives *)
Definition take_n (n : nat) (bs : list Z) : outcome (list Z * list Z) :=
  if (List.length bs <? n)%nat then Err else Ok (firstn n bs, skipn n bs).

Definition get_uint (n : nat) (bs : list Z) : outcome (Z * list Z) :=
  bind (take_n n bs) (fun '(h, r) => Ok (unbe h 0, r)).
Definition get_int (n : nat) (bs : list Z) : outcome (Z * list Z) :=
  bind (get_uint n bs) (fun '(u, r) => Ok (wraps (8 * Z.of_nat n) u, r)).

(* encoding/binary.Uvarint as used by realDecoder.getUVarint: i = index of the byte, x|b<<s accumulated *)
Fixpoint get_uvarint_aux (bs : list Z) (i : nat) (x s : Z) : outcome (Z * list Z) :=
  match bs with
  | [] => Err
  | b :: r =>
      if (i =? 10)%nat then Err
      else if b <? 128 then
             (if (i =? 9)%nat && (1 <? b) then Err else Ok (x + b * 2 ^ s, r))
           else get_uvarint_aux r (S i) (x + (b - 128) * 2 ^ s) (s + 7)
  end.
Definition get_uvarint (bs : list Z) : outcome (Z * list Z) := get_uvarint_aux bs 0 0 0.

(* int(n) of a uint64 *)
Definition to_int64 (n : Z) : Z := wraps 64 n.

Definition take_z (n : Z) (bs : list Z) : outcome (list Z * list Z) :=   (* getRawBytes *)
  if n <? 0 then Err else if zlen bs <? n then Err else take_n (Z.to_nat n) bs.

(* a slice expression raw[off : off+n] without a bounds check *)
Definition slice_z (n : Z) (bs : list Z) : outcome (list Z * list Z) :=
  if (n <? 0) || (zlen bs <? n) then Panic else take_n (Z.to_nat n) bs.

Definition dec_prim (cfg : pcfg) (p : prim) (c : conv) (bs : list Z) : outcome (value * list Z) :=
  match p with
  | PI8 | PI16 | PI32 | PI64 =>
      bind (get_int (int_width p) bs) (fun '(z, r) => Ok (VInt (conv_from c z), r))
  | PBool =>
      bind (get_int 1 bs) (fun '(z, r) =>
        if z =? 0 then Ok (VInt 0, r) else if z =? 1 then Ok (VInt 1, r) else Err)
  | PStr =>
      bind (get_int 2 bs) (fun '(n, r) =>
        if n <? -1 then Err else if zlen r <? n then Err
        else if n =? -1 then Ok (VBytes (Some []), r)
        else bind (take_n (Z.to_nat n) r) (fun '(s, r') => Ok (VBytes (Some s), r')))
  | PNStr =>
      bind (get_int 2 bs) (fun '(n, r) =>
        if n <? -1 then Err else if zlen r <? n then Err
        else if n =? -1 then Ok (VBytes None, r)
        else bind (take_n (Z.to_nat n) r) (fun '(s, r') => Ok (VBytes (Some s), r')))
  | PCStr =>
      bind (get_uvarint bs) (fun '(n, r) =>
        let len := to_int64 (n - 1) in
        if cf_cstr_bounded cfg then
          (if len <? 0 then Err else if zlen r <? len then Err
           else bind (take_n (Z.to_nat len) r) (fun '(s, r') => Ok (VBytes (Some s), r')))
        else bind (slice_z len r) (fun '(s, r') => Ok (VBytes (Some s), r')))
  | PCNStr =>
      bind (get_uvarint bs) (fun '(n, r) =>
        let len := to_int64 (n - 1) in
        if len <? 0 then Ok (VBytes None, r)
        else if cf_cnstr_bounded cfg then
          (if zlen r <? len then Err
           else bind (take_n (Z.to_nat len) r) (fun '(s, r') => Ok (VBytes (Some s), r')))
        else bind (slice_z len r) (fun '(s, r') => Ok (VBytes (Some s), r')))
  | PBytes =>
      bind (get_int 4 bs) (fun '(n, r) =>
        if n =? -1 then Ok (VBytes None, r)
        else bind (take_z n r) (fun '(s, r') => Ok (VBytes (Some s), r')))
  | PCBytes =>
      bind (get_uvarint bs) (fun '(n, r) =>
        bind (take_z (to_int64 (n - 1)) r) (fun '(s, r') => Ok (VBytes (Some s), r')))
  end.

(* the count a collection decoder works with; -1 stands for "null" *)
Definition read_count (cfg : pcfg) (dl : dlen) (bs : list Z) : outcome (Z * list Z) :=
  match dl with
  | DLArr =>
      bind (get_int 4 bs) (fun '(n, r) =>
        if zlen r <? n then Err
        else if (131070 <? n) || (cf_arr_rejects_neg cfg && (n <? -1)) then Err
        else Ok (n, r))
  | DLI32 => get_int 4 bs
  | DLU32 k =>
      bind (get_uint 4 bs) (fun '(n, r) => if zlen r <? k * n then Err else Ok (n, r))
  | DLStrArr =>
      bind (get_uint 4 bs) (fun '(n, r) =>
        if cf_strarr_bounded cfg && (zlen r <? 2 * n) then Err else Ok (n, r))
  | DLCompact =>
      bind (get_uvarint bs) (fun '(n, r) =>
        if n =? 0 then Ok (0, r)
        else if cf_carr_bounded cfg && (zlen r <? n - 1) then Err
        else Ok (to_int64 n - 1, r))
  | DLCompactI32 =>
      bind (get_uvarint bs) (fun '(n, r) =>
        if n =? 0 then Ok (-1, r)
        else if cf_ci32_bounded cfg && (zlen r / 4 <? n - 1) then Err
        else Ok (to_int64 n - 1, r))
  end.

Fixpoint dec_loop (decE : list Z -> outcome (value * list Z)) (n : nat) (bs : list Z)
  : outcome (list value * list Z) :=
  match n with
  | O => Ok ([], bs)
  | S m => bind (decE bs) (fun '(y, r) =>
           bind (dec_loop decE m r) (fun '(l, r') => Ok (y :: l, r')))
  end.

Definition apply_beh (b : beh) (pa : path) (x0 : value) : outcome value :=
  match b with
  | BKeep => Ok x0
  | BNil => Ok (vset pa (VList None) x0)
  | BEmpty => Ok (vset pa (VList (Some [])) x0)
  | BPanic => Panic
  end.

Definition count_beh (k : akind) (cnt : Z) : beh :=
  if cnt =? 0 then ak_zero k else if cnt =? -1 then ak_null k else ak_neg k.

(* cap: the allocation cap in bytes (None: no cap) *)
Definition over_cap (cap : option Z) (n : Z) : bool := match cap with Some c => c <? n | None => false end.

Definition dec_arr (cfg : pcfg) (cap : option Z) (k : akind) (pa : path)
  (decE : list Z -> outcome (value * list Z)) (x0 : value) (bs : list Z) : outcome (value * list Z) :=
  bind (read_count cfg (ak_dlen k) bs) (fun '(cnt, r) =>
    if 0 <? cnt then
      if (0 <? ak_esize k) && over_cap cap (cnt * ak_esize k) then Alloc (cnt * ak_esize k)
      else bind (dec_loop decE (Z.to_nat cnt) r) (fun '(l, r') => Ok (vset pa (VList (Some l)) x0, r'))
    else bind (apply_beh (count_beh k cnt) pa x0) (fun x1 => Ok (x1, r))).

(* decode format f at version v into x0 *)
Fixpoint dec (cfg : pcfg) (cap : option Z) (f : fmt) (v : Z) (x0 : value) (bs : list Z) : outcome (value * list Z) :=
  match f with
  | FNil => Ok (x0, bs)
  | FSeq a b => bind (dec cfg cap a v x0 bs) (fun '(x1, r) => dec cfg cap b v x1 r)
  | FGate c a b => if veval c v then dec cfg cap a v x0 bs else dec cfg cap b v x0 bs
  | FPrim p c pa => bind (dec_prim cfg p c bs) (fun '(y, r) => Ok (vset pa y x0, r))
  | FConst p _ => bind (dec_prim cfg p CId bs) (fun '(_, r) => Ok (x0, r))
  | FTag => bind (get_uvarint bs) (fun '(n, r) => if n =? 0 then Ok (x0, r) else Err)
  | FSetVer pa => Ok (vset pa (VInt v) x0, bs)
  | FSetConst pa z => Ok (vset pa (VInt z) x0, bs)
  | FArr _ k pa zero e => dec_arr cfg cap k pa (dec cfg cap e v zero) x0 bs
  end.

(* versionedDecode: the whole buffer must be consumed *)
Definition dec_top (cfg : pcfg) (cap : option Z) (f : fmt) (v : Z) (x0 : value) (bs : list Z) : outcome value :=
  bind (dec cfg cap f v x0 bs) (fun '(y, r) => match r with [] => Ok y | _ => Err end).

(* ------------------------------------------------------------------ normalisation (the value a round trip yields) *)
Definition norm_prim (p : prim) (c : conv) (x : value) : value :=
  match p with
  | PI8 => VInt (conv_from c (wraps 8 (conv_to c (as_int x))))
  | PI16 => VInt (conv_from c (wraps 16 (conv_to c (as_int x))))
  | PI32 => VInt (conv_from c (wraps 32 (conv_to c (as_int x))))
  | PI64 => VInt (conv_from c (wraps 64 (conv_to c (as_int x))))
  | PBool => VInt (if as_int x =? 0 then 0 else 1)
  | PStr | PCStr | PCBytes => VBytes (Some (olist (as_bytes x)))
  | PNStr | PCNStr | PBytes => VBytes (as_bytes x)
  end.

(* the count the decoder sees for a collection the encoder wrote (k carries both sides' attributes) *)
Definition seen_count (k : akind) (o : option (list value)) : Z :=
  if writes_null (ak_enull k) o then
    match ak_elen k, ak_dlen k with
    | ELCompact, DLCompact => 0
    | _, _ => -1
    end
  else zlen (olist o).

Fixpoint upd_list (updE : value -> value) (l : list value) : list value :=
  match l with
  | [] => []
  | y :: r => updE y :: upd_list updE r
  end.

Definition upd_beh (b : beh) (pa : path) (x0 : value) : value :=
  match b with
  | BKeep | BPanic => x0
  | BNil => vset pa (VList None) x0
  | BEmpty => vset pa (VList (Some [])) x0
  end.

(* upd f v x0 x: x0 with every field the format touches at version v overwritten by the (normalised)
   field of x -- the value decoding into x0 yields from the encoding of x *)
Fixpoint upd (f : fmt) (v : Z) (x0 x : value) : value :=
  match f with
  | FNil => x0
  | FSeq a b => upd b v (upd a v x0 x) x
  | FGate c a b => if veval c v then upd a v x0 x else upd b v x0 x
  | FPrim p c pa => vset pa (norm_prim p c (vget pa x)) x0
  | FConst _ _ => x0
  | FTag => x0
  | FSetVer pa => vset pa (VInt v) x0
  | FSetConst pa z => vset pa (VInt z) x0
  | FArr _ k pa zero e =>
      let o := as_list (vget pa x) in
      match olist o with
      | [] => upd_beh (count_beh k (seen_count k o)) pa x0
      | l => vset pa (VList (Some (upd_list (upd e v zero) l))) x0
      end
  end.

(* ------------------------------------------------------------------ flattening (gates resolved, right-nested) *)
Fixpoint app_fmt (a b : fmt) : fmt :=
  match a with
  | FNil => b
  | FSeq x y => FSeq x (app_fmt y b)
  | _ => FSeq a b
  end.

Fixpoint flat (v : Z) (f : fmt) : fmt :=
  match f with
  | FNil => FNil
  | FSeq a b => app_fmt (flat v a) (flat v b)
  | FGate c a b => if veval c v then flat v a else flat v b
  | FArr l k pa z e => FSeq (FArr l k pa z (flat v e)) FNil
  | FSetVer _ | FSetConst _ _ => FSeq f FNil
  | _ => FSeq f FNil
  end.

(* pairing: the decoder format with the encoder attributes of the mirrored collections filled in
   (both arguments flattened; decoder-only atoms of fd have no counterpart in fe) *)
Definition mk_kind (ke kd : akind) : akind :=
  {| ak_elen := ak_elen ke; ak_enull := ak_enull ke;
     ak_dlen := ak_dlen kd; ak_zero := ak_zero kd; ak_null := ak_null kd; ak_neg := ak_neg kd;
     ak_esize := ak_esize kd; ak_map := ak_map kd |}.

Fixpoint merge (fd fe : fmt) : fmt :=
  match fd with
  | FSeq a rd =>
      match a with
      | FSetVer _ | FSetConst _ _ => FSeq a (merge rd fe)
      | FArr l kd pa z ed =>
          match fe with
          | FSeq (FArr _ ke _ _ ee) re => FSeq (FArr l (mk_kind ke kd) pa z (merge ed ee)) (merge rd re)
          | _ => fd
          end
      | _ => match fe with FSeq _ re => FSeq a (merge rd re) | _ => fd end
      end
  | _ => fd
  end.

(* ------------------------------------------------------------------ mirror: encoder and decoder coincide *)
Definition prim_eqb (a b : prim) : bool :=
  match a, b with
  | PI8, PI8 | PI16, PI16 | PI32, PI32 | PI64, PI64 | PBool, PBool | PStr, PStr | PNStr, PNStr
  | PCStr, PCStr | PCNStr, PCNStr | PBytes, PBytes | PCBytes, PCBytes => true
  | _, _ => false
  end.
Definition conv_eqb (a b : conv) : bool :=
  match a, b with CId, CId | CDurMs, CDurMs => true | _, _ => false end.
Fixpoint path_eqb (a b : path) : bool :=
  match a, b with
  | [], [] => true
  | x :: a', y :: b' => (x =? y)%nat && path_eqb a' b'
  | _, _ => false
  end.

(* can a decoder reading with dl make sense of what an encoder of kind (el, en) writes? *)
Definition len_compat (ke kd : akind) : bool :=
  match ak_elen ke, ak_dlen kd with
  | ELI32, DLArr | ELI32, DLI32 => true
  | ELI32, DLU32 _ | ELI32, DLStrArr => match ak_enull ke with ENone => true | _ => false end
  | ELCompact, DLCompact => true
  | ELCompact, DLCompactI32 => match ak_enull ke with EEmptyNull => false | _ => true end
  | _, _ => false
  end.
Definition beh_ok (b : beh) : bool := match b with BPanic => false | _ => true end.
(* the decoder must cope with everything this encoder can write: count 0, and the null marker if it is used *)
Definition null_seen_ok (ke kd : akind) : bool :=
  match ak_enull ke with
  | ENone | ENilErr => true
  | EEmptyNull | ENilNull =>
      match ak_elen ke, ak_dlen kd with
      | ELCompact, DLCompact => true          (* the null marker reads as count 0 *)
      | _, _ => beh_ok (ak_null kd)
      end
  end.
Definition arr_compat (ke kd : akind) : bool :=
  len_compat ke kd && beh_ok (ak_zero kd) && null_seen_ok ke kd && Bool.eqb (ak_map ke) (ak_map kd).

(* both arguments flattened; decoder-only atoms of fd are skipped *)
Fixpoint mirror_flat (fd fe : fmt) : bool :=
  match fd with
  | FNil => match fe with FNil => true | _ => false end
  | FSeq a rd =>
      match a with
      | FSetVer _ | FSetConst _ _ => mirror_flat rd fe
      | FPrim p c pa =>
          match fe with
          | FSeq (FPrim p' c' pa') re => prim_eqb p p' && conv_eqb c c' && path_eqb pa pa' && mirror_flat rd re
          | _ => false
          end
      | FConst p _ =>
          match fe with
          | FSeq (FConst p' _) re => prim_eqb p p' && is_int_prim p && mirror_flat rd re
          | _ => false
          end
      | FTag => match fe with FSeq FTag re => mirror_flat rd re | _ => false end
      | FArr _ kd pa _ ed =>
          match fe with
          | FSeq (FArr _ ke pa' _ ee) re => arr_compat ke kd && path_eqb pa pa' && mirror_flat ed ee && mirror_flat rd re
          | _ => false
          end
      | _ => false
      end
  | _ => false
  end.

Definition mirror_at (v : Z) (fd fe : fmt) : bool := mirror_flat (flat v fd) (flat v fe).

(* the single format both directions are instances of, at version v *)
Definition paired (v : Z) (fd fe : fmt) : fmt := merge (flat v fd) (flat v fe).

(* does f write at least one byte at version v, whatever the value? *)
Fixpoint nonempty (f : fmt) (v : Z) : bool :=
  match f with
  | FNil | FSetVer _ | FSetConst _ _ => false
  | FSeq a b => nonempty a v || nonempty b v
  | FGate c a b => if veval c v then nonempty a v else nonempty b v
  | FPrim _ _ _ | FConst _ _ | FTag | FArr _ _ _ _ _ => true
  end.

(* the element codec the primitive array getters have built in *)
Definition elem_is (e : fmt) (p : prim) : bool :=
  match e with
  | FPrim p' CId [] => prim_eqb p p'
  | FSeq (FPrim p' CId []) FNil => prim_eqb p p'
  | _ => false
  end.
Definition elem_fits (k : akind) (e : fmt) : bool :=
  match ak_dlen k with
  | DLU32 w => if w =? 4 then elem_is e PI32 else if w =? 8 then elem_is e PI64 else false
  | DLStrArr => elem_is e PStr
  | DLCompactI32 => elem_is e PI32
  | _ => true
  end.

(* well-formed format at version v: every collection's encoder attributes and decoder attributes fit
   together, and elements occupy at least one byte (getArrayLength refuses counts above the remaining bytes) *)
Fixpoint wf (f : fmt) (v : Z) : bool :=
  match f with
  | FNil | FTag | FSetVer _ | FSetConst _ _ | FPrim _ _ _ => true
  | FConst p _ => is_int_prim p
  | FSeq a b => wf a v && wf b v
  | FGate c a b => if veval c v then wf a v else wf b v
  | FArr _ k _ _ e => arr_compat k k && elem_fits k e && nonempty e v && wf e v
  end.

(* ------------------------------------------------------------------ well-typed values (what the encoder accepts) *)
Definition wt_prim (p : prim) (x : value) : bool :=
  match p with
  | PI8 | PI16 | PI32 | PI64 | PBool => match x with VInt _ => true | _ => false end
  | PStr => match x with VBytes (Some s) => bytes_ok s && (zlen s <=? 32767) | _ => false end
  | PNStr => match x with VBytes None => true | VBytes (Some s) => bytes_ok s && (zlen s <=? 32767) | _ => false end
  | PCStr => match x with VBytes (Some s) => bytes_ok s && (zlen s <? 2 ^ 31) | _ => false end
  | PCNStr | PBytes | PCBytes =>
      match x with VBytes None => true | VBytes (Some s) => bytes_ok s && (zlen s <? 2 ^ 31) | _ => false end
  end.

Fixpoint wt_list (wtE : value -> bool) (l : list value) : bool :=
  match l with
  | [] => true
  | y :: r => wtE y && wt_list wtE r
  end.

(* the largest count the decoder accepts back *)
Definition max_count (k : akind) : Z :=
  match ak_dlen k with DLArr => 131070 | _ => 2 ^ 31 - 1 end.

Fixpoint wt (f : fmt) (v : Z) (x : value) : bool :=
  match f with
  | FNil => true
  | FSeq a b => wt a v x && wt b v x
  | FGate c a b => if veval c v then wt a v x else wt b v x
  | FPrim p _ pa => path_ok pa x && wt_prim p (vget pa x)
  | FConst p _ => is_int_prim p
  | FTag | FSetVer _ | FSetConst _ _ => true
  | FArr _ k pa _ e =>
      path_ok pa x &&
      match vget pa x with
      | VList o => (zlen (olist o) <=? max_count k) && wt_list (wt e v) (olist o) &&
                   match ak_enull k, o with ENilErr, None => false | _, _ => true end
      | _ => false
      end
  end.

(* ------------------------------------------------------------------ guardedness (C10) *)
Definition prim_guarded (cfg : pcfg) (p : prim) : bool :=
  match p with
  | PCStr => cf_cstr_bounded cfg
  | PCNStr => cf_cnstr_bounded cfg
  | _ => true
  end.

(* can the count be -1 / below -1 / above the number of remaining bytes? *)
Definition can_null (dl : dlen) : bool :=
  match dl with DLArr | DLI32 | DLCompactI32 => true | _ => false end.
Definition can_neg (cfg : pcfg) (dl : dlen) : bool :=
  match dl with
  | DLArr => negb (cf_arr_rejects_neg cfg)
  | DLI32 => true
  | DLCompact => negb (cf_carr_bounded cfg)
  | DLCompactI32 => negb (cf_ci32_bounded cfg)
  | DLU32 _ | DLStrArr => false
  end.
Definition count_bounded (cfg : pcfg) (dl : dlen) : bool :=
  match dl with
  | DLArr => true
  | DLI32 => false
  | DLU32 k => 1 <=? k
  | DLStrArr => cf_strarr_bounded cfg
  | DLCompact => cf_carr_bounded cfg
  | DLCompactI32 => cf_ci32_bounded cfg
  end.

Definition arr_guarded (cfg : pcfg) (k : akind) : bool :=
  (negb (can_null (ak_dlen k)) || beh_ok (ak_null k)) &&
  (negb (can_neg cfg (ak_dlen k)) || beh_ok (ak_neg k)) &&
  beh_ok (ak_zero k) &&
  ((ak_esize k <=? 0) || count_bounded cfg (ak_dlen k)).

Fixpoint guarded (cfg : pcfg) (f : fmt) : bool :=
  match f with
  | FNil | FTag | FSetVer _ | FSetConst _ _ => true
  | FSeq a b | FGate _ a b => guarded cfg a && guarded cfg b
  | FPrim p _ _ | FConst p _ => prim_guarded cfg p
  | FArr _ k _ _ e => arr_guarded cfg k && guarded cfg e
  end.

(* labels of the collections (and, as "prim", of unguarded compact strings) that are not guarded *)
Fixpoint unguarded_sites (cfg : pcfg) (f : fmt) : list string :=
  match f with
  | FNil | FTag | FSetVer _ | FSetConst _ _ => []
  | FSeq a b | FGate _ a b => unguarded_sites cfg a ++ unguarded_sites cfg b
  | FPrim p _ _ | FConst p _ => if prim_guarded cfg p then [] else ["compact-string"%string]
  | FArr l k _ _ e => (if arr_guarded cfg k then [] else [l]) ++ unguarded_sites cfg e
  end.

(* the largest element size any make in f asks for *)
Fixpoint max_esize (f : fmt) : Z :=
  match f with
  | FNil | FTag | FSetVer _ | FSetConst _ _ | FPrim _ _ _ | FConst _ _ => 0
  | FSeq a b | FGate _ a b => Z.max (max_esize a) (max_esize b)
  | FArr _ k _ _ e => Z.max (ak_esize k) (max_esize e)
  end.

Fixpoint has_map (f : fmt) : bool :=
  match f with
  | FSeq a b | FGate _ a b => has_map a || has_map b
  | FArr _ k _ _ e => ak_map k || has_map e
  | _ => false
  end.

(* ------------------------------------------------------------------ table rows (one per body / sub-codec pair) *)
Record row := {
  r_name : string;
  r_vmin : Z; r_vmax : Z;
  r_zero : value;                      (* dump of new(T) *)
  r_ver : option path;                 (* the field version() returns, if any *)
  r_enc : option fmt;                  (* None: encode is irregular / untranslatable *)
  r_dec : option fmt;
  r_untrusted : bool                   (* decoder reads data the client does not control (C10 scope) *)
}.

Fixpoint zrange (lo : Z) (n : nat) : list Z :=
  match n with O => [] | S k => lo :: zrange (lo + 1) k end.
Definition versions (r : row) : list Z := zrange (r_vmin r) (Z.to_nat (r_vmax r - r_vmin r + 1)).

Definition row_mirror (r : row) : bool :=
  match r_enc r, r_dec r with
  | Some fe, Some fd => forallb (fun v => mirror_at v fd fe) (versions r)
  | _, _ => true
  end.
(* versions at which the pair does not mirror *)
Definition row_mirror_failures (r : row) : list Z :=
  match r_enc r, r_dec r with
  | Some fe, Some fd => filter (fun v => negb (mirror_at v fd fe)) (versions r)
  | _, _ => []
  end.
