(* C20 — executable model of sarama/mocks producers (async_producer.go, sync_producer.go).
   No proofs here. Errors and messages are identified by integers chosen by the harness. *)
From Coq Require Import List ZArith Bool.
Import ListNotations.
Open Scope Z_scope.

(* what an expectation scripts *)
Inductive result := RSucc | RFail (e : Z).
(* checker attached to the expectation: none, passes, fails with error e *)
Inductive checker := CNone | CPass | CFail (e : Z).
Record expectation := { e_res : result; e_chk : checker }.

(* outcome of the configured partitioner on this message (an oracle: the partitioner is user code) *)
Inductive pres := POk (p : Z) | PErr (e : Z).
Record msg := { m_id : Z; m_pres : pres }.

(* the four deviation kinds reported to the ErrorReporter *)
Inductive report := RepNoExpectation | RepPartitioner | RepChecker | RepLeftOver (n : Z) | RepInsufficient.

(* observable events of the async mock *)
Inductive event :=
| EvSucc (id p off : Z)        (* on Successes(): message id with Partition p, Offset off *)
| EvErr (id e : Z)             (* on Errors(): message id with error e *)
| EvReport (r : report).       (* t.Errorf *)

Record cfg := { ret_succ : bool; ret_err : bool }.
Record st := { exps : list expectation; last : Z }.

Definition init (es : list expectation) : st := {| exps := es; last := 0 |}.

(* one iteration of the async mock's `for msg := range mp.input` loop *)
Definition step_async (c : cfg) (s : st) (m : msg) : st * list event :=
  match exps s with
  | [] => ({| exps := []; last := last s |}, [EvReport RepNoExpectation])
  | e :: es =>
    match m_pres m with
    | PErr x => ({| exps := es; last := last s |}, [EvReport RepPartitioner; EvErr (m_id m) x])
    | POk p =>
      match e_chk e with
      | CFail x => ({| exps := es; last := last s |}, [EvReport RepChecker; EvErr (m_id m) x])
      | _ =>
        match e_res e with
        | RSucc => ({| exps := es; last := last s + 1 |},
                    if ret_succ c then [EvSucc (m_id m) p (last s + 1)] else [])
        | RFail x => ({| exps := es; last := last s |},
                      if ret_err c then [EvErr (m_id m) x] else [])
        end
      end
    end
  end.

Fixpoint run_async (c : cfg) (s : st) (ms : list msg) : st * list event :=
  match ms with
  | [] => (s, [])
  | m :: r => let '(s1, o1) := step_async c s m in
              let '(s2, o2) := run_async c s1 r in (s2, o1 ++ o2)
  end.

(* Close(): leftover expectations are reported *)
Definition close_events (s : st) : list event :=
  match exps s with [] => [] | _ => [EvReport (RepLeftOver (Z.of_nat (length (exps s))))] end.

Definition async_history (c : cfg) (es : list expectation) (ms : list msg) : list event :=
  let '(s, o) := run_async c (init es) ms in o ++ close_events s.

(* ---- sync mock: SendMessage returns (partition, offset, error) ---- *)
Inductive sret := SOk (retp off : Z) (msgp : Z) | SErr (e : Z).  (* msgp: msg.Partition after the call *)
Definition err_out_of_expectations : Z := -1.

Definition step_sync (s : st) (m : msg) : st * sret * list report :=
  match exps s with
  | [] => (s, SErr err_out_of_expectations, [RepNoExpectation])
  | e :: es =>
    match m_pres m with
    | PErr x => ({| exps := es; last := last s |}, SErr x, [RepPartitioner])
    | POk p =>
      match e_chk e with
      | CFail x => ({| exps := es; last := last s |}, SErr x, [RepChecker])
      | _ =>
        match e_res e with
        | RSucc => ({| exps := es; last := last s + 1 |}, SOk 0 (last s + 1) p, [])
        | RFail x => ({| exps := es; last := last s |}, SErr x, [])
        end
      end
    end
  end.

Fixpoint run_sync (s : st) (ms : list msg) : st * list (sret * list report) :=
  match ms with
  | [] => (s, [])
  | m :: r => let '(s1, o, rp) := step_sync s m in
              let '(s2, os) := run_sync s1 r in (s2, (o, rp) :: os)
  end.
