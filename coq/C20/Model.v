(* C20 — executable model of sarama/mocks producers (async_producer.go, sync_producer.go; the consumer is in ConsumerModel.v).
   No proofs here. Errors and messages are identified by integers chosen by the harness. *)
From Coq Require Import List ZArith Bool.
Import ListNotations.
Open Scope Z_scope.

(* what an expectation scripts *)
Inductive result := RSucc | RFail (e : Z).
(* checker attached to the expectation: none, passes, fails with error e *)
Inductive checker := CNone | CPass | CFail (e : Z).
Record expectation := { e_res : result; e_chk : checker }.

(* outcome of the configured partitioner on this message (an oracle: the partitioner is user code) *)
Inductive pres := POk (p : Z) | PErr (e : Z).
Record msg := { m_id : Z; m_pres : pres }.

(* the four deviation kinds reported to the ErrorReporter *)
Inductive report := RepNoExpectation | RepPartitioner | RepChecker | RepLeftOver (n : Z) | RepInsufficient.

(* observable events of the async mock *)
Inductive event :=
| EvSucc (id p off : Z)        (* on Successes(): message id with Partition p, Offset off *)
| EvErr (id e : Z)             (* on Errors(): message id with error e *)
| EvReport (r : report)        (* t.Errorf *)
| EvCheck (id p : Z).          (* the expectation's checker is called with message id whose Partition is p *)

Record cfg := { ret_succ : bool; ret_err : bool }.

(* ---- TopicConfig (mocks.go): the partition counts offered to the partitioners ---- *)
(* What the test does to a mock's TopicConfig before producing. SetPartitions copies the entries of the map it is
   given into the mock's own map (later calls win per topic): whatever the caller does to ITS map afterwards, and
   whatever another mock that was handed the same map does, changes nothing for this mock. *)
Inductive cfgop :=
| CfgDefault (n : Z)                    (* SetDefaultPartitions(n) *)
| CfgSet (l : list (Z * Z))             (* SetPartitions(map topic -> count) *)
| CfgCallerEdits (l : list (Z * Z))     (* the caller writes these entries into the map it passed to the last SetPartitions *)
| CfgOtherMock (l : list (Z * Z)).      (* a second mock is given the same map, then SetPartitions(l) of its own *)
Record tconf := { tc_def : Z; tc_over : list (Z * Z) }.
Definition tc_init : tconf := {| tc_def := 32; tc_over := [] |}.     (* NewTopicConfig *)
Definition tc_apply (t : tconf) (o : cfgop) : tconf :=
  match o with
  | CfgDefault n => {| tc_def := n; tc_over := tc_over t |}
  | CfgSet l => {| tc_def := tc_def t; tc_over := l ++ tc_over t |}
  | CfgCallerEdits _ | CfgOtherMock _ => t
  end.
Definition tc_run (ops : list cfgop) : tconf := fold_left tc_apply ops tc_init.
Fixpoint tc_lookup (k : Z) (l : list (Z * Z)) : option Z :=
  match l with [] => None | (k', v) :: r => if Z.eqb k k' then Some v else tc_lookup k r end.
(* TopicConfig.partitions(topic) *)
Definition tc_partitions (t : tconf) (topic : Z) : Z :=
  match tc_lookup topic (tc_over t) with Some n => n | None => tc_def t end.
Record st := { exps : list expectation; last : Z }.

Definition init (es : list expectation) : st := {| exps := es; last := 0 |}.

(* msg.Partition is assigned before the checker (if any) runs *)
Definition checked (k : checker) (m : msg) (p : Z) : list event :=
  match k with CNone => [] | _ => [EvCheck (m_id m) p] end.

(* one iteration of the async mock's `for msg := range mp.input` loop *)
Definition step_async (c : cfg) (s : st) (m : msg) : st * list event :=
  match exps s with
  | [] => ({| exps := []; last := last s |}, [EvReport RepNoExpectation])
  | e :: es =>
    match m_pres m with
    | PErr x => ({| exps := es; last := last s |}, [EvReport RepPartitioner; EvErr (m_id m) x])
    | POk p =>
      match e_chk e with
      | CFail x => ({| exps := es; last := last s |}, [EvCheck (m_id m) p; EvReport RepChecker; EvErr (m_id m) x])
      | k =>
        match e_res e with
        | RSucc => ({| exps := es; last := last s + 1 |},
                    checked k m p ++ if ret_succ c then [EvSucc (m_id m) p (last s + 1)] else [])
        | RFail x => ({| exps := es; last := last s |},
                      checked k m p ++ if ret_err c then [EvErr (m_id m) x] else [])
        end
      end
    end
  end.

Fixpoint run_async (c : cfg) (s : st) (ms : list msg) : st * list event :=
  match ms with
  | [] => (s, [])
  | m :: r => let '(s1, o1) := step_async c s m in
              let '(s2, o2) := run_async c s1 r in (s2, o1 ++ o2)
  end.

(* end of the dispatcher goroutine's `for msg := range mp.input` loop (the input channel was closed by AsyncClose,
   directly or through Close): leftover expectations are reported there, by the goroutine, not by Close() *)
Definition close_events (s : st) : list event :=
  match exps s with [] => [] | _ => [EvReport (RepLeftOver (Z.of_nat (length (exps s))))] end.

Definition async_history (c : cfg) (es : list expectation) (ms : list msg) : list event :=
  let '(s, o) := run_async c (init es) ms in o ++ close_events s.

(* The two ways an application shuts the async mock down: Close() = AsyncClose() + wait for the goroutine;
   AsyncClose() alone, the application then waits for Successes()/Errors() to be closed. The goroutine closes those
   channels after the left-over report, so the report is there in both styles; Close() itself reports nothing. *)
Inductive shutdown := ShClose | ShAsyncClose.
Definition close_call_events (sd : shutdown) (s : st) : list event :=
  match sd with ShClose => [] | ShAsyncClose => [] end.
Definition async_history_sd (c : cfg) (sd : shutdown) (es : list expectation) (ms : list msg) : list event :=
  let '(s, o) := run_async c (init es) ms in o ++ close_events s ++ close_call_events sd s.

(* ---- sync mock ---- *)
(* What one expectation does to one message (shared by SendMessage and the SendMessages loop):
   a_err   None = produced, Some x = the call fails with x
   a_rep   reporter calls
   a_part  Some p when msg.Partition was assigned (the partitioner's choice; assigned before the checker runs)
   a_off   Some o when msg.Offset was assigned
   a_last  lastOffset afterwards *)
Record applied := { a_err : option Z; a_rep : list report; a_part : option Z; a_off : option Z; a_last : Z;
                    a_chk : list (Z * Z) }.   (* (message id, Partition) the checker was called with *)
Definition checked_sync (k : checker) (m : msg) (p : Z) : list (Z * Z) :=
  match k with CNone => [] | _ => [(m_id m, p)] end.

Definition apply1 (e : expectation) (lo : Z) (m : msg) : applied :=
  match m_pres m with
  | PErr x => {| a_err := Some x; a_rep := [RepPartitioner]; a_part := None; a_off := None; a_last := lo; a_chk := [] |}
  | POk p =>
    match e_chk e with
    | CFail x => {| a_err := Some x; a_rep := [RepChecker]; a_part := Some p; a_off := None; a_last := lo;
                    a_chk := [(m_id m, p)] |}
    | k =>
      match e_res e with
      | RSucc => {| a_err := None; a_rep := []; a_part := Some p; a_off := Some (lo + 1); a_last := lo + 1;
                    a_chk := checked_sync k m p |}
      | RFail x => {| a_err := Some x; a_rep := []; a_part := Some p; a_off := None; a_last := lo;
                      a_chk := checked_sync k m p |}
      end
    end
  end.

(* fields of the caller's message written by the mock: (Partition, Offset); None = left as it was *)
Definition touch := (option Z * option Z)%type.
Definition untouched : touch := (None, None).
Definition touch_of (a : applied) : touch := (a_part a, a_off a).

(* SendMessage returns (partition, offset, error): the returned partition is the constant 0 on success *)
Inductive sret := SOk (retp off : Z) | SErr (e : Z).
Definition err_out_of_expectations : Z := -1.

(* result of one call: return value, reporter calls, what happened to each message passed,
   ids of the messages the partitioner was consulted for *)
Record callres := { r_ret : sret; r_rep : list report; r_touch : list touch; r_asked : list Z;
                    r_checked : list (Z * Z) }.   (* checker calls: (message id, Partition seen) *)

Definition step_sync (s : st) (m : msg) : st * callres :=
  match exps s with
  | [] => (s, {| r_ret := SErr err_out_of_expectations; r_rep := [RepNoExpectation]; r_touch := [untouched]; r_asked := [];
            r_checked := [] |})
  | e :: es =>
    let a := apply1 e (last s) m in
    ({| exps := es; last := a_last a |},
     {| r_ret := match a_err a with None => SOk 0 (a_last a) | Some x => SErr x end;
        r_rep := a_rep a; r_touch := [touch_of a]; r_asked := [m_id m]; r_checked := a_chk a |})
  end.

(* the `for i, expectation := range expectations` loop of SendMessages: stops at the first failure *)
Record batchres := { b_last : Z; b_err : option Z; b_rep : list report; b_touch : list touch; b_asked : list Z;
                     b_checked : list (Z * Z) }.

Fixpoint batch_loop (lo : Z) (es : list expectation) (ms : list msg) : batchres :=
  match es, ms with
  | e :: er, m :: mr =>
    let a := apply1 e lo m in
    match a_err a with
    | Some x => {| b_last := a_last a; b_err := Some x; b_rep := a_rep a;
                   b_touch := touch_of a :: map (fun _ => untouched) mr; b_asked := [m_id m]; b_checked := a_chk a |}
    | None => let r := batch_loop (a_last a) er mr in
              {| b_last := b_last r; b_err := b_err r; b_rep := b_rep r;
                 b_touch := touch_of a :: b_touch r; b_asked := m_id m :: b_asked r;
                 b_checked := a_chk a ++ b_checked r |}
    end
  | _, _ => {| b_last := lo; b_err := None; b_rep := []; b_touch := map (fun _ => untouched) ms; b_asked := [];
              b_checked := [] |}
  end.

(* SendMessages returns only an error; SOk 0 0 stands for nil *)
Definition step_batch (s : st) (ms : list msg) : st * callres :=
  let n := length ms in
  if (n <=? length (exps s))%nat then
    let r := batch_loop (last s) (firstn n (exps s)) ms in
    ({| exps := skipn n (exps s); last := b_last r |},
     {| r_ret := match b_err r with None => SOk 0 0 | Some x => SErr x end;
        r_rep := b_rep r; r_touch := b_touch r; r_asked := b_asked r; r_checked := b_checked r |})
  else
    (s, {| r_ret := SErr err_out_of_expectations; r_rep := [RepInsufficient];
           r_touch := map (fun _ => untouched) ms; r_asked := []; r_checked := [] |}).

Inductive call := CSend (m : msg) | CBatch (ms : list msg).

Definition step_call (s : st) (c : call) : st * callres :=
  match c with CSend m => step_sync s m | CBatch ms => step_batch s ms end.

Fixpoint run_calls (s : st) (cs : list call) : st * list callres :=
  match cs with
  | [] => (s, [])
  | c :: r => let '(s1, o) := step_call s c in
              let '(s2, os) := run_calls s1 r in (s2, o :: os)
  end.

(* SyncProducer.Close *)
Definition sync_close (s : st) : list report :=
  match exps s with [] => [] | _ => [RepLeftOver (Z.of_nat (length (exps s)))] end.
