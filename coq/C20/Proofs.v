(* C20 — proofs about the mock-producer model. *)
From Coq Require Import List ZArith Bool Lia.
From SV Require Import C20.Model.
Import ListNotations.
Open Scope Z_scope.

(* ---------- the abstract specification: zip messages with expectations ---------- *)
Definition deviation (e : option expectation) (m : msg) : list report :=
  match e with
  | None => [RepNoExpectation]
  | Some e => match m_pres m with
              | PErr _ => [RepPartitioner]
              | POk _ => match e_chk e with CFail _ => [RepChecker] | _ => [] end
              end
  end.

(* the single outcome the i-th expectation scripts for the i-th message *)
Inductive outcome := OSucc (p : Z) | OErr (e : Z).
Definition scripted (e : expectation) (m : msg) : outcome :=
  match m_pres m with
  | PErr x => OErr x
  | POk p => match e_chk e with
             | CFail x => OErr x
             | _ => match e_res e with RSucc => OSucc p | RFail x => OErr x end
             end
  end.

(* forced errors (partitioner, checker) are always sent; scripted ones obey Return.* *)
Definition visible (c : cfg) (e : expectation) (m : msg) : bool :=
  match m_pres m with
  | PErr _ => true
  | POk _ => match e_chk e with
             | CFail _ => true
             | _ => match e_res e with RSucc => ret_succ c | RFail _ => ret_err c end
             end
  end.

(* the checker, if the expectation has one, is shown the message with the partitioner's choice in place *)
Definition check_events (e : expectation) (m : msg) : list event :=
  match m_pres m with POk p => checked (e_chk e) m p | PErr _ => [] end.

Fixpoint spec_async (c : cfg) (es : list expectation) (ms : list msg) (off : Z) : list event :=
  match ms with
  | [] => match es with [] => [] | _ => [EvReport (RepLeftOver (Z.of_nat (length es)))] end
  | m :: mr =>
    match es with
    | [] => EvReport RepNoExpectation :: spec_async c [] mr off
    | e :: er =>
      check_events e m ++ map EvReport (deviation (Some e) m) ++
      match scripted e m with
      | OSucc p => (if visible c e m then [EvSucc (m_id m) p (off + 1)] else []) ++ spec_async c er mr (off + 1)
      | OErr x => (if visible c e m then [EvErr (m_id m) x] else []) ++ spec_async c er mr off
      end
    end
  end.

Lemma run_async_spec c : forall ms s,
  snd (run_async c s ms) ++ close_events (fst (run_async c s ms)) = spec_async c (exps s) ms (last s).
Proof.
  induction ms as [|m mr IH]; intros [es lo]; cbn [run_async].
  - cbn. destruct es; reflexivity.
  - unfold step_async; cbn [exps last].
    destruct es as [|e er].
    + specialize (IH {| exps := []; last := lo |}).
      destruct (run_async c {| exps := []; last := lo |} mr) as [s2 o2] eqn:E. cbn [fst snd exps last] in *.
      cbn [spec_async]. rewrite <- IH. reflexivity.
    + cbn [spec_async]. unfold deviation, scripted, visible, check_events, checked.
      destruct (m_pres m) as [p|x]; [destruct (e_chk e) as [| |x]; destruct (e_res e) as [|y] |];
      match goal with |- context [run_async c ?s mr] =>
        specialize (IH s); destruct (run_async c s mr) as [s2 o2] eqn:E end;
      cbn [fst snd exps last] in *; rewrite <- IH;
      try destruct (ret_succ c); try destruct (ret_err c); cbn; try rewrite <- app_assoc; reflexivity.
Qed.

Theorem async_refines_spec c es ms : async_history c es ms = spec_async c es ms 0.
Proof.
  unfold async_history. pose proof (run_async_spec c ms (init es)) as H.
  destruct (run_async c (init es) ms) as [s o]. exact H.
Qed.

(* ---------- corollaries on the spec ---------- *)
Definition is_outcome_of (id : Z) (ev : event) : bool :=
  match ev with EvSucc i _ _ => Z.eqb i id | EvErr i _ => Z.eqb i id | _ => false end.
Definition outcomes_of (id : Z) (evs : list event) : nat := length (filter (is_outcome_of id) evs).

Lemma outcomes_app id a b : outcomes_of id (a ++ b) = (outcomes_of id a + outcomes_of id b)%nat.
Proof. unfold outcomes_of. rewrite filter_app, app_length. reflexivity. Qed.

Lemma outcomes_reports id rs : outcomes_of id (map EvReport rs) = 0%nat.
Proof. induction rs; cbn; auto. Qed.

Lemma outcomes_checks id e m : outcomes_of id (check_events e m) = 0%nat.
Proof. unfold check_events, checked. destruct (m_pres m); [destruct (e_chk e)|]; reflexivity. Qed.

Definition all_visible (c : cfg) : Prop := ret_succ c = true /\ ret_err c = true.

Lemma visible_all c e m : all_visible c -> visible c e m = true.
Proof. intros [H1 H2]. unfold visible. destruct (m_pres m); auto. destruct (e_chk e); destruct (e_res e); auto. Qed.

Lemma spec_outcomes c id : all_visible c -> forall ms es off,
  (length ms <= length es)%nat ->
  outcomes_of id (spec_async c es ms off) = count_occ Z.eq_dec (map m_id ms) id.
Proof.
  intros Hv. induction ms as [|m mr IH]; intros es off Hl.
  - cbn. destruct es; reflexivity.
  - destruct es as [|e er]; [cbn in Hl; lia|]. cbn [spec_async map].
    rewrite outcomes_app, outcomes_checks, outcomes_app, outcomes_reports. rewrite visible_all by assumption.
    assert (Hl' : (length mr <= length er)%nat) by (cbn in Hl; lia).
    destruct (scripted e m) as [p|x]; cbn [app]; unfold outcomes_of in *; cbn [filter is_outcome_of];
      (destruct (Z.eq_dec (m_id m) id) as [->|Hne];
       [ rewrite Z.eqb_refl; cbn [length count_occ]; destruct (Z.eq_dec id id); [|contradiction]; rewrite IH by assumption; reflexivity
       | assert (Z.eqb (m_id m) id = false) as -> by (apply Z.eqb_neq; assumption);
         cbn [count_occ]; destruct (Z.eq_dec (m_id m) id); [contradiction|]; rewrite IH by assumption; reflexivity ]).
Qed.

Lemma spec_no_outcome_without_expectation c id : forall ms off,
  outcomes_of id (spec_async c [] ms off) = 0%nat.
Proof. induction ms as [|m mr IH]; intro off; cbn; auto. apply IH. Qed.

(* exactly one terminal event per message, none for anything not submitted *)
Theorem exactly_one_outcome c es ms id :
  all_visible c -> (length ms <= length es)%nat -> NoDup (map m_id ms) ->
  outcomes_of id (async_history c es ms) = if in_dec Z.eq_dec id (map m_id ms) then 1%nat else 0%nat.
Proof.
  intros Hv Hl Hnd. rewrite async_refines_spec, spec_outcomes by assumption.
  destruct (in_dec Z.eq_dec id (map m_id ms)) as [Hin|Hnin].
  - apply NoDup_count_occ' ; assumption.
  - apply count_occ_not_In; assumption.
Qed.

(* offsets of successes are last+1, last+2, ... *)
Fixpoint succ_offsets (evs : list event) : list Z :=
  match evs with
  | [] => []
  | EvSucc _ _ o :: r => o :: succ_offsets r
  | _ :: r => succ_offsets r
  end.

Lemma succ_offsets_app a b : succ_offsets (a ++ b) = succ_offsets a ++ succ_offsets b.
Proof. induction a as [|[| | |] a IH]; cbn; auto. rewrite IH. reflexivity. Qed.
Lemma succ_offsets_reports rs : succ_offsets (map EvReport rs) = [].
Proof. induction rs; cbn; auto. Qed.

Lemma succ_offsets_checks e m : succ_offsets (check_events e m) = [].
Proof. unfold check_events, checked. destruct (m_pres m); [destruct (e_chk e)|]; reflexivity. Qed.

Fixpoint consecutive_from (o : Z) (l : list Z) : Prop :=
  match l with [] => True | x :: r => x = o + 1 /\ consecutive_from (o + 1) r end.

Lemma spec_offsets c : ret_succ c = true -> forall ms es off,
  consecutive_from off (succ_offsets (spec_async c es ms off)).
Proof.
  intros Hs. induction ms as [|m mr IH]; intros es off.
  - cbn. destruct es; cbn; auto.
  - destruct es as [|e er]; cbn [spec_async].
    + cbn. apply IH.
    + rewrite succ_offsets_app, succ_offsets_checks, succ_offsets_app, succ_offsets_reports. cbn [app].
      destruct (scripted e m) as [p|x] eqn:Es.
      * assert (visible c e m = true) as ->.
        { unfold scripted in Es. unfold visible. destruct (m_pres m); [|discriminate].
          destruct (e_chk e); try discriminate; destruct (e_res e); try discriminate; assumption. }
        cbn. split; [reflexivity | apply IH].
      * destruct (visible c e m); cbn; apply IH.
Qed.

Theorem offsets_increase c es ms : ret_succ c = true ->
  consecutive_from 0 (succ_offsets (async_history c es ms)).
Proof. intro H. rewrite async_refines_spec. apply spec_offsets; assumption. Qed.

(* the reporter is called for, and only for, the deviations *)
Fixpoint reports (evs : list event) : list report :=
  match evs with [] => [] | EvReport r :: t => r :: reports t | _ :: t => reports t end.
Lemma reports_app a b : reports (a ++ b) = reports a ++ reports b.
Proof. induction a as [|[| | |] a IH]; cbn; auto. rewrite IH; reflexivity. Qed.
Lemma reports_map rs : reports (map EvReport rs) = rs.
Proof. induction rs; cbn; congruence. Qed.

Lemma reports_checks e m : reports (check_events e m) = [].
Proof. unfold check_events, checked. destruct (m_pres m); [destruct (e_chk e)|]; reflexivity. Qed.

Fixpoint spec_reports (es : list expectation) (ms : list msg) : list report :=
  match ms with
  | [] => match es with [] => [] | _ => [RepLeftOver (Z.of_nat (length es))] end
  | m :: mr => match es with
               | [] => RepNoExpectation :: spec_reports [] mr
               | e :: er => deviation (Some e) m ++ spec_reports er mr
               end
  end.

Lemma spec_reports_ok c : forall ms es off, reports (spec_async c es ms off) = spec_reports es ms.
Proof.
  induction ms as [|m mr IH]; intros es off.
  - destruct es; reflexivity.
  - destruct es as [|e er]; cbn [spec_async spec_reports].
    + cbn. f_equal. apply IH.
    + rewrite reports_app, reports_checks, reports_app, reports_map. cbn [app]. f_equal.
      destruct (scripted e m); destruct (visible c e m); cbn; apply IH.
Qed.

Theorem reporter_exact c es ms : reports (async_history c es ms) = spec_reports es ms.
Proof. rewrite async_refines_spec. apply spec_reports_ok. Qed.

(* both shutdown styles give the same history: the left-over report belongs to the end of the input loop *)
Lemma async_history_sd_eq c sd es ms : async_history_sd c sd es ms = async_history c es ms.
Proof.
  unfold async_history_sd, async_history. destruct (run_async c (init es) ms) as [s o].
  destruct sd; cbn [close_call_events]; rewrite app_nil_r; reflexivity.
Qed.

Theorem reporter_exact_sd c sd es ms : reports (async_history_sd c sd es ms) = spec_reports es ms.
Proof. rewrite async_history_sd_eq. apply reporter_exact. Qed.

(* ---------- TopicConfig: SetPartitions snapshots the values ---------- *)
Lemma tc_run_app a b : tc_run (a ++ b) = fold_left tc_apply b (tc_run a).
Proof. unfold tc_run. apply fold_left_app. Qed.

(* whatever the caller later does to the map it passed, or another mock sharing that map does, the counts offered
   to the partitioners are those of the SetPartitions / SetDefaultPartitions calls made on this mock *)
Fixpoint own_ops (ops : list cfgop) : list cfgop :=
  match ops with
  | [] => []
  | (CfgCallerEdits _ | CfgOtherMock _) :: r => own_ops r
  | o :: r => o :: own_ops r
  end.
Theorem topic_config_snapshot ops : tc_run ops = tc_run (own_ops ops).
Proof.
  unfold tc_run. generalize tc_init. induction ops as [|o r IH]; intro t; [reflexivity|].
  destruct o; cbn [own_ops fold_left tc_apply]; apply IH.
Qed.

(* ---------- sync mock ---------- *)
Definition sync_expected (s : st) (m : msg) : sret :=
  match exps s with
  | [] => SErr err_out_of_expectations
  | e :: _ => match scripted e m with OSucc _ => SOk 0 (last s + 1) | OErr x => SErr x end
  end.

(* msg.Partition is the partitioner's choice whenever the partitioner succeeded (even if the call then fails);
   msg.Offset is written only on success *)
Definition sync_touch_expected (s : st) (m : msg) : touch :=
  match exps s with
  | [] => untouched
  | e :: _ => (match m_pres m with POk p => Some p | PErr _ => None end,
               match scripted e m with OSucc _ => Some (last s + 1) | OErr _ => None end)
  end.

(* the checker (if any) sees the message with the partitioner's choice already in msg.Partition *)
Definition sync_checks_expected (s : st) (m : msg) : list (Z * Z) :=
  match exps s, m_pres m with
  | e :: _, POk p => match e_chk e with CNone => [] | _ => [(m_id m, p)] end
  | _, _ => []
  end.

Theorem sync_returns_scripted s m :
  r_ret (snd (step_sync s m)) = sync_expected s m /\
  r_rep (snd (step_sync s m)) = deviation (hd_error (exps s)) m /\
  r_touch (snd (step_sync s m)) = [sync_touch_expected s m] /\
  exps (fst (step_sync s m)) = tl (exps s) /\
  r_checked (snd (step_sync s m)) = sync_checks_expected s m.
Proof.
  unfold step_sync, sync_expected, sync_touch_expected, sync_checks_expected, scripted, deviation, apply1, touch_of, checked_sync.
  destruct s as [[|e es] lo]; cbn; auto.
  destruct (m_pres m); cbn; auto. destruct (e_chk e); destruct (e_res e); cbn; auto.
Qed.

(* --- SendMessages --- *)
(* the first pair (expectation, message) whose scripted outcome is an error *)
Fixpoint first_failure (es : list expectation) (ms : list msg) : option (expectation * msg * Z) :=
  match es, ms with
  | e :: er, m :: mr => match scripted e m with OErr x => Some (e, m, x) | OSucc _ => first_failure er mr end
  | _, _ => None
  end.
(* number of leading pairs that succeed *)
Fixpoint succ_prefix (es : list expectation) (ms : list msg) : nat :=
  match es, ms with
  | e :: er, m :: mr => match scripted e m with OErr _ => O | OSucc _ => S (succ_prefix er mr) end
  | _, _ => O
  end.

Fixpoint zseq (o : Z) (n : nat) : list Z := match n with O => [] | S k => o :: zseq (o + 1) k end.

Definition batch_ret (ff : option (expectation * msg * Z)) : sret :=
  match ff with Some (_, _, x) => SErr x | None => SOk 0 0 end.
Definition batch_reports (ff : option (expectation * msg * Z)) : list report :=
  match ff with Some (e, m, _) => deviation (Some e) m | None => [] end.

Lemma apply1_scripted e lo m :
  (a_err (apply1 e lo m) = match scripted e m with OErr x => Some x | OSucc _ => None end) /\
  a_rep (apply1 e lo m) = deviation (Some e) m /\
  a_off (apply1 e lo m) = (match scripted e m with OErr _ => None | OSucc _ => Some (lo + 1) end) /\
  a_last (apply1 e lo m) = (match scripted e m with OErr _ => lo | OSucc _ => lo + 1 end) /\
  a_part (apply1 e lo m) = (match m_pres m with POk p => Some p | PErr _ => None end).
Proof.
  unfold apply1, scripted, deviation. destruct (m_pres m); cbn; auto.
  destruct (e_chk e); destruct (e_res e); cbn; auto.
Qed.

Lemma map_snd_untouched (ms : list msg) :
  map snd (map (fun _ : msg => untouched) ms) = repeat (@None Z) (length ms).
Proof. induction ms; cbn; congruence. Qed.

Lemma batch_loop_spec : forall es ms lo, length ms = length es ->
  let r := batch_loop lo es ms in
  b_err r = match first_failure es ms with Some (_, _, x) => Some x | None => None end /\
  b_rep r = batch_reports (first_failure es ms) /\
  b_last r = lo + Z.of_nat (succ_prefix es ms) /\
  map snd (b_touch r) = map Some (zseq (lo + 1) (succ_prefix es ms)) ++ repeat None (length ms - succ_prefix es ms).
Proof.
  induction es as [|e er IH]; intros [|m mr] lo Hl; try discriminate Hl.
  - cbn. repeat split; auto. lia.
  - cbn [batch_loop first_failure succ_prefix].
    destruct (apply1_scripted e lo m) as (He & Hr & Ho & Hla & _).
    destruct (scripted e m) as [p|x] eqn:Es; rewrite He.
    + assert (Hl' : length mr = length er) by (cbn in Hl; lia).
      rewrite Hla. specialize (IH mr (lo + 1) Hl'). cbn zeta in IH. destruct IH as (I1 & I2 & I3 & I4).
      cbn [b_err b_rep b_last b_touch]. rewrite I1, I2, I3.
      repeat split; auto; [lia|].
      cbn [map snd touch_of zseq length Nat.sub]. rewrite Ho, I4. reflexivity.
    + cbn [b_err b_rep b_last b_touch batch_reports]. rewrite Hr, Hla. repeat split; auto; [lia|].
      cbn [map snd touch_of zseq length Nat.sub app]. rewrite Ho, map_snd_untouched. reflexivity.
Qed.

Lemma first_failure_firstn : forall ms es, first_failure (firstn (length ms) es) ms = first_failure es ms.
Proof. induction ms as [|m mr IH]; intros [|e er]; cbn; auto. destruct (scripted e m); auto. Qed.
Lemma succ_prefix_firstn : forall ms es, succ_prefix (firstn (length ms) es) ms = succ_prefix es ms.
Proof. induction ms as [|m mr IH]; intros [|e er]; cbn; auto. destruct (scripted e m); auto. Qed.

(* enough expectations: exactly len(msgs) are consumed, the result is that of the first failing
   expectation (nil if none), offsets go to the messages before it and to no other *)
Theorem sync_batch_enough s ms : (length ms <= length (exps s))%nat ->
  let ff := first_failure (exps s) ms in
  let k := succ_prefix (exps s) ms in
  r_ret (snd (step_batch s ms)) = batch_ret ff /\
  r_rep (snd (step_batch s ms)) = batch_reports ff /\
  exps (fst (step_batch s ms)) = skipn (length ms) (exps s) /\
  length (exps (fst (step_batch s ms))) = (length (exps s) - length ms)%nat /\
  last (fst (step_batch s ms)) = last s + Z.of_nat k /\
  map snd (r_touch (snd (step_batch s ms))) = map Some (zseq (last s + 1) k) ++ repeat None (length ms - k).
Proof.
  intros Hl. unfold step_batch. apply Nat.leb_le in Hl as Hb. rewrite Hb. cbn [fst snd exps last r_ret r_rep r_touch].
  assert (Hn : length ms = length (firstn (length ms) (exps s))) by (rewrite firstn_length; lia).
  pose proof (batch_loop_spec (firstn (length ms) (exps s)) ms (last s) Hn) as H. cbn zeta in H.
  rewrite first_failure_firstn, succ_prefix_firstn in H. destruct H as (H1 & H2 & H3 & H4).
  repeat split; auto.
  - rewrite H1. unfold batch_ret. destruct (first_failure (exps s) ms) as [[[? ?] ?]|]; reflexivity.
  - apply skipn_length.
Qed.

(* not enough expectations: nothing is consumed, nothing is written, one report *)
Theorem sync_batch_insufficient s ms : (length (exps s) < length ms)%nat ->
  step_batch s ms = (s, {| r_ret := SErr err_out_of_expectations; r_rep := [RepInsufficient];
                            r_touch := map (fun _ => untouched) ms; r_asked := []; r_checked := [] |}).
Proof. intros Hl. unfold step_batch. apply Nat.leb_gt in Hl. rewrite Hl. reflexivity. Qed.

(* --- offsets over any mix of SendMessage and SendMessages calls --- *)
Definition touch_offsets (ts : list touch) : list Z :=
  flat_map (fun t : touch => match snd t with Some o => [o] | None => [] end) ts.
Definition call_offsets (rs : list callres) : list Z := flat_map (fun r => touch_offsets (r_touch r)) rs.

Lemma consecutive_from_app : forall a b o,
  consecutive_from o a -> consecutive_from (o + Z.of_nat (length a)) b -> consecutive_from o (a ++ b).
Proof.
  induction a as [|x a IH]; intros b o Ha Hb; cbn in *.
  - replace (o + 0) with o in Hb by lia. exact Hb.
  - destruct Ha as [-> Ha]. split; auto. apply IH; auto.
    replace (o + 1 + Z.of_nat (length a)) with (o + Z.pos (Pos.of_succ_nat (length a))) by lia. exact Hb.
Qed.

Lemma touch_offsets_untouched (ms : list msg) : touch_offsets (map (fun _ => untouched) ms) = [].
Proof. induction ms; cbn; auto. Qed.

Lemma batch_loop_offsets : forall es ms lo,
  let r := batch_loop lo es ms in
  consecutive_from lo (touch_offsets (b_touch r)) /\
  b_last r = lo + Z.of_nat (length (touch_offsets (b_touch r))).
Proof.
  induction es as [|e er IH]; intros ms lo; cbn zeta.
  - destruct ms; cbn [batch_loop b_touch b_last]; rewrite touch_offsets_untouched; cbn; split; auto; lia.
  - destruct ms as [|m mr]; [cbn; split; auto; lia|]. cbn [batch_loop].
    destruct (apply1_scripted e lo m) as (He & _ & Ho & Hla & _).
    destruct (scripted e m) as [p|x]; rewrite He.
    + specialize (IH mr (a_last (apply1 e lo m))). cbn zeta in IH. destruct IH as [I1 I2].
      cbn [b_touch b_last]. unfold touch_offsets in *. cbn [flat_map touch_of snd]. rewrite Ho. cbn [app length].
      rewrite Hla in *. split; [split; auto | lia].
    + cbn [b_touch b_last]. unfold touch_offsets. cbn [flat_map touch_of snd]. rewrite Ho.
      fold (touch_offsets (map (fun _ : msg => untouched) mr)). rewrite touch_offsets_untouched. cbn. split; auto; lia.
Qed.

Lemma step_call_offsets s c :
  consecutive_from (last s) (touch_offsets (r_touch (snd (step_call s c)))) /\
  last (fst (step_call s c)) = last s + Z.of_nat (length (touch_offsets (r_touch (snd (step_call s c))))).
Proof.
  destruct c as [m|ms]; cbn [step_call].
  - unfold step_sync. destruct (exps s) as [|e es]; cbn; [split; auto; lia|].
    destruct (apply1_scripted e (last s) m) as (_ & _ & Ho & Hla & _).
    unfold touch_offsets, touch_of. cbn [flat_map snd]. rewrite Ho, Hla.
    destruct (scripted e m); cbn; split; auto; lia.
  - unfold step_batch. destruct (length ms <=? length (exps s))%nat; cbn [fst snd r_touch last].
    + apply batch_loop_offsets.
    + rewrite touch_offsets_untouched. cbn. split; auto; lia.
Qed.

(* every offset handed out is the previous one plus one, whatever the mix of call kinds *)
Theorem sync_offsets_increase : forall cs s,
  consecutive_from (last s) (call_offsets (snd (run_calls s cs))) /\
  last (fst (run_calls s cs)) = last s + Z.of_nat (length (call_offsets (snd (run_calls s cs)))).
Proof.
  induction cs as [|c cr IH]; intros s; cbn [run_calls].
  - cbn. split; auto; lia.
  - destruct (step_call_offsets s c) as [H1 H2].
    destruct (step_call s c) as [s1 o] eqn:E1. specialize (IH s1).
    destruct (run_calls s1 cr) as [s2 os] eqn:E2. cbn [fst snd] in *.
    destruct IH as [I1 I2]. unfold call_offsets in *. cbn [flat_map]. rewrite app_length. split.
    + apply consecutive_from_app; auto. rewrite <- H2. exact I1.
    + lia.
Qed.

(* SyncProducer.Close reports left-over expectations and nothing else *)
Theorem sync_close_exact s :
  sync_close s = match exps s with [] => [] | _ => [RepLeftOver (Z.of_nat (length (exps s)))] end.
Proof. reflexivity. Qed.

(* ---------- concurrent senders on the async input ---------- *)
From Coq Require Import Permutation.
Inductive interleave {A : Type} : list A -> list A -> list A -> Prop :=
| il_nil : interleave [] [] []
| il_l x a b c : interleave a b c -> interleave (x :: a) b (x :: c)
| il_r x a b c : interleave a b c -> interleave a (x :: b) (x :: c).

Lemma interleave_perm {A} (a b c : list A) : interleave a b c -> Permutation (a ++ b) c.
Proof.
  induction 1; cbn; auto.
  eapply perm_trans; [symmetry; apply Permutation_middle|]. constructor. assumption.
Qed.

(* whatever order the messages of two senders arrive in (the mock consumes its input channel in
   arrival order), the arrival sequence is served as the zip with the expectations and every
   message of either sender gets exactly one terminal event *)
Theorem concurrent_senders c es ms1 ms2 arr id :
  interleave ms1 ms2 arr ->
  async_history c es arr = spec_async c es arr 0 /\
  (all_visible c -> (length (ms1 ++ ms2) <= length es)%nat -> NoDup (map m_id (ms1 ++ ms2)) ->
   outcomes_of id (async_history c es arr) = if in_dec Z.eq_dec id (map m_id (ms1 ++ ms2)) then 1%nat else 0%nat).
Proof.
  intros Hi. split; [apply async_refines_spec|]. intros Hv Hl Hnd.
  pose proof (interleave_perm _ _ _ Hi) as Hp.
  pose proof (Permutation_map m_id Hp) as Hpm.
  rewrite exactly_one_outcome; auto.
  - destruct (in_dec Z.eq_dec id (map m_id arr)) as [H|H]; destruct (in_dec Z.eq_dec id (map m_id (ms1 ++ ms2))) as [H'|H']; auto.
    + exfalso. apply H'. eapply Permutation_in; [symmetry; exact Hpm | exact H].
    + exfalso. apply H. eapply Permutation_in; [exact Hpm | exact H'].
  - rewrite <- (Permutation_length Hp). exact Hl.
  - eapply Permutation_NoDup; [exact Hpm | exact Hnd].
Qed.

(* non-vacuity: a script exercising every branch *)
Example c20_example :
  let c := {| ret_succ := true; ret_err := true |} in
  let es := [ {| e_res := RSucc; e_chk := CNone |}; {| e_res := RSucc; e_chk := CFail 7 |};
              {| e_res := RFail 9; e_chk := CPass |}; {| e_res := RSucc; e_chk := CPass |} ] in
  let ms := [ {| m_id := 1; m_pres := POk 3 |}; {| m_id := 2; m_pres := POk 0 |};
              {| m_id := 3; m_pres := POk 1 |}; {| m_id := 4; m_pres := PErr 5 |}; {| m_id := 5; m_pres := POk 2 |} ] in
  async_history c es ms =
    [EvSucc 1 3 1; EvCheck 2 0; EvReport RepChecker; EvErr 2 7; EvCheck 3 1; EvErr 3 9; EvReport RepPartitioner; EvErr 4 5;
     EvReport RepNoExpectation].
Proof. vm_compute. reflexivity. Qed.

Example c20_sync_example :
  let es := [ {| e_res := RSucc; e_chk := CNone |}; {| e_res := RSucc; e_chk := CPass |};
              {| e_res := RFail 9; e_chk := CNone |}; {| e_res := RSucc; e_chk := CNone |};
              {| e_res := RSucc; e_chk := CNone |} ] in
  let m i := {| m_id := i; m_pres := POk (i + 10) |} in
  let '(s, rs) := run_calls (init es) [CSend (m 1); CBatch [m 2; m 3; m 4]; CSend (m 5); CBatch [m 6; m 7]] in
  map r_ret rs = [SOk 0 1; SErr 9; SOk 0 3; SErr err_out_of_expectations] /\
  call_offsets rs = [1; 2; 3] /\ sync_close s = [] /\
  map r_rep rs = [[]; []; []; [RepInsufficient]].
Proof. vm_compute. repeat split. Qed.

Example c20_interleave_example :
  let m i := {| m_id := i; m_pres := POk 0 |} in
  interleave [m 1; m 2] [m 3] [m 1; m 3; m 2].
Proof. repeat constructor. Qed.

(* the hypotheses of [exactly_one_outcome] / [concurrent_senders] are satisfiable on a non-trivial script *)
Example c20_one_outcome_example :
  let c := {| ret_succ := true; ret_err := true |} in
  let es := [ {| e_res := RSucc; e_chk := CFail 7 |}; {| e_res := RFail 9; e_chk := CNone |}; {| e_res := RSucc; e_chk := CPass |} ] in
  let ms := [ {| m_id := 1; m_pres := POk 3 |}; {| m_id := 2; m_pres := PErr 5 |}; {| m_id := 3; m_pres := POk 1 |} ] in
  all_visible c /\ (length ms <= length es)%nat /\ NoDup (map m_id ms) /\
  map (fun id => outcomes_of id (async_history c es ms)) [1; 2; 3; 4] = [1; 1; 1; 0]%nat.
Proof. cbn. repeat split; auto. repeat constructor; cbn; intuition lia. Qed.
