(* C20 — proofs about the mock-producer model. *)
From Coq Require Import List ZArith Bool Lia.
From SV Require Import C20.Model.
Import ListNotations.
Open Scope Z_scope.

(* ---------- the abstract specification: zip messages with expectations ---------- *)
Definition deviation (e : option expectation) (m : msg) : list report :=
  match e with
  | None => [RepNoExpectation]
  | Some e => match m_pres m with
              | PErr _ => [RepPartitioner]
              | POk _ => match e_chk e with CFail _ => [RepChecker] | _ => [] end
              end
  end.

(* the single outcome the i-th expectation scripts for the i-th message *)
Inductive outcome := OSucc (p : Z) | OErr (e : Z).
Definition scripted (e : expectation) (m : msg) : outcome :=
  match m_pres m with
  | PErr x => OErr x
  | POk p => match e_chk e with
             | CFail x => OErr x
             | _ => match e_res e with RSucc => OSucc p | RFail x => OErr x end
             end
  end.

(* forced errors (partitioner, checker) are always sent; scripted ones obey Return.* *)
Definition visible (c : cfg) (e : expectation) (m : msg) : bool :=
  match m_pres m with
  | PErr _ => true
  | POk _ => match e_chk e with
             | CFail _ => true
             | _ => match e_res e with RSucc => ret_succ c | RFail _ => ret_err c end
             end
  end.

Fixpoint spec_async (c : cfg) (es : list expectation) (ms : list msg) (off : Z) : list event :=
  match ms with
  | [] => match es with [] => [] | _ => [EvReport (RepLeftOver (Z.of_nat (length es)))] end
  | m :: mr =>
    match es with
    | [] => EvReport RepNoExpectation :: spec_async c [] mr off
    | e :: er =>
      map EvReport (deviation (Some e) m) ++
      match scripted e m with
      | OSucc p => (if visible c e m then [EvSucc (m_id m) p (off + 1)] else []) ++ spec_async c er mr (off + 1)
      | OErr x => (if visible c e m then [EvErr (m_id m) x] else []) ++ spec_async c er mr off
      end
    end
  end.

Lemma run_async_spec c : forall ms s,
  snd (run_async c s ms) ++ close_events (fst (run_async c s ms)) = spec_async c (exps s) ms (last s).
Proof.
  induction ms as [|m mr IH]; intros [es lo]; cbn [run_async].
  - cbn. destruct es; reflexivity.
  - unfold step_async; cbn [exps last].
    destruct es as [|e er].
    + specialize (IH {| exps := []; last := lo |}).
      destruct (run_async c {| exps := []; last := lo |} mr) as [s2 o2] eqn:E. cbn [fst snd exps last] in *.
      cbn [spec_async]. rewrite <- IH. reflexivity.
    + cbn [spec_async]. unfold deviation, scripted, visible.
      destruct (m_pres m) as [p|x]; [destruct (e_chk e) as [| |x]; destruct (e_res e) as [|y] |];
      match goal with |- context [run_async c ?s mr] =>
        specialize (IH s); destruct (run_async c s mr) as [s2 o2] eqn:E end;
      cbn [fst snd exps last] in *; rewrite <- IH;
      try destruct (ret_succ c); try destruct (ret_err c); cbn; try rewrite <- app_assoc; reflexivity.
Qed.

Theorem async_refines_spec c es ms : async_history c es ms = spec_async c es ms 0.
Proof.
  unfold async_history. pose proof (run_async_spec c ms (init es)) as H.
  destruct (run_async c (init es) ms) as [s o]. exact H.
Qed.

(* ---------- corollaries on the spec ---------- *)
Definition is_outcome_of (id : Z) (ev : event) : bool :=
  match ev with EvSucc i _ _ => Z.eqb i id | EvErr i _ => Z.eqb i id | EvReport _ => false end.
Definition outcomes_of (id : Z) (evs : list event) : nat := length (filter (is_outcome_of id) evs).

Lemma outcomes_app id a b : outcomes_of id (a ++ b) = (outcomes_of id a + outcomes_of id b)%nat.
Proof. unfold outcomes_of. rewrite filter_app, app_length. reflexivity. Qed.

Lemma outcomes_reports id rs : outcomes_of id (map EvReport rs) = 0%nat.
Proof. induction rs; cbn; auto. Qed.

Definition all_visible (c : cfg) : Prop := ret_succ c = true /\ ret_err c = true.

Lemma visible_all c e m : all_visible c -> visible c e m = true.
Proof. intros [H1 H2]. unfold visible. destruct (m_pres m); auto. destruct (e_chk e); destruct (e_res e); auto. Qed.

Lemma spec_outcomes c id : all_visible c -> forall ms es off,
  (length ms <= length es)%nat ->
  outcomes_of id (spec_async c es ms off) = count_occ Z.eq_dec (map m_id ms) id.
Proof.
  intros Hv. induction ms as [|m mr IH]; intros es off Hl.
  - cbn. destruct es; reflexivity.
  - destruct es as [|e er]; [cbn in Hl; lia|]. cbn [spec_async map].
    rewrite outcomes_app, outcomes_reports. rewrite visible_all by assumption.
    assert (Hl' : (length mr <= length er)%nat) by (cbn in Hl; lia).
    destruct (scripted e m) as [p|x]; cbn [app]; unfold outcomes_of in *; cbn [filter is_outcome_of];
      (destruct (Z.eq_dec (m_id m) id) as [->|Hne];
       [ rewrite Z.eqb_refl; cbn [length count_occ]; destruct (Z.eq_dec id id); [|contradiction]; rewrite IH by assumption; reflexivity
       | assert (Z.eqb (m_id m) id = false) as -> by (apply Z.eqb_neq; assumption);
         cbn [count_occ]; destruct (Z.eq_dec (m_id m) id); [contradiction|]; rewrite IH by assumption; reflexivity ]).
Qed.

Lemma spec_no_outcome_without_expectation c id : forall ms off,
  outcomes_of id (spec_async c [] ms off) = 0%nat.
Proof. induction ms as [|m mr IH]; intro off; cbn; auto. apply IH. Qed.

(* exactly one terminal event per message, none for anything not submitted *)
Theorem exactly_one_outcome c es ms id :
  all_visible c -> (length ms <= length es)%nat -> NoDup (map m_id ms) ->
  outcomes_of id (async_history c es ms) = if in_dec Z.eq_dec id (map m_id ms) then 1%nat else 0%nat.
Proof.
  intros Hv Hl Hnd. rewrite async_refines_spec, spec_outcomes by assumption.
  destruct (in_dec Z.eq_dec id (map m_id ms)) as [Hin|Hnin].
  - apply NoDup_count_occ' ; assumption.
  - apply count_occ_not_In; assumption.
Qed.

(* offsets of successes are last+1, last+2, ... *)
Fixpoint succ_offsets (evs : list event) : list Z :=
  match evs with
  | [] => []
  | EvSucc _ _ o :: r => o :: succ_offsets r
  | _ :: r => succ_offsets r
  end.

Lemma succ_offsets_app a b : succ_offsets (a ++ b) = succ_offsets a ++ succ_offsets b.
Proof. induction a as [|[| |] a IH]; cbn; auto. rewrite IH. reflexivity. Qed.
Lemma succ_offsets_reports rs : succ_offsets (map EvReport rs) = [].
Proof. induction rs; cbn; auto. Qed.

Fixpoint consecutive_from (o : Z) (l : list Z) : Prop :=
  match l with [] => True | x :: r => x = o + 1 /\ consecutive_from (o + 1) r end.

Lemma spec_offsets c : ret_succ c = true -> forall ms es off,
  consecutive_from off (succ_offsets (spec_async c es ms off)).
Proof.
  intros Hs. induction ms as [|m mr IH]; intros es off.
  - cbn. destruct es; cbn; auto.
  - destruct es as [|e er]; cbn [spec_async].
    + cbn. apply IH.
    + rewrite succ_offsets_app, succ_offsets_reports. cbn [app].
      destruct (scripted e m) as [p|x] eqn:Es.
      * assert (visible c e m = true) as ->.
        { unfold scripted in Es. unfold visible. destruct (m_pres m); [|discriminate].
          destruct (e_chk e); try discriminate; destruct (e_res e); try discriminate; assumption. }
        cbn. split; [reflexivity | apply IH].
      * destruct (visible c e m); cbn; apply IH.
Qed.

Theorem offsets_increase c es ms : ret_succ c = true ->
  consecutive_from 0 (succ_offsets (async_history c es ms)).
Proof. intro H. rewrite async_refines_spec. apply spec_offsets; assumption. Qed.

(* the reporter is called for, and only for, the deviations *)
Fixpoint reports (evs : list event) : list report :=
  match evs with [] => [] | EvReport r :: t => r :: reports t | _ :: t => reports t end.
Lemma reports_app a b : reports (a ++ b) = reports a ++ reports b.
Proof. induction a as [|[| |] a IH]; cbn; auto. rewrite IH; reflexivity. Qed.
Lemma reports_map rs : reports (map EvReport rs) = rs.
Proof. induction rs; cbn; congruence. Qed.

Fixpoint spec_reports (es : list expectation) (ms : list msg) : list report :=
  match ms with
  | [] => match es with [] => [] | _ => [RepLeftOver (Z.of_nat (length es))] end
  | m :: mr => match es with
               | [] => RepNoExpectation :: spec_reports [] mr
               | e :: er => deviation (Some e) m ++ spec_reports er mr
               end
  end.

Lemma spec_reports_ok c : forall ms es off, reports (spec_async c es ms off) = spec_reports es ms.
Proof.
  induction ms as [|m mr IH]; intros es off.
  - destruct es; reflexivity.
  - destruct es as [|e er]; cbn [spec_async spec_reports].
    + cbn. f_equal. apply IH.
    + rewrite reports_app, reports_map. f_equal.
      destruct (scripted e m); destruct (visible c e m); cbn; apply IH.
Qed.

Theorem reporter_exact c es ms : reports (async_history c es ms) = spec_reports es ms.
Proof. rewrite async_refines_spec. apply spec_reports_ok. Qed.

(* ---------- sync mock ---------- *)
Definition sync_expected (s : st) (m : msg) : sret :=
  match exps s with
  | [] => SErr err_out_of_expectations
  | e :: _ => match scripted e m with OSucc p => SOk 0 (last s + 1) p | OErr x => SErr x end
  end.

Theorem sync_returns_scripted s m :
  snd (fst (step_sync s m)) = sync_expected s m /\
  snd (step_sync s m) = deviation (hd_error (exps s)) m.
Proof.
  unfold step_sync, sync_expected, scripted, deviation. destruct (exps s) as [|e es]; cbn; auto.
  destruct (m_pres m); cbn; auto. destruct (e_chk e); destruct (e_res e); cbn; auto.
Qed.

(* non-vacuity: a script exercising every branch *)
Example c20_example :
  let c := {| ret_succ := true; ret_err := true |} in
  let es := [ {| e_res := RSucc; e_chk := CNone |}; {| e_res := RSucc; e_chk := CFail 7 |};
              {| e_res := RFail 9; e_chk := CPass |}; {| e_res := RSucc; e_chk := CPass |} ] in
  let ms := [ {| m_id := 1; m_pres := POk 3 |}; {| m_id := 2; m_pres := POk 0 |};
              {| m_id := 3; m_pres := POk 1 |}; {| m_id := 4; m_pres := PErr 5 |}; {| m_id := 5; m_pres := POk 2 |} ] in
  async_history c es ms =
    [EvSucc 1 3 1; EvReport RepChecker; EvErr 2 7; EvErr 3 9; EvReport RepPartitioner; EvErr 4 5; EvReport RepNoExpectation].
Proof. vm_compute. reflexivity. Qed.
