(* C20 — correspondence: the harness (go/harness/cmd/c20corr) writes observed behaviour of
   sarama/mocks as [acase]/[scase] values; these functions re-run the model and compare
   projected observables (successes in order, errors in order, reporter calls in order,
   partition counts offered to the partitioner). *)
From Coq Require Import List ZArith Bool.
From SV Require Import Base.Corr C20.Model.
Import ListNotations.
Open Scope Z_scope.

Definition report_eq_dec : forall a b : report, {a = b} + {a <> b}.
Proof. decide equality; apply Z.eq_dec. Defined.
Definition report_eqb a b := if report_eq_dec a b then true else false.

Fixpoint lookup (k : Z) (l : list (Z * Z)) : option Z :=
  match l with [] => None | (k', v) :: r => if Z.eqb k k' then Some v else lookup k r end.
(* TopicConfig.partitions *)
Definition partitions_for (def : Z) (over : list (Z * Z)) (topic : Z) : Z :=
  tc_partitions {| tc_def := def; tc_over := over |} topic.

Definition z3_eqb (a b : Z * Z * Z) := let '(a1, a2, a3) := a in let '(b1, b2, b3) := b in
  Z.eqb a1 b1 && Z.eqb a2 b2 && Z.eqb a3 b3.
Definition z2_eqb (a b : Z * Z) := Z.eqb (fst a) (fst b) && Z.eqb (snd a) (snd b).

Fixpoint proj_succ (evs : list event) : list (Z * Z * Z) :=
  match evs with [] => [] | EvSucc i p o :: r => (i, p, o) :: proj_succ r | _ :: r => proj_succ r end.
Fixpoint proj_errs (evs : list event) : list (Z * Z) :=
  match evs with [] => [] | EvErr i e :: r => (i, e) :: proj_errs r | _ :: r => proj_errs r end.
Fixpoint proj_reports (evs : list event) : list report :=
  match evs with [] => [] | EvReport x :: r => x :: proj_reports r | _ :: r => proj_reports r end.

Fixpoint proj_checks (evs : list event) : list (Z * Z) :=
  match evs with [] => [] | EvCheck i p :: r => (i, p) :: proj_checks r | _ :: r => proj_checks r end.

(* (Partition, Offset) of every submitted message after Close (the harness initialises them to -7 / -9):
   Partition is written for a message that found an expectation and whose partitioner call succeeded,
   Offset only when the message is delivered on Successes() *)
Fixpoint lookup_succ (id : Z) (l : list (Z * Z * Z)) : Z :=
  match l with [] => -9 | (i, _, o) :: r => if Z.eqb i id then o else lookup_succ id r end.
Fixpoint final_expected (nexp : nat) (ms : list (Z * msg)) (succ : list (Z * Z * Z)) : list (Z * Z) :=
  match ms with
  | [] => []
  | (_, m) :: r =>
    (match nexp, m_pres m with S _, POk p => p | _, _ => -7 end, lookup_succ (m_id m) succ)
    :: final_expected (pred nexp) r succ
  end.

Record acase := {
  ac_cfg : cfg; ac_sd : shutdown; ac_tc : list cfgop;   (* what was done to the TopicConfig before producing *)
  ac_exps : list expectation; ac_msgs : list (Z * msg);
  ac_succ : list (Z * Z * Z); ac_errs : list (Z * Z); ac_reports : list report;
  ac_np : list (Z * Z * Z);   (* partitioner log: (message id, partition count offered, topic the instance was constructed for) *)
  ac_ctor : list Z;           (* topics config.Producer.Partitioner was called with, in call order *)
  ac_checks : list (Z * Z);   (* checker calls: (message id, msg.Partition seen by the checker) *)
  ac_final : list (Z * Z) }.  (* (Partition, Offset) of each message of ac_msgs after Close *)

(* the partitioner is consulted once per message that finds an expectation, with the configured count.
   [ac_msgs] is the arrival order on the input channel (with two senders: as consumed by the mock). *)
Fixpoint np_expected (def : Z) (over : list (Z * Z)) (nexp : nat) (ms : list (Z * msg)) : list (Z * Z * Z) :=
  match ms, nexp with
  | (t, m) :: r, S n => (m_id m, partitions_for def over t, t) :: np_expected def over n r
  | _, _ => []
  end.

(* one partitioner per topic, constructed when the first message of that topic is handled *)
Fixpoint first_occ (seen : list Z) (l : list Z) : list Z :=
  match l with
  | [] => []
  | x :: r => if existsb (Z.eqb x) seen then first_occ seen r else x :: first_occ (x :: seen) r
  end.

Definition ok_async (a : acase) : bool :=
  let h := async_history_sd (ac_cfg a) (ac_sd a) (ac_exps a) (map snd (ac_msgs a)) in
  list_eqb z3_eqb (proj_succ h) (ac_succ a) && list_eqb z2_eqb (proj_errs h) (ac_errs a) &&
  list_eqb report_eqb (proj_reports h) (ac_reports a) &&
  list_eqb z3_eqb (np_expected (tc_def (tc_run (ac_tc a))) (tc_over (tc_run (ac_tc a))) (length (ac_exps a)) (ac_msgs a)) (ac_np a) &&
  (* the async mock looks the partitioner up before it looks for an expectation: every arriving message counts *)
  list_eqb Z.eqb (first_occ [] (map fst (ac_msgs a))) (ac_ctor a) &&
  list_eqb z2_eqb (proj_checks h) (ac_checks a) &&
  list_eqb z2_eqb (final_expected (length (ac_exps a)) (ac_msgs a) (proj_succ h)) (ac_final a).
Definition mismatches_async := mismatches ok_async.

(* ---- sync mock: a script of SendMessage / SendMessages calls, then Close ---- *)
Inductive ccall := KSend (t : Z) (m : msg) | KBatch (l : list (Z * msg)).   (* t: topic index *)

Definition call_of (c : ccall) : call :=
  match c with KSend _ m => CSend m | KBatch l => CBatch (map snd l) end.
Definition topics_of (c : ccall) : list (Z * Z) :=            (* message id -> topic *)
  match c with KSend t m => [(m_id m, t)] | KBatch l => map (fun x => (m_id (snd x), fst x)) l end.

(* per call: returned partition, returned offset, error id (0 = nil), (Partition, Offset) of every message
   after the call (the harness initialises them to -7 / -9), reporter calls during the call.
   SendMessages returns only an error: the harness writes (0, 0, 0) for nil and (-1, -1, e) otherwise. *)
Definition sobs := (Z * Z * Z * list (Z * Z) * list report * list (Z * Z))%type.   (* last: checker calls (id, Partition seen) *)

Record scase := {
  sc_tc : list cfgop;
  sc_exps : list expectation; sc_calls : list ccall;
  sc_rets : list sobs;
  sc_close : list report;
  sc_np : list (Z * Z * Z);   (* partitioner log: (message id, partition count offered, topic of the instance) in call order *)
  sc_ctor : list Z }.

Definition touch_obs (t : touch) : Z * Z :=
  (match fst t with Some p => p | None => -7 end, match snd t with Some o => o | None => -9 end).

Definition callres_obs (r : callres) : sobs :=
  match r_ret r with
  | SOk retp off => (retp, off, 0, map touch_obs (r_touch r), r_rep r, r_checked r)
  | SErr e => (-1, -1, e, map touch_obs (r_touch r), r_rep r, r_checked r)
  end.

Definition sobs_eqb (a b : sobs) : bool :=
  let '(p, o, e, ts, rp, ck) := a in let '(p', o', e', ts', rp', ck') := b in
  Z.eqb p p' && Z.eqb o o' && Z.eqb e e' && list_eqb z2_eqb ts ts' && list_eqb report_eqb rp rp' && list_eqb z2_eqb ck ck'.

(* the partitioner is consulted for exactly the messages the model says, with the configured count of their topic *)
Definition np_of (def : Z) (over : list (Z * Z)) (tops : list (Z * Z)) (rs : list callres) : list (Z * Z * Z) :=
  map (fun id => match lookup id tops with Some t => (id, partitions_for def over t, t) | None => (id, -1, -1) end)
      (flat_map r_asked rs).

Definition ok_sync (a : scase) : bool :=
  let '(s, outs) := run_calls (init (sc_exps a)) (map call_of (sc_calls a)) in
  list_eqb sobs_eqb (map callres_obs outs) (sc_rets a) &&
  list_eqb report_eqb (sync_close s) (sc_close a) &&
  let np := np_of (tc_def (tc_run (sc_tc a))) (tc_over (tc_run (sc_tc a))) (flat_map topics_of (sc_calls a)) outs in
  list_eqb z3_eqb np (sc_np a) &&
  (* the sync mock constructs a topic's partitioner only for a message that found an expectation *)
  list_eqb Z.eqb (first_occ [] (map snd np)) (sc_ctor a).
Definition mismatches_sync := mismatches ok_sync.
