(* C20 — correspondence: the harness (go/harness/cmd/c20corr) writes observed behaviour of
   sarama/mocks as [acase]/[scase] values; these functions re-run the model and compare
   projected observables (successes in order, errors in order, reporter calls in order,
   partition counts offered to the partitioner). *)
From Coq Require Import List ZArith Bool.
From SV Require Import Base.Corr C20.Model.
Import ListNotations.
Open Scope Z_scope.

Definition report_eq_dec : forall a b : report, {a = b} + {a <> b}.
Proof. decide equality; apply Z.eq_dec. Defined.
Definition report_eqb a b := if report_eq_dec a b then true else false.

Fixpoint lookup (k : Z) (l : list (Z * Z)) : option Z :=
  match l with [] => None | (k', v) :: r => if Z.eqb k k' then Some v else lookup k r end.
(* TopicConfig.partitions *)
Definition partitions_for (def : Z) (over : list (Z * Z)) (topic : Z) : Z :=
  match lookup topic over with Some n => n | None => def end.

Definition z3_eqb (a b : Z * Z * Z) := let '(a1, a2, a3) := a in let '(b1, b2, b3) := b in
  Z.eqb a1 b1 && Z.eqb a2 b2 && Z.eqb a3 b3.
Definition z2_eqb (a b : Z * Z) := Z.eqb (fst a) (fst b) && Z.eqb (snd a) (snd b).

Fixpoint proj_succ (evs : list event) : list (Z * Z * Z) :=
  match evs with [] => [] | EvSucc i p o :: r => (i, p, o) :: proj_succ r | _ :: r => proj_succ r end.
Fixpoint proj_errs (evs : list event) : list (Z * Z) :=
  match evs with [] => [] | EvErr i e :: r => (i, e) :: proj_errs r | _ :: r => proj_errs r end.
Fixpoint proj_reports (evs : list event) : list report :=
  match evs with [] => [] | EvReport x :: r => x :: proj_reports r | _ :: r => proj_reports r end.

Record acase := {
  ac_cfg : cfg; ac_def : Z; ac_over : list (Z * Z);
  ac_exps : list expectation; ac_msgs : list (Z * msg);
  ac_succ : list (Z * Z * Z); ac_errs : list (Z * Z); ac_reports : list report; ac_np : list Z }.

(* the partitioner is consulted once per message that finds an expectation, with the configured count *)
Fixpoint np_expected (def : Z) (over : list (Z * Z)) (nexp : nat) (ms : list (Z * msg)) : list Z :=
  match ms, nexp with
  | (t, _) :: r, S n => partitions_for def over t :: np_expected def over n r
  | _, _ => []
  end.

Definition ok_async (a : acase) : bool :=
  let h := async_history (ac_cfg a) (ac_exps a) (map snd (ac_msgs a)) in
  list_eqb z3_eqb (proj_succ h) (ac_succ a) && list_eqb z2_eqb (proj_errs h) (ac_errs a) &&
  list_eqb report_eqb (proj_reports h) (ac_reports a) &&
  list_eqb Z.eqb (np_expected (ac_def a) (ac_over a) (length (ac_exps a)) (ac_msgs a)) (ac_np a).
Definition mismatches_async := mismatches ok_async.

Record scase := {
  sc_def : Z; sc_over : list (Z * Z);
  sc_exps : list expectation; sc_msgs : list (Z * msg);
  sc_rets : list (Z * Z * Z * Z * list report);   (* returned partition, offset, msg.Partition after, error id (0 = nil), reports *)
  sc_close : list report; sc_np : list Z }.

Definition sret_obs (r : sret) (rp : list report) : Z * Z * Z * Z * list report :=
  match r with
  | SOk retp off msgp => (retp, off, msgp, 0, rp)
  | SErr e => (-1, -1, -7, e, rp)          (* -7: harness initialises msg.Partition to -7 *)
  end.

(* msg.Partition is assigned before the checker runs: on a checker failure or scripted error it holds the choice *)
Definition sync_obs_eqb (m : msg) (mo : sret * list report) (o : Z * Z * Z * Z * list report) : bool :=
  let '(retp, off, msgp, e, rp) := o in
  let '(retp', off', msgp', e', rp') := sret_obs (fst mo) (snd mo) in
  Z.eqb retp retp' && Z.eqb off off' && Z.eqb e e' && list_eqb report_eqb rp rp' &&
  match fst mo, m_pres m with
  | SOk _ _ p, _ => Z.eqb msgp p
  | SErr _, POk p => (Z.eqb msgp p || Z.eqb msgp (-7))
  | SErr _, PErr _ => Z.eqb msgp (-7)
  end.

Fixpoint zip_all {A B C} (f : A -> B -> C -> bool) (a : list A) (b : list B) (c : list C) : bool :=
  match a, b, c with
  | [], [], [] => true
  | x :: a', y :: b', z :: c' => f x y z && zip_all f a' b' c'
  | _, _, _ => false
  end.

Definition ok_sync (a : scase) : bool :=
  let ms := map snd (sc_msgs a) in
  let '(s, outs) := run_sync (init (sc_exps a)) ms in
  zip_all sync_obs_eqb ms outs (sc_rets a) &&
  list_eqb report_eqb (proj_reports (close_events s)) (sc_close a) &&
  list_eqb Z.eqb (np_expected (sc_def a) (sc_over a) (length (sc_exps a)) (sc_msgs a)) (sc_np a).
Definition mismatches_sync := mismatches ok_sync.
