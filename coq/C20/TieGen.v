(* C20 — tie of the hand-written mock models to the definitions that go/decgen regenerates from mocks/*.go on
   every check (golden: coq/Gen/DecC20.v; the check proves regenerated = golden, these lemmas prove golden = model).
   The generated functions work on state tuples and scripts (streams) of oracle results; the projections below
   turn the model's records into those:
     expectation      |-> (has a check function, result)            [gexp]
     m_pres           |-> what the partitioner returns               [gpres]
     e_chk            |-> what the check function returns            [gchk]
     reports/touches  |-> the action list (Errorf / msg.Partition = / msg.Offset =)   [rep_act, touch_acts]
   Offsets are int64 in Go: the lemmas assume the offsets handed out stay below 2^63 ([off_ok]). *)
From Coq Require Import List ZArith Bool String Lia.
From SV Require Import Gen.GoInt Gen.DecTypes Gen.DecTypes2.
From SV Require Gen.DecC20.
From SV Require Import C20.Model C20.ConsumerModel.
Import ListNotations.
Open Scope Z_scope.

(* ---------- projections: producers ---------- *)
Definition has_chk (e : expectation) : bool := match e_chk e with CNone => false | _ => true end.
Definition gexp (e : expectation) : bool * gerr :=
  (has_chk e, match e_res e with RSucc => ENil | RFail x => EOther x end).
Definition gpres (m : msg) : Z * gerr := match m_pres m with POk p => (p, ENil) | PErr x => (0, EOther x) end.
Definition gchk (e : expectation) : gerr := match e_chk e with CFail x => EOther x | _ => ENil end.

Definition rep_act (r : report) : mk_action :=
  match r with
  | RepNoExpectation => MK_errorf "No more expectation set on this mock producer to handle the input message."
  | RepPartitioner => MK_errorf "Partitioner returned an error: %s"
  | RepChecker => MK_errorf "Check function returned an error: %s"
  | RepLeftOver _ => MK_errorf "Expected to exhaust all expectations, but %d are left."
  | RepInsufficient => MK_errorf "Insufficient expectations set on this mock producer to handle the input messages."
  end.
Definition touch_acts (t : touch) : list mk_action :=
  match fst t with Some p => [MK_set_partition p] | None => [] end ++
  match snd t with Some o => [MK_set_offset o] | None => [] end.
(* all writes to the messages, then the (at most one) report: a report ends the call *)
Definition res_acts (r : callres) : list mk_action := flat_map touch_acts (r_touch r) ++ map rep_act (r_rep r).

(* model error ids -> Go errors: -1 is errOutOfExpectations, anything else an error value chosen by the test *)
Definition gerr_id (g : gerr) : Z := match g with ENil => 0 | EOther x => x | EVar _ => err_out_of_expectations | _ => -999 end.
Definition gsret (p o : Z) (g : gerr) : sret := if gerr_eqb g ENil then SOk p o else SErr (gerr_id g).
(* SendMessages returns only an error: the model writes SOk 0 0 for nil *)
Definition gbret (g : gerr) : sret := gsret 0 0 g.

Definition off_ok (lo : Z) (n : nat) : Prop := -9223372036854775808 <= lo /\ lo + Z.of_nat n < 9223372036854775808.

(* the check-function results the batch would consume if it ran to the end *)
Fixpoint chk_stream (es : list expectation) (ms : list msg) : list gerr :=
  match es, ms with
  | e :: er, m :: mr =>
    (match m_pres m with POk _ => if has_chk e then [gchk e] else [] | PErr _ => [] end) ++ chk_stream er mr
  | _, _ => []
  end.

(* ---------- SendMessage ---------- *)
Theorem tie_sync_send_message s m prs crs :
  off_ok (last s) 1 ->
  let '(es', lo', prs', crs', acts, p, o, g) :=
      DecC20.sync_send_message (map gexp (exps s)) (last s) (gpres m :: prs) (chk_stream (exps s) [m] ++ crs) in
  let '(s', r) := step_sync s m in
  es' = map gexp (exps s') /\ lo' = last s' /\
  prs' = skipn (List.length (r_asked r)) (gpres m :: prs) /\
  crs' = skipn (List.length (r_checked r)) (chk_stream (exps s) [m] ++ crs) /\
  acts = res_acts r /\ gsret p o g = r_ret r.
Proof.
  intros [H1 H2]. destruct s as [[|e es] lo]; cbn [exps last] in *.
  - cbn. repeat split.
  - unfold DecC20.sync_send_message, step_sync, apply1, res_acts, touch_of, gpres, gexp, gchk, has_chk, gsret, checked_sync.
    cbn [exps last map zlen List.length chk_stream]. unfold has_chk, gchk. replace (Z.of_nat (S (List.length (map gexp es))) >? 0) with true by (symmetry; apply Z.gtb_lt; lia).
    cbn [hd skipn Z.to_nat Pos.to_nat Pos.iter_op Nat.add fst snd pop].
    destruct (m_pres m) as [p|x]; destruct (e_chk e) as [| |y]; destruct (e_res e) as [|z];
      cbn; change (Pos.to_nat 1) with 1%nat; cbn [skipn]; rewrite ?(wrap64_small (lo + 1)) by lia; repeat split; reflexivity.
Qed.

(* ---------- SendMessages ---------- *)
Definition berr (o : option Z) : gerr := match o with None => ENil | Some x => EOther x end.

Lemma tie_batch_loop : forall es ms lo prs crs acts ci E n cexp,
  List.length ms = List.length es -> off_ok lo (List.length es) ->
  DecC20.sync_send_messages_loop1 (map gexp es) ci E lo (map gpres ms ++ prs) (chk_stream es ms ++ crs) n acts cexp =
  let r := batch_loop lo es ms in
  (E, b_last r, skipn (List.length (b_asked r)) (map gpres ms ++ prs),
   skipn (List.length (b_checked r)) (chk_stream es ms ++ crs),
   acts ++ flat_map touch_acts (b_touch r) ++ map rep_act (b_rep r), berr (b_err r)).
Proof.
  induction es as [|e er IH]; intros [|m mr] lo prs crs acts ci E n cexp Hl [H1 H2]; try discriminate Hl.
  - cbn. rewrite app_nil_r. reflexivity.
  - assert (Hl' : List.length mr = List.length er) by (cbn in Hl; lia).
    assert (Hok : off_ok (lo + 1) (List.length er)) by (split; cbn [List.length] in H2; lia).
    assert (Hw : wrap64 (lo + 1) = lo + 1) by (apply wrap64_small; cbn [List.length] in H2; lia).
    cbn [map DecC20.sync_send_messages_loop1 batch_loop chk_stream app].
    change (gexp e) with (has_chk e, match e_res e with RSucc => ENil | RFail x => EOther x end).
    change (gpres m) with (match m_pres m with POk p => (p, ENil) | PErr x => (0, EOther x) end).
    unfold apply1, has_chk, gchk, checked_sync, touch_of, pop.
    assert (Hu : forall l : list msg, flat_map touch_acts (map (fun _ : msg => untouched) l) = [])
      by (induction l; cbn; auto).
    destruct (m_pres m) as [p|x]; destruct (e_chk e) as [| |y]; destruct (e_res e) as [|z];
      cbn [fst snd negb gerr_eqb a_err a_rep a_part a_off a_last a_chk b_last b_err b_rep b_touch b_asked b_checked
           app List.length skipn flat_map touch_acts map rep_act berr];
      rewrite ?Hw, ?Hu, ?app_nil_r; rewrite <- ?app_assoc; cbn [app]; try reflexivity;
      rewrite IH by assumption; cbn zeta; rewrite <- ?app_assoc; reflexivity.
Qed.

Lemma map_gexp_firstn n es : map gexp (firstn n es) = firstn n (map gexp es).
Proof. symmetry. apply firstn_map. Qed.
Lemma map_gexp_skipn n es : map gexp (skipn n es) = skipn n (map gexp es).
Proof. symmetry. apply skipn_map. Qed.

Theorem tie_sync_send_messages s ms prs crs :
  off_ok (last s) (List.length ms) ->
  let n := List.length ms in
  let pstream := map gpres ms ++ prs in
  let cstream := chk_stream (firstn n (exps s)) ms ++ crs in
  let '(es', lo', prs', crs', acts, g) :=
      DecC20.sync_send_messages (map gexp (exps s)) (last s) pstream cstream (Z.of_nat n) in
  let '(s', r) := step_batch s ms in
  es' = map gexp (exps s') /\ lo' = last s' /\
  prs' = skipn (List.length (r_asked r)) pstream /\
  crs' = skipn (List.length (r_checked r)) cstream /\
  acts = res_acts r /\ gbret g = r_ret r.
Proof.
  intros Hok. cbn zeta. unfold DecC20.sync_send_messages, step_batch, zlen. rewrite map_length.
  destruct (List.length ms <=? List.length (exps s))%nat eqn:Hb.
  - apply Nat.leb_le in Hb.
    replace (Z.of_nat (List.length (exps s)) >=? Z.of_nat (List.length ms)) with true by (symmetry; apply Z.geb_le; lia).
    cbn [Z.to_nat skipn]. rewrite Z.sub_0_r, Nat2Z.id, <- map_gexp_firstn, <- map_gexp_skipn.
    rewrite tie_batch_loop.
    2: { rewrite firstn_length, Nat.min_l by lia. reflexivity. }
    2: { rewrite firstn_length, Nat.min_l by lia. exact Hok. }
    cbn zeta. cbn [exps last r_asked r_checked r_ret r_rep r_touch]. unfold res_acts. cbn [r_touch r_rep app].
    repeat split. unfold gbret, gsret, berr. destruct (b_err _); reflexivity.
  - apply Nat.leb_gt in Hb.
    replace (Z.of_nat (List.length (exps s)) >=? Z.of_nat (List.length ms)) with false by (symmetry; rewrite Z.geb_leb; apply Z.leb_gt; lia).
    unfold res_acts. cbn [r_asked r_checked r_ret r_rep r_touch List.length skipn map rep_act].
    assert (Hu : forall l : list msg, flat_map touch_acts (map (fun _ : msg => untouched) l) = [])
      by (induction l; cbn; auto).
    rewrite Hu. destruct s; repeat split.
Qed.

(* ---------- Consumer.ConsumePartition ---------- *)
Definition crep_act (r : crep) : mk_action :=
  match r with
  | CRNoExp _ => MK_errorf "No expectations set for %s/%d"
  | CROffset _ _ _ => MK_errorf "Unexpected offset when calling ConsumePartition for %s/%d. Expected %d, got %d."
  | CRNotStarted _ => MK_errorf "Expectations set on %s/%d, but no partition consumer was started."
  | CRErrsLeft _ _ => MK_errorf "Expected the errors channel for %s/%d to be drained on close, but found %d errors."
  | CRMsgsLeft _ _ => MK_errorf "Expected the messages channel for %s/%d to be drained on close, but found %d messages."
  | CRTopicsNoMeta => MK_errorf "Unexpected call to Topics. Initialize the mock's topic metadata with SetTopicMetadata."
  | CRPartsNoMeta => MK_errorf "Unexpected call to Partitions. Initialize the mock's topic metadata with SetTopicMetadata."
  end.

(* what ConsumePartition returns, as the model's observation *)
Definition consume_obs (pc : option unit) (g : gerr) : cobs :=
  match pc, g with
  | Some _, ENil => OConsume 0
  | None, EVar _ => OConsume (-1)
  | None, EConfig _ => OConsume (-3)
  | _, _ => OConsume (-999)
  end.

Definition consumed_of (s : cst) (k : key) : bool :=
  match ConsumerModel.find k (c_pcs s) with Some pc => pc_consumed pc | None => false end.

(* the two map lookups of ConsumePartition: c.partitionConsumers[topic] and [topic][partition] *)
Definition lookups_agree (s : cst) (k : key) (topic_pcs pc_entry : option unit) : Prop :=
  match ConsumerModel.find k (c_pcs s) with
  | Some _ => topic_pcs = Some tt /\ pc_entry = Some tt
  | None => topic_pcs = None \/ pc_entry = None
  end.

Lemma find_upd_same k v l : ConsumerModel.find k (upd k v l) =
  match ConsumerModel.find k l with Some _ => Some v | None => None end.
Proof.
  induction l as [|[k' v'] r IH]; cbn; [reflexivity|].
  destruct (key_eqb k k') eqn:E; cbn; rewrite E; [reflexivity | exact IH].
Qed.

Theorem tie_consume_partition s k off topic topic_pcs pc_entry :
  lookups_agree s k topic_pcs pc_entry ->
  let consumed := consumed_of s k in
  let expected := match ConsumerModel.find k (c_pcs s) with Some pc => pc_off pc | None => 0 end in
  let '(consumed', acts, pc, g) := DecC20.consume_partition consumed topic (snd k) off topic_pcs pc_entry expected in
  let '(s', e) := cstep s (AConsume k off) in
  consumed' = consumed_of s' k /\ acts = map crep_act (t_rep e) /\ consume_obs pc g = t_obs e.
Proof.
  unfold lookups_agree, consumed_of, DecC20.consume_partition, cstep, set_pc. 
  destruct (ConsumerModel.find k (c_pcs s)) as [pc|] eqn:F.
  - intros [-> ->]. cbn [is_some negb orb]. destruct (pc_consumed pc) eqn:C.
    + rewrite F, C. cbn. auto.
    + cbn [c_pcs]. rewrite find_upd_same, F. cbn [pc_consumed entry t_rep t_obs].
      change (-1000) with any_offset.
      destruct (negb (pc_off pc =? any_offset) && negb (pc_off pc =? off)); cbn; auto.
  - intros [-> | ->]; cbn [is_some negb orb]; rewrite ?orb_true_r; rewrite F; cbn; auto.
Qed.

(* non-vacuity: the projections on a script with a checker failure inside a batch *)
Example c20_tie_example :
  let es := [ {| e_res := RSucc; e_chk := CPass |}; {| e_res := RSucc; e_chk := CFail 7 |}; {| e_res := RSucc; e_chk := CNone |} ] in
  let ms := [ {| m_id := 1; m_pres := POk 4 |}; {| m_id := 2; m_pres := POk 5 |} ] in
  off_ok 0 2 /\
  DecC20.sync_send_messages (map gexp es) 0 (map gpres ms) (chk_stream (firstn 2 es) ms) 2 =
    ([(false, ENil)], 1, [], [],
     [MK_set_partition 4; MK_set_offset 1; MK_set_partition 5; MK_errorf "Check function returned an error: %s"], EOther 7).
Proof. split; [split; cbn; lia | vm_compute; reflexivity]. Qed.
