(* C20 — correspondence for the mock consumer: the harness (go/harness/cmd/c20corr, consumer.go) executes a
   script of actions on sarama/mocks.Consumer from one goroutine and records, per action, the observation
   (return value) and the reporter calls made during it.  [ok_consumer] re-runs the model on the script and
   compares both, action by action.  Not compared (not observable): what Close drains and throws away.
   Canonicalised by the harness: Topics() sorted; HighWaterMarks() and the reporter calls made during
   Consumer.Close ordered by registration order of the partition (Go map iteration order is random). *)
From Coq Require Import List ZArith Bool.
From SV Require Import Base.Corr C20.ConsumerModel.
Import ListNotations.
Open Scope Z_scope.

Definition key_eq_dec : forall a b : key, {a = b} + {a <> b}.
Proof. decide equality; apply Z.eq_dec. Defined.
Definition cobs_eq_dec : forall a b : cobs, {a = b} + {a <> b}.
Proof. decide equality; try apply Z.eq_dec; try (apply list_eq_dec; try apply Z.eq_dec).
  decide equality; try apply Z.eq_dec. apply key_eq_dec. Defined.
Definition crep_eq_dec : forall a b : crep, {a = b} + {a <> b}.
Proof. decide equality; try apply Z.eq_dec; apply key_eq_dec. Defined.

Definition entry_eqb (e : centry) (o : cobs * list crep) : bool :=
  (if cobs_eq_dec (t_obs e) (fst o) then true else false) &&
  (if list_eq_dec crep_eq_dec (t_rep e) (snd o) then true else false).

Record ccase := { cc_acts : list cact; cc_obs : list (cobs * list crep) }.

Fixpoint all2 {A B} (f : A -> B -> bool) (a : list A) (b : list B) : bool :=
  match a, b with
  | [], [] => true
  | x :: a', y :: b' => f x y && all2 f a' b'
  | _, _ => false
  end.

Definition ok_consumer (c : ccase) : bool := all2 entry_eqb (snd (crun cinit (cc_acts c))) (cc_obs c).
Definition mismatches_consumer := mismatches ok_consumer.
