(* C20 — executable model of sarama/mocks Consumer / PartitionConsumer (mocks/consumer.go).
   No proofs here. Topics, message ids and errors are integers chosen by the harness.
   The application drives the mock through a script of actions; every action yields one
   observation (its return value), the reporter calls it caused, and the messages/errors the
   mock threw away while doing it (Close drains the channels). *)
From Coq Require Import List ZArith Bool.
Import ListNotations.
Open Scope Z_scope.

Definition key := (Z * Z)%type.                      (* topic, partition *)
Definition key_eqb (a b : key) : bool := Z.eqb (fst a) (fst b) && Z.eqb (snd a) (snd b).
Definition any_offset : Z := -1000.                   (* mocks.AnyOffset *)

Record pcst := {
  pc_off : Z;                    (* offset given to ExpectConsumePartition *)
  pc_hwm : Z;                    (* highWaterMarkOffset field *)
  pc_msgs : list (Z * Z);        (* messages channel: (id, Offset) *)
  pc_errs : list Z;              (* errors channel *)
  pc_consumed : bool;
  pc_closed : bool;              (* channels closed (singleClose done) *)
  pc_mdrain : bool;              (* messagesShouldBeDrained *)
  pc_edrain : bool }.

Record cst := {
  c_pcs : list (key * pcst);               (* partitionConsumers, in registration order *)
  c_meta : option (list (Z * list Z)) }.   (* metadata; None = nil map *)

Definition cinit : cst := {| c_pcs := []; c_meta := None |}.

Definition new_pc (off : Z) : pcst :=
  {| pc_off := off; pc_hwm := 0; pc_msgs := []; pc_errs := []; pc_consumed := false; pc_closed := false;
     pc_mdrain := false; pc_edrain := false |}.

Fixpoint find (k : key) (l : list (key * pcst)) : option pcst :=
  match l with [] => None | (k', v) :: r => if key_eqb k k' then Some v else find k r end.
Fixpoint upd (k : key) (v : pcst) (l : list (key * pcst)) : list (key * pcst) :=
  match l with [] => [] | (k', v') :: r => if key_eqb k k' then (k', v) :: r else (k', v') :: upd k v r end.

Definition set_pc (s : cst) (k : key) (v : pcst) : cst := {| c_pcs := upd k v (c_pcs s); c_meta := c_meta s |}.

Inductive cact :=
| AExpect (k : key) (off : Z)        (* Consumer.ExpectConsumePartition *)
| AYieldMsg (k : key) (id : Z)       (* PartitionConsumer.YieldMessage *)
| AYieldErr (k : key) (e : Z)        (* YieldError *)
| ADrainM (k : key)                  (* ExpectMessagesDrainedOnClose *)
| ADrainE (k : key)                  (* ExpectErrorsDrainedOnClose *)
| AConsume (k : key) (off : Z)       (* Consumer.ConsumePartition *)
| AReadMsg (k : key)                 (* non-blocking receive on Messages() *)
| AReadErr (k : key)                 (* non-blocking receive on Errors() *)
| AHwm (k : key)                     (* HighWaterMarkOffset() *)
| AClosePC (k : key)                 (* PartitionConsumer.Close *)
| AAsyncClosePC (k : key)            (* PartitionConsumer.AsyncClose *)
| ACloseAll                          (* Consumer.Close *)
| ASetMeta (m : option (list (Z * list Z)))
| ATopics
| APartitions (t : Z)
| AHwms.                             (* Consumer.HighWaterMarks *)

Inductive cobs :=
| ONone                               (* nothing to observe / returned nil *)
| ONoHandle                           (* the application has no *PartitionConsumer for this key: nothing was called *)
| OPanic                              (* send on closed channel *)
| OConsume (r : Z)                    (* 0: returned the registered partition consumer; -1 errOutOfExpectations; -3 ConfigurationError *)
| OMsg (id t p off : Z)
| OErrv (e t p : Z)
| OEmpty                              (* receive would block *)
| OClosed                             (* channel closed and empty *)
| OHwm (v : Z)
| OClose (r : Z) (errs : list Z)      (* 0 nil; -2 errPartitionConsumerNotStarted; 1 ConsumerErrors errs *)
| OTopics (r : Z) (ts : list Z)       (* 0 ok; -4 ErrOutOfBrokers *)
| OParts (r : Z) (ps : list Z)        (* 0 ok; -4 ErrOutOfBrokers; -5 ErrUnknownTopicOrPartition *)
| OHwms (l : list (key * Z)).

Inductive crep :=
| CRNoExp (k : key)                       (* "No expectations set for t/p" *)
| CROffset (k : key) (exp got : Z)        (* "Unexpected offset when calling ConsumePartition ..." *)
| CRNotStarted (k : key)                  (* "Expectations set on t/p, but no partition consumer was started." *)
| CRErrsLeft (k : key) (n : Z)            (* "Expected the errors channel ... drained on close, but found n errors." *)
| CRMsgsLeft (k : key) (n : Z)
| CRTopicsNoMeta                          (* "Unexpected call to Topics. ..." *)
| CRPartsNoMeta.

(* one entry of the history *)
Record centry := {
  t_act : cact; t_obs : cobs; t_rep : list crep;
  t_dropm : list (key * (Z * Z));      (* messages drained and discarded by Close *)
  t_drope : list (key * Z) }.          (* errors drained by Close whose carrier (the return value) Consumer.Close discards *)

Definition entry (a : cact) (o : cobs) (r : list crep) : centry :=
  {| t_act := a; t_obs := o; t_rep := r; t_dropm := []; t_drope := [] |}.

(* PartitionConsumer.Close on a registered partition consumer *)
Definition close_reports (k : key) (pc : pcst) : list crep :=
  if negb (pc_consumed pc) then [CRNotStarted k]
  else (if pc_edrain pc && negb (Nat.eqb (length (pc_errs pc)) 0) then [CRErrsLeft k (Z.of_nat (length (pc_errs pc)))] else []) ++
       (if pc_mdrain pc && negb (Nat.eqb (length (pc_msgs pc)) 0) then [CRMsgsLeft k (Z.of_nat (length (pc_msgs pc)))] else []).

Definition close_pc (pc : pcst) : pcst :=
  if negb (pc_consumed pc) then pc
  else {| pc_off := pc_off pc; pc_hwm := pc_hwm pc; pc_msgs := []; pc_errs := []; pc_consumed := true; pc_closed := true;
          pc_mdrain := pc_mdrain pc; pc_edrain := pc_edrain pc |}.

Definition close_ret (pc : pcst) : cobs :=
  if negb (pc_consumed pc) then OClose (-2) []
  else match pc_errs pc with [] => OClose 0 [] | es => OClose 1 es end.

Definition tag {A} (k : key) (l : list A) : list (key * A) := map (fun x => (k, x)) l.

Definition dropped_msgs (k : key) (pc : pcst) : list (key * (Z * Z)) :=
  if pc_consumed pc then tag k (pc_msgs pc) else [].
Definition dropped_errs (k : key) (pc : pcst) : list (key * Z) :=
  if pc_consumed pc then tag k (pc_errs pc) else [].

Fixpoint close_all (l : list (key * pcst)) : list (key * pcst) :=
  match l with [] => [] | (k, pc) :: r => (k, close_pc pc) :: close_all r end.
Fixpoint close_all_reports (l : list (key * pcst)) : list crep :=
  match l with [] => [] | (k, pc) :: r => close_reports k pc ++ close_all_reports r end.
Fixpoint close_all_dropm (l : list (key * pcst)) : list (key * (Z * Z)) :=
  match l with [] => [] | (k, pc) :: r => dropped_msgs k pc ++ close_all_dropm r end.
Fixpoint close_all_drope (l : list (key * pcst)) : list (key * Z) :=
  match l with [] => [] | (k, pc) :: r => dropped_errs k pc ++ close_all_drope r end.

Fixpoint lookup_meta (t : Z) (m : list (Z * list Z)) : option (list Z) :=
  match m with [] => None | (t', ps) :: r => if Z.eqb t t' then Some ps else lookup_meta t r end.

Fixpoint hwms (l : list (key * pcst)) : list (key * Z) :=
  match l with [] => [] | (k, pc) :: r => (k, pc_hwm pc + 1) :: hwms r end.

(* actions that need the *PartitionConsumer returned by ExpectConsumePartition *)
Definition with_pc (s : cst) (a : cact) (k : key) (f : pcst -> cst * centry) : cst * centry :=
  match find k (c_pcs s) with
  | None => (s, entry a ONoHandle [])
  | Some pc => f pc
  end.

Definition cstep (s : cst) (a : cact) : cst * centry :=
  match a with
  | AExpect k off =>
    match find k (c_pcs s) with
    | Some _ => (s, entry a ONone [])
    | None => ({| c_pcs := c_pcs s ++ [(k, new_pc off)]; c_meta := c_meta s |}, entry a ONone [])
    end
  | AYieldMsg k id => with_pc s a k (fun pc =>
      (* the counter is bumped before the send; a send on the closed channel panics *)
      if pc_closed pc then
        (set_pc s k {| pc_off := pc_off pc; pc_hwm := pc_hwm pc + 1; pc_msgs := pc_msgs pc; pc_errs := pc_errs pc;
                       pc_consumed := pc_consumed pc; pc_closed := true; pc_mdrain := pc_mdrain pc; pc_edrain := pc_edrain pc |},
         entry a OPanic [])
      else
        (set_pc s k {| pc_off := pc_off pc; pc_hwm := pc_hwm pc + 1; pc_msgs := pc_msgs pc ++ [(id, pc_hwm pc + 1)];
                       pc_errs := pc_errs pc; pc_consumed := pc_consumed pc; pc_closed := false;
                       pc_mdrain := pc_mdrain pc; pc_edrain := pc_edrain pc |},
         entry a ONone []))
  | AYieldErr k e => with_pc s a k (fun pc =>
      if pc_closed pc then (s, entry a OPanic [])
      else (set_pc s k {| pc_off := pc_off pc; pc_hwm := pc_hwm pc; pc_msgs := pc_msgs pc; pc_errs := pc_errs pc ++ [e];
                          pc_consumed := pc_consumed pc; pc_closed := false; pc_mdrain := pc_mdrain pc; pc_edrain := pc_edrain pc |},
            entry a ONone []))
  | ADrainM k => with_pc s a k (fun pc =>
      (set_pc s k {| pc_off := pc_off pc; pc_hwm := pc_hwm pc; pc_msgs := pc_msgs pc; pc_errs := pc_errs pc;
                     pc_consumed := pc_consumed pc; pc_closed := pc_closed pc; pc_mdrain := true; pc_edrain := pc_edrain pc |},
       entry a ONone []))
  | ADrainE k => with_pc s a k (fun pc =>
      (set_pc s k {| pc_off := pc_off pc; pc_hwm := pc_hwm pc; pc_msgs := pc_msgs pc; pc_errs := pc_errs pc;
                     pc_consumed := pc_consumed pc; pc_closed := pc_closed pc; pc_mdrain := pc_mdrain pc; pc_edrain := true |},
       entry a ONone []))
  | AConsume k off =>
    match find k (c_pcs s) with
    | None => (s, entry a (OConsume (-1)) [CRNoExp k])
    | Some pc =>
      if pc_consumed pc then (s, entry a (OConsume (-3)) [])
      else
        (set_pc s k {| pc_off := pc_off pc; pc_hwm := pc_hwm pc; pc_msgs := pc_msgs pc; pc_errs := pc_errs pc;
                       pc_consumed := true; pc_closed := pc_closed pc; pc_mdrain := pc_mdrain pc; pc_edrain := pc_edrain pc |},
         entry a (OConsume 0)
           (if negb (Z.eqb (pc_off pc) any_offset) && negb (Z.eqb (pc_off pc) off) then [CROffset k (pc_off pc) off] else []))
    end
  | AReadMsg k => with_pc s a k (fun pc =>
      match pc_msgs pc with
      | (id, o) :: r =>
        (set_pc s k {| pc_off := pc_off pc; pc_hwm := pc_hwm pc; pc_msgs := r; pc_errs := pc_errs pc;
                       pc_consumed := pc_consumed pc; pc_closed := pc_closed pc; pc_mdrain := pc_mdrain pc; pc_edrain := pc_edrain pc |},
         entry a (OMsg id (fst k) (snd k) o) [])
      | [] => (s, entry a (if pc_closed pc then OClosed else OEmpty) [])
      end)
  | AReadErr k => with_pc s a k (fun pc =>
      match pc_errs pc with
      | e :: r =>
        (set_pc s k {| pc_off := pc_off pc; pc_hwm := pc_hwm pc; pc_msgs := pc_msgs pc; pc_errs := r;
                       pc_consumed := pc_consumed pc; pc_closed := pc_closed pc; pc_mdrain := pc_mdrain pc; pc_edrain := pc_edrain pc |},
         entry a (OErrv e (fst k) (snd k)) [])
      | [] => (s, entry a (if pc_closed pc then OClosed else OEmpty) [])
      end)
  | AHwm k => with_pc s a k (fun pc => (s, entry a (OHwm (pc_hwm pc + 1)) []))
  | AClosePC k => with_pc s a k (fun pc =>
      (set_pc s k (close_pc pc),
       {| t_act := a; t_obs := close_ret pc; t_rep := close_reports k pc; t_dropm := dropped_msgs k pc; t_drope := [] |}))
  | AAsyncClosePC k => with_pc s a k (fun pc =>
      (set_pc s k {| pc_off := pc_off pc; pc_hwm := pc_hwm pc; pc_msgs := pc_msgs pc; pc_errs := pc_errs pc;
                     pc_consumed := pc_consumed pc; pc_closed := true; pc_mdrain := pc_mdrain pc; pc_edrain := pc_edrain pc |},
       entry a ONone []))
  | ACloseAll =>
    ({| c_pcs := close_all (c_pcs s); c_meta := c_meta s |},
     {| t_act := a; t_obs := ONone; t_rep := close_all_reports (c_pcs s);
        t_dropm := close_all_dropm (c_pcs s); t_drope := close_all_drope (c_pcs s) |})
  | ASetMeta m => ({| c_pcs := c_pcs s; c_meta := m |}, entry a ONone [])
  | ATopics =>
    match c_meta s with
    | None => (s, entry a (OTopics (-4) []) [CRTopicsNoMeta])
    | Some m => (s, entry a (OTopics 0 (map fst m)) [])
    end
  | APartitions t =>
    match c_meta s with
    | None => (s, entry a (OParts (-4) []) [CRPartsNoMeta])
    | Some m => match lookup_meta t m with
                | None => (s, entry a (OParts (-5) []) [])
                | Some ps => (s, entry a (OParts 0 ps) [])
                end
    end
  | AHwms => (s, entry a (OHwms (hwms (c_pcs s))) [])
  end.

Fixpoint crun (s : cst) (acts : list cact) : cst * list centry :=
  match acts with
  | [] => (s, [])
  | a :: r => let '(s1, e) := cstep s a in
              let '(s2, es) := crun s1 r in (s2, e :: es)
  end.
